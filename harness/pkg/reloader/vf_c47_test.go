//go:build verif

package reloader

import (
	"bytes"
	"compress/gzip"
	"context"
	"errors"
	"fmt"
	"math/rand"
	"net/url"
	"os"
	"path/filepath"
	"sort"
	"strings"
	"sync"
	"testing"
	"time"

	"github.com/thanos-io/thanos/pkg/verifhook/vfkit"
)

// vfc47Trigger is the fake TriggerReloader installed as Reloader.tr. It records every attempt and can be told to
// fail the next k attempts; a failing attempt also cancels the context of the running apply (the "watch interval
// elapsed" of the real Watch loop), so that one apply call = one logical step and never waits on a timer.
type vfc47Trigger struct {
	mu       sync.Mutex
	attempts []bool // true = success
	failNext int
	cancel   context.CancelFunc
}

func (f *vfc47Trigger) TriggerReload(context.Context) error {
	f.mu.Lock()
	defer f.mu.Unlock()
	if f.failNext > 0 {
		f.failNext--
		f.attempts = append(f.attempts, false)
		if f.cancel != nil {
			f.cancel()
		}
		return errors.New("vf: reload endpoint down")
	}
	f.attempts = append(f.attempts, true)
	return nil
}

const (
	vfc47VarA     = "VFC47_A"
	vfc47VarB     = "VFC47_B"
	vfc47VarUnset = "VFC47_UNSET"
)

// vfc47Expand is the oracle's own $(VAR) substitution. unsetRef reports a reference to an unset variable.
func vfc47Expand(b []byte, env map[string]string) (out []byte, unsetRef bool) {
	isName := func(c byte) bool {
		return c == '_' || (c >= '0' && c <= '9') || (c >= 'a' && c <= 'z') || (c >= 'A' && c <= 'Z')
	}
	for i := 0; i < len(b); {
		if b[i] == '$' && i+1 < len(b) && b[i+1] == '(' {
			j := i + 2
			for j < len(b) && isName(b[j]) {
				j++
			}
			if j > i+2 && j < len(b) && b[j] == ')' {
				name := string(b[i+2 : j])
				if v, ok := env[name]; ok {
					out = append(out, v...)
				} else {
					unsetRef = true
					out = append(out, b[i:j+1]...)
				}
				i = j + 1
				continue
			}
		}
		out = append(out, b[i])
		i++
	}
	return out, unsetRef
}

type vfc47File struct {
	Plain []byte
	Gz    bool
	rawGz []byte // gzip form, computed once (a gzip.Writer is ~1.4 MB, very slow to allocate under the race detector)
}

var vfc47GzW *gzip.Writer // harness is single-goroutine

func vfc47NewFile(plain []byte, gz bool) vfc47File {
	f := vfc47File{Plain: plain, Gz: gz}
	if gz {
		var buf bytes.Buffer
		if vfc47GzW == nil {
			vfc47GzW = gzip.NewWriter(&buf)
		} else {
			vfc47GzW.Reset(&buf)
		}
		_, _ = vfc47GzW.Write(plain)
		_ = vfc47GzW.Close()
		f.rawGz = buf.Bytes()
	}
	return f
}

func (f vfc47File) raw() []byte {
	if !f.Gz {
		return f.Plain
	}
	return f.rawGz
}

var vfc47Tokens = []string{"global:", "  scrape_interval: 15s", "  replica: '$(" + vfc47VarA + ")'", "v=$(" + vfc47VarB + ")-$(" + vfc47VarA + ")", "$(", "$()", "$(" + vfc47VarA,
	"$$(" + vfc47VarA + ")", "$($(" + vfc47VarB + "))", "é", "", "rule_files: ['/etc/rules/*.yml']", "${" + vfc47VarA + "}", "$" + vfc47VarA}

func vfc47Content(rng *rand.Rand, allowUnset bool) vfc47File {
	n := rng.Intn(6)
	var lines []string
	for i := 0; i < n; i++ {
		lines = append(lines, vfkit.Pick(rng, vfc47Tokens))
	}
	if allowUnset && rng.Intn(6) == 0 {
		lines = append(lines, "x: $("+vfc47VarUnset+")")
	}
	lines = append(lines, fmt.Sprintf("# %d", rng.Intn(1000)))
	s := strings.Join(lines, "\n")
	if rng.Intn(8) == 0 {
		s = "" // empty file
	}
	return vfc47NewFile([]byte(s), len(s) > 0 && rng.Intn(5) == 0)
}

// vfc47World is the harness' view of the file system and environment it controls.
type vfc47World struct {
	root       string
	cfgFile    string // "" = none
	cfgOut     string // "" = none
	cfgDirs    []CfgDirOption
	watched    []string
	tolerate   bool
	env        map[string]string
	files      map[string]vfc47File // every input file the harness wrote (absolute path)
	prev       map[string]vfc47File // previous content, for "revert"
	log        []string
	definite   int
	triggerLog []string
}

func (w *vfc47World) write(path string, f vfc47File) error {
	if old, ok := w.files[path]; ok {
		w.prev[path] = old
	}
	w.files[path] = f
	if err := os.MkdirAll(filepath.Dir(path), 0o777); err != nil {
		return err
	}
	return os.WriteFile(path, f.raw(), 0o666)
}

func (w *vfc47World) remove(path string) error {
	delete(w.files, path)
	delete(w.prev, path)
	return os.Remove(path)
}

// move relocates a file (same bytes) with rename(2); an existing destination is replaced.
func (w *vfc47World) move(src, dst string) error {
	if err := os.MkdirAll(filepath.Dir(dst), 0o777); err != nil {
		return err
	}
	if err := os.Rename(src, dst); err != nil {
		return err
	}
	w.files[dst] = w.files[src]
	delete(w.files, src)
	delete(w.prev, src)
	delete(w.prev, dst)
	return nil
}

func (w *vfc47World) inDir(dir string, recursive bool) []string {
	var out []string
	for p := range w.files {
		if filepath.Dir(p) == dir || (recursive && strings.HasPrefix(p, dir+string(filepath.Separator))) {
			out = append(out, p)
		}
	}
	sort.Strings(out)
	return out
}

// snapshot = everything whose change must trigger a reload: raw bytes of the config file, of the top-level files
// of every config directory and of every file below the watched directories, keyed by path.
func (w *vfc47World) snapshot() string {
	var paths []string
	if w.cfgFile != "" {
		paths = append(paths, w.cfgFile)
	}
	for _, d := range w.cfgDirs {
		paths = append(paths, w.inDir(d.Dir, false)...)
	}
	for _, d := range w.watched {
		paths = append(paths, w.inDir(d, true)...)
	}
	var sb strings.Builder
	for _, p := range paths {
		fmt.Fprintf(&sb, "%q=%q;", p, w.files[p].raw())
	}
	return sb.String()
}

// normalised inputs (those that get an output file): path of input -> path of output
func (w *vfc47World) outputs() map[string]string {
	m := map[string]string{}
	if w.cfgFile != "" && w.cfgOut != "" {
		m[w.cfgFile] = w.cfgOut
	}
	for _, d := range w.cfgDirs {
		for _, p := range w.inDir(d.Dir, false) {
			m[p] = filepath.Join(d.OutputDir, filepath.Base(p))
		}
	}
	return m
}

// broken: without tolerance, some normalised input references an unset variable (apply cannot succeed).
func (w *vfc47World) broken() []string {
	if w.tolerate {
		return nil
	}
	var out []string
	for in := range w.outputs() {
		if _, unset := vfc47Expand(w.files[in].Plain, w.env); unset {
			out = append(out, in)
		}
	}
	sort.Strings(out)
	return out
}

func (w *vfc47World) setenv(k, v string) {
	w.env[k] = v
	_ = os.Setenv(k, v)
}

type vfc47Model struct {
	haveOK   bool
	lastOK   string
	pending  bool // the last reload attempt failed and no reload succeeded since
	envMaybe bool // environment changed since the last successful reload: a reload is allowed, not required
}

func TestVF_C47(t *testing.T) {
	r := vfkit.Start(t, "C47")
	defer r.Finish()
	r.Rule("case = a history of 1..12 steps {edit / rewrite-same / revert the config file, add/edit/remove a file in a config dir, write/remove/move (same name and bytes, to another watched dir or sub-directory)/swap-contents of files below 1..2 watched dirs, move a file between two config dirs, change an env value, " +
		"make the next 1..2 reloads fail, apply} over real temp files, for config file only / dirs only / both / with watched dirs, gzip inputs, with and without tolerance of unset variables; " +
		"the real Reloader.apply is the logical step, a fake TriggerReloader is installed as r.tr; oracle: per apply a reload attempt is seen iff raw input content differs from the content at the " +
		"last successful reload (content is keyed by path: a relocated file is a change) or a failed reload is pending (first apply and env-only changes: either); after the history, two healthy applies, then every output equals its input " +
		"decompressed with $(VAR) substituted by the oracle's own expander, no output without input, and a third apply attempts no reload; distinct = hash of the history; " +
		"non-trivial = fixed point reached and at least 2 applies had a definite expectation")
	n := r.N(500, 20000) // real temp files: 10 ms (idle box) to 150 ms (loaded box) per history in this sandbox
	r.Require(int64(n)*8/10, n/3)
	r.Assume("one Reloader.apply call is the logical step of Watch (what every fsnotify event / watch tick runs); retry interval 1ms, a failing reload cancels the step's context")
	r.Assume("the reloader process' environment is normally fixed; env changes in a history only make a reload optional, never required")
	base := t.TempDir()
	for _, k := range []string{vfc47VarA, vfc47VarB, vfc47VarUnset} {
		old, had := os.LookupEnv(k)
		defer func(k, old string, had bool) {
			if had {
				_ = os.Setenv(k, old)
			} else {
				_ = os.Unsetenv(k)
			}
		}(k, old, had)
	}
	for c := 0; c < n; c++ {
		if !r.Want(c) {
			continue
		}
		rng := r.Rand(c)
		root := filepath.Join(base, fmt.Sprintf("c%d", c))
		w := &vfc47World{root: root, env: map[string]string{}, files: map[string]vfc47File{}, prev: map[string]vfc47File{}}
		wit := map[string]any{}
		r.Guard(c, "reloader.apply", wit, func() { vfc47Case(r, c, rng, w, wit) })
		_ = os.RemoveAll(root)
	}
}

func vfc47Case(r *vfkit.Run, c int, rng *rand.Rand, w *vfc47World, wit map[string]any) {
	_ = os.Unsetenv(vfc47VarUnset)
	w.setenv(vfc47VarA, vfkit.Pick(rng, []string{"1", "prod", "", "a b"}))
	w.setenv(vfc47VarB, vfkit.Pick(rng, []string{"eu", "$(" + vfc47VarA + ")", "0"}))
	w.tolerate = rng.Intn(2) == 0
	allowUnset := rng.Intn(3) == 0
	mode := vfkit.Pick(rng, []string{"cfg", "cfg+out", "cfg+out", "dirs", "cfg+out+dirs", "cfg+out+dirs", "cfg+out+dirs+watched", "watched", "dirs+watched"})
	if c == 0 { // directed history, see the report: an output written by a failed apply whose input then disappears
		mode, w.tolerate = "dirs", false
	}
	mk := func(p string) string {
		if err := os.MkdirAll(p, 0o777); err != nil {
			r.T.Fatalf("harness: %v", err)
		}
		return p
	}
	mk(w.root)
	if strings.Contains(mode, "cfg") {
		w.cfgFile = filepath.Join(mk(filepath.Join(w.root, "in")), "prometheus.yml")
		if strings.Contains(mode, "out") {
			w.cfgOut = filepath.Join(mk(filepath.Join(w.root, "out")), "prometheus.out.yml")
		}
		if err := w.write(w.cfgFile, vfc47Content(rng, false)); err != nil {
			r.T.Fatalf("harness: %v", err)
		}
	}
	if strings.Contains(mode, "dirs") {
		nd := 1 + rng.Intn(2)
		for i := 0; i < nd; i++ {
			w.cfgDirs = append(w.cfgDirs, CfgDirOption{Dir: mk(filepath.Join(w.root, fmt.Sprintf("d%d", i))), OutputDir: mk(filepath.Join(w.root, fmt.Sprintf("o%d", i)))})
		}
	}
	if strings.Contains(mode, "watched") {
		w.watched = append(w.watched, mk(filepath.Join(w.root, "w0")))
		if rng.Intn(2) == 0 {
			w.watched = append(w.watched, mk(filepath.Join(w.root, "w1")))
		}
	}
	wit["mode"], wit["tolerate_unset"] = mode, w.tolerate
	u, _ := url.Parse("http://127.0.0.1:1/-/reload")
	rl := New(nil, nil, &Options{
		ReloadURL: u, CfgFile: w.cfgFile, CfgOutputFile: w.cfgOut, CfgDirs: w.cfgDirs, WatchedDirs: w.watched,
		WatchInterval: time.Hour, RetryInterval: time.Millisecond, TolerateEnvVarExpansionErrors: w.tolerate,
	})
	tr := &vfc47Trigger{}
	rl.tr = tr
	var m vfc47Model
	applies, violated := 0, false
	okSeen := map[string]bool{}

	logf := func(f string, a ...any) { w.log = append(w.log, fmt.Sprintf(f, a...)); wit["history"] = w.log }
	rel := func(p string) string { s, _ := filepath.Rel(w.root, p); return s }

	// apply = one logical step, judged against the model
	apply := func(phase string) (err error) {
		ctx, cancel := context.WithCancel(context.Background())
		tr.mu.Lock()
		tr.cancel = cancel
		before := len(tr.attempts)
		tr.mu.Unlock()
		cur := w.snapshot()
		broken := w.broken()
		err = rl.apply(ctx)
		cancel()
		tr.mu.Lock()
		got := append([]bool(nil), tr.attempts[before:]...)
		tr.mu.Unlock()
		applies++
		if err == nil {
			for in := range w.outputs() {
				okSeen[in] = true // this input existed during an apply that completed
			}
		}
		logf("apply[%s] -> err=%s attempts=%v (broken inputs %d)", phase, strings.ReplaceAll(fmt.Sprint(err), w.root+string(filepath.Separator), ""), got, len(broken))
		r.Eval(1)
		if err == nil && len(broken) == 0 {
			expect := "either"
			switch {
			case m.pending:
				expect = "retry"
			case !m.haveOK || m.envMaybe:
			case cur != m.lastOK:
				expect = "must"
			default:
				expect = "none"
			}
			if expect != "either" {
				w.definite++
			}
			switch {
			case expect == "retry" && len(got) == 0:
				r.Violation(c, "trigger:failed-reload-not-retried", "the previous reload attempt failed, no reload succeeded since, and this step attempted no reload", wit)
				violated = true
			case expect == "must" && len(got) == 0:
				r.Violation(c, "trigger:missing-after-content-change", "input content differs from the content at the last successful reload but this step attempted no reload", wit)
				violated = true
			case expect == "none" && len(got) > 0:
				r.Violation(c, "trigger:spurious-without-content-change", fmt.Sprintf("input content equals the content at the last successful reload, no failed reload is pending, but this step attempted %d reload(s)", len(got)), wit)
				violated = true
			}
		}
		ok := false
		for _, g := range got {
			ok = ok || g
		}
		switch {
		case ok:
			m = vfc47Model{haveOK: true, lastOK: cur}
		case len(got) > 0:
			m.pending = true
		}
		return err
	}

	dirFileNames := []string{"a.yml", "b.yml", "c.rules"}
	steps := 1 + rng.Intn(12)
	if c == 0 {
		d := w.cfgDirs[0].Dir
		script := []func(){
			func() {
				_ = w.write(filepath.Join(d, "b.yml"), vfc47NewFile([]byte("ok"), false))
				logf("write d0/b.yml")
			},
			func() { _ = apply("history") },
			func() {
				_ = w.write(filepath.Join(d, "a.yml"), vfc47NewFile([]byte("new"), false))
				logf("add d0/a.yml")
			},
			func() {
				_ = w.write(filepath.Join(d, "b.yml"), vfc47NewFile([]byte("x: $("+vfc47VarUnset+")"), false))
				logf("edit d0/b.yml: references unset variable")
			},
			func() { _ = apply("history") },
			func() { _ = w.remove(filepath.Join(d, "a.yml")); logf("remove d0/a.yml") },
			func() {
				_ = w.write(filepath.Join(d, "b.yml"), vfc47NewFile([]byte("ok2"), false))
				logf("edit d0/b.yml: fixed")
			},
		}
		for _, s := range script {
			s()
		}
		steps = 0
	}
	for s := 0; s < steps && !violated; s++ {
		var kinds []string
		if w.cfgFile != "" {
			kinds = append(kinds, "cfg-edit", "cfg-edit", "cfg-same", "cfg-revert")
		}
		if len(w.cfgDirs) > 0 {
			kinds = append(kinds, "dir-write", "dir-write", "dir-write", "dir-remove", "dir-same", "dir-revert")
			if len(w.cfgDirs) > 1 {
				kinds = append(kinds, "dir-move")
			}
		}
		if len(w.watched) > 0 {
			kinds = append(kinds, "watched-write", "watched-write", "watched-remove", "watched-move", "watched-move", "watched-swap")
		}
		kinds = append(kinds, "env", "fail", "apply", "apply", "apply")
		werr := error(nil)
		switch k := vfkit.Pick(rng, kinds); k {
		case "cfg-edit":
			f := vfc47Content(rng, allowUnset && w.cfgOut != "")
			werr = w.write(w.cfgFile, f)
			logf("edit %s (gz=%v) %q", rel(w.cfgFile), f.Gz, f.Plain)
		case "cfg-same":
			werr = w.write(w.cfgFile, w.files[w.cfgFile])
			logf("rewrite %s with identical content", rel(w.cfgFile))
		case "cfg-revert":
			if p, ok := w.prev[w.cfgFile]; ok {
				werr = w.write(w.cfgFile, p)
				logf("revert %s to previous content %q", rel(w.cfgFile), p.Plain)
			}
		case "dir-write":
			d := vfkit.Pick(rng, w.cfgDirs)
			p := filepath.Join(d.Dir, vfkit.Pick(rng, dirFileNames))
			f := vfc47Content(rng, allowUnset)
			werr = w.write(p, f)
			logf("write %s (gz=%v) %q", rel(p), f.Gz, f.Plain)
		case "dir-remove", "dir-same", "dir-revert":
			d := vfkit.Pick(rng, w.cfgDirs)
			fs := w.inDir(d.Dir, false)
			if len(fs) == 0 {
				break
			}
			p := vfkit.Pick(rng, fs)
			switch k {
			case "dir-remove":
				werr = w.remove(p)
				logf("remove %s", rel(p))
			case "dir-same":
				werr = w.write(p, w.files[p])
				logf("rewrite %s with identical content", rel(p))
			default:
				if pv, ok := w.prev[p]; ok {
					werr = w.write(p, pv)
					logf("revert %s to previous content %q", rel(p), pv.Plain)
				}
			}
		case "dir-move": // same name, same bytes, other config directory
			from := rng.Intn(len(w.cfgDirs))
			fs := w.inDir(w.cfgDirs[from].Dir, false)
			if len(fs) == 0 {
				break
			}
			p := vfkit.Pick(rng, fs)
			dst := filepath.Join(w.cfgDirs[(from+1)%len(w.cfgDirs)].Dir, filepath.Base(p))
			werr = w.move(p, dst)
			logf("move %s -> %s", rel(p), rel(dst))
		case "watched-move": // relocation only: same base name, same bytes, another watched dir or sub-directory
			var fs []string
			for _, d := range w.watched {
				fs = append(fs, w.inDir(d, true)...)
			}
			if len(fs) == 0 {
				break
			}
			p := vfkit.Pick(rng, fs)
			var dsts []string
			for _, d := range w.watched {
				for _, sub := range []string{"", "sub", "sub/deep", "other"} {
					if dst := filepath.Join(d, sub, filepath.Base(p)); dst != p {
						dsts = append(dsts, dst)
					}
				}
			}
			dst := vfkit.Pick(rng, dsts)
			werr = w.move(p, dst)
			logf("move %s -> %s", rel(p), rel(dst))
		case "watched-swap": // two files exchange their contents
			var fs []string
			for _, d := range w.watched {
				fs = append(fs, w.inDir(d, true)...)
			}
			if len(fs) < 2 {
				break
			}
			fs = vfkit.Perm(rng, fs)
			a, b := w.files[fs[0]], w.files[fs[1]]
			if werr = w.write(fs[0], b); werr == nil {
				werr = w.write(fs[1], a)
			}
			logf("swap contents of %s and %s", rel(fs[0]), rel(fs[1]))
		case "watched-write":
			p := filepath.Join(vfkit.Pick(rng, w.watched), vfkit.Pick(rng, []string{"x.yml", "x.yml", "sub/x.yml", "sub/y.yml", "sub/deep/z.yml"}))
			f := vfc47Content(rng, false)
			werr = w.write(p, f)
			logf("write %s %q", rel(p), f.Plain)
		case "watched-remove":
			fs := w.inDir(vfkit.Pick(rng, w.watched), true)
			if len(fs) > 0 {
				p := vfkit.Pick(rng, fs)
				werr = w.remove(p)
				logf("remove %s", rel(p))
			}
		case "env":
			k := vfkit.Pick(rng, []string{vfc47VarA, vfc47VarB})
			v := vfkit.Pick(rng, []string{"1", "2", "prod", "", "$(" + vfc47VarA + ")"})
			if w.env[k] != v {
				w.setenv(k, v)
				m.envMaybe = true
			}
			logf("setenv %s=%q", k, v)
		case "fail":
			tr.mu.Lock()
			tr.failNext = 1 + rng.Intn(2)
			logf("next %d reload attempt(s) fail", tr.failNext)
			tr.mu.Unlock()
		case "apply":
			_ = apply("history")
		}
		if werr != nil {
			r.T.Fatalf("harness: file operation failed: %v", werr)
		}
	}
	if violated {
		return
	}
	// repair a broken configuration in most histories, so that a fixed point exists
	if br := w.broken(); len(br) > 0 && (c == 0 || rng.Intn(4) != 0) {
		for _, p := range br {
			f := vfc47NewFile(bytes.ReplaceAll(w.files[p].Plain, []byte("$("+vfc47VarUnset+")"), []byte("fixed")), w.files[p].Gz)
			if err := w.write(p, f); err != nil {
				r.T.Fatalf("harness: %v", err)
			}
			logf("repair %s: reference to the unset variable removed", rel(p))
		}
	}
	if len(w.broken()) > 0 {
		r.Count("histories_ending_with_unresolvable_variable", 1)
		_ = apply("broken-end") // must not panic; nothing else is asserted
		return
	}
	// fixed point: the reload endpoint is healthy, nothing changes any more
	tr.mu.Lock()
	tr.failNext = 0
	tr.mu.Unlock()
	for i := 0; i < 2; i++ {
		if err := apply(fmt.Sprintf("settle-%d", i+1)); err != nil {
			r.Violation(c, "fixed-point:apply-error", fmt.Sprintf("apply returns an error although every referenced variable is set or tolerated: %v", err), wit)
			return
		}
		if violated {
			return
		}
	}
	r.Eval(1)
	outs := w.outputs()
	wantOut := map[string]bool{}
	ins := make([]string, 0, len(outs))
	for in := range outs {
		ins = append(ins, in)
	}
	sort.Strings(ins)
	for _, in := range ins {
		out := outs[in]
		wantOut[out] = true
		want, _ := vfc47Expand(w.files[in].Plain, w.env)
		got, err := os.ReadFile(out)
		if err != nil {
			r.Violation(c, "output:missing", fmt.Sprintf("output %s of input %s does not exist after two applies: %v", rel(out), rel(in), err), wit)
			return
		}
		if !bytes.Equal(got, want) {
			wit["output"], wit["want"] = string(got), string(want)
			r.Violation(c, "output:differs-from-expanded-input", fmt.Sprintf("output %s = %q, input %s expanded = %q", rel(out), got, rel(in), want), wit)
			return
		}
	}
	for _, d := range w.cfgDirs {
		ents, err := os.ReadDir(d.OutputDir)
		if err != nil {
			r.T.Fatalf("harness: %v", err)
		}
		for _, e := range ents {
			p := filepath.Join(d.OutputDir, e.Name())
			if !wantOut[p] && !strings.HasSuffix(e.Name(), ".tmp") {
				fp := "output:stale-output-not-removed"
				if !okSeen[filepath.Join(d.Dir, e.Name())] {
					// the input never existed during an apply that completed: only applies that returned an error wrote this output
					fp = "output:stale-output-not-removed:written-only-by-applies-that-failed"
				}
				r.Violation(c, fp, fmt.Sprintf("output %s exists although its input %s is gone", rel(p), filepath.Join(rel(d.Dir), e.Name())), wit)
				return
			}
		}
	}
	if err := apply("idle"); err != nil {
		r.Violation(c, "fixed-point:apply-error", fmt.Sprintf("idle apply returns an error: %v", err), wit)
		return
	}
	if violated {
		return
	}
	r.Count("histories_at_fixed_point", 1)
	r.Count("outputs_compared", len(outs))
	if w.definite >= 2 {
		r.Distinct(strings.Join(w.log, "\n"))
	}
	r.Sample(map[string]any{"mode": wit["mode"], "tolerate_unset": w.tolerate, "history": w.log})
}
