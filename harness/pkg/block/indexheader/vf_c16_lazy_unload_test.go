//go:build verif

package indexheader

// C16: lazy index headers stay correct under concurrent idle unloading.
//
// Real ReaderPool + LazyBinaryReader (mmap-file backed) are driven by 2..16 goroutines issuing all six
// Reader methods while a sweeper goroutine runs ReaderPool.closeIdleReaders / unloadIfIdleSince / Close
// and the verifhook delay points "lazy.upgrade" / "lazy.downgrade" widen (or place an unload into) the
// two lock-upgrade windows of LazyBinaryReader.load. Every answer is compared with the answer an
// always-loaded BinaryReader gave for the same operation on the same block.
//
// Uses the index builder / list generator of vf_c11_header_equals_index_test.go.

import (
	"context"
	"errors"
	"fmt"
	"os"
	"path/filepath"
	"runtime"
	"runtime/debug"
	"strings"
	"sync"
	"sync/atomic"
	"testing"
	"time"

	"github.com/go-kit/log"
	"github.com/prometheus/client_golang/prometheus"
	dto "github.com/prometheus/client_model/go"
	"github.com/prometheus/prometheus/tsdb/index"
	"github.com/thanos-io/objstore/providers/filesystem"

	"github.com/thanos-io/thanos/pkg/verifhook"
	"github.com/thanos-io/thanos/pkg/verifhook/vfkit"
)

var vfc16Kinds = []string{"indexversion", "labelnames", "labelvalues", "postingsoffset", "postingsoffsets", "lookupsymbol"}

// vfc16Op is one operation of the pool with the always-loaded reader's answer.
type vfc16Op struct {
	kind    int
	name    string
	value   string
	values  []string
	ref     uint32
	want    string // canonical form of the always-loaded reader's answer
	wantErr string // its error text ("" = no error)
}

func (op *vfc16Op) String() string {
	switch op.kind {
	case 0:
		return "IndexVersion()"
	case 1:
		return "LabelNames()"
	case 2:
		return fmt.Sprintf("LabelValues(%q)", op.name)
	case 3:
		return fmt.Sprintf("PostingsOffset(%q,%q)", op.name, op.value)
	case 4:
		return fmt.Sprintf("PostingsOffsets(%q,%q)", op.name, op.values)
	}
	return fmt.Sprintf("LookupSymbol(%d)", op.ref)
}

func vfc16Call(rd Reader, op *vfc16Op) (any, error) {
	switch op.kind {
	case 0:
		return rd.IndexVersion()
	case 1:
		return rd.LabelNames()
	case 2:
		return rd.LabelValues(op.name)
	case 3:
		return rd.PostingsOffset(op.name, op.value)
	case 4:
		return rd.PostingsOffsets(op.name, op.values...)
	}
	return rd.LookupSymbol(context.Background(), op.ref)
}

// vfc16Ser is the canonical form of an answer. It reads every byte of every returned string.
func vfc16Ser(a any) string {
	switch v := a.(type) {
	case int:
		return fmt.Sprintf("%d", v)
	case string:
		return fmt.Sprintf("%q", v)
	case []string:
		return fmt.Sprintf("%d%q", len(v), v)
	case index.Range:
		return fmt.Sprintf("%v", v)
	case []index.Range:
		return fmt.Sprintf("%d%v", len(v), v)
	}
	return fmt.Sprintf("?%T", a)
}

// vfc16GuardedCall runs the call; a panic (including a memory fault, see SetPanicOnFault) is returned.
func vfc16GuardedCall(rd Reader, op *vfc16Op) (ans any, err error, pnc string) {
	defer func() {
		if p := recover(); p != nil {
			pnc = fmt.Sprintf("%v\n%s", p, debug.Stack())
		}
	}()
	ans, err = vfc16Call(rd, op)
	return
}

// vfc16GuardedSer consumes an answer; fault=true if reading it faulted (memory no longer mapped).
func vfc16GuardedSer(a any) (s string, fault string) {
	defer func() {
		if p := recover(); p != nil {
			fault = fmt.Sprint(p)
		}
	}()
	return vfc16Ser(a), ""
}

type vfc16Block struct {
	ix  *vfc11Index
	ops []vfc16Op
	lv  []int // indexes of LabelValues ops with a non-empty answer
}

// vfc16BuildBlock generates an index and records the always-loaded BinaryReader's answers.
func vfc16BuildBlock(ctx context.Context, r *vfkit.Run, root string, b int) (*vfc16Block, error) {
	rng := r.RandS("block", b)
	ix, err := vfc11BuildIndex(ctx, rng, filepath.Join(root, fmt.Sprintf("blk%d", b)), 900000+b, 150, 90, false)
	if err != nil {
		return nil, err
	}
	o, err := vfc11LoadOracle(ix.indexPath)
	if err != nil {
		return nil, err
	}
	eager, err := vfc11OpenReader(ctx, ix, filepath.Join(root, fmt.Sprintf("eager%d", b)), 1+rng.Intn(8), "file")
	if err != nil {
		return nil, err
	}
	defer func() { _ = eager.Close() }()
	blk := &vfc16Block{ix: ix}
	add := func(op vfc16Op) {
		ans, err := vfc16Call(eager, &op)
		if err != nil {
			op.wantErr = err.Error()
		} else {
			op.want = vfc16Ser(ans) // heap copy: independent of the eager reader's mmap
		}
		if op.kind == 2 && err == nil && len(ans.([]string)) > 0 {
			blk.lv = append(blk.lv, len(blk.ops))
		}
		blk.ops = append(blk.ops, op)
	}
	allName, allValue := index.AllPostingsKey()
	add(vfc16Op{kind: 0})
	add(vfc16Op{kind: 1})
	add(vfc16Op{kind: 3, name: allName, value: allValue})
	add(vfc16Op{kind: 2, name: "absent-name"})
	add(vfc16Op{kind: 3, name: "absent-name", value: "x"})
	for _, n := range o.names {
		add(vfc16Op{kind: 2, name: n})
		add(vfc16Op{kind: 2, name: n}) // LabelValues is the only method returning header-backed memory: weight it
		vs := o.values[n]
		for k := 0; k < 4; k++ {
			add(vfc16Op{kind: 3, name: n, value: vfkit.Pick(rng, vs)})
		}
		add(vfc16Op{kind: 3, name: n, value: vfc11Absent(rng, vs)})
		for k := 0; k < 5; k++ {
			add(vfc16Op{kind: 4, name: n, values: vfc11GenList(rng, vs, 1+rng.Intn(8))})
		}
	}
	for k := 0; k < 12 && len(o.symRefs) > 0; k++ {
		add(vfc16Op{kind: 5, ref: o.symRefs[rng.Intn(len(o.symRefs))]})
	}
	add(vfc16Op{kind: 5, ref: o.badRefs[0]})
	return blk, nil
}

// event log of one case ------------------------------------------------------------------------

const (
	vfc16EvStart = iota
	vfc16EvEnd
	vfc16EvUnloadBegin
	vfc16EvUnloadEnd     // effective (the header was unmapped)
	vfc16EvUnloadEndNoop // nothing was unloaded
	vfc16EvWinUpgrade    // a call is between RUnlock and Lock in load()
	vfc16EvWinDowngrade  // a call is between Unlock and RLock in load()
	vfc16EvCleanErr      // a call returned errUnloadedWhileLoading
)

type vfc16Ev struct {
	kind byte
	id   int32
}

type vfc16Log struct {
	mu sync.Mutex
	ev []vfc16Ev
}

func (l *vfc16Log) add(kind byte, id int32) {
	l.mu.Lock()
	l.ev = append(l.ev, vfc16Ev{kind, id})
	l.mu.Unlock()
}

// analyse returns the interleaving signature, the number of effective unloads and the number of
// effective unloads that some call spanned entirely (started before the unload began, returned after
// it ended) — the exact meaning of "unload during an in-flight call" used by this monitor.
func (l *vfc16Log) analyse() (sig string, unloads, inflightUnloads int) {
	l.mu.Lock()
	defer l.mu.Unlock()
	open := map[int32]struct{}{}
	var snap []int32
	var sb strings.Builder
	last := ""
	tok := func(s string) {
		if s != last {
			sb.WriteString(s)
			last = s
		}
	}
	for _, e := range l.ev {
		switch e.kind {
		case vfc16EvStart:
			open[e.id] = struct{}{}
		case vfc16EvEnd:
			delete(open, e.id)
		case vfc16EvUnloadBegin:
			snap = snap[:0]
			for id := range open {
				snap = append(snap, id)
			}
		case vfc16EvUnloadEnd:
			unloads++
			k := 0
			for _, id := range snap {
				if _, ok := open[id]; ok {
					k++
				}
			}
			if k > 0 {
				inflightUnloads++
				tok("U+")
			} else {
				tok("U0")
			}
		case vfc16EvWinUpgrade:
			tok("u")
		case vfc16EvWinDowngrade:
			tok("d")
		case vfc16EvCleanErr:
			tok("X")
		}
	}
	return sb.String(), unloads, inflightUnloads
}

func vfc16Counter(c prometheus.Counter) float64 {
	var m dto.Metric
	if err := c.Write(&m); err != nil {
		return -1
	}
	return m.GetCounter().GetValue()
}

type vfc16Suspect struct {
	reader int
	op     *vfc16Op
	what   string
}

// vfc16Case is the shared state of one concurrent case.
type vfc16Case struct {
	r       *vfkit.Run
	c       int
	pool    *ReaderPool
	readers []*LazyBinaryReader
	blocks  []*vfc16Block // block of readers[i]
	log     vfc16Log
	unlMu   sync.Mutex // serialises the monitor's unload actions so that each one's effect is known
	hookN   atomic.Uint64
	hookMix uint64
	desc    map[string]any

	smu      sync.Mutex
	suspects []vfc16Suspect
}

// unload performs one unload action and logs whether it unmapped a header.
func (cs *vfc16Case) unload(action int, which int, id int32) {
	cs.unlMu.Lock()
	defer cs.unlMu.Unlock()
	before := vfc16Counter(cs.pool.metrics.lazyReader.unloadCount)
	cs.log.add(vfc16EvUnloadBegin, id)
	switch action {
	case 0:
		cs.pool.closeIdleReaders()
	case 1:
		_ = cs.readers[which%len(cs.readers)].unloadIfIdleSince(0)
	case 2:
		_ = cs.readers[which%len(cs.readers)].unloadIfIdleSince(time.Now().UnixNano())
	case 3:
		_ = cs.readers[which%len(cs.readers)].Close()
	}
	if vfc16Counter(cs.pool.metrics.lazyReader.unloadCount) > before {
		cs.log.add(vfc16EvUnloadEnd, id)
	} else {
		cs.log.add(vfc16EvUnloadEndNoop, id)
	}
}

func vfc16Mix(x uint64) uint64 {
	x ^= x >> 33
	x *= 0xff51afd7ed558ccd
	x ^= x >> 33
	x *= 0xc4ceb9fe1a85ec53
	x ^= x >> 33
	return x
}

// hook is installed with verifhook.SetDelay: it runs inside LazyBinaryReader.load in the two windows
// where the calling goroutine holds no lock.
func (cs *vfc16Case) hook(point string) {
	k := cs.hookN.Add(1)
	if point == "lazy.upgrade" {
		cs.log.add(vfc16EvWinUpgrade, 0)
	} else {
		cs.log.add(vfc16EvWinDowngrade, 0)
	}
	x := vfc16Mix(cs.hookMix + k)
	switch x % 10 {
	case 0, 1, 2:
	case 3, 4:
		for i := uint64(0); i <= (x>>8)%3; i++ {
			runtime.Gosched()
		}
	case 5, 6:
		time.Sleep(time.Duration(10+(x>>8)%190) * time.Microsecond)
	case 7, 8:
		// an idle sweep lands exactly in this window
		cs.unload(0, 0, -1)
	case 9:
		cs.unload(1, int(x>>8), -1)
	}
}

func (cs *vfc16Case) worker(g int, nOps int, wg *sync.WaitGroup) {
	defer wg.Done()
	debug.SetPanicOnFault(true) // a read of an unmapped header becomes a recoverable panic of this goroutine
	rng := cs.r.RandS(fmt.Sprintf("worker-%d", g), cs.c)
	ri := g % len(cs.readers)
	rd, blk := cs.readers[ri], cs.blocks[ri]
	for i := 0; i < nOps; i++ {
		op := &blk.ops[rng.Intn(len(blk.ops))]
		if rng.Intn(4) == 0 && len(blk.lv) > 0 {
			op = &blk.ops[blk.lv[rng.Intn(len(blk.lv))]]
		}
		id := int32(g*100000 + i)
		cs.log.add(vfc16EvStart, id)
		ans, err, pnc := vfc16GuardedCall(rd, op)
		cs.log.add(vfc16EvEnd, id)
		if rng.Intn(3) == 0 {
			runtime.Gosched() // the consumer is not always prompt
		}
		cs.r.Eval(1)
		kind := vfc16Kinds[op.kind]
		cs.r.Count("ops_"+kind, 1)
		wit := func(extra map[string]any) map[string]any {
			m := map[string]any{"case": cs.desc, "goroutine": g, "op_index": i, "op": op.String(), "always_loaded_answer": op.want, "always_loaded_error": op.wantErr}
			for k, v := range extra {
				m[k] = v
			}
			return m
		}
		switch {
		case pnc != "":
			cs.r.Violation(cs.c, "panic-in-call:"+kind, fmt.Sprintf("%s on the lazy reader panicked/faulted while idle unloading ran: %s", op, strings.SplitN(pnc, "\n", 2)[0]), wit(map[string]any{"panic": pnc}))
		case err != nil && errors.Is(err, errUnloadedWhileLoading):
			cs.log.add(vfc16EvCleanErr, id)
			cs.r.Count("clean_unloaded_while_loading_errors", 1)
		case err != nil && op.wantErr != "" && err.Error() == op.wantErr:
			// the same error the always-loaded reader gives (value/symbol does not exist)
		case err != nil:
			cs.r.Violation(cs.c, "unclean-error:"+kind, fmt.Sprintf("%s on the lazy reader failed with %q; the always-loaded reader answers %s err=%q", op, err, op.want, op.wantErr), wit(map[string]any{"error": err.Error()}))
		case op.wantErr != "":
			got, _ := vfc16GuardedSer(ans)
			cs.r.Violation(cs.c, "wrong-answer:"+kind, fmt.Sprintf("%s on the lazy reader succeeded with %s; the always-loaded reader fails with %q", op, got, op.wantErr), wit(map[string]any{"got": got}))
		default:
			got, fault := vfc16GuardedSer(ans)
			if fault == "" && got == op.want {
				break
			}
			what := fmt.Sprintf("answer %s differs from the always-loaded reader's", got)
			if fault != "" {
				what = "reading the returned answer faulted: " + fault
			}
			if op.kind == 2 {
				// classified after the case in a quiescent state (was the answer wrong, or right but
				// backed by a header that was unmapped after the call returned?)
				cs.smu.Lock()
				if len(cs.suspects) < 64 {
					cs.suspects = append(cs.suspects, vfc16Suspect{reader: ri, op: op, what: what})
				}
				cs.smu.Unlock()
				cs.r.Count("labelvalues_answers_unusable_after_return", 1)
			} else if fault != "" {
				cs.r.Violation(cs.c, "answer-unreadable:"+kind, fmt.Sprintf("%s on the lazy reader: %s", op, what), wit(map[string]any{"fault": fault}))
			} else {
				cs.r.Violation(cs.c, "wrong-answer:"+kind, fmt.Sprintf("%s on the lazy reader: %s (%s)", op, what, op.want), wit(map[string]any{"got": got}))
			}
		}
	}
}

func (cs *vfc16Case) sweeper(stop <-chan struct{}, maxActions int, done *sync.WaitGroup) {
	defer done.Done()
	rng := cs.r.RandS("sweeper", cs.c)
	closed := false
	for a := 0; a < maxActions; a++ {
		select {
		case <-stop:
			return
		default:
		}
		switch x := rng.Intn(100); {
		case x < 60:
			cs.unload(0, 0, -2)
		case x < 85:
			cs.unload(1, rng.Intn(8), -2)
		case x < 97:
			cs.unload(2, rng.Intn(8), -2)
		default:
			if !closed && a > maxActions/50 {
				closed = true
				cs.r.Count("consumer_close_during_use", 1)
				cs.unload(3, rng.Intn(8), -2)
			}
		}
		if rng.Intn(4) == 0 {
			runtime.Gosched()
		} else {
			time.Sleep(time.Duration(20+rng.Intn(280)) * time.Microsecond)
		}
	}
}

func TestVF_C16(t *testing.T) {
	r := vfkit.Start(t, "C16")
	defer r.Finish()
	r.Rule("case = real ReaderPool (lazy, idle timeout 1ns/20us/1ms) with 1..3 mmap-backed LazyBinaryReaders over generated blocks, 2..16 goroutines x 200 operations drawn from all six Reader methods, " +
		"GOMAXPROCS cycled 1/2/4/16, a sweeper goroutine running closeIdleReaders / unloadIfIdleSince(0|now) / Close, hook points lazy.upgrade/lazy.downgrade doing nothing / Gosched / us-sleep / an idle sweep inside the window; " +
		"then a sequential probe: LabelValues answer consumed after an idle unload. oracle: each answer equals the always-loaded BinaryReader's answer for the same operation, or the error is errUnloadedWhileLoading " +
		"(or the same error the always-loaded reader gives); no panic/fault; race detector on. signature = order of window entries (u,d), effective unloads (U+ = a call spanned it entirely, U0) and clean errors (X), runs collapsed; " +
		"distinct/non-trivial = signature of a case with >=1 unload spanned by an in-flight call")
	n := r.N(60, 2000)
	nOps := 200
	minSig := r.N(20, 700)
	r.Require(int64(n*2*nOps), minSig)
	r.Assume("a 'clean error' is errUnloadedWhileLoading (the only error LazyBinaryReader defines for a concurrent unload); errors that the always-loaded reader returns for the same operation are accepted as equal answers")
	r.Assume("an answer is compared by reading all of it after the call returned, as any caller does; a reader is used again after Close (LazyBinaryReader documents automatic reload)")
	r.Assume("schedules are sampled (goroutine counts, GOMAXPROCS, hook actions, sweeper pauses), not enumerated")
	ctx := context.Background()
	root := t.TempDir()

	const nBlocks = 4
	var blocks []*vfc16Block
	for b := 0; b < nBlocks; b++ {
		blk, err := vfc16BuildBlock(ctx, r, root, b)
		if err != nil {
			t.Fatalf("cannot build block %d: %v", b, err)
		}
		blocks = append(blocks, blk)
	}
	defer verifhook.SetDelay(nil)
	defer runtime.GOMAXPROCS(runtime.GOMAXPROCS(0))

	sigs := map[string]struct{}{}
	const caseTimeout = 3 * time.Minute
	for c := 0; c < n; c++ {
		if !r.Want(c) {
			continue
		}
		rng := r.Rand(c)
		procs := []int{1, 2, 4, 16}[c%4]
		nG := 2 + rng.Intn(15)
		nReaders := 1 + rng.Intn(3)
		idle := vfkit.Pick(rng, []time.Duration{time.Nanosecond, time.Nanosecond, 20 * time.Microsecond, time.Millisecond})
		lazyDownload := rng.Intn(3) == 0
		dl := AlwaysEagerDownloadIndexHeader
		if lazyDownload {
			dl = AlwaysLazyDownloadIndexHeader
		}
		cs := &vfc16Case{r: r, c: c, hookMix: uint64(r.Seed())<<32 + uint64(c)<<8}
		cs.desc = map[string]any{"case": c, "goroutines": nG, "gomaxprocs": procs, "readers": nReaders, "idle_timeout": idle.String(), "lazy_download": lazyDownload, "ops_per_goroutine": nOps}
		// The pool is assembled without NewReaderPool's ticker goroutine (with a 1ns timeout it would spin
		// on time.After(0)); the sweeper goroutine of this monitor plays the ticker and calls the real
		// closeIdleReaders.
		cs.pool = &ReaderPool{
			logger:                log.NewNopLogger(),
			metrics:               NewReaderPoolMetrics(nil),
			lazyReaderEnabled:     true,
			lazyReaderIdleTimeout: idle,
			lazyReaders:           make(map[*LazyBinaryReader]struct{}),
			close:                 make(chan struct{}),
			lazyDownloadFunc:      dl,
		}
		caseDir := filepath.Join(root, fmt.Sprintf("case%d", c))
		var bkts []*filesystem.Bucket
		setupOK := true
		for i := 0; i < nReaders; i++ {
			blk := blocks[rng.Intn(len(blocks))]
			bkt, err := filesystem.NewBucket(blk.ix.bktDir)
			if err != nil {
				t.Fatalf("bucket: %v", err)
			}
			bkts = append(bkts, bkt)
			rd, err := cs.pool.NewBinaryReader(ctx, log.NewNopLogger(), bkt, filepath.Join(caseDir, fmt.Sprintf("reader%d", i)), blk.ix.id, 1+rng.Intn(16), nil)
			if err != nil {
				r.Inconclusive(fmt.Sprintf("case %d: ReaderPool.NewBinaryReader failed: %v", c, err))
				setupOK = false
				break
			}
			cs.readers = append(cs.readers, rd.(*LazyBinaryReader))
			cs.blocks = append(cs.blocks, blk)
		}
		if !setupOK {
			cs.pool.Close()
			continue
		}
		// The process may die in this phase (a fault outside the guarded goroutines); the driver then
		// reports the line below as the operation in flight.
		fmt.Printf("VF-INFLIGHT case=%d seed=%d concurrent phase: %d goroutines x %d Reader calls on %d LazyBinaryReader(s), idle timeout %s, lazyDownload=%v, GOMAXPROCS=%d, concurrent idle unloading\n",
			c, r.Seed(), nG, nOps, nReaders, idle, lazyDownload, procs)
		runtime.GOMAXPROCS(procs)
		verifhook.SetDelay(cs.hook)
		var wg, swg sync.WaitGroup
		stop := make(chan struct{})
		swg.Add(1)
		go cs.sweeper(stop, 4000, &swg)
		for g := 0; g < nG; g++ {
			wg.Add(1)
			go cs.worker(g, nOps, &wg)
		}
		finished := make(chan struct{})
		go func() {
			wg.Wait()
			close(stop)
			swg.Wait()
			close(finished)
		}()
		select {
		case <-finished:
		case <-time.After(caseTimeout):
			// Not a verdict about the property (no logical-step criterion for progress): what was
			// observed so far is written out, the run is inconclusive, the stuck goroutines are abandoned.
			r.Inconclusive(fmt.Sprintf("case %d did not finish within %s (calls or unloads are stuck); later cases were not run", c, caseTimeout))
			buf := make([]byte, 1<<20)
			t.Logf("goroutines of the stuck case:\n%s", buf[:runtime.Stack(buf, true)])
			return
		}
		verifhook.SetDelay(nil)

		// quiescent classification of LabelValues answers that could not be used after the call returned
		seen := map[*vfc16Op]bool{}
		for _, s := range cs.suspects {
			if seen[s.op] {
				continue
			}
			seen[s.op] = true
			var ans any
			var err error
			var got, fault, pnc string
			vfc16OwnGoroutine(func() {
				ans, err, pnc = vfc16GuardedCall(cs.readers[s.reader], s.op)
				got, fault = vfc16GuardedSer(ans)
			})
			if pnc != "" {
				r.Violation(c, "panic-in-call:labelvalues", fmt.Sprintf("%s on the lazy reader panicked/faulted in a quiescent state after concurrent idle unloading: %s", s.op, strings.SplitN(pnc, "\n", 2)[0]), map[string]any{"case": cs.desc, "op": s.op.String(), "panic": pnc})
				continue
			}
			w := map[string]any{"case": cs.desc, "op": s.op.String(), "observed_concurrently": s.what, "always_loaded_answer": s.op.want, "quiescent_answer": got, "quiescent_error": fmt.Sprint(err)}
			if err == nil && fault == "" && got == s.op.want {
				r.Violation(c, "labelvalues:answer-invalidated-by-unload", fmt.Sprintf("%s returned strings that alias the mmapped header; an idle unload after the call returned unmapped them while the caller was still reading the answer (%s); the same call in a quiescent state answers correctly", s.op, s.what), w)
			} else {
				r.Violation(c, "wrong-answer:labelvalues", fmt.Sprintf("%s on the lazy reader: %s; also wrong in a quiescent state (%s, err=%v, fault=%s)", s.op, s.what, got, err, fault), w)
			}
		}

		// sequential probe: the minimal form of "idle unload while a caller still holds an answer"
		vfc16Probe(r, cs, rng)

		sig, unloads, inflight := cs.log.analyse()
		loads := vfc16Counter(cs.pool.metrics.lazyReader.loadCount)
		r.Count("effective_unloads", unloads)
		r.Count("unloads_spanned_by_inflight_call", inflight)
		r.Count("loads", int(loads))
		r.Count("window_entries", int(cs.hookN.Load()))
		if inflight > 0 {
			r.Signature(sig)
			r.Distinct(sig)
			sigs[sig] = struct{}{}
		}
		r.Sample(map[string]any{"case": cs.desc, "loads": loads, "effective_unloads": unloads, "unloads_spanned_by_inflight_call": inflight, "signature_prefix": vfc16Prefix(sig, 80), "signature_len": len(sig)})

		for _, rd := range cs.readers {
			_ = rd.Close()
		}
		cs.pool.Close()
		for _, b := range bkts {
			_ = b.Close()
		}
		_ = os.RemoveAll(caseDir)
	}
	fmt.Println("VF-INFLIGHT none (all cases finished)")
	if !r.Replaying() && len(sigs) < minSig {
		r.Inconclusive(fmt.Sprintf("only %d distinct interleaving signatures with an unload during an in-flight call (< %d required)", len(sigs), minSig))
	}
}

func vfc16Prefix(s string, n int) string {
	if len(s) <= n {
		return s
	}
	return s[:n] + "..."
}

// vfc16Probe: LabelValues on a loaded lazy reader, then exactly what ReaderPool.closeIdleReaders does
// for an idle reader, then the caller reads the answer it was given.
func vfc16Probe(r *vfkit.Run, cs *vfc16Case, rng interface{ Intn(int) int }) {
	ri := rng.Intn(len(cs.readers))
	rd, blk := cs.readers[ri], cs.blocks[ri]
	if len(blk.lv) == 0 {
		return
	}
	op := &blk.ops[blk.lv[rng.Intn(len(blk.lv))]]
	vfc16OwnGoroutine(func() {
		fmt.Printf("VF-INFLIGHT case=%d probe: %s on a lazy reader, idle unload (closeIdleReaders), then the caller reads the returned values\n", cs.c, op)
		ans, err, pnc := vfc16GuardedCall(rd, op)
		if pnc != "" {
			r.Eval(1)
			r.Violation(cs.c, "panic-in-call:labelvalues", fmt.Sprintf("%s on the lazy reader panicked/faulted in a quiescent state after concurrent idle unloading: %s", op, strings.SplitN(pnc, "\n", 2)[0]), map[string]any{"case": cs.desc, "op": op.String(), "panic": pnc})
			return
		}
		if err != nil {
			r.Count("probe_skipped", 1)
			return
		}
		before := vfc16Counter(cs.pool.metrics.lazyReader.unloadCount)
		cs.pool.closeIdleReaders()
		how := "ReaderPool.closeIdleReaders()"
		if vfc16Counter(cs.pool.metrics.lazyReader.unloadCount) == before {
			// not idle for long enough yet, or no longer tracked after a consumer Close: make the
			// call closeIdleReaders makes for a reader whose idle timeout has passed
			_ = rd.unloadIfIdleSince(time.Now().UnixNano())
			how = "LazyBinaryReader.unloadIfIdleSince(now)"
		}
		if vfc16Counter(cs.pool.metrics.lazyReader.unloadCount) == before {
			r.Count("probe_skipped", 1)
			return
		}
		r.Eval(1)
		r.Count("probes", 1)
		got, fault := vfc16GuardedSer(ans)
		if fault != "" || got != op.want {
			what := "reading the returned values faulted: " + fault
			if fault == "" {
				what = "the returned values changed to " + got
			}
			r.Violation(cs.c, "labelvalues:answer-invalidated-by-unload", fmt.Sprintf("%s returned strings that alias the mmapped header; after %s unloaded the idle header, %s", op, how, what),
				map[string]any{"case": cs.desc, "steps": []string{"vals, _ := lazy." + op.String(), how + " // idle timeout passed, header munmapped", "read vals // " + what}, "always_loaded_answer": op.want})
		}
	})
}

// vfc16OwnGoroutine runs f in a goroutine of its own with SetPanicOnFault (which is per goroutine)
// and waits for it.
func vfc16OwnGoroutine(f func()) {
	done := make(chan struct{})
	go func() {
		defer close(done)
		debug.SetPanicOnFault(true)
		f()
	}()
	<-done
}
