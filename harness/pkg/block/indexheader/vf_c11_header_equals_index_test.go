//go:build verif

package indexheader

// C11: binary index-header answers equal the full index.
//
// The monitor writes TSDB indexes from generated label sets with Prometheus' own index.Writer,
// derives the expected answers from Prometheus' own index.NewFileReader (names, values, symbols,
// PostingsRanges) and compares every Reader method of the real BinaryReader (file/mmap backed and
// memory backed) for many in-memory sampling rates and many sorted value lists.
//
// The index builder and the oracle loader of this file are also used by the C16 monitor.

import (
	"context"
	"encoding/binary"
	"fmt"
	"io"
	"math/rand"
	"os"
	"path/filepath"
	"runtime"
	"sort"
	"strings"
	"testing"

	"github.com/go-kit/log"
	"github.com/oklog/ulid/v2"
	"github.com/prometheus/prometheus/model/labels"
	"github.com/prometheus/prometheus/storage"
	"github.com/prometheus/prometheus/tsdb/encoding"
	"github.com/prometheus/prometheus/tsdb/index"
	"github.com/thanos-io/objstore/providers/filesystem"

	"github.com/thanos-io/thanos/pkg/block"
	"github.com/thanos-io/thanos/pkg/verifhook/vfkit"
)

// vfc11Index is one generated index together with the ground truth it was generated from.
type vfc11Index struct {
	id        ulid.ULID
	bktDir    string // root of a filesystem bucket holding <id>/index
	indexPath string
	names     []string            // sorted label names ("" excluded)
	values    map[string][]string // name -> sorted distinct values
	symbols   []string            // sorted symbol table
	series    int
	class     string
}

// vfc11Oracle holds what Prometheus' index reader says about an index (all strings are heap copies).
type vfc11Oracle struct {
	version   int
	names     []string
	values    map[string][]string
	symRefs   []uint32 // valid symbol references
	symbols   []string // symbols[i] is the symbol of symRefs[i]
	badRefs   []uint32 // references that are certainly invalid
	ranges    map[labels.Label]index.Range
	lastEntry labels.Label // last entry of the postings offset table: its End may over-reach
	size      int64
}

func vfc11ULID(rng *rand.Rand, c int) ulid.ULID {
	var e [10]byte
	for i := range e {
		e[i] = byte(rng.Intn(256))
	}
	var id ulid.ULID
	_ = id.SetTime(uint64(1_600_000_000_000 + c))
	_ = id.SetEntropy(e[:])
	return id
}

// vfc11GenValues generates k distinct non-empty label values of one style.
func vfc11GenValues(rng *rand.Rand, k int) ([]string, string) {
	style := vfkit.Pick(rng, []string{"prefix-tree", "numeric", "alphabet", "near-empty", "mixed", "long-common-prefix"})
	seen := map[string]struct{}{}
	var out []string
	add := func(s string) {
		if s == "" {
			return
		}
		if _, ok := seen[s]; ok {
			return
		}
		seen[s] = struct{}{}
		out = append(out, s)
	}
	gen := func(i int) string {
		st := style
		if st == "mixed" {
			st = vfkit.Pick(rng, []string{"prefix-tree", "numeric", "alphabet", "near-empty", "long-common-prefix"})
		}
		switch st {
		case "prefix-tree":
			n := 1 + rng.Intn(7)
			b := make([]byte, n)
			for j := range b {
				b[j] = "ab"[rng.Intn(2)]
			}
			return string(b)
		case "numeric":
			return fmt.Sprint(rng.Intn(4 * (k + 1)))
		case "alphabet":
			return vfkit.Str(rng, 4, false)
		case "near-empty":
			return vfkit.Pick(rng, []string{"\x00", "\x00\x00", "\x01", " ", "  ", "!", "\x00a", "a", "a\x00", "\xff", "\xff\xff", "\x7f", "é", "0"}) + vfkit.Pick(rng, []string{"", "", "", "\x00", "a", "\xff"})
		default: // long-common-prefix
			return "us-east-1-instance-" + strings.Repeat("x", rng.Intn(3)) + fmt.Sprint(rng.Intn(3*(k+1)))
		}
	}
	for tries := 0; len(out) < k && tries < 40*k+100; tries++ {
		add(gen(tries))
	}
	for i := 0; len(out) < k; i++ { // the style ran out of distinct strings
		add(fmt.Sprintf("fill-%d", i))
	}
	return out, style
}

// vfc11BuildIndex writes <root>/bkt/<id>/index from generated series.
//
// wide: every series carries every name and every name cycles through a universe of maxValues values, so
// that the symbol table is larger than BinaryReader's value-symbol cache (1024 slots).
func vfc11BuildIndex(ctx context.Context, rng *rand.Rand, root string, c int, maxSeries, maxValues int, wide bool) (*vfc11Index, error) {
	nSeries := 1 + rng.Intn(maxSeries)
	if rng.Intn(5) == 0 {
		nSeries = 1 + rng.Intn(6)
	}
	nNames := 1 + rng.Intn(6)
	if wide {
		nSeries = maxSeries
		nNames = 3 + rng.Intn(3)
	}
	nameSeen := map[string]struct{}{}
	var names []string
	for len(names) < nNames {
		var n string
		switch rng.Intn(4) {
		case 0:
			n = vfkit.Pick(rng, []string{"__name__", "job", "instance", "cluster", "a", "b", "le", "zone"})
		case 1:
			n = "l" + vfkit.Str(rng, 3, false)
		default:
			n = fmt.Sprintf("n%d", rng.Intn(40))
		}
		// Long label names: the length prefix of the name in the postings offset table becomes 2 bytes
		// at 128 bytes (uvarint), which every "skip key count + name" shortcut must cope with.
		if rng.Intn(6) == 0 {
			n = n + strings.Repeat("x", vfkit.Pick(rng, []int{120, 125, 126, 127, 128, 129, 200, 300, 16400})-len(n)%100)
		}
		if _, ok := nameSeen[n]; ok || n == "" {
			continue
		}
		nameSeen[n] = struct{}{}
		names = append(names, n)
	}
	universe := make([][]string, nNames)
	var styles []string
	for j := range universe {
		k := 1 + rng.Intn(maxValues)
		switch rng.Intn(4) {
		case 0:
			k = 1 + rng.Intn(4)
		case 1:
			// around the sampling boundaries
			k = vfkit.Pick(rng, []int{1, 2, 3, 4, 5, 6, 31, 32, 33, 63, 64, 65, 66, 127, 128, 129, 130})
			if k > maxValues {
				k = maxValues
			}
		}
		if wide {
			k = maxValues
		}
		var st string
		universe[j], st = vfc11GenValues(rng, k)
		styles = append(styles, fmt.Sprintf("%s/%d", st, k))
	}
	seenSet := map[string]struct{}{}
	var sets []labels.Labels
	for i := 0; i < nSeries; i++ {
		var kv []string
		for j, n := range names {
			// the first name is present in every series and cycles through its universe so that
			// large value counts are really reached; the others are present with probability 1/2
			if j == 0 || wide {
				kv = append(kv, n, universe[j][(i+j)%len(universe[j])])
			} else if rng.Intn(2) == 0 {
				if rng.Intn(3) == 0 {
					kv = append(kv, n, universe[j][i%len(universe[j])])
				} else {
					kv = append(kv, n, vfkit.Pick(rng, universe[j]))
				}
			}
		}
		ls := labels.FromStrings(kv...)
		key := ls.String()
		if _, ok := seenSet[key]; ok {
			continue
		}
		seenSet[key] = struct{}{}
		sets = append(sets, ls)
	}
	sort.Slice(sets, func(i, j int) bool { return labels.Compare(sets[i], sets[j]) < 0 })

	ix := &vfc11Index{id: vfc11ULID(rng, c), bktDir: filepath.Join(root, "bkt"), values: map[string][]string{}, series: len(sets)}
	ix.class = fmt.Sprintf("series=%d names=%d values=%s wide=%v", len(sets), nNames, strings.Join(styles, ","), wide)
	symSet := map[string]struct{}{}
	valSet := map[string]map[string]struct{}{}
	for _, ls := range sets {
		ls.Range(func(l labels.Label) {
			symSet[l.Name] = struct{}{}
			symSet[l.Value] = struct{}{}
			if valSet[l.Name] == nil {
				valSet[l.Name] = map[string]struct{}{}
			}
			valSet[l.Name][l.Value] = struct{}{}
		})
	}
	// a few symbols that no series uses (allowed by the format)
	for i := rng.Intn(3); i > 0; i-- {
		symSet[fmt.Sprintf("unused-symbol-%d", rng.Intn(100))] = struct{}{}
	}
	for s := range symSet {
		ix.symbols = append(ix.symbols, s)
	}
	sort.Strings(ix.symbols)
	for n, vs := range valSet {
		ix.names = append(ix.names, n)
		for v := range vs {
			ix.values[n] = append(ix.values[n], v)
		}
		sort.Strings(ix.values[n])
	}
	sort.Strings(ix.names)

	dir := filepath.Join(ix.bktDir, ix.id.String())
	if err := os.MkdirAll(dir, 0o755); err != nil {
		return nil, err
	}
	ix.indexPath = filepath.Join(dir, block.IndexFilename)
	w, err := index.NewWriter(ctx, ix.indexPath)
	if err != nil {
		return nil, err
	}
	for _, s := range ix.symbols {
		if err := w.AddSymbol(s); err != nil {
			_ = w.Close()
			return nil, err
		}
	}
	for i, ls := range sets {
		if err := w.AddSeries(storage.SeriesRef(i+1), ls); err != nil {
			_ = w.Close()
			return nil, err
		}
	}
	if err := w.Close(); err != nil {
		return nil, err
	}
	return ix, nil
}

// vfc11LoadOracle reads everything the property talks about through Prometheus' index reader.
func vfc11LoadOracle(indexPath string) (*vfc11Oracle, error) {
	ctx := context.Background()
	ir, err := index.NewFileReader(indexPath, index.DecodePostingsRaw)
	if err != nil {
		return nil, err
	}
	defer func() { _ = ir.Close() }()
	o := &vfc11Oracle{version: ir.Version(), values: map[string][]string{}, ranges: map[labels.Label]index.Range{}, size: ir.Size()}
	names, err := ir.LabelNames(ctx)
	if err != nil {
		return nil, err
	}
	for _, n := range names {
		n = strings.Clone(n)
		o.names = append(o.names, n)
		vs, err := ir.SortedLabelValues(ctx, n, nil)
		if err != nil {
			return nil, err
		}
		for _, v := range vs {
			o.values[n] = append(o.values[n], strings.Clone(v))
		}
	}
	rngs, err := ir.PostingsRanges()
	if err != nil {
		return nil, err
	}
	for l, rg := range rngs {
		o.ranges[labels.Label{Name: strings.Clone(l.Name), Value: strings.Clone(l.Value)}] = rg
	}
	raw, err := os.ReadFile(indexPath)
	if err != nil {
		return nil, err
	}
	toc, err := index.NewTOCFromByteSlice(realByteSlice(raw))
	if err != nil {
		return nil, err
	}
	if err := index.ReadPostingsOffsetTable(realByteSlice(raw), toc.PostingsTable, func(name, value []byte, _ uint64, _ int) error {
		o.lastEntry = labels.Label{Name: string(name), Value: string(value)}
		return nil
	}); err != nil {
		return nil, err
	}
	if o.version == index.FormatV2 {
		it := ir.Symbols()
		i := uint32(0)
		for it.Next() {
			o.symRefs = append(o.symRefs, i)
			o.symbols = append(o.symbols, strings.Clone(it.At()))
			i++
		}
		if it.Err() != nil {
			return nil, it.Err()
		}
		o.badRefs = []uint32{i, i + 1, i + 31, i + 32, i + 1000, 1<<32 - 1}
	} else {
		// v1: a symbol reference is the offset of the symbol's length field in the index file.
		d := encoding.NewDecbufAt(realByteSlice(raw), int(toc.Symbols), nil)
		if d.Err() != nil {
			return nil, d.Err()
		}
		total := d.Len()
		base := int(toc.Symbols) + 4
		cnt := d.Be32int()
		for i := 0; i < cnt; i++ {
			off := base + (total - d.Len())
			s := d.UvarintStr()
			if d.Err() != nil {
				return nil, d.Err()
			}
			o.symRefs = append(o.symRefs, uint32(off))
			o.symbols = append(o.symbols, strings.Clone(s))
		}
		o.badRefs = []uint32{uint32(len(raw) + 1000), 1<<32 - 1}
	}
	return o, nil
}

// vfc11Agrees cross-checks the oracle against the ground truth of the generator. A disagreement
// means the harness (or Prometheus) is wrong, never thanos.
func (o *vfc11Oracle) vfc11Agrees(ix *vfc11Index) error {
	if fmt.Sprint(o.names) != fmt.Sprint(ix.names) {
		return fmt.Errorf("label names: oracle %q, generator %q", o.names, ix.names)
	}
	for _, n := range ix.names {
		if fmt.Sprintf("%q", o.values[n]) != fmt.Sprintf("%q", ix.values[n]) {
			return fmt.Errorf("values of %q: oracle %q, generator %q", n, o.values[n], ix.values[n])
		}
		for _, v := range ix.values[n] {
			if _, ok := o.ranges[labels.Label{Name: n, Value: v}]; !ok {
				return fmt.Errorf("no postings range for %q=%q", n, v)
			}
		}
	}
	if fmt.Sprintf("%q", o.symbols) != fmt.Sprintf("%q", ix.symbols) {
		return fmt.Errorf("symbols: oracle %q, generator %q", o.symbols, ix.symbols)
	}
	return nil
}

// vfc11Want is the expected answer for one (name, value).
func (o *vfc11Oracle) vfc11Want(name, value string) (index.Range, bool) {
	rg, ok := o.ranges[labels.Label{Name: name, Value: value}]
	return rg, ok
}

// vfc11RangeOK decides one returned range against the full index: exact, except that the End of
// the last entry of the postings offset table may over-reach up to the index size (Reader contract).
func (o *vfc11Oracle) vfc11RangeOK(name, value string, got index.Range) (bool, string) {
	want, ok := o.vfc11Want(name, value)
	if !ok {
		if got == NotFoundRange {
			return true, ""
		}
		return false, "absent-value-reported-found"
	}
	if got == NotFoundRange {
		return false, "present-value-reported-not-found"
	}
	if got.Start != want.Start {
		return false, "wrong-start"
	}
	if (labels.Label{Name: name, Value: value}) == o.lastEntry {
		if got.End < want.End {
			return false, "last-entry-end-too-small"
		}
		if got.End > o.size {
			return false, "last-entry-end-beyond-index"
		}
		return true, ""
	}
	if got.End != want.End {
		return false, "wrong-end"
	}
	return true, ""
}

// vfc11ValueClass names where a requested value lies relative to the present values.
func vfc11ValueClass(present []string, v string) string {
	if len(present) == 0 {
		return "name-absent"
	}
	i := sort.SearchStrings(present, v)
	if i < len(present) && present[i] == v {
		switch i {
		case len(present) - 1:
			return "present-last"
		case 0:
			return "present-first"
		}
		return "present"
	}
	switch i {
	case 0:
		return "absent-before-first"
	case len(present):
		return "absent-after-last"
	}
	return "absent-between"
}

// vfc11Absent derives a value that is not in present, close to a present one.
func vfc11Absent(rng *rand.Rand, present []string) string {
	for tries := 0; tries < 20; tries++ {
		var v string
		if len(present) == 0 {
			v = vfkit.Str(rng, 3, false)
		} else {
			p := vfkit.Pick(rng, present)
			if p == "" { // only the all-postings key has an empty value
				p = "a"
			}
			switch rng.Intn(8) {
			case 0:
				v = "" // before everything
			case 1:
				v = "\xff\xff\xff\xff" // after everything
			case 2:
				v = p + "\x00" // immediately after p
			case 3:
				v = p[:len(p)-1] // a proper prefix: before p
			case 4:
				b := []byte(p)
				if b[len(b)-1] > 0 {
					b[len(b)-1]--
					v = string(b) + "\xff"
				} else {
					v = p + "0"
				}
			case 5:
				v = p + vfkit.Str(rng, 2, false)
			case 6:
				v = present[len(present)-1] + "z"
			default:
				v = vfkit.Str(rng, 4, false)
			}
		}
		i := sort.SearchStrings(present, v)
		if i < len(present) && present[i] == v {
			continue
		}
		return v
	}
	return present[len(present)-1] + "\x00absent"
}

// vfc11GenList generates a sorted value list: present, absent (before/between/after), duplicates,
// runs spanning several sampled groups.
func vfc11GenList(rng *rand.Rand, present []string, rate int) []string {
	n := 1 + rng.Intn(12)
	if rng.Intn(8) == 0 {
		n = 12 + rng.Intn(40)
	}
	var out []string
	pickPresent := func() string {
		switch rng.Intn(6) {
		case 0:
			return present[0]
		case 1:
			return present[len(present)-1]
		case 2: // around a sampled entry
			i := (rng.Intn(len(present)/rate+1))*rate + rng.Intn(3) - 1
			if i < 0 {
				i = 0
			}
			if i >= len(present) {
				i = len(present) - 1
			}
			return present[i]
		}
		return vfkit.Pick(rng, present)
	}
	mode := rng.Intn(6)
	for len(out) < n {
		switch {
		case len(present) == 0 || mode == 0 && rng.Intn(2) == 0 || mode != 1 && rng.Intn(3) == 0:
			out = append(out, vfc11Absent(rng, present))
		case mode == 2 && len(present) > 1: // a consecutive run
			i := rng.Intn(len(present))
			for j := i; j < len(present) && j < i+1+rng.Intn(2*rate+2) && len(out) < n; j++ {
				out = append(out, present[j])
			}
		default:
			out = append(out, pickPresent())
		}
		if len(out) > 0 && rng.Intn(5) == 0 { // duplicate
			out = append(out, out[rng.Intn(len(out))])
		}
	}
	sort.Strings(out)
	return out
}

func vfc11Q(ss []string) []string {
	out := make([]string, len(ss))
	for i, s := range ss {
		out[i] = fmt.Sprintf("%q", s)
	}
	return out
}

type vfc11ReaderCase struct {
	// phase is "" for the comparison right after the reader was built and "later:" when the same reader is
	// asked again after newer headers were built (and possibly a GC cycle); it is part of the fingerprint.
	phase string
	// light: only a sample of the comparisons (used for the later re-checks).
	light bool
	c     int
	ix    string // description of the index
	rate  int
	kind  string // file | memory
	vals  map[string][]string
	names []string
}

func (rc *vfc11ReaderCase) wit(extra map[string]any) map[string]any {
	m := map[string]any{"index": rc.ix, "sampling_rate": rc.rate, "reader": rc.kind}
	if rc.phase != "" {
		m["phase"] = "reader asked again after newer index-headers (file and memory backed, other indexes) were built"
	}
	lv := map[string][]string{}
	for n, vs := range rc.vals {
		lv[fmt.Sprintf("%q", n)] = vfc11Q(vs)
	}
	m["label_values_in_index"] = lv
	for k, v := range extra {
		m[k] = v
	}
	return m
}

// vfc11CheckReader compares every Reader method of hr with the oracle.
func vfc11CheckReader(r *vfkit.Run, rc *vfc11ReaderCase, hr Reader, o *vfc11Oracle, rng *rand.Rand, nLists int) {
	ctx := context.Background()
	c := rc.c
	pfx := fmt.Sprintf("v%d:", o.version) + rc.phase
	const modified = "re-asked-after-caller-modified-earlier-result"

	// which names are looked at: all, or a sample
	chkNames := o.names
	if rc.light && len(chkNames) > 3 {
		chkNames = vfkit.Perm(rng, o.names)[:3]
	}

	// index version
	r.Eval(1)
	if v, err := hr.IndexVersion(); err != nil || v != o.version {
		r.Violation(c, pfx+"index-version", fmt.Sprintf("IndexVersion()=%d,%v; the index is version %d", v, err, o.version), rc.wit(nil))
	}

	// label names
	r.Eval(1)
	names, err := hr.LabelNames()
	if err != nil || fmt.Sprintf("%q", names) != fmt.Sprintf("%q", o.names) {
		r.Violation(c, pfx+"labelnames:differ", fmt.Sprintf("LabelNames()=%q,%v; full index has %q", names, err, o.names), rc.wit(nil))
	} else {
		// the caller owns the returned slice: editing it must not change later answers
		for i := range names {
			names[i] = "modified-by-caller"
		}
		r.Eval(1)
		if names2, err := hr.LabelNames(); err != nil || fmt.Sprintf("%q", names2) != fmt.Sprintf("%q", o.names) {
			r.Violation(c, pfx+"labelnames:differ:"+modified, fmt.Sprintf("second LabelNames()=%q,%v after the caller overwrote the elements of the first result; full index has %q", names2, err, o.names), rc.wit(nil))
		}
	}

	// label values of every name, of the all-postings name and of an absent name
	for _, n := range chkNames {
		r.Eval(1)
		vs, err := hr.LabelValues(n)
		if err != nil || fmt.Sprintf("%q", vs) != fmt.Sprintf("%q", o.values[n]) {
			r.Violation(c, pfx+"labelvalues:differ", fmt.Sprintf("LabelValues(%q) returned %d values, err=%v; full index has %d", n, len(vs), err, len(o.values[n])),
				rc.wit(map[string]any{"name": n, "got": vfc11Q(vs), "want": vfc11Q(o.values[n])}))
			continue
		}
		// The caller owns the returned slice (callers filter/sort/clone it in place): after it was edited
		// (element headers only, never the bytes the strings point to) the same question must get the same answer.
		for i, j := 0, len(vs)-1; i < j; i, j = i+1, j-1 {
			vs[i], vs[j] = vs[j], vs[i]
		}
		if len(vs) > 0 {
			vs[rng.Intn(len(vs))] = "modified-by-caller"
			vs = append(vs[:0], vs[len(vs)/2:]...)
		}
		r.Eval(1)
		vs2, err := hr.LabelValues(n)
		if err != nil || fmt.Sprintf("%q", vs2) != fmt.Sprintf("%q", o.values[n]) {
			r.Violation(c, pfx+"labelvalues:differ:"+modified, fmt.Sprintf("second LabelValues(%q) returned %d values, err=%v, after the caller reordered/overwrote/truncated the first result in place; full index has %d", n, len(vs2), err, len(o.values[n])),
				rc.wit(map[string]any{"name": n, "got": vfc11Q(vs2), "want": vfc11Q(o.values[n]), "steps": []string{"vs := LabelValues(name)", "reverse vs, overwrite one element, vs = append(vs[:0], vs[len/2:]...)", "LabelValues(name)"}}))
		}
	}
	absentName := "absent-name"
	for i := 0; ; i++ {
		if _, ok := o.values[absentName]; !ok {
			break
		}
		absentName = fmt.Sprintf("absent-name-%d", i)
	}
	r.Eval(1)
	if vs, err := hr.LabelValues(absentName); err != nil || len(vs) != 0 {
		r.Violation(c, pfx+"labelvalues:absent-name-has-values", fmt.Sprintf("LabelValues(%q)=%q,%v for a name that is not in the index", absentName, vs, err), rc.wit(nil))
	}

	// symbols
	for i, ref := range o.symRefs {
		if rc.light && rng.Intn(len(o.symRefs)) >= 24 {
			continue
		}
		r.Eval(1)
		s, err := hr.LookupSymbol(ctx, ref)
		if err != nil || s != o.symbols[i] {
			r.Violation(c, pfx+"symbol:differ", fmt.Sprintf("LookupSymbol(%d)=%q,%v; full index has %q", ref, s, err, o.symbols[i]), rc.wit(map[string]any{"ref": ref}))
			break
		}
	}
	// each twice: the second lookup is served from the value-symbol cache
	for k := 0; k < 2*len(o.symRefs) && k < 64; k++ {
		i := rng.Intn(len(o.symRefs))
		r.Eval(1)
		s, err := hr.LookupSymbol(ctx, o.symRefs[i])
		if err != nil || s != o.symbols[i] {
			r.Violation(c, pfx+"symbol:differ-on-repeated-lookup", fmt.Sprintf("repeated LookupSymbol(%d)=%q,%v; full index has %q", o.symRefs[i], s, err, o.symbols[i]), rc.wit(map[string]any{"ref": o.symRefs[i]}))
			break
		}
	}
	if o.version == index.FormatV2 {
		for _, ref := range o.badRefs {
			r.Eval(1)
			if s, err := hr.LookupSymbol(ctx, ref); err == nil {
				r.Violation(c, pfx+"symbol:invalid-ref-no-error", fmt.Sprintf("LookupSymbol(%d)=%q without error; the index has %d symbols", ref, s, len(o.symRefs)), rc.wit(map[string]any{"ref": ref}))
				break
			}
		}
	}

	// single-value lookups: every present value, the all-postings key, absent values, absent name
	allName, allValue := index.AllPostingsKey()
	single := func(name, value string) {
		r.Eval(1)
		got, err := hr.PostingsOffset(name, value)
		want, present := o.vfc11Want(name, value)
		cls := vfc11ValueClass(o.values[name], value)
		if name == allName {
			cls = "all-postings-key"
		}
		w := func() map[string]any {
			return rc.wit(map[string]any{"name": name, "value": fmt.Sprintf("%q", value), "got": fmt.Sprint(got), "err": fmt.Sprint(err), "want": fmt.Sprint(want), "present": present})
		}
		if !present {
			if err != NotFoundRangeErr {
				r.Violation(c, pfx+"single:absent-not-reported-notfound:"+cls, fmt.Sprintf("PostingsOffset(%q,%q)=%v,%v for a value that is not in the index; want NotFoundRangeErr", name, value, got, err), w())
			}
			return
		}
		if err != nil {
			r.Violation(c, pfx+"single:present-value-error:"+cls, fmt.Sprintf("PostingsOffset(%q,%q) failed with %v; full index has %v", name, value, err, want), w())
			return
		}
		if ok, why := o.vfc11RangeOK(name, value, got); !ok {
			r.Violation(c, pfx+"single:"+why+":"+cls, fmt.Sprintf("PostingsOffset(%q,%q)=%v; full index has %v", name, value, got, want), w())
		}
	}
	single(allName, allValue)
	single(allName, "a")
	single(absentName, "a")
	for _, n := range chkNames {
		for _, v := range o.values[n] {
			if rc.light && rng.Intn(len(o.values[n])) >= 6 {
				continue
			}
			single(n, v)
			if rng.Intn(8) == 0 {
				single(n, v) // the same question again
			}
		}
		for k := 0; k < 4; k++ {
			single(n, vfc11Absent(rng, o.values[n]))
		}
	}
	if rc.light {
		nLists = 8
	}

	// multi-value lookups
	for k := 0; k < nLists; k++ {
		var name string
		switch x := rng.Intn(40); {
		case x == 0:
			name = allName
		case x == 1:
			name = absentName
		default:
			// prefer names with many values
			name = vfkit.Pick(rng, o.names)
			if alt := vfkit.Pick(rng, o.names); len(o.values[alt]) > len(o.values[name]) {
				name = alt
			}
		}
		present := o.values[name]
		if name == allName {
			present = []string{allValue}
		}
		list := vfc11GenList(rng, present, rc.rate)
		nPresent, nAbsent, dup := 0, 0, false
		classes := map[string]struct{}{}
		for i, v := range list {
			if _, ok := o.vfc11Want(name, v); ok {
				nPresent++
			} else {
				nAbsent++
			}
			if i > 0 && list[i-1] == v {
				dup = true
			}
			classes[vfc11ValueClass(present, v)] = struct{}{}
		}
		if !rc.light {
			for cl := range classes {
				r.Count("lists_with_"+cl, 1)
			}
			if dup {
				r.Count("lists_with_duplicates", 1)
			}
			if nPresent > 0 && len(list) > 1 {
				r.Distinct(fmt.Sprintf("%s|%d|%s|%q|%q", rc.ix, rc.rate, rc.kind, name, list))
			}
		}
		// attempt 1: the same question again after the caller overwrote the result of attempt 0 in place
		for attempt := 0; attempt < 2; attempt++ {
			sfx := ""
			if attempt == 1 {
				sfx = ":" + modified
			}
			r.Eval(1)
			got, err := hr.PostingsOffsets(name, list...)
			w := func(extra map[string]any) map[string]any {
				want := make([]string, len(list))
				for i, v := range list {
					if rg, ok := o.vfc11Want(name, v); ok {
						want[i] = fmt.Sprint(rg)
					} else {
						want[i] = "not-found"
					}
				}
				m := rc.wit(map[string]any{"name": name, "values": vfc11Q(list), "got": fmt.Sprint(got), "err": fmt.Sprint(err), "want": want, "attempt": attempt})
				for k, v := range extra {
					m[k] = v
				}
				return m
			}
			bad := false
			switch {
			case name == absentName:
				// Reader contract: for a name that does not exist no postings are returned.
				for _, g := range got {
					if g != NotFoundRange {
						r.Violation(c, pfx+"multi:absent-name-has-postings"+sfx, fmt.Sprintf("PostingsOffsets(%q, %q)=%v for a name that is not in the index", name, list, got), w(nil))
						bad = true
						break
					}
				}
			case err != nil:
				r.Violation(c, pfx+"multi:error"+sfx, fmt.Sprintf("PostingsOffsets(%q, %q) failed: %v", name, list, err), w(nil))
				bad = true
			case len(got) != len(list):
				cl := "all-present"
				if nAbsent > 0 {
					cl = "with-missing-values"
				}
				r.Violation(c, pfx+"multi:result-length-differs:"+cl+sfx, fmt.Sprintf("PostingsOffsets(%q, %d values: %d present, %d absent) returned %d ranges; missing values must be reported as {-1,-1}", name, len(list), nPresent, nAbsent, len(got)), w(nil))
				bad = true
			default:
				for i, v := range list {
					if ok, why := o.vfc11RangeOK(name, v, got[i]); !ok {
						cls := vfc11ValueClass(present, v)
						if i > 0 && list[i-1] == v || i+1 < len(list) && list[i+1] == v {
							cls += "-duplicated"
						}
						wantRg, _ := o.vfc11Want(name, v)
						r.Violation(c, pfx+"multi:"+why+":"+cls+sfx, fmt.Sprintf("PostingsOffsets(%q, %q)[%d] (value %q) = %v; full index has %v (found=%v)", name, list, i, v, got[i], wantRg, why != "absent-value-reported-found"), w(map[string]any{"position": i}))
						bad = true
						break
					}
				}
			}
			if bad || len(got) == 0 || rng.Intn(4) != 0 {
				break
			}
			for i := range got {
				got[i] = index.Range{Start: 7, End: 7}
			}
		}
	}
}

// vfc11OpenReader makes the real BinaryReader: file backed (header written to hdrDir, then mmapped)
// or memory backed.
func vfc11OpenReader(ctx context.Context, ix *vfc11Index, hdrDir string, rate int, kind string) (*BinaryReader, error) {
	bkt, err := filesystem.NewBucket(ix.bktDir)
	if err != nil {
		return nil, err
	}
	defer func() { _ = bkt.Close() }()
	dir := hdrDir
	if kind == "memory" {
		dir = ""
	}
	return NewBinaryReader(ctx, log.NewNopLogger(), bkt, dir, ix.id, rate, NewBinaryReaderMetrics(nil))
}

// vfc11Live is a reader that is kept open while newer headers are built.
type vfc11Live struct {
	rc *vfc11ReaderCase
	br *BinaryReader
	o  *vfc11Oracle
}

func vfc11Describe(ix *vfc11Index) string {
	return fmt.Sprintf("case-index %s %s", ix.id, ix.class)
}

func TestVF_C11(t *testing.T) {
	r := vfkit.Start(t, "C11")
	defer r.Finish()
	r.Rule("case = one TSDB index written by Prometheus' index.Writer from 1..300 generated series (1..6 names, 1..200 values per name; every 15th index wide: 700 series x 3..5 names x 700 values, > 1024 symbols; values in 6 styles: prefix trees, numbers, " +
		"adversarial alphabet, near-empty strings, long common prefixes) plus the repository's v1 fixture index; per index every sampling rate of the tier, file- and memory-backed BinaryReader alternating; " +
		"oracle = Prometheus index.NewFileReader (LabelNames, SortedLabelValues, Symbols, PostingsRanges): names, values of every name, every symbol, PostingsOffset of every present value and of absent values, " +
		"and PostingsOffsets of generated sorted lists (present/absent-before/between/after, duplicates, runs over several sampled groups) must agree, missing values = {-1,-1}/NotFoundRangeErr; " +
		"exact ranges except the End of the last offset-table entry (>= true end, <= index size); answers must be stable: LabelNames/LabelValues/PostingsOffsets are asked again after the caller edited the earlier result in place, " +
		"and the last 2..4 readers (both kinds, across indexes) stay open and a sample of all comparisons is repeated on them after each newer header was built and after GC cycles (fingerprint infix later:); per index a burst of 4 readers of this and the previous index built back to back and only then compared; distinct/non-trivial = (index, rate, name, list) with >=2 values of which >=1 present")
	nIdx := r.N(60, 300)
	nLists := r.N(150, 120)
	rates := []int{1, 2, 3, 5, 32, 64}
	if r.Thorough() {
		rates = rates[:0]
		for i := 1; i <= 64; i++ {
			rates = append(rates, i)
		}
	}
	r.Require(int64(nIdx*len(rates)*nLists), nIdx*len(rates)*nLists/5)
	r.Assume("Prometheus' index.Writer/index.Reader (v0.309.1) are the trusted base: the oracle's names/values/symbols are additionally cross-checked against the generator's ground truth")
	r.Assume("slices returned by LabelNames/LabelValues/PostingsOffsets belong to the caller, who may reorder, overwrite and truncate them in place (string bytes are never written)")
	r.Assume("value lists passed to PostingsOffsets are sorted (documented precondition); label names and values are non-empty (TSDB invariant); sampling rate >= 1")
	ctx := context.Background()
	root := t.TempDir()

	var live []vfc11Live // the most recently built readers, oldest first
	var prevIx *vfc11Index
	var prevO *vfc11Oracle
	var prevDir string
	built := 0
	defer func() {
		for _, l := range live {
			_ = l.br.Close()
		}
	}()
	for c := 0; c <= nIdx; c++ {
		if !r.Want(c) {
			continue
		}
		rng := r.Rand(c)
		var ix *vfc11Index
		if c == nIdx {
			// the repository's fixture index in format v1
			var err error
			ix, err = vfc11FixtureV1(root)
			if err != nil {
				r.Count("v1_fixture_unavailable", 1)
				t.Logf("v1 fixture not used: %v", err)
				continue
			}
		} else {
			var err error
			// every 15th index is "wide": > 1024 symbols (deviation from the 300-series/200-values bound)
			if c%15 == 7 {
				ix, err = vfc11BuildIndex(ctx, rng, filepath.Join(root, fmt.Sprintf("c%d", c)), c, 700, 700, true)
			} else {
				ix, err = vfc11BuildIndex(ctx, rng, filepath.Join(root, fmt.Sprintf("c%d", c)), c, 300, 200, false)
			}
			if err != nil {
				r.Inconclusive(fmt.Sprintf("case %d: cannot write the index: %v", c, err))
				continue
			}
		}
		o, err := vfc11LoadOracle(ix.indexPath)
		if err != nil {
			r.Inconclusive(fmt.Sprintf("case %d: Prometheus cannot read the index: %v", c, err))
			continue
		}
		if c < nIdx {
			if err := o.vfc11Agrees(ix); err != nil {
				r.Inconclusive(fmt.Sprintf("case %d: oracle and generator disagree (harness bug): %v", c, err))
				continue
			}
		}
		r.Sample(map[string]any{"index": vfc11Describe(ix), "version": o.version, "symbols": len(o.symbols), "postings_entries": len(o.ranges), "index_bytes": o.size})
		maxVals := 0
		for _, vs := range o.values {
			if len(vs) > maxVals {
				maxVals = len(vs)
			}
		}
		r.Count(fmt.Sprintf("indexes_v%d", o.version), 1)
		if maxVals >= 65 {
			r.Count("indexes_with_a_name_of_65+_values", 1)
		}
		if len(o.symbols) > valueSymbolsCacheSize {
			r.Count("indexes_with_more_symbols_than_cache_slots", 1)
		}
		hdrDir := filepath.Join(root, fmt.Sprintf("hdr%d", c))
		kindRng := r.RandS("reader-kind", c)
		// Burst: headers of two different blocks (this index and the previous one) are built back to back,
		// as a store gateway does when it syncs many blocks, and only then used.
		if prevIx != nil {
			burstDir := filepath.Join(root, fmt.Sprintf("burst%d", c))
			var burst []vfc11Live
			for k := 0; k < 4; k++ {
				bix, bo := prevIx, prevO
				if k%2 == 1 {
					bix, bo = ix, o
				}
				brc := &vfc11ReaderCase{c: c, ix: vfc11Describe(bix), rate: vfkit.Pick(kindRng, rates), kind: vfkit.Pick(kindRng, []string{"file", "memory"}), vals: bo.values, names: bo.names, phase: "later:", light: true}
				if k == 3 {
					brc.phase = ""
				}
				var bbr *BinaryReader
				var berr error
				r.Guard(c, "new-binary-reader", brc.wit(nil), func() {
					bbr, berr = vfc11OpenReader(ctx, bix, burstDir, brc.rate, brc.kind)
				})
				if bbr == nil {
					if berr != nil {
						r.Eval(1)
						r.Violation(c, fmt.Sprintf("v%d:open-failed", bo.version), fmt.Sprintf("NewBinaryReader(rate=%d,%s) failed on an index Prometheus reads: %v", brc.rate, brc.kind, berr), brc.wit(nil))
					}
					continue
				}
				burst = append(burst, vfc11Live{rc: brc, br: bbr, o: bo})
			}
			for k, b := range burst {
				r.Count("burst_readers_"+b.rc.kind, 1)
				r.Guard(c, fmt.Sprintf("v%d:%sreader-call", b.o.version, b.rc.phase), b.rc.wit(nil), func() {
					vfc11CheckReader(r, b.rc, b.br, b.o, r.RandS(fmt.Sprintf("burst-%d", k), c), 0)
				})
			}
			for _, b := range burst {
				_ = b.br.Close()
			}
			_ = os.RemoveAll(burstDir)
			_ = os.RemoveAll(prevDir)
		}
		for ri, rate := range rates {
			// file- and memory-backed readers mixed; the first two of an index alternate so that both occur
			kind := []string{"file", "memory"}[(c+ri)%2]
			if ri >= 2 {
				kind = vfkit.Pick(kindRng, []string{"file", "memory"})
			}
			rc := &vfc11ReaderCase{c: c, ix: vfc11Describe(ix), rate: rate, kind: kind, vals: o.values, names: o.names}
			var br *BinaryReader
			r.Guard(c, "new-binary-reader", rc.wit(nil), func() {
				br, err = vfc11OpenReader(ctx, ix, hdrDir, rate, kind)
			})
			if br == nil {
				if err != nil {
					r.Eval(1)
					r.Violation(c, fmt.Sprintf("v%d:open-failed", o.version), fmt.Sprintf("NewBinaryReader(rate=%d,%s) failed on an index Prometheus reads: %v", rate, kind, err), rc.wit(nil))
				}
				continue
			}
			r.Guard(c, fmt.Sprintf("v%d:reader-call", o.version), rc.wit(nil), func() {
				vfc11CheckReader(r, rc, br, o, r.RandS(fmt.Sprintf("lists-%d", rate), c), nLists)
			})
			// Readers stay in use while other headers are built: the last 2..4 readers (of this and of the
			// previous index, both kinds) are kept open and a sample of the comparisons is repeated on each
			// older one now that a newer header exists, and once more after a GC cycle every 4th reader.
			built++
			recheck := func(stage string) {
				for k, old := range live {
					lrc := *old.rc
					lrc.phase, lrc.light = "later:", true
					r.Count("rechecks_of_older_"+old.rc.kind+"_reader_after_newer_"+kind+"_header", 1)
					r.Guard(old.rc.c, fmt.Sprintf("v%d:later:reader-call", old.o.version), lrc.wit(nil), func() {
						vfc11CheckReader(r, &lrc, old.br, old.o, r.RandS(fmt.Sprintf("recheck-%s-%d-%d", stage, built, k), c), 0)
					})
				}
			}
			recheck("built")
			if built%4 == 0 {
				runtime.GC()
				recheck("gc")
			}
			live = append(live, vfc11Live{rc: rc, br: br, o: o})
			for len(live) > 2+c%3 {
				_ = live[0].br.Close()
				live = live[1:]
			}
		}
		// scratch hygiene: a thorough run writes hundreds of indexes (the index itself is kept for the
		// burst of the next case)
		_ = os.RemoveAll(hdrDir)
		prevIx, prevO, prevDir = ix, o, filepath.Join(root, fmt.Sprintf("c%d", c))
	}
}

// vfc11FixtureV1 copies the repository's format-v1 index (testdata/index_format_v1) into a bucket dir.
func vfc11FixtureV1(root string) (*vfc11Index, error) {
	src := filepath.Join("testdata", "index_format_v1", "index")
	in, err := os.Open(src)
	if err != nil {
		return nil, err
	}
	defer in.Close()
	hdr := make([]byte, 5)
	if _, err := io.ReadFull(in, hdr); err != nil {
		return nil, err
	}
	if binary.BigEndian.Uint32(hdr[:4]) != index.MagicIndex || hdr[4] != index.FormatV1 {
		return nil, fmt.Errorf("%s is not a format-v1 index", src)
	}
	if _, err := in.Seek(0, io.SeekStart); err != nil {
		return nil, err
	}
	id := ulid.MustParse("01DXXFZDYD1MQW6079WK0K6EDQ")
	ix := &vfc11Index{id: id, bktDir: filepath.Join(root, "v1", "bkt"), class: "fixture testdata/index_format_v1"}
	dir := filepath.Join(ix.bktDir, id.String())
	if err := os.MkdirAll(dir, 0o755); err != nil {
		return nil, err
	}
	ix.indexPath = filepath.Join(dir, block.IndexFilename)
	out, err := os.Create(ix.indexPath)
	if err != nil {
		return nil, err
	}
	if _, err := io.Copy(out, in); err != nil {
		out.Close()
		return nil, err
	}
	return ix, out.Close()
}
