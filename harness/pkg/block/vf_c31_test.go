//go:build verif

package block

import (
	"context"
	"fmt"
	"math/rand"
	"sort"
	"strings"
	"testing"

	"github.com/oklog/ulid/v2"
	"github.com/prometheus/client_golang/prometheus"
	"github.com/prometheus/prometheus/tsdb"

	"github.com/thanos-io/thanos/pkg/block/metadata"
	"github.com/thanos-io/thanos/pkg/extprom"
	"github.com/thanos-io/thanos/pkg/verifhook/vfkit"
)

// vfc31Block is the generator's own description of one block: the oracle works on this, never on
// anything the filter computed (group identity is (resolution, label set), not Thanos.GroupKey()).
type vfc31Block struct {
	ID      ulid.ULID
	Res     int64
	Labels  map[string]string
	Sources []ulid.ULID

	grp string                 // memoised by vfc31Prepare
	set map[ulid.ULID]struct{} // memoised by vfc31Prepare
}

func (b vfc31Block) group() string {
	if b.grp != "" {
		return b.grp
	}
	ks := make([]string, 0, len(b.Labels))
	for k := range b.Labels {
		ks = append(ks, k)
	}
	sort.Strings(ks)
	var sb strings.Builder
	fmt.Fprintf(&sb, "res=%d", b.Res)
	for _, k := range ks {
		fmt.Fprintf(&sb, ",%s=%q", k, b.Labels[k])
	}
	return sb.String()
}

func (b vfc31Block) meta() *metadata.Meta {
	lbls := make(map[string]string, len(b.Labels))
	for k, v := range b.Labels {
		lbls[k] = v
	}
	return &metadata.Meta{
		BlockMeta: tsdb.BlockMeta{
			ULID:       b.ID,
			Version:    1,
			Compaction: tsdb.BlockMetaCompaction{Level: 1, Sources: append([]ulid.ULID(nil), b.Sources...)},
		},
		Thanos: metadata.Thanos{Labels: lbls, Downsample: metadata.ThanosDownsample{Resolution: b.Res}},
	}
}

func vfc31ID(rng *rand.Rand) ulid.ULID {
	var id ulid.ULID
	// small timestamp space so that ULID order is not correlated with generation order
	_ = id.SetTime(uint64(1_600_000_000_000 + rng.Intn(50)))
	var e [10]byte
	rng.Read(e[:])
	_ = id.SetEntropy(e[:])
	return id
}

func vfc31SrcSet(s []ulid.ULID) map[ulid.ULID]struct{} {
	m := make(map[ulid.ULID]struct{}, len(s))
	for _, x := range s {
		m[x] = struct{}{}
	}
	return m
}

// vfc31Covers: sources(p) is a superset of sources(b) (set semantics).
func vfc31Covers(p, b vfc31Block) bool {
	ps := p.set
	if ps == nil {
		ps = vfc31SrcSet(p.Sources)
	}
	for _, s := range b.Sources {
		if _, ok := ps[s]; !ok {
			return false
		}
	}
	return true
}

// vfc31Gen generates 1..30 blocks over a pool of 1..12 source ULIDs in 1..3 compaction groups.
func vfc31Gen(rng *rand.Rand) ([]vfc31Block, string) {
	n := 1 + rng.Intn(30)
	if rng.Intn(4) == 0 {
		n = 1 + rng.Intn(6)
	}
	pool := make([]ulid.ULID, 1+rng.Intn(12))
	for i := range pool {
		pool[i] = vfc31ID(rng)
	}
	type grp struct {
		res int64
		l   map[string]string
	}
	allRes := []int64{0, 5 * 60 * 1000, 60 * 60 * 1000}
	allLbl := []map[string]string{{"cluster": "a"}, {"cluster": "b"}, {"cluster": "a", "replica": "1"}, {}}
	ng := 1 + rng.Intn(3)
	groups := make([]grp, 0, ng)
	seen := map[string]bool{}
	for len(groups) < ng {
		g := grp{res: vfkit.Pick(rng, allRes), l: vfkit.Pick(rng, allLbl)}
		k := vfc31Block{Res: g.res, Labels: g.l}.group()
		if seen[k] {
			continue
		}
		seen[k] = true
		groups = append(groups, g)
	}
	shape := vfkit.Pick(rng, []string{"mixed", "mixed", "equal-sets", "nested", "partial", "disjoint", "level1-plus-compacted"})
	usedID := map[ulid.ULID]bool{}
	var out []vfc31Block
	subset := func(k int) []ulid.ULID {
		if k > len(pool) {
			k = len(pool)
		}
		p := rng.Perm(len(pool))[:k]
		s := make([]ulid.ULID, 0, k)
		for _, i := range p {
			s = append(s, pool[i])
		}
		return s
	}
	var last []ulid.ULID
	next := 0
	for i := 0; i < n; i++ {
		g := groups[rng.Intn(len(groups))]
		b := vfc31Block{Res: g.res, Labels: g.l}
		sh := shape
		if sh == "mixed" {
			sh = vfkit.Pick(rng, []string{"equal-sets", "nested", "partial", "disjoint", "level1-plus-compacted", "odd"})
		}
		switch sh {
		case "equal-sets":
			if last == nil || rng.Intn(3) == 0 {
				last = subset(1 + rng.Intn(4))
			}
			b.Sources = vfkit.Perm(rng, append([]ulid.ULID(nil), last...))
		case "nested":
			if last == nil || rng.Intn(4) == 0 {
				last = subset(1 + rng.Intn(len(pool)))
			}
			k := 1 + rng.Intn(len(last))
			b.Sources = append([]ulid.ULID(nil), last[:k]...)
		case "partial":
			b.Sources = subset(1 + rng.Intn(5))
		case "disjoint":
			b.Sources = []ulid.ULID{pool[next%len(pool)]}
			next++
		case "level1-plus-compacted":
			if rng.Intn(2) == 0 {
				// a level-1 block: its only source is itself
				s := pool[rng.Intn(len(pool))]
				if !usedID[s] {
					b.ID = s
					b.Sources = []ulid.ULID{s}
				} else {
					b.Sources = subset(2 + rng.Intn(4))
				}
			} else {
				b.Sources = subset(2 + rng.Intn(4))
			}
		case "odd":
			switch rng.Intn(3) {
			case 0: // a repeated source
				b.Sources = subset(1 + rng.Intn(3))
				b.Sources = append(b.Sources, b.Sources[0])
			case 1: // no sources recorded
				b.Sources = nil
			default:
				b.Sources = subset(len(pool))
			}
		}
		if b.ID == (ulid.ULID{}) {
			for {
				b.ID = vfc31ID(rng)
				if !usedID[b.ID] {
					break
				}
			}
		}
		if usedID[b.ID] {
			continue
		}
		usedID[b.ID] = true
		out = append(out, b)
	}
	return out, fmt.Sprintf("%s/n=%d/pool=%d/groups=%d", shape, len(out), len(pool), len(groups))
}

func vfc31Fmt(bs []vfc31Block) []map[string]any {
	var out []map[string]any
	for _, b := range bs {
		var s []string
		for _, x := range b.Sources {
			s = append(s, x.String())
		}
		out = append(out, map[string]any{"id": b.ID.String(), "group": b.group(), "sources": s})
	}
	return out
}

func vfc31Key(bs []vfc31Block) string {
	var parts []string
	for _, b := range bs {
		var s []string
		for _, x := range b.Sources {
			s = append(s, x.String())
		}
		sort.Strings(s)
		parts = append(parts, b.ID.String()+"|"+b.group()+"|"+strings.Join(s, ","))
	}
	sort.Strings(parts)
	return strings.Join(parts, ";")
}

func TestVF_C31(t *testing.T) {
	r := vfkit.Start(t, "C31")
	defer r.Finish()
	r.Rule("case = 1..30 block metas whose source lists are drawn from a pool of 1..12 ULIDs (equal sets under different block ids, nested, partially overlapping, disjoint, level-1 blocks next to their compactions, repeated/empty source lists) in 1..3 compaction groups (resolution x external labels); " +
		"the real DefaultDeduplicateFilter.Filter is run with concurrency 1, 2, 8 and 32 on differently built input maps (two at concurrency 1 and 2, one at 8 and 32: 6 runs per case, filter objects reused across cases as the fetcher does); " +
		"oracle (own group identity and set arithmetic): every hidden block has a KEPT block of the same group whose sources are a superset; every source of a group is still held by a kept block of that group; DuplicateIDs() == hidden set; same outcome in all 6 runs; " +
		"distinct = normalised input; non-trivial = the filter hid at least one block")
	n := r.N(4000, 100000)
	r.Require(int64(n)*6, n/4)
	r.Assume("concurrency >= 1 (NewDeduplicateFilter(0) has no worker and is not a supported configuration)")
	r.Assume("block ids are unique within one listing (they are map keys)")
	ctx := context.Background()
	synced := extprom.NewTxGaugeVec(nil, prometheus.GaugeOpts{}, []string{"state"})
	concs := []int{1, 2, 8, 32}
	filters := make([]*DefaultDeduplicateFilter, len(concs))
	for i, c := range concs {
		filters[i] = NewDeduplicateFilter(c)
	}
	for c := 0; c < n; c++ {
		if !r.Want(c) {
			continue
		}
		rng := r.Rand(c)
		blocks, class := vfc31Gen(rng)
		if c%2000 == 0 {
			synced.ResetTx() // keeps the gauge small; not part of the oracle
		}
		r.Guard(c, "dedup-filter", map[string]any{"class": class, "blocks": vfc31Fmt(blocks)}, func() {
			vfc31Check(ctx, r, c, rng, blocks, class, concs, filters, synced)
		})
	}
}

func vfc31Check(ctx context.Context, r *vfkit.Run, c int, rng *rand.Rand, blocks []vfc31Block, class string, concs []int, filters []*DefaultDeduplicateFilter, synced GaugeVec) {
	byID := make(map[ulid.ULID]vfc31Block, len(blocks))
	for i := range blocks {
		blocks[i].grp = blocks[i].group()
		blocks[i].set = vfc31SrcSet(blocks[i].Sources)
		byID[blocks[i].ID] = blocks[i]
	}
	var refOutcome string
	var refRun string
	hidAny := false
	for ci, conc := range concs {
		for order := 0; order < 2; order++ {
			if conc >= 8 && order == 0 {
				continue // 6 runs per case: two insertion orders at concurrency 1 and 2, a shuffled one at 8 and 32
			}
			ins := blocks
			if order == 1 {
				ins = vfkit.Perm(rng, append([]vfc31Block(nil), blocks...))
			}
			var metas map[ulid.ULID]*metadata.Meta
			if order == 0 {
				metas = make(map[ulid.ULID]*metadata.Meta)
			} else {
				metas = make(map[ulid.ULID]*metadata.Meta, 64)
			}
			for _, b := range ins {
				metas[b.ID] = b.meta()
			}
			run := fmt.Sprintf("concurrency=%d/order=%d", conc, order)
			wit := func(extra map[string]any) map[string]any {
				m := map[string]any{"class": class, "run": run, "blocks": vfc31Fmt(blocks)}
				for k, v := range extra {
					m[k] = v
				}
				return m
			}
			err := filters[ci].Filter(ctx, metas, synced, nil)
			r.Eval(1)
			if err != nil {
				r.Violation(c, "filter-error", "Filter returned "+err.Error(), wit(nil))
				return
			}
			dups := filters[ci].DuplicateIDs()

			var kept, hidden []vfc31Block
			bogus := false
			for id := range metas {
				if _, ok := byID[id]; !ok {
					bogus = true
				}
			}
			if bogus {
				r.Violation(c, "output-has-unknown-block", "the filtered map contains a block id that was not in the input", wit(nil))
				return
			}
			for _, b := range blocks {
				if _, ok := metas[b.ID]; ok {
					kept = append(kept, b)
				} else {
					hidden = append(hidden, b)
				}
			}
			keptIDs := make([]string, 0, len(kept))
			for _, b := range kept {
				keptIDs = append(keptIDs, b.ID.String())
			}
			sort.Strings(keptIDs)
			hiddenIDs := make([]string, 0, len(hidden))
			for _, b := range hidden {
				hiddenIDs = append(hiddenIDs, b.ID.String())
			}
			sort.Strings(hiddenIDs)
			if len(hidden) > 0 {
				hidAny = true
			}

			// (1) every hidden block is covered by a kept block of its own group
			for _, h := range hidden {
				ok := false
				for _, k := range kept {
					if k.group() == h.group() && vfc31Covers(k, h) {
						ok = true
						break
					}
				}
				if ok {
					continue
				}
				fp := "hidden-block:no-block-covers-its-sources"
				for _, k := range kept {
					if vfc31Covers(k, h) {
						fp = "hidden-block:covered-only-by-kept-block-of-another-group"
					}
				}
				if fp == "hidden-block:no-block-covers-its-sources" {
					for _, o := range hidden {
						if o.ID != h.ID && o.group() == h.group() && vfc31Covers(o, h) {
							fp = "hidden-block:covered-only-by-another-hidden-block"
						}
					}
				}
				r.Violation(c, fp, fmt.Sprintf("block %s (group %s, %d sources) was hidden but no kept block of its group has all its sources (%s, %s)", h.ID, h.group(), len(h.Sources), class, run),
					wit(map[string]any{"hidden": hiddenIDs, "kept": keptIDs, "block": h.ID.String()}))
				return
			}
			// (2) per group, every source is still held by a kept block
			have := map[string]map[ulid.ULID]struct{}{}
			for _, k := range kept {
				g := k.group()
				if have[g] == nil {
					have[g] = map[ulid.ULID]struct{}{}
				}
				for _, s := range k.Sources {
					have[g][s] = struct{}{}
				}
			}
			for _, b := range blocks {
				for _, s := range b.Sources {
					if _, ok := have[b.group()][s]; !ok {
						r.Violation(c, "source-lost:no-kept-block-of-the-group-holds-it", fmt.Sprintf("source %s of group %s is held by no kept block after filtering (%s, %s)", s, b.group(), class, run),
							wit(map[string]any{"hidden": hiddenIDs, "kept": keptIDs, "source": s.String()}))
						return
					}
				}
			}
			// (3) DuplicateIDs() is exactly the hidden set
			dupIDs := make([]string, 0, len(dups))
			for _, d := range dups {
				dupIDs = append(dupIDs, d.String())
			}
			sort.Strings(dupIDs)
			if strings.Join(dupIDs, ",") != strings.Join(hiddenIDs, ",") {
				r.Violation(c, "duplicate-ids-differ-from-hidden-set", fmt.Sprintf("DuplicateIDs() has %d entries, %d blocks were removed from the map (%s, %s)", len(dupIDs), len(hiddenIDs), class, run),
					wit(map[string]any{"hidden": hiddenIDs, "duplicate_ids": dupIDs}))
				return
			}
			// (4) same outcome for every insertion order and concurrency
			outcome := strings.Join(keptIDs, ",")
			if refRun == "" {
				refOutcome, refRun = outcome, run
			} else if outcome != refOutcome {
				r.Violation(c, "outcome-depends-on-order-or-concurrency", fmt.Sprintf("kept set differs between %s and %s (%s)", refRun, run, class),
					wit(map[string]any{"kept_" + refRun: strings.Split(refOutcome, ","), "kept_" + run: keptIDs}))
				return
			}
		}
	}
	if hidAny {
		r.Distinct(vfc31Key(blocks))
		r.Count("cases_with_hidden_block", 1)
	}
	r.Sample(map[string]any{"class": class, "blocks": len(blocks), "kept": len(strings.Split(refOutcome, ",")), "hid_some": hidAny})
}
