//go:build verif

package block

import (
	"context"
	"fmt"
	"math/rand"
	"sort"
	"strings"
	"testing"

	"github.com/oklog/ulid/v2"
	"github.com/prometheus/client_golang/prometheus"
	"github.com/prometheus/prometheus/tsdb"

	"github.com/thanos-io/thanos/pkg/block/metadata"
	"github.com/thanos-io/thanos/pkg/extprom"
	"github.com/thanos-io/thanos/pkg/verifhook/vfkit"
)

// vfc31Block is the generator's own description of one block: the oracle works on this, never on
// anything the filter computed (group identity is (resolution, label set), not Thanos.GroupKey()).
type vfc31Block struct {
	ID      ulid.ULID
	Res     int64
	Labels  map[string]string
	Sources []ulid.ULID

	grp string                 // memoised by vfc31Prepare
	set map[ulid.ULID]struct{} // memoised by vfc31Prepare
}

func (b vfc31Block) group() string {
	if b.grp != "" {
		return b.grp
	}
	ks := make([]string, 0, len(b.Labels))
	for k := range b.Labels {
		ks = append(ks, k)
	}
	sort.Strings(ks)
	var sb strings.Builder
	fmt.Fprintf(&sb, "res=%d", b.Res)
	for _, k := range ks {
		fmt.Fprintf(&sb, ",%s=%q", k, b.Labels[k])
	}
	return sb.String()
}

func (b vfc31Block) meta() *metadata.Meta {
	lbls := make(map[string]string, len(b.Labels))
	for k, v := range b.Labels {
		lbls[k] = v
	}
	return &metadata.Meta{
		BlockMeta: tsdb.BlockMeta{
			ULID:       b.ID,
			Version:    1,
			Compaction: tsdb.BlockMetaCompaction{Level: 1, Sources: append([]ulid.ULID(nil), b.Sources...)},
		},
		Thanos: metadata.Thanos{Labels: lbls, Downsample: metadata.ThanosDownsample{Resolution: b.Res}},
	}
}

func vfc31ID(rng *rand.Rand) ulid.ULID {
	var id ulid.ULID
	// small timestamp space so that ULID order is not correlated with generation order
	_ = id.SetTime(uint64(1_600_000_000_000 + rng.Intn(50)))
	var e [10]byte
	rng.Read(e[:])
	_ = id.SetEntropy(e[:])
	return id
}

func vfc31SrcSet(s []ulid.ULID) map[ulid.ULID]struct{} {
	m := make(map[ulid.ULID]struct{}, len(s))
	for _, x := range s {
		m[x] = struct{}{}
	}
	return m
}

// vfc31Covers: sources(p) is a superset of sources(b) (set semantics).
func vfc31Covers(p, b vfc31Block) bool {
	ps := p.set
	if ps == nil {
		ps = vfc31SrcSet(p.Sources)
	}
	for _, s := range b.Sources {
		if _, ok := ps[s]; !ok {
			return false
		}
	}
	return true
}

// vfc31Gen generates 1..30 blocks over a pool of 1..12 source ULIDs in 1..3 compaction groups.
func vfc31Gen(rng *rand.Rand) ([]vfc31Block, string) {
	n := 1 + rng.Intn(30)
	if rng.Intn(4) == 0 {
		n = 1 + rng.Intn(6)
	}
	pool := make([]ulid.ULID, 1+rng.Intn(12))
	for i := range pool {
		pool[i] = vfc31ID(rng)
	}
	type grp struct {
		res int64
		l   map[string]string
	}
	allRes := []int64{0, 5 * 60 * 1000, 60 * 60 * 1000}
	allLbl := []map[string]string{{"cluster": "a"}, {"cluster": "b"}, {"cluster": "a", "replica": "1"}, {}}
	ng := 1 + rng.Intn(3)
	groups := make([]grp, 0, ng)
	seen := map[string]bool{}
	for len(groups) < ng {
		g := grp{res: vfkit.Pick(rng, allRes), l: vfkit.Pick(rng, allLbl)}
		k := vfc31Block{Res: g.res, Labels: g.l}.group()
		if seen[k] {
			continue
		}
		seen[k] = true
		groups = append(groups, g)
	}
	shape := vfkit.Pick(rng, []string{"mixed", "mixed", "equal-sets", "nested", "partial", "disjoint", "level1-plus-compacted"})
	usedID := map[ulid.ULID]bool{}
	var out []vfc31Block
	subset := func(k int) []ulid.ULID {
		if k > len(pool) {
			k = len(pool)
		}
		p := rng.Perm(len(pool))[:k]
		s := make([]ulid.ULID, 0, k)
		for _, i := range p {
			s = append(s, pool[i])
		}
		return s
	}
	var last []ulid.ULID
	next := 0
	for i := 0; i < n; i++ {
		g := groups[rng.Intn(len(groups))]
		b := vfc31Block{Res: g.res, Labels: g.l}
		sh := shape
		if sh == "mixed" {
			sh = vfkit.Pick(rng, []string{"equal-sets", "nested", "partial", "disjoint", "level1-plus-compacted", "odd"})
		}
		switch sh {
		case "equal-sets":
			if last == nil || rng.Intn(3) == 0 {
				last = subset(1 + rng.Intn(4))
			}
			b.Sources = vfkit.Perm(rng, append([]ulid.ULID(nil), last...))
		case "nested":
			if last == nil || rng.Intn(4) == 0 {
				last = subset(1 + rng.Intn(len(pool)))
			}
			k := 1 + rng.Intn(len(last))
			b.Sources = append([]ulid.ULID(nil), last[:k]...)
		case "partial":
			b.Sources = subset(1 + rng.Intn(5))
		case "disjoint":
			b.Sources = []ulid.ULID{pool[next%len(pool)]}
			next++
		case "level1-plus-compacted":
			if rng.Intn(2) == 0 {
				// a level-1 block: its only source is itself
				s := pool[rng.Intn(len(pool))]
				if !usedID[s] {
					b.ID = s
					b.Sources = []ulid.ULID{s}
				} else {
					b.Sources = subset(2 + rng.Intn(4))
				}
			} else {
				b.Sources = subset(2 + rng.Intn(4))
			}
		case "odd":
			switch rng.Intn(3) {
			case 0: // a repeated source
				b.Sources = subset(1 + rng.Intn(3))
				b.Sources = append(b.Sources, b.Sources[0])
			case 1: // no sources recorded
				b.Sources = nil
			default:
				b.Sources = subset(len(pool))
			}
		}
		if b.ID == (ulid.ULID{}) {
			for {
				b.ID = vfc31ID(rng)
				if !usedID[b.ID] {
					break
				}
			}
		}
		if usedID[b.ID] {
			continue
		}
		usedID[b.ID] = true
		out = append(out, b)
	}
	return out, fmt.Sprintf("%s/n=%d/pool=%d/groups=%d", shape, len(out), len(pool), len(groups))
}

func vfc31Fmt(bs []vfc31Block) []map[string]any {
	var out []map[string]any
	for _, b := range bs {
		var s []string
		for _, x := range b.Sources {
			s = append(s, x.String())
		}
		out = append(out, map[string]any{"id": b.ID.String(), "group": b.group(), "sources": s})
	}
	return out
}

func vfc31Key(bs []vfc31Block) string {
	var parts []string
	for _, b := range bs {
		var s []string
		for _, x := range b.Sources {
			s = append(s, x.String())
		}
		sort.Strings(s)
		parts = append(parts, b.ID.String()+"|"+b.group()+"|"+strings.Join(s, ","))
	}
	sort.Strings(parts)
	return strings.Join(parts, ";")
}

func TestVF_C31(t *testing.T) {
	r := vfkit.Start(t, "C31")
	defer r.Finish()
	r.Rule("case = a HISTORY of 2..4 listings; the first has 1..30 block metas whose source lists are drawn from a pool of 1..12 ULIDs (equal sets under different block ids, nested, partially overlapping, disjoint, level-1 blocks next to their compactions, repeated/empty source lists) in 1..3 compaction groups (resolution x external labels); every next listing is derived from the previous one: blocks disappear, come back, new blocks appear, the SAME ULID returns with other external labels / resolution (= another compaction group), source lists change; " +
		"ONE DefaultDeduplicateFilter instance (concurrency 1|2|8|32 chosen per history) filters all listings of the history in turn, as the fetcher reuses its filter; every listing is also filtered by a fresh filter of another concurrency on a differently built map, the first listing by fresh filters of the two remaining concurrency levels too; " +
		"oracle per call, depending only on that call's listing (own group identity and set arithmetic): every hidden block has a KEPT block of the same group whose sources are a superset; every source of a group is still held by a kept block of that group; DuplicateIDs() == hidden set; the reused filter's outcome == the fresh filters' outcome; " +
		"evaluation = one Filter call; distinct = normalised history; non-trivial = some call hid a block")
	n := r.N(3200, 80000)
	r.Require(int64(n)*6, n/4)
	r.Assume("concurrency >= 1 (NewDeduplicateFilter(0) has no worker and is not a supported configuration)")
	r.Assume("block ids are unique within one listing (they are map keys)")
	r.Assume("concurrency is a constructor parameter: it varies between histories and between the reused and the fresh filters of one listing, not between the calls of one instance")
	ctx := context.Background()
	synced := extprom.NewTxGaugeVec(nil, prometheus.GaugeOpts{}, []string{"state"})
	for c := 0; c < n; c++ {
		if !r.Want(c) {
			continue
		}
		rng := r.Rand(c)
		blocks, class := vfc31Gen(rng)
		hist := vfc31GenHistory(rng, blocks)
		if c%2000 == 0 {
			synced.ResetTx() // keeps the gauge small; not part of the oracle
		}
		var wit []any
		for _, l := range hist {
			wit = append(wit, vfc31Fmt(l))
		}
		r.Guard(c, "dedup-filter", map[string]any{"class": class, "listings": wit}, func() {
			vfc31CheckHistory(ctx, r, c, rng, hist, class, synced)
		})
	}
}

var vfc31AllRes = []int64{0, 5 * 60 * 1000, 60 * 60 * 1000}
var vfc31AllLbl = []map[string]string{{"cluster": "a"}, {"cluster": "b"}, {"cluster": "a", "replica": "1"}, {}}

// vfc31GenHistory derives 1..3 further listings from the first one.
func vfc31GenHistory(rng *rand.Rand, first []vfc31Block) [][]vfc31Block {
	hist := [][]vfc31Block{first}
	var pool []ulid.ULID
	seen := map[ulid.ULID]bool{}
	for _, b := range first {
		for _, s := range b.Sources {
			if !seen[s] {
				seen[s] = true
				pool = append(pool, s)
			}
		}
	}
	if len(pool) == 0 {
		pool = append(pool, vfc31ID(rng))
	}
	// groups that occur in the first listing, plus possibly one that does not
	type grp struct {
		res int64
		l   map[string]string
	}
	var groups []grp
	gseen := map[string]bool{}
	for _, b := range first {
		if k := b.group(); !gseen[k] {
			gseen[k] = true
			groups = append(groups, grp{b.Res, b.Labels})
		}
	}
	for len(groups) < 2 || (len(groups) < 4 && rng.Intn(3) == 0) {
		g := grp{vfkit.Pick(rng, vfc31AllRes), vfkit.Pick(rng, vfc31AllLbl)}
		if k := (vfc31Block{Res: g.res, Labels: g.l}).group(); !gseen[k] {
			gseen[k] = true
			groups = append(groups, g)
		}
	}
	subset := func(k int) []ulid.ULID {
		if k > len(pool) {
			k = len(pool)
		}
		var s []ulid.ULID
		for _, i := range rng.Perm(len(pool))[:k] {
			s = append(s, pool[i])
		}
		return s
	}
	var gone []vfc31Block // blocks that disappeared and may come back
	prev := first
	for step, steps := 0, 1+rng.Intn(3); step < steps; step++ {
		var next []vfc31Block
		used := map[ulid.ULID]bool{}
		for _, b := range prev {
			nb := vfc31Block{ID: b.ID, Res: b.Res, Labels: b.Labels, Sources: b.Sources}
			switch x := rng.Intn(20); {
			case x < 3: // disappears (deleted / filtered out by an earlier filter of the chain)
				gone = append(gone, nb)
				continue
			case x < 8: // same ULID, other external labels / resolution: another compaction group
				g := groups[rng.Intn(len(groups))]
				nb.Res, nb.Labels = g.res, g.l
			case x < 10: // same ULID, other sources
				nb.Sources = subset(1 + rng.Intn(4))
			}
			used[nb.ID] = true
			next = append(next, nb)
		}
		for k := rng.Intn(3); k > 0 && len(gone) > 0; k-- { // comes back, maybe in another group
			i := rng.Intn(len(gone))
			nb := gone[i]
			gone = append(gone[:i], gone[i+1:]...)
			if used[nb.ID] {
				continue
			}
			if rng.Intn(2) == 0 {
				g := groups[rng.Intn(len(groups))]
				nb.Res, nb.Labels = g.res, g.l
			}
			used[nb.ID] = true
			next = append(next, nb)
		}
		for k := rng.Intn(3); k > 0; k-- { // new blocks: often with the sources of an existing one (a re-compaction / replica upload)
			g := groups[rng.Intn(len(groups))]
			nb := vfc31Block{ID: vfc31ID(rng), Res: g.res, Labels: g.l}
			if len(next) > 0 && rng.Intn(2) == 0 {
				nb.Sources = append([]ulid.ULID(nil), next[rng.Intn(len(next))].Sources...)
			} else {
				nb.Sources = subset(1 + rng.Intn(5))
			}
			if !used[nb.ID] {
				used[nb.ID] = true
				next = append(next, nb)
			}
		}
		hist = append(hist, next)
		prev = next
	}
	return hist
}

type vfc31Outcome struct {
	kept, hidden       []vfc31Block
	keptIDs, hiddenIDs []string
	dupIDs             []string
	unknown            bool
	err                error
}

// vfc31Run filters one listing with the given filter instance.
func vfc31Run(ctx context.Context, f *DefaultDeduplicateFilter, blocks []vfc31Block, rng *rand.Rand, shuffled bool, synced GaugeVec) vfc31Outcome {
	ins := blocks
	var metas map[ulid.ULID]*metadata.Meta
	if shuffled {
		ins = vfkit.Perm(rng, append([]vfc31Block(nil), blocks...))
		metas = make(map[ulid.ULID]*metadata.Meta, 64)
	} else {
		metas = make(map[ulid.ULID]*metadata.Meta)
	}
	for _, b := range ins {
		metas[b.ID] = b.meta()
	}
	var o vfc31Outcome
	if o.err = f.Filter(ctx, metas, synced, nil); o.err != nil {
		return o
	}
	in := make(map[ulid.ULID]struct{}, len(blocks))
	for _, b := range blocks {
		in[b.ID] = struct{}{}
		if _, ok := metas[b.ID]; ok {
			o.kept = append(o.kept, b)
			o.keptIDs = append(o.keptIDs, b.ID.String())
		} else {
			o.hidden = append(o.hidden, b)
			o.hiddenIDs = append(o.hiddenIDs, b.ID.String())
		}
	}
	for id := range metas {
		if _, ok := in[id]; !ok {
			o.unknown = true
		}
	}
	for _, d := range f.DuplicateIDs() {
		o.dupIDs = append(o.dupIDs, d.String())
	}
	sort.Strings(o.keptIDs)
	sort.Strings(o.hiddenIDs)
	sort.Strings(o.dupIDs)
	return o
}

// vfc31Oracle checks one outcome against its own listing only. Returns "" or (fingerprint, text, extra witness).
func vfc31Oracle(blocks []vfc31Block, o vfc31Outcome) (string, string, map[string]any) {
	if o.err != nil {
		return "filter-error", "Filter returned " + o.err.Error(), nil
	}
	if o.unknown {
		return "output-has-unknown-block", "the filtered map contains a block id that was not in the input", nil
	}
	ex := map[string]any{"hidden": o.hiddenIDs, "kept": o.keptIDs}
	// (1) every hidden block is covered by a kept block of its own group
	for _, h := range o.hidden {
		ok := false
		for _, k := range o.kept {
			if k.group() == h.group() && vfc31Covers(k, h) {
				ok = true
				break
			}
		}
		if ok {
			continue
		}
		fp := "hidden-block:no-block-covers-its-sources"
		for _, k := range o.kept {
			if vfc31Covers(k, h) {
				fp = "hidden-block:covered-only-by-kept-block-of-another-group"
			}
		}
		if fp == "hidden-block:no-block-covers-its-sources" {
			for _, x := range o.hidden {
				if x.ID != h.ID && x.group() == h.group() && vfc31Covers(x, h) {
					fp = "hidden-block:covered-only-by-another-hidden-block"
				}
			}
		}
		ex["block"] = h.ID.String()
		return fp, fmt.Sprintf("block %s (group %s, %d sources) was hidden but no kept block of its group has all its sources", h.ID, h.group(), len(h.Sources)), ex
	}
	// (2) per group, every source is still held by a kept block
	have := map[string]map[ulid.ULID]struct{}{}
	for _, k := range o.kept {
		g := k.group()
		if have[g] == nil {
			have[g] = map[ulid.ULID]struct{}{}
		}
		for _, s := range k.Sources {
			have[g][s] = struct{}{}
		}
	}
	for _, b := range blocks {
		for _, s := range b.Sources {
			if _, ok := have[b.group()][s]; !ok {
				ex["source"] = s.String()
				return "source-lost:no-kept-block-of-the-group-holds-it", fmt.Sprintf("source %s of group %s is held by no kept block after filtering", s, b.group()), ex
			}
		}
	}
	// (3) DuplicateIDs() is exactly the hidden set
	if strings.Join(o.dupIDs, ",") != strings.Join(o.hiddenIDs, ",") {
		ex["duplicate_ids"] = o.dupIDs
		return "duplicate-ids-differ-from-hidden-set", fmt.Sprintf("DuplicateIDs() has %d entries, %d blocks were removed from the map", len(o.dupIDs), len(o.hiddenIDs)), ex
	}
	return "", "", nil
}

func vfc31CheckHistory(ctx context.Context, r *vfkit.Run, c int, rng *rand.Rand, hist [][]vfc31Block, class string, synced GaugeVec) {
	concs := []int{1, 2, 8, 32}
	hc := rng.Intn(len(concs))
	reused := NewDeduplicateFilter(concs[hc]) // the one instance that sees the whole history
	hidAny := false
	var key []string
	var wit []any
	for _, l := range hist {
		wit = append(wit, vfc31Fmt(l))
	}
	for li := range hist {
		blocks := hist[li]
		for i := range blocks {
			blocks[i].grp = ""
			blocks[i].grp = blocks[i].group()
			blocks[i].set = vfc31SrcSet(blocks[i].Sources)
		}
		key = append(key, vfc31Key(blocks))
		mk := func(run string, extra map[string]any) map[string]any {
			m := map[string]any{"class": class, "run": run, "listing_index": li, "listings": wit, "reused_filter_concurrency": concs[hc]}
			for k, v := range extra {
				m[k] = v
			}
			return m
		}
		// fresh filters first: they decide single-call defects and are the reference for the reused instance
		fresh := []int{concs[(hc+1+li)%len(concs)]}
		if fresh[0] == concs[hc] {
			fresh[0] = concs[(hc+1)%len(concs)]
		}
		if li == 0 {
			fresh = nil
			for i, cc := range concs {
				if i != hc {
					fresh = append(fresh, cc)
				}
			}
		}
		var ref vfc31Outcome
		var refRun string
		for fi, cc := range fresh {
			run := fmt.Sprintf("listing %d/fresh filter/concurrency=%d", li, cc)
			o := vfc31Run(ctx, NewDeduplicateFilter(cc), blocks, rng, fi%2 == 0, synced)
			r.Eval(1)
			if fp, txt, ex := vfc31Oracle(blocks, o); fp != "" {
				r.Violation(c, fp, fmt.Sprintf("%s (%s, %s)", txt, class, run), mk(run, ex))
				return
			}
			if refRun == "" {
				ref, refRun = o, run
			} else if strings.Join(o.keptIDs, ",") != strings.Join(ref.keptIDs, ",") {
				r.Violation(c, "outcome-depends-on-order-or-concurrency", fmt.Sprintf("kept set differs between %s and %s (%s)", refRun, run, class),
					mk(run, map[string]any{"kept_ref": ref.keptIDs, "kept": o.keptIDs}))
				return
			}
			if len(o.hidden) > 0 {
				hidAny = true
			}
		}
		run := fmt.Sprintf("listing %d/filter reused since listing 0/concurrency=%d", li, concs[hc])
		o := vfc31Run(ctx, reused, blocks, rng, li%2 == 1, synced)
		r.Eval(1)
		if o.err == nil && !o.unknown && strings.Join(o.keptIDs, ",") != strings.Join(ref.keptIDs, ",") {
			fp := "outcome-depends-on-order-or-concurrency"
			if li > 0 {
				fp = "reused-filter:outcome-differs-from-fresh-filter-on-the-same-listing"
			}
			ofp, otxt, _ := vfc31Oracle(blocks, o)
			r.Violation(c, fp, fmt.Sprintf("kept set of %s differs from %s (%s); cover check of the reused filter's outcome: %s %s", run, refRun, class, ofp, otxt),
				mk(run, map[string]any{"kept_fresh": ref.keptIDs, "kept_reused": o.keptIDs, "hidden_fresh": ref.hiddenIDs, "hidden_reused": o.hiddenIDs}))
			return
		}
		if fp, txt, ex := vfc31Oracle(blocks, o); fp != "" {
			r.Violation(c, fp, fmt.Sprintf("%s (%s, %s)", txt, class, run), mk(run, ex))
			return
		}
		if li > 0 {
			r.Count("calls_on_reused_filter_after_listing_changed", 1)
		}
	}
	if hidAny {
		r.Distinct(strings.Join(key, "#"))
		r.Count("cases_with_hidden_block", 1)
	}
	r.Count(fmt.Sprintf("histories_of_%d_listings", len(hist)), 1)
	r.Sample(map[string]any{"class": class, "listings": len(hist), "blocks_per_listing": func() []int {
		var n []int
		for _, l := range hist {
			n = append(n, len(l))
		}
		return n
	}(), "reused_filter_concurrency": concs[hc], "hid_some": hidAny})
}
