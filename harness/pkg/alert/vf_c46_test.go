//go:build verif

package alert

import (
	"fmt"
	"math/rand"
	"runtime"
	"sort"
	"strconv"
	"strings"
	"sync"
	"sync/atomic"
	"testing"
	"time"

	"github.com/anishathalye/porcupine"
	"github.com/prometheus/common/model"
	"github.com/prometheus/prometheus/model/labels"
	"github.com/prometheus/prometheus/model/relabel"
	"github.com/prometheus/prometheus/notifier"

	"github.com/thanos-io/thanos/pkg/verifhook"
	"github.com/thanos-io/thanos/pkg/verifhook/vfkit"
)

const (
	vfc46Push = iota
	vfc46Pop
	vfc46Len
)

// vfc46In / vfc46Out are the porcupine operation payloads.
type vfc46In struct {
	Kind int
	Kept []int // push: ids that survive the relabel drop, in push order
	All  []int // push: all ids pushed (for the witness)
}

type vfc46Out struct {
	IDs []int // pop
	N   int   // len
}

func vfc46Join(ids []int) string {
	s := make([]string, len(ids))
	for i, v := range ids {
		s[i] = strconv.Itoa(v)
	}
	return strings.Join(s, ",")
}

// vfc46Model is the sequential specification: a bounded FIFO of capacity c with batch pop of at most b.
// State is the comma-joined list of queued ids.
func vfc46Model(c, b int) porcupine.Model {
	split := func(st string) []string {
		if st == "" {
			return nil
		}
		return strings.Split(st, ",")
	}
	return porcupine.Model{
		Init: func() interface{} { return "" },
		Step: func(state, input, output interface{}) (bool, interface{}) {
			q := split(state.(string))
			in, out := input.(vfc46In), output.(vfc46Out)
			switch in.Kind {
			case vfc46Push:
				for _, id := range in.Kept {
					q = append(q, strconv.Itoa(id))
				}
				if len(q) > c {
					q = q[len(q)-c:] // the oldest are dropped
				}
				return true, strings.Join(q, ",")
			case vfc46Pop:
				n := len(q)
				if n > b {
					n = b
				}
				if strings.Join(q[:n], ",") != vfc46Join(out.IDs) {
					return false, state
				}
				return true, strings.Join(q[n:], ",")
			default:
				return out.N == len(q), state
			}
		},
		Equal: func(a, b interface{}) bool { return a.(string) == b.(string) },
		DescribeOperation: func(input, output interface{}) string {
			in, out := input.(vfc46In), output.(vfc46Out)
			switch in.Kind {
			case vfc46Push:
				return fmt.Sprintf("Push(%s)", vfc46Join(in.All))
			case vfc46Pop:
				return fmt.Sprintf("Pop()->[%s]", vfc46Join(out.IDs))
			}
			return fmt.Sprintf("Len()->%d", out.N)
		},
	}
}

type vfc46Rec struct {
	mu    sync.Mutex
	ops   []porcupine.Operation
	clock atomic.Int64
}

func (h *vfc46Rec) add(client int, in vfc46In, out vfc46Out, call, ret int64) {
	h.mu.Lock()
	h.ops = append(h.ops, porcupine.Operation{ClientId: client, Input: in, Call: call, Output: out, Return: ret})
	h.mu.Unlock()
}

func vfc46IDs(as []*notifier.Alert) []int {
	out := make([]int, 0, len(as))
	for _, a := range as {
		id, err := strconv.Atoi(a.Labels.Get("id"))
		if err != nil {
			id = -1
		}
		out = append(out, id)
	}
	return out
}

// vfc46State reads the queue's internal state at a quiescent point, under its own mutex.
func vfc46State(q *Queue) (queued, tokens int) {
	q.mtx.Lock()
	defer q.mtx.Unlock()
	return len(q.queue), len(q.morec)
}

type vfc46Plan struct {
	C, B      int
	Pushers   [][][]int // per pusher: per push: ids (negative id = alert that the relabel config drops; |id| is the id)
	Poppers   []int     // per popper: max number of Pop calls
	Lens      int       // Len probes
	Relabel   bool
	Procs     int
	DelayMode int
}

func vfc46Gen(rng *rand.Rand, c int) vfc46Plan {
	p := vfc46Plan{C: 1 + rng.Intn(8), B: 1 + rng.Intn(4), Relabel: rng.Intn(3) != 0, Procs: []int{1, 2, 4, 16}[c%4], DelayMode: rng.Intn(3), Lens: rng.Intn(5)}
	next := 1
	np := 2 + rng.Intn(3)
	budget := 12 // pushes
	for i := 0; i < np; i++ {
		var pushes [][]int
		k := 1 + rng.Intn(4)
		for j := 0; j < k && budget > 0; j++ {
			budget--
			sz := rng.Intn(p.C + 4) // 0..C+3
			var ids []int
			for x := 0; x < sz; x++ {
				id := next
				next++
				if p.Relabel && rng.Intn(4) == 0 {
					id = -id
				}
				ids = append(ids, id)
			}
			pushes = append(pushes, ids)
		}
		p.Pushers = append(p.Pushers, pushes)
	}
	npop := 1 + rng.Intn(2)
	for i := 0; i < npop; i++ {
		p.Poppers = append(p.Poppers, 1+rng.Intn(6))
	}
	return p
}

func TestVF_C46(t *testing.T) {
	r := vfkit.Start(t, "C46")
	defer r.Finish()
	r.Rule("case = one concurrent history on a real alert.Queue: capacity 1..8, batch 1..4, 2..4 pushers x 1..4 pushes of 0..C+3 uniquely numbered alerts (a relabel rule drops a marked subset), " +
		"1..2 poppers x <= 6 Pop calls, 0..4 Len probes, GOMAXPROCS cycled over 1/2/4/16, PRNG yields/sleeps in the alert.pop.gap hook; after pushers joined and poppers stopped (termc) the queue is " +
		"drained by sequential Pops; <= 40 operations per history, call/return stamped by one atomic counter; oracle: (a) porcupine: the history is linearizable w.r.t. 'bounded FIFO of capacity C, " +
		"Push appends kept alerts and evicts the oldest beyond C, Pop removes min(B,len) from the front, Len = len'; (b) every batch <= B, Len <= C; (c) at every quiescent point queue non-empty => " +
		"wake-up token present (state read under q.mtx); distinct = hash of plan + observed event order; non-trivial = at least one Pop overlapped a Push in time")
	n := r.N(3000, 150000)
	r.Require(int64(n), n/10)
	defer verifhook.SetDelay(nil)
	defer runtime.GOMAXPROCS(runtime.GOMAXPROCS(0))
	var delayCtr atomic.Uint64
	var delayMode atomic.Int32
	verifhook.SetDelay(func(point string) {
		if point != "alert.pop.gap" {
			return
		}
		x := delayCtr.Add(1) * 0x9e3779b97f4a7c15
		switch m := delayMode.Load(); {
		case m == 0:
		case (x>>60)%3 == 0:
			runtime.Gosched()
		case m == 2 && (x>>60)%3 == 1:
			time.Sleep(time.Duration(20+(x>>50)%80) * time.Microsecond) // schedule perturbation only, never a synchronisation
		}
	})
	unknown := 0
	for c := 0; c < n; c++ {
		if !r.Want(c) {
			continue
		}
		rng := r.Rand(c)
		plan := vfc46Gen(rng, c)
		delayMode.Store(int32(plan.DelayMode))
		runtime.GOMAXPROCS(plan.Procs)
		r.Guard(c, "alert.Queue", plan, func() {
			if vfc46Case(r, c, rng, plan) == porcupine.Unknown {
				unknown++
			}
		})
	}
	r.Count("porcupine_timeouts", unknown)
	if unknown*20 > n {
		r.Inconclusive(fmt.Sprintf("porcupine timed out on %d of %d histories", unknown, n))
	}
	if !r.Replaying() && r.Signatures() < n/20 {
		r.Inconclusive(fmt.Sprintf("only %d distinct interleaving signatures in %d histories", r.Signatures(), n))
	}
}

func vfc46Case(r *vfkit.Run, c int, rng *rand.Rand, plan vfc46Plan) porcupine.CheckResult {
	var cfgs []*relabel.Config
	if plan.Relabel {
		cfgs = []*relabel.Config{{SourceLabels: model.LabelNames{"vfdrop"}, Regex: relabel.MustNewRegexp("1"), Action: relabel.Drop, NameValidationScheme: model.UTF8Validation}}
	}
	q := NewQueue(nil, nil, plan.C, plan.B, labels.FromStrings("ext", "1"), []string{"excluded"}, cfgs)
	h := &vfc46Rec{}
	var vmu sync.Mutex
	var viol [][2]string
	flag := func(fp, what string) { vmu.Lock(); viol = append(viol, [2]string{fp, what}); vmu.Unlock() }

	doPop := func(client int, termc <-chan struct{}) (ids []int, terminated bool) {
		call := h.clock.Add(1)
		as := q.Pop(termc)
		ret := h.clock.Add(1)
		if as == nil {
			return nil, true // woken by termc: no queue operation happened
		}
		ids = vfc46IDs(as)
		h.add(client, vfc46In{Kind: vfc46Pop}, vfc46Out{IDs: ids}, call, ret)
		if len(ids) > plan.B {
			flag("batch-larger-than-max-batch-size", fmt.Sprintf("Pop returned %d alerts, max batch size is %d", len(ids), plan.B))
		}
		return ids, false
	}
	doLen := func(client int) {
		call := h.clock.Add(1)
		l := q.Len()
		ret := h.clock.Add(1)
		h.add(client, vfc46In{Kind: vfc46Len}, vfc46Out{N: l}, call, ret)
		if l > plan.C {
			flag("length-exceeds-capacity", fmt.Sprintf("Len() = %d, capacity is %d", l, plan.C))
		}
	}

	start := make(chan struct{})
	termc := make(chan struct{})
	var pushWG, popWG sync.WaitGroup
	client := 0
	for _, pushes := range plan.Pushers {
		pushWG.Add(1)
		yields := rng.Intn(3)
		go func(client int, pushes [][]int) {
			defer pushWG.Done()
			<-start
			for _, ids := range pushes {
				var as []*notifier.Alert
				in := vfc46In{Kind: vfc46Push}
				for _, id := range ids {
					kv := []string{"alertname", "vf", "id", strconv.Itoa(id), "excluded", "x"}
					if id < 0 {
						kv[3] = strconv.Itoa(-id)
						kv = append(kv, "vfdrop", "1")
						in.All = append(in.All, -id)
					} else {
						in.All = append(in.All, id)
						in.Kept = append(in.Kept, id)
					}
					as = append(as, &notifier.Alert{Labels: labels.FromStrings(kv...)})
				}
				call := h.clock.Add(1)
				q.Push(as)
				ret := h.clock.Add(1)
				h.add(client, in, vfc46Out{}, call, ret)
				for y := 0; y < yields; y++ {
					runtime.Gosched()
				}
			}
		}(client, pushes)
		client++
	}
	for _, k := range plan.Poppers {
		popWG.Add(1)
		go func(client, k int) {
			defer popWG.Done()
			<-start
			for i := 0; i < k; i++ {
				if _, term := doPop(client, termc); term {
					return
				}
			}
		}(client, k)
		client++
	}
	if plan.Lens > 0 {
		pushWG.Add(1)
		go func(client int) {
			defer pushWG.Done()
			<-start
			for i := 0; i < plan.Lens; i++ {
				doLen(client)
				runtime.Gosched()
			}
		}(client)
		client++
	}
	close(start)
	pushWG.Wait()
	for y := rng.Intn(4); y > 0; y-- {
		runtime.Gosched()
	}
	close(termc) // blocked poppers return; a popper past the wake-up finishes its Pop
	popWG.Wait()

	// Quiescent: no Push, no Pop in flight. Drain sequentially; before every Pop the wake-up token must be there.
	lost := false
	watchdog := make(chan struct{})
	tm := time.AfterFunc(60*time.Second, func() { close(watchdog) })
	defer tm.Stop()
	for i := 0; i < 14; i++ {
		queued, tokens := vfc46State(q)
		if queued > plan.C {
			flag("length-exceeds-capacity", fmt.Sprintf("%d alerts queued at a quiescent point, capacity is %d", queued, plan.C))
		}
		if queued == 0 {
			if tokens == 1 && rng.Intn(2) == 0 {
				// a left-over token on an empty queue is allowed: the Pop returns an empty batch at once
				if _, term := doPop(client, watchdog); term {
					r.Inconclusive("a drain Pop with a wake-up token present did not return within 60s")
				}
				continue
			}
			break
		}
		if tokens == 0 {
			lost = true
			flag("lost-wake-up:alerts-queued-without-wake-up-token-at-quiescence",
				fmt.Sprintf("no Push or Pop in flight, %d alert(s) queued, wake-up channel empty: the next Pop blocks although alerts are queued", queued))
			break
		}
		if _, term := doPop(client, watchdog); term {
			r.Inconclusive("a drain Pop with a wake-up token present did not return within 60s")
			break
		}
	}
	if queued, _ := vfc46State(q); !lost && queued > 0 {
		flag("drain:queue-not-empty-after-bounded-drain", fmt.Sprintf("%d alert(s) still queued after 14 sequential Pops", queued))
	}

	h.mu.Lock()
	ops := append([]porcupine.Operation(nil), h.ops...)
	h.mu.Unlock()
	// signature: order of call/return events
	type ev struct {
		t int64
		s string
	}
	var evs []ev
	overlap := false
	for _, o := range ops {
		k := []string{"push", "pop", "len"}[o.Input.(vfc46In).Kind]
		evs = append(evs, ev{o.Call, fmt.Sprintf("c%d%s", o.ClientId, k)}, ev{o.Return, fmt.Sprintf("r%d", o.ClientId)})
		if o.Input.(vfc46In).Kind == vfc46Pop {
			for _, p := range ops {
				if p.Input.(vfc46In).Kind == vfc46Push && p.Call < o.Return && o.Call < p.Return {
					overlap = true
				}
			}
		}
	}
	sort.Slice(evs, func(i, j int) bool { return evs[i].t < evs[j].t })
	var sig strings.Builder
	for _, e := range evs {
		sig.WriteString(e.s)
		sig.WriteByte(' ')
	}
	r.Signature(sig.String())
	if overlap {
		r.Distinct(fmt.Sprintf("%+v|%s", plan, sig.String()))
		r.Count("histories_with_pop_overlapping_push", 1)
	}
	r.Count("operations", len(ops))
	if len(ops) > 40 {
		r.Count("histories_over_40_ops", 1)
	}

	mdl := vfc46Model(plan.C, plan.B)
	describe := func() []string {
		sort.Slice(ops, func(i, j int) bool { return ops[i].Call < ops[j].Call })
		var out []string
		for _, o := range ops {
			out = append(out, fmt.Sprintf("client %d [%d,%d] %s", o.ClientId, o.Call, o.Return, mdl.DescribeOperation(o.Input, o.Output)))
		}
		return out
	}
	res := porcupine.CheckOperationsTimeout(mdl, ops, 10*time.Second)
	r.Eval(1)
	if res == porcupine.Illegal {
		flag("history-not-linearizable:bounded-fifo-with-batch-pop", fmt.Sprintf("no sequential order of the %d recorded operations explains the Pop/Len results for capacity %d, batch %d", len(ops), plan.C, plan.B))
	}
	r.Sample(map[string]any{"capacity": plan.C, "batch": plan.B, "pushers": len(plan.Pushers), "poppers": len(plan.Poppers), "gomaxprocs": plan.Procs, "operations": len(ops), "porcupine": string(res), "pop_overlapped_push": overlap})
	vmu.Lock()
	defer vmu.Unlock()
	seen := map[string]bool{}
	for _, v := range viol {
		if seen[v[0]] {
			continue
		}
		seen[v[0]] = true
		r.Violation(c, v[0], v[1], map[string]any{"plan": plan, "history": describe()})
	}
	return res
}
