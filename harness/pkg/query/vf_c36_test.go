//go:build verif

package query

import (
	"fmt"
	"hash/fnv"
	"math"
	"math/rand"
	"strings"
	"testing"
	"time"

	"github.com/prometheus/prometheus/model/histogram"
	"github.com/prometheus/prometheus/model/labels"
	"github.com/prometheus/prometheus/model/value"
	"github.com/prometheus/prometheus/tsdb/chunkenc"
	"github.com/prometheus/prometheus/tsdb/chunks"

	"github.com/thanos-io/thanos/pkg/compact/downsample"
	"github.com/thanos-io/thanos/pkg/dedup"
	"github.com/thanos-io/thanos/pkg/store"
	"github.com/thanos-io/thanos/pkg/store/storepb"
	"github.com/thanos-io/thanos/pkg/verifhook/vfkit"
)

// C36 - raw downsampling aggregates are exact.
//
// The real downsample.DownsampleRaw is run on generated raw float series; the AggrChunks it returns
// are decoded with the real AggrChunk.Get and compared with a window aggregator written from the
// statement. The same chunks are then served by the scripted StoreServer of vf_c04_test.go and read
// back through the real ProxyStore + querier (chunkSeries.Iterator aggregate selection).
// The monitor lives in pkg/query (not in pkg/compact/downsample) because the read-back needs the
// querier and everything it needs from package downsample is exported.

type vfc36Sample struct {
	t int64
	v float64
}

func (s vfc36Sample) T() int64                      { return s.t }
func (s vfc36Sample) F() float64                    { return s.v }
func (s vfc36Sample) H() *histogram.Histogram       { return nil }
func (s vfc36Sample) FH() *histogram.FloatHistogram { return nil }
func (s vfc36Sample) Type() chunkenc.ValueType      { return chunkenc.ValFloat }
func (s vfc36Sample) Copy() chunks.Sample           { return s }

// vfc36Times: 1..3000 strictly increasing raw timestamps (regular with jitter / irregular 1s..20min /
// gappy with whole windows empty / sparse 5..20 min).
func vfc36Times(rng *rand.Rand) ([]int64, string) {
	var n int
	switch x := rng.Intn(20); {
	case x < 8:
		n = 1 + rng.Intn(120)
	case x < 15:
		n = 121 + rng.Intn(680)
	default:
		n = 801 + rng.Intn(2200)
	}
	base := int64(1_500_000_000_000) + rng.Int63n(1_000_000_000)
	if rng.Intn(10) < 3 {
		base = 1 + rng.Int63n(10_000_000)
	}
	mode := vfkit.Pick(rng, []string{"regular", "regular", "irregular", "gappy", "sparse"})
	ts := make([]int64, 0, n)
	t := base
	switch mode {
	case "regular", "gappy":
		iv := vfkit.Pick(rng, []int64{1000, 5000, 15000, 30000, 60000, 120000, 300000})
		for i := 0; i < n; i++ {
			ts = append(ts, t)
			d := iv + rng.Int63n(iv/5+1) - iv/10
			if mode == "gappy" && rng.Intn(50) == 0 {
				d += int64(1+rng.Intn(36)) * 300000
			}
			if d < 1 {
				d = 1
			}
			t += d
		}
		mode = fmt.Sprintf("%s/%ds", mode, iv/1000)
	case "irregular":
		for i := 0; i < n; i++ {
			ts = append(ts, t)
			t += int64(1000 * math.Exp(rng.Float64()*math.Log(1200)))
		}
	case "sparse":
		for i := 0; i < n; i++ {
			ts = append(ts, t)
			t += 300000 + rng.Int63n(900001)
		}
	}
	snap := vfc36Snap(rng, ts)
	return ts, fmt.Sprintf("%s/n=%d/snap=%s", mode, n, snap)
}

// vfc36Snap moves some samples exactly onto downsampling window edges (5m edges; every 1h edge is one too):
// the inclusive last millisecond of a window (t%res == res-1), the first one (t%res == 0) and +-1 ms around
// them - real scrape timestamps are arbitrary milliseconds. Timestamps stay strictly increasing.
func vfc36Snap(rng *rand.Rand, ts []int64) string {
	const step = int64(300000)
	mode := vfkit.Pick(rng, []string{"none", "none", "window-ends", "edges"})
	if mode == "none" {
		return mode
	}
	for i := range ts {
		w := ts[i] / step
		var c int64
		switch mode {
		case "window-ends":
			// the last sample of (about every second) window sits exactly on the window's last millisecond
			if (i+1 < len(ts) && ts[i+1]/step == w) || rng.Intn(2) == 0 {
				continue
			}
			c = w*step + step - 1
		default:
			if rng.Intn(8) != 0 {
				continue
			}
			c = vfkit.Pick(rng, []int64{w*step + step - 1, w*step + step - 2, w * step, w*step + 1, w*step + step})
		}
		if (i == 0 || c > ts[i-1]) && (i+1 == len(ts) || c < ts[i+1]) && c >= 0 {
			ts[i] = c
		}
	}
	return mode
}

func vfc36Values(rng *rand.Rand, ts []int64, res int64) ([]float64, string) {
	vs := make([]float64, len(ts))
	dyadic := rng.Intn(2) == 0
	for i := range vs {
		if dyadic {
			vs[i] = float64(rng.Intn(16001)-8000) / 8
		} else {
			vs[i] = float64(rng.Intn(2001) - 1000)
		}
	}
	nan := func() float64 {
		if rng.Intn(2) == 0 {
			return math.Float64frombits(value.StaleNaN)
		}
		return math.NaN()
	}
	mode := vfkit.Pick(rng, []string{"none", "none", "single", "runs", "windows", "mixed", "all"})
	if mode == "single" || mode == "mixed" {
		for i := range vs {
			if rng.Intn(20) == 0 {
				vs[i] = nan()
			}
		}
	}
	if mode == "runs" || mode == "mixed" {
		for k := 0; k < 1+rng.Intn(4); k++ {
			s := rng.Intn(len(vs))
			l := 2 + rng.Intn(29)
			for i := s; i < len(vs) && i < s+l; i++ {
				vs[i] = nan()
			}
		}
	}
	if mode == "windows" || mode == "mixed" {
		for k := 0; k < 1+rng.Intn(3); k++ {
			w := ts[rng.Intn(len(ts))] / res
			for i := range ts {
				if ts[i]/res == w {
					vs[i] = nan()
				}
			}
		}
	}
	if mode == "all" && len(vs) < 50 {
		for i := range vs {
			vs[i] = nan()
		}
	}
	return vs, "nan=" + mode
}

type vfc36Agg struct {
	Window               int64
	Count, Sum, Min, Max float64
	LastT                int64
}

// vfc36Reference aggregates the non-NaN raw samples per res-aligned window [k*res, (k+1)*res).
func vfc36Reference(ts []int64, vs []float64, res int64) []vfc36Agg {
	var out []vfc36Agg
	for i, t := range ts {
		if math.IsNaN(vs[i]) {
			continue
		}
		w := t / res
		if len(out) == 0 || out[len(out)-1].Window != w {
			out = append(out, vfc36Agg{Window: w, Min: math.Inf(1), Max: math.Inf(-1)})
		}
		a := &out[len(out)-1]
		a.Count++
		a.Sum += vs[i]
		a.Min = math.Min(a.Min, vs[i])
		a.Max = math.Max(a.Max, vs[i])
		a.LastT = t
	}
	return out
}

type vfc36Out struct {
	T                    int64
	Count, Sum, Min, Max float64
	Chunk                int
}

func vfc36Decode(c chunkenc.Chunk) []vfc04Pt {
	var out []vfc04Pt
	it := c.Iterator(nil)
	for it.Next() != chunkenc.ValNone {
		t, v := it.At()
		out = append(out, vfc04Pt{t, v})
	}
	return out
}

func TestVF_C36(t *testing.T) {
	r := vfkit.Start(t, "C36")
	defer r.Finish()
	r.Rule("case = raw float series of 1..3000 samples (regular 1s..5m with jitter / irregular 1s..20min / gappy / sparse scrapes; integer or 1/8-multiple values so sums are exact; NaN and stale markers single, in runs, covering whole windows, everything) x resolution 5m or 1h; " +
		"the real DownsampleRaw output is decoded with AggrChunk.Get and compared window by window with a reference aggregator (count, sum, min, max of the non-NaN raw samples of that window; one output timestamp per non-empty window, inside it), totals over the series, chunk order/non-overlap; " +
		"then the chunks are served by a scripted StoreServer and one (every 8th case: all four) aggregate is read back through ProxyStore + querier with the matching *_over_time hint; distinct = hash of raw series+resolution; non-trivial = at least 2 output windows")
	n := r.N(1200, 30000)
	r.Require(int64(n)*9/10, n/3)
	for c := 0; c < n; c++ {
		if !r.Want(c) {
			continue
		}
		rng := r.Rand(c)
		r.Guard(c, "downsample-raw", nil, func() { vfc36Case(r, c, rng) })
		if r.Counter("harness_timeouts") > 3 {
			r.Inconclusive("Select timed out repeatedly: machine too loaded")
			return
		}
	}
}

func vfc36Case(r *vfkit.Run, c int, rng *rand.Rand) {
	res := vfkit.Pick(rng, []int64{downsample.ResLevel1, downsample.ResLevel1, downsample.ResLevel2})
	ts, class := vfc36Times(rng)
	vs, nanClass := vfc36Values(rng, ts, res)
	class = fmt.Sprintf("%s/%s/res=%dm", class, nanClass, res/60000)
	raw := make([]chunks.Sample, len(ts))
	for i := range ts {
		raw[i] = vfc36Sample{ts[i], vs[i]}
	}
	want := vfc36Reference(ts, vs, res)
	chks := downsample.DownsampleRaw(downsample.SamplesFromTSDBSamples(raw), res)
	r.Eval(1)

	brief := func() []map[string]any {
		var out []map[string]any
		for _, ch := range chks {
			out = append(out, map[string]any{"mint": ch.MinTime, "maxt": ch.MaxTime, "samples": ch.Chunk.NumSamples()})
		}
		return out
	}
	wit := func(extra map[string]any) map[string]any {
		m := map[string]any{"class": class, "resolution_ms": res, "raw_samples": len(ts), "chunks": brief()}
		if len(ts) <= 60 {
			var rw [][2]float64
			for i := range ts {
				rw = append(rw, [2]float64{float64(ts[i]), vs[i]})
			}
			m["raw(t,v)"] = fmt.Sprint(rw)
		}
		for k, v := range extra {
			m[k] = v
		}
		return m
	}
	rawAround := func(w int64) string {
		s := ""
		for i, t := range ts {
			if t/res >= w-1 && t/res <= w+1 {
				s += fmt.Sprintf("(%d,%v,w=%d) ", t, vs[i], t/res)
				if len(s) > 1500 {
					return s + "..."
				}
			}
		}
		return s
	}

	// decode
	var out []vfc36Out
	for k, ch := range chks {
		ac, ok := ch.Chunk.(*downsample.AggrChunk)
		if !ok {
			r.Violation(c, "output-chunk-not-aggregate", fmt.Sprintf("chunk #%d is %T", k, ch.Chunk), wit(nil))
			return
		}
		var pts [4][]vfc04Pt
		for a := downsample.AggrCount; a <= downsample.AggrMax; a++ {
			sub, err := ac.Get(a)
			if err != nil {
				r.Violation(c, "aggregate-unreadable:"+a.String(), fmt.Sprintf("chunk #%d [%d,%d]: Get(%s): %v", k, ch.MinTime, ch.MaxTime, a, err), wit(nil))
				return
			}
			pts[a] = vfc36Decode(sub)
		}
		for a := downsample.AggrSum; a <= downsample.AggrMax; a++ {
			same := len(pts[a]) == len(pts[downsample.AggrCount])
			for i := 0; same && i < len(pts[a]); i++ {
				same = pts[a][i].T == pts[downsample.AggrCount][i].T
			}
			if !same {
				r.Violation(c, "aggregates-misaligned", fmt.Sprintf("chunk #%d [%d,%d]: %s has %d samples / other timestamps than count (%d samples) (%s)", k, ch.MinTime, ch.MaxTime, a, len(pts[a]), len(pts[downsample.AggrCount]), class), wit(nil))
				return
			}
		}
		if ch.MinTime > ch.MaxTime {
			r.Violation(c, "chunk-meta-inverted", fmt.Sprintf("chunk #%d has MinTime %d > MaxTime %d", k, ch.MinTime, ch.MaxTime), wit(nil))
			return
		}
		if k > 0 && chks[k-1].MaxTime >= ch.MinTime {
			r.Violation(c, "chunks-overlap-or-unordered", fmt.Sprintf("chunk #%d [%d,%d] does not start after chunk #%d [%d,%d] (%s)", k, ch.MinTime, ch.MaxTime, k-1, chks[k-1].MinTime, chks[k-1].MaxTime, class), wit(nil))
			return
		}
		for i, p := range pts[downsample.AggrCount] {
			if p.T < ch.MinTime || p.T > ch.MaxTime {
				r.Violation(c, "sample-outside-chunk-meta", fmt.Sprintf("chunk #%d [%d,%d] holds an aggregate sample at t=%d", k, ch.MinTime, ch.MaxTime, p.T), wit(nil))
				return
			}
			out = append(out, vfc36Out{T: p.T, Count: p.V, Sum: pts[downsample.AggrSum][i].V, Min: pts[downsample.AggrMin][i].V, Max: pts[downsample.AggrMax][i].V, Chunk: k})
		}
	}
	for i := 1; i < len(out); i++ {
		if out[i].T <= out[i-1].T {
			r.Violation(c, "output-timestamps-not-increasing", fmt.Sprintf("t[%d]=%d (chunk #%d) after t[%d]=%d (chunk #%d) (%s)", i, out[i].T, out[i].Chunk, i-1, out[i-1].T, out[i-1].Chunk, class), wit(nil))
			return
		}
	}
	// window by window
	wantAt := map[int64]vfc36Agg{}
	for _, a := range want {
		wantAt[a.Window] = a
	}
	seenW := map[int64]bool{}
	firstOfChunk := map[int]int64{}
	for _, o := range out {
		if _, ok := firstOfChunk[o.Chunk]; !ok {
			firstOfChunk[o.Chunk] = o.T
		}
	}
	eq := func(a, b float64) bool { return math.Float64bits(a) == math.Float64bits(b) }
	for _, o := range out {
		w := o.T / res
		e, ok := wantAt[w]
		pos := "inside-chunk"
		if o.Chunk > 0 && firstOfChunk[o.Chunk] == o.T {
			pos = "first-window-of-later-chunk"
		}
		if !ok {
			r.Violation(c, "output-for-window-without-raw-samples", fmt.Sprintf("output timestamp %d lies in window %d which holds no non-NaN raw sample (%s)", o.T, w, class), wit(map[string]any{"output": o, "raw_around": rawAround(w)}))
			return
		}
		if seenW[w] {
			r.Violation(c, "window-emitted-twice:"+pos, fmt.Sprintf("a second output timestamp %d for window %d (%s)", o.T, w, class), wit(map[string]any{"output": o, "raw_around": rawAround(w)}))
			return
		}
		seenW[w] = true
		for _, f := range []struct {
			name      string
			got, want float64
		}{{"count", o.Count, e.Count}, {"sum", o.Sum, e.Sum}, {"min", o.Min, e.Min}, {"max", o.Max, e.Max}} {
			if !eq(f.got, f.want) {
				r.Violation(c, f.name+"-differs:"+pos, fmt.Sprintf("at output timestamp %d (window %d, chunk #%d) %s is %v, the non-NaN raw samples of that window give %v (%s)", o.T, w, o.Chunk, f.name, f.got, f.want, class),
					wit(map[string]any{"output": o, "reference": e, "raw_around": rawAround(w)}))
				return
			}
		}
	}
	for _, e := range want {
		if !seenW[e.Window] {
			r.Violation(c, "window-missing", fmt.Sprintf("window %d holds %v non-NaN raw samples but has no output timestamp (%s)", e.Window, e.Count, class), wit(map[string]any{"reference": e, "raw_around": rawAround(e.Window)}))
			return
		}
	}
	// totals over the series (follow from the above; stated separately in the property)
	var tc, tsum float64
	tmin, tmax := math.Inf(1), math.Inf(-1)
	for _, o := range out {
		tc += o.Count
		tsum += o.Sum
		tmin = math.Min(tmin, o.Min)
		tmax = math.Max(tmax, o.Max)
	}
	var rc, rsum float64
	rmin, rmax := math.Inf(1), math.Inf(-1)
	for _, v := range vs {
		if !math.IsNaN(v) {
			rc++
			rsum += v
			rmin = math.Min(rmin, v)
			rmax = math.Max(rmax, v)
		}
	}
	if !eq(tc, rc) || !eq(tsum, rsum) || !eq(tmin, rmin) || !eq(tmax, rmax) {
		r.Violation(c, "series-totals-differ", fmt.Sprintf("totals count/sum/min/max %v/%v/%v/%v, raw %v/%v/%v/%v (%s)", tc, tsum, tmin, tmax, rc, rsum, rmin, rmax, class), wit(nil))
		return
	}
	if len(out) >= 2 {
		h := fnv.New64a()
		for i := range ts {
			fmt.Fprintf(h, "%d:%x,", ts[i], math.Float64bits(vs[i]))
		}
		r.Distinct(fmt.Sprintf("%x|%d", h.Sum64(), res))
	}
	if len(chks) > 1 {
		r.Count("cases_with_several_chunks", 1)
	}
	r.Count("output_windows_checked", len(out))
	r.Sample(map[string]any{"class": class, "raw_samples": len(ts), "non_nan": rc, "chunks": len(chks), "output_windows": len(out)})
	if len(out) == 0 {
		r.Count("cases_without_output(all NaN)", 1)
		return
	}

	// read back through fake store -> ProxyStore -> querier
	st := &vfc04Store{name: "ds-store", ext: labels.FromStrings("replica", "r0"), supportsWRL: rng.Intn(2) == 0, sendBatches: rng.Intn(4) == 0}
	var pbChunks []storepb.AggrChunk
	for _, ch := range chks {
		ac := ch.Chunk.(*downsample.AggrChunk)
		pc := storepb.AggrChunk{MinTime: ch.MinTime, MaxTime: ch.MaxTime}
		for a, dst := range map[downsample.AggrType]**storepb.Chunk{downsample.AggrCount: &pc.Count, downsample.AggrSum: &pc.Sum, downsample.AggrMin: &pc.Min, downsample.AggrMax: &pc.Max, downsample.AggrCounter: &pc.Counter} {
			sub, err := ac.Get(a)
			if err != nil {
				continue
			}
			*dst = &storepb.Chunk{Type: storepb.Chunk_XOR, Data: append([]byte(nil), sub.Bytes()...)}
		}
		pbChunks = append(pbChunks, pc)
	}
	st.series = []vfc04StoredSeries{{lset: labels.FromStrings("__name__", "g", "job", "vf"), chunks: pbChunks, frames: 1 + rng.Intn(3)}}
	proxy := vfc04Proxy([]*vfc04Store{st}, vfkit.Pick(rng, []store.RetrievalStrategy{store.EagerRetrieval, store.LazyRetrieval}))
	creator := NewQueryableCreator(nil, nil, proxy, 4, 10*time.Minute, dedup.AlgorithmPenalty, vfkit.Pick(rng, []int{0, 1, 64}))
	dedupOn := rng.Intn(2) == 0
	q := creator(dedupOn, []string{"replica"}, nil, res, false, false, nil, NoopSeriesStatsReporter)
	type rb struct {
		f   string
		get func(vfc36Out) float64
	}
	all := []rb{{"count_over_time", func(o vfc36Out) float64 { return o.Count }}, {"sum_over_time", func(o vfc36Out) float64 { return o.Sum }},
		{"min_over_time", func(o vfc36Out) float64 { return o.Min }}, {"max_over_time", func(o vfc36Out) float64 { return o.Max }}}
	sel := []rb{all[rng.Intn(4)]}
	if c%8 == 0 {
		sel = all
	}
	// candidate range bounds: exactly the chunk MinTime / MaxTime values and their neighbours (the querier's mint/maxt are inclusive)
	var bounds []int64
	for _, ch := range chks {
		for _, d := range []int64{-1, 0, 1} {
			bounds = append(bounds, ch.MinTime+d, ch.MaxTime+d)
		}
	}
	for _, x := range sel {
		mint, maxt := out[0].T-1, out[len(out)-1].T+1
		rangeKind := "full"
		if rng.Intn(2) == 0 {
			a, b := vfkit.Pick(rng, bounds), vfkit.Pick(rng, bounds)
			if a > b {
				a, b = b, a
			}
			mint, maxt, rangeKind = a, b, "chunk-boundaries"
			r.Count("readbacks_with_range_bounds_on_chunk_boundaries", 1)
		}
		got, warn, err := vfc04Select(q, mint, maxt, x.f, rng)
		r.Eval(1)
		r.Count("readbacks_through_querier", 1)
		w := func(extra map[string]any) map[string]any {
			m := wit(map[string]any{"select_func": x.f, "dedup": dedupOn, "store_supports_without_replica_labels": st.supportsWRL, "range": [2]int64{mint, maxt}, "range_kind": rangeKind})
			for k, v := range extra {
				m[k] = v
			}
			return m
		}
		if err != nil {
			if strings.Contains(err.Error(), "context deadline exceeded") {
				r.Count("harness_timeouts", 1)
				continue
			}
			r.Violation(c, "readback:select-error", fmt.Sprintf("Select(%s) over the downsampled chunks failed: %v", x.f, err), w(nil))
			return
		}
		if warn != "" {
			r.Violation(c, "readback:unexpected-warning", "Select returned warnings: "+warn, w(nil))
			return
		}
		allPts := make([]vfc04Pt, len(out))
		for i, o := range out {
			allPts[i] = vfc04Pt{o.T, x.get(o)}
		}
		wantPts := vfc04InRange(allPts, mint, maxt)
		if len(got) == 0 && len(wantPts) == 0 {
			continue // nothing of the series lies in the queried range: it may be absent
		}
		if len(got) != 1 {
			r.Violation(c, "readback:series-count", fmt.Sprintf("Select(%s) over [%d,%d] returned %d series for the one downsampled series (%d aggregate samples in range)", x.f, mint, maxt, len(got), len(wantPts)), w(nil))
			return
		}
		if got[0].Err != "" {
			r.Violation(c, "readback:iterator-error", fmt.Sprintf("Select(%s): iterator failed: %s", x.f, got[0].Err), w(nil))
			return
		}
		// inside the queried range exactly the aggregate samples; outside it only genuine samples of this series are tolerated
		gotIn := vfc04InRange(got[0].Next, mint, maxt)
		if !vfc04SamePts(gotIn, wantPts) {
			k, d := vfc04Diff(gotIn, wantPts)
			if k == "" {
				k = "differs"
			}
			r.Violation(c, "readback:"+x.f+":"+k+":range="+rangeKind, fmt.Sprintf("Select(%s) over [%d,%d] read with Next: %s (%s)", x.f, mint, maxt, d, class), w(map[string]any{"got": vfc04PtsBrief(gotIn), "want": vfc04PtsBrief(wantPts)}))
			return
		}
		if !vfc04IsSubsequence(got[0].Next, allPts) {
			k, d := vfc04Diff(got[0].Next, allPts)
			r.Violation(c, "readback:"+x.f+":outside-range:"+k, fmt.Sprintf("Select(%s) over [%d,%d] read with Next: %s (%s)", x.f, mint, maxt, d, class), w(nil))
			return
		}
		if !vfc04IsSubsequence(got[0].Mixed, allPts) {
			k, d := vfc04Diff(got[0].Mixed, allPts)
			r.Violation(c, "readback:"+x.f+":seek+next:"+k, fmt.Sprintf("Select(%s) read with Seek/Next: %s (%s)", x.f, d, class), w(nil))
			return
		}
		var ref []vfc04Pt
		for _, p := range got[0].Next {
			if p.T <= maxt {
				ref = append(ref, p)
			}
		}
		if bad, d := vfc04CheckSeeks(got[0].seeks, ref); bad {
			r.Violation(c, "readback:seek-inconsistent-with-next-only", fmt.Sprintf("Select(%s): %s (%s)", x.f, d, class), w(nil))
			return
		}
	}
}
