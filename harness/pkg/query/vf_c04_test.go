//go:build verif

package query

import (
	"context"
	"fmt"
	"math"
	"math/rand"
	"os"
	"sort"
	"strings"
	"sync"
	"sync/atomic"
	"testing"
	"time"

	uatomic "go.uber.org/atomic"

	"github.com/prometheus/prometheus/model/labels"
	"github.com/prometheus/prometheus/storage"
	"github.com/prometheus/prometheus/tsdb"
	"github.com/prometheus/prometheus/tsdb/chunkenc"

	"github.com/thanos-io/thanos/pkg/component"
	"github.com/thanos-io/thanos/pkg/dedup"
	"github.com/thanos-io/thanos/pkg/store"
	"github.com/thanos-io/thanos/pkg/store/labelpb"
	"github.com/thanos-io/thanos/pkg/store/storepb"
	storetestutil "github.com/thanos-io/thanos/pkg/store/storepb/testutil"
	"github.com/thanos-io/thanos/pkg/verifhook/vfkit"
)

// C04 - deduplicated queries return each logical series once with replica data.
//
// Full read path: fake StoreServers (scripted series / chunk cuts / frames) behind
// storepb.ServerAsClient -> real store.ProxyStore -> real querier built by NewQueryableCreator.
// Observation point: the storage.SeriesSet returned by Querier(...).Select(...).

// ---------------------------------------------------------------------------------------------
// Fake StoreAPI server (also used by the C36 read-back monitor).
// ---------------------------------------------------------------------------------------------

type vfc04StoredSeries struct {
	lset   labels.Labels       // labels as stored in the store's TSDB/block (without external labels)
	chunks []storepb.AggrChunk // sorted by (MinTime, MaxTime)
	frames int                 // the series is streamed in this many consecutive frames
}

// vfc04Store is a scripted StoreAPI: like a real store it adds its external labels to every series,
// returns the chunks overlapping the requested time range, streams label-sorted series (after
// removing the replica labels when it advertises support for that) and may split a series over frames.
type vfc04Store struct {
	storepb.UnimplementedStoreServer
	name        string
	ext         labels.Labels
	supportsWRL bool
	sendBatches bool
	series      []vfc04StoredSeries
	calls       atomic.Int64
}

func (s *vfc04Store) LabelNames(context.Context, *storepb.LabelNamesRequest) (*storepb.LabelNamesResponse, error) {
	return &storepb.LabelNamesResponse{}, nil
}

func (s *vfc04Store) LabelValues(context.Context, *storepb.LabelValuesRequest) (*storepb.LabelValuesResponse, error) {
	return &storepb.LabelValuesResponse{}, nil
}

func vfc04PickAggr(c storepb.AggrChunk, aggrs []storepb.Aggr) storepb.AggrChunk {
	if c.Raw != nil {
		return storepb.AggrChunk{MinTime: c.MinTime, MaxTime: c.MaxTime, Raw: vfc04CopyChunk(c.Raw)}
	}
	out := storepb.AggrChunk{MinTime: c.MinTime, MaxTime: c.MaxTime}
	for _, a := range aggrs {
		switch a {
		case storepb.Aggr_COUNT:
			out.Count = vfc04CopyChunk(c.Count)
		case storepb.Aggr_SUM:
			out.Sum = vfc04CopyChunk(c.Sum)
		case storepb.Aggr_MIN:
			out.Min = vfc04CopyChunk(c.Min)
		case storepb.Aggr_MAX:
			out.Max = vfc04CopyChunk(c.Max)
		case storepb.Aggr_COUNTER:
			out.Counter = vfc04CopyChunk(c.Counter)
		}
	}
	return out
}

func vfc04CopyChunk(c *storepb.Chunk) *storepb.Chunk {
	if c == nil {
		return nil
	}
	return &storepb.Chunk{Type: c.Type, Data: append([]byte(nil), c.Data...), Hash: c.Hash}
}

func (s *vfc04Store) Series(req *storepb.SeriesRequest, srv storepb.Store_SeriesServer) error {
	s.calls.Add(1)
	type outSeries struct {
		lset   labels.Labels
		chunks []storepb.AggrChunk
		frames int
	}
	var out []outSeries
	for _, ss := range s.series {
		b := labels.NewBuilder(ss.lset)
		s.ext.Range(func(l labels.Label) { b.Set(l.Name, l.Value) })
		if s.supportsWRL {
			for _, rl := range req.WithoutReplicaLabels {
				b.Del(rl)
			}
		}
		var chks []storepb.AggrChunk
		for _, c := range ss.chunks {
			if c.MaxTime < req.MinTime || c.MinTime > req.MaxTime {
				continue
			}
			chks = append(chks, vfc04PickAggr(c, req.Aggregates))
		}
		if len(chks) == 0 {
			continue
		}
		out = append(out, outSeries{lset: b.Labels(), chunks: chks, frames: ss.frames})
	}
	sort.SliceStable(out, func(i, j int) bool { return labels.Compare(out[i].lset, out[j].lset) < 0 })
	var batch []*storepb.Series
	flush := func() error {
		if len(batch) == 0 {
			return nil
		}
		b := batch
		batch = nil
		return srv.Send(storepb.NewBatchResponse(b))
	}
	for _, o := range out {
		frames := o.frames
		if frames < 1 {
			frames = 1
		}
		if frames > len(o.chunks) {
			frames = len(o.chunks)
		}
		per := (len(o.chunks) + frames - 1) / frames
		for lo := 0; lo < len(o.chunks); lo += per {
			hi := lo + per
			if hi > len(o.chunks) {
				hi = len(o.chunks)
			}
			ser := &storepb.Series{Labels: labelpb.ZLabelsFromPromLabels(o.lset.Copy()), Chunks: append([]storepb.AggrChunk(nil), o.chunks[lo:hi]...)}
			if s.sendBatches {
				batch = append(batch, ser)
				if len(batch) >= 3 {
					if err := flush(); err != nil {
						return err
					}
				}
				continue
			}
			if err := srv.Send(storepb.NewSeriesResponse(ser)); err != nil {
				return err
			}
		}
	}
	return flush()
}

func vfc04Client(name string, srv storepb.StoreServer, ext labels.Labels, supportsWRL bool) store.Client {
	return &storetestutil.TestClient{
		Name:        name,
		StoreClient: storepb.ServerAsClient(srv, uatomic.Bool{}),
		ExtLset:     []labels.Labels{ext},
		MinTime:     math.MinInt64, MaxTime: math.MaxInt64,
		WithoutReplicaLabelsEnabled: supportsWRL,
	}
}

func vfc04Proxy(stores []*vfc04Store, strategy store.RetrievalStrategy, extra ...store.Client) *store.ProxyStore {
	cls := make([]store.Client, 0, len(stores)+len(extra))
	for _, s := range stores {
		cls = append(cls, vfc04Client(s.name, s, s.ext, s.supportsWRL))
	}
	cls = append(cls, extra...)
	return store.NewProxyStore(nil, nil, func() []store.Client { return cls }, component.Query, labels.EmptyLabels(), 0, strategy)
}

type vfc04Pt struct {
	T int64
	V float64
}

func vfc04XOR(pts []vfc04Pt) storepb.AggrChunk {
	c := chunkenc.NewXORChunk()
	app, _ := c.Appender()
	for _, p := range pts {
		app.Append(p.T, p.V)
	}
	return storepb.AggrChunk{MinTime: pts[0].T, MaxTime: pts[len(pts)-1].T, Raw: &storepb.Chunk{Type: storepb.Chunk_XOR, Data: append([]byte(nil), c.Bytes()...)}}
}

type vfc04OutSeries struct {
	Labels string
	lset   labels.Labels
	Next   []vfc04Pt // read with Next only
	Mixed  []vfc04Pt // read with Seek/Next mixed (engine style)
	seeks  []vfc04SeekObs
	Err    string
}

type vfc04SeekObs struct {
	Target    int64
	Prev      int64 // timestamp the iterator stood on before (MinInt64: not started)
	Landed    int64
	Exhausted bool
}

// vfc04Select runs one Select through the real querier and reads every returned series twice.
func vfc04Select(q storage.Queryable, mint, maxt int64, f string, rng *rand.Rand) ([]vfc04OutSeries, string, error) {
	qr, err := q.Querier(mint, maxt)
	if err != nil {
		return nil, "", err
	}
	defer qr.Close()
	ctx, cancel := context.WithTimeout(context.Background(), 10*time.Minute)
	defer cancel()
	m := labels.MustNewMatcher(labels.MatchEqual, "job", "vf")
	var hints *storage.SelectHints
	if f != "<nil-hints>" {
		hints = &storage.SelectHints{Start: mint, End: maxt, Func: f}
	}
	set := qr.Select(ctx, true, hints, m)
	var series []storage.Series
	for set.Next() {
		series = append(series, set.At())
	}
	if err := set.Err(); err != nil {
		return nil, "", err
	}
	warn := ""
	for _, w := range set.Warnings().AsErrors() {
		warn += w.Error() + "; "
	}
	var out []vfc04OutSeries
	for _, s := range series {
		o := vfc04OutSeries{Labels: s.Labels().String(), lset: s.Labels()}
		it := s.Iterator(nil)
		for it.Next() != chunkenc.ValNone && len(o.Next) < 5000000 {
			t, v := it.At()
			o.Next = append(o.Next, vfc04Pt{t, v})
		}
		if err := it.Err(); err != nil {
			o.Err = err.Error()
		}
		// engine-style reader: seek forward by random steps, a few Next in between
		it = s.Iterator(nil)
		cur := int64(math.MinInt64)
		for len(o.Mixed) < 5000000 {
			var vt chunkenc.ValueType
			if rng.Intn(2) == 0 {
				var target int64
				if cur == math.MinInt64 {
					target = mint + rng.Int63n(120001) - 60000
				} else {
					target = cur + rng.Int63n(180001) - 30000 // sometimes <= current: must not move
				}
				vt = it.Seek(target)
				if vt != chunkenc.ValNone && it.AtT() > maxt {
					// Seek does not promise to stop at the querier's maxt (only Next is bounded there, and the
					// engine never seeks past maxt); a landing beyond the queried range counts as exhaustion.
					vt = chunkenc.ValNone
				}
				ob := vfc04SeekObs{Target: target, Prev: cur, Exhausted: vt == chunkenc.ValNone}
				if vt != chunkenc.ValNone {
					ob.Landed = it.AtT()
				}
				o.seeks = append(o.seeks, ob)
			} else {
				vt = it.Next()
			}
			if vt == chunkenc.ValNone {
				break
			}
			t, v := it.At()
			if t != cur || len(o.Mixed) == 0 {
				o.Mixed = append(o.Mixed, vfc04Pt{t, v})
			}
			cur = t
		}
		if err := it.Err(); err != nil && o.Err == "" {
			o.Err = err.Error()
		}
		out = append(out, o)
	}
	return out, warn, nil
}

// ---------------------------------------------------------------------------------------------
// Scenario generator.
// ---------------------------------------------------------------------------------------------

const (
	vfc04CutDisjoint = "disjoint"
	vfc04CutComplete = "overlap-complete-chains"
	vfc04CutPartial  = "overlap-partial-chains"
	vfc04CutNested   = "overlap-nested-chunks"
)

var vfc04CutRank = map[string]int{vfc04CutDisjoint: 0, vfc04CutComplete: 1, vfc04CutPartial: 2, vfc04CutNested: 3}

type vfc04Scenario struct {
	replicaLabels []string
	logical       []labels.Labels
	// samples[l][r]: what replica r holds of logical series l
	samples   [][][]vfc04Pt
	identical bool
	monotone  bool
	cutClass  string // worst cut class over all replicas
	stores    []*vfc04Store
	desc      map[string]any
	replicaLs [][]labels.Label // replica label values per replica

	// round 2: replicas served by real TSDBStores (store.NewTSDBStore over a real TSDB head)
	extraClients  []store.Client
	closers       []func()
	nontrivial    bool // TSDB scenarios: set by the generator instead of the >= 2 scripted chunks rule
	fullRangeOnly bool
	frames        *vfc04FrameCounter
	algo          string // fixed dedup algorithm ("" = drawn per scenario)
}

func (sc *vfc04Scenario) vfc04Close() {
	for _, f := range sc.closers {
		f()
	}
	sc.closers = nil
}

// vfc04Cuts cuts n samples into index ranges [lo,hi] (inclusive) according to a cut class.
func vfc04Cuts(rng *rand.Rand, n int, class string) [][][2]int {
	disjoint := func() [][2]int {
		var out [][2]int
		lo := 0
		maxLen := vfkit.Pick(rng, []int{1, 3, 10, 30, 120})
		for lo < n {
			l := 1 + rng.Intn(maxLen)
			hi := lo + l - 1
			if hi >= n {
				hi = n - 1
			}
			out = append(out, [2]int{lo, hi})
			lo = hi + 1
		}
		return out
	}
	switch class {
	case vfc04CutDisjoint:
		return [][][2]int{disjoint()}
	case vfc04CutComplete:
		k := 2 + rng.Intn(2)
		var out [][][2]int
		for i := 0; i < k; i++ {
			out = append(out, disjoint())
		}
		return out
	case vfc04CutPartial:
		// a sliding cover: every chunk starts inside (or right after) the previous one and ends later
		var out [][2]int
		lo, hi := 0, rng.Intn(minInt(n, 30))
		out = append(out, [2]int{lo, hi})
		for hi < n-1 {
			nlo := lo + 1 + rng.Intn(hi-lo+1) // lo < nlo <= hi+1
			nhi := hi + 1 + rng.Intn(30)
			if nhi >= n {
				nhi = n - 1
			}
			out = append(out, [2]int{nlo, nhi})
			lo, hi = nlo, nhi
		}
		return [][][2]int{out}
	default: // nested: a disjoint cover plus chunks lying strictly inside another chunk's range
		base := disjoint()
		var extra [][2]int
		for _, b := range base {
			if b[1]-b[0] >= 2 && rng.Intn(2) == 0 {
				lo := b[0] + 1 + rng.Intn(b[1]-b[0]-1)
				hi := lo + rng.Intn(b[1]-lo)
				extra = append(extra, [2]int{lo, hi})
			}
		}
		if len(extra) == 0 && n >= 3 {
			// force one: replace the cover by a single chunk and nest one inside
			base = [][2]int{{0, n - 1}}
			extra = append(extra, [2]int{1, 1 + rng.Intn(n-2)})
		}
		return [][][2]int{base, extra}
	}
}

func minInt(a, b int) int {
	if a < b {
		return a
	}
	return b
}

func vfc04GenScenario(rng *rand.Rand) *vfc04Scenario {
	sc := &vfc04Scenario{desc: map[string]any{}}
	// replica label names that sort before / between / after the other label names
	nRL := 1 + rng.Intn(2)
	sc.replicaLabels = vfkit.Perm(rng, []string{"replica", "a_rep", "zz_rep"})[:nRL]
	nRep := 1 + rng.Intn(3)
	for r := 0; r < nRep; r++ {
		var ls []labels.Label
		for i, name := range sc.replicaLabels {
			v := fmt.Sprintf("r%d", r)
			if i == 1 {
				v = fmt.Sprintf("g%d", r/2) // second replica label: shared by some replicas, the tuple stays unique
			}
			ls = append(ls, labels.Label{Name: name, Value: v})
		}
		sc.replicaLs = append(sc.replicaLs, ls)
	}
	// logical series
	nL := 1 + rng.Intn(6)
	seen := map[string]bool{}
	for len(sc.logical) < nL {
		b := labels.NewBuilder(labels.EmptyLabels())
		b.Set("job", "vf")
		b.Set("__name__", vfkit.Pick(rng, []string{"m", "m_total", "up"}))
		if rng.Intn(2) == 0 {
			b.Set("b", vfkit.Pick(rng, []string{"1", "2", "x"}))
		}
		if rng.Intn(2) == 0 {
			b.Set("region", vfkit.Pick(rng, []string{"eu", "us"}))
		}
		if rng.Intn(3) == 0 {
			b.Set("zzz", vfkit.Pick(rng, []string{"p", "q"}))
		}
		l := b.Labels()
		if seen[l.String()] {
			b.Set("instance", fmt.Sprintf("i%d", len(sc.logical)))
			l = b.Labels()
		}
		if seen[l.String()] {
			continue
		}
		seen[l.String()] = true
		sc.logical = append(sc.logical, l)
	}
	sc.identical = rng.Intn(10) < 7
	sc.monotone = rng.Intn(3) == 0
	interval := vfkit.Pick(rng, []int64{1000, 15000, 30000, 60000})
	base := int64(1_600_000_000_000) + rng.Int63n(1_000_000)
	gen := func(n int, off int64, salt int) []vfc04Pt {
		o := vfkit.ScrapeOpts{Start: base + off, Interval: interval, Jitter: interval / 10, N: n}
		if rng.Intn(3) == 0 {
			o.GapProb, o.GapMax = 0.1, 5
		}
		ts := vfkit.ScrapeTimes(rng, o)
		out := make([]vfc04Pt, len(ts))
		cur := float64(rng.Intn(100))
		for i, t := range ts {
			if sc.monotone {
				cur += float64(rng.Intn(10))
				out[i] = vfc04Pt{t, cur}
			} else {
				out[i] = vfc04Pt{t, float64(rng.Intn(2001)-1000) / 4}
			}
		}
		_ = salt
		return out
	}
	sc.samples = make([][][]vfc04Pt, nL)
	for l := range sc.logical {
		n := 1 + rng.Intn(150)
		sc.samples[l] = make([][]vfc04Pt, nRep)
		first := gen(n, rng.Int63n(interval), 0)
		for r := 0; r < nRep; r++ {
			if sc.identical || r == 0 {
				sc.samples[l][r] = first
			} else {
				sc.samples[l][r] = gen(1+rng.Intn(150), rng.Int63n(interval), r)
			}
		}
	}
	// replica label placement: external labels of the store, or stored with the series
	placement := vfkit.Pick(rng, []string{"external", "stored", "mixed"})
	if nRL == 1 && placement == "mixed" {
		placement = "external"
	}
	// stores: with external replica labels every replica needs its own store(s)
	type storeKey struct{ rep, copyIdx int }
	var stores []*vfc04Store
	newStore := func(ext labels.Labels) *vfc04Store {
		s := &vfc04Store{name: fmt.Sprintf("store-%d", len(stores)), ext: ext, supportsWRL: rng.Intn(2) == 0, sendBatches: rng.Intn(4) == 0}
		stores = append(stores, s)
		return s
	}
	extOf := func(r int) labels.Labels {
		b := labels.NewBuilder(labels.EmptyLabels())
		switch placement {
		case "external":
			for _, l := range sc.replicaLs[r] {
				b.Set(l.Name, l.Value)
			}
		case "mixed":
			b.Set(sc.replicaLs[r][0].Name, sc.replicaLs[r][0].Value)
		}
		if rng.Intn(2) == 0 {
			b.Set("cluster", "c1") // an ordinary external label, same everywhere, part of every logical series
		}
		return b.Labels()
	}
	storedReplicaLabels := func(r int) []labels.Label {
		switch placement {
		case "stored":
			return sc.replicaLs[r]
		case "mixed":
			return sc.replicaLs[r][1:]
		}
		return nil
	}
	clusterExt := rng.Intn(2) == 0
	mkExt := func(r int) labels.Labels {
		b := labels.NewBuilder(extOf(r))
		b.Del("cluster")
		if clusterExt {
			b.Set("cluster", "c1")
		}
		return b.Labels()
	}
	// candidate stores per replica
	perReplica := make([][]*vfc04Store, nRep)
	if placement == "stored" {
		nS := 1 + rng.Intn(3)
		var shared []*vfc04Store
		for i := 0; i < nS; i++ {
			shared = append(shared, newStore(mkExt(0)))
		}
		for r := range perReplica {
			perReplica[r] = shared
		}
	} else {
		for r := range perReplica {
			k := 1 + rng.Intn(2)
			for i := 0; i < k; i++ {
				perReplica[r] = append(perReplica[r], newStore(mkExt(r)))
			}
		}
	}
	if clusterExt {
		for i, l := range sc.logical {
			b := labels.NewBuilder(l)
			b.Set("cluster", "c1")
			sc.logical[i] = b.Labels()
		}
	}
	// the scenario's cut class is drawn first; every replica series then uses that class or a lower one,
	// so the four classes are exercised about equally often
	classes := []string{vfc04CutDisjoint, vfc04CutComplete, vfc04CutPartial, vfc04CutNested}
	target := rng.Intn(len(classes))
	sc.cutClass = vfc04CutDisjoint
	cutDesc := map[string]int{}
	for l := range sc.logical {
		for r := 0; r < nRep; r++ {
			pts := sc.samples[l][r]
			class := classes[target]
			if rng.Intn(2) == 0 {
				class = classes[rng.Intn(target+1)]
			}
			if len(pts) < 4 && (class == vfc04CutPartial || class == vfc04CutNested) {
				class = vfc04CutDisjoint
			}
			cutDesc[class]++
			if vfc04CutRank[class] > vfc04CutRank[sc.cutClass] {
				sc.cutClass = class
			}
			copies := vfc04Cuts(rng, len(pts), class)
			// stored labels of this replica's series
			b := labels.NewBuilder(sc.logical[l])
			b.Del("cluster")
			for _, rl := range storedReplicaLabels(r) {
				b.Set(rl.Name, rl.Value)
			}
			lset := b.Labels()
			// every copy goes to one of the replica's stores; chunks of one copy may also be spread
			byStore := map[*vfc04Store][]storepb.AggrChunk{}
			for _, cp := range copies {
				st := vfkit.Pick(rng, perReplica[r])
				spread := rng.Intn(4) == 0
				for _, c := range cp {
					if spread {
						st = vfkit.Pick(rng, perReplica[r])
					}
					byStore[st] = append(byStore[st], vfc04XOR(pts[c[0]:c[1]+1]))
				}
			}
			for _, st := range perReplica[r] {
				chks := byStore[st]
				if len(chks) == 0 {
					continue
				}
				sort.SliceStable(chks, func(i, j int) bool {
					if chks[i].MinTime != chks[j].MinTime {
						return chks[i].MinTime < chks[j].MinTime
					}
					return chks[i].MaxTime < chks[j].MaxTime
				})
				st.series = append(st.series, vfc04StoredSeries{lset: lset, chunks: chks, frames: 1 + rng.Intn(3)})
			}
		}
	}
	sc.stores = stores
	var sdesc []any
	for _, s := range stores {
		nch := 0
		for _, ss := range s.series {
			nch += len(ss.chunks)
		}
		sdesc = append(sdesc, map[string]any{"name": s.name, "ext": s.ext.String(), "supports_without_replica_labels": s.supportsWRL, "batches": s.sendBatches, "series": len(s.series), "chunks": nch})
	}
	sc.desc = map[string]any{"replica_labels": sc.replicaLabels, "replicas": nRep, "logical_series": nL, "identical_replicas": sc.identical, "monotone_values": sc.monotone,
		"replica_label_placement": placement, "cut_class": sc.cutClass, "cuts_per_replica_series": cutDesc, "stores": sdesc, "interval_ms": interval}
	return sc
}

// vfc04FullLabels is the label set under which replica r of logical series l must appear with dedup off.
func (sc *vfc04Scenario) vfc04FullLabels(l, r int) labels.Labels {
	b := labels.NewBuilder(sc.logical[l])
	for _, rl := range sc.replicaLs[r] {
		b.Set(rl.Name, rl.Value)
	}
	return b.Labels()
}

func vfc04InRange(pts []vfc04Pt, mint, maxt int64) []vfc04Pt {
	all := true
	for i := range pts {
		if pts[i].T < mint || pts[i].T > maxt {
			all = false
			break
		}
	}
	if all {
		return pts // nothing to filter: no copy (series of >100k samples are checked too)
	}
	var out []vfc04Pt
	for _, p := range pts {
		if p.T >= mint && p.T <= maxt {
			out = append(out, p)
		}
	}
	return out
}

func vfc04SamePts(a, b []vfc04Pt) bool {
	if len(a) != len(b) {
		return false
	}
	for i := range a {
		if a[i].T != b[i].T || math.Float64bits(a[i].V) != math.Float64bits(b[i].V) {
			return false
		}
	}
	return true
}

// vfc04IsSubsequence: every sample of got is a sample of want, in the same order (two pointers, no allocation).
func vfc04IsSubsequence(got, want []vfc04Pt) bool {
	j := 0
	for _, g := range got {
		for j < len(want) && want[j].T < g.T {
			j++
		}
		if j == len(want) || want[j].T != g.T || math.Float64bits(want[j].V) != math.Float64bits(g.V) {
			return false
		}
		j++
	}
	return true
}

// vfc04Diff classifies how got differs from want.
func vfc04Diff(got, want []vfc04Pt) (kind string, detail string) {
	wantAt := map[int64]float64{}
	for _, p := range want {
		wantAt[p.T] = p.V
	}
	for i := 1; i < len(got); i++ {
		if got[i].T <= got[i-1].T {
			return "timestamps-not-increasing", fmt.Sprintf("t[%d]=%d after t[%d]=%d", i, got[i].T, i-1, got[i-1].T)
		}
	}
	gotAt := map[int64]bool{}
	for _, p := range got {
		v, ok := wantAt[p.T]
		if !ok {
			return "foreign-sample", fmt.Sprintf("sample t=%d v=%v is not a sample of the expected series", p.T, p.V)
		}
		if math.Float64bits(v) != math.Float64bits(p.V) {
			return "value-altered", fmt.Sprintf("sample t=%d has value %v, expected %v", p.T, p.V, v)
		}
		gotAt[p.T] = true
	}
	missing, run, maxRun := 0, 0, 0
	first := int64(0)
	for _, p := range want {
		if !gotAt[p.T] {
			if missing == 0 {
				first = p.T
			}
			missing++
			run++
			if run > maxRun {
				maxRun = run
			}
		} else {
			run = 0
		}
	}
	if missing > 0 {
		return "samples-missing", fmt.Sprintf("%d of %d expected samples missing (longest run %d, first missing t=%d)", missing, len(want), maxRun, first)
	}
	return "", ""
}

func vfc04PtsBrief(p []vfc04Pt) any {
	if len(p) <= 60 {
		return p
	}
	return map[string]any{"n": len(p), "first": p[:5], "last": p[len(p)-5:]}
}

func TestVF_C04(t *testing.T) {
	r := vfkit.Start(t, "C04")
	defer r.Finish()
	r.Rule("three phases, one oracle. (1) scripted StoreServers: scenario of 1..6 logical series x 1..3 replicas (1..2 replica label names sorting before/between/after the other labels; replica labels as store external labels, stored labels or mixed; identical or independent replica samples), " +
		"each replica's samples cut into XOR chunks (disjoint / several complete copies cut independently / sliding partially overlapping chunks / nested chunks), copies and chunks placed on 1..6 fake StoreServers (with and without without-replica-labels support, series split over frames, batched frames). " +
		"(2) real TSDBStores: 2..6 prefix-related stored label sets (a set plus one more label from b/instance/pod/zone), 1..3 replicas appended to real TSDB heads served by store.NewTSDBStore (one per replica, or shared when the replica labels are stored; a quarter of the backends scripted instead), external labels = replica label(s) per placement + 0..2 ordinary external labels (a_ext/cluster/region/zzz_ext: before/between/after the stored names), 1..300 samples. " +
		"(3) directed: the same generator with one series just large enough (incompressible values; dense 120-sample chunks or one sample per chunk) to need 2 resp. 3 response frames of the TSDBStore's 1 MiB frame limit (frame count observed at the StoreServer boundary, otherwise inconclusive). " +
		"All behind ServerAsClient + real ProxyStore (eager/lazy) + real querier (penalty/chain, response batch sizes); queried with dedup on and off, full range and a sub-range, one select function, every series read Next-only and Seek/Next mixed; " +
		"oracle: dedup on -> exactly one series per logical label set without replica labels, and (identical replicas, penalty) exactly the logical samples; dedup off -> exactly one series per (logical series, replica) with that replica's samples; " +
		"distinct = hash of scenario layout+query; non-trivial = >= 2 chunks reached the querier for some series (TSDB phase: >= 2 replicas or a series over 120 samples) and at least one series was returned")
	n := r.N(200, 4000)     // scripted StoreServers: chunk-cut classes
	nTSDB := r.N(160, 4000) // real TSDBStores (some replicas possibly scripted)
	nBig := r.N(1, 6)       // directed: one series larger than the 1 MiB TSDBStore frame limit (2 and 3 frames alternate)
	r.Require(int64(n+nTSDB)*3, n+nTSDB*3/4)
	r.Extra("phases", map[string]int{"scripted": n, "real_tsdb_store": nTSDB, "big_series_over_frame_limit": nBig})
	r.Assume("every store streams label-sorted series (StoreAPI contract); samples of one replica have strictly increasing timestamps; with a counter function (rate/increase) values are non-decreasing, so counter-reset adjustment is the identity")
	phaseStart := time.Now()
	for c := 0; c < n; c++ {
		if !r.Want(c) {
			continue
		}
		rng := r.Rand(c)
		sc := vfc04GenScenario(rng)
		r.Guard(c, "query-read-path", sc.desc, func() { vfc04Run(r, c, sc, rng) })
		if r.Counter("harness_timeouts") > 3 {
			r.Inconclusive("Select timed out repeatedly (10 min budget each): machine too loaded")
			return
		}
	}
	// Phase 2: the same oracle over replicas served by real TSDBStores; phase 3: series beyond the frame limit.
	timing := map[string]float64{"scripted_s": time.Since(phaseStart).Seconds()}
	defer func() { r.Extra("phase_run_time_s(evidence only)", timing) }()
	for c := n; c < n+nTSDB+nBig; c++ {
		if !r.Want(c) {
			continue
		}
		caseStart := time.Now()
		if c == n+nTSDB {
			timing["real_tsdb_store_s"] = time.Since(phaseStart).Seconds() - timing["scripted_s"]
		}
		rng := r.Rand(c)
		bigFrames, bigVariant := 0, 0
		if k := c - n - nTSDB; k >= 0 {
			// k=0: dense, 2 frames (the only one in quick); then dense/3, sparse/2, sparse/3, dense/2 with both replicas real, ...
			bigFrames, bigVariant = 2+k%2, k/2+1
		}
		sc, err := vfc04GenTSDBScenario(rng, t.TempDir(), bigFrames, bigVariant)
		if err != nil {
			t.Fatalf("harness: cannot set up TSDB scenario: %v", err)
		}
		genDone := time.Now()
		r.Guard(c, "query-read-path", sc.desc, func() { vfc04Run(r, c, sc, rng) })
		runDone := time.Now()
		sc.vfc04Close()
		if bigFrames > 0 {
			timing["big_series_setup_s"] += genDone.Sub(caseStart).Seconds()
			timing["big_series_query_and_check_s"] += runDone.Sub(genDone).Seconds()
			timing["big_series_s"] += time.Since(caseStart).Seconds()
			r.Count("big_series_scenarios", 1)
			if sc.frames.max() < bigFrames {
				r.Inconclusive(fmt.Sprintf("directed big-series scenario: the TSDBStore sent the series in %d frame(s), %d wanted", sc.frames.max(), bigFrames))
			}
		}
		if r.Counter("harness_timeouts") > 3 {
			r.Inconclusive("Select timed out repeatedly (10 min budget each): machine too loaded")
			return
		}
	}
}

func vfc04Run(r *vfkit.Run, c int, sc *vfc04Scenario, rng *rand.Rand) {
	strategy := vfkit.Pick(rng, []store.RetrievalStrategy{store.EagerRetrieval, store.LazyRetrieval})
	algo := vfkit.Pick(rng, []string{dedup.AlgorithmPenalty, dedup.AlgorithmPenalty, dedup.AlgorithmPenalty, dedup.AlgorithmChain})
	batch := vfkit.Pick(rng, []int{0, 1, 2, 64})
	funcs := []string{"", "<nil-hints>", "sum_over_time", "max_over_time", "min_over_time", "count_over_time", "avg_over_time", "last_over_time", "delta"}
	if sc.monotone {
		funcs = []string{"rate", "increase", "irate", "", "sum_over_time"}
	}
	f := vfkit.Pick(rng, funcs)
	if sc.algo != "" {
		algo = sc.algo
	}
	proxy := vfc04Proxy(sc.stores, strategy, sc.extraClients...)
	creator := NewQueryableCreator(nil, nil, proxy, 4, 10*time.Minute, algo, batch)
	// time ranges: everything, and a window inside the data
	lo, hi := int64(math.MaxInt64), int64(math.MinInt64)
	for l := range sc.samples {
		for _, pts := range sc.samples[l] {
			if len(pts) > 0 {
				if pts[0].T < lo {
					lo = pts[0].T
				}
				if pts[len(pts)-1].T > hi {
					hi = pts[len(pts)-1].T
				}
			}
		}
	}
	ranges := [][2]int64{{lo - 1000, hi + 1000}}
	if hi > lo && !sc.fullRangeOnly {
		a := lo + rng.Int63n(hi-lo+1)
		b := a + rng.Int63n(hi-a+1)
		if rng.Intn(2) == 0 {
			// bounds exactly on chunk edges (scripted chunks: their MinTime/MaxTime; TSDB heads cut every 120 samples)
			// or one millisecond off: the querier's mint and maxt are inclusive
			var edges []int64
			for _, st := range sc.stores {
				for _, ss := range st.series {
					for _, ch := range ss.chunks {
						edges = append(edges, ch.MinTime, ch.MaxTime)
					}
				}
			}
			if len(sc.extraClients) > 0 {
				for l := range sc.samples {
					for _, pts := range sc.samples[l] {
						for i := 119; i < len(pts); i += 120 {
							edges = append(edges, pts[i].T)
							if i+1 < len(pts) {
								edges = append(edges, pts[i+1].T)
							}
						}
						if len(pts) > 0 {
							edges = append(edges, pts[rng.Intn(len(pts))].T)
						}
					}
				}
			}
			if len(edges) > 0 {
				a = vfkit.Pick(rng, edges) + int64(rng.Intn(3)) - 1
				b = vfkit.Pick(rng, edges) + int64(rng.Intn(3)) - 1
				if a > b {
					a, b = b, a
				}
				r.Count("sub_ranges_with_bounds_on_chunk_edges", 1)
			}
		}
		ranges = append(ranges, [2]int64{a, b})
	}
	sc.desc["query"] = map[string]any{"func": f, "algorithm": algo, "retrieval": string(strategy), "response_batch_size": batch}
	multiChunk := sc.nontrivial
	for _, s := range sc.stores {
		for _, ss := range s.series {
			if len(ss.chunks) >= 2 {
				multiChunk = true
			}
		}
	}
	for ri, rg := range ranges {
		for _, dd := range []bool{true, false} {
			q := creator(dd, sc.replicaLabels, nil, 0, false, false, nil, NoopSeriesStatsReporter)
			out, warn, err := vfc04Select(q, rg[0], rg[1], f, rng)
			r.Eval(1)
			mode := "dedup=off"
			if dd {
				mode = "dedup=on"
			}
			wit := func(extra map[string]any) map[string]any {
				m := map[string]any{"scenario": sc.desc, "mode": mode, "range": rg, "range_kind": []string{"full", "sub"}[ri]}
				var logical []string
				for _, l := range sc.logical {
					logical = append(logical, l.String())
				}
				m["logical_series"] = logical
				for k, v := range extra {
					m[k] = v
				}
				return m
			}
			if err != nil {
				if strings.Contains(err.Error(), "context deadline exceeded") {
					r.Count("harness_timeouts", 1)
					continue
				}
				r.Violation(c, mode+":select-error", fmt.Sprintf("Select failed on well-formed stores: %v", err), wit(nil))
				return
			}
			if warn != "" {
				r.Violation(c, mode+":unexpected-warning", "Select returned warnings although no store failed: "+warn, wit(nil))
				return
			}
			if len(out) > 0 && multiChunk {
				r.Distinct(fmt.Sprintf("%v|%s|%v|%d", sc.desc, mode, rg, c))
			}
			// one violation per (mode, range) at most; the other mode / range is still evaluated
			vfc04Check(r, c, sc, dd, algo, rg, out, wit)
		}
	}
	r.Count("cut_class/"+sc.cutClass, 1)
	if sc.frames != nil && sc.fullRangeOnly {
		// (only meaningful in the directed scenarios: consecutive equal label sets are counted as frames of one series)
		if mf := sc.frames.max(); mf >= 2 {
			r.Count(fmt.Sprintf("big_series_sent_in_%d_frames", mf), 1)
		}
		sc.desc["max_frames_per_series_sent_by_a_tsdb_store"] = sc.frames.max()
	}
	r.Sample(sc.desc)
}

// vfc04Check decides one Select result. It returns false after the first violation of the scenario.
func vfc04Check(r *vfkit.Run, c int, sc *vfc04Scenario, dedupOn bool, algo string, rg [2]int64, out []vfc04OutSeries, wit func(map[string]any) map[string]any) bool {
	mode := "dedup=off"
	if dedupOn {
		mode = "dedup=on"
	}
	// expected series
	type exp struct {
		pts      []vfc04Pt // expected samples in range (nil = not asserted)
		all      []vfc04Pt // all samples of the expected series, whatever the range
		assert   bool
		mustShow bool // some expected sample lies in range, so the series must be returned
	}
	want := map[string]*exp{}
	if dedupOn {
		for l, ls := range sc.logical {
			e := &exp{}
			for r := range sc.samples[l] {
				if len(vfc04InRange(sc.samples[l][r], rg[0], rg[1])) > 0 {
					e.mustShow = true
				}
			}
			if sc.identical && algo == dedup.AlgorithmPenalty {
				e.assert = true
				e.pts = vfc04InRange(sc.samples[l][0], rg[0], rg[1])
				e.all = sc.samples[l][0]
			}
			want[ls.String()] = e
		}
	} else {
		for l := range sc.logical {
			for r := range sc.samples[l] {
				pts := vfc04InRange(sc.samples[l][r], rg[0], rg[1])
				want[sc.vfc04FullLabels(l, r).String()] = &exp{pts: pts, all: sc.samples[l][r], assert: true, mustShow: len(pts) > 0}
			}
		}
	}
	seen := map[string]bool{}
	for _, o := range out {
		if o.Err != "" {
			r.Violation(c, mode+":series-iterator-error", fmt.Sprintf("iterator of %s failed: %s", o.Labels, o.Err), wit(map[string]any{"series": o.Labels}))
			return false
		}
		if dedupOn {
			for _, rl := range sc.replicaLabels {
				if o.lset.Has(rl) {
					r.Violation(c, "dedup=on:replica-label-in-output", fmt.Sprintf("output series %s still carries replica label %q", o.Labels, rl), wit(map[string]any{"series": o.Labels}))
					return false
				}
			}
		}
		if seen[o.Labels] {
			r.Violation(c, mode+":series-returned-twice", fmt.Sprintf("label set %s is returned more than once", o.Labels), wit(map[string]any{"series": o.Labels}))
			return false
		}
		seen[o.Labels] = true
		e, ok := want[o.Labels]
		if !ok {
			r.Violation(c, mode+":unexpected-series", fmt.Sprintf("output series %s corresponds to no expected series", o.Labels), wit(map[string]any{"series": o.Labels}))
			return false
		}
		if !e.assert {
			continue
		}
		cut := sc.cutClass
		if dedupOn && cut == vfc04CutNested {
			// after the replicas are merged a nested chunk is a chain of its own that covers only part of
			// the series: for the deduplicating path it is the partial-chains class
			cut = vfc04CutPartial
		}
		for ri, gotAll := range [][]vfc04Pt{o.Next, o.Mixed} {
			reader := []string{"next-only", "seek+next"}[ri]
			wantPts := e.pts
			// The statement says nothing about trimming to the queried range (a Querier may return more than
			// asked for): samples outside [mint,maxt] are tolerated if they are samples of this very series;
			// inside the range the samples must be exactly the expected ones.
			got := vfc04InRange(gotAll, rg[0], rg[1])
			if len(got) != len(gotAll) {
				if k, d := vfc04Diff(gotAll, e.all); k != "" && k != "samples-missing" {
					fp := fmt.Sprintf("%s:%s:%s:cut=%s", mode, reader, k, cut)
					r.Violation(c, fp, fmt.Sprintf("%s read with %s: %s", o.Labels, reader, d), wit(map[string]any{"series": o.Labels, "got": vfc04PtsBrief(gotAll), "want": vfc04PtsBrief(e.all)}))
					return false
				}
				r.Count("series_with_samples_beyond_queried_range", 1)
			}
			if ri == 1 {
				// the mixed reader legitimately skips samples; what it visits must be expected samples in order,
				// and every Seek must land on the first expected sample >= max(target, position before).
				if vfc04IsSubsequence(got, wantPts) {
					// fine: visited samples are expected samples, in order
				} else if k, d := vfc04Diff(got, wantPts); k != "" && k != "samples-missing" {
					r.Violation(c, fmt.Sprintf("%s:%s:%s:cut=%s", mode, reader, k, cut), fmt.Sprintf("%s read with %s: %s", o.Labels, reader, d),
						wit(map[string]any{"series": o.Labels, "got": vfc04PtsBrief(got), "want": vfc04PtsBrief(wantPts)}))
					return false
				}
				// reference = the series' own Next-only sequence up to maxt (the reader treats a Seek landing beyond maxt as exhaustion)
				var ref []vfc04Pt
				for _, p := range o.Next {
					if p.T <= rg[1] {
						ref = append(ref, p)
					}
				}
				if bad, d := vfc04CheckSeeks(o.seeks, ref); bad {
					fp := fmt.Sprintf("%s:seek-inconsistent-with-next-only:cut=%s", mode, cut)
					r.Violation(c, fp, fmt.Sprintf("%s: %s", o.Labels, d), wit(map[string]any{"series": o.Labels, "next_only": vfc04PtsBrief(o.Next)}))
					return false
				}
				continue
			}
			if vfc04SamePts(got, wantPts) {
				continue
			}
			k, d := vfc04Diff(got, wantPts)
			ident := ""
			if dedupOn {
				ident = ":identical-replicas"
			}
			fp := fmt.Sprintf("%s%s:%s:cut=%s", mode, ident, k, cut)
			r.Count("viol/"+fp, 1)
			r.Violation(c, fp, fmt.Sprintf("%s read with %s (%s): %s", o.Labels, reader, sc.cutClass, d),
				wit(map[string]any{"series": o.Labels, "got": vfc04PtsBrief(got), "want": vfc04PtsBrief(wantPts)}))
			return false
		}
	}
	for k, e := range want {
		if e.mustShow && !seen[k] {
			r.Violation(c, mode+":series-missing", fmt.Sprintf("expected series %s is not returned", k), wit(map[string]any{"series": k, "returned": func() []string {
				var l []string
				for _, o := range out {
					l = append(l, o.Labels)
				}
				return l
			}()}))
			return false
		}
	}
	return true
}

// vfc04CheckSeeks: Seek(x) must land on the first sample of the series' own Next-only sequence with
// T >= max(x, position before the call); this is the chunkenc.Iterator contract the PromQL engine relies on.
func vfc04CheckSeeks(seeks []vfc04SeekObs, ref []vfc04Pt) (bool, string) {
	for _, s := range seeks {
		bound := s.Target
		if s.Prev != math.MinInt64 && s.Prev > bound {
			bound = s.Prev
		}
		i := sort.Search(len(ref), func(i int) bool { return ref[i].T >= bound })
		if i == len(ref) {
			if !s.Exhausted {
				return true, fmt.Sprintf("Seek(%d) from t=%d landed on t=%d although the Next-only sequence has no sample >= %d", s.Target, s.Prev, s.Landed, bound)
			}
			continue
		}
		if s.Exhausted {
			return true, fmt.Sprintf("Seek(%d) from t=%d reported exhaustion although the Next-only sequence has t=%d", s.Target, s.Prev, ref[i].T)
		}
		if s.Landed != ref[i].T {
			return true, fmt.Sprintf("Seek(%d) from t=%d landed on t=%d, the Next-only sequence has t=%d there", s.Target, s.Prev, s.Landed, ref[i].T)
		}
	}
	return false, ""
}

// ---------------------------------------------------------------------------------------------
// Round 2: replicas served by real TSDBStores.
// ---------------------------------------------------------------------------------------------

const vfc04CutTSDB = "tsdb-head-chunks"

// vfc04FrameCounter observes, at the StoreServer boundary, into how many frames a TSDBStore split one series.
type vfc04FrameCounter struct {
	mu sync.Mutex
	mx int
}

func (f *vfc04FrameCounter) max() int { f.mu.Lock(); defer f.mu.Unlock(); return f.mx }

type vfc04CountingStore struct {
	storepb.StoreServer
	fc *vfc04FrameCounter
}

type vfc04CountingSrv struct {
	storepb.Store_SeriesServer
	last string
	n    int
	fc   *vfc04FrameCounter
}

func (c *vfc04CountingSrv) see(s *storepb.Series) {
	k := labelpb.ZLabelsToPromLabels(s.Labels).String()
	if k != c.last {
		c.last, c.n = k, 0
	}
	c.n++
	c.fc.mu.Lock()
	if c.n > c.fc.mx {
		c.fc.mx = c.n
	}
	c.fc.mu.Unlock()
}

func (c *vfc04CountingSrv) Send(r *storepb.SeriesResponse) error {
	if s := r.GetSeries(); s != nil {
		c.see(s)
	}
	if b := r.GetBatch(); b != nil {
		for _, s := range b.Series {
			c.see(s)
		}
	}
	return c.Store_SeriesServer.Send(r)
}

func (c *vfc04CountingStore) Series(req *storepb.SeriesRequest, srv storepb.Store_SeriesServer) error {
	return c.StoreServer.Series(req, &vfc04CountingSrv{Store_SeriesServer: srv, fc: c.fc})
}

// vfc04GenTSDBScenario builds a scenario whose replicas live in real TSDB heads behind store.NewTSDBStore
// (some replicas possibly on a scripted server). Stored label sets are prefix-related, the stores carry the
// replica label(s) plus 0..2 ordinary external labels whose names sort before / between / after the stored
// label names. With bigFrames > 0 the first logical series is made just large enough for its chunks to need
// that many 1 MiB response frames.
func vfc04GenTSDBScenario(rng *rand.Rand, dir string, bigFrames, bigVariant int) (*vfc04Scenario, error) {
	sc := &vfc04Scenario{desc: map[string]any{}, cutClass: vfc04CutTSDB, frames: &vfc04FrameCounter{}}
	nRL := 1 + rng.Intn(2)
	sc.replicaLabels = vfkit.Perm(rng, []string{"replica", "a_rep", "zz_rep"})[:nRL]
	nRep := 1 + rng.Intn(3)
	if bigFrames > 0 {
		nRep = 2
	}
	for r := 0; r < nRep; r++ {
		var ls []labels.Label
		for i, name := range sc.replicaLabels {
			v := fmt.Sprintf("r%d", r)
			if i == 1 {
				v = fmt.Sprintf("g%d", r/2)
			}
			ls = append(ls, labels.Label{Name: name, Value: v})
		}
		sc.replicaLs = append(sc.replicaLs, ls)
	}
	// ordinary external labels, the same on every store (they are part of every logical series)
	ordExt := labels.NewBuilder(labels.EmptyLabels())
	var ordNames []string
	for _, name := range vfkit.Perm(rng, []string{"a_ext", "cluster", "region", "zzz_ext"})[:rng.Intn(3)] {
		ordExt.Set(name, vfkit.Pick(rng, []string{"eu", "c1"}))
		ordNames = append(ordNames, name)
	}
	// stored label sets: prefix-related (a set plus one more label), names around the external label names
	optional := []string{"b", "instance", "pod", "zone"}
	var stored []labels.Labels
	seen := map[string]bool{}
	add := func(l labels.Labels) {
		if !seen[l.String()] {
			seen[l.String()] = true
			stored = append(stored, l)
		}
	}
	add(labels.FromStrings("__name__", vfkit.Pick(rng, []string{"m", "m_total"}), "job", "vf"))
	nL := 2 + rng.Intn(5)
	if bigFrames > 0 {
		nL = 2 + rng.Intn(2)
	}
	for tries := 0; len(stored) < nL && tries < 50; tries++ {
		var b *labels.Builder
		if rng.Intn(10) < 7 {
			b = labels.NewBuilder(stored[rng.Intn(len(stored))]) // extend an existing set: prefix relation
		} else {
			b = labels.NewBuilder(labels.FromStrings("__name__", vfkit.Pick(rng, []string{"m", "m_total", "up"}), "job", "vf"))
		}
		b.Set(vfkit.Pick(rng, optional), vfkit.Pick(rng, []string{"x", "y"}))
		add(b.Labels())
	}
	stored = vfkit.Perm(rng, stored)
	for _, l := range stored {
		b := labels.NewBuilder(l)
		ordExt.Labels().Range(func(e labels.Label) { b.Set(e.Name, e.Value) })
		sc.logical = append(sc.logical, b.Labels())
	}
	sc.identical = rng.Intn(10) < 7 || bigFrames > 0
	sc.monotone = rng.Intn(3) == 0 && bigFrames == 0
	if bigFrames > 0 {
		sc.algo = dedup.AlgorithmPenalty
		sc.fullRangeOnly = true
	}
	interval := vfkit.Pick(rng, []int64{1000, 15000, 30000})
	base := int64(1_600_000_000_000) + rng.Int63n(1_000_000)
	gen := func(n int, off int64) []vfc04Pt {
		ts := vfkit.ScrapeTimes(rng, vfkit.ScrapeOpts{Start: base + off, Interval: interval, Jitter: interval / 10, N: n, GapProb: vfkit.Pick(rng, []float64{0, 0, 0.05}), GapMax: 5})
		out := make([]vfc04Pt, len(ts))
		cur := float64(rng.Intn(100))
		for i, t := range ts {
			if sc.monotone {
				cur += float64(rng.Intn(10))
				out[i] = vfc04Pt{t, cur}
			} else {
				out[i] = vfc04Pt{t, float64(rng.Intn(2001)-1000) / 4}
			}
		}
		return out
	}
	// genBig: incompressible values; as many samples as needed for the XOR chunks (120 samples each, as the
	// TSDB head cuts them) to exceed (frames-1) MiB by a margin.
	// dense: 1 s scrapes, the head cuts 120-sample chunks (~1.3 KB each, ~100k samples per MiB);
	// sparse: one sample every 2h+ so that the head cuts one chunk per sample (~45 B per chunk message,
	// ~25k samples per MiB) - the cheap way to exceed the frame limit, used in the quick tier.
	bigSparse := bigFrames > 0 && (bigVariant%2 == 0)
	genBig := func(frames int) []vfc04Pt {
		target := (frames-1)*store.RemoteReadFrameLimit + store.RemoteReadFrameLimit/5
		var out []vfc04Pt
		t := base
		size := 0
		per := 120
		if bigSparse {
			per = 1
		}
		for size < target {
			c := chunkenc.NewXORChunk()
			app, _ := c.Appender()
			for i := 0; i < per; i++ {
				if bigSparse {
					t += 2*3600*1000 + rng.Int63n(3600*1000)
				} else {
					t += 900 + rng.Int63n(201)
				}
				v := rng.NormFloat64() * 1e6
				app.Append(t, v)
				out = append(out, vfc04Pt{t, v})
			}
			// what TSDBStore charges against the frame: the proto size of the AggrChunk message
			size += (&storepb.AggrChunk{MinTime: t, MaxTime: t, Raw: &storepb.Chunk{Type: storepb.Chunk_XOR, Data: c.Bytes(), Hash: 1 << 60}}).Size()
		}
		return out
	}
	sc.samples = make([][][]vfc04Pt, len(sc.logical))
	maxN := 0
	for l := range sc.logical {
		sc.samples[l] = make([][]vfc04Pt, nRep)
		var first []vfc04Pt
		if bigFrames > 0 && l == 0 {
			first = genBig(bigFrames)
		} else {
			first = gen(1+rng.Intn(300), rng.Int63n(interval))
		}
		if len(first) > maxN {
			maxN = len(first)
		}
		for r := 0; r < nRep; r++ {
			if sc.identical || r == 0 {
				sc.samples[l][r] = first
			} else {
				sc.samples[l][r] = gen(1+rng.Intn(300), rng.Int63n(interval))
			}
		}
	}
	placement := vfkit.Pick(rng, []string{"external", "external", "external", "stored", "mixed"})
	if nRL == 1 && placement == "mixed" {
		placement = "external"
	}
	extOf := func(r int) labels.Labels {
		b := labels.NewBuilder(ordExt.Labels())
		switch placement {
		case "external":
			for _, l := range sc.replicaLs[r] {
				b.Set(l.Name, l.Value)
			}
		case "mixed":
			b.Set(sc.replicaLs[r][0].Name, sc.replicaLs[r][0].Value)
		}
		return b.Labels()
	}
	storedLset := func(l, r int) labels.Labels {
		b := labels.NewBuilder(stored[l])
		switch placement {
		case "stored":
			for _, rl := range sc.replicaLs[r] {
				b.Set(rl.Name, rl.Value)
			}
		case "mixed":
			for _, rl := range sc.replicaLs[r][1:] {
				b.Set(rl.Name, rl.Value)
			}
		}
		return b.Labels()
	}
	// backends: with stored replica labels several replicas may share one TSDB; otherwise one store per replica
	type backend struct {
		real     bool
		ext      labels.Labels
		replicas []int
	}
	var backends []*backend
	if placement == "stored" {
		nB := 1 + rng.Intn(nRep)
		for i := 0; i < nB; i++ {
			backends = append(backends, &backend{ext: extOf(0)})
		}
		for r := 0; r < nRep; r++ {
			b := backends[r%nB]
			b.replicas = append(b.replicas, r)
		}
	} else {
		for r := 0; r < nRep; r++ {
			backends = append(backends, &backend{ext: extOf(r), replicas: []int{r}})
		}
	}
	anyReal := false
	for _, b := range backends {
		b.real = rng.Intn(4) != 0
		anyReal = anyReal || b.real
	}
	if !anyReal {
		backends[rng.Intn(len(backends))].real = true
	}
	if bigFrames > 0 {
		// the replica holding the big series first is always on a real TSDBStore; the second one is real in every
		// other directed scenario (appending >100k samples under -race is the expensive part)
		backends[0].real = true
		backends[len(backends)-1].real = len(backends) == 1 || bigVariant/2%2 == 1 || bigFrames == 3
	}
	var bdesc []any
	for i, b := range backends {
		if !b.real {
			st := &vfc04Store{name: fmt.Sprintf("scripted-%d", i), ext: b.ext, supportsWRL: rng.Intn(2) == 0, sendBatches: rng.Intn(4) == 0}
			for _, r := range b.replicas {
				for l := range sc.logical {
					pts := sc.samples[l][r]
					var chks []storepb.AggrChunk
					for _, c := range vfc04Cuts(rng, len(pts), vfc04CutDisjoint)[0] {
						chks = append(chks, vfc04XOR(pts[c[0]:c[1]+1]))
					}
					st.series = append(st.series, vfc04StoredSeries{lset: storedLset(l, r), chunks: chks, frames: 1 + rng.Intn(3)})
				}
			}
			sc.stores = append(sc.stores, st)
			bdesc = append(bdesc, map[string]any{"kind": "scripted", "ext": b.ext.String(), "replicas": b.replicas, "supports_without_replica_labels": st.supportsWRL})
			continue
		}
		d, err := os.MkdirTemp(dir, "tsdb")
		if err != nil {
			return nil, err
		}
		opts := tsdb.DefaultOptions()
		opts.RetentionDuration = math.MaxInt64
		// small in-memory structures and no WAL: under -race every large allocation is walked by the
		// race runtime; none of this changes what the TSDBStore reads through ChunkQuerier
		opts.StripeSize = 64
		opts.HeadChunksWriteBufferSize = 64 * 1024
		opts.WALSegmentSize = -1
		db, err := tsdb.Open(d, nil, nil, opts, nil)
		if err != nil {
			return nil, err
		}
		db.DisableCompactions()
		sc.closers = append(sc.closers, func() { _ = db.Close(); _ = os.RemoveAll(d) })
		app := db.Appender(context.Background())
		for _, r := range b.replicas {
			// the head accepts nothing older than (first appended sample - chunkRange/2): start with the earliest series
			order := rng.Perm(len(sc.logical))
			sort.SliceStable(order, func(i, j int) bool { return sc.samples[order[i]][r][0].T < sc.samples[order[j]][r][0].T })
			for _, l := range order {
				ls := storedLset(l, r)
				for _, p := range sc.samples[l][r] {
					if _, err := app.Append(0, ls, p.T, p.V); err != nil {
						return nil, fmt.Errorf("append %s t=%d: %w", ls, p.T, err)
					}
				}
			}
		}
		if err := app.Commit(); err != nil {
			return nil, err
		}
		wrl := rng.Intn(4) != 0
		tsdbStore := store.NewTSDBStore(nil, db, component.Receive, b.ext)
		sc.extraClients = append(sc.extraClients, vfc04Client(fmt.Sprintf("tsdb-%d", i), &vfc04CountingStore{StoreServer: tsdbStore, fc: sc.frames}, b.ext, wrl))
		bdesc = append(bdesc, map[string]any{"kind": "real TSDBStore", "ext": b.ext.String(), "replicas": b.replicas, "supports_without_replica_labels": wrl})
	}
	sc.nontrivial = nRep >= 2 || maxN > 120
	var lnames []string
	for _, l := range stored {
		lnames = append(lnames, l.String())
	}
	sc.desc = map[string]any{"kind": "tsdb", "replica_labels": sc.replicaLabels, "replicas": nRep, "stored_label_sets": lnames, "ordinary_external_labels": ordExt.Labels().String(),
		"identical_replicas": sc.identical, "monotone_values": sc.monotone, "replica_label_placement": placement, "cut_class": sc.cutClass, "backends": bdesc,
		"interval_ms": interval, "max_samples_per_series": maxN, "big_series_frames_wanted": bigFrames, "big_series_one_sample_per_chunk": bigSparse}
	_ = ordNames
	return sc, nil
}
