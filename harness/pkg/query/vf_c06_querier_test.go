//go:build verif

package query

// C06, part 2 (querier boundary): the partial-response strategy is honoured by the real querier
// (NewQueryableCreator ... Querier ... Select) over a real store.ProxyStore over scripted store clients.
// Part 1 (pkg/store, TestVF_C06) decides the same statement at ProxyStore.Series.

import (
	"context"
	"errors"
	"fmt"
	"io"
	"math"
	"sort"
	"strings"
	"sync"
	"sync/atomic"
	"testing"
	"time"

	pkgerrors "github.com/pkg/errors"
	"github.com/prometheus/prometheus/model/labels"
	"github.com/prometheus/prometheus/storage"
	"github.com/prometheus/prometheus/tsdb/chunkenc"
	"google.golang.org/grpc"

	"github.com/thanos-io/thanos/pkg/component"
	"github.com/thanos-io/thanos/pkg/info/infopb"
	"github.com/thanos-io/thanos/pkg/store"
	"github.com/thanos-io/thanos/pkg/store/labelpb"
	"github.com/thanos-io/thanos/pkg/store/storepb"
	"github.com/thanos-io/thanos/pkg/verifhook/vfkit"
)

const (
	vfc06qOpen  = 1
	vfc06qRecv  = 2
	vfc06qBlock = 3
)

type vfc06qSeries struct {
	lset labels.Labels
	ts   [][]int64 // one chunk per entry
}

type vfc06qFault struct {
	Kind, After int
	WrapEOF     bool
}

func (f vfc06qFault) String() string {
	w := ""
	if f.WrapEOF {
		w = "/wrap-eof"
	}
	switch f.Kind {
	case vfc06qOpen:
		return "open" + w
	case vfc06qRecv:
		return fmt.Sprintf("recv@%d%s", f.After, w)
	case vfc06qBlock:
		return fmt.Sprintf("block@%d", f.After)
	}
	return "ok"
}

func (f vfc06qFault) class() string {
	k := map[int]string{vfc06qOpen: "open", vfc06qRecv: "recv", vfc06qBlock: "timeout"}[f.Kind]
	if f.WrapEOF && f.Kind != vfc06qBlock {
		k += "(wrap-eof)"
	}
	return k
}

// vfc06qClient is a scripted store.Client: one series per frame, fault points as in part 1.
type vfc06qClient struct {
	name     string
	frames   []vfc06qSeries
	fault    vfc06qFault
	failures atomic.Int64
}

func (c *vfc06qClient) LabelSets() []labels.Labels         { return nil }
func (c *vfc06qClient) TimeRange() (int64, int64)          { return math.MinInt64, math.MaxInt64 }
func (c *vfc06qClient) TSDBInfos() []infopb.TSDBInfo       { return nil }
func (c *vfc06qClient) SupportsSharding() bool             { return true }
func (c *vfc06qClient) SupportsWithoutReplicaLabels() bool { return true }
func (c *vfc06qClient) String() string                     { return c.name }
func (c *vfc06qClient) Addr() (string, bool)               { return c.name, false }
func (c *vfc06qClient) Matches([]*labels.Matcher) bool     { return true }
func (c *vfc06qClient) err(msg string) error {
	if c.fault.WrapEOF {
		return pkgerrors.Wrap(io.EOF, msg)
	}
	return errors.New(msg)
}
func (c *vfc06qClient) LabelNames(context.Context, *storepb.LabelNamesRequest, ...grpc.CallOption) (*storepb.LabelNamesResponse, error) {
	return &storepb.LabelNamesResponse{}, nil
}
func (c *vfc06qClient) LabelValues(context.Context, *storepb.LabelValuesRequest, ...grpc.CallOption) (*storepb.LabelValuesResponse, error) {
	return &storepb.LabelValuesResponse{}, nil
}
func (c *vfc06qClient) Series(ctx context.Context, _ *storepb.SeriesRequest, _ ...grpc.CallOption) (storepb.Store_SeriesClient, error) {
	if c.fault.Kind == vfc06qOpen {
		c.failures.Add(1)
		return nil, c.err("vf injected open error at " + c.name)
	}
	return &vfc06qStream{c: c, ctx: ctx}, nil
}

type vfc06qStream struct {
	storepb.Store_SeriesClient
	c      *vfc06qClient
	ctx    context.Context
	i      int
	failed bool
}

func (s *vfc06qStream) fail(err error) (*storepb.SeriesResponse, error) {
	if !s.failed {
		s.failed = true
		s.c.failures.Add(1)
	}
	return nil, err
}

func (s *vfc06qStream) Recv() (*storepb.SeriesResponse, error) {
	if s.c.fault.Kind == vfc06qRecv && s.i >= s.c.fault.After {
		return s.fail(s.c.err(fmt.Sprintf("vf injected recv error at %s after %d frames", s.c.name, s.i)))
	}
	if s.c.fault.Kind == vfc06qBlock && s.i >= s.c.fault.After {
		<-s.ctx.Done()
		return s.fail(s.ctx.Err())
	}
	if s.i >= len(s.c.frames) {
		return nil, io.EOF
	}
	f := s.c.frames[s.i]
	s.i++
	ser := &storepb.Series{Labels: labelpb.ZLabelsFromPromLabels(f.lset.Copy())}
	for _, ts := range f.ts {
		ch := chunkenc.NewXORChunk()
		app, err := ch.Appender()
		if err != nil {
			return nil, err
		}
		for _, t := range ts {
			app.Append(t, float64(t))
		}
		b := append([]byte(nil), ch.Bytes()...)
		ser.Chunks = append(ser.Chunks, storepb.AggrChunk{MinTime: ts[0], MaxTime: ts[len(ts)-1], Raw: &storepb.Chunk{Type: storepb.Chunk_XOR, Data: b}})
	}
	return storepb.NewSeriesResponse(ser), nil
}
func (s *vfc06qStream) Context() context.Context { return s.ctx }
func (s *vfc06qStream) CloseSend() error         { return nil }

type vfc06qCase struct {
	Layout  string // full | all-empty | healthy-empty
	Frames  [][]vfc06qSeries
	Faults  []vfc06qFault
	Dedup   bool
	Partial bool
	Retr    store.RetrievalStrategy
}

func (c *vfc06qCase) key() string {
	var fs, ns []string
	for i, f := range c.Faults {
		fs = append(fs, f.String())
		ns = append(ns, fmt.Sprint(len(c.Frames[i])))
	}
	return fmt.Sprintf("layout=%s frames=%s faults=%s dedup=%v partial_response=%v retrieval=%s", c.Layout, strings.Join(ns, ","), strings.Join(fs, ","), c.Dedup, c.Partial, c.Retr)
}

// vfc06qFrames: store i streams n series; label sets overlap between stores; every store has the shared chunk
// [1000..1040] and its own chunk in a range no other store uses (no overlapping chunks with different samples).
func vfc06qFrames(i, n int) []vfc06qSeries {
	picks := [][]int{{1, 3}, {1, 2}, {2}}
	var out []vfc06qSeries
	for j := 0; j < n; j++ {
		base := int64(10000 * (i + 1))
		out = append(out, vfc06qSeries{
			lset: labels.FromStrings("a", fmt.Sprint(picks[i][j]), "job", "vf"),
			ts:   [][]int64{{1000, 1010, 1020, 1030, 1040}, {base, base + 10, base + 20}},
		})
	}
	return out
}

func vfc06qCases() []*vfc06qCase {
	sizes := [][]int{{2}, {2, 2}, {2, 2, 1}}
	var out []*vfc06qCase
	for _, ns := range sizes {
		s := len(ns)
		for mask := 1; mask < 1<<s; mask++ {
			for _, layout := range []string{"full", "all-empty", "healthy-empty"} {
				if layout == "healthy-empty" && mask == 1<<s-1 {
					continue // no healthy store: same as full
				}
				frames := make([][]vfc06qSeries, s)
				var failing []int
				for i := 0; i < s; i++ {
					isF := mask&(1<<i) != 0
					if isF {
						failing = append(failing, i)
					}
					switch {
					case layout == "full", layout == "healthy-empty" && isF:
						frames[i] = vfc06qFrames(i, ns[i])
					}
				}
				var choices [][]vfc06qFault
				for _, i := range failing {
					n := len(frames[i])
					ps := []vfc06qFault{{Kind: vfc06qOpen}, {Kind: vfc06qRecv, After: 0}, {Kind: vfc06qBlock, After: 0}}
					if n > 0 {
						ps = append(ps, vfc06qFault{Kind: vfc06qRecv, After: n})
						if len(failing) == 1 {
							for k := 1; k < n; k++ {
								ps = append(ps, vfc06qFault{Kind: vfc06qRecv, After: k})
							}
							ps = append(ps, vfc06qFault{Kind: vfc06qBlock, After: n})
						}
					}
					choices = append(choices, ps)
				}
				idx := make([]int, len(failing))
				for {
					v := make([]vfc06qFault, s)
					for j, i := range failing {
						v[i] = choices[j][idx[j]]
						v[i].WrapEOF = (len(out)+i)%3 == 1
					}
					for _, dedup := range []bool{true, false} {
						for _, partial := range []bool{true, false} {
							for _, retr := range []store.RetrievalStrategy{store.EagerRetrieval, store.LazyRetrieval} {
								out = append(out, &vfc06qCase{Layout: layout, Frames: frames, Faults: v, Dedup: dedup, Partial: partial, Retr: retr})
							}
						}
					}
					j := 0
					for ; j < len(idx); j++ {
						idx[j]++
						if idx[j] < len(choices[j]) {
							break
						}
						idx[j] = 0
					}
					if j == len(idx) {
						break
					}
				}
			}
		}
	}
	return out
}

type vfc06qResult struct {
	series   map[string]map[int64]bool
	err      error
	warns    []string
	observed []bool
	hung     bool
}

func vfc06qRun(c *vfc06qCase) vfc06qResult {
	var cls []store.Client
	var fakes []*vfc06qClient
	block := false
	for i := range c.Frames {
		f := &vfc06qClient{name: fmt.Sprintf("vfstore-%d", i), frames: c.Frames[i], fault: c.Faults[i]}
		block = block || c.Faults[i].Kind == vfc06qBlock
		fakes = append(fakes, f)
		cls = append(cls, f)
	}
	var timeout time.Duration
	if block {
		timeout = 30 * time.Millisecond
	}
	proxy := store.NewProxyStore(nil, nil, func() []store.Client { return cls }, component.Query, labels.EmptyLabels(), timeout, c.Retr)
	creator := NewQueryableCreator(nil, nil, proxy, 4, 10*time.Minute, "", 0)
	q := creator(c.Dedup, []string{"replica"}, nil, 0, c.Partial, false, nil, NoopSeriesStatsReporter)
	var res vfc06qResult
	done := make(chan struct{})
	go func() {
		defer close(done)
		qr, err := q.Querier(0, math.MaxInt64/2)
		if err != nil {
			res.err = err
			return
		}
		defer qr.Close()
		set := qr.Select(context.Background(), true, &storage.SelectHints{Start: 0, End: math.MaxInt64 / 2}, labels.MustNewMatcher(labels.MatchRegexp, "a", ".+"))
		res.series = map[string]map[int64]bool{}
		for set.Next() {
			s := set.At()
			m := res.series[s.Labels().String()]
			if m == nil {
				m = map[int64]bool{}
				res.series[s.Labels().String()] = m
			}
			it := s.Iterator(nil)
			for it.Next() != chunkenc.ValNone {
				t, _ := it.At()
				m[t] = true
			}
		}
		res.err = set.Err()
		for _, w := range set.Warnings().AsErrors() {
			res.warns = append(res.warns, w.Error())
		}
	}()
	select {
	case <-done:
	case <-time.After(120 * time.Second):
		return vfc06qResult{hung: true}
	}
	for _, f := range fakes {
		res.observed = append(res.observed, f.failures.Load() > 0)
	}
	return res
}

func vfc06qCheck(c *vfc06qCase, res vfc06qResult) (fp, what string) {
	kinds := map[string]bool{}
	for i, failed := range res.observed {
		if failed {
			kinds[c.Faults[i].class()] = true
		}
	}
	if len(kinds) == 0 {
		return "", ""
	}
	var ks []string
	for k := range kinds {
		ks = append(ks, k)
	}
	sort.Strings(ks)
	result := "result=nonempty"
	if len(res.series) == 0 {
		result = "result=empty"
	}
	class := fmt.Sprintf("fault=%s retrieval=%s dedup=%v %s", strings.Join(ks, "+"), c.Retr, c.Dedup, result)
	if !c.Partial {
		if res.err == nil {
			return "querier:abort:select-succeeded " + class, "a queried store failed but the series set of Select reports no error"
		}
		return "", ""
	}
	if res.err != nil {
		return "querier:warn:select-failed " + class, "Select's series set reports " + res.err.Error()
	}
	for i, failed := range res.observed {
		name := fmt.Sprintf("vfstore-%d", i)
		if failed {
			found := false
			for _, w := range res.warns {
				found = found || strings.Contains(w, name)
			}
			if !found {
				return fmt.Sprintf("querier:warn:no-warning-for-failed-store fault=%s retrieval=%s dedup=%v %s", c.Faults[i].class(), c.Retr, c.Dedup, result),
					fmt.Sprintf("store %s failed (%s) but none of the %d warnings of the series set names it: %v", name, c.Faults[i], len(res.warns), res.warns)
			}
			continue
		}
		for _, f := range c.Frames[i] {
			m, ok := res.series[f.lset.String()]
			if !ok {
				return "querier:warn:healthy-series-missing " + class, fmt.Sprintf("series %s of healthy store %s is not in the Select result", f.lset, name)
			}
			for _, ts := range f.ts {
				for _, t := range ts {
					if !m[t] {
						return "querier:warn:healthy-sample-missing " + class, fmt.Sprintf("sample t=%d of series %s of healthy store %s is not in the Select result", t, f.lset, name)
					}
				}
			}
		}
	}
	return "", ""
}

func TestVF_C06(t *testing.T) {
	r := vfkit.Start(t, "C06")
	defer r.Finish()
	r.Rule("querier boundary: real NewQueryableCreator(...).Querier().Select() over a real ProxyStore over 1..3 scripted store clients (2,2,1 single-series frames, overlapping label sets, a shared chunk and a store-specific chunk in disjoint ranges); " +
		"every non-empty subset of stores failing x failure point {open, recv@k, block@0/n until the 30ms frame timeout} (all points for one failing store, {open, recv@0, recv@n, block@0} per store for several; every third error wraps io.EOF) " +
		"x layout {every store has series, no store has series, only the failing stores have series (merged result empty when they fail before their first frame)} x dedup {on with replica label, off} x partial response {on, off} x {eager, lazy}; " +
		"oracle on the storage.SeriesSet returned by Select: partial response off => Err() != nil; on => Err() == nil, >=1 warning naming every store observed to fail, every series and sample of every store not observed to fail; " +
		"distinct = case tuple; non-trivial = the fake store actually returned the injected error")
	r.Assume("a store 'fails' iff the fake client returned a non-EOF error from Series() or Recv (observed); warnings are attributed by the store name in the annotation text")
	cases := vfc06qCases()
	r.Extra("enumerated_cases", len(cases))
	r.Require(int64(len(cases)), len(cases)*9/10)
	r.Exhaustive(true)
	var wg sync.WaitGroup
	idx := make(chan int)
	var hungOnce sync.Once
	for w := 0; w < 8; w++ {
		wg.Add(1)
		go func() {
			defer wg.Done()
			for ci := range idx {
				c := cases[ci]
				r.Guard(ci, "querier-select", c.key(), func() {
					res := vfc06qRun(c)
					if res.hung {
						hungOnce.Do(func() { r.Inconclusive(fmt.Sprintf("case %d (%s): Select did not finish within 120s", ci, c.key())) })
						return
					}
					r.Eval(1)
					inj := false
					for _, o := range res.observed {
						inj = inj || o
					}
					if inj {
						r.Distinct(c.key())
					}
					if len(res.series) == 0 {
						r.Count("cases_with_empty_result", 1)
					}
					r.Sample(map[string]any{"case": c.key(), "error": fmt.Sprint(res.err), "warnings": len(res.warns), "series": len(res.series)})
					if fp, what := vfc06qCheck(c, res); fp != "" {
						var got []string
						for k := range res.series {
							got = append(got, k)
						}
						sort.Strings(got)
						r.Violation(ci, fp, what+" ["+c.key()+"]", map[string]any{"case": c.key(), "error": fmt.Sprint(res.err), "warnings": res.warns, "series": got, "observed_failed": res.observed})
					}
				})
			}
		}()
	}
	for ci := range cases {
		if r.Want(ci) {
			idx <- ci
		}
	}
	close(idx)
	wg.Wait()
}
