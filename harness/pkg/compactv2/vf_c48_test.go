//go:build verif

package compactv2

import (
	"context"
	"fmt"
	"io"
	"math"
	"math/rand"
	"os"
	"path/filepath"
	"regexp"
	"runtime/debug"
	"sort"
	"strings"
	"testing"

	"github.com/go-kit/log"
	"github.com/oklog/ulid/v2"
	"github.com/prometheus/prometheus/model/labels"
	"github.com/prometheus/prometheus/storage"
	"github.com/prometheus/prometheus/tsdb"
	"github.com/prometheus/prometheus/tsdb/chunkenc"
	"github.com/prometheus/prometheus/tsdb/chunks"
	"github.com/prometheus/prometheus/tsdb/index"
	"github.com/prometheus/prometheus/tsdb/tombstones"

	"github.com/thanos-io/thanos/pkg/block"
	"github.com/thanos-io/thanos/pkg/block/metadata"
	"github.com/thanos-io/thanos/pkg/logutil"
	"github.com/thanos-io/thanos/pkg/verifhook/vfkit"
)

type vfc48Sample struct {
	T int64
	V float64
}

type vfc48Series struct {
	Labels [][2]string     // sorted by name
	Chunks [][]vfc48Sample // non-empty chunks, strictly increasing timestamps over the whole series
}

type vfc48Matcher struct {
	Op, Name, Value string
}

type vfc48Request struct {
	Matchers  []vfc48Matcher
	Intervals [][2]int64 // empty: whole series
}

func (s vfc48Series) lset() labels.Labels {
	var kv []string
	for _, l := range s.Labels {
		kv = append(kv, l[0], l[1])
	}
	return labels.FromStrings(kv...)
}

func (s vfc48Series) get(name string) (string, bool) {
	for _, l := range s.Labels {
		if l[0] == name {
			return l[1], true
		}
	}
	return "", false
}

var vfc48ReCache = map[string]*regexp.Regexp{} // single goroutine

func vfc48Match(m vfc48Matcher, v string) bool {
	switch m.Op {
	case "=":
		return v == m.Value
	case "!=":
		return v != m.Value
	}
	re := vfc48ReCache[m.Value]
	if re == nil {
		re = regexp.MustCompile("^(?s:" + m.Value + ")$")
		vfc48ReCache[m.Value] = re
	}
	if m.Op == "=~" {
		return re.MatchString(v)
	}
	return !re.MatchString(v)
}

// vfc48Selects: must = every matcher names a label the series carries and matches its value (the "must delete"
// clause of the property); may = every matcher matches with Prometheus semantics (absent label = "").
func vfc48Selects(rq vfc48Request, s vfc48Series) (must, may bool) {
	must, may = true, true
	for _, m := range rq.Matchers {
		v, ok := s.get(m.Name)
		if !vfc48Match(m, v) {
			return false, false
		}
		if !ok {
			must = false
		}
	}
	return must, may
}

func vfc48In(t int64, ivs [][2]int64) bool {
	for _, iv := range ivs {
		if iv[0] <= t && t <= iv[1] {
			return true
		}
	}
	return false
}

func (rq vfc48Request) real() metadata.DeletionRequest {
	out := metadata.DeletionRequest{RequestID: "vf"}
	for _, m := range rq.Matchers {
		typ := map[string]labels.MatchType{"=": labels.MatchEqual, "!=": labels.MatchNotEqual, "=~": labels.MatchRegexp, "!~": labels.MatchNotRegexp}[m.Op]
		out.Matchers = append(out.Matchers, labels.MustNewMatcher(typ, m.Name, m.Value))
	}
	for _, iv := range rq.Intervals {
		out.Intervals = append(out.Intervals, tombstones.Interval{Mint: iv[0], Maxt: iv[1]})
	}
	return out
}

var (
	vfc48Names  = []string{"job", "inst", "zone"}
	vfc48Values = []string{"a", "b", "ab", "1"}
	vfc48Regex  = []string{"a.*", "a|b", ".+", ".*", "[ab]", "b?"}
)

func vfc48Gen(rng *rand.Rand, maxSeries int) ([]vfc48Series, []vfc48Request) {
	ns := 1 + rng.Intn(maxSeries)
	seen := map[string]bool{}
	var series []vfc48Series
	var edges []int64 // interesting timestamps
	for len(series) < ns {
		s := vfc48Series{Labels: [][2]string{{"__name__", vfkit.Pick(rng, []string{"up", "m"})}}}
		for _, n := range vfc48Names {
			if rng.Intn(2) == 0 {
				s.Labels = append(s.Labels, [2]string{n, vfkit.Pick(rng, vfc48Values)})
			}
		}
		sort.Slice(s.Labels, func(i, j int) bool { return s.Labels[i][0] < s.Labels[j][0] })
		k := fmt.Sprint(s.Labels)
		if seen[k] {
			if len(seen) >= 100 {
				break
			}
			continue
		}
		seen[k] = true
		t := int64(rng.Intn(20))
		nc := 1 + rng.Intn(4)
		for c := 0; c < nc; c++ {
			var ch []vfc48Sample
			n := 1 + rng.Intn(8)
			for i := 0; i < n; i++ {
				ch = append(ch, vfc48Sample{T: t, V: float64(len(series)*1000) + float64(t)})
				t += 1 + int64(rng.Intn(3))
				if rng.Intn(6) == 0 {
					t += int64(5 + rng.Intn(10)) // a scrape gap, also inside a chunk
				}
			}
			edges = append(edges, ch[0].T, ch[len(ch)-1].T)
			s.Chunks = append(s.Chunks, ch)
			t += int64(rng.Intn(4))
		}
		series = append(series, s)
	}
	sort.Slice(series, func(i, j int) bool { return labels.Compare(series[i].lset(), series[j].lset()) < 0 })
	tpoint := func() int64 {
		switch rng.Intn(10) {
		case 0:
			return math.MinInt64
		case 1:
			return math.MaxInt64
		case 2, 3, 4:
			return vfkit.Pick(rng, edges) + int64(rng.Intn(3)) - 1
		default:
			s := vfkit.Pick(rng, series)
			ch := vfkit.Pick(rng, s.Chunks)
			return vfkit.Pick(rng, ch).T + int64(rng.Intn(3)) - 1
		}
	}
	var reqs []vfc48Request
	nr := 1 + rng.Intn(4)
	for i := 0; i < nr; i++ {
		var rq vfc48Request
		nm := 1 + rng.Intn(3)
		for k := 0; k < nm; k++ {
			m := vfc48Matcher{Op: vfkit.Pick(rng, []string{"=", "=", "=", "!=", "=~", "!~"})}
			switch rng.Intn(8) {
			case 0:
				m.Name = "absent"
			case 1, 2:
				m.Name = "__name__"
			default:
				m.Name = vfkit.Pick(rng, vfc48Names)
			}
			if m.Op == "=" || m.Op == "!=" {
				m.Value = vfkit.Pick(rng, vfc48Values)
				if m.Name == "__name__" {
					m.Value = vfkit.Pick(rng, []string{"up", "m"})
				}
				if rng.Intn(10) == 0 {
					m.Value = ""
				}
			} else {
				m.Value = vfkit.Pick(rng, vfc48Regex)
			}
			rq.Matchers = append(rq.Matchers, m)
		}
		if rng.Intn(5) != 0 { // 1 in 5 requests deletes whole series
			ni := 1 + rng.Intn(4)
			for k := 0; k < ni; k++ {
				a := tpoint()
				var b int64
				switch rng.Intn(3) {
				case 0:
					b = a // single timestamp
				default:
					b = tpoint()
				}
				if a > b {
					a, b = b, a
				}
				rq.Intervals = append(rq.Intervals, [2]int64{a, b})
			}
		}
		reqs = append(reqs, rq)
	}
	return series, reqs
}

func vfc48HasMaxInt(reqs []vfc48Request) bool {
	for _, rq := range reqs {
		for _, iv := range rq.Intervals {
			if iv[1] == math.MaxInt64 {
				return true
			}
		}
	}
	return false
}

type vfc48Log struct{}

func (vfc48Log) DeleteSeries(labels.Labels, tombstones.Intervals) {}
func (vfc48Log) ModifySeries(labels.Labels, labels.Labels)        {}

type vfc48Prog struct{}

func (vfc48Prog) SeriesProcessed() {}

func vfc48Chunk(ch []vfc48Sample) chunks.Meta {
	x := chunkenc.NewXORChunk()
	a, err := x.Appender()
	if err != nil {
		panic(err)
	}
	for _, s := range ch {
		a.Append(s.T, s.V)
	}
	return chunks.Meta{Chunk: x, MinTime: ch[0].T, MaxTime: ch[len(ch)-1].T}
}

// vfc48Out is what the rewrite produced: label string -> list of samples (in output order), plus series order.
type vfc48Out struct {
	series map[string][]vfc48Sample
	dup    string
}

// vfc48RunModify runs the real DeletionModifier over chunk series built from the model.
func vfc48RunModify(series []vfc48Series, reqs []vfc48Request) (vfc48Out, error) {
	var in []storage.ChunkSeries
	for _, s := range series {
		var metas []chunks.Meta
		for _, ch := range s.Chunks {
			metas = append(metas, vfc48Chunk(ch))
		}
		in = append(in, &storage.ChunkSeriesEntry{Lset: s.lset(), ChunkIteratorFn: func(chunks.Iterator) chunks.Iterator {
			return storage.NewListChunkSeriesIterator(metas...)
		}})
	}
	var real []metadata.DeletionRequest
	for _, rq := range reqs {
		real = append(real, rq.real())
	}
	_, set := WithDeletionModifier(real...).Modify(index.NewStringListIter(nil), newListChunkSeriesSet(in...), vfc48Log{}, vfc48Prog{})
	out := vfc48Out{series: map[string][]vfc48Sample{}}
	for set.Next() {
		s := set.At()
		key := s.Labels().String()
		if _, ok := out.series[key]; ok {
			out.dup = key
		}
		out.series[key] = []vfc48Sample{}
		it := s.Iterator(nil)
		for it.Next() {
			m := it.At()
			ci := m.Chunk.Iterator(nil)
			for ci.Next() != chunkenc.ValNone {
				t, v := ci.At()
				out.series[key] = append(out.series[key], vfc48Sample{t, v})
			}
			if err := ci.Err(); err != nil {
				return out, err
			}
		}
		if err := it.Err(); err != nil {
			return out, err
		}
	}
	return out, set.Err()
}

// vfc48RunBlock writes the model into a real TSDB block, rewrites it with Compactor.WriteSeries and reads the new block.
func vfc48RunBlock(dir string, series []vfc48Series, reqs []vfc48Request) (vfc48Out, error) {
	ctx := context.Background()
	logger := log.NewNopLogger()
	out := vfc48Out{series: map[string][]vfc48Sample{}}
	inID, outID := ulid.MustNew(1, nil), ulid.MustNew(2, nil)
	inDir, outDir := filepath.Join(dir, inID.String()), filepath.Join(dir, outID.String())
	if err := os.MkdirAll(inDir, 0o777); err != nil {
		return out, err
	}
	// input block
	w, err := block.NewDiskWriter(ctx, logger, inDir)
	if err != nil {
		return out, err
	}
	syms := map[string]struct{}{}
	for _, s := range series {
		for _, l := range s.Labels {
			syms[l[0]], syms[l[1]] = struct{}{}, struct{}{}
		}
	}
	var symList []string
	for s := range syms {
		symList = append(symList, s)
	}
	sort.Strings(symList)
	for _, s := range symList {
		if err := w.AddSymbol(s); err != nil {
			return out, err
		}
	}
	for i, s := range series {
		var metas []chunks.Meta
		for _, ch := range s.Chunks {
			metas = append(metas, vfc48Chunk(ch))
		}
		if err := w.WriteChunks(metas...); err != nil {
			return out, err
		}
		if err := w.AddSeries(storage.SeriesRef(i), s.lset(), metas...); err != nil {
			return out, err
		}
	}
	if _, err := w.Flush(); err != nil {
		return out, err
	}
	if err := (metadata.Meta{BlockMeta: tsdb.BlockMeta{Version: 1, ULID: inID}}).WriteToDir(logger, inDir); err != nil {
		return out, err
	}
	pool := chunkenc.NewPool()
	b, err := tsdb.OpenBlock(logutil.GoKitLogToSlog(logger), inDir, pool, nil)
	if err != nil {
		return out, err
	}
	defer b.Close()
	// rewrite
	var real []metadata.DeletionRequest
	for _, rq := range reqs {
		real = append(real, rq.real())
	}
	if err := os.MkdirAll(outDir, 0o777); err != nil {
		return out, err
	}
	d, err := block.NewDiskWriter(ctx, logger, outDir)
	if err != nil {
		return out, err
	}
	comp := New(dir, logger, NewChangeLog(io.Discard), pool)
	if err := comp.WriteSeries(ctx, []block.Reader{b}, d, NewProgressLogger(logger, len(series)), WithDeletionModifier(real...)); err != nil {
		_, _ = d.Flush()
		return out, fmt.Errorf("WriteSeries: %w", err)
	}
	if _, err := d.Flush(); err != nil {
		return out, fmt.Errorf("Flush: %w", err)
	}
	// read back
	ir, err := index.NewFileReader(filepath.Join(outDir, block.IndexFilename), index.DecodePostingsRaw)
	if err != nil {
		return out, err
	}
	defer ir.Close()
	cr, err := chunks.NewDirReader(filepath.Join(outDir, block.ChunksDirname), nil)
	if err != nil {
		return out, err
	}
	defer cr.Close()
	k, v := index.AllPostingsKey()
	all, err := ir.Postings(ctx, k, v)
	if err != nil {
		return out, err
	}
	var lb labels.ScratchBuilder
	var chks []chunks.Meta
	for all.Next() {
		if err := ir.Series(all.At(), &lb, &chks); err != nil {
			return out, err
		}
		key := lb.Labels().String()
		if _, ok := out.series[key]; ok {
			out.dup = key
		}
		out.series[key] = []vfc48Sample{}
		for _, c := range chks {
			chk, _, err := cr.ChunkOrIterable(c)
			if err != nil {
				return out, err
			}
			ci := chk.Iterator(nil)
			for ci.Next() != chunkenc.ValNone {
				t, v := ci.At()
				out.series[key] = append(out.series[key], vfc48Sample{t, v})
			}
			if err := ci.Err(); err != nil {
				return out, err
			}
		}
	}
	return out, all.Err()
}

// vfc48Judge compares the rewrite output with what the requests allow / demand.
func vfc48Judge(r *vfkit.Run, c int, via string, series []vfc48Series, reqs []vfc48Request, out vfc48Out, wit map[string]any) (nontrivial bool) {
	if out.dup != "" {
		r.Violation(c, "series-emitted-twice", "series "+out.dup+" is emitted twice", wit)
		return
	}
	known := map[string]bool{}
	for _, s := range series {
		key := s.lset().String()
		known[key] = true
		var mustAll, mayAll bool
		var mustIv, mayIv [][2]int64
		for _, rq := range reqs {
			must, may := vfc48Selects(rq, s)
			if may {
				if len(rq.Intervals) == 0 {
					mayAll = true
				}
				mayIv = append(mayIv, rq.Intervals...)
			}
			if must {
				if len(rq.Intervals) == 0 {
					mustAll = true
				}
				mustIv = append(mustIv, rq.Intervals...)
			}
		}
		got := out.series[key]
		gi := 0
		gotAt := map[int64]float64{}
		last := int64(math.MinInt64)
		for i, g := range got {
			if i > 0 && g.T <= last {
				r.Violation(c, "output-timestamps-not-increasing", fmt.Sprintf("series %s: output sample t=%d after t=%d", key, g.T, last), wit)
				return
			}
			last = g.T
			gotAt[g.T] = g.V
		}
		_ = gi
		inAt := map[int64]float64{}
		deleted, kept := 0, 0
		// emptied: a chunk all of whose samples are requested although its time range is not inside one merged interval
		emptiedFrom := int64(math.MaxInt64)
		merged := tombstones.Intervals{}
		for _, iv := range mustIv {
			merged = merged.Add(tombstones.Interval{Mint: iv[0], Maxt: iv[1]})
		}
		for _, ch := range s.Chunks {
			allDel := true
			for _, smp := range ch {
				if !vfc48In(smp.T, mustIv) {
					allDel = false
				}
			}
			if allDel && !mustAll && !(tombstones.Interval{Mint: ch[0].T, Maxt: ch[len(ch)-1].T}).IsSubrange(merged) && ch[0].T < emptiedFrom {
				emptiedFrom = ch[0].T
			}
		}
		for _, ch := range s.Chunks {
			for _, smp := range ch {
				inAt[smp.T] = smp.V
				mayDel := mayAll || vfc48In(smp.T, mayIv)
				mustDel := mustAll || vfc48In(smp.T, mustIv)
				v, present := gotAt[smp.T]
				switch {
				case !mayDel && !present:
					fp := "kept-sample-removed"
					what := fmt.Sprintf("series %s: sample t=%d is outside every requested interval of every request selecting the series but is missing from the output", key, smp.T)
					if smp.T > emptiedFrom {
						fp = "kept-sample-removed:after-a-chunk-emptied-by-several-intervals"
						what += fmt.Sprintf(" (the chunk starting at t=%d lost all its samples to several disjoint intervals; everything after it is gone)", emptiedFrom)
					}
					r.Violation(c, fp, what, wit)
					return
				case mustDel && present:
					r.Violation(c, "requested-sample-kept", fmt.Sprintf("series %s: sample t=%d lies inside a requested interval of a request whose matchers all match labels the series carries, but is still in the output", key, smp.T), wit)
					return
				case present && math.Float64bits(v) != math.Float64bits(smp.V):
					r.Violation(c, "sample-value-changed", fmt.Sprintf("series %s: sample t=%d has value %v, was %v", key, smp.T, v, smp.V), wit)
					return
				}
				if present {
					kept++
				} else {
					deleted++
				}
			}
		}
		for t := range gotAt {
			if _, ok := inAt[t]; !ok {
				r.Violation(c, "sample-fabricated", fmt.Sprintf("series %s: output sample t=%d does not exist in the input", key, t), wit)
				return
			}
		}
		if deleted > 0 && kept > 0 {
			nontrivial = true
		}
		if deleted > 0 {
			r.Count("series_with_deletions", 1)
		}
		if emptiedFrom != math.MaxInt64 {
			r.Count("series_with_chunk_emptied_by_several_intervals", 1)
		}
	}
	for key := range out.series {
		if !known[key] {
			r.Violation(c, "series-not-in-input", "output series "+key+" does not exist in the input", wit)
			return
		}
	}
	return nontrivial
}

func TestVF_C48(t *testing.T) {
	r := vfkit.Start(t, "C48")
	defer r.Finish()
	r.Rule("case = 1..20 float series (1..4 chunks of 1..8 samples, scrape gaps also inside chunks) x 1..4 deletion requests (1..3 matchers = != =~ !~ incl. matchers on absent labels and empty values; " +
		"0..4 closed intervals from chunk edges / sample timestamps +-1 / single timestamps / +-inf; 1 in 5 requests deletes whole series); part A: real DeletionModifier.Modify over chunk series, " +
		"part B: Compactor.WriteSeries on a real TSDB block, output block read back; oracle per input sample: outside every interval of every request whose matchers match (absent label = empty string) => present with the same value; " +
		"inside an interval of a request whose matchers all match labels the series carries => absent; nothing fabricated; distinct = hash of series+requests; non-trivial = some series lost some but not all samples")
	nA := r.N(3000, 100000)
	nB := r.N(40, 300)
	r.Require(int64(nA+nB)*9/10, nA/4)
	r.Assume("a rewrite that returns an error produced no output and is not judged (counted as rewrite_errors)")
	dir := t.TempDir()
	for c := 0; c < nA+nB; c++ {
		if !r.Want(c) {
			continue
		}
		rng := r.Rand(c)
		series, reqs := vfc48Gen(rng, 20)
		switch c { // two directed minimal inputs (see the report); every other case is generated
		case 0:
			series = []vfc48Series{{Labels: [][2]string{{"__name__", "up"}}, Chunks: [][]vfc48Sample{{{0, 0}, {10, 10}}, {{20, 20}, {30, 30}}}}}
			reqs = []vfc48Request{{Matchers: []vfc48Matcher{{"=", "__name__", "up"}}, Intervals: [][2]int64{{0, 0}, {10, 10}}}}
		case 1:
			series = []vfc48Series{{Labels: [][2]string{{"__name__", "up"}}, Chunks: [][]vfc48Sample{{{0, 0}, {10, 10}}, {{20, 20}, {30, 30}}}}}
			reqs = []vfc48Request{{Matchers: []vfc48Matcher{{"=", "__name__", "up"}}, Intervals: [][2]int64{{0, 5}, {20, 25}, {10, math.MaxInt64}}}}
		}
		via := "modify"
		if c >= nA {
			via = "block"
		}
		wit := map[string]any{"series": series, "requests": reqs, "via": via}
		r.Guard(c, via, wit, func() {
			var out vfc48Out
			var err error
			defer func() {
				// One crash class is named precisely: Prometheus' tombstones.Intervals.Add indexes out of range when an
				// interval ending at MaxInt64 is added after an earlier, disjoint interval. Everything else stays "panic:<via>".
				if p := recover(); p != nil {
					st := string(debug.Stack())
					if strings.Contains(st, "tombstones.Intervals.Add") && vfc48HasMaxInt(reqs) {
						r.Count("panics_intervals_add_maxint", 1)
						r.Violation(c, "panic:tombstones.Intervals.Add:interval-maxt=MaxInt64", fmt.Sprintf("panic: %v (rewrite via %s with a requested interval ending at math.MaxInt64)", p, via),
							map[string]any{"input": wit, "panic": fmt.Sprint(p), "stack": st})
						return
					}
					panic(p)
				}
			}()
			if via == "modify" {
				out, err = vfc48RunModify(series, reqs)
			} else {
				cdir := filepath.Join(dir, fmt.Sprintf("c%d", c))
				out, err = vfc48RunBlock(cdir, series, reqs)
				_ = os.RemoveAll(cdir)
			}
			if err != nil {
				r.Count("rewrite_errors", 1)
				r.Count("rewrite_errors_"+via, 1)
				if r.Counter("rewrite_errors") <= 3 {
					r.T.Logf("case %d (%s): rewrite error: %v", c, via, err)
				}
				return
			}
			r.Eval(1)
			r.Count("cases_"+via, 1)
			if vfc48Judge(r, c, via, series, reqs, out, wit) {
				r.Distinct(fmt.Sprintf("%v|%v", series, reqs))
			}
			r.Sample(map[string]any{"via": via, "series": len(series), "requests": reqs, "output_series": len(out.series)})
		})
	}
}
