//go:build verif

package store

import (
	"context"
	"fmt"
	"math"
	"math/rand"
	"sort"
	"strings"
	"sync"
	"testing"
	"time"

	"github.com/prometheus/prometheus/model/labels"

	"github.com/thanos-io/thanos/pkg/component"
	"github.com/thanos-io/thanos/pkg/store/storepb"
	"github.com/thanos-io/thanos/pkg/verifhook/vfkit"
)

type vfc06Fault struct {
	Kind  int // vfc03Fault*
	After int
	Shape int // index into vfc03ErrShapes (open / recv faults)
}

func (f vfc06Fault) String() string {
	sh := ""
	if f.Shape != 0 {
		sh = "/" + vfc03ErrShapes[f.Shape]
	}
	switch f.Kind {
	case vfc03FaultOpen:
		return "open" + sh
	case vfc03FaultRecv:
		return fmt.Sprintf("recv@%d%s", f.After, sh)
	case vfc03FaultBlock:
		return fmt.Sprintf("block@%d", f.After)
	}
	return "ok"
}

func vfc06KindName(k int) string {
	return map[int]string{vfc03FaultOpen: "open", vfc03FaultRecv: "recv", vfc03FaultBlock: "timeout"}[k]
}

// vfc06FaultClass names a fault for fingerprints: kind plus the error shape when it is not a plain error.
func vfc06FaultClass(f vfc06Fault) string {
	if f.Shape != 0 && f.Kind != vfc03FaultBlock {
		return vfc06KindName(f.Kind) + "(" + vfc03ErrShapes[f.Shape] + ")"
	}
	return vfc06KindName(f.Kind)
}

type vfc06Case struct {
	Layout   [][]vfc03Frame // per store
	Faults   []vfc06Fault   // per store
	Strategy string         // abort | warn | disabled
	Retr     RetrievalStrategy
	Buf      int
	Timeout  time.Duration
	Delays   bool
	LayoutID string
}

func (c *vfc06Case) key() string {
	var fs []string
	for _, f := range c.Faults {
		fs = append(fs, f.String())
	}
	var ns []string
	for _, l := range c.Layout {
		ns = append(ns, fmt.Sprint(len(l)))
	}
	return fmt.Sprintf("layout=%s frames=%s faults=%s strategy=%s retrieval=%s buf=%d timeout=%s delays=%v", c.LayoutID, strings.Join(ns, ","), strings.Join(fs, ","), c.Strategy, c.Retr, c.Buf, c.Timeout, c.Delays)
}

func (c *vfc06Case) witness() map[string]any {
	w := map[string]any{"case": c.key()}
	var sts []any
	for i, l := range c.Layout {
		sts = append(sts, map[string]any{"name": fmt.Sprintf("vfstore-%d", i), "fault": c.Faults[i].String(), "frames": vfc03FmtFrames(l)})
	}
	w["stores"] = sts
	return w
}

// vfc06FixedLayout: store i streams n[i] single-series frames; label sets overlap between stores,
// every store has its own chunk variant plus one chunk all stores share.
func vfc06FixedLayout(n []int) [][]vfc03Frame {
	picks := [][]int{{1, 3, 5, 6}, {1, 2, 4, 6}, {2, 3, 4, 5}, {1, 4, 5, 6}}
	var out [][]vfc03Frame
	for i, k := range n {
		var fr []vfc03Frame
		for j := 0; j < k; j++ {
			ls := labels.FromStrings("a", fmt.Sprint(picks[i%len(picks)][j]))
			fr = append(fr, vfc03Frame{Series: []vfc03Series{{Lset: ls, Chunks: []vfc03Chunk{
				{Min: 0, Max: 99, Variant: 0},
				{Min: 100, Max: 199, Variant: 1 + i},
			}}}})
		}
		out = append(out, fr)
	}
	return out
}

func vfc06RandLayout(rng *rand.Rand, stores int) [][]vfc03Frame {
	var out [][]vfc03Frame
	for i := 0; i < stores; i++ {
		k := rng.Intn(5)
		vals := vfkit.Perm(rng, []int{1, 2, 3, 4, 5, 6, 7})[:k]
		sort.Ints(vals)
		var fr []vfc03Frame
		for _, v := range vals {
			s := vfc03Series{Lset: labels.FromStrings("a", fmt.Sprint(v)), Chunks: []vfc03Chunk{{Min: 0, Max: 99}, {Min: 100, Max: 199, Variant: 1 + i}}}
			if rng.Intn(3) == 0 { // split the series over two frames
				fr = append(fr, vfc03Frame{Series: []vfc03Series{{Lset: s.Lset, Chunks: s.Chunks[:1]}}})
				s.Chunks = s.Chunks[1:]
			}
			fr = append(fr, vfc03Frame{Series: []vfc03Series{s}})
		}
		if len(fr) > 4 {
			fr = fr[:4]
		}
		out = append(out, fr)
	}
	return out
}

// vfc06Points lists the failure points of one store streaming n frames.
func vfc06Points(n int, reduced bool) []vfc06Fault {
	if reduced {
		ps := []vfc06Fault{{Kind: vfc03FaultOpen, After: 0}, {Kind: vfc03FaultRecv, After: 0}, {Kind: vfc03FaultBlock, After: 0}}
		if n >= 1 {
			ps = append(ps, vfc06Fault{Kind: vfc03FaultRecv, After: n})
		}
		if n >= 2 {
			ps = append(ps, vfc06Fault{Kind: vfc03FaultRecv, After: n / 2})
		}
		return ps
	}
	ps := []vfc06Fault{{Kind: vfc03FaultOpen, After: 0}}
	for k := 0; k <= n; k++ {
		ps = append(ps, vfc06Fault{Kind: vfc03FaultRecv, After: k}, vfc06Fault{Kind: vfc03FaultBlock, After: k})
	}
	return ps
}

// vfc06FaultVectors: every non-empty subset of stores failing; the full list of failure points when
// exactly one store fails, the reduced list (open, recv@0, recv@mid, recv@n, block@0) per store otherwise.
func vfc06FaultVectors(layout [][]vfc03Frame) [][]vfc06Fault {
	s := len(layout)
	var out [][]vfc06Fault
	for mask := 1; mask < 1<<s; mask++ {
		var failing []int
		for i := 0; i < s; i++ {
			if mask&(1<<i) != 0 {
				failing = append(failing, i)
			}
		}
		var choices [][]vfc06Fault
		for _, i := range failing {
			choices = append(choices, vfc06Points(len(layout[i]), len(failing) > 1))
		}
		idx := make([]int, len(failing))
		for {
			v := make([]vfc06Fault, s)
			for j, i := range failing {
				v[i] = choices[j][idx[j]]
				if len(failing) > 1 && v[i].Kind != vfc03FaultBlock {
					// several stores failing: the error shape rotates with the vector
					v[i].Shape = (len(out) + i) % len(vfc03ErrShapes)
				}
			}
			out = append(out, v)
			if len(failing) == 1 && v[failing[0]].Kind != vfc03FaultBlock {
				// one store failing: every error shape at every open / recv failure point
				for sh := 1; sh < len(vfc03ErrShapes); sh++ {
					w := append([]vfc06Fault(nil), v...)
					w[failing[0]].Shape = sh
					out = append(out, w)
				}
			}
			j := 0
			for ; j < len(idx); j++ {
				idx[j]++
				if idx[j] < len(choices[j]) {
					break
				}
				idx[j] = 0
			}
			if j == len(idx) {
				break
			}
		}
	}
	return out
}

func vfc06Expand(id string, layout [][]vfc03Frame, vectors [][]vfc06Fault, delays bool) []*vfc06Case {
	var out []*vfc06Case
	for _, v := range vectors {
		block := false
		for _, f := range v {
			if f.Kind == vfc03FaultBlock {
				block = true
			}
		}
		timeouts := []time.Duration{0, 5 * time.Second}
		if block {
			timeouts = []time.Duration{30 * time.Millisecond}
		}
		nfail, shaped := 0, false
		for _, f := range v {
			if f.Kind != vfc03FaultNone {
				nfail++
				shaped = shaped || f.Shape != 0
			}
		}
		if nfail == 1 && shaped {
			timeouts = []time.Duration{0} // the extra error shapes are enumerated without the frame timer
		}
		for _, strat := range []string{"abort", "warn", "disabled"} {
			for _, rc := range []struct {
				r RetrievalStrategy
				b int
			}{{EagerRetrieval, 0}, {LazyRetrieval, 1}, {LazyRetrieval, 20}} {
				for _, to := range timeouts {
					out = append(out, &vfc06Case{Layout: layout, Faults: v, Strategy: strat, Retr: rc.r, Buf: rc.b, Timeout: to, Delays: delays, LayoutID: id})
				}
			}
		}
	}
	return out
}

type vfc06Result struct {
	err      error
	out      []vfc03Out
	warns    []string
	observed []bool // store i ended a stream (or its open) with an error
	queried  []bool
	hung     bool
}

func vfc06Run(c *vfc06Case, seed int64) vfc06Result {
	var clients []Client
	var fakes []*vfc03Client
	for i, l := range c.Layout {
		l := l
		f := &vfc03Client{
			Name: fmt.Sprintf("vfstore-%d", i), Idx: i, MinT: math.MinInt64, MaxT: math.MaxInt64, WithoutRepl: true, Sharding: true,
			Frames:    func(*storepb.SeriesRequest) []vfc03Frame { return l },
			FaultKind: c.Faults[i].Kind, FaultAfter: c.Faults[i].After, ErrShape: c.Faults[i].Shape,
		}
		if c.Delays {
			f.DelaySeed = seed + int64(i)*7919 + 1
		}
		fakes = append(fakes, f)
		clients = append(clients, f)
	}
	p := NewProxyStore(nil, nil, func() []Client { return clients }, component.Query, labels.EmptyLabels(), c.Timeout, c.Retr,
		WithLazyRetrievalMaxBufferedResponsesForProxy(c.Buf))
	req := &storepb.SeriesRequest{
		MinTime: 0, MaxTime: math.MaxInt64,
		Matchers: []storepb.LabelMatcher{{Type: storepb.LabelMatcher_RE, Name: "a", Value: ".+"}},
	}
	switch c.Strategy {
	case "abort":
		req.PartialResponseStrategy = storepb.PartialResponseStrategy_ABORT
	case "warn":
		req.PartialResponseStrategy = storepb.PartialResponseStrategy_WARN
	case "disabled":
		req.PartialResponseStrategy = storepb.PartialResponseStrategy_WARN
		req.PartialResponseDisabled = true
	}
	srv := vfc03NewServer(context.Background())
	done := make(chan error, 1)
	go func() { done <- p.Series(req, srv) }()
	var res vfc06Result
	select {
	case res.err = <-done:
	case <-time.After(120 * time.Second):
		res.hung = true
		return res
	}
	res.out, res.warns = srv.flat()
	for _, f := range fakes {
		res.observed = append(res.observed, f.failures.Load() > 0)
		res.queried = append(res.queried, f.calls.Load() > 0)
	}
	return res
}

// vfc06Check asserts exactly the statement of C06 on one observed execution.
func vfc06Check(c *vfc06Case, res vfc06Result) (fp, what string) {
	kinds := map[string]bool{}
	anyFailed := false
	for i, failed := range res.observed {
		if failed {
			anyFailed = true
			kinds[vfc06FaultClass(c.Faults[i])] = true
		}
	}
	var ks []string
	for k := range kinds {
		ks = append(ks, k)
	}
	sort.Strings(ks)
	class := fmt.Sprintf("fault=%s retrieval=%s", strings.Join(ks, "+"), c.Retr)
	if !anyFailed {
		return "", ""
	}
	if c.Strategy == "abort" || c.Strategy == "disabled" {
		if res.err == nil {
			return c.Strategy + ":request-succeeded " + class, "a queried store failed but Series returned nil"
		}
		return "", ""
	}
	// warn
	if res.err != nil {
		return "warn:request-failed " + class, "Series returned " + res.err.Error()
	}
	for i, failed := range res.observed {
		name := fmt.Sprintf("vfstore-%d", i)
		if failed {
			found := false
			for _, w := range res.warns {
				if strings.Contains(w, name) {
					found = true
				}
			}
			if !found {
				return fmt.Sprintf("warn:no-warning-for-failed-store fault=%s retrieval=%s", vfc06FaultClass(c.Faults[i]), c.Retr),
					fmt.Sprintf("store %s failed (%s) but none of the %d warnings names it: %v", name, c.Faults[i], len(res.warns), res.warns)
			}
			continue
		}
		// healthy store: every series and chunk it sent must be in the response
		got := map[string]map[string]bool{}
		for _, o := range res.out {
			m := got[o.Lset.String()]
			if m == nil {
				m = map[string]bool{}
				got[o.Lset.String()] = m
			}
			for _, ch := range o.Chunks {
				m[vfc03ChunkKey(ch)] = true
			}
		}
		for _, f := range c.Layout[i] {
			for _, s := range f.Series {
				m, ok := got[s.Lset.String()]
				if !ok {
					return "warn:healthy-series-missing " + class, fmt.Sprintf("series %s of healthy store %s is not in the response", s.Lset, name)
				}
				for _, ch := range s.Chunks {
					if !m[vfc03ChunkKey(vfc03Build(ch))] {
						return "warn:healthy-chunk-missing " + class, fmt.Sprintf("chunk %s of series %s of healthy store %s is not in the response", ch, s.Lset, name)
					}
				}
			}
		}
	}
	return "", ""
}

// ---- directed real-time scenarios: a stalled merge loop must not fail a healthy store ----

const vfc06StallT = time.Second // frame timeout of the stalled-merge scenarios

type vfc06Stall struct {
	Variant     string // slow-healthy-peer | peer-fails-by-timeout
	HealthyPos  int    // position of the healthy store in the fan-out (0 or 1)
	Buf         int
	NHealthy    int
	GapFraction float64 // the peer delivers a frame every GapFraction*T
}

func (s vfc06Stall) key() string {
	return fmt.Sprintf("stalled-merge variant=%s healthy_pos=%d lazy buf=%d healthy_series=%d peer_gap=%.1fT T=%s strategy=warn", s.Variant, s.HealthyPos, s.Buf, s.NHealthy, s.GapFraction, vfc06StallT)
}

func vfc06StallList() []vfc06Stall {
	var out []vfc06Stall
	for _, v := range []string{"slow-healthy-peer", "peer-fails-by-timeout"} {
		for pos := 0; pos < 2; pos++ {
			for _, buf := range []int{1, 2} {
				for _, n := range []int{6, 10} {
					out = append(out, vfc06Stall{Variant: v, HealthyPos: pos, Buf: buf, NHealthy: n, GapFraction: 0.6})
				}
			}
		}
	}
	return out
}

// vfc06RunStall: a peer whose series all sort first delivers a frame every 0.6*T (every single Recv is faster than the
// frame timeout T) so the merge loop is stalled for more than T in total, while the healthy store (more series than the
// lazy buffer, every Recv immediate, honours its stream context like a gRPC client) waits for a free buffer slot.
// Bracketing keeps the verdict independent of load: the healthy fake measures each of its own Recv calls and a heartbeat
// measures scheduler stalls; if either is too long the scenario is discarded, not judged.
func vfc06RunStall(sc vfc06Stall) (fp, what string, discarded bool, witness map[string]any) {
	gap := time.Duration(float64(vfc06StallT) * sc.GapFraction)
	var hfr, pfr []vfc03Frame
	for i := 0; i < sc.NHealthy; i++ {
		hfr = append(hfr, vfc03Frame{Series: []vfc03Series{{Lset: labels.FromStrings("a", fmt.Sprintf("5%02d", i)), Chunks: []vfc03Chunk{{Min: 0, Max: 99}}}}})
	}
	peer := &vfc03Client{Name: "vfpeer", MinT: math.MinInt64, MaxT: math.MaxInt64, WithoutRepl: true, Sharding: true}
	npeer := 3
	if sc.Variant == "peer-fails-by-timeout" {
		npeer = 1
		peer.FaultKind, peer.FaultAfter = vfc03FaultBlock, 1
	}
	for i := 0; i < npeer; i++ {
		pfr = append(pfr, vfc03Frame{Series: []vfc03Series{{Lset: labels.FromStrings("a", fmt.Sprintf("1%02d", i)), Chunks: []vfc03Chunk{{Min: 0, Max: 99, Variant: 1}}}}})
		peer.RecvDelay = append(peer.RecvDelay, gap)
	}
	peer.Frames = func(*storepb.SeriesRequest) []vfc03Frame { return pfr }
	healthy := &vfc03Client{Name: "vfhealthy", MinT: math.MinInt64, MaxT: math.MaxInt64, WithoutRepl: true, Sharding: true, HonourCtx: true,
		Frames: func(*storepb.SeriesRequest) []vfc03Frame { return hfr }}
	clients := []Client{healthy, peer}
	peer.Idx = 1
	if sc.HealthyPos == 1 {
		clients = []Client{peer, healthy}
		peer.Idx, healthy.Idx = 0, 1
	}
	// heartbeat: the longest time a 10ms sleep took while the scenario ran
	stop := make(chan struct{})
	hbDone := make(chan time.Duration, 1)
	go func() {
		var worst time.Duration
		for {
			select {
			case <-stop:
				hbDone <- worst
				return
			default:
			}
			t0 := time.Now()
			time.Sleep(10 * time.Millisecond)
			if d := time.Since(t0); d > worst {
				worst = d
			}
		}
	}()
	p := NewProxyStore(nil, nil, func() []Client { return clients }, component.Query, labels.EmptyLabels(), vfc06StallT, LazyRetrieval,
		WithLazyRetrievalMaxBufferedResponsesForProxy(sc.Buf))
	req := &storepb.SeriesRequest{MinTime: 0, MaxTime: math.MaxInt64, PartialResponseStrategy: storepb.PartialResponseStrategy_WARN,
		Matchers: []storepb.LabelMatcher{{Type: storepb.LabelMatcher_RE, Name: "a", Value: ".+"}}}
	srv := vfc03NewServer(context.Background())
	done := make(chan error, 1)
	go func() { done <- p.Series(req, srv) }()
	var err error
	select {
	case err = <-done:
	case <-time.After(120 * time.Second):
		close(stop)
		return "", "", true, nil
	}
	close(stop)
	hb := <-hbDone
	out, warns := srv.flat()
	maxRecv := time.Duration(healthy.maxRecvNs.Load())
	witness = map[string]any{"scenario": sc.key(), "error": fmt.Sprint(err), "warnings": warns, "response": vfc03FmtOut(out),
		"healthy_max_recv": maxRecv.String(), "heartbeat_worst_10ms_sleep": hb.String(), "healthy_stream_cancelled_by_proxy": healthy.ctxFailures.Load() > 0}
	if maxRecv > vfc06StallT/2 || hb > vfc06StallT/4 {
		return "", "", true, witness
	}
	class := "stalled-merge retrieval=lazy"
	if err != nil {
		if sc.Variant == "slow-healthy-peer" {
			return "warn:request-failed-without-store-failure " + class, "no store failed (every Recv of every store was faster than the frame timeout) but Series returned " + err.Error(), false, witness
		}
		return "warn:request-failed fault=timeout retrieval=lazy", "Series returned " + err.Error(), false, witness
	}
	for _, w := range warns {
		if strings.Contains(w, healthy.Name) {
			return "warn:healthy-store-reported-failed " + class,
				fmt.Sprintf("store %s never returned an error of its own and every one of its Recv calls took <= %s (frame timeout %s), but a warning reports it failed: %s", healthy.Name, maxRecv, vfc06StallT, w), false, witness
		}
	}
	got := map[string]bool{}
	for _, o := range out {
		got[o.Lset.String()] = true
	}
	for _, f := range hfr {
		if !got[f.Series[0].Lset.String()] {
			return "warn:healthy-series-missing " + class, fmt.Sprintf("series %s of store %s (never failed, always fast) is not in the response", f.Series[0].Lset, healthy.Name), false, witness
		}
	}
	if sc.Variant == "peer-fails-by-timeout" {
		found := false
		for _, w := range warns {
			found = found || strings.Contains(w, peer.Name)
		}
		if !found {
			return "warn:no-warning-for-failed-store fault=timeout retrieval=lazy", fmt.Sprintf("store %s failed by frame timeout but no warning names it: %v", peer.Name, warns), false, witness
		}
	} else {
		for _, f := range pfr {
			if !got[f.Series[0].Lset.String()] {
				return "warn:healthy-series-missing " + class, fmt.Sprintf("series %s of the slow but healthy store %s is not in the response", f.Series[0].Lset, peer.Name), false, witness
			}
		}
	}
	return "", "", false, witness
}

func TestVF_C06(t *testing.T) {
	r := vfkit.Start(t, "C06")
	defer r.Finish()
	r.Rule("enumeration: 1..3 stores (thorough: plus 4 stores and 100 seeded random layouts with PRNG delays) streaming <=4 single-series frames with overlapping label sets; every non-empty subset of stores failing; " +
		"failure point in {Series() open error, Recv error after k=0..n frames, Recv blocks after k=0..n frames until the 30ms frame timeout cancels the stream} (all points when one store fails, " +
		"{open, recv@0, recv@mid, recv@n, block@0} per store when several fail); the injected open/Recv error has one of 9 shapes (plain, errors.Wrap(io.EOF), fmt %w io.EOF, io.ErrUnexpectedEOF, gRPC Unavailable/DeadlineExceeded/Canceled, context.Canceled/DeadlineExceeded): " +
		"all shapes at every point when one store fails, rotating when several fail; x strategy {ABORT, WARN, PartialResponseDisabled} x {eager, lazy buf 1, lazy buf 20} x frame timer {off, 5s}; " +
		"plus 16 directed real-time scenarios (lazy, buffer 1/2, frame timeout 1s, WARN): a peer whose series sort first delivers a frame every 0.6s (or one frame, then stalls into its timeout) so the merge is stalled > timeout while the " +
		"healthy store (6/10 series, every Recv immediate, honours its stream context) waits for a buffer slot; judged only if every Recv of the healthy fake took <= 0.5s and a 10ms heartbeat never took > 0.25s (else repeated, at most 3 attempts, then discarded and counted); run after the enumeration; " +
		"oracle on the error/warnings/series returned by the real ProxyStore.Series: abort/disabled => error; warn => nil error, >=1 warning naming every store observed to fail, every series+chunk of every store not observed to fail; " +
		"distinct = the case tuple; non-trivial = the fake store actually returned the injected error")
	r.Assume("a store 'fails' iff the fake client returned a non-EOF error from Series() or Recv (observed, not planned); healthy fakes never fail, they ignore the stream context")
	r.Assume("warnings are attributed to a store by the store name (Client.String()) the proxy embeds in the warning text")

	var cases []*vfc06Case
	for _, n := range [][]int{{3}, {2, 3}, {2, 3, 2}} {
		l := vfc06FixedLayout(n)
		cases = append(cases, vfc06Expand("fixed", l, vfc06FaultVectors(l), false)...)
	}
	if r.Thorough() {
		l := vfc06FixedLayout([]int{2, 3, 2, 1})
		cases = append(cases, vfc06Expand("fixed", l, vfc06FaultVectors(l), false)...)
		for k := 0; k < 100; k++ {
			rng := r.RandS("layout", k)
			l := vfc06RandLayout(rng, 1+rng.Intn(3))
			cases = append(cases, vfc06Expand(fmt.Sprintf("rand%d", k), l, vfc06FaultVectors(l), true)...)
		}
	}
	r.Extra("enumerated_cases", len(cases))
	r.Require(int64(len(cases)), len(cases)*9/10)
	r.Exhaustive(true)

	var wg sync.WaitGroup
	idx := make(chan int)
	var hungOnce sync.Once
	for w := 0; w < 8; w++ {
		wg.Add(1)
		go func() {
			defer wg.Done()
			for ci := range idx {
				c := cases[ci]
				r.Guard(ci, "proxy-series", c.witness(), func() {
					res := vfc06Run(c, r.Seed()*1_000_003+int64(ci))
					if res.hung {
						hungOnce.Do(func() {
							r.Inconclusive(fmt.Sprintf("case %d (%s): ProxyStore.Series did not return within 120s", ci, c.key()))
						})
						return
					}
					r.Eval(1)
					injected := false
					for _, o := range res.observed {
						injected = injected || o
					}
					if injected {
						r.Distinct(c.key())
					}
					r.Count("strategy_"+c.Strategy, 1)
					r.Sample(map[string]any{"case": c.key(), "error": fmt.Sprint(res.err), "warnings": len(res.warns), "series": len(res.out)})
					if fp, what := vfc06Check(c, res); fp != "" {
						w := c.witness()
						w["error"] = fmt.Sprint(res.err)
						w["warnings"] = res.warns
						w["response"] = vfc03FmtOut(res.out)
						w["observed_failed"] = res.observed
						r.Violation(ci, fp, what+" ["+c.key()+"]", w)
					}
				})
			}
		}()
	}
	for ci := range cases {
		if r.Want(ci) {
			idx <- ci
		}
	}
	close(idx)
	wg.Wait()

	// directed real-time scenarios: run after the enumeration (quiet process), all at once (they mostly sleep);
	// a scenario outside the timing bracket is repeated, at most 3 attempts
	stalls := vfc06StallList()
	var swg sync.WaitGroup
	for j, sc := range stalls {
		ci := len(cases) + j
		if !r.Want(ci) {
			continue
		}
		swg.Add(1)
		go func(sc vfc06Stall) {
			defer swg.Done()
			r.Guard(ci, "proxy-series-stalled-merge", sc.key(), func() {
				var fp, what string
				var discarded bool
				var w map[string]any
				for attempt := 0; attempt < 3; attempt++ {
					if fp, what, discarded, w = vfc06RunStall(sc); !discarded {
						break
					}
					r.Count("stalled_merge_attempts_outside_timing_bracket", 1)
				}
				if discarded {
					r.Count("stalled_merge_scenarios_discarded_machine_too_slow", 1)
					return
				}
				r.Eval(1)
				r.Distinct(sc.key())
				r.Count("stalled_merge_scenarios_judged", 1)
				if fp != "" {
					r.Violation(ci, fp, what+" ["+sc.key()+"]", w)
				}
			})
		}(sc)
	}
	swg.Wait()
	if !r.Replaying() && r.Counter("stalled_merge_scenarios_judged") < int64(len(stalls))/2 {
		r.Inconclusive(fmt.Sprintf("only %d of %d stalled-merge scenarios could be judged (machine too slow for the timing bracket)", r.Counter("stalled_merge_scenarios_judged"), len(stalls)))
	}
}
