//go:build verif

package store

import (
	"context"
	"fmt"
	"math"
	"math/rand"
	"sort"
	"strings"
	"sync"
	"testing"
	"time"

	"github.com/prometheus/prometheus/model/labels"

	"github.com/thanos-io/thanos/pkg/component"
	"github.com/thanos-io/thanos/pkg/store/storepb"
	"github.com/thanos-io/thanos/pkg/verifhook/vfkit"
)

type vfc06Fault struct {
	Kind  int // vfc03Fault*
	After int
}

func (f vfc06Fault) String() string {
	switch f.Kind {
	case vfc03FaultOpen:
		return "open"
	case vfc03FaultRecv:
		return fmt.Sprintf("recv@%d", f.After)
	case vfc03FaultBlock:
		return fmt.Sprintf("block@%d", f.After)
	}
	return "ok"
}

func vfc06KindName(k int) string {
	return map[int]string{vfc03FaultOpen: "open", vfc03FaultRecv: "recv", vfc03FaultBlock: "timeout"}[k]
}

type vfc06Case struct {
	Layout   [][]vfc03Frame // per store
	Faults   []vfc06Fault   // per store
	Strategy string         // abort | warn | disabled
	Retr     RetrievalStrategy
	Buf      int
	Timeout  time.Duration
	Delays   bool
	LayoutID string
}

func (c *vfc06Case) key() string {
	var fs []string
	for _, f := range c.Faults {
		fs = append(fs, f.String())
	}
	var ns []string
	for _, l := range c.Layout {
		ns = append(ns, fmt.Sprint(len(l)))
	}
	return fmt.Sprintf("layout=%s frames=%s faults=%s strategy=%s retrieval=%s buf=%d timeout=%s delays=%v", c.LayoutID, strings.Join(ns, ","), strings.Join(fs, ","), c.Strategy, c.Retr, c.Buf, c.Timeout, c.Delays)
}

func (c *vfc06Case) witness() map[string]any {
	w := map[string]any{"case": c.key()}
	var sts []any
	for i, l := range c.Layout {
		sts = append(sts, map[string]any{"name": fmt.Sprintf("vfstore-%d", i), "fault": c.Faults[i].String(), "frames": vfc03FmtFrames(l)})
	}
	w["stores"] = sts
	return w
}

// vfc06FixedLayout: store i streams n[i] single-series frames; label sets overlap between stores,
// every store has its own chunk variant plus one chunk all stores share.
func vfc06FixedLayout(n []int) [][]vfc03Frame {
	picks := [][]int{{1, 3, 5, 6}, {1, 2, 4, 6}, {2, 3, 4, 5}, {1, 4, 5, 6}}
	var out [][]vfc03Frame
	for i, k := range n {
		var fr []vfc03Frame
		for j := 0; j < k; j++ {
			ls := labels.FromStrings("a", fmt.Sprint(picks[i%len(picks)][j]))
			fr = append(fr, vfc03Frame{Series: []vfc03Series{{Lset: ls, Chunks: []vfc03Chunk{
				{Min: 0, Max: 99, Variant: 0},
				{Min: 100, Max: 199, Variant: 1 + i},
			}}}})
		}
		out = append(out, fr)
	}
	return out
}

func vfc06RandLayout(rng *rand.Rand, stores int) [][]vfc03Frame {
	var out [][]vfc03Frame
	for i := 0; i < stores; i++ {
		k := rng.Intn(5)
		vals := vfkit.Perm(rng, []int{1, 2, 3, 4, 5, 6, 7})[:k]
		sort.Ints(vals)
		var fr []vfc03Frame
		for _, v := range vals {
			s := vfc03Series{Lset: labels.FromStrings("a", fmt.Sprint(v)), Chunks: []vfc03Chunk{{Min: 0, Max: 99}, {Min: 100, Max: 199, Variant: 1 + i}}}
			if rng.Intn(3) == 0 { // split the series over two frames
				fr = append(fr, vfc03Frame{Series: []vfc03Series{{Lset: s.Lset, Chunks: s.Chunks[:1]}}})
				s.Chunks = s.Chunks[1:]
			}
			fr = append(fr, vfc03Frame{Series: []vfc03Series{s}})
		}
		if len(fr) > 4 {
			fr = fr[:4]
		}
		out = append(out, fr)
	}
	return out
}

// vfc06Points lists the failure points of one store streaming n frames.
func vfc06Points(n int, reduced bool) []vfc06Fault {
	if reduced {
		ps := []vfc06Fault{{vfc03FaultOpen, 0}, {vfc03FaultRecv, 0}, {vfc03FaultBlock, 0}}
		if n >= 1 {
			ps = append(ps, vfc06Fault{vfc03FaultRecv, n})
		}
		if n >= 2 {
			ps = append(ps, vfc06Fault{vfc03FaultRecv, n / 2})
		}
		return ps
	}
	ps := []vfc06Fault{{vfc03FaultOpen, 0}}
	for k := 0; k <= n; k++ {
		ps = append(ps, vfc06Fault{vfc03FaultRecv, k}, vfc06Fault{vfc03FaultBlock, k})
	}
	return ps
}

// vfc06FaultVectors: every non-empty subset of stores failing; the full list of failure points when
// exactly one store fails, the reduced list (open, recv@0, recv@mid, recv@n, block@0) per store otherwise.
func vfc06FaultVectors(layout [][]vfc03Frame) [][]vfc06Fault {
	s := len(layout)
	var out [][]vfc06Fault
	for mask := 1; mask < 1<<s; mask++ {
		var failing []int
		for i := 0; i < s; i++ {
			if mask&(1<<i) != 0 {
				failing = append(failing, i)
			}
		}
		var choices [][]vfc06Fault
		for _, i := range failing {
			choices = append(choices, vfc06Points(len(layout[i]), len(failing) > 1))
		}
		idx := make([]int, len(failing))
		for {
			v := make([]vfc06Fault, s)
			for j, i := range failing {
				v[i] = choices[j][idx[j]]
			}
			out = append(out, v)
			j := 0
			for ; j < len(idx); j++ {
				idx[j]++
				if idx[j] < len(choices[j]) {
					break
				}
				idx[j] = 0
			}
			if j == len(idx) {
				break
			}
		}
	}
	return out
}

func vfc06Expand(id string, layout [][]vfc03Frame, vectors [][]vfc06Fault, delays bool) []*vfc06Case {
	var out []*vfc06Case
	for _, v := range vectors {
		block := false
		for _, f := range v {
			if f.Kind == vfc03FaultBlock {
				block = true
			}
		}
		timeouts := []time.Duration{0, 5 * time.Second}
		if block {
			timeouts = []time.Duration{30 * time.Millisecond}
		}
		for _, strat := range []string{"abort", "warn", "disabled"} {
			for _, rc := range []struct {
				r RetrievalStrategy
				b int
			}{{EagerRetrieval, 0}, {LazyRetrieval, 1}, {LazyRetrieval, 20}} {
				for _, to := range timeouts {
					out = append(out, &vfc06Case{Layout: layout, Faults: v, Strategy: strat, Retr: rc.r, Buf: rc.b, Timeout: to, Delays: delays, LayoutID: id})
				}
			}
		}
	}
	return out
}

type vfc06Result struct {
	err      error
	out      []vfc03Out
	warns    []string
	observed []bool // store i ended a stream (or its open) with an error
	queried  []bool
	hung     bool
}

func vfc06Run(c *vfc06Case, seed int64) vfc06Result {
	var clients []Client
	var fakes []*vfc03Client
	for i, l := range c.Layout {
		l := l
		f := &vfc03Client{
			Name: fmt.Sprintf("vfstore-%d", i), Idx: i, MinT: math.MinInt64, MaxT: math.MaxInt64, WithoutRepl: true, Sharding: true,
			Frames:    func(*storepb.SeriesRequest) []vfc03Frame { return l },
			FaultKind: c.Faults[i].Kind, FaultAfter: c.Faults[i].After,
		}
		if c.Delays {
			f.DelaySeed = seed + int64(i)*7919 + 1
		}
		fakes = append(fakes, f)
		clients = append(clients, f)
	}
	p := NewProxyStore(nil, nil, func() []Client { return clients }, component.Query, labels.EmptyLabels(), c.Timeout, c.Retr,
		WithLazyRetrievalMaxBufferedResponsesForProxy(c.Buf))
	req := &storepb.SeriesRequest{
		MinTime: 0, MaxTime: math.MaxInt64,
		Matchers: []storepb.LabelMatcher{{Type: storepb.LabelMatcher_RE, Name: "a", Value: ".+"}},
	}
	switch c.Strategy {
	case "abort":
		req.PartialResponseStrategy = storepb.PartialResponseStrategy_ABORT
	case "warn":
		req.PartialResponseStrategy = storepb.PartialResponseStrategy_WARN
	case "disabled":
		req.PartialResponseStrategy = storepb.PartialResponseStrategy_WARN
		req.PartialResponseDisabled = true
	}
	srv := vfc03NewServer(context.Background())
	done := make(chan error, 1)
	go func() { done <- p.Series(req, srv) }()
	var res vfc06Result
	select {
	case res.err = <-done:
	case <-time.After(120 * time.Second):
		res.hung = true
		return res
	}
	res.out, res.warns = srv.flat()
	for _, f := range fakes {
		res.observed = append(res.observed, f.failures.Load() > 0)
		res.queried = append(res.queried, f.calls.Load() > 0)
	}
	return res
}

// vfc06Check asserts exactly the statement of C06 on one observed execution.
func vfc06Check(c *vfc06Case, res vfc06Result) (fp, what string) {
	kinds := map[string]bool{}
	anyFailed := false
	for i, failed := range res.observed {
		if failed {
			anyFailed = true
			kinds[vfc06KindName(c.Faults[i].Kind)] = true
		}
	}
	var ks []string
	for k := range kinds {
		ks = append(ks, k)
	}
	sort.Strings(ks)
	class := fmt.Sprintf("fault=%s retrieval=%s", strings.Join(ks, "+"), c.Retr)
	if !anyFailed {
		return "", ""
	}
	if c.Strategy == "abort" || c.Strategy == "disabled" {
		if res.err == nil {
			return c.Strategy + ":request-succeeded " + class, "a queried store failed but Series returned nil"
		}
		return "", ""
	}
	// warn
	if res.err != nil {
		return "warn:request-failed " + class, "Series returned " + res.err.Error()
	}
	for i, failed := range res.observed {
		name := fmt.Sprintf("vfstore-%d", i)
		if failed {
			found := false
			for _, w := range res.warns {
				if strings.Contains(w, name) {
					found = true
				}
			}
			if !found {
				return fmt.Sprintf("warn:no-warning-for-failed-store fault=%s retrieval=%s", vfc06KindName(c.Faults[i].Kind), c.Retr),
					fmt.Sprintf("store %s failed (%s) but none of the %d warnings names it: %v", name, c.Faults[i], len(res.warns), res.warns)
			}
			continue
		}
		// healthy store: every series and chunk it sent must be in the response
		got := map[string]map[string]bool{}
		for _, o := range res.out {
			m := got[o.Lset.String()]
			if m == nil {
				m = map[string]bool{}
				got[o.Lset.String()] = m
			}
			for _, ch := range o.Chunks {
				m[vfc03ChunkKey(ch)] = true
			}
		}
		for _, f := range c.Layout[i] {
			for _, s := range f.Series {
				m, ok := got[s.Lset.String()]
				if !ok {
					return "warn:healthy-series-missing " + class, fmt.Sprintf("series %s of healthy store %s is not in the response", s.Lset, name)
				}
				for _, ch := range s.Chunks {
					if !m[vfc03ChunkKey(vfc03Build(ch))] {
						return "warn:healthy-chunk-missing " + class, fmt.Sprintf("chunk %s of series %s of healthy store %s is not in the response", ch, s.Lset, name)
					}
				}
			}
		}
	}
	return "", ""
}

func TestVF_C06(t *testing.T) {
	r := vfkit.Start(t, "C06")
	defer r.Finish()
	r.Rule("enumeration: 1..3 stores (thorough: plus 4 stores and 100 seeded random layouts with PRNG delays) streaming <=4 single-series frames with overlapping label sets; every non-empty subset of stores failing; " +
		"failure point in {Series() open error, Recv error after k=0..n frames, Recv blocks after k=0..n frames until the 30ms frame timeout cancels the stream} (all points when one store fails, " +
		"{open, recv@0, recv@mid, recv@n, block@0} per store when several fail) x strategy {ABORT, WARN, PartialResponseDisabled} x {eager, lazy buf 1, lazy buf 20} x frame timer {off, 5s} ; " +
		"oracle on the error/warnings/series returned by the real ProxyStore.Series: abort/disabled => error; warn => nil error, >=1 warning naming every store observed to fail, every series+chunk of every store not observed to fail; " +
		"distinct = the case tuple; non-trivial = the fake store actually returned the injected error")
	r.Assume("a store 'fails' iff the fake client returned a non-EOF error from Series() or Recv (observed, not planned); healthy fakes never fail, they ignore the stream context")
	r.Assume("warnings are attributed to a store by the store name (Client.String()) the proxy embeds in the warning text")

	var cases []*vfc06Case
	for _, n := range [][]int{{3}, {2, 3}, {2, 3, 2}} {
		l := vfc06FixedLayout(n)
		cases = append(cases, vfc06Expand("fixed", l, vfc06FaultVectors(l), false)...)
	}
	if r.Thorough() {
		l := vfc06FixedLayout([]int{2, 3, 2, 1})
		cases = append(cases, vfc06Expand("fixed", l, vfc06FaultVectors(l), false)...)
		for k := 0; k < 100; k++ {
			rng := r.RandS("layout", k)
			l := vfc06RandLayout(rng, 1+rng.Intn(3))
			cases = append(cases, vfc06Expand(fmt.Sprintf("rand%d", k), l, vfc06FaultVectors(l), true)...)
		}
	}
	r.Extra("enumerated_cases", len(cases))
	r.Require(int64(len(cases)), len(cases)*9/10)
	r.Exhaustive(true)

	var wg sync.WaitGroup
	idx := make(chan int)
	var hungOnce sync.Once
	for w := 0; w < 8; w++ {
		wg.Add(1)
		go func() {
			defer wg.Done()
			for ci := range idx {
				c := cases[ci]
				r.Guard(ci, "proxy-series", c.witness(), func() {
					res := vfc06Run(c, r.Seed()*1_000_003+int64(ci))
					if res.hung {
						hungOnce.Do(func() {
							r.Inconclusive(fmt.Sprintf("case %d (%s): ProxyStore.Series did not return within 120s", ci, c.key()))
						})
						return
					}
					r.Eval(1)
					injected := false
					for _, o := range res.observed {
						injected = injected || o
					}
					if injected {
						r.Distinct(c.key())
					}
					r.Count("strategy_"+c.Strategy, 1)
					r.Sample(map[string]any{"case": c.key(), "error": fmt.Sprint(res.err), "warnings": len(res.warns), "series": len(res.out)})
					if fp, what := vfc06Check(c, res); fp != "" {
						w := c.witness()
						w["error"] = fmt.Sprint(res.err)
						w["warnings"] = res.warns
						w["response"] = vfc03FmtOut(res.out)
						w["observed_failed"] = res.observed
						r.Violation(ci, fp, what+" ["+c.key()+"]", w)
					}
				})
			}
		}()
	}
	for ci := range cases {
		if r.Want(ci) {
			idx <- ci
		}
	}
	close(idx)
	wg.Wait()
}
