//go:build verif

package store

// C07 — label name/value APIs cover every label seen by Series (self-differential, per store).

import (
	"context"
	"fmt"
	"math/rand"
	"os"
	"path/filepath"
	"sort"
	"testing"
	"time"

	"github.com/prometheus/prometheus/model/labels"
	"go.uber.org/atomic"

	"github.com/thanos-io/thanos/pkg/component"
	"github.com/thanos-io/thanos/pkg/store/storepb"
	storetestutil "github.com/thanos-io/thanos/pkg/store/storepb/testutil"
	"github.com/thanos-io/thanos/pkg/verifhook/vfkit"
)

type vfc07Store struct {
	kind     string // tsdb | bucket | proxy
	srv      storepb.StoreServer
	extNames map[string]struct{} // names of external labels of this store (union over blocks / members)
}

func vfc07ExtNames(sets ...labels.Labels) map[string]struct{} {
	out := map[string]struct{}{}
	for _, s := range sets {
		s.Range(func(l labels.Label) { out[l.Name] = struct{}{} })
	}
	return out
}

func vfc07NameKind(st vfc07Store, u *vfc07Universe, name string) string {
	_, ext := st.extNames[name]
	stored := false
	for _, n := range u.names {
		if n == name {
			stored = true
		}
	}
	switch {
	case ext && stored:
		return "colliding"
	case ext:
		return "external"
	default:
		return "stored"
	}
}

func TestVF_C07(t *testing.T) {
	r := vfkit.Start(t, "C07")
	defer r.Finish()
	r.Rule("case = one generated fixture (1..3 real TSDB blocks with sparse labels, stored labels colliding with external label names, optionally one block labelled 5m resolution; " +
		"a real tsdb.DB over the same block dirs plus head series; BucketStore (lazy postings on/off), TSDBStore whose external labels are replaced twice per fixture with SetExtLset (name added / removed, value changed), a twin TSDBStore that differs only in the replica external label and holds other series, and a ProxyStore over the three) x selector sessions (one selector set and replica list issued with 1..4 ranges: single, narrow-then-wide, wide-then-narrow, disjoint windows, growing, free) " +
		"(1..3 matchers of 20 shapes incl. on external/absent names, or no selector at all; ranges around block/chunk edges; replica-label lists over external/stored/absent names). " +
		"oracle: for the same selectors, range and replica list, names(Series) is a subset of LabelNames and for each label L seen values_L(Series) is a subset of LabelValues(L). " +
		"evaluation = one subset check; distinct/non-trivial = (fixture, store, request) whose Series call returned at least one series")
	nFix := r.N(10, 110)
	nReq := r.N(30, 70)
	r.Require(int64(nFix*nReq*3), nFix*nReq/2)
	r.Assume("an empty selector list selects every series; the Series API cannot express it, so selector-less label calls are compared with a Series call using one {name=~\".*\"} matcher (matches every series)")
	r.Assume("external label values are non-empty; request ranges have mint <= maxt")
	base := t.TempDir()
	vfc07Parallel(r, nFix, 4, func(c int) {
		vfc07Guard(r, c, "c07-fixture", func() { vfc07RunFixture(t, r, c, r.Rand(c), nReq, filepath.Join(base, fmt.Sprintf("case%d", c))) })
	})
}

func vfc07RunFixture(t *testing.T, r *vfkit.Run, c int, rng *rand.Rand, nReq int, dir string) {
	defer func() { _ = os.RemoveAll(dir) }()
	t0 := time.Now()
	fx := vfc07NewFixture(t, rng, dir, vfc07Opts{maxBlocks: 3, maxSeries: 120, slots: 30, hist: true, downsampled: true})
	t1 := time.Now()
	db := vfc07OpenDB(t, rng, fx, rng.Intn(20), 12)
	defer func() { _ = db.Close() }()
	var tsdbExt labels.Labels
	if rng.Intn(5) != 0 {
		tsdbExt = fx.u.extSets[rng.Intn(len(fx.u.extSets))]
	} else {
		tsdbExt = labels.EmptyLabels()
	}
	ts := NewTSDBStore(nil, db, component.Receive, tsdbExt)
	defer ts.Close()
	bs := vfc07NewBucketStore(t, fx, vfc07StoreCfg{
		cache:     []string{"large", "large", "tiny", "none"}[rng.Intn(4)],
		sampling:  []int{1, 2, 32}[rng.Intn(3)],
		estSeries: []uint64{0, 8, 16, 64}[rng.Intn(4)],
		hints:     rng.Intn(2) == 0,
	})
	defer func() { _ = bs.Close() }()
	lazy := rng.Intn(3) != 0
	bs.enabledLazyExpandedPostings = lazy
	bs.seriesMatchRatio = []float64{0.9, 0.99}[rng.Intn(2)]
	if rng.Intn(2) == 0 {
		bs.postingGroupMaxKeySeriesRatio = 0.2
	}

	var blockExts []labels.Labels
	seenExt := map[string]bool{}
	for _, b := range fx.blocks {
		if !seenExt[b.ext.String()] {
			seenExt[b.ext.String()] = true
			blockExts = append(blockExts, b.ext)
		}
	}
	bmin, bmax := bs.TimeRange()
	tmin, tmax := ts.TimeRange()
	var tsdbSets []labels.Labels
	if !tsdbExt.IsEmpty() {
		tsdbSets = []labels.Labels{tsdbExt}
	}
	repl := rng.Intn(4) != 0
	clients := []Client{
		storetestutil.TestClient{Name: "tsdb", StoreClient: storepb.ServerAsClient(vfc07OwnReq{ts}, atomic.Bool{}), ExtLset: tsdbSets, MinTime: tmin, MaxTime: tmax, WithoutReplicaLabelsEnabled: repl},
		storetestutil.TestClient{Name: "bucket", StoreClient: storepb.ServerAsClient(vfc07OwnReq{bs}, atomic.Bool{}), ExtLset: blockExts, MinTime: bmin, MaxTime: bmax, WithoutReplicaLabelsEnabled: repl},
	}
	// a twin of the TSDB member: same external labels except the replica label, other series (a second
	// receive replica / diverged HA peer); all its series carry the label twin="b"
	twinExt := func(e labels.Labels) labels.Labels {
		v := "r1"
		if e.Get("replica") == "r1" {
			v = "r2"
		}
		return labels.NewBuilder(e).Set("replica", v).Labels()
	}
	db2 := vfc07OpenHeadDB(filepath.Join(dir, "twin"), rng, fx.u, 3+rng.Intn(10), fx.tmin-fx.tmin%vfc07Step, 20, labels.Label{Name: "twin", Value: "b"})
	defer func() { _ = db2.Close() }()
	ts2 := NewTSDBStore(nil, db2, component.Receive, twinExt(tsdbExt))
	defer ts2.Close()
	t2min, t2max := ts2.TimeRange()
	twinClient := func() Client {
		return storetestutil.TestClient{Name: "tsdb-twin", StoreClient: storepb.ServerAsClient(vfc07OwnReq{ts2}, atomic.Bool{}), ExtLset: []labels.Labels{twinExt(tsdbExt)}, MinTime: t2min, MaxTime: t2max, WithoutReplicaLabelsEnabled: repl}
	}
	clients = append(clients, twinClient())
	strategy := []RetrievalStrategy{EagerRetrieval, LazyRetrieval}[rng.Intn(2)]
	px := NewProxyStore(nil, nil, func() []Client { return clients }, component.Query, labels.EmptyLabels(), 0*time.Second, strategy)

	stores := []vfc07Store{
		{kind: "tsdb", srv: ts, extNames: vfc07ExtNames(tsdbExt)},
		{kind: "bucket", srv: bs, extNames: vfc07ExtNames(blockExts...)},
		{kind: "proxy", srv: px, extNames: vfc07ExtNames(append(append([]labels.Labels{}, blockExts...), tsdbExt, twinExt(tsdbExt))...)},
	}
	r.Sample(map[string]any{"case": c, "blocks": vfc07DescribeFixture(fx), "tsdb_ext": tsdbExt.String(), "stored_names": fx.u.names, "lazy_postings": lazy, "proxy_strategy": string(strategy)})

	t2 := time.Now()
	defer func() {
		r.Count("wall_ms_fixture", int(t1.Sub(t0)/time.Millisecond))
		r.Count("wall_ms_stores", int(t2.Sub(t1)/time.Millisecond))
		r.Count("wall_ms_requests", int(time.Since(t2)/time.Millisecond))
	}()
	reconfigs := 0
	for q := 0; q < nReq; {
		if reconfigs < 2 && q >= (reconfigs+1)*nReq/3 {
			reconfigs++
			// reconfiguration history on the one TSDBStore: its external labels are replaced at run time
			// (added / removed name, changed value); all three APIs must speak about the current set
			tsdbExt = vfc07NextExtSet(rng, tsdbExt)
			ts.SetExtLset(tsdbExt)
			clients[0] = storetestutil.TestClient{Name: "tsdb", StoreClient: storepb.ServerAsClient(vfc07OwnReq{ts}, atomic.Bool{}), ExtLset: []labels.Labels{tsdbExt}, MinTime: tmin, MaxTime: tmax, WithoutReplicaLabelsEnabled: repl}
			ts2.SetExtLset(twinExt(tsdbExt))
			clients[2] = twinClient()
			stores[0].extNames = vfc07ExtNames(tsdbExt)
			stores[2].extNames = vfc07ExtNames(append(append([]labels.Labels{}, blockExts...), tsdbExt, twinExt(tsdbExt))...)
			r.Count("tsdb_external_label_reconfigurations", 1)
		}
		// a selector session: one selector set / replica list, a sequence of ranges (narrow then wide, wide
		// then narrow, disjoint, ...), so that index-cache entries written under one range are read under another
		var ms []vfc07M
		if rng.Intn(4) == 0 {
			ms = vfc07GenMatchersPositive(rng, fx.u)
		} else {
			ms = vfc07GenMatchers(rng, fx.u, 0.12)
		}
		replica := vfc07GenReplicaLabels(rng, fx.u)
		if len(replica) > 0 && rng.Intn(3) == 0 {
			has := false
			for _, n := range replica {
				has = has || n == "replica"
			}
			if !has {
				replica = append(replica, "replica")
			}
		}
		selectorless := rng.Intn(6) == 0
		skip := rng.Intn(3) == 0
		var res int64
		if rng.Intn(3) == 0 {
			res = []int64{5 * 60 * 1000, 60 * 60 * 1000}[rng.Intn(2)]
		}
		seriesMs := vfc07Proto(ms)
		labelMs := seriesMs
		if selectorless {
			all := fx.u.names[rng.Intn(len(fx.u.names))]
			seriesMs = []storepb.LabelMatcher{{Type: storepb.LabelMatcher_RE, Name: all, Value: ".*"}}
			labelMs = nil
		}
		pattern, ranges := vfc07SessionRanges(rng, fx)
		r.Count("selector_sessions_"+pattern, 1)
		for _, rg := range ranges {
			if q >= nReq {
				break
			}
			for _, st := range stores {
				if st.kind == "proxy" && q%2 == 1 {
					continue // the proxy repeats the work of its members; drive it on every second request
				}
				vfc07CheckRequest(r, c, rng, fx, st, seriesMs, labelMs, rg[0], rg[1], replica, skip, res, selectorless, !selectorless && vfc07Class(ms) == vfc07DupSetClass)
			}
			q++
		}
	}
}

func vfc07CheckRequest(r *vfkit.Run, c int, rng *rand.Rand, fx *vfc07Fixture, st vfc07Store, seriesMs, labelMs []storepb.LabelMatcher,
	mint, maxt int64, replica []string, skip bool, res int64, selectorless, dupSet bool) {
	req := &storepb.SeriesRequest{MinTime: mint, MaxTime: maxt, Matchers: seriesMs, WithoutReplicaLabels: replica, SkipChunks: skip, MaxResolutionWindow: res,
		Aggregates: []storepb.Aggr{storepb.Aggr_COUNT, storepb.Aggr_SUM, storepb.Aggr_MIN, storepb.Aggr_MAX, storepb.Aggr_COUNTER}}
	srv, err, timedOut := vfc07Call(st.srv, req)
	if timedOut {
		r.Inconclusive("a Series call exceeded the 3 minute deadline")
		return
	}
	if err != nil {
		r.Count("series_call_errors", 1)
		return
	}
	names := map[string]struct{}{}
	vals := map[string]map[string]struct{}{}
	example := map[string]string{} // name/value -> a series carrying it
	for _, f := range srv.frames {
		for _, l := range f.Labels {
			names[l.Name] = struct{}{}
			if vals[l.Name] == nil {
				vals[l.Name] = map[string]struct{}{}
			}
			vals[l.Name][l.Value] = struct{}{}
			if _, ok := example[l.Name+"\x00"+l.Value]; !ok {
				example[l.Name+"\x00"+l.Value] = vfc07Lset(f.Labels).String()
			}
			if _, ok := example[l.Name]; !ok {
				example[l.Name] = vfc07Lset(f.Labels).String()
			}
		}
	}
	sel := "with"
	if selectorless {
		sel = "none"
	} else if dupSet {
		sel = vfc07DupSetClass
	}
	witness := func(extra map[string]any) map[string]any {
		m := map[string]any{"case": c, "store": st.kind, "series_matchers": fmt.Sprint(seriesMs), "label_matchers": fmt.Sprint(labelMs), "mint": mint, "maxt": maxt,
			"without_replica_labels": replica, "skip_chunks": skip, "max_resolution_window": res, "series_returned": len(srv.frames), "blocks": vfc07DescribeFixture(fx)}
		for k, v := range extra {
			m[k] = v
		}
		return m
	}
	if len(srv.frames) > 0 {
		r.Distinct(fmt.Sprintf("%d|%s|%v|%d|%d|%v|%v", c, st.kind, seriesMs, mint, maxt, replica, selectorless))
		r.Count("nontrivial_"+st.kind, 1)
	}

	ctx, cancel := context.WithTimeout(context.Background(), 3*time.Minute)
	defer cancel()
	ln, err := st.srv.LabelNames(ctx, &storepb.LabelNamesRequest{Start: mint, End: maxt, Matchers: labelMs, WithoutReplicaLabels: replica})
	r.Eval(1)
	if err != nil {
		r.Count("labelnames_call_errors", 1)
		if len(names) > 0 {
			r.Count("labelnames_error_while_series_nonempty", 1)
		}
	} else {
		got := map[string]struct{}{}
		for _, n := range ln.Names {
			got[n] = struct{}{}
		}
		for _, n := range vfc07SortedKeys(names) {
			if _, ok := got[n]; !ok {
				r.Violation(c, fmt.Sprintf("missing-label-name:store=%s:label=%s:selectors=%s", st.kind, vfc07NameKind(st, fx.u, n), sel),
					fmt.Sprintf("%s store: label name %q is on series %s returned by Series but absent from LabelNames %v for the same selectors/range/replica labels", st.kind, n, example[n], ln.Names),
					witness(map[string]any{"missing_name": n, "label_names": ln.Names, "series_with_name": example[n]}))
				break
			}
		}
	}
	// label values for (a bounded number of) the labels seen
	seen := vfc07SortedKeys(names)
	rng.Shuffle(len(seen), func(i, j int) { seen[i], seen[j] = seen[j], seen[i] })
	if len(seen) > 3 {
		seen = seen[:3]
	}
	sort.Strings(seen)
	for _, n := range seen {
		lv, err := st.srv.LabelValues(ctx, &storepb.LabelValuesRequest{Label: n, Start: mint, End: maxt, Matchers: labelMs, WithoutReplicaLabels: replica})
		r.Eval(1)
		if err != nil {
			r.Count("labelvalues_call_errors", 1)
			continue
		}
		got := map[string]struct{}{}
		for _, v := range lv.Values {
			got[v] = struct{}{}
		}
		for _, v := range vfc07SortedKeys(vals[n]) {
			if _, ok := got[v]; !ok {
				shown := lv.Values
				if len(shown) > 20 {
					shown = shown[:20]
				}
				r.Violation(c, fmt.Sprintf("missing-label-value:store=%s:label=%s:selectors=%s", st.kind, vfc07NameKind(st, fx.u, n), sel),
					fmt.Sprintf("%s store: value %q of label %q is on series %s returned by Series but absent from LabelValues(%s)=%v for the same selectors/range/replica labels", st.kind, v, n, example[n+"\x00"+v], n, shown),
					witness(map[string]any{"label": n, "missing_value": v, "label_values": shown, "series_with_value": example[n+"\x00"+v]}))
				break
			}
		}
	}
	if ctx.Err() != nil {
		r.Inconclusive("a label call exceeded the 3 minute deadline")
	}
}
