//go:build verif

package store

// C12: any sorted list of series references encoded with any of the cache codecs decodes to the same
// list, and seeking in the decoded list behaves as seeking in the original.
//
// The real encoders/decoders of postings_codec.go are run; the reference is index.NewListPostings over
// the generated list. Traces stop at the first false (index.Postings must not be used after that).

import (
	"fmt"
	"hash/fnv"
	"math/rand"
	"testing"

	"github.com/prometheus/prometheus/storage"
	"github.com/prometheus/prometheus/tsdb/index"

	"github.com/thanos-io/thanos/pkg/verifhook/vfkit"
)

type vfc12Codec struct {
	name   string
	encode func(list []storage.SeriesRef, lengthHint int) ([]byte, error)
	// decode returns the iterator and how it was obtained
	decode func(enc []byte, pooled bool) (closeablePostings, error)
}

var vfc12Codecs = []vfc12Codec{
	{
		name: "dvs(diffVarintSnappyEncode)",
		encode: func(l []storage.SeriesRef, n int) ([]byte, error) {
			return diffVarintSnappyEncode(index.NewListPostings(l), n)
		},
		decode: func(enc []byte, pooled bool) (closeablePostings, error) {
			if pooled {
				return decodePostings(enc)
			}
			return diffVarintSnappyDecode(enc, true)
		},
	},
	{
		name: "dss(diffVarintSnappyStreamedEncode)",
		encode: func(l []storage.SeriesRef, n int) ([]byte, error) {
			return diffVarintSnappyStreamedEncode(index.NewListPostings(l), n)
		},
		decode: func(enc []byte, pooled bool) (closeablePostings, error) {
			if pooled {
				return decodePostings(enc)
			}
			return diffVarintSnappyStreamedDecode(enc, true)
		},
	},
	{
		name: "dss(diffVarintEncodeNoHeader+snappyStreamedEncode)",
		encode: func(l []storage.SeriesRef, n int) ([]byte, error) {
			raw, err := diffVarintEncodeNoHeader(index.NewListPostings(l), n)
			if err != nil {
				return nil, err
			}
			return snappyStreamedEncode(n, raw)
		},
		decode: func(enc []byte, pooled bool) (closeablePostings, error) {
			if pooled {
				return decodePostings(enc)
			}
			return diffVarintSnappyStreamedDecode(enc, true)
		},
	},
	{
		name: "raw(diffVarintEncodeNoHeader+newDiffVarintPostings)",
		encode: func(l []storage.SeriesRef, n int) ([]byte, error) {
			return diffVarintEncodeNoHeader(index.NewListPostings(l), n)
		},
		decode: func(enc []byte, _ bool) (closeablePostings, error) {
			return newDiffVarintPostings(enc, nil), nil
		},
	},
}

// vfc12GenList generates a strictly increasing list. class names the shape.
func vfc12GenList(rng *rand.Rand, thorough bool) ([]storage.SeriesRef, string) {
	k := rng.Intn(100)
	var n int
	size := "small"
	switch {
	case k < 4:
		n = 0
	case k < 10:
		n = 1
	case k < 70:
		n = 2 + rng.Intn(200)
	case k < 96:
		n = 200 + rng.Intn(5000)
		size = "medium"
	case k < 99 || !thorough:
		n = 14000 + rng.Intn(60000) // several 64 KiB encoder chunks with multi-byte gaps
		size = "long"
	default:
		n = 100000 + rng.Intn(200000)
		size = "huge"
	}
	gap := vfkit.Pick(rng, []string{"dense", "x16", "small-random", "two-byte", "five-byte", "mixed", "sparse-2^40", "constant-large", "sparse-2^56"})
	if n > 20000 && (gap == "sparse-2^56") {
		gap = "five-byte"
	}
	if size == "long" || size == "huge" {
		// multi-byte varints so that chunk boundaries are crossed and varints straddle them
		gap = vfkit.Pick(rng, []string{"two-byte", "five-byte", "mixed", "sparse-2^40", "constant-large", "dense", "x16"})
	}
	out := make([]storage.SeriesRef, 0, n)
	cur := uint64(0)
	switch rng.Intn(4) {
	case 0:
		cur = 0
	case 1:
		cur = uint64(rng.Intn(1000))
	default:
		cur = uint64(rng.Int63n(1 << 32))
	}
	constant := uint64(1<<20 + rng.Intn(1<<20))
	for i := 0; i < n; i++ {
		if i > 0 || rng.Intn(2) == 0 {
			var g uint64
			switch gap {
			case "dense":
				g = 1
			case "x16":
				g = 16 * uint64(1+rng.Intn(4))
			case "small-random":
				g = 1 + uint64(rng.Intn(127))
			case "two-byte":
				g = 128 + uint64(rng.Intn(16384-128))
			case "five-byte":
				g = 1<<28 + uint64(rng.Int63n(1<<34))
			case "mixed":
				g = 1 + uint64(rng.Int63n(int64(1)<<uint(1+rng.Intn(40))))
			case "sparse-2^40":
				g = 1 + uint64(rng.Int63n(1<<40))
			case "constant-large":
				g = constant
			case "sparse-2^56":
				g = 1 + uint64(rng.Int63n(1<<56))
			}
			if cur+g < cur { // would wrap around
				break
			}
			cur += g
		}
		out = append(out, storage.SeriesRef(cur))
	}
	// strictly increasing by construction except for a first element equal to the start value
	return out, fmt.Sprintf("%s/%s/n=%d", size, gap, len(out))
}

type vfc12Step struct {
	Seek bool   `json:"seek"`
	X    uint64 `json:"x,omitempty"`
}

// vfc12GenTrace builds a trace of Next/Seek calls; targets are drawn around list elements, below the
// current position, equal to it and beyond the last element.
func vfc12GenTrace(rng *rand.Rand, list []storage.SeriesRef) []vfc12Step {
	n := 1 + rng.Intn(40)
	if len(list) > 5000 {
		n = 5 + rng.Intn(20)
	}
	tr := make([]vfc12Step, 0, n)
	pos := 0 // rough position, to make forward progress likely
	first := true
	for i := 0; i < n; i++ {
		if rng.Intn(3) == 0 {
			tr = append(tr, vfc12Step{})
			pos++
			first = false
			continue
		}
		var x uint64
		switch k := rng.Intn(8); {
		case len(list) == 0:
			x = uint64(rng.Intn(5)) + 1
		case k == 0: // backwards / equal target
			j := pos - 1 - rng.Intn(3)
			if j < 0 {
				j = 0
			}
			if j >= len(list) {
				j = len(list) - 1
			}
			x = uint64(list[j])
		case k == 1: // beyond the end
			x = uint64(list[len(list)-1]) + 1 + uint64(rng.Intn(3))
		case k == 2: // last element
			x = uint64(list[len(list)-1])
		default:
			j := pos + rng.Intn(1+len(list)/4+3)
			if len(list) > 5000 && rng.Intn(2) == 0 {
				j = pos + rng.Intn(len(list))
			}
			if j >= len(list) {
				j = len(list) - 1
			}
			x = uint64(list[j]) + uint64(rng.Intn(3)) - 1
			pos = j
		}
		// Seek(0) before anything else "succeeds" on a fresh ListPostings without positioning it;
		// that corner of the reference is not a specified behaviour, keep away from it.
		if first && x == 0 {
			x = 1
		}
		first = false
		tr = append(tr, vfc12Step{Seek: true, X: x})
	}
	return tr
}

// vfc12RunTrace replays tr on got and on a fresh reference iterator. Returns a description of the first
// difference, or "".
func vfc12RunTrace(list []storage.SeriesRef, got index.Postings, tr []vfc12Step) string {
	ref := index.NewListPostings(list)
	for i, st := range tr {
		var a, b bool
		if st.Seek {
			a, b = ref.Seek(storage.SeriesRef(st.X)), got.Seek(storage.SeriesRef(st.X))
		} else {
			a, b = ref.Next(), got.Next()
		}
		op := "Next()"
		if st.Seek {
			op = fmt.Sprintf("Seek(%d)", st.X)
		}
		if a != b {
			return fmt.Sprintf("step %d %s: original list returns %v, decoded list returns %v (decoded Err: %v)", i, op, a, b, got.Err())
		}
		if !a {
			break
		}
		if ref.At() != got.At() {
			return fmt.Sprintf("step %d %s: original list is at %d, decoded list is at %d", i, op, ref.At(), got.At())
		}
	}
	if err := got.Err(); err != nil {
		return fmt.Sprintf("decoded iterator reports error %v", err)
	}
	return ""
}

func vfc12ListHash(l []storage.SeriesRef) uint64 {
	h := fnv.New64a()
	var b [8]byte
	for _, v := range l {
		for i := 0; i < 8; i++ {
			b[i] = byte(uint64(v) >> (8 * i))
		}
		h.Write(b[:])
	}
	return h.Sum64()
}

func vfc12Head(l []storage.SeriesRef, around int) []uint64 {
	lo, hi := around-5, around+5
	if lo < 0 {
		lo = 0
	}
	if hi > len(l) {
		hi = len(l)
	}
	out := make([]uint64, 0, hi-lo)
	for _, v := range l[lo:hi] {
		out = append(out, uint64(v))
	}
	return out
}

func TestVF_C12(t *testing.T) {
	r := vfkit.Start(t, "C12")
	defer r.Finish()
	r.Rule("case = strictly increasing list of series refs (empty, singleton, 2..200, 200..5200, 14000..74000 entries; thorough also 100000..300000; gaps dense, x16, 1-, 2-, 5-byte varints, mixed, up to 2^40 / 2^56, constant => compressed and uncompressed snappy chunks, varints straddling 64 KiB chunk boundaries) " +
		"x 4 codec paths (dvs; dss via streamed encoder; dss via diffVarintEncodeNoHeader+snappyStreamedEncode; raw diff-varint iterator) x {decodePostings with pooling, explicit decode without pooling} x length hints {exact, 0, wrong}; " +
		"oracle = index.NewListPostings on the original list: full expansion equal, and 3 random Next/Seek traces (targets below/equal/above the position, list elements +-1, beyond the end) give identical results and positions until the first false; two pooled iterators over two different lists are kept open and advanced alternately; " +
		"distinct = hash of list x codec; non-trivial = list not empty")
	r.Assume("traces stop at the first false return (index.Postings contract); At() is not compared before the first successful Next/Seek; Seek(0) is not used as the very first call")
	n := r.N(500, 8000)
	r.Require(int64(n)*8, n)
	for c := 0; c < n; c++ {
		if !r.Want(c) {
			continue
		}
		rng := r.Rand(c)
		list, class := vfc12GenList(rng, r.Thorough())
		hint := len(list)
		switch rng.Intn(4) {
		case 0:
			hint = 0
		case 1:
			hint = rng.Intn(2*len(list) + 2)
		}
		lh := vfc12ListHash(list)
		// second, different list for the two-live-iterators check (small/medium only)
		var list2 []storage.SeriesRef
		var class2 string
		var enc2dvs, enc2dss []byte
		if len(list) > 0 && len(list) <= 6000 {
			r2 := r.RandS("second", c)
			for try := 0; try < 8; try++ {
				list2, class2 = vfc12GenList(r2, false)
				if len(list2) >= 50 && len(list2) <= 6000 {
					break
				}
				list2 = nil
			}
			if list2 != nil {
				var e1, e2 error
				enc2dvs, e1 = diffVarintSnappyEncode(index.NewListPostings(list2), len(list2))
				enc2dss, e2 = diffVarintSnappyStreamedEncode(index.NewListPostings(list2), len(list2))
				if e1 != nil || e2 != nil {
					list2 = nil // reported by the case that has this list as its own
				}
			}
		}
		for _, cd := range vfc12Codecs {
			wit := func(extra map[string]any) map[string]any {
				m := map[string]any{"codec": cd.name, "list_class": class, "length_hint": hint, "list_len": len(list), "list_head": vfc12Head(list, 5), "list_fnv64a": lh,
					"note": "the list is a pure function of (seed, case): replay with bin/vcheck C12 --case N"}
				for k, v := range extra {
					m[k] = v
				}
				return m
			}
			r.Guard(c, "codec:"+cd.name, wit(nil), func() {
				enc, err := cd.encode(list, hint)
				r.Eval(1)
				if err != nil {
					r.Violation(c, "encode-error:"+cd.name, fmt.Sprintf("encoding a sorted list (%s) failed: %v", class, err), wit(nil))
					return
				}
				if len(list) > 0 {
					r.Distinct(fmt.Sprintf("%x|%s", lh, cd.name))
				}
				if cd.name == vfc12Codecs[1].name {
					r.Sample(map[string]any{"list_class": class, "encoded_bytes": len(enc), "codec": cd.name})
				}
				for _, pooled := range []bool{true, false} {
					mode := "unpooled"
					if pooled {
						mode = "pooled"
					}
					// (1) full expansion
					p, err := cd.decode(enc, pooled)
					r.Eval(1)
					if err != nil {
						r.Violation(c, "decode-error:"+cd.name, fmt.Sprintf("decoding (%s, %s) failed: %v", class, mode, err), wit(map[string]any{"mode": mode}))
						return
					}
					i := 0
					bad := ""
					for p.Next() {
						if i >= len(list) {
							bad = fmt.Sprintf("decoded list has more than the %d original entries (extra entry %d)", len(list), p.At())
							break
						}
						if p.At() != list[i] {
							bad = fmt.Sprintf("entry %d is %d, original %d", i, p.At(), list[i])
							break
						}
						i++
					}
					if bad == "" && p.Err() != nil {
						bad = fmt.Sprintf("iterator error after %d entries: %v", i, p.Err())
					}
					if bad == "" && i != len(list) {
						bad = fmt.Sprintf("decoded list ends after %d of %d entries", i, len(list))
					}
					p.close()
					if bad != "" {
						r.Violation(c, "roundtrip-differs:"+cd.name, fmt.Sprintf("%s (%s, %s)", bad, class, mode), wit(map[string]any{"mode": mode, "around": vfc12Head(list, i)}))
						return
					}
					// (2) Next/Seek traces
					for k := 0; k < 3; k++ {
						tr := vfc12GenTrace(rng, list)
						p, err := cd.decode(enc, pooled)
						if err != nil {
							r.Violation(c, "decode-error:"+cd.name, fmt.Sprintf("decoding (%s, %s) failed: %v", class, mode, err), wit(map[string]any{"mode": mode}))
							return
						}
						r.Eval(1)
						diff := vfc12RunTrace(list, p, tr)
						p.close()
						if diff != "" {
							r.Violation(c, "seek-trace-differs:"+cd.name, fmt.Sprintf("%s (%s, %s)", diff, class, mode), wit(map[string]any{"mode": mode, "trace": tr}))
							return
						}
					}
				}
				// (3) two pooled iterators over DIFFERENT lists open at once, advanced alternately: a pooled
				// buffer handed to one must not be reused for the other while both are live
				if len(list) > 0 && len(list) <= 6000 && len(list2) > 0 && cd.name != vfc12Codecs[3].name {
					enc2 := enc2dvs
					if cd.name != vfc12Codecs[0].name {
						enc2 = enc2dss
					}
					a, errA := cd.decode(enc, true)
					b, errB := cd.decode(enc2, true)
					if errA != nil || errB != nil {
						r.Violation(c, "decode-error:"+cd.name, fmt.Sprintf("decoding two encodings failed: %v / %v", errA, errB), wit(nil))
						return
					}
					r.Eval(1)
					step := 1 + rng.Intn(7)
					ia, ib := 0, 0
					bad := ""
					for bad == "" && (ia < len(list) || ib < len(list2)) {
						for s := 0; s < step && ia < len(list) && bad == ""; s++ {
							if !a.Next() || a.At() != list[ia] {
								bad = fmt.Sprintf("the iterator over the case's list is wrong at entry %d (At=%d, want %d)", ia, a.At(), list[ia])
							}
							ia++
						}
						for s := 0; s < step+1 && ib < len(list2) && bad == ""; s++ {
							if !b.Next() || b.At() != list2[ib] {
								bad = fmt.Sprintf("the iterator over the second list is wrong at entry %d (At=%d, want %d)", ib, b.At(), list2[ib])
							}
							ib++
						}
					}
					a.close()
					b.close()
					if bad != "" {
						r.Violation(c, "interleaved-iterators-differ:"+cd.name, fmt.Sprintf("two pooled iterators over two different encodings, advanced alternately: %s (%s; second list %s)", bad, class, class2), wit(map[string]any{"second_list_class": class2, "second_list_head": vfc12Head(list2, 5)}))
					}
				}
			})
		}
	}
}
