//go:build verif

package store

import (
	"context"
	"fmt"
	"math"
	"math/rand"
	"runtime"
	"sort"
	"strings"
	"testing"
	"time"

	"github.com/prometheus/prometheus/model/labels"

	"github.com/thanos-io/thanos/pkg/component"
	"github.com/thanos-io/thanos/pkg/store/storepb"
	"github.com/thanos-io/thanos/pkg/verifhook/vfkit"
)

// vfc03Scenario is one set of scripted stores.
type vfc03Scenario struct {
	Strip    bool   // request carries WithoutReplicaLabels=[k]
	Class    string // chunk class: raw | aggr | mixed | nochunks
	Stores   []*vfc03StoreSpec
	Model    map[string]*vfc03Want // expected output by final label set string
	Order    []string              // expected label sets in output order
	Split    bool                  // some series was split over frames
	Shared   bool                  // some final label set is held by two streams / twice in one stream
	Resort   bool                  // some store needs the proxy-side re-sort
	DupSame  bool                  // some chunk appears twice inside one store's stream for one label set
	MixRepl  bool                  // some store holds series with and without the replica label
	AggrTail bool                  // some aggregated chunk agrees with another one only in a prefix of its aggregate fields
	// at most one store fails (request then uses the WARN strategy): -1 = none
	FailIdx   int
	FailKind  int // vfc03FaultOpen | vfc03FaultRecv
	FailAfter int // frames (messages) delivered before the Recv error
	ErrShape  int
}

type vfc03StoreSpec struct {
	Name        string
	WithoutRepl bool
	Frames      []vfc03Frame
}

type vfc03Want struct {
	Lset   labels.Labels
	Chunks map[string]vfc03Chunk // chunk key -> spec
}

func vfc03Gen(rng *rand.Rand) *vfc03Scenario {
	sc := &vfc03Scenario{Model: map[string]*vfc03Want{}, FailIdx: -1}
	sc.Strip = rng.Intn(2) == 0
	sc.Class = vfkit.Pick(rng, []string{"raw", "raw", "raw", "aggr", "mixed", "nochunks"})
	nStores := 1 + rng.Intn(5)
	na := 1 + rng.Intn(3)
	zs := []string{"", "x", "y", "z"}[:1+rng.Intn(4)]
	maxChunks := 1 + rng.Intn(6)

	type held struct {
		lset   labels.Labels // what the store sends (already stripped if it can)
		final  labels.Labels
		chunks []vfc03Chunk
	}
	heldFinal := map[string]bool{}
	for si := 0; si < nStores; si++ {
		st := &vfc03StoreSpec{Name: fmt.Sprintf("vfstore-%d", si), WithoutRepl: rng.Intn(3) != 0}
		if sc.Strip && !st.WithoutRepl {
			sc.Resort = true
		}
		// which replicas does this store hold: usually one, sometimes several
		var reps []string
		switch rng.Intn(4) {
		case 0:
			reps = []string{"r0", "r1"}
		case 1:
			reps = []string{""} // no replica label at all
		default:
			reps = []string{fmt.Sprintf("r%d", rng.Intn(3))}
		}
		if reps[0] != "" && rng.Intn(2) == 0 {
			// the store also holds series that do not carry the replica label at all
			reps = append(reps, "")
			sc.MixRepl = true
		}
		density := 0.3 + rng.Float64()*0.7
		var hs []held
		for a := 1; a <= na; a++ {
			for _, z := range zs {
				for _, k := range reps {
					if rng.Float64() > density {
						continue
					}
					full := vfc03Lset(fmt.Sprint(a), k, z)
					final := full
					if sc.Strip {
						final = vfc03Lset(fmt.Sprint(a), "", z)
					}
					sent := full
					if sc.Strip && st.WithoutRepl {
						sent = final
					}
					var cs []vfc03Chunk
					if sc.Class != "nochunks" {
						for j := 0; j < maxChunks; j++ {
							if rng.Intn(3) == 0 {
								continue
							}
							c := vfc03Chunk{Min: int64(j * 100), Max: int64(j*100 + 99), Variant: 0}
							if rng.Intn(5) == 0 {
								c.Variant = 1 + rng.Intn(2)
							}
							if rng.Intn(8) == 0 {
								c.Max = c.Min + int64(rng.Intn(150)) // overlapping / odd ranges
							}
							switch sc.Class {
							case "aggr":
								c.Aggr = true
							case "mixed":
								c.Aggr = rng.Intn(2) == 0
							}
							if c.Aggr && rng.Intn(4) == 0 {
								// same range, same first aggregates (Count; Count+Sum; ...) as the plain chunk, different later ones
								c.TailFrom, c.TailVariant = 1+rng.Intn(4), rng.Intn(2)
								sc.AggrTail = true
							}
							cs = append(cs, c)
						}
						vfc03SortChunks(cs)
					}
					hs = append(hs, held{lset: sent, final: final, chunks: cs})
				}
			}
		}
		// StoreAPI contract: the stream is sorted by the labels the store sends.
		sort.SliceStable(hs, func(i, j int) bool { return labels.Compare(hs[i].lset, hs[j].lset) < 0 })
		var frames []vfc03Frame
		for _, h := range hs {
			if heldFinal[h.final.String()] {
				sc.Shared = true
			}
			heldFinal[h.final.String()] = true
			// split the chunk list over 1..3 consecutive frames
			parts := 1
			if len(h.chunks) > 1 {
				parts = 1 + rng.Intn(3)
			}
			if parts > len(h.chunks) && len(h.chunks) > 0 {
				parts = len(h.chunks)
			}
			if len(h.chunks) == 0 {
				frames = append(frames, vfc03Frame{Series: []vfc03Series{{Lset: h.lset}}})
				continue
			}
			if parts > 1 {
				sc.Split = true
			}
			cuts := map[int]bool{}
			for len(cuts) < parts-1 {
				cuts[1+rng.Intn(len(h.chunks)-1)] = true
			}
			var cur []vfc03Chunk
			for i, c := range h.chunks {
				if cuts[i] {
					frames = append(frames, vfc03Frame{Series: []vfc03Series{{Lset: h.lset, Chunks: cur}}})
					prev := cur
					cur = nil
					if rng.Intn(6) == 0 {
						// the next frame repeats the last chunk of the previous one
						cur = append(cur, prev[len(prev)-1])
						sc.DupSame = true
					}
				}
				cur = append(cur, c)
			}
			frames = append(frames, vfc03Frame{Series: []vfc03Series{{Lset: h.lset, Chunks: cur}}})
		}
		// pack consecutive frames into upstream batches
		if rng.Intn(2) == 0 {
			var packed []vfc03Frame
			for i := 0; i < len(frames); {
				if rng.Intn(3) == 0 {
					packed = append(packed, frames[i])
					i++
					continue
				}
				n := 1 + rng.Intn(4)
				b := vfc03Frame{Batch: true}
				for ; n > 0 && i < len(frames); n-- {
					b.Series = append(b.Series, frames[i].Series...)
					i++
				}
				packed = append(packed, b)
			}
			frames = packed
		}
		st.Frames = frames
		sc.Stores = append(sc.Stores, st)
	}
	// a third of the scenarios: one store (any position) fails, at open or after k delivered frames
	if rng.Intn(3) == 0 {
		sc.FailIdx = rng.Intn(nStores)
		sc.ErrShape = rng.Intn(len(vfc03ErrShapes))
		if rng.Intn(6) == 0 {
			sc.FailKind = vfc03FaultOpen
		} else {
			sc.FailKind = vfc03FaultRecv
			sc.FailAfter = rng.Intn(len(sc.Stores[sc.FailIdx].Frames) + 1)
		}
	}
	// reference model: what the stores return = every frame a store delivers before it ends or fails
	for si, st := range sc.Stores {
		frames := st.Frames
		if si == sc.FailIdx {
			if sc.FailKind == vfc03FaultOpen {
				frames = nil
			} else {
				frames = frames[:sc.FailAfter]
			}
		}
		for _, f := range frames {
			for _, ser := range f.Series {
				final := ser.Lset
				if sc.Strip {
					b := labels.NewBuilder(ser.Lset)
					b.Del(vfc03ReplicaLabel)
					final = b.Labels()
				}
				w := sc.Model[final.String()]
				if w == nil {
					w = &vfc03Want{Lset: final, Chunks: map[string]vfc03Chunk{}}
					sc.Model[final.String()] = w
				}
				for _, c := range ser.Chunks {
					w.Chunks[vfc03ChunkKey(vfc03Build(c))] = c
				}
			}
		}
	}
	var ws []*vfc03Want
	for _, w := range sc.Model {
		ws = append(ws, w)
	}
	sort.Slice(ws, func(i, j int) bool { return labels.Compare(ws[i].Lset, ws[j].Lset) < 0 })
	for _, w := range ws {
		sc.Order = append(sc.Order, w.Lset.String())
	}
	return sc
}

type vfc03Config struct {
	Strategy RetrievalStrategy
	Buf      int
	Batch    int64
}

func (c vfc03Config) String() string {
	return fmt.Sprintf("%s/buf=%d/batch=%d", c.Strategy, c.Buf, c.Batch)
}

func vfc03AllConfigs() []vfc03Config {
	var out []vfc03Config
	for _, b := range []int64{0, 1, 2, 5, 64} {
		out = append(out, vfc03Config{EagerRetrieval, 0, b})
		for _, buf := range []int{1, 2, 3, 20} {
			out = append(out, vfc03Config{LazyRetrieval, buf, b})
		}
	}
	return out
}

func (sc *vfc03Scenario) witness(cfg vfc03Config) map[string]any {
	w := map[string]any{"without_replica_labels": sc.Strip, "class": sc.Class, "config": cfg.String()}
	var sts []any
	for _, st := range sc.Stores {
		sts = append(sts, map[string]any{"name": st.Name, "supports_without_replica_labels": st.WithoutRepl, "frames": vfc03FmtFrames(st.Frames)})
	}
	w["stores"] = sts
	w["failing_store"] = sc.failDesc()
	return w
}

func (sc *vfc03Scenario) failDesc() string {
	if sc.FailIdx < 0 {
		return "none"
	}
	if sc.FailKind == vfc03FaultOpen {
		return fmt.Sprintf("%s: Series() open error (%s), strategy WARN", sc.Stores[sc.FailIdx].Name, vfc03ErrShapes[sc.ErrShape])
	}
	return fmt.Sprintf("%s (position %d of %d): Recv error (%s) after %d frames, strategy WARN", sc.Stores[sc.FailIdx].Name, sc.FailIdx, len(sc.Stores), vfc03ErrShapes[sc.ErrShape], sc.FailAfter)
}

// vfc03Run drives the real ProxyStore.Series over the scripted stores.
func vfc03Run(sc *vfc03Scenario, cfg vfc03Config, delaySeed int64) (out []vfc03Out, warns []string, late []vfc03Out, lateWarns []string, err error, sig string, hung bool) {
	tr := &vfc03Trace{}
	var clients []Client
	for i, st := range sc.Stores {
		st := st
		cl := &vfc03Client{
			Name: st.Name, Idx: i, MinT: math.MinInt64, MaxT: math.MaxInt64,
			WithoutRepl: st.WithoutRepl, Sharding: true,
			Frames:    func(*storepb.SeriesRequest) []vfc03Frame { return st.Frames },
			DelaySeed: delaySeed + int64(i)*7919, Trace: tr,
		}
		if i == sc.FailIdx {
			cl.FaultKind, cl.FaultAfter, cl.ErrShape = sc.FailKind, sc.FailAfter, sc.ErrShape
		}
		clients = append(clients, cl)
	}
	p := NewProxyStore(nil, nil, func() []Client { return clients }, component.Query, labels.EmptyLabels(), 0, cfg.Strategy,
		WithLazyRetrievalMaxBufferedResponsesForProxy(cfg.Buf))
	req := &storepb.SeriesRequest{
		MinTime: 0, MaxTime: math.MaxInt64,
		Matchers:                []storepb.LabelMatcher{{Type: storepb.LabelMatcher_RE, Name: "a", Value: ".+"}},
		ResponseBatchSize:       cfg.Batch,
		PartialResponseStrategy: storepb.PartialResponseStrategy_ABORT,
	}
	if sc.Strip {
		req.WithoutReplicaLabels = []string{vfc03ReplicaLabel}
	}
	if sc.FailIdx >= 0 {
		req.PartialResponseStrategy = storepb.PartialResponseStrategy_WARN
	}
	srv := vfc03NewServer(context.Background())
	done := make(chan error, 1)
	go func() { done <- p.Series(req, srv) }()
	select {
	case err = <-done:
	case <-time.After(120 * time.Second):
		return nil, nil, nil, nil, nil, tr.String(), true
	}
	out, warns = srv.flat()
	late, lateWarns = srv.flatRetained()
	return out, warns, late, lateWarns, err, tr.String(), false
}

// vfc03Check is the oracle: the flattened output must be exactly the model.
func vfc03Check(sc *vfc03Scenario, out []vfc03Out, warns []string, err error) (fp, what string) {
	if err != nil {
		return "unexpected-error", "Series returned " + err.Error()
	}
	for _, w := range warns {
		if sc.FailIdx < 0 || !strings.Contains(w, sc.Stores[sc.FailIdx].Name) {
			return "unexpected-warning", "warning that names no failed store: " + w
		}
	}
	for i := 1; i < len(out); i++ {
		c := labels.Compare(out[i-1].Lset, out[i].Lset)
		if c == 0 {
			return "labelset-twice", fmt.Sprintf("label set %s is listed twice (positions %d,%d)", out[i].Lset, i-1, i)
		}
		if c > 0 {
			return "labelsets-not-sorted", fmt.Sprintf("%s listed before %s", out[i-1].Lset, out[i].Lset)
		}
	}
	seen := map[string]bool{}
	for _, o := range out {
		key := o.Lset.String()
		if seen[key] {
			return "labelset-twice", fmt.Sprintf("label set %s is listed twice", key)
		}
		seen[key] = true
		w := sc.Model[key]
		if w == nil {
			return "labelset-foreign", fmt.Sprintf("label set %s was sent by no store", key)
		}
		got := map[string]int{}
		for i, c := range o.Chunks {
			k := vfc03ChunkKey(c)
			got[k]++
			spec, ok := w.Chunks[k]
			if !ok {
				return "chunk-foreign", fmt.Sprintf("%s carries chunk [%d,%d] that no store returned for it", key, c.MinTime, c.MaxTime)
			}
			if got[k] > 1 {
				kind := "raw"
				if spec.Aggr {
					kind = "aggr"
				}
				return "chunk-twice:" + kind, fmt.Sprintf("%s carries chunk %s %d times", key, spec, got[k])
			}
			if i > 0 {
				p := o.Chunks[i-1]
				if p.MinTime > c.MinTime || (p.MinTime == c.MinTime && p.MaxTime > c.MaxTime) {
					return "chunks-not-time-ordered", fmt.Sprintf("%s: chunk [%d,%d] before [%d,%d]", key, p.MinTime, p.MaxTime, c.MinTime, c.MaxTime)
				}
			}
		}
		for k, spec := range w.Chunks {
			if got[k] == 0 {
				return "chunk-missing", fmt.Sprintf("%s lacks chunk %s that a store returned", key, spec)
			}
		}
	}
	for _, key := range sc.Order {
		if !seen[key] {
			return "labelset-missing", fmt.Sprintf("label set %s sent by a store is not in the response", key)
		}
	}
	return "", ""
}

func TestVF_C03(t *testing.T) {
	r := vfkit.Start(t, "C03")
	defer r.Finish()
	r.Rule("case = 1..5 scripted stores (label-sorted streams over a small label universe so label sets repeat across stores; series split over 1..3 frames, frames packed into upstream batches, " +
		"chunks duplicated across stores/frames, raw/aggregated/mixed/no chunks, aggregated chunks of one range that agree only in a prefix of their aggregate fields (same Count; same Count+Sum; ...), replica label k with and without WithoutReplicaLabels, stores holding series with and without k, stores that cannot strip it => proxy re-sort; " +
		"in 1/3 of the scenarios one store at a random position fails under the WARN strategy: Series() open error or Recv error (9 error shapes) after k delivered frames) " +
		"x 12 (thorough 24) configurations of {eager, lazy buf 1/2/3/20} x ResponseBatchSize {0,1,2,5,64}, PRNG delays in every Recv, GOMAXPROCS cycled 1/2/4/16; " +
		"oracle: flattened response == reference model built from every frame a store delivered before it ended or failed (label sets strictly increasing, each once, exactly the distinct chunks (range+bytes), time ordered, no error, no warning that names no failed store) for every configuration and for two readers (frames decoded inside Send / frame objects retained and decoded after Series returned); " +
		"distinct = hash of scripted streams+configuration; non-trivial = a label set held by >= 2 streams or split over frames; signature = order in which the stores' frames were pulled")
	n := r.N(400, 6000)
	perScenario := r.N(12, 24)
	r.Require(int64(2*n*perScenario), n*perScenario/3)
	r.Assume("each store streams label-sorted series, a series' frames are consecutive, chunk bytes determine the chunk's time range (StoreAPI contract)")
	r.Assume("identity of a chunk = (min time, max time, bytes of every aggregate field)")
	all := vfc03AllConfigs()
	prev := runtime.GOMAXPROCS(0)
	defer runtime.GOMAXPROCS(prev)
	procs := []int{1, 2, 4, 16}
	for c := 0; c < n; c++ {
		if !r.Want(c) {
			continue
		}
		rng := r.Rand(c)
		sc := vfc03Gen(rng)
		runtime.GOMAXPROCS(procs[c%len(procs)])
		cfgs := vfkit.Perm(rng, all)[:perScenario]
		cfgs[0] = vfc03Config{EagerRetrieval, 0, 0}
		cfgs[1] = vfc03Config{LazyRetrieval, 1, 0}
		nontrivial := sc.Shared || sc.Split
		nser := 0
		for _, st := range sc.Stores {
			for _, f := range st.Frames {
				nser += len(f.Series)
			}
		}
		for ci, cfg := range cfgs {
			var fp, what string
			var out []vfc03Out
			hung := false
			r.Guard(c, "proxy-series", sc.witness(cfg), func() {
				var warns []string
				var err error
				var sig string
				var late []vfc03Out
				var lateWarns []string
				out, warns, late, lateWarns, err, sig, hung = vfc03Run(sc, cfg, int64(c)*131+int64(ci)+r.Seed()*1_000_003)
				if hung {
					return
				}
				r.Signature(sig)
				r.Eval(2)
				// two readers of the same response stream: one decodes every frame inside Send, the other keeps the
				// frame objects and decodes them after Series returned; both must equal the reference model
				if fp, what = vfc03Check(sc, out, warns, err); fp == "" {
					if fp, what = vfc03Check(sc, late, lateWarns, err); fp != "" {
						fp, what = "read-after-send:"+fp, "frames decoded after Series returned (they equalled the model when decoded inside Send): "+what
						out = late
					}
				}
			})
			if hung {
				r.Inconclusive(fmt.Sprintf("case %d config %s: ProxyStore.Series did not return within 120s", c, cfg))
				return
			}
			if nontrivial {
				r.Distinct(fmt.Sprintf("%v|%s", sc.witness(cfg)["stores"], cfg))
			}
			if fp != "" {
				w := sc.witness(cfg)
				w["response"] = vfc03FmtOut(out)
				w["expected_labelsets"] = sc.Order
				r.Violation(c, fp, fmt.Sprintf("%s (config %s, class %s, without_replica_labels=%v)", what, cfg, sc.Class, sc.Strip), w)
			}
		}
		r.Count("scenarios", 1)
		if sc.Resort {
			r.Count("scenarios_with_proxy_resort", 1)
		}
		if sc.FailIdx >= 0 {
			r.Count("scenarios_with_failing_store_under_warn", 1)
		}
		if sc.MixRepl {
			r.Count("scenarios_with_mixed_replica_label_presence", 1)
		}
		if sc.AggrTail {
			r.Count("scenarios_with_aggr_chunks_sharing_a_field_prefix", 1)
		}
		if sc.Shared {
			r.Count("scenarios_with_shared_labelset", 1)
		}
		if sc.DupSame {
			r.Count("scenarios_with_chunk_repeated_across_frames", 1)
		}
		r.Sample(map[string]any{"stores": len(sc.Stores), "input_series_frames": nser, "output_labelsets": len(sc.Order), "class": sc.Class,
			"without_replica_labels": sc.Strip, "proxy_resort": sc.Resort, "configs": perScenario})
	}
}
