//go:build verif

package store

// C10 — store gateway answers equal a direct TSDB read of the same blocks.
// Reference: Prometheus tsdb.OpenBlock + NewBlockChunkQuerier on the very block directories that
// were uploaded; observed: BucketStore.Series under several configurations and cache histories.

import (
	"bytes"
	"context"
	"encoding/json"
	"fmt"
	"math/rand"
	"os"
	"path"
	"path/filepath"
	"sort"
	"strings"
	"testing"

	"github.com/go-kit/log"
	"github.com/prometheus/client_golang/prometheus/testutil"
	"github.com/prometheus/common/promslog"
	"github.com/prometheus/prometheus/model/labels"
	"github.com/prometheus/prometheus/storage"
	"github.com/prometheus/prometheus/tsdb"
	"github.com/prometheus/prometheus/tsdb/chunkenc"

	"github.com/thanos-io/thanos/pkg/block"
	"github.com/thanos-io/thanos/pkg/block/metadata"
	"github.com/thanos-io/thanos/pkg/store/storepb"
	"github.com/thanos-io/thanos/pkg/verifhook/vfkit"
)

type vfc10Chunk struct {
	mint, maxt int64
	enc        int32 // storepb.Chunk_Encoding value
	data       string
}

type vfc10Series struct {
	lset   string
	chunks map[vfc10Chunk]struct{}
}

type vfc10RefBlock struct {
	b   *vfc07Block
	blk *tsdb.Block
}

func vfc10StoreEnc(e chunkenc.Encoding) int32 {
	switch e {
	case chunkenc.EncXOR:
		return int32(storepb.Chunk_XOR)
	case chunkenc.EncHistogram:
		return int32(storepb.Chunk_HISTOGRAM)
	case chunkenc.EncFloatHistogram:
		return int32(storepb.Chunk_FLOAT_HISTOGRAM)
	}
	return -1
}

// vfc10Reference reads every block with the Prometheus block chunk querier. Matchers on a block's
// external label names are evaluated against the external value (it overrides stored labels);
// the remaining matchers go to the querier unchanged. Series are keyed by stored labels extended
// (overridden) with the block's external labels; chunks overlapping [mint,maxt] form a set.
func vfc10Reference(blocks []vfc10RefBlock, ms []*labels.Matcher, mint, maxt int64) (map[string]*vfc10Series, error) {
	out := map[string]*vfc10Series{}
	ctx := context.Background()
	for _, rb := range blocks {
		var rest []*labels.Matcher
		contradicted := false
		for _, m := range ms {
			if v := rb.b.ext.Get(m.Name); v != "" {
				if !m.Matches(v) {
					contradicted = true
					break
				}
				continue
			}
			rest = append(rest, m)
		}
		if contradicted {
			continue
		}
		q, err := tsdb.NewBlockChunkQuerier(rb.blk, mint, maxt)
		if err != nil {
			return nil, err
		}
		ss := q.Select(ctx, true, &storage.SelectHints{Start: mint, End: maxt, DisableTrimming: true}, rest...)
		for ss.Next() {
			s := ss.At()
			lb := labels.NewBuilder(s.Labels())
			rb.b.ext.Range(func(l labels.Label) { lb.Set(l.Name, l.Value) })
			key := lb.Labels().String()
			rs := out[key]
			if rs == nil {
				rs = &vfc10Series{lset: key, chunks: map[vfc10Chunk]struct{}{}}
			}
			it := s.Iterator(nil)
			n := 0
			for it.Next() {
				m := it.At()
				if m.Chunk == nil {
					_ = q.Close()
					return nil, fmt.Errorf("reference: nil chunk for %s", key)
				}
				rs.chunks[vfc10Chunk{mint: m.MinTime, maxt: m.MaxTime, enc: vfc10StoreEnc(m.Chunk.Encoding()), data: string(m.Chunk.Bytes())}] = struct{}{}
				n++
			}
			if err := it.Err(); err != nil {
				_ = q.Close()
				return nil, err
			}
			if n > 0 {
				out[key] = rs
			}
		}
		if err := ss.Err(); err != nil {
			_ = q.Close()
			return nil, err
		}
		if err := q.Close(); err != nil {
			return nil, err
		}
	}
	return out, nil
}

// vfc10Flatten turns the frames of one response into series keyed by label set. dup lists label
// sets that came in more than one frame.
func vfc10Flatten(frames []*storepb.Series) (got map[string]*vfc10Series, dup []string, malformed string) {
	got = map[string]*vfc10Series{}
	for _, f := range frames {
		key := vfc07Lset(f.Labels).String()
		if _, ok := got[key]; ok {
			dup = append(dup, key)
			continue
		}
		s := &vfc10Series{lset: key, chunks: map[vfc10Chunk]struct{}{}}
		for _, c := range f.Chunks {
			if c.Raw == nil || c.Count != nil || c.Sum != nil || c.Min != nil || c.Max != nil || c.Counter != nil {
				malformed = fmt.Sprintf("series %s: chunk [%d,%d] of a raw block without Raw payload or with aggregate payloads", key, c.MinTime, c.MaxTime)
				continue
			}
			s.chunks[vfc10Chunk{mint: c.MinTime, maxt: c.MaxTime, enc: int32(c.Raw.Type), data: string(c.Raw.Data)}] = struct{}{}
		}
		got[key] = s
	}
	return got, dup, malformed
}

type vfc10Diff struct {
	kind   string // "", missing-series, extra-series, missing-chunk, extra-chunk, chunk-bytes, duplicate-series, malformed-chunk
	detail string
}

func vfc10Compare(want, got map[string]*vfc10Series, skipChunks bool) vfc10Diff {
	keys := make([]string, 0, len(want))
	for k := range want {
		keys = append(keys, k)
	}
	sort.Strings(keys)
	for _, k := range keys {
		if _, ok := got[k]; !ok {
			return vfc10Diff{"missing-series", fmt.Sprintf("series %s is in the TSDB read of the blocks but not in the store answer (%d series wanted, %d returned)", k, len(want), len(got))}
		}
	}
	gkeys := make([]string, 0, len(got))
	for k := range got {
		gkeys = append(gkeys, k)
	}
	sort.Strings(gkeys)
	for _, k := range gkeys {
		if _, ok := want[k]; !ok {
			return vfc10Diff{"extra-series", fmt.Sprintf("series %s is in the store answer but not in the TSDB read of the blocks (%d series wanted, %d returned)", k, len(want), len(got))}
		}
	}
	if skipChunks {
		for _, k := range gkeys {
			if len(got[k].chunks) != 0 {
				return vfc10Diff{"extra-chunk", fmt.Sprintf("series %s carries chunks although SkipChunks was set", k)}
			}
		}
		return vfc10Diff{}
	}
	for _, k := range keys {
		w, g := want[k].chunks, got[k].chunks
		for c := range w {
			if _, ok := g[c]; !ok {
				for gc := range g {
					if gc.mint == c.mint && gc.maxt == c.maxt {
						return vfc10Diff{"chunk-bytes", fmt.Sprintf("series %s chunk [%d,%d]: encoding/bytes differ (want enc %d, %d bytes; got enc %d, %d bytes)", k, c.mint, c.maxt, c.enc, len(c.data), gc.enc, len(gc.data))}
					}
				}
				return vfc10Diff{"missing-chunk", fmt.Sprintf("series %s: chunk [%d,%d] overlaps the range in the TSDB read but is not in the store answer (%d wanted, %d returned)", k, c.mint, c.maxt, len(w), len(g))}
			}
		}
		for c := range g {
			if _, ok := w[c]; !ok {
				return vfc10Diff{"extra-chunk", fmt.Sprintf("series %s: chunk [%d,%d] is in the store answer but not in the TSDB read for the range (%d wanted, %d returned)", k, c.mint, c.maxt, len(w), len(g))}
			}
		}
	}
	return vfc10Diff{}
}

type vfc10Req struct {
	ms         []vfc07M
	mint, maxt int64
	skip       bool
	want       map[string]*vfc10Series
	session    string // range pattern of the selector session and the position in it
	later      bool   // the same selectors were already issued with another range
}

// vfc10Mutate is one step of a fixture history: 1..2 blocks (oldest / middle / newest, drawn by
// position in time order) disappear from the bucket - deleted outright or marked for deletion
// (the stores' meta fetchers ignore marked blocks, delay 0) -, sometimes a new block is appended
// after the youngest one, then every store runs SyncBlocks. refs is updated to the blocks that
// are now present; the reference of later requests is read from exactly those.
func vfc10Mutate(t *testing.T, rng *rand.Rand, fx *vfc07Fixture, refs []vfc10RefBlock, stores []*BucketStore, allowAdd bool, step int) ([]vfc10RefBlock, string) {
	ctx := context.Background()
	sort.Slice(refs, func(i, j int) bool { return refs[i].b.meta.MinTime < refs[j].b.meta.MinTime })
	var what []string
	for k := 0; k < 1+rng.Intn(2) && len(refs) > 2; k++ {
		var i int
		pos := []string{"oldest", "middle", "newest"}[rng.Intn(3)]
		switch pos {
		case "oldest":
			i = 0
		case "newest":
			i = len(refs) - 1
		default:
			i = 1 + rng.Intn(len(refs)-2)
		}
		id := refs[i].b.id
		if rng.Intn(3) == 0 {
			mark, err := json.Marshal(metadata.DeletionMark{ID: id, Version: metadata.DeletionMarkVersion1, Details: "vf history", DeletionTime: 1})
			if err != nil {
				vfc07Setup("deletion mark: %v", err)
			}
			if err := fx.bkt.Upload(ctx, path.Join(id.String(), metadata.DeletionMarkFilename), bytes.NewReader(mark)); err != nil {
				vfc07Setup("upload deletion mark: %v", err)
			}
			what = append(what, "mark-"+pos)
		} else {
			if err := block.Delete(ctx, log.NewNopLogger(), fx.bkt, id); err != nil {
				vfc07Setup("delete block: %v", err)
			}
			what = append(what, "delete-"+pos)
		}
		_ = refs[i].blk.Close()
		refs = append(refs[:i:i], refs[i+1:]...)
	}
	if allowAdd && rng.Intn(3) == 0 {
		last := refs[len(refs)-1].b
		width := last.maxt - last.mint
		sp := vfc07BlockSpec{ext: last.ext, chunkRange: last.chunkRange, mint: last.maxt, maxt: last.maxt + width}
		for _, se := range last.series {
			if rng.Intn(3) != 0 {
				sp.series = append(sp.series, vfc07SeriesSpec{id: se.id, lset: se.lset, ts: vfc07GenTimes(rng, sp.mint, int(width/vfc07Step))})
			}
		}
		if len(sp.series) == 0 {
			se := last.series[0]
			sp.series = append(sp.series, vfc07SeriesSpec{id: se.id, lset: se.lset, ts: vfc07GenTimes(rng, sp.mint, int(width/vfc07Step))})
		}
		nb := vfc07WriteBlock(t, fx.blocksDir, filepath.Join(fx.dir, fmt.Sprintf("head-add%d", step)), sp)
		if err := block.Upload(ctx, log.NewNopLogger(), fx.bkt, nb.dir, metadata.NoneFunc); err != nil {
			vfc07Setup("upload added block: %v", err)
		}
		blk, err := tsdb.OpenBlock(promslog.NewNopLogger(), nb.dir, nil, nil)
		if err != nil {
			vfc07Setup("open added reference block: %v", err)
		}
		refs = append(refs, vfc10RefBlock{b: nb, blk: blk})
		if nb.meta.MaxTime-1 > fx.tmax {
			fx.tmax = nb.meta.MaxTime - 1
		}
		fx.edges = append(fx.edges, nb.meta.MinTime, nb.meta.MaxTime)
		what = append(what, "add-youngest")
	}
	for _, st := range stores {
		if err := st.SyncBlocks(ctx); err != nil {
			vfc07Setup("SyncBlocks after %v: %v", what, err)
		}
	}
	return refs, strings.Join(what, "+")
}

func vfc10DescribeRefs(refs []vfc10RefBlock) []map[string]any {
	var out []map[string]any
	for _, rb := range refs {
		out = append(out, map[string]any{"ulid": rb.b.id.String(), "ext": rb.b.ext.String(), "mint": rb.b.meta.MinTime, "maxt": rb.b.meta.MaxTime, "series": len(rb.b.series)})
	}
	return out
}

func TestVF_C10(t *testing.T) {
	r := vfkit.Start(t, "C10")
	defer r.Finish()
	r.Rule("case = one generated fixture (1..3 raw TSDB blocks: sequential / replica / half-overlapping in time, 1..6 chunks per series, dense/late/early/gappy/single-sample series, ~10% native-histogram series, " +
		"1..many segment files, stored labels colliding with external labels) served by 3 BucketStores (index cache none / large / tiny-evicting; header sampling 1,2,32; small series/chunk size estimates forcing refetch; pooled chunk bytes; partitioner gap 1..default) " +
		"x selector sessions: one generated selector set (1..4 matchers of 20 shapes; 40% constrain several different labels (half of them with value-adding matchers only, the shape that makes the store expand postings lazily), 30% put 2..3 matchers on one label, rest free incl. external and absent names) is issued with a sequence of 1..4 closed ranges " +
		"(patterns: single, narrow-then-wide, wide-then-narrow, disjoint windows, nested growing, free ranges at chunk/block edges; SkipChunks 15%), so caches filled under one range are read under another; 20% of the requests re-issue an earlier request verbatim. " +
		"Every request is issued twice in a row on every store with freshly drawn lazy-postings settings and series batch size (1,3,10000). " +
		"Every second fixture has a history: 4..5 consecutive raw blocks of one block set; twice, between selector sessions, 1..2 blocks (oldest / middle / newest) are deleted from the bucket or marked for deletion " +
		"(the stores' meta fetchers ignore marked blocks, delay 0), at the second step sometimes a new youngest block is uploaded, then every store runs SyncBlocks and the sessions go on against the blocks present at that moment. " +
		"oracle: flattened answer == union over blocks of Prometheus NewBlockChunkQuerier(block,mint,maxt).Select(DisableTrimming) with external labels applied, chunks compared as sets of (mint,maxt,encoding,bytes). " +
		"evaluation = one store answer compared; distinct/non-trivial = (fixture, request) whose reference answer has at least one series")
	nFix := r.N(8, 70)
	nReq := r.N(32, 80)
	r.Require(int64(nFix*nReq*4), nFix*nReq/8)
	r.Assume("request ranges have mint <= maxt; blocks have no tombstones; block meta min/max time bound the samples (as the compactor writes them)")
	r.Assume("series that become label-identical after external labels override stored ones are one series whose chunks are the union (identical chunks once), as the store's documented merge does")
	base := t.TempDir()
	vfc07Parallel(r, nFix, 4, func(c int) {
		vfc07Guard(r, c, "c10-fixture", func() { vfc10RunFixture(t, r, c, r.Rand(c), nReq, filepath.Join(base, fmt.Sprintf("case%d", c))) })
	})
}

func vfc10RunFixture(t *testing.T, r *vfkit.Run, c int, rng *rand.Rand, nReq int, dir string) {
	defer func() { _ = os.RemoveAll(dir) }()
	// every second fixture has a history: >= 4 consecutive blocks of one block set, and between selector
	// sessions blocks disappear from / appear in the bucket and the stores re-sync
	withHistory := c%2 == 1
	opts := vfc07Opts{maxBlocks: 3, maxSeries: 150, slots: 36, hist: true, collide: rng.Intn(3) == 0}
	if withHistory {
		opts.chain, opts.maxSeries, opts.slots = 4, 60, 24
	}
	fx := vfc07NewFixture(t, rng, dir, opts)
	var refs []vfc10RefBlock
	for _, b := range fx.blocks {
		blk, err := tsdb.OpenBlock(promslog.NewNopLogger(), b.dir, nil, nil)
		if err != nil {
			vfc07Setup("open reference block: %v", err)
		}
		refs = append(refs, vfc10RefBlock{b: b, blk: blk})
	}
	defer func() {
		for _, rb := range refs {
			_ = rb.blk.Close()
		}
	}()
	cfgs := []vfc07StoreCfg{
		{cache: "none", sampling: 32, hints: true, estSeries: []uint64{0, 8, 16}[rng.Intn(3)]},
		{cache: "large", sampling: []int{1, 2}[rng.Intn(2)], estSeries: []uint64{8, 16, 48}[rng.Intn(3)], estChunk: []uint64{40, 200, 1000}[rng.Intn(3)], pooled: true, gap: []uint64{1, 64, 0}[rng.Intn(3)], lazyReader: rng.Intn(2) == 0},
		{cache: "tiny", sampling: []int{1, 2, 32}[rng.Intn(3)], estSeries: []uint64{16, 24, 100}[rng.Intn(3)], estChunk: []uint64{0, 64, 300}[rng.Intn(3)], gap: []uint64{0, 16, 4096}[rng.Intn(3)]},
	}
	for i := range cfgs {
		cfgs[i].delMarks = withHistory
	}
	var stores []*BucketStore
	for _, cfg := range cfgs {
		st := vfc07NewBucketStore(t, fx, cfg)
		stores = append(stores, st)
		defer func() { _ = st.Close() }()
	}
	r.Sample(map[string]any{"case": c, "blocks": vfc07DescribeFixture(fx), "stored_names": fx.u.names, "stores": []string{cfgs[0].String(), cfgs[1].String(), cfgs[2].String()}})

	var history, pending []vfc10Req
	mutations, lastMutation := 0, ""
	for q := 0; q < nReq; q++ {
		var rq vfc10Req
		replay := false
		if withHistory && len(pending) == 0 && mutations < 2 && q >= (mutations+1)*nReq/3 {
			// fixture history step between two selector sessions; earlier requests are not re-issued
			// afterwards because their references describe the previous set of blocks
			var what string
			refs, what = vfc10Mutate(t, rng, fx, refs, stores, mutations == 1, mutations)
			mutations++
			history = history[:0]
			lastMutation = what
			r.Count("fixture_history_steps", 1)
			for _, w := range strings.Split(what, "+") {
				r.Count("fixture_history_"+w, 1)
			}
		}
		switch {
		case len(pending) > 0:
			rq, pending = pending[0], pending[1:]
			history = append(history, rq)
		case len(history) > 0 && rng.Intn(10) < 2:
			rq = history[rng.Intn(len(history))]
			replay = true
		default:
			// a selector session: one selector set, a sequence of requests whose ranges vary
			var ms []vfc07M
			if k := rng.Intn(10); k < 2 {
				ms = vfc07GenMatchersPositive(rng, fx.u)
			} else if k < 4 {
				ms = vfc07GenMatchersMulti(rng, fx.u, 0.05)
			} else if k < 7 {
				ms = vfc07GenMatchersSameName(rng, fx.u)
			} else {
				ms = vfc07GenMatchers(rng, fx.u, 0.1)
			}
			pattern, ranges := vfc07SessionRanges(rng, fx)
			for i, rg := range ranges {
				want, err := vfc10Reference(refs, vfc07Proms(ms), rg[0], rg[1])
				if err != nil {
					vfc07Setup("reference read failed: %v", err)
				}
				pending = append(pending, vfc10Req{ms: ms, mint: rg[0], maxt: rg[1], skip: rng.Intn(100) < 15, want: want, session: fmt.Sprintf("%s#%d/%d", pattern, i+1, len(ranges)), later: i > 0})
			}
			r.Count("selector_sessions_"+pattern, 1)
			rq, pending = pending[0], pending[1:]
			history = append(history, rq)
		}
		if len(rq.want) > 0 {
			r.Distinct(fmt.Sprintf("%d|%s|%d|%d|%v", c, vfc07MatchersString(rq.ms), rq.mint, rq.maxt, rq.skip))
			r.Count("nontrivial_requests", 1)
		}
		req := &storepb.SeriesRequest{MinTime: rq.mint, MaxTime: rq.maxt, Matchers: vfc07Proto(rq.ms), SkipChunks: rq.skip}
		for si, st := range stores {
			for rep := 0; rep < 2; rep++ {
				tune := vfc10Tune(rng, st)
				lazyBefore := testutil.ToFloat64(st.metrics.lazyExpandedPostingsCount)
				// a crash of the store while answering is reported by vcheck with this line as witness
				fmt.Printf("VF-INFLIGHT C10 case=%d store={%s} %s %s [%d,%d] skipChunks=%v\n", c, cfgs[si].String(), tune, vfc07MatchersString(rq.ms), rq.mint, rq.maxt, rq.skip)
				srv, err, timedOut := vfc07Call(st, req)
				if timedOut {
					r.Inconclusive("a Series call exceeded the 3 minute deadline")
					continue
				}
				r.Eval(1)
				lazyHit := testutil.ToFloat64(st.metrics.lazyExpandedPostingsCount) > lazyBefore
				if lazyHit {
					r.Count("answers_with_lazy_expanded_postings", 1)
				}
				if replay || rep > 0 {
					r.Count("answers_on_warm_history", 1)
				}
				if mutations > 0 {
					r.Count("answers_after_fixture_history_step", 1)
				}
				if rq.later && !replay {
					r.Count("answers_after_same_selectors_with_other_range", 1)
					if lazyHit {
						r.Count("lazy_answers_after_same_selectors_with_other_range", 1)
					}
				}
				witness := func(extra map[string]any) map[string]any {
					m := map[string]any{"case": c, "matchers": vfc07MatchersString(rq.ms), "mint": rq.mint, "maxt": rq.maxt, "skip_chunks": rq.skip,
						"store": cfgs[si].String(), "request_time_config": tune, "repeat": rep, "reissued_later": replay, "selector_session": rq.session, "lazy_postings_used": lazyHit,
						"blocks": vfc07DescribeFixture(fx), "reference_series": len(rq.want), "blocks_present_now": vfc10DescribeRefs(refs), "fixture_history_steps": mutations, "last_history_step": lastMutation}
					for k, v := range extra {
						m[k] = v
					}
					return m
				}
				class := vfc07Class(rq.ms)
				if err != nil {
					r.Violation(c, fmt.Sprintf("series-error:%s:%s", vfc07Code(err), class),
						fmt.Sprintf("BucketStore.Series failed with %v for %s [%d,%d] although the TSDB read of the blocks succeeds", err, vfc07MatchersString(rq.ms), rq.mint, rq.maxt),
						witness(map[string]any{"error": err.Error()}))
					continue
				}
				got, dup, malformed := vfc10Flatten(srv.frames)
				d := vfc10Compare(rq.want, got, rq.skip)
				switch {
				case len(dup) > 0:
					d = vfc10Diff{"duplicate-series", fmt.Sprintf("label set %s returned in more than one frame", dup[0])}
				case malformed != "":
					d = vfc10Diff{"malformed-chunk", malformed}
				}
				if d.kind == "" {
					continue
				}
				var wantKeys, gotKeys []string
				for k := range rq.want {
					wantKeys = append(wantKeys, k)
				}
				for k := range got {
					gotKeys = append(gotKeys, k)
				}
				sort.Strings(wantKeys)
				sort.Strings(gotKeys)
				if len(wantKeys) > 12 {
					wantKeys = wantKeys[:12]
				}
				if len(gotKeys) > 12 {
					gotKeys = gotKeys[:12]
				}
				r.Violation(c, fmt.Sprintf("%s:%s", d.kind, class),
					fmt.Sprintf("%s [%d,%d] skipChunks=%v: %s (%s; %s)", vfc07MatchersString(rq.ms), rq.mint, rq.maxt, rq.skip, d.detail, cfgs[si].String(), tune),
					witness(map[string]any{"diff": d.detail, "want_series_first": wantKeys, "got_series_first": gotKeys, "got_series": len(got), "warnings": strings.Join(srv.warnings, "; ")}))
			}
		}
	}
}
