//go:build verif

package store

// Shared fixture of the C07..C10 monitors (identifiers prefixed vfc07): generated label universes,
// real TSDB blocks (head -> LeveledCompactor.Write) uploaded into an in-memory objstore bucket,
// real BucketStore / TSDBStore construction, a collecting Series server and a matcher generator.

import (
	"context"
	"fmt"
	"math"
	"math/rand"
	"os"
	"path/filepath"
	"regexp"
	"runtime/debug"
	"sort"
	"strings"
	"sync"
	"syscall"
	"testing"
	"time"

	"github.com/go-kit/log"
	"github.com/oklog/ulid/v2"
	"github.com/prometheus/common/promslog"
	"github.com/prometheus/prometheus/model/labels"
	"github.com/prometheus/prometheus/tsdb"
	"github.com/prometheus/prometheus/tsdb/tsdbutil"
	"github.com/thanos-io/objstore"
	"google.golang.org/grpc/codes"
	"google.golang.org/grpc/status"

	"github.com/thanos-io/thanos/pkg/block"
	"github.com/thanos-io/thanos/pkg/block/metadata"
	thanosmodel "github.com/thanos-io/thanos/pkg/model"
	"github.com/thanos-io/thanos/pkg/pool"
	storecache "github.com/thanos-io/thanos/pkg/store/cache"
	"github.com/thanos-io/thanos/pkg/store/labelpb"
	"github.com/thanos-io/thanos/pkg/store/storepb"
	"github.com/thanos-io/thanos/pkg/verifhook/vfkit"
)

const (
	vfc07T0   = int64(1_200_000) // first block starts here (ms); multiple of every chunk range used
	vfc07Step = int64(200)       // sample spacing (ms)
)

// ---------------------------------------------------------------------------------------------
// collecting Series server

type vfc07Srv struct {
	storepb.Store_SeriesServer // only to satisfy the interface; unused methods are never called
	ctx                        context.Context
	frames                     []*storepb.Series // one entry per series frame, batches flattened, deep-copied
	warnings                   []string
	hints                      int
}

func vfc07NewSrv(ctx context.Context) *vfc07Srv { return &vfc07Srv{ctx: ctx} }

func (s *vfc07Srv) Context() context.Context { return s.ctx }

func vfc07CopyChunk(c *storepb.Chunk) *storepb.Chunk {
	if c == nil {
		return nil
	}
	return &storepb.Chunk{Type: c.Type, Hash: c.Hash, Data: append([]byte(nil), c.Data...)}
}

// vfc07CopySeries deep-copies a frame: BucketStore chunk bytes live in pooled slabs that are
// released when Series returns.
func vfc07CopySeries(in *storepb.Series) *storepb.Series {
	out := &storepb.Series{Labels: make([]labelpb.ZLabel, 0, len(in.Labels))}
	for _, l := range in.Labels {
		out.Labels = append(out.Labels, labelpb.ZLabel{Name: strings.Clone(l.Name), Value: strings.Clone(l.Value)})
	}
	for _, c := range in.Chunks {
		out.Chunks = append(out.Chunks, storepb.AggrChunk{
			MinTime: c.MinTime, MaxTime: c.MaxTime,
			Raw: vfc07CopyChunk(c.Raw), Count: vfc07CopyChunk(c.Count), Sum: vfc07CopyChunk(c.Sum),
			Min: vfc07CopyChunk(c.Min), Max: vfc07CopyChunk(c.Max), Counter: vfc07CopyChunk(c.Counter),
		})
	}
	return out
}

func (s *vfc07Srv) Send(r *storepb.SeriesResponse) error {
	if w := r.GetWarning(); w != "" {
		s.warnings = append(s.warnings, w)
		return nil
	}
	if se := r.GetSeries(); se != nil {
		s.frames = append(s.frames, vfc07CopySeries(se))
		return nil
	}
	if b := r.GetBatch(); b != nil {
		for _, se := range b.Series {
			if se != nil {
				s.frames = append(s.frames, vfc07CopySeries(se))
			}
		}
		return nil
	}
	if r.GetHints() != nil {
		s.hints++
	}
	return nil
}

// vfc07Call runs one Series call with a generous deadline. timedOut means the deadline fired
// (-> inconclusive, never a verdict).
func vfc07Call(st storepb.StoreServer, req *storepb.SeriesRequest) (srv *vfc07Srv, err error, timedOut bool) {
	ctx, cancel := context.WithTimeout(context.Background(), 3*time.Minute)
	defer cancel()
	srv = vfc07NewSrv(ctx)
	cp := *req // stores mutate MinTime/MaxTime of the request
	err = st.Series(&cp, srv)
	if ctx.Err() != nil {
		return srv, err, true
	}
	return srv, err, false
}

// vfc07OwnReq hands every in-process store its own copy of the request, as gRPC does in production
// (BucketStore.Series rewrites MinTime/MaxTime of the request it is given; a ProxyStore passes one
// request object to all its clients).
type vfc07OwnReq struct{ storepb.StoreServer }

func (w vfc07OwnReq) Series(r *storepb.SeriesRequest, srv storepb.Store_SeriesServer) error {
	cp := *r
	return w.StoreServer.Series(&cp, srv)
}

// vfc07SetupErr is panicked by fixture helpers when the harness itself cannot be set up; vfc07Guard
// turns it into an inconclusive run (never a verdict). Fixtures run on worker goroutines, where
// t.Fatal must not be used.
type vfc07SetupErr struct{ msg string }

func vfc07Setup(format string, args ...any) { panic(vfc07SetupErr{fmt.Sprintf(format, args...)}) }

// vfc07Guard runs f; a set-up failure makes the run inconclusive, any other panic is a violation
// "panic:<what>" with the stack as witness (same as vfkit.Guard).
func vfc07Guard(r *vfkit.Run, c int, what string, f func()) {
	defer func() {
		if p := recover(); p != nil {
			if se, ok := p.(vfc07SetupErr); ok {
				r.Inconclusive(fmt.Sprintf("case %d: harness set-up failed: %s", c, se.msg))
				return
			}
			r.Violation(c, "panic:"+what, fmt.Sprintf("panic: %v", p), map[string]any{"case": c, "panic": fmt.Sprint(p), "stack": string(debug.Stack())})
		}
	}()
	f()
}

// vfc07Parallel runs cases [0,n) on at most `workers` goroutines. Every case owns its PRNG stream
// and its fixture, so results do not depend on the interleaving.
func vfc07Parallel(r *vfkit.Run, n, workers int, f func(c int)) {
	var wg sync.WaitGroup
	ch := make(chan int)
	for w := 0; w < workers; w++ {
		wg.Add(1)
		go func() {
			defer wg.Done()
			for c := range ch {
				f(c)
			}
		}()
	}
	for c := 0; c < n; c++ {
		if r.Want(c) {
			ch <- c
		}
	}
	close(ch)
	wg.Wait()
}

// vfc07CPU is the process CPU time so far (user+sys); used for cost logging only, never for verdicts.
func vfc07CPU() time.Duration {
	var ru syscall.Rusage
	if err := syscall.Getrusage(syscall.RUSAGE_SELF, &ru); err != nil {
		return 0
	}
	return time.Duration(ru.Utime.Nano() + ru.Stime.Nano())
}

func vfc07Code(err error) codes.Code {
	if err == nil {
		return codes.OK
	}
	return status.Code(err)
}

func vfc07Lset(zs []labelpb.ZLabel) labels.Labels {
	ls := make([]labels.Label, 0, len(zs))
	for _, z := range zs {
		ls = append(ls, labels.Label{Name: z.Name, Value: z.Value})
	}
	return labels.New(ls...)
}

// ---------------------------------------------------------------------------------------------
// universe / blocks

type vfc07Universe struct {
	names    []string            // stored label names (may collide with external label names)
	values   map[string][]string // per name
	presence map[string]float64  // probability that a series carries the name
	extNames []string            // names used by external label sets
	extSets  []labels.Labels     // candidate external label sets (non-empty)
}

type vfc07SeriesSpec struct {
	id   int
	lset labels.Labels
	ts   []int64
	hist bool
}

type vfc07BlockSpec struct {
	ext        labels.Labels
	series     []vfc07SeriesSpec
	chunkRange int64
	segSize    int64
	resolution int64
	mint, maxt int64 // slot range [mint, maxt) the samples were drawn from
}

type vfc07Block struct {
	vfc07BlockSpec
	id   ulid.ULID
	dir  string
	meta *metadata.Meta
}

type vfc07Opts struct {
	maxBlocks   int
	maxSeries   int
	slots       int  // sample slots per block
	hist        bool // allow native histogram series
	downsampled bool // allow one block to be labelled 5m resolution (raw chunks; label APIs only)
	collide     bool // force stored labels that collide with external label names
	chain       int  // > 0: that many (or one more) consecutive raw blocks with one external label set (one block set)
}

type vfc07Fixture struct {
	dir        string
	blocksDir  string
	u          *vfc07Universe
	blocks     []*vfc07Block
	bkt        *objstore.InMemBucket
	tmin, tmax int64   // [tmin, tmax] covers all samples
	edges      []int64 // interesting timestamps: block and chunk-range boundaries
	nstore     int
}

var vfc07OddValues = []string{"x|y", "é", "a.b", "1 2", ".*", "~1", "v-1", "(", "a;b", "0|1"}

func vfc07GenUniverse(rng *rand.Rand, o vfc07Opts) *vfc07Universe {
	u := &vfc07Universe{values: map[string][]string{}, presence: map[string]float64{}}
	pool := []string{"a", "b", "c", "job", "instance", "zone", "le"}
	rng.Shuffle(len(pool), func(i, j int) { pool[i], pool[j] = pool[j], pool[i] })
	u.names = append(u.names, labels.MetricName)
	u.names = append(u.names, pool[:1+rng.Intn(4)]...)
	u.extNames = []string{"cluster", "replica"}
	if rng.Intn(3) == 0 {
		u.extNames = append(u.extNames, "region")
	}
	// stored labels colliding with external label names
	for _, n := range u.extNames {
		if o.collide || rng.Intn(3) == 0 {
			u.names = append(u.names, n)
		}
	}
	cards := []int{1, 2, 3, 5, 10, 50}
	for _, n := range u.names {
		card := cards[rng.Intn(len(cards))]
		if n == labels.MetricName {
			card = 1 + rng.Intn(4)
		}
		var vs []string
		for i := 0; i < card; i++ {
			switch {
			case n == labels.MetricName:
				vs = append(vs, fmt.Sprintf("metric_%d", i))
			case rng.Intn(12) == 0:
				vs = append(vs, vfc07OddValues[rng.Intn(len(vfc07OddValues))]+fmt.Sprint(i))
			default:
				vs = append(vs, fmt.Sprint(i))
			}
		}
		sort.Strings(vs)
		u.values[n] = vs
		u.presence[n] = []float64{1, 1, 0.7, 0.3}[rng.Intn(4)]
		if n == labels.MetricName {
			u.presence[n] = []float64{1, 1, 1, 0.8}[rng.Intn(4)]
		}
	}
	extVals := map[string][]string{"cluster": {"eu", "us"}, "replica": {"r0", "r1", "r2"}, "region": {"one", "two"}}
	nsets := 1 + rng.Intn(3)
	seen := map[string]bool{}
	for len(u.extSets) < nsets {
		var ls []labels.Label
		for _, n := range u.extNames {
			if rng.Intn(4) != 0 {
				ls = append(ls, labels.Label{Name: n, Value: extVals[n][rng.Intn(len(extVals[n]))]})
			}
		}
		if len(ls) == 0 {
			ls = append(ls, labels.Label{Name: "cluster", Value: "eu"})
		}
		e := labels.New(ls...)
		if seen[e.String()] {
			nsets-- // universe too small for another distinct set
			continue
		}
		seen[e.String()] = true
		u.extSets = append(u.extSets, e)
	}
	return u
}

func vfc07GenLsets(rng *rand.Rand, u *vfc07Universe, n int) []labels.Labels {
	seen := map[string]bool{}
	var out []labels.Labels
	for tries := 0; len(out) < n && tries < n*4; tries++ {
		var ls []labels.Label
		for _, name := range u.names {
			if rng.Float64() < u.presence[name] {
				vs := u.values[name]
				ls = append(ls, labels.Label{Name: name, Value: vs[rng.Intn(len(vs))]})
			}
		}
		if len(ls) == 0 {
			continue
		}
		l := labels.New(ls...)
		if seen[l.String()] {
			continue
		}
		seen[l.String()] = true
		out = append(out, l)
	}
	return out
}

func vfc07GenTimes(rng *rand.Rand, mint int64, slots int) []int64 {
	all := make([]int64, slots)
	for i := range all {
		all[i] = mint + int64(i)*vfc07Step
	}
	switch rng.Intn(7) {
	case 0: // starts late
		return all[rng.Intn(slots):]
	case 1: // ends early
		return all[:1+rng.Intn(slots)]
	case 2: // gappy
		var ts []int64
		for _, t := range all {
			if rng.Intn(2) == 0 {
				ts = append(ts, t)
			}
		}
		if len(ts) == 0 {
			ts = all[:1]
		}
		return ts
	case 3: // a single sample
		i := rng.Intn(slots)
		return all[i : i+1]
	case 4: // a window in the middle
		a := rng.Intn(slots)
		b := a + 1 + rng.Intn(slots-a)
		return all[a:b]
	default:
		return all
	}
}

// vfc07GenFixtureSpec draws the universe and the block specs. Blocks are sequential in time,
// replicas of each other (same range) or half-overlapping.
func vfc07GenFixtureSpec(rng *rand.Rand, o vfc07Opts) (*vfc07Universe, []vfc07BlockSpec) {
	u := vfc07GenUniverse(rng, o)
	nb := 1 + rng.Intn(o.maxBlocks)
	if o.chain > 0 {
		nb = o.chain + rng.Intn(2)
	}
	width := int64(o.slots) * vfc07Step
	nser := 1 + rng.Intn(o.maxSeries)
	if rng.Intn(3) != 0 && nser < o.maxSeries/4 {
		nser += o.maxSeries / 4
	}
	lsets := vfc07GenLsets(rng, u, nser)
	var specs []vfc07BlockSpec
	start := vfc07T0
	for b := 0; b < nb; b++ {
		sp := vfc07BlockSpec{
			ext:        u.extSets[rng.Intn(len(u.extSets))],
			chunkRange: width / []int64{1, 2, 3, 6}[rng.Intn(4)],
			segSize:    []int64{0, 0, 4096, 16384, 65536}[rng.Intn(5)],
		}
		mode := "seq"
		if b > 0 {
			mode = []string{"seq", "seq", "replica", "half"}[rng.Intn(4)]
		}
		if o.chain > 0 {
			mode, sp.ext = "seq", u.extSets[0]
		}
		switch mode {
		case "seq":
			if b > 0 {
				start = specs[b-1].maxt
				if rng.Intn(4) == 0 {
					start += width // a gap between blocks
				}
			}
		case "replica":
			start = specs[b-1].mint
		case "half":
			start = specs[b-1].mint + width/2
		}
		sp.mint, sp.maxt = start, start+width
		if mode == "replica" {
			// same samples for the shared series -> identical chunks when cut the same way
			sp.chunkRange = specs[b-1].chunkRange
			for _, s := range specs[b-1].series {
				if rng.Intn(4) != 0 {
					sp.series = append(sp.series, s)
				}
			}
			if rng.Intn(2) == 0 {
				sp.ext = specs[b-1].ext
			}
		}
		if len(sp.series) == 0 {
			frac := []float64{1, 1, 0.6, 0.3}[rng.Intn(4)]
			for i, l := range lsets {
				if rng.Float64() > frac {
					continue
				}
				sp.series = append(sp.series, vfc07SeriesSpec{
					id: i, lset: l, ts: vfc07GenTimes(rng, sp.mint, o.slots),
					hist: o.hist && rng.Intn(10) == 0,
				})
			}
			if len(sp.series) == 0 {
				sp.series = append(sp.series, vfc07SeriesSpec{id: 0, lset: lsets[0], ts: vfc07GenTimes(rng, sp.mint, o.slots)})
			}
		}
		specs = append(specs, sp)
	}
	if o.downsampled && nb > 1 && rng.Intn(2) == 0 {
		specs[rng.Intn(nb)].resolution = 5 * 60 * 1000
	}
	return u, specs
}

func vfc07Value(id int, t int64) float64 { return float64((id*7919)%1000) + float64((t/100)%50) }

// vfc07WriteBlock appends the series to a fresh head and writes it out as a block with the
// Prometheus leveled compactor (as storetestutil.CreateBlockFromHead does), then injects the
// Thanos meta section.
func vfc07WriteBlock(t testing.TB, blocksDir, scratch string, sp vfc07BlockSpec) *vfc07Block {
	ctx := context.Background()
	ho := tsdb.DefaultHeadOptions()
	ho.ChunkDirRoot = scratch
	ho.ChunkRange = sp.chunkRange
	ho.StripeSize = 32 // the default 16384 stripes cost ~0.3 s per head under the race detector
	h, err := tsdb.NewHead(nil, nil, nil, nil, ho, nil)
	if err != nil {
		vfc07Setup("new head: %v", err)
	}
	app := h.Appender(ctx)
	// Append in global time order: a head rejects samples older than (first sample - chunkRange/2).
	type at struct {
		ts  int64
		idx int
	}
	var order []at
	for i, s := range sp.series {
		for _, ts := range s.ts {
			order = append(order, at{ts, i})
		}
	}
	sort.Slice(order, func(i, j int) bool {
		if order[i].ts != order[j].ts {
			return order[i].ts < order[j].ts
		}
		return order[i].idx < order[j].idx
	})
	for _, o := range order {
		s, ts := sp.series[o.idx], o.ts
		if s.hist {
			_, err = app.AppendHistogram(0, s.lset, ts, tsdbutil.GenerateTestHistogram(int64(s.id%20)+(ts/vfc07Step)%7), nil)
		} else {
			_, err = app.Append(0, s.lset, ts, vfc07Value(s.id, ts))
		}
		if err != nil {
			vfc07Setup("append %s@%d: %v", s.lset, ts, err)
		}
	}
	if err := app.Commit(); err != nil {
		vfc07Setup("commit: %v", err)
	}
	comp, err := tsdb.NewLeveledCompactorWithOptions(ctx, nil, promslog.NewNopLogger(), []int64{1000000}, nil,
		tsdb.LeveledCompactorOptions{MaxBlockChunkSegmentSize: sp.segSize, EnableOverlappingCompaction: true})
	if err != nil {
		vfc07Setup("compactor: %v", err)
	}
	// block intervals are half-open, hence +1 (same as CreateBlockFromHead)
	ids, err := comp.Write(blocksDir, h, h.MinTime(), h.MaxTime()+1, nil)
	if err != nil || len(ids) == 0 {
		vfc07Setup("write block: %v (%d ids)", err, len(ids))
	}
	if err := h.Close(); err != nil {
		vfc07Setup("close head: %v", err)
	}
	_ = os.RemoveAll(filepath.Join(scratch, "chunks_head"))
	bdir := filepath.Join(blocksDir, ids[0].String())
	meta, err := metadata.InjectThanos(log.NewNopLogger(), bdir, metadata.Thanos{
		Labels:     sp.ext.Map(),
		Downsample: metadata.ThanosDownsample{Resolution: sp.resolution},
		Source:     metadata.TestSource,
	}, nil)
	if err != nil {
		vfc07Setup("inject meta: %v", err)
	}
	return &vfc07Block{vfc07BlockSpec: sp, id: ids[0], dir: bdir, meta: meta}
}

// vfc07NewFixture builds the blocks of case rng under dir and uploads them into an in-memory bucket.
func vfc07NewFixture(t testing.TB, rng *rand.Rand, dir string, o vfc07Opts) *vfc07Fixture {
	u, specs := vfc07GenFixtureSpec(rng, o)
	return vfc07FixtureFromSpecs(t, dir, u, specs)
}

// vfc07FixtureFromSpecs writes and uploads the given blocks (also used to replay hand-written witnesses).
func vfc07FixtureFromSpecs(t testing.TB, dir string, u *vfc07Universe, specs []vfc07BlockSpec) *vfc07Fixture {
	fx := &vfc07Fixture{dir: dir, blocksDir: filepath.Join(dir, "blocks"), u: u, bkt: objstore.NewInMemBucket(), tmin: math.MaxInt64, tmax: math.MinInt64}
	if err := os.MkdirAll(fx.blocksDir, 0o777); err != nil {
		vfc07Setup("mkdir: %v", err)
	}
	edges := map[int64]bool{}
	for i, sp := range specs {
		b := vfc07WriteBlock(t, fx.blocksDir, filepath.Join(dir, fmt.Sprintf("head%d", i)), sp)
		if err := block.Upload(context.Background(), log.NewNopLogger(), fx.bkt, b.dir, metadata.NoneFunc); err != nil {
			vfc07Setup("upload: %v", err)
		}
		fx.blocks = append(fx.blocks, b)
		if b.meta.MinTime < fx.tmin {
			fx.tmin = b.meta.MinTime
		}
		if b.meta.MaxTime-1 > fx.tmax {
			fx.tmax = b.meta.MaxTime - 1
		}
		edges[b.meta.MinTime], edges[b.meta.MaxTime], edges[sp.mint], edges[sp.maxt] = true, true, true, true
		for x := sp.mint; x <= sp.maxt; x += sp.chunkRange {
			edges[x] = true
		}
	}
	for e := range edges {
		fx.edges = append(fx.edges, e)
	}
	sort.Slice(fx.edges, func(i, j int) bool { return fx.edges[i] < fx.edges[j] })
	return fx
}

// vfc07Range draws a closed request range [mint, maxt], mint <= maxt, around block/chunk edges.
func (fx *vfc07Fixture) vfc07Range(rng *rand.Rand) (int64, int64) {
	pick := func() int64 {
		switch rng.Intn(4) {
		case 0:
			return fx.tmin + rng.Int63n(fx.tmax-fx.tmin+1)
		case 1:
			return fx.edges[rng.Intn(len(fx.edges))]
		default:
			return fx.edges[rng.Intn(len(fx.edges))] + int64(rng.Intn(3)-1)*[]int64{1, vfc07Step}[rng.Intn(2)]
		}
	}
	switch rng.Intn(10) {
	case 0, 1, 2:
		return fx.tmin, fx.tmax
	case 3:
		return math.MinInt64, math.MaxInt64
	case 4:
		x := pick()
		return x, x
	case 5: // ends exactly on an edge (first sample of a block / chunk, block max time)
		e := fx.edges[rng.Intn(len(fx.edges))]
		return e - []int64{0, 1, vfc07Step, 100 * vfc07Step}[rng.Intn(4)], e
	case 6: // starts exactly on an edge
		e := fx.edges[rng.Intn(len(fx.edges))]
		return e, e + []int64{0, 1, vfc07Step, 100 * vfc07Step}[rng.Intn(4)]
	default:
		a, b := pick(), pick()
		if a > b {
			a, b = b, a
		}
		return a, b
	}
}

// ---------------------------------------------------------------------------------------------
// stores

type vfc07StoreCfg struct {
	cache      string // none | large | tiny
	sampling   int    // index-header postings offset sampling
	estSeries  uint64 // 0: default estimate
	estChunk   uint64
	pooled     bool // real bucketed chunk pool instead of the no-op pool
	gap        uint64
	hints      bool
	lazyReader bool
	delMarks   bool // meta fetcher with IgnoreDeletionMarkFilter(delay 0), as the store gateway runs it
}

func (c vfc07StoreCfg) String() string {
	return fmt.Sprintf("cache=%s sampling=%d estSeries=%d estChunk=%d pooled=%v gap=%d lazyReader=%v", c.cache, c.sampling, c.estSeries, c.estChunk, c.pooled, c.gap, c.lazyReader)
}

func vfc07NewBucketStore(t testing.TB, fx *vfc07Fixture, cfg vfc07StoreCfg) *BucketStore {
	logger := log.NewNopLogger()
	ibkt := objstore.WithNoopInstr(fx.bkt)
	var filters []block.MetadataFilter
	if cfg.delMarks {
		filters = append(filters, block.NewIgnoreDeletionMarkFilter(logger, ibkt, 0, 1))
	}
	fetcher, err := block.NewMetaFetcher(logger, 1, ibkt, block.NewConcurrentLister(logger, ibkt), "", nil, filters)
	if err != nil {
		vfc07Setup("meta fetcher: %v", err)
	}
	fx.nstore++
	opts := []BucketStoreOption{WithLogger(logger)}
	switch cfg.cache {
	case "large":
		c, err := storecache.NewInMemoryIndexCacheWithConfig(logger, nil, nil, storecache.InMemoryIndexCacheConfig{MaxSize: thanosmodel.Bytes(64 << 20), MaxItemSize: thanosmodel.Bytes(8 << 20)})
		if err != nil {
			vfc07Setup("cache: %v", err)
		}
		opts = append(opts, WithIndexCache(c))
	case "tiny":
		c, err := storecache.NewInMemoryIndexCacheWithConfig(logger, nil, nil, storecache.InMemoryIndexCacheConfig{MaxSize: thanosmodel.Bytes(1200), MaxItemSize: thanosmodel.Bytes(400)})
		if err != nil {
			vfc07Setup("cache: %v", err)
		}
		opts = append(opts, WithIndexCache(c))
	}
	if cfg.estSeries > 0 {
		n := cfg.estSeries
		opts = append(opts, WithBlockEstimatedMaxSeriesFunc(func(metadata.Meta) uint64 { return n }))
	}
	if cfg.estChunk > 0 {
		n := cfg.estChunk
		opts = append(opts, WithBlockEstimatedMaxChunkFunc(func(metadata.Meta) uint64 { return n }))
	}
	if cfg.pooled {
		p, err := pool.NewBucketedPool[byte](chunkBytesPoolMinSize, chunkBytesPoolMaxSize, 2, 1<<30)
		if err != nil {
			vfc07Setup("pool: %v", err)
		}
		opts = append(opts, WithChunkPool(p))
	}
	gap := cfg.gap
	if gap == 0 {
		gap = PartitionerMaxGapSize
	}
	sampling := cfg.sampling
	if sampling == 0 {
		sampling = DefaultPostingOffsetInMemorySampling
	}
	st, err := NewBucketStore(ibkt, fetcher, filepath.Join(fx.dir, fmt.Sprintf("store%d", fx.nstore)),
		NewChunksLimiterFactory(0), NewSeriesLimiterFactory(0), NewBytesLimiterFactory(0),
		NewGapBasedPartitioner(gap), 4, sampling, cfg.hints, cfg.lazyReader, time.Hour, opts...)
	if err != nil {
		vfc07Setup("new bucket store: %v", err)
	}
	if err := st.SyncBlocks(context.Background()); err != nil {
		vfc07Setup("sync blocks: %v", err)
	}
	if len(st.blocks) != len(fx.blocks) {
		vfc07Setup("store loaded %d of %d blocks", len(st.blocks), len(fx.blocks))
	}
	return st
}

// vfc07OpenDB opens a real tsdb.DB over the fixture's block directories (they become its persisted
// blocks) and appends head series after the last block.
func vfc07OpenDB(t testing.TB, rng *rand.Rand, fx *vfc07Fixture, headSeries int, slots int) *tsdb.DB {
	o := tsdb.DefaultOptions()
	o.RetentionDuration = math.MaxInt64
	o.WALSegmentSize = -1
	o.StripeSize = 32
	db, err := tsdb.Open(fx.blocksDir, nil, nil, o, nil)
	if err != nil {
		vfc07Setup("open tsdb: %v", err)
	}
	db.DisableCompactions()
	if headSeries > 0 {
		app := db.Appender(context.Background())
		start := fx.tmax + 1 + vfc07Step - (fx.tmax+1)%vfc07Step
		for i, l := range vfc07GenLsets(rng, fx.u, headSeries) {
			for _, ts := range vfc07GenTimes(rng, start, slots) {
				if _, err := app.Append(0, l, ts, vfc07Value(i, ts)); err != nil {
					vfc07Setup("head append: %v", err)
				}
			}
		}
		if err := app.Commit(); err != nil {
			vfc07Setup("head commit: %v", err)
		}
		end := start + int64(slots)*vfc07Step
		fx.edges = append(fx.edges, start, end)
		if end > fx.tmax {
			fx.tmax = end
		}
	}
	return db
}

// vfc07OpenHeadDB opens a fresh tsdb.DB with head series only (a second receive replica that holds
// other series than its twin): n series from the universe, each with the extra label, in [start, start+slots*step).
func vfc07OpenHeadDB(dir string, rng *rand.Rand, u *vfc07Universe, n int, start int64, slots int, extra labels.Label) *tsdb.DB {
	o := tsdb.DefaultOptions()
	o.RetentionDuration = math.MaxInt64
	o.WALSegmentSize = -1
	o.StripeSize = 32
	db, err := tsdb.Open(dir, nil, nil, o, nil)
	if err != nil {
		vfc07Setup("open twin tsdb: %v", err)
	}
	db.DisableCompactions()
	app := db.Appender(context.Background())
	type at struct {
		ts  int64
		idx int
	}
	lsets := vfc07GenLsets(rng, u, n)
	var order []at
	for i := range lsets {
		for _, ts := range vfc07GenTimes(rng, start, slots) {
			order = append(order, at{ts, i})
		}
	}
	sort.Slice(order, func(i, j int) bool {
		if order[i].ts != order[j].ts {
			return order[i].ts < order[j].ts
		}
		return order[i].idx < order[j].idx
	})
	for _, o := range order {
		l := labels.NewBuilder(lsets[o.idx]).Set(extra.Name, extra.Value).Labels()
		if _, err := app.Append(0, l, o.ts, vfc07Value(o.idx+500, o.ts)); err != nil {
			vfc07Setup("twin head append: %v", err)
		}
	}
	if err := app.Commit(); err != nil {
		vfc07Setup("twin head commit: %v", err)
	}
	return db
}

// ---------------------------------------------------------------------------------------------
// matchers

type vfc07M struct {
	m     *labels.Matcher
	shape string
}

func vfc07Quote(vs []string) string {
	q := make([]string, len(vs))
	for i, v := range vs {
		q[i] = regexp.QuoteMeta(v)
	}
	return strings.Join(q, "|")
}

// vfc07GenMatcher draws one valid matcher on name; vals are the values the name takes (may be empty).
func vfc07GenMatcher(rng *rand.Rand, name string, vals []string) vfc07M {
	some := func() string {
		if len(vals) == 0 {
			return "0"
		}
		return vals[rng.Intn(len(vals))]
	}
	few := func() []string {
		n := 1 + rng.Intn(3)
		var out []string
		for i := 0; i < n; i++ {
			out = append(out, some())
		}
		if rng.Intn(5) == 0 {
			out = append(out, "missing")
		}
		if rng.Intn(4) == 0 {
			out = append(out, out[0]) // the same alternative twice: a|b|a
		}
		return out
	}
	type mk struct {
		shape string
		t     labels.MatchType
		v     string
	}
	opts := []mk{
		{"eq", labels.MatchEqual, some()},
		{"eq", labels.MatchEqual, some()},
		{"eq", labels.MatchEqual, some()},
		{"eq-miss", labels.MatchEqual, "missing"},
		{"eq-empty", labels.MatchEqual, ""},
		{"neq", labels.MatchNotEqual, some()},
		{"neq", labels.MatchNotEqual, some()},
		{"neq-empty", labels.MatchNotEqual, ""},
		{"re-set", labels.MatchRegexp, vfc07Quote(few())},
		{"re-set", labels.MatchRegexp, vfc07Quote(few())},
		{"re-set-paren", labels.MatchRegexp, "(" + vfc07Quote(few()) + ")"},
		{"nre-set", labels.MatchNotRegexp, vfc07Quote(few())},
		{"nre-set", labels.MatchNotRegexp, vfc07Quote(few())},
		{"re-all", labels.MatchRegexp, ".*"},
		{"re-plus", labels.MatchRegexp, ".+"},
		{"nre-all", labels.MatchNotRegexp, ".*"},
		{"nre-plus", labels.MatchNotRegexp, ".+"},
		{"re-prefix", labels.MatchRegexp, regexp.QuoteMeta(vfc07FirstRune(some())) + ".*"},
		{"re-suffix", labels.MatchRegexp, ".*" + regexp.QuoteMeta(vfc07LastRune(some()))},
		{"re-class", labels.MatchRegexp, "[0-4].*"},
		{"re-opt", labels.MatchRegexp, "(" + regexp.QuoteMeta(some()) + ")?"},
		{"re-set-empty", labels.MatchRegexp, "|" + vfc07Quote(few())},
		{"re-set-empty", labels.MatchRegexp, vfc07Quote(few()) + "|"},
		{"nre-set-empty", labels.MatchNotRegexp, "|" + vfc07Quote(few())},
		{"nre-prefix", labels.MatchNotRegexp, regexp.QuoteMeta(vfc07FirstRune(some())) + ".+"},
		{"re-empty", labels.MatchRegexp, ""},
		{"nre-empty", labels.MatchNotRegexp, ""},
	}
	for {
		o := opts[rng.Intn(len(opts))]
		m, err := labels.NewMatcher(o.t, name, o.v)
		if err != nil {
			continue // cannot happen for the quoted patterns; draw again
		}
		shape := o.shape
		if strings.Contains(shape, "set") && vfc07HasDupAlt(o.v) {
			shape += "-dup" // the same alternative listed twice, e.g. a|b|a
		}
		return vfc07M{m: m, shape: shape}
	}
}

// vfc07HasDupAlt reports whether a (quoted) alternation lists one alternative more than once.
func vfc07HasDupAlt(pat string) bool {
	pat = strings.TrimSuffix(strings.TrimPrefix(pat, "("), ")")
	seen := map[string]bool{}
	cur := ""
	flush := func() bool {
		if seen[cur] {
			return true
		}
		seen[cur] = true
		cur = ""
		return false
	}
	for i := 0; i < len(pat); i++ {
		switch {
		case pat[i] == '\\' && i+1 < len(pat):
			cur += pat[i : i+2]
			i++
		case pat[i] == '|':
			if flush() {
				return true
			}
		default:
			cur += string(pat[i])
		}
	}
	return flush()
}

func vfc07FirstRune(s string) string {
	for _, r := range s {
		return string(r)
	}
	return "0"
}

func vfc07LastRune(s string) string {
	out := "0"
	for _, r := range s {
		out = string(r)
	}
	return out
}

// vfc07GenMatchers draws 1..3 matchers over stored names, external label names and an absent name;
// a following matcher reuses the previous name with probability 1/3 (merging of posting groups).
func vfc07GenMatchers(rng *rand.Rand, u *vfc07Universe, extProb float64) []vfc07M {
	return vfc07GenMatchersN(rng, u, extProb, []int{1, 1, 1, 2, 2, 3}[rng.Intn(6)])
}

// vfc07GenMatchersMulti draws 2..3 matchers until at least two different stored names are
// constrained (several posting groups: the precondition of lazy posting expansion).
func vfc07GenMatchersMulti(rng *rand.Rand, u *vfc07Universe, extProb float64) []vfc07M {
	var ms []vfc07M
	for try := 0; try < 20; try++ {
		ms = vfc07GenMatchersN(rng, u, extProb, 2+rng.Intn(2))
		names := map[string]bool{}
		for _, m := range ms {
			if _, ok := u.values[m.m.Name]; ok {
				names[m.m.Name] = true
			}
		}
		if len(names) >= 2 {
			break
		}
	}
	return ms
}

// vfc07GenMatchersPositive draws selectors with at least two value-adding matchers (=, =~set, =~".+",
// !="", prefix/class regex) on different stored labels, optionally plus one free matcher: several
// posting groups with keys, which is what lets the store choose lazy posting expansion.
func vfc07GenMatchersPositive(rng *rand.Rand, u *vfc07Universe) []vfc07M {
	positive := map[string]bool{"eq": true, "re-set": true, "re-set-dup": true, "re-set-paren": true, "re-set-paren-dup": true, "re-plus": true, "neq-empty": true, "re-prefix": true, "re-class": true, "nre-empty": true}
	perm := rng.Perm(len(u.names))
	var out []vfc07M
	for _, i := range perm[:2] {
		name := u.names[i]
		for {
			m := vfc07GenMatcher(rng, name, u.values[name])
			if positive[m.shape] {
				out = append(out, m)
				break
			}
		}
	}
	if rng.Intn(3) == 0 {
		name := u.names[rng.Intn(len(u.names))]
		out = append(out, vfc07GenMatcher(rng, name, u.values[name]))
	}
	rng.Shuffle(len(out), func(i, j int) { out[i], out[j] = out[j], out[i] })
	return out
}

// vfc07GenMatchersSameName draws 2..3 matchers that all constrain one stored label (they end up
// in one posting group and are merged key by key), optionally plus one matcher on another name.
func vfc07GenMatchersSameName(rng *rand.Rand, u *vfc07Universe) []vfc07M {
	name := u.names[rng.Intn(len(u.names))]
	vals := u.values[name]
	if rng.Intn(4) != 0 && len(vals) > 2 {
		// the matchers talk about the same one or two values, so that they really interact
		i, j := rng.Intn(len(vals)), rng.Intn(len(vals))
		vals = []string{vals[i], vals[j]}
	}
	var out []vfc07M
	for i := 0; i < 2+rng.Intn(2); i++ {
		out = append(out, vfc07GenMatcher(rng, name, vals))
	}
	if rng.Intn(3) == 0 {
		other := u.names[rng.Intn(len(u.names))]
		out = append(out, vfc07GenMatcher(rng, other, u.values[other]))
	}
	rng.Shuffle(len(out), func(i, j int) { out[i], out[j] = out[j], out[i] })
	return out
}

func vfc07GenMatchersN(rng *rand.Rand, u *vfc07Universe, extProb float64, n int) []vfc07M {
	var out []vfc07M
	extVals := map[string][]string{"cluster": {"eu", "us"}, "replica": {"r0", "r1", "r2"}, "region": {"one", "two"}}
	for i := 0; i < n; i++ {
		var name string
		switch {
		case i > 0 && rng.Intn(3) == 0:
			name = out[i-1].m.Name
		case rng.Float64() < extProb:
			name = u.extNames[rng.Intn(len(u.extNames))]
		case rng.Intn(12) == 0:
			name = "absent"
		default:
			name = u.names[rng.Intn(len(u.names))]
		}
		vals := append([]string(nil), u.values[name]...)
		vals = append(vals, extVals[name]...)
		out = append(out, vfc07GenMatcher(rng, name, vals))
	}
	return out
}

func vfc07Proto(ms []vfc07M) []storepb.LabelMatcher {
	out := make([]storepb.LabelMatcher, 0, len(ms))
	for _, m := range ms {
		var t storepb.LabelMatcher_Type
		switch m.m.Type {
		case labels.MatchEqual:
			t = storepb.LabelMatcher_EQ
		case labels.MatchNotEqual:
			t = storepb.LabelMatcher_NEQ
		case labels.MatchRegexp:
			t = storepb.LabelMatcher_RE
		case labels.MatchNotRegexp:
			t = storepb.LabelMatcher_NRE
		}
		out = append(out, storepb.LabelMatcher{Type: t, Name: m.m.Name, Value: m.m.Value})
	}
	return out
}

func vfc07Proms(ms []vfc07M) []*labels.Matcher {
	out := make([]*labels.Matcher, 0, len(ms))
	for _, m := range ms {
		out = append(out, m.m)
	}
	return out
}

func vfc07MatchersString(ms []vfc07M) string {
	var s []string
	for _, m := range ms {
		s = append(s, m.m.String())
	}
	return "{" + strings.Join(s, ", ") + "}"
}

// vfc07Shapes is the stable class of a selector: sorted matcher shapes, "+same" if a name repeats.
func vfc07Shapes(ms []vfc07M) string {
	var s []string
	names := map[string]int{}
	for _, m := range ms {
		s = append(s, m.shape)
		names[m.m.Name]++
	}
	sort.Strings(s)
	out := strings.Join(s, ",")
	for _, n := range names {
		if n > 1 {
			out += "+same-name"
			break
		}
	}
	return out
}

func vfc07GenReplicaLabels(rng *rand.Rand, u *vfc07Universe) []string {
	if rng.Intn(2) == 0 {
		return nil
	}
	cands := append([]string{"absent"}, u.extNames...)
	cands = append(cands, u.names...)
	var out []string
	seen := map[string]bool{}
	for i := 0; i < 1+rng.Intn(3); i++ {
		c := cands[rng.Intn(len(cands))]
		if c == labels.MetricName || seen[c] {
			continue
		}
		seen[c] = true
		out = append(out, c)
	}
	return out
}

// vfc07SessionRanges draws the ranges of one selector session: the same selectors are issued with
// every range in order, so index caches filled under one range are read under another.
func vfc07SessionRanges(rng *rand.Rand, fx *vfc07Fixture) (string, [][2]int64) {
	slotTime := func() int64 {
		t := fx.tmin + rng.Int63n(fx.tmax-fx.tmin+1)
		return t - t%vfc07Step
	}
	narrow := func() [2]int64 {
		x := slotTime()
		if rng.Intn(3) == 0 {
			x = fx.edges[rng.Intn(len(fx.edges))]
		}
		return [2]int64{x, x + []int64{0, vfc07Step, 3 * vfc07Step, 8 * vfc07Step}[rng.Intn(4)]}
	}
	wide := func() [2]int64 {
		switch rng.Intn(3) {
		case 0:
			return [2]int64{math.MinInt64, math.MaxInt64}
		case 1:
			return [2]int64{fx.tmin - int64(rng.Intn(3))*vfc07Step, fx.tmax + int64(rng.Intn(3))*vfc07Step}
		default:
			return [2]int64{fx.tmin, fx.tmax}
		}
	}
	free := func() [2]int64 { a, b := fx.vfc07Range(rng); return [2]int64{a, b} }
	switch rng.Intn(6) {
	case 0:
		return "single", [][2]int64{free()}
	case 1:
		out := [][2]int64{narrow()}
		if rng.Intn(2) == 0 {
			out = append(out, narrow())
		}
		return "narrow-then-wide", append(out, wide())
	case 2:
		out := [][2]int64{wide(), narrow()}
		if rng.Intn(2) == 0 {
			out = append(out, narrow())
		}
		return "wide-then-narrow", out
	case 3:
		var out [][2]int64
		for i := 0; i < 2+rng.Intn(3); i++ {
			out = append(out, narrow())
		}
		return "disjoint-windows", out
	case 4: // nested ranges growing from one point to everything
		x := slotTime()
		out := [][2]int64{{x, x}}
		for _, d := range []int64{2, 10} {
			if rng.Intn(3) != 0 {
				out = append(out, [2]int64{x - d*vfc07Step, x + d*vfc07Step})
			}
		}
		return "growing", append(out, wide())
	default:
		var out [][2]int64
		for i := 0; i < 2+rng.Intn(3); i++ {
			out = append(out, free())
		}
		return "free-ranges", out
	}
}

// vfc10Tune sets the request-time knobs of the store (they are read at the start of every call).
func vfc10Tune(rng *rand.Rand, st *BucketStore) string {
	st.enabledLazyExpandedPostings = rng.Intn(3) != 0
	st.seriesMatchRatio = []float64{0.5, 0.99, 0.999}[rng.Intn(3)]
	st.postingGroupMaxKeySeriesRatio = []float64{0, 0, 0.02, 2}[rng.Intn(4)]
	st.seriesBatchSize = []int{1, 3, 10000}[rng.Intn(3)]
	lazy := "off"
	if st.enabledLazyExpandedPostings {
		lazy = "on"
	}
	return fmt.Sprintf("lazy=%s ratio=%v keys=%v batch=%d", lazy, st.seriesMatchRatio, st.postingGroupMaxKeySeriesRatio, st.seriesBatchSize)
}

// vfc07DupSetClass names the one selector class that is singled out in fingerprints: a regex set
// matcher that lists the same alternative twice (a|b|a) next to another matcher on the same label.
const vfc07DupSetClass = "dup-alternative-set+same-name"

// vfc07Class is the fingerprint class of a selector.
func vfc07Class(ms []vfc07M) string {
	count := map[string]int{}
	for _, m := range ms {
		count[m.m.Name]++
	}
	for _, m := range ms {
		if strings.HasSuffix(m.shape, "-dup") && count[m.m.Name] > 1 {
			return vfc07DupSetClass
		}
	}
	return vfc07Shapes(ms)
}

var vfc07ExtVals = map[string][]string{"cluster": {"eu", "us"}, "replica": {"r0", "r1", "r2"}, "region": {"one", "two"}, "tenant": {"t1", "t2"}}

// vfc07NextExtSet derives the external label set a store is reconfigured to (as receive does on a
// hashring / external-label reload): one or two of {add a name, remove a name, change a value};
// the result is non-empty and differs from cur.
func vfc07NextExtSet(rng *rand.Rand, cur labels.Labels) labels.Labels {
	names := []string{"cluster", "replica", "region", "tenant"}
	for {
		b := labels.NewBuilder(cur)
		for op := 0; op < 1+rng.Intn(2); op++ {
			n := names[rng.Intn(len(names))]
			switch {
			case !cur.Has(n): // add
				b.Set(n, vfc07ExtVals[n][rng.Intn(len(vfc07ExtVals[n]))])
			case rng.Intn(2) == 0: // remove
				b.Del(n)
			default: // change the value
				for _, v := range vfc07ExtVals[n] {
					if v != cur.Get(n) {
						b.Set(n, v)
						break
					}
				}
			}
		}
		next := b.Labels()
		if !next.IsEmpty() && !labels.Equal(next, cur) {
			return next
		}
	}
}

func vfc07SortedKeys(m map[string]struct{}) []string {
	out := make([]string, 0, len(m))
	for k := range m {
		out = append(out, k)
	}
	sort.Strings(out)
	return out
}

func vfc07DescribeFixture(fx *vfc07Fixture) []map[string]any {
	var out []map[string]any
	for _, b := range fx.blocks {
		out = append(out, map[string]any{"ulid": b.id.String(), "ext": b.ext.String(), "mint": b.meta.MinTime, "maxt": b.meta.MaxTime,
			"series": len(b.series), "chunk_range": b.chunkRange, "seg_size": b.segSize, "resolution": b.resolution})
	}
	return out
}

