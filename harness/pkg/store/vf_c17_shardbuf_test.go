//go:build verif

package store

// C17 part (a): pooled shard-matcher buffers of the proxy are released at most once and are never
// shared by two live requests. Observed through the verifhook points shardbuf.use / shardbuf.put
// (pkg/store/storepb/shard_info.go). The BucketedPool half of C17 lives in pkg/pool.

import (
	"context"
	"errors"
	"fmt"
	"math"
	"math/rand"
	"reflect"
	"runtime"
	"strings"
	"sync"
	"testing"
	"time"

	"github.com/prometheus/prometheus/model/labels"
	"go.uber.org/atomic"

	"github.com/thanos-io/thanos/pkg/component"
	"github.com/thanos-io/thanos/pkg/store/storepb"
	storetestutil "github.com/thanos-io/thanos/pkg/store/storepb/testutil"
	"github.com/thanos-io/thanos/pkg/testutil/e2eutil"
	"github.com/thanos-io/thanos/pkg/verifhook"
	"github.com/thanos-io/thanos/pkg/verifhook/vfkit"
)

const vfc17TagPrefix = "vfreq:"

type vfc17Matcher struct {
	tag      string
	buf      *[]byte
	uses     int
	puts     int
	firstPut string
	log      []string
}

type vfc17Violation struct {
	fp, what string
	tags     []string
	log      []string
}

// vfc17Monitor is the per-buffer / per-matcher automaton fed by the hook. All state is guarded by mu
// and is updated inside the hook call, i.e. at the point where the shadowed state changes.
type vfc17Monitor struct {
	mu      sync.Mutex
	ms      map[*storepb.ShardMatcher]*vfc17Matcher
	holders map[*[]byte]map[*storepb.ShardMatcher]bool // live (used, not yet released) matchers per buffer
	viol    []vfc17Violation
	sig     []byte
	tagIdx  map[string]int
	puts    int
	uses    int
	sameReq int
	noTag   int
	zombie  int // uses of a buffer by a matcher that had already released it
}

func vfc17NewMonitor() *vfc17Monitor {
	return &vfc17Monitor{ms: map[*storepb.ShardMatcher]*vfc17Matcher{}, holders: map[*[]byte]map[*storepb.ShardMatcher]bool{}, tagIdx: map[string]int{}}
}

// vfc17Tag reads the request tag the harness put into ShardInfo.Labels from the matcher's label set.
func vfc17Tag(m *storepb.ShardMatcher) (tag string) {
	defer func() {
		if recover() != nil {
			tag = ""
		}
	}()
	v := reflect.ValueOf(m).Elem().FieldByName("shardingLabelset")
	if !v.IsValid() || v.Kind() != reflect.Map {
		return ""
	}
	for _, k := range v.MapKeys() {
		if s := k.String(); strings.HasPrefix(s, vfc17TagPrefix) {
			return s
		}
	}
	return ""
}

// vfc17Site classifies the call site of a ShardMatcher.Close.
func vfc17Site() string {
	pcs := make([]uintptr, 24)
	n := runtime.Callers(2, pcs)
	fr := runtime.CallersFrames(pcs[:n])
	site := ""
	for {
		f, more := fr.Next()
		fn := f.Function
		switch {
		case strings.Contains(fn, "/losertree."):
			return "losertree-close"
		case strings.Contains(fn, "ProxyStore).Series") && site == "":
			site = "series-deferred-close"
		case strings.Contains(fn, "TSDBStore).Series") && site == "":
			site = "tsdbstore-deferred-close"
		}
		if !more {
			break
		}
	}
	if site == "" {
		site = "other"
	}
	return site
}

func (mon *vfc17Monitor) hook(point string, a, b any) {
	m, ok1 := a.(*storepb.ShardMatcher)
	p, ok2 := b.(*[]byte)
	if !ok1 || !ok2 || m == nil {
		return
	}
	site := ""
	if point == "shardbuf.put" {
		site = vfc17Site()
	}
	mon.mu.Lock()
	defer mon.mu.Unlock()
	st := mon.ms[m]
	if st == nil {
		st = &vfc17Matcher{tag: vfc17Tag(m), buf: p}
		if st.tag == "" {
			mon.noTag++
		}
		mon.ms[m] = st
	}
	ti, ok := mon.tagIdx[st.tag]
	if !ok {
		ti = len(mon.tagIdx)
		mon.tagIdx[st.tag] = ti
	}
	switch point {
	case "shardbuf.use":
		mon.uses++
		st.uses++
		if st.uses <= 3 {
			st.log = append(st.log, "use")
		}
		if len(mon.sig) < 600 {
			mon.sig = append(mon.sig, 'u', byte('a'+ti%26))
		}
		if st.puts == 0 {
			h := mon.holders[p]
			if h == nil {
				h = map[*storepb.ShardMatcher]bool{}
				mon.holders[p] = h
			}
			for other := range h {
				if other == m {
					continue
				}
				os := mon.ms[other]
				if os.tag != st.tag && os.tag != "" && st.tag != "" {
					mon.viol = append(mon.viol, vfc17Violation{
						fp:   "shardbuf-shared-by-two-live-requests",
						what: "a pooled buffer is in use by the shard matchers of two requests none of which has released it",
						tags: []string{st.tag, os.tag}, log: append(append([]string{}, os.log...), st.log...)})
				} else {
					mon.sameReq++
				}
			}
			h[m] = true
		} else {
			mon.zombie++
			// the matcher keeps using a buffer it already returned: it shares it with whoever holds it now
			for other := range mon.holders[p] {
				os := mon.ms[other]
				if other != m && os.tag != st.tag && os.tag != "" && st.tag != "" {
					mon.viol = append(mon.viol, vfc17Violation{
						fp:   "shardbuf-used-after-release-while-held-by-another-request",
						what: "a shard matcher still uses a buffer it already returned to the pool while a live matcher of another request holds the same buffer",
						tags: []string{st.tag, os.tag}, log: append(append([]string{}, st.log...), os.log...)})
				}
			}
		}
	case "shardbuf.put":
		mon.puts++
		st.puts++
		st.log = append(st.log, "put@"+site)
		if len(mon.sig) < 600 {
			mon.sig = append(mon.sig, 'p', byte('a'+ti%26))
		}
		if st.puts == 1 {
			st.firstPut = site
			if h := mon.holders[p]; h != nil {
				delete(h, m)
			}
		} else if st.puts == 2 {
			mon.viol = append(mon.viol, vfc17Violation{
				fp:   fmt.Sprintf("shardbuf-put-twice first=%s second=%s", st.firstPut, site),
				what: fmt.Sprintf("one ShardMatcher returned its pooled buffer to the pool twice (first from %s, again from %s)", st.firstPut, site),
				tags: []string{st.tag}, log: append([]string{}, st.log...)})
		}
	}
}

// drain returns and resets what was observed since the last call.
func (mon *vfc17Monitor) drain() (viol []vfc17Violation, perTag map[string][2]int, sig string) {
	mon.mu.Lock()
	defer mon.mu.Unlock()
	viol = mon.viol
	mon.viol = nil
	perTag = map[string][2]int{}
	for _, st := range mon.ms {
		v := perTag[st.tag]
		v[0] += st.uses
		v[1] += st.puts
		perTag[st.tag] = v
	}
	sig = string(mon.sig)
	mon.sig = mon.sig[:0]
	// matchers (and buffers) stay referenced until the end of the group, so an address is never
	// reused inside a group; between groups everything is quiescent and the maps are reset.
	mon.ms = map[*storepb.ShardMatcher]*vfc17Matcher{}
	mon.holders = map[*[]byte]map[*storepb.ShardMatcher]bool{}
	mon.tagIdx = map[string]int{}
	return
}

type vfc17Req struct {
	Tag         string
	TotalShards int64
	ShardIndex  int64
	By          bool
	Label       string
	NoShardInfo bool
	End         string // normal | cancel | senderr | limit
	K           int
	Strategy    string // abort | warn
}

func (q vfc17Req) class() string {
	return fmt.Sprintf("shards=%d/%d by=%v label=%s noinfo=%v end=%s k=%d strat=%s", q.ShardIndex, q.TotalShards, q.By, q.Label, q.NoShardInfo, q.End, q.K, q.Strategy)
}

func vfc17Frames(rng *rand.Rand) []vfc03Frame {
	var fr []vfc03Frame
	n := rng.Intn(14)
	for a := 1; a <= 4 && len(fr) < n; a++ {
		for _, z := range []string{"", "x", "y", "z"} {
			if rng.Intn(3) == 0 || len(fr) >= n {
				continue
			}
			fr = append(fr, vfc03Frame{Series: []vfc03Series{{Lset: vfc03Lset(fmt.Sprint(a), "", z), Chunks: []vfc03Chunk{{Min: 0, Max: 99, Variant: rng.Intn(2)}}}}})
		}
	}
	return fr
}

func TestVF_C17(t *testing.T) {
	r := vfkit.Start(t, "C17")
	defer r.Finish()
	r.Rule("case = group of 2..6 goroutines x 3..6 sharded Series requests running concurrently through ONE real ProxyStore (shared sync.Pool of shard-matcher buffers; lazy or eager; 1..5 scripted stores with and " +
		"without sharding support (a third of them answer SupportsSharding/SupportsWithoutReplicaLabels differently from call to call), some failing at open/Recv, in a third of the groups also a real TSDBStore); requests end normally, by client cancellation after k sends, by a send error, or by a Limit; " +
		"oracle = automaton over the shardbuf.use/shardbuf.put hook log: a ShardMatcher puts its buffer at most once; a buffer is never in use by live matchers of two different requests; data races are reported by the race detector; " +
		"evaluation = one request; distinct = (strategy, stores, sharding mask, shard parameters, way of ending); non-trivial = the request released at least one pooled buffer; signature = order of use/put events by request")
	r.Assume("a ShardMatcher is live from its first observed use until its first put; requests are told apart by a tag label the harness adds to ShardInfo.Labels (read by reflection from the matcher)")
	r.Assume("buffers that are never returned (stream open error) are not a violation: the statement says at most once")
	groups := r.N(110, 2500)
	r.Require(int64(groups*6), groups)

	mon := vfc17NewMonitor()
	verifhook.SetObj(mon.hook)
	defer verifhook.SetObj(nil)

	// one small real TSDBStore (its Series also takes a buffer from its own pool and releases it by defer)
	db, err := e2eutil.NewTSDB()
	if err != nil {
		t.Fatalf("tsdb: %v", err)
	}
	defer func() { _ = db.Close() }()
	app := db.Appender(context.Background())
	for a := 1; a <= 4; a++ {
		for _, z := range []string{"x", "y"} {
			for ts := int64(1); ts <= 3; ts++ {
				if _, err := app.Append(0, labels.FromStrings("a", fmt.Sprint(a), "z", z), ts, float64(ts)); err != nil {
					t.Fatalf("append: %v", err)
				}
			}
		}
	}
	if err := app.Commit(); err != nil {
		t.Fatalf("commit: %v", err)
	}
	tsdbClient := &storetestutil.TestClient{
		StoreClient: storepb.ServerAsClient(NewTSDBStore(nil, db, component.Rule, labels.FromStrings("region", "eu")), atomic.Bool{}),
		Name:        "vf-tsdbstore", MinTime: math.MinInt64, MaxTime: math.MaxInt64, Shardable: true, WithoutReplicaLabelsEnabled: true,
		ExtLset: []labels.Labels{labels.FromStrings("region", "eu")},
	}

	prev := runtime.GOMAXPROCS(0)
	defer runtime.GOMAXPROCS(prev)
	procs := []int{2, 4, 16, 1}
	reqSeq := 0
	for g := 0; g < groups; g++ {
		if !r.Want(g) {
			continue
		}
		rng := r.Rand(g)
		runtime.GOMAXPROCS(procs[g%len(procs)])
		strategy := vfkit.Pick(rng, []RetrievalStrategy{LazyRetrieval, EagerRetrieval})
		buf := vfkit.Pick(rng, []int{1, 2, 20})
		nStores := 1 + rng.Intn(5)
		var clients []Client
		mask := ""
		for i := 0; i < nStores; i++ {
			fr := vfc17Frames(rng)
			c := &vfc03Client{Name: fmt.Sprintf("vfstore-%d", i), Idx: i, MinT: math.MinInt64, MaxT: math.MaxInt64, WithoutRepl: true,
				Sharding: rng.Intn(3) == 0, HonourCtx: true, DelaySeed: r.Seed()*1_000_003 + int64(g)*977 + int64(i) + 1,
				Frames: func(*storepb.SeriesRequest) []vfc03Frame { return fr }}
			switch rng.Intn(10) {
			case 0:
				c.FaultKind = vfc03FaultOpen
			case 1:
				c.FaultKind, c.FaultAfter = vfc03FaultRecv, rng.Intn(4)
			}
			if rng.Intn(3) == 0 {
				// the endpoint's capabilities change between calls (its info is refreshed concurrently)
				c.CapFlipSeed = r.Seed()*7_000_003 + int64(g)*131 + int64(i) + 1
			}
			switch {
			case c.CapFlipSeed != 0:
				mask += "f"
			case c.Sharding:
				mask += "S"
			default:
				mask += "p"
			}
			if c.FaultKind != 0 {
				mask += "!"
			}
			clients = append(clients, c)
		}
		if rng.Intn(3) == 0 {
			clients = append(clients, tsdbClient)
			mask += "T"
		}
		p := NewProxyStore(nil, nil, func() []Client { return clients }, component.Query, labels.EmptyLabels(), 0, strategy,
			WithLazyRetrievalMaxBufferedResponsesForProxy(buf))

		workers := 2 + rng.Intn(5)
		per := 3 + rng.Intn(4)
		plan := make([][]vfc17Req, workers)
		for w := range plan {
			for k := 0; k < per; k++ {
				reqSeq++
				q := vfc17Req{Tag: fmt.Sprintf("%s%d", vfc17TagPrefix, reqSeq), TotalShards: int64(1 + rng.Intn(4)), By: rng.Intn(2) == 0,
					Label: vfkit.Pick(rng, []string{"a", "z"}), End: vfkit.Pick(rng, []string{"normal", "normal", "normal", "cancel", "senderr", "limit"}),
					K: rng.Intn(5), Strategy: vfkit.Pick(rng, []string{"warn", "warn", "abort"})}
				q.ShardIndex = rng.Int63n(q.TotalShards)
				if rng.Intn(12) == 0 {
					q.NoShardInfo = true
				}
				plan[w] = append(plan[w], q)
			}
		}
		var wg sync.WaitGroup
		start := make(chan struct{})
		for w := range plan {
			wg.Add(1)
			go func(qs []vfc17Req) {
				defer wg.Done()
				<-start
				for _, q := range qs {
					vfc17Do(p, q)
				}
			}(plan[w])
		}
		close(start)
		fin := make(chan struct{})
		go func() { wg.Wait(); close(fin) }()
		select {
		case <-fin:
		case <-time.After(180 * time.Second):
			r.Inconclusive(fmt.Sprintf("group %d: requests did not finish within 180s", g))
			return
		}
		viol, perTag, sig := mon.drain()
		r.Signature(sig)
		for _, qs := range plan {
			for _, q := range qs {
				r.Eval(1)
				if perTag[q.Tag][1] > 0 {
					r.Distinct(fmt.Sprintf("%s|%d|%d|%s|%s", strategy, buf, nStores, mask, q.class()))
					r.Count("requests_releasing_a_buffer", 1)
				}
				if perTag[q.Tag][0] > 0 {
					r.Count("requests_with_proxy_side_sharding", 1)
				}
			}
		}
		byTag := map[string]vfc17Req{}
		for _, qs := range plan {
			for _, q := range qs {
				byTag[q.Tag] = q
			}
		}
		for _, v := range viol {
			var reqs []string
			for _, tg := range v.tags {
				reqs = append(reqs, tg+" "+byTag[tg].class())
			}
			r.Violation(g, v.fp, v.what+fmt.Sprintf(" (retrieval %s)", strategy), map[string]any{
				"retrieval": string(strategy), "lazy_buffer": buf, "stores": mask, "requests": reqs, "matcher_events": v.log,
				"note": "stores: S=supports sharding, p=proxy applies sharding, f=capability answers flip between calls, !=failing, T=real TSDBStore"})
		}
		r.Sample(map[string]any{"retrieval": string(strategy), "stores": mask, "goroutines": workers, "requests": workers * per, "first_request": plan[0][0].class()})
	}
	mon.mu.Lock()
	r.Extra("hook_use_events", mon.uses)
	r.Extra("hook_put_events", mon.puts)
	r.Extra("same_request_buffer_sharing_observed", mon.sameReq)
	r.Extra("uses_after_own_release_observed", mon.zombie)
	r.Extra("matchers_without_request_tag", mon.noTag)
	noTag, puts := mon.noTag, mon.puts
	mon.mu.Unlock()
	if !r.Replaying() && puts == 0 {
		r.Inconclusive("no shardbuf.put event was observed: hook missing or renamed")
	}
	if noTag > 0 {
		r.Inconclusive(fmt.Sprintf("%d shard matchers carried no request tag (ShardMatcher.shardingLabelset not readable): requests cannot be told apart", noTag))
	}
}

// vfc17Do runs one request to its end.
func vfc17Do(p *ProxyStore, q vfc17Req) {
	ctx, cancel := context.WithCancel(context.Background())
	defer cancel()
	srv := vfc03NewServer(ctx)
	switch q.End {
	case "cancel":
		srv.onSend = func(n int) error {
			if n > q.K {
				cancel()
			}
			return nil
		}
		if q.K == 0 {
			cancel()
		}
	case "senderr":
		srv.onSend = func(n int) error {
			if n > q.K {
				return errors.New("vf client went away")
			}
			return nil
		}
	}
	req := &storepb.SeriesRequest{
		MinTime: 0, MaxTime: math.MaxInt64,
		Matchers:                []storepb.LabelMatcher{{Type: storepb.LabelMatcher_RE, Name: "a", Value: ".+"}},
		PartialResponseStrategy: storepb.PartialResponseStrategy_WARN,
	}
	if q.Strategy == "abort" {
		req.PartialResponseStrategy = storepb.PartialResponseStrategy_ABORT
	}
	if q.End == "limit" {
		req.Limit = int64(1 + q.K)
	}
	if !q.NoShardInfo {
		req.ShardInfo = &storepb.ShardInfo{TotalShards: q.TotalShards, ShardIndex: q.ShardIndex, By: q.By, Labels: []string{q.Label, q.Tag}}
	}
	_ = p.Series(req, srv)
}
