//go:build verif

package store

// C15: bucketBlockSet.getFor never exceeds the maximum resolution, never returns a block twice, returns
// only blocks overlapping the query range, and covers every instant of the range that some block of an
// allowed resolution covers.
//
// The real bucketBlockSet is filled through add() with generated metas and queried through getFor();
// the oracle works on the plain (min,max,resolution) triples of the blocks that were added.

import (
	"fmt"
	"math"
	"math/rand"
	"sort"
	"testing"

	"github.com/oklog/ulid/v2"
	"github.com/prometheus/prometheus/model/labels"
	"github.com/prometheus/prometheus/tsdb"

	"github.com/thanos-io/thanos/pkg/block/metadata"
	"github.com/thanos-io/thanos/pkg/compact/downsample"
	"github.com/thanos-io/thanos/pkg/verifhook/vfkit"
)

type vfc15Blk struct {
	Min int64 `json:"min"`
	Max int64 `json:"max"` // exclusive
	Res int64 `json:"resolution"`
}

type vfc15Query struct {
	Mint   int64 `json:"mint"`
	Maxt   int64 `json:"maxt"`
	MaxRes int64 `json:"max_resolution"`
}

var vfc15Res = []int64{downsample.ResLevel0, downsample.ResLevel1, downsample.ResLevel2}

// vfc15GenLevel generates 0..8 blocks of one resolution inside [0,span).
func vfc15GenLevel(rng *rand.Rand, res int64, span int64, mode string) []vfc15Blk {
	n := rng.Intn(9)
	var out []vfc15Blk
	switch mode {
	case "tiling", "gappy":
		t := rng.Int63n(span / 4)
		for i := 0; i < n && t < span; i++ {
			if mode == "gappy" && rng.Intn(2) == 0 {
				t += 1 + rng.Int63n(span/8)
			}
			w := 1 + rng.Int63n(span/6)
			out = append(out, vfc15Blk{Min: t, Max: t + w, Res: res})
			t += w
		}
	case "overlap":
		for i := 0; i < n; i++ {
			a := rng.Int63n(span)
			out = append(out, vfc15Blk{Min: a, Max: a + 1 + rng.Int63n(span/3), Res: res})
		}
	case "nested":
		if n > 0 {
			a := rng.Int63n(span / 2)
			big := vfc15Blk{Min: a, Max: a + span/3 + rng.Int63n(span/3), Res: res}
			out = append(out, big)
			for i := 1; i < n; i++ {
				x := big.Min + rng.Int63n(big.Max-big.Min)
				y := x + 1 + rng.Int63n(big.Max-x)
				if rng.Intn(4) == 0 {
					// a later block after a gap
					x = big.Max + rng.Int63n(span/4)
					y = x + 1 + rng.Int63n(span/6)
				}
				out = append(out, vfc15Blk{Min: x, Max: y, Res: res})
			}
		}
	case "duplicates":
		for i := 0; i < n; i++ {
			a := rng.Int63n(span)
			b := vfc15Blk{Min: a, Max: a + 1 + rng.Int63n(span/4), Res: res}
			out = append(out, b)
			if rng.Intn(3) == 0 {
				out = append(out, b) // two different blocks with the same range (replicated compactor output)
				i++
			}
		}
	}
	return out
}

func vfc15GenLayout(rng *rand.Rand) ([]vfc15Blk, string) {
	span := vfkit.Pick(rng, []int64{24, 60, 200, 1000})
	modes := []string{"tiling", "gappy", "overlap", "nested", "duplicates"}
	shape := vfkit.Pick(rng, []string{"independent", "partially-downsampled", "raw-only", "no-raw"})
	var out []vfc15Blk
	desc := shape
	for li, res := range vfc15Res {
		if (shape == "raw-only" && li > 0) || (shape == "no-raw" && li == 0) {
			continue
		}
		m := vfkit.Pick(rng, modes)
		lv := vfc15GenLevel(rng, res, span, m)
		if shape == "partially-downsampled" && li > 0 {
			// the downsampled levels cover only part of the span: drop a random prefix/suffix/middle
			var kept []vfc15Blk
			lo, hi := rng.Int63n(span), rng.Int63n(span)
			if lo > hi {
				lo, hi = hi, lo
			}
			hole := rng.Intn(2) == 0
			for _, b := range lv {
				in := b.Min >= lo && b.Max <= hi
				if in != hole {
					kept = append(kept, b)
				}
			}
			lv = kept
		}
		desc += fmt.Sprintf("/%s:%d", m, len(lv))
		out = append(out, lv...)
	}
	return vfkit.Perm(rng, out), desc
}

func vfc15GenQuery(rng *rand.Rand, blks []vfc15Blk) vfc15Query {
	var pts []int64
	for _, b := range blks {
		pts = append(pts, b.Min-1, b.Min, b.Min+1, b.Max-1, b.Max, b.Max+1)
	}
	pts = append(pts, -5, 0, 1200)
	pick := func() int64 {
		if rng.Intn(5) == 0 {
			return rng.Int63n(1100) - 50
		}
		return pts[rng.Intn(len(pts))]
	}
	q := vfc15Query{Mint: pick(), Maxt: pick()}
	if q.Mint > q.Maxt && rng.Intn(10) != 0 {
		q.Mint, q.Maxt = q.Maxt, q.Mint
	}
	if rng.Intn(6) == 0 {
		q.Mint, q.Maxt = math.MinInt64/2, math.MaxInt64/2
	}
	q.MaxRes = vfkit.Pick(rng, []int64{0, 1, downsample.ResLevel1 - 1, downsample.ResLevel1, downsample.ResLevel1 + 1,
		downsample.ResLevel2 - 1, downsample.ResLevel2, downsample.ResLevel2 + 1, math.MaxInt64})
	return q
}

// vfc15Run builds a real block set from blks (added in the given order) and runs the real getFor.
// It returns, for every returned block, the index into blks.
func vfc15Run(blks []vfc15Blk, q vfc15Query) ([]int, error) {
	set := newBucketBlockSet(labels.EmptyLabels())
	idx := map[*bucketBlock]int{}
	for i, b := range blks {
		m := &metadata.Meta{BlockMeta: tsdb.BlockMeta{ULID: ulid.MustNew(uint64(i+1), nil), MinTime: b.Min, MaxTime: b.Max, Version: 1}}
		m.Thanos.Downsample.Resolution = b.Res
		bb := &bucketBlock{meta: m}
		idx[bb] = i
		if err := set.add(bb); err != nil {
			return nil, err
		}
	}
	got := set.getFor(q.Mint, q.Maxt, q.MaxRes, nil)
	out := make([]int, 0, len(got))
	for _, g := range got {
		i, ok := idx[g]
		if !ok {
			return nil, fmt.Errorf("getFor returned a block that was never added")
		}
		out = append(out, i)
	}
	return out, nil
}

// vfc15Check is the oracle: "" when the selection satisfies the property, else fingerprint + text.
func vfc15Check(blks []vfc15Blk, q vfc15Query, got []int) (string, string) {
	seen := map[int]bool{}
	for _, i := range got {
		b := blks[i]
		if b.Res > q.MaxRes {
			return "resolution-exceeds-max", fmt.Sprintf("block #%d [%d,%d) has resolution %d > max resolution %d", i, b.Min, b.Max, b.Res, q.MaxRes)
		}
		if seen[i] {
			return "duplicate-block", fmt.Sprintf("block #%d [%d,%d) res %d is selected twice", i, b.Min, b.Max, b.Res)
		}
		seen[i] = true
		if !(b.Min <= q.Maxt && b.Max > q.Mint) || q.Mint > q.Maxt {
			return "block-outside-range", fmt.Sprintf("block #%d [%d,%d) does not overlap the query range [%d,%d]", i, b.Min, b.Max, q.Mint, q.Maxt)
		}
	}
	if q.Mint > q.Maxt {
		return "", ""
	}
	// coverage: the uncovered-but-coverable set is a union of intervals whose left ends are mint, a block
	// start or a block end; probing those points (and their neighbours) inside the range decides it.
	probe := []int64{q.Mint, q.Maxt}
	for _, b := range blks {
		probe = append(probe, b.Min-1, b.Min, b.Min+1, b.Max-1, b.Max, b.Max+1)
	}
	for _, t := range probe {
		if t < q.Mint || t > q.Maxt {
			continue
		}
		coverable, covered := -1, false
		for i, b := range blks {
			if b.Res <= q.MaxRes && b.Min <= t && t < b.Max {
				coverable = i
			}
		}
		if coverable < 0 {
			continue
		}
		for _, i := range got {
			if blks[i].Min <= t && t < blks[i].Max {
				covered = true
				break
			}
		}
		if !covered {
			b := blks[coverable]
			return "uncovered-instant", fmt.Sprintf("instant %d of the range [%d,%d] is covered by block #%d [%d,%d) of allowed resolution %d but by no selected block", t, q.Mint, q.Maxt, coverable, b.Min, b.Max, b.Res)
		}
	}
	return "", ""
}

// vfc15Shrink removes blocks greedily while the same fingerprint is still produced.
func vfc15Shrink(blks []vfc15Blk, q vfc15Query, fp string) []vfc15Blk {
	cur := append([]vfc15Blk(nil), blks...)
	for changed := true; changed; {
		changed = false
		for i := 0; i < len(cur); i++ {
			cand := append(append([]vfc15Blk(nil), cur[:i]...), cur[i+1:]...)
			got, err := vfc15Run(cand, q)
			if err != nil {
				continue
			}
			if f, _ := vfc15Check(cand, q, got); f == fp {
				cur = cand
				changed = true
				i--
			}
		}
	}
	sort.Slice(cur, func(i, j int) bool {
		if cur[i].Res != cur[j].Res {
			return cur[i].Res > cur[j].Res
		}
		return cur[i].Min < cur[j].Min
	})
	return cur
}

func TestVF_C15(t *testing.T) {
	r := vfkit.Start(t, "C15")
	defer r.Finish()
	r.Rule("case = block layout (0..8 blocks per resolution raw/5m/1h; per-level modes tiling, gappy, overlapping, nested, same-range duplicates; shapes independent, partially downsampled, raw only, no raw; added in random order) x 10 queries " +
		"(range ends at block boundaries +-1, random, inverted, unbounded; max resolution in {0,1,5m-1,5m,5m+1,1h-1,1h,1h+1,max}); the real add()/getFor() run on it; " +
		"oracle on the (min,max,resolution) triples: resolution<=max, no block twice, every block overlaps [mint,maxt], every probed instant (all block boundaries +-1, mint, maxt) covered by an allowed block is covered by a selected block; " +
		"distinct = hash of layout+query; non-trivial = at least two resolutions allowed and populated and at least one block selected")
	r.Assume("max resolution >= 0 (the query API rejects negative values; getFor indexes out of range for them)")
	r.Assume("block MinTime < MaxTime")
	n := r.N(20000, 300000)
	r.Require(int64(n)*10, n)
	for c := 0; c < n; c++ {
		if !r.Want(c) {
			continue
		}
		rng := r.Rand(c)
		blks, desc := vfc15GenLayout(rng)
		for k := 0; k < 10; k++ {
			q := vfc15GenQuery(rng, blks)
			wit := map[string]any{"layout": desc, "blocks_in_add_order": blks, "query": q}
			r.Guard(c, "getFor", wit, func() {
				got, err := vfc15Run(blks, q)
				if err != nil {
					t.Fatalf("harness: %v", err)
				}
				r.Eval(1)
				levels := map[int64]bool{}
				for _, b := range blks {
					if b.Res <= q.MaxRes {
						levels[b.Res] = true
					}
				}
				if len(levels) >= 2 && len(got) > 0 {
					r.Distinct(fmt.Sprintf("%v|%v", blks, q))
				}
				if k == 0 {
					r.Sample(map[string]any{"layout": desc, "blocks": len(blks), "query": q, "selected": len(got)})
				}
				if fp, what := vfc15Check(blks, q, got); fp != "" {
					min := vfc15Shrink(blks, q, fp)
					mgot, _ := vfc15Run(min, q)
					_, mwhat := vfc15Check(min, q, mgot)
					wit["selected_block_indexes"] = got
					wit["shrunk_blocks"] = min
					wit["shrunk_selected_indexes"] = mgot
					wit["shrunk_what"] = mwhat
					r.Violation(c, fp, what+fmt.Sprintf(" (layout %s; shrunk to %d blocks: %v query %+v: %s)", desc, len(min), min, q, mwhat), wit)
				}
			})
		}
	}
}
