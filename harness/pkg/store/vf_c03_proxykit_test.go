//go:build verif

package store

// Shared fake StoreAPI kit of group grpA-proxy: scripted store.Client implementations with
// PRNG delays and fault points, and a recording Store_SeriesServer. Used by C03, C06 and C17.
// Nothing here decides a verdict.

import (
	"context"
	"errors"
	"fmt"
	"io"
	"math/rand"
	"runtime"
	"sort"
	"strings"
	"sync"
	"sync/atomic"
	"time"

	pkgerrors "github.com/pkg/errors"
	"github.com/prometheus/prometheus/model/labels"
	"github.com/prometheus/prometheus/tsdb/chunkenc"
	"google.golang.org/grpc"
	"google.golang.org/grpc/codes"
	"google.golang.org/grpc/status"

	"github.com/thanos-io/thanos/pkg/info/infopb"
	"github.com/thanos-io/thanos/pkg/store/labelpb"
	"github.com/thanos-io/thanos/pkg/store/storepb"
)

// vfc03Chunk is the specification of one chunk. The encoded bytes are a function of
// (Min, Max, Variant, Aggr) only, like real chunk bytes are a function of their samples.
type vfc03Chunk struct {
	Min, Max int64
	Variant  int
	Aggr     bool
	// aggregated chunks only: the aggregate fields with index >= TailFrom (0 Count, 1 Sum, 2 Min, 3 Max, 4 Counter) are
	// encoded from TailVariant instead of Variant (TailFrom 0: no tail). Such a chunk agrees with the plain chunk of the
	// same range and Variant in its first TailFrom aggregates only.
	TailFrom    int
	TailVariant int
}

func (c vfc03Chunk) String() string {
	k := "raw"
	if c.Aggr {
		k = "aggr"
	}
	if c.Aggr && c.TailFrom > 0 {
		return fmt.Sprintf("%s[%d,%d]v%d/from-field-%d:v%d", k, c.Min, c.Max, c.Variant, c.TailFrom, 100+c.TailVariant)
	}
	return fmt.Sprintf("%s[%d,%d]v%d", k, c.Min, c.Max, c.Variant)
}

var vfc03ChunkCache sync.Map // vfc03Chunk -> [][]byte

func vfc03XOR(min, max int64, v float64) []byte {
	c := chunkenc.NewXORChunk()
	a, err := c.Appender()
	if err != nil {
		panic(err)
	}
	a.Append(min, v)
	if max > min {
		a.Append(max, v+1)
	}
	b := c.Bytes()
	out := make([]byte, len(b))
	copy(out, b)
	return out
}

func vfc03ChunkData(c vfc03Chunk) [][]byte {
	if v, ok := vfc03ChunkCache.Load(c); ok {
		return v.([][]byte)
	}
	n := 1
	if c.Aggr {
		n = 5
	}
	out := make([][]byte, n)
	for i := range out {
		salt := i
		if !c.Aggr {
			salt = 9 // raw sample bytes never equal the bytes of an aggregate of the same range
		}
		v := c.Variant
		if c.Aggr && c.TailFrom > 0 && i >= c.TailFrom {
			v = 100 + c.TailVariant
		}
		out[i] = vfc03XOR(c.Min, c.Max, float64(v*10+salt))
	}
	vfc03ChunkCache.Store(c, out)
	return out
}

// vfc03Build encodes the chunk as a store would send it.
func vfc03Build(c vfc03Chunk) storepb.AggrChunk {
	d := vfc03ChunkData(c)
	mk := func(b []byte) *storepb.Chunk { return &storepb.Chunk{Type: storepb.Chunk_XOR, Data: b} }
	if !c.Aggr {
		return storepb.AggrChunk{MinTime: c.Min, MaxTime: c.Max, Raw: mk(d[0])}
	}
	return storepb.AggrChunk{MinTime: c.Min, MaxTime: c.Max, Count: mk(d[0]), Sum: mk(d[1]), Min: mk(d[2]), Max: mk(d[3]), Counter: mk(d[4])}
}

// vfc03ChunkKey is the identity of an observed chunk: time range and the bytes of every field.
func vfc03ChunkKey(c storepb.AggrChunk) string {
	var sb strings.Builder
	fmt.Fprintf(&sb, "%d|%d", c.MinTime, c.MaxTime)
	for _, f := range []*storepb.Chunk{c.Raw, c.Count, c.Sum, c.Min, c.Max, c.Counter} {
		if f == nil {
			sb.WriteString("|-")
			continue
		}
		fmt.Fprintf(&sb, "|%d:%x", f.Type, f.Data)
	}
	return sb.String()
}

type vfc03Series struct {
	Lset   labels.Labels
	Chunks []vfc03Chunk
}

// vfc03Frame is one message of a store's stream.
type vfc03Frame struct {
	Series []vfc03Series // one series (plain frame) or several (Batch)
	Batch  bool
	Warn   string // non-empty: a warning frame
}

func (f vfc03Frame) build() *storepb.SeriesResponse {
	if f.Warn != "" {
		return storepb.NewWarnSeriesResponse(errors.New(f.Warn))
	}
	mk := func(s vfc03Series) *storepb.Series {
		ser := &storepb.Series{Labels: labelpb.ZLabelsFromPromLabels(s.Lset.Copy())}
		for _, c := range s.Chunks {
			ser.Chunks = append(ser.Chunks, vfc03Build(c))
		}
		return ser
	}
	if f.Batch {
		out := make([]*storepb.Series, 0, len(f.Series))
		for _, s := range f.Series {
			out = append(out, mk(s))
		}
		return storepb.NewBatchResponse(out)
	}
	return storepb.NewSeriesResponse(mk(f.Series[0]))
}

const (
	vfc03FaultNone  = 0
	vfc03FaultOpen  = 1 // Series() returns an error
	vfc03FaultRecv  = 2 // Recv returns an error after FaultAfter frames
	vfc03FaultBlock = 3 // Recv blocks after FaultAfter frames until the stream context ends
)

// vfc03Trace records the order in which the stores' frames were pulled.
type vfc03Trace struct {
	mu  sync.Mutex
	seq []byte
}

func (t *vfc03Trace) add(b byte) {
	if t == nil {
		return
	}
	t.mu.Lock()
	if len(t.seq) < 4096 {
		t.seq = append(t.seq, b)
	}
	t.mu.Unlock()
}

func (t *vfc03Trace) String() string {
	t.mu.Lock()
	defer t.mu.Unlock()
	return string(t.seq)
}

// vfc03Client is a scripted store.Client.
type vfc03Client struct {
	Name        string
	Idx         int
	Lsets       []labels.Labels
	MinT, MaxT  int64
	Sharding    bool
	WithoutRepl bool
	Local       bool

	// Frames returns the frames for one request (specifications are immutable; every call
	// encodes fresh response objects because the proxy may modify what it receives).
	Frames func(req *storepb.SeriesRequest) []vfc03Frame

	FaultKind  int
	FaultAfter int
	ErrShape   int   // index into vfc03ErrShapes: what the injected open / Recv error looks like
	HonourCtx  bool  // Recv returns ctx.Err() once the stream context is done (as gRPC does)
	DelaySeed  int64 // 0: no delays
	Trace      *vfc03Trace
	// RecvDelay[i] is slept (ignoring the stream context) before frame i is returned; index len(frames) delays the EOF.
	RecvDelay []time.Duration

	// CapFlipSeed != 0: SupportsSharding / SupportsWithoutReplicaLabels answer pseudo-randomly per call (an endpoint whose
	// advertised capabilities are refreshed concurrently); Sharding / WithoutRepl are then ignored.
	CapFlipSeed int64
	capCalls    atomic.Int64

	calls       atomic.Int64
	failures    atomic.Int64 // streams (or opens) of this client that ended with a non-EOF error of any origin
	ctxFailures atomic.Int64 // of those: the fake only relayed that the proxy had cancelled the stream context (HonourCtx)
	maxRecvNs   atomic.Int64 // longest single Recv call, monotonic clock
}

// vfc03ErrShapes are the shapes a stream failure can have. Only the value io.EOF itself means "clean end of stream".
var vfc03ErrShapes = []string{"plain", "wrap-eof", "fmt-w-eof", "unexpected-eof", "grpc-unavailable", "grpc-deadline", "grpc-canceled", "ctx-canceled", "ctx-deadline"}

func vfc03MakeErr(shape int, msg string) error {
	switch vfc03ErrShapes[shape%len(vfc03ErrShapes)] {
	case "wrap-eof":
		return pkgerrors.Wrap(io.EOF, msg+": stream truncated")
	case "fmt-w-eof":
		return fmt.Errorf("%s: %w", msg, io.EOF)
	case "unexpected-eof":
		return io.ErrUnexpectedEOF
	case "grpc-unavailable":
		return status.Error(codes.Unavailable, msg+": transport is closing: EOF")
	case "grpc-deadline":
		return status.Error(codes.DeadlineExceeded, msg)
	case "grpc-canceled":
		return status.Error(codes.Canceled, msg)
	case "ctx-canceled":
		return context.Canceled
	case "ctx-deadline":
		return context.DeadlineExceeded
	}
	return errors.New(msg)
}

func (c *vfc03Client) LabelSets() []labels.Labels             { return c.Lsets }
func (c *vfc03Client) TimeRange() (int64, int64)              { return c.MinT, c.MaxT }
func (c *vfc03Client) TSDBInfos() []infopb.TSDBInfo           { return nil }
func (c *vfc03Client) String() string                         { return c.Name }
func (c *vfc03Client) Addr() (string, bool)                   { return c.Name, c.Local }
func (c *vfc03Client) Matches(matches []*labels.Matcher) bool { return true }

func (c *vfc03Client) capFlip() bool {
	x := uint64(c.CapFlipSeed)*0x9e3779b97f4a7c15 + uint64(c.capCalls.Add(1))*0xbf58476d1ce4e5b9
	x ^= x >> 31
	x *= 0x94d049bb133111eb
	return (x>>33)&1 == 1
}

func (c *vfc03Client) SupportsSharding() bool {
	if c.CapFlipSeed != 0 {
		return c.capFlip()
	}
	return c.Sharding
}

func (c *vfc03Client) SupportsWithoutReplicaLabels() bool {
	if c.CapFlipSeed != 0 {
		return c.capFlip()
	}
	return c.WithoutRepl
}

func (c *vfc03Client) LabelNames(context.Context, *storepb.LabelNamesRequest, ...grpc.CallOption) (*storepb.LabelNamesResponse, error) {
	return &storepb.LabelNamesResponse{}, nil
}

func (c *vfc03Client) LabelValues(context.Context, *storepb.LabelValuesRequest, ...grpc.CallOption) (*storepb.LabelValuesResponse, error) {
	return &storepb.LabelValuesResponse{}, nil
}

func (c *vfc03Client) Series(ctx context.Context, req *storepb.SeriesRequest, _ ...grpc.CallOption) (storepb.Store_SeriesClient, error) {
	n := c.calls.Add(1)
	if c.FaultKind == vfc03FaultOpen {
		c.failures.Add(1)
		return nil, vfc03MakeErr(c.ErrShape, fmt.Sprintf("vf injected open error at %s", c.Name))
	}
	st := &vfc03Stream{c: c, ctx: ctx, frames: c.Frames(req)}
	if c.DelaySeed != 0 {
		st.rng = rand.New(rand.NewSource(c.DelaySeed*1000003 + n))
	}
	return st, nil
}

type vfc03Stream struct {
	storepb.Store_SeriesClient
	c      *vfc03Client
	ctx    context.Context
	frames []vfc03Frame
	i      int
	rng    *rand.Rand
	failed bool
}

func (s *vfc03Stream) fail(err error) (*storepb.SeriesResponse, error) {
	if !s.failed {
		s.failed = true
		s.c.failures.Add(1)
	}
	return nil, err
}

func (s *vfc03Stream) Recv() (*storepb.SeriesResponse, error) {
	start := time.Now()
	defer func() {
		d := int64(time.Since(start))
		for {
			cur := s.c.maxRecvNs.Load()
			if d <= cur || s.c.maxRecvNs.CompareAndSwap(cur, d) {
				break
			}
		}
	}()
	if s.rng != nil {
		// Delays at the client boundary, where the real system also suspends.
		switch s.rng.Intn(8) {
		case 0, 1, 2:
			runtime.Gosched()
		case 3:
			time.Sleep(time.Duration(1+s.rng.Intn(200)) * time.Microsecond)
		}
	}
	if s.c.HonourCtx && s.ctx.Err() != nil {
		if !s.failed {
			s.c.ctxFailures.Add(1)
		}
		return s.fail(s.ctx.Err())
	}
	if s.c.FaultKind == vfc03FaultRecv && s.i >= s.c.FaultAfter {
		return s.fail(vfc03MakeErr(s.c.ErrShape, fmt.Sprintf("vf injected recv error at %s after %d frames", s.c.Name, s.i)))
	}
	if s.c.FaultKind == vfc03FaultBlock && s.i >= s.c.FaultAfter {
		<-s.ctx.Done()
		return s.fail(s.ctx.Err())
	}
	if s.i < len(s.c.RecvDelay) && s.c.RecvDelay[s.i] > 0 {
		time.Sleep(s.c.RecvDelay[s.i])
	}
	if s.i >= len(s.frames) {
		return nil, io.EOF
	}
	f := s.frames[s.i]
	s.i++
	s.c.Trace.add(byte('0' + s.c.Idx))
	return f.build(), nil
}

func (s *vfc03Stream) Context() context.Context { return s.ctx }
func (s *vfc03Stream) CloseSend() error         { return nil }

// vfc03Server records what ProxyStore.Series sends.
type vfc03Server struct {
	storepb.Store_SeriesServer
	ctx context.Context

	mu       sync.Mutex
	series   []*storepb.Series
	warnings []string
	shapes   []int // series per message, -1 for a warning, -2 other
	onSend   func(nth int) error
	// raw retains the response objects exactly as they were handed to Send; they are decoded only after Series returned
	// (a streaming transport may marshal a frame after Send has returned).
	raw []*storepb.SeriesResponse
}

func vfc03NewServer(ctx context.Context) *vfc03Server { return &vfc03Server{ctx: ctx} }

func (s *vfc03Server) Context() context.Context { return s.ctx }

func (s *vfc03Server) Send(r *storepb.SeriesResponse) error {
	s.mu.Lock()
	defer s.mu.Unlock()
	s.raw = append(s.raw, r)
	switch {
	case r.GetWarning() != "":
		s.warnings = append(s.warnings, r.GetWarning())
		s.shapes = append(s.shapes, -1)
	case r.GetSeries() != nil:
		s.series = append(s.series, r.GetSeries())
		s.shapes = append(s.shapes, 1)
	case r.GetBatch() != nil:
		s.series = append(s.series, r.GetBatch().Series...)
		s.shapes = append(s.shapes, len(r.GetBatch().Series))
	default:
		s.shapes = append(s.shapes, -2)
	}
	if s.onSend != nil {
		return s.onSend(len(s.shapes))
	}
	return nil
}

// vfc03Out is one flattened output series.
type vfc03Out struct {
	Lset   labels.Labels
	Chunks []storepb.AggrChunk
}

func (s *vfc03Server) flat() ([]vfc03Out, []string) {
	s.mu.Lock()
	defer s.mu.Unlock()
	out := make([]vfc03Out, 0, len(s.series))
	for _, ser := range s.series {
		out = append(out, vfc03Out{Lset: labelpb.ZLabelsToPromLabels(ser.Labels).Copy(), Chunks: ser.Chunks})
	}
	return out, append([]string(nil), s.warnings...)
}

// flatRetained decodes the retained response objects now (to be called after Series returned).
func (s *vfc03Server) flatRetained() ([]vfc03Out, []string) {
	s.mu.Lock()
	defer s.mu.Unlock()
	var out []vfc03Out
	var warns []string
	add := func(ser *storepb.Series) {
		out = append(out, vfc03Out{Lset: labelpb.ZLabelsToPromLabels(ser.Labels).Copy(), Chunks: ser.Chunks})
	}
	for _, r := range s.raw {
		switch {
		case r.GetWarning() != "":
			warns = append(warns, r.GetWarning())
		case r.GetSeries() != nil:
			add(r.GetSeries())
		case r.GetBatch() != nil:
			for _, ser := range r.GetBatch().Series {
				add(ser)
			}
		}
	}
	return out, warns
}

func vfc03FmtOut(out []vfc03Out) []string {
	var res []string
	for _, o := range out {
		var cs []string
		for _, c := range o.Chunks {
			cs = append(cs, fmt.Sprintf("[%d,%d]#%x", c.MinTime, c.MaxTime, vfc03ShortHash(vfc03ChunkKey(c))))
		}
		res = append(res, o.Lset.String()+" "+strings.Join(cs, " "))
	}
	return res
}

func vfc03ShortHash(s string) uint32 {
	var h uint32 = 2166136261
	for i := 0; i < len(s); i++ {
		h ^= uint32(s[i])
		h *= 16777619
	}
	return h
}

func vfc03FmtFrames(frames []vfc03Frame) []string {
	var res []string
	for _, f := range frames {
		if f.Warn != "" {
			res = append(res, "warn:"+f.Warn)
			continue
		}
		var ss []string
		for _, s := range f.Series {
			var cs []string
			for _, c := range s.Chunks {
				cs = append(cs, c.String())
			}
			ss = append(ss, s.Lset.String()+strings.Join(cs, ","))
		}
		p := "frame"
		if f.Batch {
			p = "batch"
		}
		res = append(res, p+"{"+strings.Join(ss, " ; ")+"}")
	}
	return res
}

func vfc03SortChunks(cs []vfc03Chunk) {
	sort.Slice(cs, func(i, j int) bool {
		if cs[i].Min != cs[j].Min {
			return cs[i].Min < cs[j].Min
		}
		if cs[i].Max != cs[j].Max {
			return cs[i].Max < cs[j].Max
		}
		if cs[i].Variant != cs[j].Variant {
			return cs[i].Variant < cs[j].Variant
		}
		return !cs[i].Aggr && cs[j].Aggr
	})
}

const vfc03ReplicaLabel = "k"

func vfc03Lset(a, k, z string) labels.Labels {
	var kv []string
	kv = append(kv, "a", a)
	if k != "" {
		kv = append(kv, vfc03ReplicaLabel, k)
	}
	if z != "" {
		kv = append(kv, "z", z)
	}
	return labels.FromStrings(kv...)
}
