//go:build verif

package store

// C09 — Series request limits are enforced (BucketStore series / chunk limiters).

import (
	"fmt"
	"math/rand"
	"os"
	"path/filepath"
	"runtime"
	"sort"
	"sync"
	"sync/atomic"
	"testing"

	"github.com/alecthomas/units"
	"github.com/prometheus/client_golang/prometheus"

	"github.com/prometheus/client_golang/prometheus/testutil"
	"google.golang.org/grpc/codes"

	"github.com/thanos-io/thanos/pkg/store/storepb"
	"github.com/thanos-io/thanos/pkg/verifhook/vfkit"
)

type vfc09Answer struct {
	series int
	chunks int
	keys   []string // "labels|nchunks" sorted
}

func vfc09Summarise(frames []*storepb.Series) vfc09Answer {
	a := vfc09Answer{series: len(frames)}
	for _, f := range frames {
		a.chunks += len(f.Chunks)
		a.keys = append(a.keys, fmt.Sprintf("%s|%d", vfc07Lset(f.Labels), len(f.Chunks)))
	}
	sort.Strings(a.keys)
	return a
}

func vfc09Same(a, b vfc09Answer) bool {
	if a.series != b.series || a.chunks != b.chunks || len(a.keys) != len(b.keys) {
		return false
	}
	for i := range a.keys {
		if a.keys[i] != b.keys[i] {
			return false
		}
	}
	return true
}

func vfc09Limits(rng *rand.Rand, n int) []uint64 {
	var out []uint64
	for _, v := range []int{n - 1, n, n + 1, 1, 2 * n, n / 2} {
		if v > 0 {
			out = append(out, uint64(v))
		}
	}
	rng.Shuffle(len(out), func(i, j int) { out[i], out[j] = out[j], out[i] })
	return out
}

func TestVF_C09(t *testing.T) {
	r := vfkit.Start(t, "C09")
	defer r.Finish()
	r.Rule("part 1: concurrent limiter rounds - one real series / chunks / bytes limiter per round, 2..6 goroutines (the per-block goroutines of one Series call) reserve 40..200 times each and stop at their first error, limits at total-1, total, total+1, total/2, total/4, 1, GOMAXPROCS cycled 2/4/8/16; oracle: granted reservations never add up to more than the limit and an over-subscribed limiter rejects somebody; non-trivial = round in which reservations overlapped. " +
		"part 2: case = one generated fixture (1..3 raw blocks incl. replica/overlapping blocks) served by one BucketStore (index cache none/large, small series-size estimate so that lazy expanded postings trigger) x generated requests (40% series-only, SkipChunks=true). " +
		"Each request is first answered without limits (true N_series, N_chunks of the merged answer), then re-issued with series and/or chunk limits drawn from {N-1, N, N+1, 1, 2N, N/2}; lazy-postings settings and series batch size (1,2,10000) are drawn per request. " +
		"oracle: a successful limited call returns at most limit series/chunks and exactly the unlimited answer; if N exceeds a limit the call must fail and the gRPC code must be ResourceExhausted. Failing although N <= limit is counted, not flagged " +
		"(limiters reserve per block before merging and, on the eager path, before time filtering). evaluation = one limited call; distinct/non-trivial = limited call on a request with N_series > 0")
	nFix := r.N(6, 80)
	nReq := r.N(34, 100)
	r.Require(int64(nFix*nReq*2), nFix*nReq/2)
	r.Assume("limit 0 means unlimited (documented); the unlimited answer of the same store instance is the true answer (its correctness is C10's subject)")
	vfc09LimiterRounds(r, r.N(2000, 30000))
	base := t.TempDir()
	vfc07Parallel(r, nFix, 4, func(c int) {
		vfc07Guard(r, c, "c09-fixture", func() { vfc09RunFixture(t, r, c, r.Rand(c), nReq, filepath.Join(base, fmt.Sprintf("case%d", c))) })
	})
}

// vfc09LimiterRounds drives the real limiters the way one BucketStore.Series call does: one limiter
// per request, several goroutines (one per block) reserving concurrently and giving up at their first
// error. Whatever the schedule, the reservations that were granted must not add up to more than the limit.
func vfc09LimiterRounds(r *vfkit.Run, n int) {
	prev := runtime.GOMAXPROCS(0)
	defer runtime.GOMAXPROCS(prev)
	procs := []int{2, 4, 8, 16}
	overlapping := 0
	for i := 0; i < n; i++ {
		if !r.Want(1_000_000 + i) && r.Replaying() {
			continue
		}
		if i%200 == 0 {
			runtime.GOMAXPROCS(procs[(i/200)%len(procs)])
		}
		rng := r.RandS("limiter", i)
		g := 2 + rng.Intn(5)
		nums := make([][]uint64, g)
		var total uint64
		for k := range nums {
			for j := 0; j < 40+rng.Intn(160); j++ {
				v := uint64(1 + rng.Intn(3))
				nums[k] = append(nums[k], v)
				total += v
			}
		}
		limit := []uint64{total - 1, total, total + 1, total/2 + 1, total/4 + 1, 1}[rng.Intn(6)]
		if limit == 0 {
			limit = 1
		}
		ctr := prometheus.NewCounter(prometheus.CounterOpts{Name: "vfc09_failed"})
		kind := []string{"series", "chunks", "bytes"}[i%3]
		var reserve func(uint64) error
		switch kind {
		case "series":
			l := NewSeriesLimiterFactory(limit)(ctr)
			reserve = l.Reserve
		case "chunks":
			l := NewChunksLimiterFactory(limit)(ctr)
			reserve = l.Reserve
		default:
			l := NewBytesLimiterFactory(units.Base2Bytes(limit))(ctr)
			reserve = func(v uint64) error { return l.ReserveWithType(v, ChunksFetched) }
		}
		var granted, inflight, maxInflight, arrived atomic.Int64
		var rejected atomic.Bool
		start := make(chan struct{})
		var wg sync.WaitGroup
		for k := range nums {
			wg.Add(1)
			go func(mine []uint64) {
				defer wg.Done()
				<-start
				// rendezvous so that the goroutines really reserve at the same time (bounded: every
				// goroutine of the round arrives here)
				arrived.Add(1)
				for arrived.Load() < int64(g) {
					runtime.Gosched()
				}
				for _, v := range mine {
					if c := inflight.Add(1); c > maxInflight.Load() {
						maxInflight.Store(c)
					}
					err := reserve(v)
					inflight.Add(-1)
					if err != nil {
						rejected.Store(true)
						return
					}
					granted.Add(int64(v))
				}
			}(nums[k])
		}
		close(start)
		wg.Wait()
		r.Eval(1)
		if maxInflight.Load() > 1 {
			overlapping++
			r.Distinct(fmt.Sprintf("limiter|%s|%d|%d|%d", kind, g, total, limit))
		}
		switch {
		case uint64(granted.Load()) > limit:
			r.Violation(1_000_000+i, "limiter-concurrent-overshoot:"+kind,
				fmt.Sprintf("%d goroutines reserving concurrently from one %s limiter with limit %d were granted %d in total", g, kind, limit, granted.Load()),
				map[string]any{"round": i, "kind": kind, "goroutines": g, "limit": limit, "requested_total": total, "granted_total": granted.Load(), "gomaxprocs": runtime.GOMAXPROCS(0)})
		case total > limit && !rejected.Load():
			r.Violation(1_000_000+i, "limiter-concurrent-no-rejection:"+kind,
				fmt.Sprintf("%d goroutines requested %d in total from a %s limiter with limit %d and none was rejected", g, total, kind, limit),
				map[string]any{"round": i, "kind": kind, "goroutines": g, "limit": limit, "requested_total": total})
		}
	}
	r.Count("limiter_rounds", n)
	r.Count("limiter_rounds_with_overlapping_reservations", overlapping)
	if !r.Replaying() && overlapping < n/25 {
		r.Inconclusive(fmt.Sprintf("only %d of %d concurrent limiter rounds had overlapping reservations", overlapping, n))
	}
}

func vfc09Tune(rng *rand.Rand, st *BucketStore) string {
	st.enabledLazyExpandedPostings = rng.Intn(4) != 0
	st.seriesMatchRatio = []float64{0.5, 0.99, 0.999}[rng.Intn(3)]
	st.postingGroupMaxKeySeriesRatio = []float64{0, 0.02, 2}[rng.Intn(3)]
	st.seriesBatchSize = []int{1, 2, 10000}[rng.Intn(3)]
	return fmt.Sprintf("lazy=%v ratio=%v keys=%v batch=%d", st.enabledLazyExpandedPostings, st.seriesMatchRatio, st.postingGroupMaxKeySeriesRatio, st.seriesBatchSize)
}

func vfc09RunFixture(t *testing.T, r *vfkit.Run, c int, rng *rand.Rand, nReq int, dir string) {
	defer func() { _ = os.RemoveAll(dir) }()
	fx := vfc07NewFixture(t, rng, dir, vfc07Opts{maxBlocks: 3, maxSeries: 100, slots: 36, hist: false})
	cfg := vfc07StoreCfg{cache: []string{"none", "large"}[rng.Intn(2)], estSeries: []uint64{8, 16, 48, 0}[rng.Intn(4)], sampling: []int{1, 32}[rng.Intn(2)], hints: rng.Intn(2) == 0}
	if c%3 != 0 {
		// two of three fixtures are set up so that lazy posting expansion can actually trigger on the limited
		// calls: no expanded-postings cache (the unlimited call would fill it) and a small series size estimate
		cfg.cache, cfg.estSeries = "none", 8
	}
	st := vfc07NewBucketStore(t, fx, cfg)
	defer func() { _ = st.Close() }()
	r.Sample(map[string]any{"case": c, "blocks": vfc07DescribeFixture(fx), "store": cfg.String()})
	setLimits := func(series, chunks uint64) {
		st.seriesLimiterFactory = NewSeriesLimiterFactory(series)
		st.chunksLimiterFactory = NewChunksLimiterFactory(chunks)
	}
	defer setLimits(0, 0)

	for q := 0; q < nReq; q++ {
		var ms []vfc07M
		if k := rng.Intn(10); k < 4 {
			ms = vfc07GenMatchersPositive(rng, fx.u)
		} else if k < 6 {
			ms = vfc07GenMatchersMulti(rng, fx.u, 0.05)
		} else {
			ms = vfc07GenMatchers(rng, fx.u, 0.08)
		}
		mint, maxt := fx.vfc07Range(rng)
		skip := rng.Intn(5) < 2 // series-only requests are a full request dimension: same limits, no chunks
		req := &storepb.SeriesRequest{MinTime: mint, MaxTime: maxt, Matchers: vfc07Proto(ms), SkipChunks: skip}
		setLimits(0, 0)
		// one draw of the request-time knobs per request: the unlimited answer and the limited calls
		// run under the same settings, so that a difference can only come from the limits
		tune := vfc09Tune(rng, st)
		srv, err, timedOut := vfc07Call(st, req)
		if timedOut {
			r.Inconclusive("a Series call exceeded the 3 minute deadline")
			continue
		}
		if err != nil {
			r.Count("unlimited_call_errors", 1)
			continue
		}
		truth := vfc09Summarise(srv.frames)
		sl := vfc09Limits(rng, truth.series)
		cl := vfc09Limits(rng, truth.chunks)
		type probe struct{ s, c uint64 }
		var probes []probe
		nSeriesProbes := 2
		if skip {
			nSeriesProbes = 3
		}
		for i := 0; i < nSeriesProbes && i < len(sl); i++ {
			probes = append(probes, probe{sl[i], 0})
		}
		if skip {
			// no chunks are returned, so no chunk limit may reject or change the answer; combined with a
			// series limit the series limit alone decides
			probes = append(probes, probe{0, uint64(1 + rng.Intn(3))})
			if len(sl) > 3 {
				probes = append(probes, probe{sl[3], 1})
			}
		} else {
			for i := 0; i < 2 && i < len(cl); i++ {
				probes = append(probes, probe{0, cl[i]})
			}
			if len(sl) > 2 && len(cl) > 2 {
				probes = append(probes, probe{sl[2], cl[2]})
			}
		}
		if len(probes) == 0 { // N == 0: limits of 1 must not make an empty answer fail or grow
			probes = append(probes, probe{1, 1})
		}
		for _, p := range probes {
			setLimits(p.s, p.c)
			lazyBefore := testutil.ToFloat64(st.metrics.lazyExpandedPostingsCount)
			srv, err, timedOut := vfc07Call(st, req)
			if timedOut {
				r.Inconclusive("a Series call exceeded the 3 minute deadline")
				continue
			}
			r.Eval(1)
			lazy := "off"
			if testutil.ToFloat64(st.metrics.lazyExpandedPostingsCount) > lazyBefore {
				lazy = "on"
				r.Count("limited_calls_with_lazy_expanded_postings", 1)
			}
			if skip {
				r.Count("limited_calls_skipchunks_lazy_"+lazy, 1)
				if p.s > 0 && uint64(truth.series) > p.s {
					r.Count("limited_calls_skipchunks_series_limit_exceeded_lazy_"+lazy, 1)
				}
			}
			if truth.series > 0 {
				r.Distinct(fmt.Sprintf("%d|%s|%d|%d|%v|%d|%d", c, vfc07MatchersString(ms), mint, maxt, skip, p.s, p.c))
			}
			exceedS := p.s > 0 && uint64(truth.series) > p.s
			exceedC := p.c > 0 && uint64(truth.chunks) > p.c
			which := "none-exceeded"
			switch {
			case exceedC && exceedS:
				which = "series+chunks"
			case exceedS:
				which = "series"
			case exceedC:
				which = "chunks"
			}
			witness := map[string]any{"case": c, "matchers": vfc07MatchersString(ms), "mint": mint, "maxt": maxt, "skip_chunks": skip, "series_limit": p.s, "chunk_limit": p.c,
				"true_series": truth.series, "true_chunks": truth.chunks, "store": cfg.String(), "request_time_config": tune, "lazy_postings_used": lazy, "blocks": vfc07DescribeFixture(fx)}
			if err != nil {
				witness["error"] = err.Error()
				code := vfc07Code(err)
				switch {
				case exceedS || exceedC:
					r.Count("correctly_rejected", 1)
					if code != codes.ResourceExhausted {
						r.Violation(c, fmt.Sprintf("wrong-error-code:%s:%s:lazy=%s", code, which, lazy),
							fmt.Sprintf("%s limit exceeded (true %d series / %d chunks, limits %d / %d) but Series failed with code %s instead of ResourceExhausted: %v", which, truth.series, truth.chunks, p.s, p.c, code, err), witness)
					}
				case code == codes.ResourceExhausted:
					r.Count("rejected_although_true_count_within_limit", 1)
				default:
					r.Count("other_errors_within_limit", 1)
				}
				continue
			}
			got := vfc09Summarise(srv.frames)
			witness["got_series"], witness["got_chunks"] = got.series, got.chunks
			switch {
			case p.s > 0 && uint64(got.series) > p.s:
				r.Violation(c, "over-limit-answer:series:lazy="+lazy, fmt.Sprintf("successful Series call returned %d series with series limit %d", got.series, p.s), witness)
			case p.c > 0 && uint64(got.chunks) > p.c:
				r.Violation(c, "over-limit-answer:chunks:lazy="+lazy, fmt.Sprintf("successful Series call returned %d chunks with chunk limit %d", got.chunks, p.c), witness)
			case !vfc09Same(truth, got):
				r.Violation(c, fmt.Sprintf("silent-truncation:%s:lazy=%s", which, lazy),
					fmt.Sprintf("successful limited call (limits %d series / %d chunks) returned %d series / %d chunks, the unlimited answer has %d / %d", p.s, p.c, got.series, got.chunks, truth.series, truth.chunks), witness)
			case exceedS || exceedC:
				// unreachable if the two cases above are complete; kept so that no exceed-and-succeed slips through
				r.Violation(c, "limit-not-enforced:"+which+":lazy="+lazy, "true count exceeds the limit but the call succeeded", witness)
			default:
				r.Count("accepted_within_limit", 1)
			}
		}
	}
}
