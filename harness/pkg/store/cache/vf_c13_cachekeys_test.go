//go:build verif

package storecache

// C13: two different cached items never share a cache key.
//
// Observed: the real key functions (CacheKey.String for P/EP/S keys built exactly as memcached.go builds
// them, cacheKey of the matchers cache) evaluated on bounded-exhaustive and random item sets; every key
// is grouped in one map per key space, a second *different* item on a key is the refuting observation.
// Each class of collision is then replayed end to end through the real caches (RemoteIndexCache over a
// map-backed client, InMemoryIndexCache, LruMatchersCache): store item A, look up item B.

import (
	"context"
	"crypto/md5"
	"fmt"
	"math/rand"
	"strconv"
	"strings"
	"sync"
	"testing"
	"time"
	"unicode/utf8"

	"github.com/go-kit/log"
	"github.com/oklog/ulid/v2"
	"github.com/prometheus/client_golang/prometheus"
	"github.com/prometheus/common/model"
	"github.com/prometheus/prometheus/model/labels"

	"github.com/thanos-io/thanos/pkg/store/storepb"
	"github.com/thanos-io/thanos/pkg/verifhook/vfkit"
)

// vfc13Pieces: the adversarial alphabet restricted to what UTF-8 label validation accepts (no empty
// piece, no invalid byte), without three pieces no key format treats specially ("1", "-", "/") and with
// the usual escape characters `\` and "%" added (an escaping scheme is only as good as its treatment of
// its own escape character). Every piece is one rune, so piece sequences <-> strings is 1:1.
func vfc13Pieces() []string {
	var out []string
	for _, p := range vfkit.Alphabet {
		if p == "" || !utf8.ValidString(p) || p == "1" || p == "-" || p == "/" {
			continue
		}
		out = append(out, p)
	}
	return append(out, `\`, "%")
}

// vfc13Strings returns all strings of exactly k pieces.
func vfc13Strings(pieces []string, k int) []string {
	out := []string{""}
	for i := 0; i < k; i++ {
		next := make([]string, 0, len(out)*len(pieces))
		for _, s := range out {
			for _, p := range pieces {
				next = append(next, s+p)
			}
		}
		out = next
	}
	return out
}

type vfc13M struct {
	T labels.MatchType `json:"type"`
	N string           `json:"name"`
	V string           `json:"value"`
}

func (m vfc13M) String() string {
	return fmt.Sprintf("{name=%q type=%q value=%q}", m.N, m.T.String(), m.V)
}

// vfc13Item is one cacheable item. ident() is the monitor's own unambiguous identity (NUL separated;
// NUL never occurs in generated strings).
type vfc13Item struct {
	Kind  string   `json:"kind"` // P, EP, S (index cache key space) or M (matchers cache key space)
	Block int      `json:"block"`
	Comp  string   `json:"compression"`
	Name  string   `json:"name,omitempty"`
	Value string   `json:"value,omitempty"`
	Ms    []vfc13M `json:"matchers,omitempty"`
	Ref   uint64   `json:"ref,omitempty"`
}

func (it vfc13Item) ident() string {
	n := len(it.Kind) + len(it.Comp) + len(it.Name) + len(it.Value) + 32
	for _, m := range it.Ms {
		n += len(m.N) + len(m.V) + 4
	}
	b := make([]byte, 0, n)
	b = append(b, it.Kind...)
	b = append(b, 0)
	b = strconv.AppendInt(b, int64(it.Block), 10)
	b = append(b, 0)
	b = append(b, it.Comp...)
	b = append(b, 0)
	b = append(b, it.Name...)
	b = append(b, 0)
	b = append(b, it.Value...)
	b = append(b, 0)
	b = strconv.AppendUint(b, it.Ref, 10)
	for _, m := range it.Ms {
		b = append(b, 0, byte('0'+m.T), 0)
		b = append(b, m.N...)
		b = append(b, 0)
		b = append(b, m.V...)
	}
	return string(b)
}

func vfc13ParseIdent(s string) vfc13Item {
	f := strings.Split(s, "\x00")
	it := vfc13Item{Kind: f[0], Comp: f[2], Name: f[3], Value: f[4]}
	fmt.Sscan(f[1], &it.Block)
	fmt.Sscan(f[5], &it.Ref)
	for i := 6; i+2 < len(f); i += 3 {
		var t int
		fmt.Sscan(f[i], &t)
		it.Ms = append(it.Ms, vfc13M{T: labels.MatchType(t), N: f[i+1], V: f[i+2]})
	}
	return it
}

var vfc13Blocks = []ulid.ULID{ulid.MustNew(1, nil), ulid.MustNew(2, nil)}

func vfc13PromMatchers(ms []vfc13M) []*labels.Matcher {
	out := make([]*labels.Matcher, len(ms))
	for i, m := range ms {
		// Only Name/Type/Value take part in the key; the regexp is compiled lazily (vfc13Constructible)
		// when a collision has to be confirmed, so that enumeration stays cheap.
		out[i] = &labels.Matcher{Type: m.T, Name: m.N, Value: m.V}
	}
	return out
}

func vfc13StoreType(t labels.MatchType) storepb.LabelMatcher_Type {
	switch t {
	case labels.MatchEqual:
		return storepb.LabelMatcher_EQ
	case labels.MatchNotEqual:
		return storepb.LabelMatcher_NEQ
	case labels.MatchRegexp:
		return storepb.LabelMatcher_RE
	default:
		return storepb.LabelMatcher_NRE
	}
}

// vfc13Key evaluates the real key function for an item, exactly as the production call sites do.
func vfc13Key(it vfc13Item) (string, error) {
	switch it.Kind {
	case "P":
		return CacheKey{vfc13Blocks[it.Block].String(), CacheKeyPostings(labels.Label{Name: it.Name, Value: it.Value}), it.Comp}.String(), nil
	case "EP":
		return CacheKey{vfc13Blocks[it.Block].String(), CacheKeyExpandedPostings(LabelMatchersToString(vfc13PromMatchers(it.Ms))), it.Comp}.String(), nil
	case "S":
		return CacheKey{vfc13Blocks[it.Block].String(), CacheKeySeries(it.Ref), ""}.String(), nil
	case "M":
		m := it.Ms[0]
		return cacheKey(&storepb.LabelMatcher{Type: vfc13StoreType(m.T), Name: m.N, Value: m.V})
	}
	return "", fmt.Errorf("unknown kind")
}

// vfc13Valid: label names non-empty valid UTF-8, values valid UTF-8 (Prometheus UTF-8 validation).
func vfc13Valid(it vfc13Item) bool {
	switch it.Kind {
	case "P":
		return model.UTF8Validation.IsValidLabelName(it.Name) && model.LabelValue(it.Value).IsValid()
	case "EP", "M":
		for _, m := range it.Ms {
			if !model.UTF8Validation.IsValidLabelName(m.N) || !utf8.ValidString(m.V) {
				return false
			}
		}
	}
	return true
}

// vfc13Constructible: the item can really exist (regexp matchers compile).
func vfc13Constructible(it vfc13Item) bool {
	for _, m := range it.Ms {
		if _, err := labels.NewMatcher(m.T, m.N, m.V); err != nil {
			return false
		}
	}
	return true
}

func vfc13Legacy(it vfc13Item) bool {
	if it.Kind == "P" {
		return model.LegacyValidation.IsValidLabelName(it.Name)
	}
	for _, m := range it.Ms {
		if !model.LegacyValidation.IsValidLabelName(m.N) {
			return false
		}
	}
	return true
}

const vfc13Separators = ":;=~!\",{}|\\%"

func vfc13NonTrivial(it vfc13Item) bool {
	if strings.ContainsAny(it.Name, vfc13Separators) || strings.ContainsAny(it.Value, vfc13Separators) {
		return true
	}
	for _, m := range it.Ms {
		if strings.ContainsAny(m.N, vfc13Separators) || strings.ContainsAny(m.V, vfc13Separators) {
			return true
		}
	}
	return false
}

// vfc13FakeMemcached is a lossless map-backed RemoteCacheClient.
type vfc13FakeMemcached struct {
	mu sync.Mutex
	m  map[string][]byte
}

func (f *vfc13FakeMemcached) GetMulti(_ context.Context, keys []string) map[string][]byte {
	f.mu.Lock()
	defer f.mu.Unlock()
	out := map[string][]byte{}
	for _, k := range keys {
		if v, ok := f.m[k]; ok {
			out[k] = v
		}
	}
	return out
}
func (f *vfc13FakeMemcached) SetAsync(key string, value []byte, _ time.Duration) error {
	f.mu.Lock()
	defer f.mu.Unlock()
	f.m[key] = append([]byte(nil), value...)
	return nil
}
func (f *vfc13FakeMemcached) Stop()  {}
func (f *vfc13FakeMemcached) reset() { f.mu.Lock(); f.m = map[string][]byte{}; f.mu.Unlock() }

type vfc13Mon struct {
	r *vfkit.Run
	// digest(key) -> ident. Keys are stored by digest to keep millions of them in memory; an equal digest
	// is only a candidate: the real key of the earlier item is recomputed and compared as a string.
	index    map[[16]byte]string // key space of the index caches (P, EP, S)
	matchers map[[16]byte]string // key space of the matchers cache
	mc       *vfc13FakeMemcached
	remote   *RemoteIndexCache
	e2eDone  map[string]int
	skipped  int
}

func vfc13NewMon(t *testing.T, r *vfkit.Run) *vfc13Mon {
	mc := &vfc13FakeMemcached{m: map[string][]byte{}}
	rc, err := NewRemoteIndexCache(log.NewNopLogger(), mc, nil, prometheus.NewRegistry(), time.Hour)
	if err != nil {
		t.Fatalf("harness: %v", err)
	}
	return &vfc13Mon{r: r, index: map[[16]byte]string{}, matchers: map[[16]byte]string{}, mc: mc, remote: rc, e2eDone: map[string]int{}}
}

// vfc13Class names the class of a collision that the real key function has already exhibited. It uses
// what the present formats concatenate ONLY for naming, never to decide whether there is a collision.
func vfc13Class(a, b vfc13Item) string {
	if a.Kind != b.Kind {
		return "index-key:collision-across-kinds:" + a.Kind + "/" + b.Kind
	}
	switch a.Kind {
	case "P":
		if a.Block == b.Block && a.Comp == b.Comp && a.Name+":"+a.Value == b.Name+":"+b.Value {
			return "P-key:name-value-boundary-ambiguous"
		}
		return "P-key:other-collision"
	case "EP":
		if a.Block == b.Block && a.Comp == b.Comp && LabelMatchersToString(vfc13PromMatchers(a.Ms)) == LabelMatchersToString(vfc13PromMatchers(b.Ms)) {
			return "EP-key:matchers-string-ambiguous"
		}
		return "EP-key:other-collision"
	case "S":
		return "S-key:collision"
	case "M":
		ma, mb := a.Ms[0], b.Ms[0]
		re := func(t labels.MatchType) bool { return t == labels.MatchRegexp || t == labels.MatchNotRegexp }
		cls := "other-collision"
		if ma.N+ma.T.String()+ma.V == mb.N+mb.T.String()+mb.V {
			cls = "name-type-value-boundary-ambiguous"
		}
		if re(ma.T) && re(mb.T) {
			return "matchers-cachekey:" + cls + ":both-cacheable-by-default"
		}
		return "matchers-cachekey:" + cls + ":needs-custom-IsCacheableFunc"
	}
	return "unknown"
}

// vfc13E2E replays a colliding pair through the real caches: store a, look up b.
func (mo *vfc13Mon) e2e(a, b vfc13Item) map[string]any {
	out := map[string]any{}
	ctx := context.Background()
	dataA := []byte("data-of-item-A")
	switch {
	case a.Kind == "P" && b.Kind == "P":
		mo.mc.reset()
		la, lb := labels.Label{Name: a.Name, Value: a.Value}, labels.Label{Name: b.Name, Value: b.Value}
		mo.remote.StorePostings(vfc13Blocks[a.Block], la, dataA, "t")
		hits, _ := mo.remote.FetchMultiPostings(ctx, vfc13Blocks[b.Block], []labels.Label{lb}, "t")
		if v, ok := hits[lb]; ok {
			out["RemoteIndexCache.FetchMultiPostings(B) after StorePostings(A)"] = "HIT with " + string(v)
		} else {
			out["RemoteIndexCache.FetchMultiPostings(B) after StorePostings(A)"] = "miss"
		}
	case a.Kind == "EP" && b.Kind == "EP":
		mo.mc.reset()
		mo.remote.StoreExpandedPostings(vfc13Blocks[a.Block], vfc13PromMatchers(a.Ms), dataA, "t")
		if v, ok := mo.remote.FetchExpandedPostings(ctx, vfc13Blocks[b.Block], vfc13PromMatchers(b.Ms), "t"); ok {
			out["RemoteIndexCache.FetchExpandedPostings(B) after StoreExpandedPostings(A)"] = "HIT with " + string(v)
		} else {
			out["RemoteIndexCache.FetchExpandedPostings(B) after StoreExpandedPostings(A)"] = "miss"
		}
		if im, err := NewInMemoryIndexCacheWithConfig(log.NewNopLogger(), nil, prometheus.NewRegistry(), InMemoryIndexCacheConfig{MaxSize: 1 << 20, MaxItemSize: 1 << 16}); err == nil {
			im.StoreExpandedPostings(vfc13Blocks[a.Block], vfc13PromMatchers(a.Ms), dataA, "t")
			if v, ok := im.FetchExpandedPostings(ctx, vfc13Blocks[b.Block], vfc13PromMatchers(b.Ms), "t"); ok {
				out["InMemoryIndexCache.FetchExpandedPostings(B) after StoreExpandedPostings(A)"] = "HIT with " + string(v)
			} else {
				out["InMemoryIndexCache.FetchExpandedPostings(B) after StoreExpandedPostings(A)"] = "miss"
			}
		}
	case a.Kind == "M" && b.Kind == "M":
		for _, mode := range []string{"default", "all-cacheable"} {
			var opts []MatcherCacheOption
			opts = append(opts, WithSize(8), WithPromRegistry(prometheus.NewRegistry()))
			if mode == "all-cacheable" {
				opts = append(opts, WithIsCacheableFunc(func(ConversionLabelMatcher) bool { return true }))
			}
			c, err := NewMatchersCache(opts...)
			if err != nil {
				continue
			}
			pa := storepb.LabelMatcher{Type: vfc13StoreType(a.Ms[0].T), Name: a.Ms[0].N, Value: a.Ms[0].V}
			pb := storepb.LabelMatcher{Type: vfc13StoreType(b.Ms[0].T), Name: b.Ms[0].N, Value: b.Ms[0].V}
			if _, err := MatchersToPromMatchersCached(c, pa); err != nil {
				continue
			}
			got, err := MatchersToPromMatchersCached(c, pb)
			k := "LruMatchersCache(" + mode + "): convert(B) after convert(A)"
			switch {
			case err != nil:
				out[k] = "error " + err.Error()
			case got[0].Name != b.Ms[0].N || got[0].Value != b.Ms[0].V || got[0].Type != b.Ms[0].T:
				out[k] = fmt.Sprintf("WRONG MATCHER name=%q type=%q value=%q", got[0].Name, got[0].Type.String(), got[0].Value)
			default:
				out[k] = "correct"
			}
		}
	}
	return out
}

// observe evaluates the real key of one item and checks it against every item seen before.
func (mo *vfc13Mon) observe(c int, it vfc13Item) {
	if !vfc13Valid(it) {
		mo.skipped++
		return
	}
	key, err := vfc13Key(it)
	if err != nil {
		mo.skipped++
		return
	}
	mo.r.Eval(1)
	space := mo.index
	if it.Kind == "M" {
		space = mo.matchers
	}
	id := it.ident()
	if vfc13NonTrivial(it) {
		mo.r.Distinct(id)
	}
	dg := md5.Sum([]byte(key))
	prev, seen := space[dg]
	if !seen {
		space[dg] = id
		return
	}
	if prev == id {
		return
	}
	other := vfc13ParseIdent(prev)
	if ok, _ := vfc13Key(other); ok != key {
		mo.r.Count("digest_only_matches_ignored", 1)
		return
	}
	// a collision only counts between items that can really exist
	if !vfc13Constructible(it) || !vfc13Constructible(other) {
		mo.r.Count("collisions_with_uncompilable_regexp_ignored", 1)
		return
	}
	fp := vfc13Class(other, it)
	wit := map[string]any{"key": key, "item_A": other, "item_B": it, "both_names_legacy_valid": vfc13Legacy(other) && vfc13Legacy(it)}
	if mo.e2eDone[fp] < 25 {
		mo.e2eDone[fp]++
		wit["end_to_end"] = mo.e2e(other, it)
	}
	mo.r.Count("collisions:"+fp, 1)
	mo.r.Violation(c, fp, fmt.Sprintf("two different %s items share the key %q: A=%s B=%s", it.Kind, key, vfc13Describe(other), vfc13Describe(it)), wit)
}

func vfc13Describe(it vfc13Item) string {
	switch it.Kind {
	case "P":
		return fmt.Sprintf("postings(block#%d,%q,name=%q,value=%q)", it.Block, it.Comp, it.Name, it.Value)
	case "S":
		return fmt.Sprintf("series(block#%d,%d)", it.Block, it.Ref)
	default:
		return fmt.Sprintf("%s(block#%d,%q,%v)", it.Kind, it.Block, it.Comp, it.Ms)
	}
}

var vfc13Types = []labels.MatchType{labels.MatchEqual, labels.MatchNotEqual, labels.MatchRegexp, labels.MatchNotRegexp}

// vfc13Siblings derives from one random string pairs of items that differ only in where a boundary
// falls around an occurrence of the same piece (whatever separator a format uses, such pairs are
// the ones it must keep apart).
func vfc13Siblings(rng *rand.Rand, pieces []string, kind string) []vfc13Item {
	n := 3 + rng.Intn(5)
	w := make([]string, n)
	sep := pieces[rng.Intn(len(pieces))]
	for i := range w {
		w[i] = pieces[rng.Intn(len(pieces))]
		if rng.Intn(3) == 0 {
			w[i] = sep
		}
	}
	var out []vfc13Item
	block, comp := rng.Intn(2), vfkit.Pick(rng, []string{"", compressionSchemeStreamedSnappy})
	t := vfkit.Pick(rng, vfc13Types)
	for p := 1; p < n; p++ {
		// the boundary piece itself is dropped (it plays the separator), or kept on either side
		name, rest := strings.Join(w[:p], ""), strings.Join(w[p:], "")
		cands := [][2]string{{name, rest}}
		if p+1 <= n {
			cands = append(cands, [2]string{name, strings.Join(w[p+1:], "")})
		}
		for _, cnd := range cands {
			switch kind {
			case "P":
				out = append(out, vfc13Item{Kind: "P", Block: block, Comp: comp, Name: cnd[0], Value: cnd[1]})
			case "EP":
				out = append(out, vfc13Item{Kind: "EP", Block: block, Comp: comp, Ms: []vfc13M{{T: t, N: cnd[0], V: cnd[1]}}})
				if p+1 < n {
					// the same text cut into two matchers
					out = append(out, vfc13Item{Kind: "EP", Block: block, Comp: comp, Ms: []vfc13M{{T: t, N: cnd[0], V: ""}, {T: vfkit.Pick(rng, vfc13Types), N: w[p], V: strings.Join(w[p+1:], "")}}})
				}
			case "M":
				for _, tt := range vfc13Types {
					out = append(out, vfc13Item{Kind: "M", Ms: []vfc13M{{T: tt, N: cnd[0], V: cnd[1]}}})
				}
			}
		}
	}
	return out
}

func TestVF_C13(t *testing.T) {
	r := vfkit.Start(t, "C13")
	defer r.Finish()
	pieces := vfc13Pieces()
	r.Rule(fmt.Sprintf("items = postings (block,compression,name,value), expanded postings (block,compression,1..2 matchers), series refs, and single matchers for the matchers cache; "+
		"names/values over the %d-piece adversarial alphabet %q restricted to Prometheus UTF-8 validation (names non-empty); "+
		"bounded-exhaustive blocks: P name+value <= 3 pieces x 2 blocks x 2 compressions (thorough: also = 4 pieces x 1); EP one matcher name+value <= 3 pieces x 4 types x 2 compressions, two matchers of <= 3 pieces in total x 16 type pairs (quick: over the 12 separator-heavy pieces); M name+value <= 3 (quick) / <= 4 (thorough) pieces x 4 types; S 20000 refs x 2 blocks; "+
		"then random items up to 7 pieces, boundary-shift sibling families, and cross-kind siblings (the matcher text of every small EP item cut into postings name/value at every position); oracle: the REAL key function is evaluated for every item and keys are grouped per key space (index caches: P+EP+S together; matchers cache) - a second different, constructible item on a key is a violation, replayed end to end through RemoteIndexCache/InMemoryIndexCache/LruMatchersCache; "+
		"then long items around length-encoding boundaries (name/value lengths 9/10, 99/100, 127/128, 255/256/257, 65535/65536; the same text cut into (name,value) at neighbouring positions, e.g. (n, X+v) vs (n+X, v)) for the postings, expanded-postings and matchers keys; distinct non-trivial = item containing at least one of %q. Concurrent part (cases after the blocks): rounds of 4..16 goroutines x 4..12 lookups on a cold, small (1..4 entries) real LruMatchersCache (default options; also all-cacheable and the noop cache) with groups of 2..12 DIFFERENT matchers sharing a value / a name / a type / name+value, real conversion inside newItem slowed by PRNG Gosched/us delays, GOMAXPROCS cycled 1/2/4/16; every returned matcher must have exactly the requested name, type and value; non-trivial = a lookup started while another conversion was in flight; signature = cache mode + order of conversions. Concurrent index-cache part: rounds of 4..16 goroutines on one real RemoteIndexCache (fake memcached whose GetMulti yields/sleeps by PRNG) or InMemoryIndexCache, Store*/FetchMulti* for postings, expanded postings and series over overlapping item sets in different orders; stored values are derived from the item and every hit must carry exactly its own item's value", len(pieces), pieces, vfc13Separators))
	r.Assume("blake2b-256 digests of different pre-images differ (a digest collision would be reported as a key collision of class other-collision)")
	r.Assume("collisions are only counted between items that can exist: valid UTF-8 names/values, regexp matchers that compile")
	mo := vfc13NewMon(t, r)
	s := [][]string{vfc13Strings(pieces, 0), vfc13Strings(pieces, 1), vfc13Strings(pieces, 2), vfc13Strings(pieces, 3), vfc13Strings(pieces, 4)}
	mMax := r.N(3, 4)
	nRandom := r.N(100000, 1000000)
	pMax := r.N(3, 4)
	// pieces for the two-matcher lists: quick uses the separator-heavy half of the alphabet
	two := s[1]
	if !r.Thorough() {
		two = nil
		for _, p := range s[1] {
			if strings.ContainsAny(p, vfc13Separators) || p == "a" || p == "0" {
				two = append(two, p)
			}
		}
	}
	blocks := []func(c int){
		// 0: postings keys
		func(c int) {
			for total := 1; total <= pMax; total++ {
				for nl := 1; nl <= total; nl++ {
					for _, name := range s[nl] {
						for _, value := range s[total-nl] {
							if total <= 3 {
								for b := 0; b < 2; b++ {
									for _, comp := range []string{"", compressionSchemeStreamedSnappy} {
										mo.observe(c, vfc13Item{Kind: "P", Block: b, Comp: comp, Name: name, Value: value})
									}
								}
							} else {
								mo.observe(c, vfc13Item{Kind: "P", Block: 0, Comp: compressionSchemeStreamedSnappy, Name: name, Value: value})
							}
						}
					}
				}
			}
		},
		// 1: expanded postings keys
		func(c int) {
			for total := 1; total <= 3; total++ {
				for nl := 1; nl <= total; nl++ {
					for _, name := range s[nl] {
						for _, value := range s[total-nl] {
							for _, mt := range vfc13Types {
								for _, comp := range []string{"", compressionSchemeStreamedSnappy} {
									mo.observe(c, vfc13Item{Kind: "EP", Block: 0, Comp: comp, Ms: []vfc13M{{T: mt, N: name, V: value}}})
								}
							}
						}
					}
				}
			}
			// two matchers, <= 3 pieces in total: names one piece each, one optional value piece on either side
			for _, n1 := range two {
				for _, n2 := range two {
					for _, t1 := range vfc13Types {
						for _, t2 := range vfc13Types {
							mo.observe(c, vfc13Item{Kind: "EP", Comp: compressionSchemeStreamedSnappy, Ms: []vfc13M{{T: t1, N: n1}, {T: t2, N: n2}}})
							for _, v := range two {
								mo.observe(c, vfc13Item{Kind: "EP", Comp: compressionSchemeStreamedSnappy, Ms: []vfc13M{{T: t1, N: n1, V: v}, {T: t2, N: n2}}})
								mo.observe(c, vfc13Item{Kind: "EP", Comp: compressionSchemeStreamedSnappy, Ms: []vfc13M{{T: t1, N: n1}, {T: t2, N: n2, V: v}}})
							}
						}
					}
				}
			}
		},
		// 2: matchers cache keys
		func(c int) {
			for total := 1; total <= mMax; total++ {
				for nl := 1; nl <= total; nl++ {
					for _, name := range s[nl] {
						for _, value := range s[total-nl] {
							for _, mt := range vfc13Types {
								mo.observe(c, vfc13Item{Kind: "M", Ms: []vfc13M{{T: mt, N: name, V: value}}})
							}
						}
					}
				}
			}
		},
		// 3: series keys (same key space as P and EP: cross-kind collisions would show here)
		func(c int) {
			for b := 0; b < 2; b++ {
				for i := uint64(0); i < 10000; i++ {
					mo.observe(c, vfc13Item{Kind: "S", Block: b, Ref: i})
					mo.observe(c, vfc13Item{Kind: "S", Block: b, Ref: ^uint64(0) - i*16})
				}
			}
		},
		// 4: random longer items and boundary-shift sibling families
		func(c int) {
			rng := r.Rand(c)
			str := func(min, max int) string {
				n := min + rng.Intn(max-min+1)
				var sb strings.Builder
				for i := 0; i < n; i++ {
					sb.WriteString(pieces[rng.Intn(len(pieces))])
				}
				return sb.String()
			}
			for i := 0; i < nRandom; {
				switch rng.Intn(6) {
				case 0:
					mo.observe(c, vfc13Item{Kind: "P", Block: rng.Intn(2), Comp: vfkit.Pick(rng, []string{"", compressionSchemeStreamedSnappy}), Name: str(1, 4), Value: str(0, 4)})
					i++
				case 1:
					k := 1 + rng.Intn(3)
					ms := make([]vfc13M, k)
					for j := range ms {
						ms[j] = vfc13M{T: vfkit.Pick(rng, vfc13Types), N: str(1, 3), V: str(0, 3)}
					}
					mo.observe(c, vfc13Item{Kind: "EP", Block: rng.Intn(2), Comp: vfkit.Pick(rng, []string{"", compressionSchemeStreamedSnappy}), Ms: ms})
					i++
				case 2:
					mo.observe(c, vfc13Item{Kind: "M", Ms: []vfc13M{{T: vfkit.Pick(rng, vfc13Types), N: str(1, 4), V: str(0, 4)}}})
					i++
				case 3:
					mo.observe(c, vfc13Item{Kind: "S", Block: rng.Intn(2), Ref: rng.Uint64()})
					i++
				default:
					fam := vfc13Siblings(rng, pieces, vfkit.Pick(rng, []string{"P", "EP", "M"}))
					for _, it := range fam {
						mo.observe(c, it)
					}
					i += len(fam)
				}
			}
		},
		// 5: cross-kind siblings: the text the code itself builds for an expanded-postings item, cut at every
		// position into a (name, value) postings item (with and without dropping the character at the cut)
		func(c int) {
			for total := 1; total <= 2; total++ {
				for nl := 1; nl <= total; nl++ {
					for _, name := range s[nl] {
						for _, value := range s[total-nl] {
							for _, mt := range vfc13Types {
								ep := vfc13Item{Kind: "EP", Comp: compressionSchemeStreamedSnappy, Ms: []vfc13M{{T: mt, N: name, V: value}}}
								mo.observe(c, ep)
								txt := LabelMatchersToString(vfc13PromMatchers(ep.Ms))
								for i := 1; i < len(txt); i++ {
									if !utf8.RuneStart(txt[i]) {
										continue
									}
									mo.observe(c, vfc13Item{Kind: "P", Comp: compressionSchemeStreamedSnappy, Name: txt[:i], Value: txt[i:]})
									_, w := utf8.DecodeRuneInString(txt[i:])
									mo.observe(c, vfc13Item{Kind: "P", Comp: compressionSchemeStreamedSnappy, Name: txt[:i], Value: txt[i+w:]})
								}
							}
						}
					}
				}
			}
		},
		// 6: long strings around length-encoding boundaries: one text W = "n"+X+"v" with len(X) at 9/10, 99/100,
		// 127/128, 255/256/257, 65535/65536 (decimal digits, varint, one byte, two bytes), cut into (name, value) at
		// the positions 1, 2, L-1, L, L+1, L+2 - among them (name, X+value) and (name+X, value) - for every key function
		func(c int) {
			for _, l := range []int{9, 10, 99, 100, 127, 128, 255, 256, 257, 65535, 65536} {
				for _, fill := range []string{"x", "1", ":"} {
					w := "n" + strings.Repeat(fill, l) + "v"
					for _, p := range []int{1, 2, l - 1, l, l + 1, l + 2} {
						if p < 1 || p > len(w) {
							continue
						}
						name, value := w[:p], w[p:]
						mo.observe(c, vfc13Item{Kind: "P", Comp: compressionSchemeStreamedSnappy, Name: name, Value: value})
						for _, mt := range vfc13Types {
							mo.observe(c, vfc13Item{Kind: "EP", Comp: compressionSchemeStreamedSnappy, Ms: []vfc13M{{T: mt, N: name, V: value}}})
							mo.observe(c, vfc13Item{Kind: "M", Ms: []vfc13M{{T: mt, N: name, V: value}}})
						}
						r.Count("length_boundary_items", 9)
					}
				}
			}
		},
	}
	names := []string{"exhaustive:P", "exhaustive:EP", "exhaustive:M", "exhaustive:S", "random+siblings", "cross-kind-siblings", "length-boundaries"}
	for c, blk := range blocks {
		if !r.Want(c) {
			continue
		}
		before := len(mo.index) + len(mo.matchers)
		r.Guard(c, "key-function:"+names[c], map[string]any{"block": names[c]}, func() { blk(c) })
		r.Count("distinct_keys:"+names[c], len(mo.index)+len(mo.matchers)-before)
	}
	// concurrent part: the real matchers caches under overlapping lookups of different matchers
	vfc13ConcurrentPart(t, r, len(blocks), r.N(300, 8000))
	vfc13ConcurrentIndexPart(t, r, len(blocks)+r.N(300, 8000), r.N(120, 4000))
	r.Count("items_skipped_invalid", mo.skipped)
	r.Sample(map[string]any{"P": vfc13Item{Kind: "P", Name: "a:", Value: "b"}, "key": func() string {
		k, _ := vfc13Key(vfc13Item{Kind: "P", Name: "a:", Value: "b"})
		return k
	}()})
	r.Sample(map[string]any{"M": vfc13M{T: labels.MatchRegexp, N: "a", V: "=~"}, "key": func() string {
		k, _ := vfc13Key(vfc13Item{Kind: "M", Ms: []vfc13M{{T: labels.MatchRegexp, N: "a", V: "=~"}}})
		return k
	}()})
	r.Extra("index_key_space_size", len(mo.index))
	r.Extra("matchers_key_space_size", len(mo.matchers))
	r.Exhaustive(false)
	r.Require(int64(r.N(400000, 3000000)), r.N(100000, 1000000))
}
