//go:build verif

package storecache

// C14: for objects that never change, every read through CachingBucket returns what the wrapped bucket
// returns, for any subrange size, max-sub-requests limit and any (lossy) cache behaviour.
//
// Observed at the objstore.Bucket boundary: the same call is made on the real CachingBucket and on the
// wrapped in-memory bucket; bytes / answers / error class are compared. The cache behind the caching
// bucket is a fake that loses stores, misses present keys and evicts on fetch under PRNG control.

import (
	"bytes"
	"context"
	"fmt"
	"io"
	"math/rand"
	"sort"
	"strings"
	"sync"
	"testing"
	"time"

	"github.com/go-kit/log"
	"github.com/prometheus/client_golang/prometheus"
	"github.com/thanos-io/objstore"

	thanoscache "github.com/thanos-io/thanos/pkg/cache"
	"github.com/thanos-io/thanos/pkg/verifhook/vfkit"
)

// vfc14Cache is a lossy cache: it only ever returns bytes that were stored under the key (caches may
// lose or evict entries, never invent them), copies on store and on fetch like the real back ends.
type vfc14Cache struct {
	mu                    sync.Mutex
	rng                   *rand.Rand
	m                     map[string][]byte
	pDrop, pMiss, pEvict  float64
	hits, losses, stores  int
	fetchCalls, storeCall int
}

func (c *vfc14Cache) Store(data map[string][]byte, _ time.Duration) {
	c.mu.Lock()
	defer c.mu.Unlock()
	c.storeCall++
	keys := make([]string, 0, len(data))
	for k := range data {
		keys = append(keys, k)
	}
	sort.Strings(keys)
	for _, k := range keys {
		if c.rng.Float64() < c.pDrop {
			c.losses++
			continue
		}
		c.m[k] = append([]byte{}, data[k]...)
		c.stores++
	}
}

func (c *vfc14Cache) Fetch(_ context.Context, keys []string) map[string][]byte {
	c.mu.Lock()
	defer c.mu.Unlock()
	c.fetchCalls++
	out := map[string][]byte{}
	for _, k := range keys {
		v, ok := c.m[k]
		if !ok {
			continue
		}
		if c.rng.Float64() < c.pMiss {
			c.losses++
			continue
		}
		out[k] = append([]byte{}, v...)
		c.hits++
		if c.rng.Float64() < c.pEvict {
			delete(c.m, k)
			c.losses++
		}
	}
	return out
}

func (c *vfc14Cache) Name() string { return "vfc14" }

// vfc14Counting counts the calls that reach the wrapped bucket.
type vfc14Counting struct {
	objstore.Bucket
	mu        sync.Mutex
	getRanges int
}

func (b *vfc14Counting) GetRange(ctx context.Context, name string, off, length int64) (io.ReadCloser, error) {
	b.mu.Lock()
	b.getRanges++
	b.mu.Unlock()
	return b.Bucket.GetRange(ctx, name, off, length)
}

// vfc14Fault is one planned transient failure of the wrapped bucket: the K-th call of Class fails once.
type vfc14Fault struct {
	Class string `json:"class"` // Get, GetRange, Exists, Attributes, Iter
	K     int    `json:"kth_call"`
	Kind  string `json:"kind"`            // error, ctx-canceled, ctx-deadline, read-fails (Get/GetRange: reader fails after N good bytes), iter-fails (after N entries)
	N     int    `json:"after,omitempty"` // bytes / entries delivered before the failure
}

var vfc14ErrTransient = fmt.Errorf("vf: injected transient failure of the wrapped bucket")

// vfc14Faulty sits between the caching bucket and the in-memory bucket and executes the fault plan.
// Everything it does not fail is answered by the in-memory bucket unchanged; objects never change.
type vfc14Faulty struct {
	objstore.Bucket
	mu       sync.Mutex
	plan     []vfc14Fault
	calls    map[string]int
	injected int

	shapes        *rand.Rand // nil: plain readers only
	shapedReaders int
	eofWithData   int
}

func (b *vfc14Faulty) faults() int { b.mu.Lock(); defer b.mu.Unlock(); return b.injected }

// next counts a call of class and returns the fault planned for it, if any.
func (b *vfc14Faulty) next(class string) *vfc14Fault {
	b.mu.Lock()
	defer b.mu.Unlock()
	b.calls[class]++
	for i := range b.plan {
		if b.plan[i].Class == class && b.plan[i].K == b.calls[class] {
			f := b.plan[i]
			return &f
		}
	}
	return nil
}

func (b *vfc14Faulty) fire() { b.mu.Lock(); b.injected++; b.mu.Unlock() }

func (b *vfc14Faulty) errOf(f *vfc14Fault) error {
	switch f.Kind {
	case "ctx-canceled":
		return context.Canceled
	case "ctx-deadline":
		return context.DeadlineExceeded
	}
	return vfc14ErrTransient
}

// vfc14ShapedReader serves the bytes of one honest answer of the wrapped bucket in one of the shapes the
// io.Reader contract allows: EOF signalled separately or together with the last bytes, tiny reads, a
// (0, nil) read in between. The bytes are always exactly those of the object.
type vfc14ShapedReader struct {
	data      []byte
	pos       int
	eofWith   bool // last chunk is returned together with io.EOF
	maxChunk  int  // 0 = as much as fits
	zeroEvery int  // every zeroEvery-th call returns (0, nil); 0 = never
	calls     int
}

func (r *vfc14ShapedReader) Read(p []byte) (int, error) {
	if len(p) == 0 {
		return 0, nil
	}
	r.calls++
	if r.pos >= len(r.data) {
		return 0, io.EOF
	}
	if r.zeroEvery > 0 && r.calls%r.zeroEvery == 0 {
		return 0, nil
	}
	n := len(r.data) - r.pos
	if n > len(p) {
		n = len(p)
	}
	if r.maxChunk > 0 && n > r.maxChunk {
		n = r.maxChunk
	}
	copy(p, r.data[r.pos:r.pos+n])
	r.pos += n
	if r.pos == len(r.data) && r.eofWith {
		return n, io.EOF
	}
	return n, nil
}

func (r *vfc14ShapedReader) Close() error { return nil }

// shape re-packages a successful answer of the in-memory bucket into a PRNG-chosen reader shape.
func (b *vfc14Faulty) shape(rc io.ReadCloser, err error) (io.ReadCloser, error) {
	if err != nil || rc == nil {
		return rc, err
	}
	data, rerr := io.ReadAll(rc)
	_ = rc.Close()
	if rerr != nil {
		return nil, rerr
	}
	b.mu.Lock()
	defer b.mu.Unlock()
	sr := &vfc14ShapedReader{data: data}
	if b.shapes == nil {
		return sr, nil // plain: everything that fits, EOF separately (what InMemBucket does)
	}
	switch b.shapes.Intn(6) {
	case 0: // plain
	case 1:
		sr.eofWith = true
	case 2:
		sr.maxChunk = 1 + b.shapes.Intn(7)
	case 3:
		sr.maxChunk, sr.eofWith = 1+b.shapes.Intn(7), true
	case 4:
		sr.zeroEvery, sr.maxChunk = 2+b.shapes.Intn(3), vfkit.Pick(b.shapes, []int{0, 5, 1000})
	default:
		sr.maxChunk, sr.eofWith, sr.zeroEvery = vfkit.Pick(b.shapes, []int{0, 3, 100, 4096}), b.shapes.Intn(2) == 0, vfkit.Pick(b.shapes, []int{0, 0, 3})
	}
	if sr.maxChunk > 0 && sr.maxChunk < 64 && len(data) > 2000 {
		sr.maxChunk *= 97 // tiny reads only on small answers (cost); larger answers still need several reads
	}
	b.shapedReaders++
	if sr.eofWith {
		b.eofWithData++
	}
	return sr, nil
}

type vfc14FailingReader struct {
	io.ReadCloser
	left int
	b    *vfc14Faulty
	err  error
	done bool
}

func (r *vfc14FailingReader) Read(p []byte) (int, error) {
	if r.left <= 0 {
		if !r.done {
			r.done = true
			r.b.fire()
		}
		return 0, r.err
	}
	if len(p) > r.left {
		p = p[:r.left]
	}
	n, err := r.ReadCloser.Read(p)
	r.left -= n
	if err == io.EOF {
		// the object ended before the planned failure point: nothing is injected
		r.left = 1 << 30
	}
	return n, err
}

func (b *vfc14Faulty) reader(f *vfc14Fault, rc io.ReadCloser, err error) (io.ReadCloser, error) {
	if f == nil || err != nil {
		return rc, err
	}
	if f.Kind == "read-fails" {
		return &vfc14FailingReader{ReadCloser: rc, left: f.N, b: b, err: vfc14ErrTransient}, nil
	}
	_ = rc.Close()
	b.fire()
	return nil, b.errOf(f)
}

func (b *vfc14Faulty) Get(ctx context.Context, name string) (io.ReadCloser, error) {
	f := b.next("Get")
	rc, err := b.shape(b.Bucket.Get(ctx, name))
	return b.reader(f, rc, err)
}

func (b *vfc14Faulty) GetRange(ctx context.Context, name string, off, length int64) (io.ReadCloser, error) {
	f := b.next("GetRange")
	rc, err := b.shape(b.Bucket.GetRange(ctx, name, off, length))
	return b.reader(f, rc, err)
}

func (b *vfc14Faulty) Exists(ctx context.Context, name string) (bool, error) {
	if f := b.next("Exists"); f != nil {
		b.fire()
		return false, b.errOf(f)
	}
	return b.Bucket.Exists(ctx, name)
}

func (b *vfc14Faulty) Attributes(ctx context.Context, name string) (objstore.ObjectAttributes, error) {
	if f := b.next("Attributes"); f != nil {
		b.fire()
		return objstore.ObjectAttributes{}, b.errOf(f)
	}
	return b.Bucket.Attributes(ctx, name)
}

func (b *vfc14Faulty) Iter(ctx context.Context, dir string, fn func(string) error, options ...objstore.IterOption) error {
	f := b.next("Iter")
	if f == nil {
		return b.Bucket.Iter(ctx, dir, fn, options...)
	}
	if f.Kind != "iter-fails" {
		b.fire()
		return b.errOf(f)
	}
	seen, fired := 0, false
	err := b.Bucket.Iter(ctx, dir, func(s string) error {
		if seen >= f.N {
			fired = true
			return vfc14ErrTransient
		}
		seen++
		return fn(s)
	}, options...)
	if fired {
		b.fire()
	}
	return err
}

func vfc14GenFaults(rng *rand.Rand) []vfc14Fault {
	if rng.Intn(2) == 0 {
		return nil // fault-free history: the plain transparency oracle
	}
	n := 1 + rng.Intn(3)
	out := make([]vfc14Fault, 0, n)
	for i := 0; i < n; i++ {
		f := vfc14Fault{Class: vfkit.Pick(rng, []string{"Get", "Get", "GetRange", "GetRange", "Exists", "Attributes", "Iter"}), K: 1 + rng.Intn(4),
			Kind: vfkit.Pick(rng, []string{"error", "error", "ctx-canceled", "ctx-deadline"})}
		if (f.Class == "Get" || f.Class == "GetRange") && rng.Intn(3) == 0 {
			f.Kind, f.N = "read-fails", rng.Intn(40)
		}
		if f.Class == "Iter" && rng.Intn(3) == 0 {
			f.Kind, f.N = "iter-fails", rng.Intn(3)
		}
		out = append(out, f)
	}
	return out
}

type vfc14Op struct {
	Kind    string `json:"op"` // GetRange, Get, GetPartial, Exists, Attributes, Iter, IterRecursive
	Name    string `json:"name"`
	Off     int64  `json:"off,omitempty"`
	Len     int64  `json:"len,omitempty"`
	ReadBuf int    `json:"read_buf,omitempty"`
}

type vfc14Cfg struct {
	Subrange     int64          `json:"subrange_size"`
	MaxSubReq    int            `json:"max_sub_requests"`
	MaxGetSize   int            `json:"max_cacheable_get_size"`
	TTLZero      bool           `json:"ttl_zero"`
	PDrop        float64        `json:"p_drop_store"`
	PMiss        float64        `json:"p_miss_present_key"`
	PEvict       float64        `json:"p_evict_on_fetch"`
	Objects      map[string]int `json:"object_sizes"`
	Goroutines   int            `json:"goroutines"`
	Faults       []vfc14Fault   `json:"wrapped_bucket_fault_plan"`
	ReaderShapes bool           `json:"wrapped_bucket_reader_shapes_varied"`
	CachedKinds  []string       `json:"cached_operations"`
}

func vfc14Content(name string, size int) []byte {
	b := make([]byte, size)
	h := uint32(2166136261)
	for i := 0; i < len(name); i++ {
		h = (h ^ uint32(name[i])) * 16777619
	}
	for i := range b {
		// position dependent so that any shifted / swapped subrange shows
		h = h*1664525 + 1013904223
		b[i] = byte(h>>24) ^ byte(i)
	}
	return b
}

func vfc14GenCfg(rng *rand.Rand) vfc14Cfg {
	cfg := vfc14Cfg{
		Subrange:   vfkit.Pick(rng, []int64{1, 7, 16, 1000, 16000}),
		MaxSubReq:  vfkit.Pick(rng, []int{0, 1, 2, 3}),
		MaxGetSize: vfkit.Pick(rng, []int{0, 10, 1000, 1 << 20}),
		TTLZero:    rng.Intn(10) == 0,
		Objects:    map[string]int{},
	}
	switch rng.Intn(4) {
	case 0: // cooperative cache
	case 1:
		cfg.PDrop = 0.3
	case 2:
		cfg.PMiss, cfg.PEvict = 0.3, 0.2
	default:
		cfg.PDrop, cfg.PMiss, cfg.PEvict = rng.Float64()*0.6, rng.Float64()*0.6, rng.Float64()*0.6
	}
	s := int(cfg.Subrange)
	sizes := []int{0, 1, s - 1, s, s + 1, 2 * s, 2*s + 1, 3*s - 1, 5 * s, 7*s + 3}
	names := []string{"01BLOCK/chunks/000001", "01BLOCK/chunks/000002", "01BLOCK/index", "01BLOCK/meta.json", "02BLOCK/chunks/000001", "02BLOCK/meta.json", "top-level-object"}
	n := 1 + rng.Intn(4)
	for _, i := range rng.Perm(len(names))[:n] {
		var sz int
		if rng.Intn(3) == 0 {
			sz = rng.Intn(20001)
		} else {
			sz = sizes[rng.Intn(len(sizes))]
		}
		if sz < 0 {
			sz = 0
		}
		if sz > 20000 {
			sz = 20000 - rng.Intn(3)
		}
		// keep the number of subranges per object bounded (subrange size 1 or 7): cost, not coverage
		if lim := 300*s + rng.Intn(s+1); sz > lim {
			sz = lim
		}
		cfg.Objects[names[i]] = sz
	}
	cfg.Goroutines = 1
	if rng.Intn(4) == 0 {
		cfg.Goroutines = 2 + rng.Intn(3)
	}
	return cfg
}

func vfc14GenOps(rng *rand.Rand, cfg vfc14Cfg, n int) []vfc14Op {
	var names []string
	for k := range cfg.Objects {
		names = append(names, k)
	}
	sort.Strings(names)
	pickName := func() string {
		if rng.Intn(8) == 0 {
			return vfkit.Pick(rng, []string{"01BLOCK/deletion-mark.json", "missing", "03BLOCK/meta.json"})
		}
		return names[rng.Intn(len(names))]
	}
	s := cfg.Subrange
	ops := make([]vfc14Op, 0, n)
	for i := 0; i < n; i++ {
		name := pickName()
		size := int64(cfg.Objects[name])
		switch k := rng.Intn(20); {
		case k < 11:
			op := vfc14Op{Kind: "GetRange", Name: name, ReadBuf: vfkit.Pick(rng, []int{1, 3, 64, 4096, 1 << 16})}
			// offsets: subrange aligned +-1, random inside, at the end, beyond the end
			switch rng.Intn(6) {
			case 0:
				op.Off = 0
			case 1:
				op.Off = rng.Int63n(size/s+2)*s + int64(rng.Intn(3)) - 1
			case 2:
				op.Off = size - int64(rng.Intn(3))
			case 3:
				op.Off = size + 1 + rng.Int63n(3*s+2)
			default:
				op.Off = rng.Int63n(size + 1)
			}
			if op.Off < 0 {
				op.Off = 0
			}
			switch rng.Intn(7) {
			case 0:
				op.Len = -1 // to the end
			case 1:
				op.Len = 0
			case 2:
				op.Len = 1
			case 3:
				op.Len = size - op.Off + int64(rng.Intn(3)) - 1 // up to the end +-1
			case 4:
				op.Len = size + s + rng.Int63n(100) // far beyond the end (estimated chunk length style)
			case 5:
				op.Len = (1+rng.Int63n(4))*s + int64(rng.Intn(3)) - 1
			default:
				op.Len = 1 + rng.Int63n(size+2)
			}
			ops = append(ops, op)
		case k < 13:
			ops = append(ops, vfc14Op{Kind: "Get", Name: name, ReadBuf: vfkit.Pick(rng, []int{1, 7, 512, 1 << 16})})
		case k == 13:
			ops = append(ops, vfc14Op{Kind: "GetPartial", Name: name, Len: rng.Int63n(size + 2)})
		case k < 16:
			ops = append(ops, vfc14Op{Kind: "Exists", Name: name})
		case k < 18:
			ops = append(ops, vfc14Op{Kind: "Attributes", Name: name})
		case k == 18:
			ops = append(ops, vfc14Op{Kind: "Iter", Name: vfkit.Pick(rng, []string{"", "01BLOCK/", "01BLOCK/chunks/", "nothing-here/"})})
		default:
			ops = append(ops, vfc14Op{Kind: "IterRecursive", Name: vfkit.Pick(rng, []string{"", "01BLOCK/", "02BLOCK/"})})
		}
	}
	return ops
}

func vfc14ReadAll(r io.Reader, buf int, limit int64) ([]byte, error) {
	if buf <= 0 {
		buf = 512
	}
	var out []byte
	p := make([]byte, buf)
	for i := 0; i < 1<<22; i++ {
		if limit >= 0 && int64(len(out)) >= limit {
			return out, nil
		}
		n, err := r.Read(p)
		out = append(out, p[:n]...)
		if err == io.EOF {
			return out, nil
		}
		if err != nil {
			return out, err
		}
	}
	return out, fmt.Errorf("reader did not terminate")
}

// vfc14RangeClass names the input class of a range read relative to the object, for fingerprints.
func vfc14RangeClass(op vfc14Op, size int64, exists bool) string {
	switch {
	case !exists:
		return "missing-object"
	case op.Len == -1:
		return "length=-1"
	case op.Len <= 0:
		return "length<=0"
	case op.Off > size:
		return "offset-beyond-object-end"
	case op.Off == size:
		return "offset-at-object-end"
	case op.Off+op.Len > size:
		return "range-ends-beyond-object-end"
	default:
		return "range-inside-object"
	}
}

type vfc14Env struct {
	r     *vfkit.Run
	c     int
	cfg   vfc14Cfg
	under objstore.Bucket
	cb    *CachingBucket
	fb    *vfc14Faulty
	wit   func(op vfc14Op, extra map[string]any) map[string]any
}

func (e *vfc14Env) errClass(b objstore.Bucket, err error) string {
	switch {
	case err == nil:
		return "ok"
	case b.IsObjNotFoundErr(err):
		return "not-found"
	default:
		return "error"
	}
}

// do executes one operation on both buckets and compares.
func (e *vfc14Env) do(op vfc14Op) {
	ctx := context.Background()
	e.r.Eval(1)
	// f0 = transient failures injected into the wrapped bucket before this operation started. An operation
	// during which one is injected may fail (any error) - if it answers, the answer must be right. Every
	// other operation, in particular every LATER one, must agree with the (never faulted) reference.
	f0 := e.fb.faults()
	tol := func(err error) bool {
		if err != nil && e.fb.faults() != f0 {
			e.r.Count("faulted_operations_that_returned_an_error", 1)
			return true
		}
		return false
	}
	viol := func(fp, what string, w map[string]any) {
		if f0 > 0 {
			fp += ":after-transient-fault"
			what += fmt.Sprintf(" [%d transient failure(s) of the wrapped bucket were injected earlier in this history; objects never changed]", f0)
		}
		e.r.Violation(e.c, fp, what, w)
	}
	if f0 > 0 {
		e.r.Count("operations_compared_after_a_fault", 1)
	}
	size, exists := e.cfg.Objects[op.Name]
	switch op.Kind {
	case "GetRange":
		cls := vfc14RangeClass(op, int64(size), exists)
		e.r.Guard(e.c, "GetRange:"+cls, e.wit(op, nil), func() {
			wr, werr := e.under.GetRange(ctx, op.Name, op.Off, op.Len)
			var want []byte
			if werr == nil {
				var rerr error
				want, rerr = vfc14ReadAll(wr, 4096, -1)
				_ = wr.Close()
				if rerr != nil {
					e.r.Inconclusive("harness: reading the wrapped bucket failed: " + rerr.Error())
					return
				}
			}
			gr, gerr := e.cb.GetRange(ctx, op.Name, op.Off, op.Len)
			if tol(gerr) {
				return
			}
			if a, b := e.errClass(e.under, werr), e.errClass(e.cb, gerr); a != b {
				viol("GetRange:error-class-differs:"+cls, fmt.Sprintf("GetRange(%q,%d,%d): wrapped bucket %s (%v), caching bucket %s (%v)", op.Name, op.Off, op.Len, a, werr, b, gerr), e.wit(op, nil))
				if gr != nil {
					_ = gr.Close()
				}
				return
			}
			if gerr != nil {
				return
			}
			got, rerr := vfc14ReadAll(gr, op.ReadBuf, -1)
			_ = gr.Close()
			if tol(rerr) {
				return
			}
			if rerr != nil {
				viol("GetRange:read-error:"+cls, fmt.Sprintf("GetRange(%q,%d,%d) on an object of %d bytes: reading the returned reader failed after %d bytes: %v (wrapped bucket delivers %d bytes)", op.Name, op.Off, op.Len, size, len(got), rerr, len(want)), e.wit(op, nil))
				return
			}
			if !bytes.Equal(got, want) {
				viol("GetRange:bytes-differ:"+cls, fmt.Sprintf("GetRange(%q,%d,%d) on an object of %d bytes: caching bucket returned %d bytes, wrapped bucket %d bytes, first difference at %d", op.Name, op.Off, op.Len, size, len(got), len(want), vfc14FirstDiff(got, want)), e.wit(op, map[string]any{"got_len": len(got), "want_len": len(want)}))
			}
		})
	case "Get", "GetPartial":
		e.r.Guard(e.c, op.Kind, e.wit(op, nil), func() {
			wr, werr := e.under.Get(ctx, op.Name)
			var want []byte
			if werr == nil {
				want, _ = vfc14ReadAll(wr, 4096, -1)
				_ = wr.Close()
			}
			gr, gerr := e.cb.Get(ctx, op.Name)
			if tol(gerr) {
				return
			}
			if a, b := e.errClass(e.under, werr), e.errClass(e.cb, gerr); a != b {
				viol("Get:error-class-differs", fmt.Sprintf("Get(%q): wrapped bucket %s (%v), caching bucket %s (%v)", op.Name, a, werr, b, gerr), e.wit(op, nil))
				return
			}
			if gerr != nil {
				return
			}
			limit := int64(-1)
			if op.Kind == "GetPartial" {
				limit = op.Len
			}
			got, rerr := vfc14ReadAll(gr, op.ReadBuf, limit)
			_ = gr.Close()
			if tol(rerr) {
				return
			}
			if rerr != nil {
				viol("Get:read-error", fmt.Sprintf("Get(%q): reading failed after %d bytes: %v", op.Name, len(got), rerr), e.wit(op, nil))
				return
			}
			if limit >= 0 {
				// a partial read consumed some prefix, in units of the read buffer
				if len(got) > len(want) || !bytes.Equal(got, want[:len(got)]) {
					viol("Get:bytes-differ", fmt.Sprintf("Get(%q) partial read of %d bytes is not a prefix of the object", op.Name, len(got)), e.wit(op, nil))
				}
				return
			}
			if !bytes.Equal(got, want) {
				viol("Get:bytes-differ", fmt.Sprintf("Get(%q): caching bucket returned %d bytes, wrapped bucket %d, first difference at %d", op.Name, len(got), len(want), vfc14FirstDiff(got, want)), e.wit(op, nil))
			}
		})
	case "Exists":
		e.r.Guard(e.c, "Exists", e.wit(op, nil), func() {
			w, werr := e.under.Exists(ctx, op.Name)
			g, gerr := e.cb.Exists(ctx, op.Name)
			if tol(gerr) {
				return
			}
			if (werr == nil) != (gerr == nil) {
				viol("Exists:error-class-differs", fmt.Sprintf("Exists(%q): wrapped %v, caching %v", op.Name, werr, gerr), e.wit(op, nil))
				return
			}
			if w != g {
				viol("Exists:answer-differs", fmt.Sprintf("Exists(%q): wrapped bucket says %v, caching bucket says %v", op.Name, w, g), e.wit(op, nil))
			}
		})
	case "Attributes":
		e.r.Guard(e.c, "Attributes", e.wit(op, nil), func() {
			w, werr := e.under.Attributes(ctx, op.Name)
			g, gerr := e.cb.Attributes(ctx, op.Name)
			if tol(gerr) {
				return
			}
			if a, b := e.errClass(e.under, werr), e.errClass(e.cb, gerr); a != b {
				viol("Attributes:error-class-differs", fmt.Sprintf("Attributes(%q): wrapped bucket %s (%v), caching bucket %s (%v)", op.Name, a, werr, b, gerr), e.wit(op, nil))
				return
			}
			if werr != nil {
				return
			}
			if w.Size != g.Size {
				viol("Attributes:size-differs", fmt.Sprintf("Attributes(%q): size %d vs %d", op.Name, w.Size, g.Size), e.wit(op, nil))
			} else if !w.LastModified.Equal(g.LastModified) {
				viol("Attributes:last-modified-differs", fmt.Sprintf("Attributes(%q): last modified %v vs %v", op.Name, w.LastModified, g.LastModified), e.wit(op, nil))
			}
		})
	case "Iter", "IterRecursive":
		e.r.Guard(e.c, op.Kind, e.wit(op, nil), func() {
			var opts []objstore.IterOption
			if op.Kind == "IterRecursive" {
				opts = append(opts, objstore.WithRecursiveIter())
			}
			var w, g []string
			werr := e.under.Iter(ctx, op.Name, func(s string) error { w = append(w, s); return nil }, opts...)
			gerr := e.cb.Iter(ctx, op.Name, func(s string) error { g = append(g, s); return nil }, opts...)
			if tol(gerr) {
				return
			}
			if (werr == nil) != (gerr == nil) {
				viol("Iter:error-class-differs", fmt.Sprintf("%s(%q): wrapped %v, caching %v", op.Kind, op.Name, werr, gerr), e.wit(op, nil))
				return
			}
			if strings.Join(w, "\x00") != strings.Join(g, "\x00") {
				viol("Iter:listing-differs", fmt.Sprintf("%s(%q): wrapped bucket lists %q, caching bucket lists %q", op.Kind, op.Name, w, g), e.wit(op, nil))
			}
		})
	}
}

func vfc14FirstDiff(a, b []byte) int {
	n := len(a)
	if len(b) < n {
		n = len(b)
	}
	for i := 0; i < n; i++ {
		if a[i] != b[i] {
			return i
		}
	}
	return n
}

func TestVF_C14(t *testing.T) {
	r := vfkit.Start(t, "C14")
	defer r.Finish()
	r.Rule("case = 1..4 immutable objects (sizes 0..20000, clustered around multiples of the subrange size) in an in-memory bucket + caching configuration (subrange size {1,7,16,1000,16000}, max sub-requests {0..3}, max cacheable Get size, TTLs 1h or 0) " +
		"(objects at most ~300 subranges long) + lossy cache fake (drops stores, misses present keys, evicts on fetch; never invents data) + history of 1..60 reads (GetRange with offsets/lengths at subrange and object boundaries, zero/-1 length, beyond the end; Get full and partial; Exists; Attributes; Iter flat/recursive; existing and missing names), " +
		"in three quarters of the histories the readers the wrapped bucket hands out for Get/GetRange vary in shape (EOF separately or together with the last bytes, 1..7-byte reads, (0,nil) reads in between; always the same bytes); one quarter of the histories executed by 2..4 goroutines at once; half of the histories additionally carry a fault plan for the wrapped bucket: the k-th (1..4) call of a class (Get, GetRange, Exists, Attributes, Iter) fails once with a transient error, context.Canceled, context.DeadlineExceeded, a reader that fails after N good bytes or a listing that fails after N entries; " +
		"oracle = the same call on the never-faulted in-memory bucket (bytes, answers, error class ok/not-found/error); only an operation during which a fault was injected may return an error instead (if it answers, the answer must be right) - every later operation must agree again, fingerprint suffix :after-transient-fault; " +
		"distinct = hash of configuration+history; non-trivial = the history had at least one cache hit and the wrapped bucket was still asked for a range (mixed service), the cache lost something, or a fault was injected")
	r.Assume("objects and the set of objects do not change after the first read (premise of the property)")
	r.Assume("the cache only loses entries; it never returns bytes that were not stored under that key")
	r.Assume("reader shapes are honest: whatever the chunking and the way EOF is signalled, the bytes are exactly those of the object (io.Reader contract)")
	r.Assume("injected failures are transient and honest: the failed call returns an error (never wrong data, never a not-found error), the next call of the wrapped bucket works again")
	r.Assume("offsets are >= 0 (negative offsets are forwarded unchanged to the wrapped bucket)")
	n := r.N(3000, 120000)
	r.Require(int64(n)*10, n/3)
	for c := 0; c < n; c++ {
		if !r.Want(c) {
			continue
		}
		rng := r.Rand(c)
		cfg := vfc14GenCfg(rng)
		inmem := objstore.NewInMemBucket()
		for name, sz := range cfg.Objects {
			if err := inmem.Upload(context.Background(), name, bytes.NewReader(vfc14Content(name, sz))); err != nil {
				t.Fatalf("harness: upload: %v", err)
			}
		}
		cfg.Faults = vfc14GenFaults(r.RandS("faults", c))
		faulty := &vfc14Faulty{Bucket: inmem, plan: cfg.Faults, calls: map[string]int{}}
		if cfg.ReaderShapes = r.RandS("shapes?", c).Intn(4) != 0; cfg.ReaderShapes {
			faulty.shapes = r.RandS("shapes", c)
		}
		under := &vfc14Counting{Bucket: faulty}
		cache := &vfc14Cache{rng: r.RandS("cache", c), m: map[string][]byte{}, pDrop: cfg.PDrop, pMiss: cfg.PMiss, pEvict: cfg.PEvict}
		ttl := time.Hour
		if cfg.TTLZero {
			ttl = 0
		}
		all := func(string) bool { return true }
		cbc := thanoscache.NewCachingBucketConfig()
		// which operations are cached varies too: uncached operations must simply pass through
		kinds := []string{"getrange", "get", "exists", "attributes", "iter"}
		for _, k := range kinds {
			if rng.Intn(6) == 0 {
				continue
			}
			cfg.CachedKinds = append(cfg.CachedKinds, k)
			switch k {
			case "getrange":
				cbc.CacheGetRange("vf", cache, all, cfg.Subrange, ttl, ttl, cfg.MaxSubReq)
			case "get":
				cbc.CacheGet("vf", cache, all, cfg.MaxGetSize, ttl, ttl, ttl)
			case "exists":
				cbc.CacheExists("vf", cache, all, ttl, ttl)
			case "attributes":
				cbc.CacheAttributes("vf", cache, all, ttl)
			case "iter":
				cbc.CacheIter("vf", cache, all, ttl, JSONIterCodec{}, "cfghash")
			}
		}
		cb, err := NewCachingBucket(under, cbc, log.NewNopLogger(), prometheus.NewRegistry())
		if err != nil {
			t.Fatalf("harness: NewCachingBucket: %v", err)
		}
		streams := make([][]vfc14Op, cfg.Goroutines)
		total := 0
		for g := range streams {
			streams[g] = vfc14GenOps(r.RandS(fmt.Sprintf("ops%d", g), c), cfg, 1+rng.Intn(60))
			total += len(streams[g])
		}
		env := &vfc14Env{r: r, c: c, cfg: cfg, under: inmem, cb: cb, fb: faulty}
		env.wit = func(op vfc14Op, extra map[string]any) map[string]any {
			m := map[string]any{"config": cfg, "failing_op": op, "histories": streams}
			for k, v := range extra {
				m[k] = v
			}
			return m
		}
		// fetchMissingSubranges works in goroutines of its own: a panic there cannot be recovered here and
		// kills the process; the driver then reports the case named on the last VF-INFLIGHT line.
		fmt.Printf("VF-INFLIGHT C14 case=%d seed=%d subrange=%d max_sub_requests=%d objects=%v ops=%d (replay: VERIF_SEED=%d bin/vcheck C14 --case %d)\n", c, r.Seed(), cfg.Subrange, cfg.MaxSubReq, cfg.Objects, total, r.Seed(), c)
		if cfg.Goroutines == 1 {
			for _, op := range streams[0] {
				env.do(op)
			}
		} else {
			var wg sync.WaitGroup
			for g := range streams {
				wg.Add(1)
				go func(g int) {
					defer wg.Done()
					for _, op := range streams[g] {
						env.do(op)
					}
				}(g)
			}
			wg.Wait()
			r.Count("concurrent_histories", 1)
		}
		cache.mu.Lock()
		hits, losses := cache.hits, cache.losses
		cache.mu.Unlock()
		under.mu.Lock()
		gr := under.getRanges
		under.mu.Unlock()
		nf := faulty.faults()
		if hits > 0 && (gr > 0 || losses > 0 || nf > 0) {
			r.Distinct(fmt.Sprintf("%v|%v", cfg, streams))
		}
		faulty.mu.Lock()
		r.Count("wrapped_bucket_readers_shaped", faulty.shapedReaders)
		r.Count("wrapped_bucket_readers_last_chunk_with_eof", faulty.eofWithData)
		faulty.mu.Unlock()
		if nf > 0 {
			r.Count("histories_with_injected_fault", 1)
			r.Count("faults_injected", nf)
		}
		r.Count("cache_hits", hits)
		r.Count("cache_losses_injected", losses)
		r.Count("wrapped_bucket_getrange_calls", gr)
		r.Count("operations", total)
		r.Sample(map[string]any{"fault_plan": cfg.Faults, "faults_injected": nf, "subrange": cfg.Subrange, "max_sub_requests": cfg.MaxSubReq, "objects": cfg.Objects, "ops": total, "goroutines": cfg.Goroutines, "cache_hits": hits, "cache_losses": losses, "bucket_getranges": gr})
	}
}
