//go:build verif

package storecache

// C13, concurrent part: "a cache can never answer one lookup with another item's data" also has to hold
// while conversions are in flight. The real matchers caches (LruMatchersCache from NewMatchersCache with
// default options, with an all-cacheable IsCacheableFunc, and the noop cache) are driven from 4..16
// goroutines with groups of DIFFERENT matchers that share a value, a name or a type, starting on a cold
// (and small, so it stays cold) cache. The real conversion (storepb.MatcherToPromMatcher) runs inside the
// newItem callback, slowed down by a PRNG-chosen Gosched/microsecond delay so that flights overlap.
// Every returned matcher must have exactly the requested name, type and value.

import (
	"fmt"
	"math/rand"
	"runtime"
	"strings"
	"sync"
	"sync/atomic"
	"testing"
	"time"

	"github.com/prometheus/client_golang/prometheus"
	"github.com/prometheus/prometheus/model/labels"

	"github.com/thanos-io/thanos/pkg/store/storepb"
	"github.com/thanos-io/thanos/pkg/verifhook/vfkit"
)

// values are valid regular expressions so that every matcher type can be built from them
var vfc13cValues = []string{"api.*", "a|b", "x.+", "foo", ".*", "", "[ab]c", "=~", "~b", "é.*"}
var vfc13cNames = []string{"job", "instance", "a", "a=~", "__name__", "é", "pod", "b!~"}

// vfc13cGroup builds 4..12 pairwise different matchers that share a value, a name or a type.
func vfc13cGroup(rng *rand.Rand) ([]vfc13M, string) {
	shape := vfkit.Pick(rng, []string{"share-value", "share-value", "share-name", "share-type", "share-value-and-name", "mixed"})
	names := vfkit.Perm(rng, vfc13cNames)[:2+rng.Intn(3)]
	values := vfkit.Perm(rng, vfc13cValues)[:2+rng.Intn(3)]
	types := vfkit.Perm(rng, vfc13Types)[:1+rng.Intn(4)]
	switch shape {
	case "share-value":
		values = values[:1]
		if len(types) < 2 && len(names) < 4 {
			types = vfkit.Perm(rng, vfc13Types)[:2]
		}
	case "share-name":
		names = names[:1]
		if len(types) < 2 {
			types = vfkit.Perm(rng, vfc13Types)[:2]
		}
	case "share-type":
		types = types[:1]
	case "share-value-and-name":
		values, names = values[:1], names[:1]
		types = vfkit.Perm(rng, vfc13Types) // same name and value, the four polarities
	}
	regexOnly := rng.Intn(3) == 0 // only the types the default cache stores
	var all []vfc13M
	for _, n := range names {
		for _, v := range values {
			for _, t := range types {
				if regexOnly && shape != "share-type" && t != labels.MatchRegexp && t != labels.MatchNotRegexp {
					t = vfkit.Pick(rng, []labels.MatchType{labels.MatchRegexp, labels.MatchNotRegexp})
				}
				all = append(all, vfc13M{T: t, N: n, V: v})
			}
		}
	}
	// distinct, at most 12
	seen := map[string]bool{}
	var out []vfc13M
	for _, m := range vfkit.Perm(rng, all) {
		k := fmt.Sprintf("%d\x00%s\x00%s", m.T, m.N, m.V)
		if seen[k] || len(out) >= 12 {
			continue
		}
		seen[k] = true
		out = append(out, m)
	}
	return out, shape
}

type vfc13cStats struct {
	lookups, overlappedLookups, conversions, overlappedConversions int64
}

// vfc13cRound runs one concurrent round; returns the statistics of what actually overlapped.
func vfc13cRound(t *testing.T, r *vfkit.Run, c int) vfc13cStats {
	rng := r.Rand(c)
	group, shape := vfc13cGroup(rng)
	goroutines := 4 + rng.Intn(13)
	perG := 4 + rng.Intn(9)
	mode := vfkit.Pick(rng, []string{"lru-default", "lru-default", "lru-default", "lru-default", "lru-default", "lru-all-cacheable", "lru-all-cacheable", "noop"})
	size := 1 + rng.Intn(4) // small: entries are evicted again, so conversions keep happening
	var cache MatchersCache
	switch mode {
	case "noop":
		cache = NoopMatchersCache
	default:
		opts := []MatcherCacheOption{WithSize(size), WithPromRegistry(prometheus.NewRegistry())}
		if mode == "lru-all-cacheable" {
			opts = append(opts, WithIsCacheableFunc(func(ConversionLabelMatcher) bool { return true }))
		}
		lc, err := NewMatchersCache(opts...)
		if err != nil {
			t.Fatalf("harness: NewMatchersCache: %v", err)
		}
		cache = lc
	}
	runtime.GOMAXPROCS([]int{1, 2, 4, 16}[c%4])

	var (
		st         vfc13cStats
		inflight   int64 // conversions currently inside newItem
		mu         sync.Mutex
		order      []byte
		violated   bool
		start      = make(chan struct{})
		wg         sync.WaitGroup
		witness    = map[string]any{"group_shape": shape, "matchers": group, "goroutines": goroutines, "lookups_per_goroutine": perG, "cache": mode, "cache_size": size, "gomaxprocs": []int{1, 2, 4, 16}[c%4]}
		maxDelayUs = []int{0, 20, 100, 300}[rng.Intn(4)]
	)
	for g := 0; g < goroutines; g++ {
		wg.Add(1)
		grng := r.RandS(fmt.Sprintf("g%d", g), c)
		go func(g int) {
			defer wg.Done()
			<-start
			for i := 0; i < perG; i++ {
				want := group[grng.Intn(len(group))]
				if i == 0 && grng.Intn(2) == 0 {
					want = group[g%len(group)] // spread the first, cold, lookups over the group
				}
				idx := 0
				for k := range group {
					if group[k] == want {
						idx = k
					}
				}
				pm := storepb.LabelMatcher{Type: vfc13StoreType(want.T), Name: want.N, Value: want.V}
				yields, sleepUs := grng.Intn(4), 0
				if maxDelayUs > 0 {
					sleepUs = grng.Intn(maxDelayUs + 1)
				}
				atomic.AddInt64(&st.lookups, 1)
				if atomic.LoadInt64(&inflight) > 0 {
					atomic.AddInt64(&st.overlappedLookups, 1)
				}
				got, err := cache.GetOrSet(&pm, func() (*labels.Matcher, error) {
					atomic.AddInt64(&st.conversions, 1)
					if atomic.AddInt64(&inflight, 1) > 1 {
						atomic.AddInt64(&st.overlappedConversions, 1)
					}
					defer atomic.AddInt64(&inflight, -1)
					mu.Lock()
					if len(order) < 80 {
						order = append(order, byte('A'+idx))
					}
					mu.Unlock()
					// the conversion takes a while (regexp compilation does); perturbation only, no verdict depends on it
					for y := 0; y < yields; y++ {
						runtime.Gosched()
					}
					if sleepUs > 0 {
						time.Sleep(time.Duration(sleepUs) * time.Microsecond)
					}
					return storepb.MatcherToPromMatcher(pm)
				})
				r.Eval(1)
				mu.Lock()
				switch {
				case violated:
				case err != nil || got == nil:
					violated = true
					r.Violation(c, "matchers-cache:concurrent:lookup-failed:"+mode, fmt.Sprintf("GetOrSet(%s) with %d goroutines failed: %v", want, goroutines, err), witness)
				case got.Name != want.N || got.Type != want.T || got.Value != want.V:
					violated = true
					var wrong []string
					if got.Name != want.N {
						wrong = append(wrong, "name")
					}
					if got.Type != want.T {
						wrong = append(wrong, "type")
					}
					if got.Value != want.V {
						wrong = append(wrong, "value")
					}
					w := map[string]any{"requested": want, "returned": vfc13M{T: got.Type, N: got.Name, V: got.Value}}
					for k, v := range witness {
						w[k] = v
					}
					r.Violation(c, "matchers-cache:concurrent:answered-with-other-matcher:wrong-"+strings.Join(wrong, "+")+":"+mode,
						fmt.Sprintf("%d goroutines, group %s: the lookup of %s was answered with the matcher {name=%q type=%q value=%q} of another concurrent lookup", goroutines, shape, want, got.Name, got.Type.String(), got.Value), w)
				}
				mu.Unlock()
			}
		}(g)
	}
	close(start)
	wg.Wait()
	r.Signature(fmt.Sprintf("%s|%d|%s", mode, goroutines, string(order)))
	if st.overlappedLookups > 0 || st.overlappedConversions > 0 {
		r.Distinct(fmt.Sprintf("conc|%v|%d|%d|%s|%d", group, goroutines, perG, mode, size))
	}
	r.Sample(map[string]any{"concurrent_round": shape, "matchers": len(group), "goroutines": goroutines, "cache": mode, "lookups": st.lookups, "lookups_started_while_a_conversion_was_in_flight": st.overlappedLookups, "conversions": st.conversions})
	return st
}

// vfc13ConcurrentPart runs n rounds as cases base..base+n-1.
func vfc13ConcurrentPart(t *testing.T, r *vfkit.Run, base, n int) {
	defer runtime.GOMAXPROCS(runtime.GOMAXPROCS(0))
	var tot vfc13cStats
	ran := 0
	for i := 0; i < n; i++ {
		c := base + i
		if !r.Want(c) {
			continue
		}
		ran++
		r.Guard(c, "matchers-cache:concurrent", map[string]any{"round": i}, func() {
			st := vfc13cRound(t, r, c)
			tot.lookups += st.lookups
			tot.overlappedLookups += st.overlappedLookups
			tot.conversions += st.conversions
			tot.overlappedConversions += st.overlappedConversions
		})
	}
	r.Count("concurrent:rounds", ran)
	r.Count("concurrent:lookups", int(tot.lookups))
	r.Count("concurrent:lookups_started_while_a_conversion_was_in_flight", int(tot.overlappedLookups))
	r.Count("concurrent:conversions", int(tot.conversions))
	r.Count("concurrent:conversions_overlapping_another_conversion", int(tot.overlappedConversions))
	if !r.Replaying() {
		// the concurrent part only says something if flights really overlapped
		if tot.overlappedLookups < int64(2*n) || tot.overlappedConversions < int64(n) {
			r.Inconclusive(fmt.Sprintf("concurrent matchers-cache part: only %d lookups started while a conversion was in flight and %d overlapping conversions in %d rounds (need >= %d / %d)", tot.overlappedLookups, tot.overlappedConversions, n, 2*n, n))
		}
		if r.Signatures() < n/4 {
			r.Inconclusive(fmt.Sprintf("concurrent matchers-cache part: only %d distinct interleaving signatures in %d rounds", r.Signatures(), n))
		}
	}
}
