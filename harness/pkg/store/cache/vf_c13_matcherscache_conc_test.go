//go:build verif

package storecache

// C13, concurrent part: "a cache can never answer one lookup with another item's data" also has to hold
// while conversions are in flight. The real matchers caches (LruMatchersCache from NewMatchersCache with
// default options, with an all-cacheable IsCacheableFunc, and the noop cache) are driven from 4..16
// goroutines with groups of DIFFERENT matchers that share a value, a name or a type, starting on a cold
// (and small, so it stays cold) cache. The real conversion (storepb.MatcherToPromMatcher) runs inside the
// newItem callback, slowed down by a PRNG-chosen Gosched/microsecond delay so that flights overlap.
// Every returned matcher must have exactly the requested name, type and value.

import (
	"context"
	"fmt"
	"math/rand"
	"runtime"
	"strconv"
	"strings"
	"sync"
	"sync/atomic"
	"testing"
	"time"

	"github.com/go-kit/log"
	"github.com/prometheus/client_golang/prometheus"
	"github.com/prometheus/prometheus/model/labels"
	"github.com/prometheus/prometheus/storage"

	"github.com/thanos-io/thanos/pkg/store/storepb"
	"github.com/thanos-io/thanos/pkg/verifhook/vfkit"
)

// values are valid regular expressions so that every matcher type can be built from them
var vfc13cValues = []string{"api.*", "a|b", "x.+", "foo", ".*", "", "[ab]c", "=~", "~b", "é.*"}
var vfc13cNames = []string{"job", "instance", "a", "a=~", "__name__", "é", "pod", "b!~"}

// vfc13cGroup builds 4..12 pairwise different matchers that share a value, a name or a type.
func vfc13cGroup(rng *rand.Rand) ([]vfc13M, string) {
	shape := vfkit.Pick(rng, []string{"share-value", "share-value", "share-name", "share-type", "share-value-and-name", "mixed"})
	names := vfkit.Perm(rng, vfc13cNames)[:2+rng.Intn(3)]
	values := vfkit.Perm(rng, vfc13cValues)[:2+rng.Intn(3)]
	types := vfkit.Perm(rng, vfc13Types)[:1+rng.Intn(4)]
	switch shape {
	case "share-value":
		values = values[:1]
		if len(types) < 2 && len(names) < 4 {
			types = vfkit.Perm(rng, vfc13Types)[:2]
		}
	case "share-name":
		names = names[:1]
		if len(types) < 2 {
			types = vfkit.Perm(rng, vfc13Types)[:2]
		}
	case "share-type":
		types = types[:1]
	case "share-value-and-name":
		values, names = values[:1], names[:1]
		types = vfkit.Perm(rng, vfc13Types) // same name and value, the four polarities
	}
	regexOnly := rng.Intn(3) == 0 // only the types the default cache stores
	var all []vfc13M
	for _, n := range names {
		for _, v := range values {
			for _, t := range types {
				if regexOnly && shape != "share-type" && t != labels.MatchRegexp && t != labels.MatchNotRegexp {
					t = vfkit.Pick(rng, []labels.MatchType{labels.MatchRegexp, labels.MatchNotRegexp})
				}
				all = append(all, vfc13M{T: t, N: n, V: v})
			}
		}
	}
	// distinct, at most 12
	seen := map[string]bool{}
	var out []vfc13M
	for _, m := range vfkit.Perm(rng, all) {
		k := fmt.Sprintf("%d\x00%s\x00%s", m.T, m.N, m.V)
		if seen[k] || len(out) >= 12 {
			continue
		}
		seen[k] = true
		out = append(out, m)
	}
	return out, shape
}

type vfc13cStats struct {
	lookups, overlappedLookups, conversions, overlappedConversions int64
}

// vfc13cRound runs one concurrent round; returns the statistics of what actually overlapped.
func vfc13cRound(t *testing.T, r *vfkit.Run, c int) vfc13cStats {
	rng := r.Rand(c)
	group, shape := vfc13cGroup(rng)
	goroutines := 4 + rng.Intn(13)
	perG := 4 + rng.Intn(9)
	mode := vfkit.Pick(rng, []string{"lru-default", "lru-default", "lru-default", "lru-default", "lru-default", "lru-all-cacheable", "lru-all-cacheable", "noop"})
	size := 1 + rng.Intn(4) // small: entries are evicted again, so conversions keep happening
	var cache MatchersCache
	switch mode {
	case "noop":
		cache = NoopMatchersCache
	default:
		opts := []MatcherCacheOption{WithSize(size), WithPromRegistry(prometheus.NewRegistry())}
		if mode == "lru-all-cacheable" {
			opts = append(opts, WithIsCacheableFunc(func(ConversionLabelMatcher) bool { return true }))
		}
		lc, err := NewMatchersCache(opts...)
		if err != nil {
			t.Fatalf("harness: NewMatchersCache: %v", err)
		}
		cache = lc
	}
	runtime.GOMAXPROCS([]int{1, 2, 4, 16}[c%4])

	var (
		st         vfc13cStats
		inflight   int64 // conversions currently inside newItem
		mu         sync.Mutex
		order      []byte
		violated   bool
		start      = make(chan struct{})
		wg         sync.WaitGroup
		witness    = map[string]any{"group_shape": shape, "matchers": group, "goroutines": goroutines, "lookups_per_goroutine": perG, "cache": mode, "cache_size": size, "gomaxprocs": []int{1, 2, 4, 16}[c%4]}
		maxDelayUs = []int{0, 20, 100, 300}[rng.Intn(4)]
	)
	for g := 0; g < goroutines; g++ {
		wg.Add(1)
		grng := r.RandS(fmt.Sprintf("g%d", g), c)
		go func(g int) {
			defer wg.Done()
			<-start
			for i := 0; i < perG; i++ {
				want := group[grng.Intn(len(group))]
				if i == 0 && grng.Intn(2) == 0 {
					want = group[g%len(group)] // spread the first, cold, lookups over the group
				}
				idx := 0
				for k := range group {
					if group[k] == want {
						idx = k
					}
				}
				pm := storepb.LabelMatcher{Type: vfc13StoreType(want.T), Name: want.N, Value: want.V}
				yields, sleepUs := grng.Intn(4), 0
				if maxDelayUs > 0 {
					sleepUs = grng.Intn(maxDelayUs + 1)
				}
				atomic.AddInt64(&st.lookups, 1)
				if atomic.LoadInt64(&inflight) > 0 {
					atomic.AddInt64(&st.overlappedLookups, 1)
				}
				got, err := cache.GetOrSet(&pm, func() (*labels.Matcher, error) {
					atomic.AddInt64(&st.conversions, 1)
					if atomic.AddInt64(&inflight, 1) > 1 {
						atomic.AddInt64(&st.overlappedConversions, 1)
					}
					defer atomic.AddInt64(&inflight, -1)
					mu.Lock()
					if len(order) < 80 {
						order = append(order, byte('A'+idx))
					}
					mu.Unlock()
					// the conversion takes a while (regexp compilation does); perturbation only, no verdict depends on it
					for y := 0; y < yields; y++ {
						runtime.Gosched()
					}
					if sleepUs > 0 {
						time.Sleep(time.Duration(sleepUs) * time.Microsecond)
					}
					return storepb.MatcherToPromMatcher(pm)
				})
				r.Eval(1)
				mu.Lock()
				switch {
				case violated:
				case err != nil || got == nil:
					violated = true
					r.Violation(c, "matchers-cache:concurrent:lookup-failed:"+mode, fmt.Sprintf("GetOrSet(%s) with %d goroutines failed: %v", want, goroutines, err), witness)
				case got.Name != want.N || got.Type != want.T || got.Value != want.V:
					violated = true
					var wrong []string
					if got.Name != want.N {
						wrong = append(wrong, "name")
					}
					if got.Type != want.T {
						wrong = append(wrong, "type")
					}
					if got.Value != want.V {
						wrong = append(wrong, "value")
					}
					w := map[string]any{"requested": want, "returned": vfc13M{T: got.Type, N: got.Name, V: got.Value}}
					for k, v := range witness {
						w[k] = v
					}
					r.Violation(c, "matchers-cache:concurrent:answered-with-other-matcher:wrong-"+strings.Join(wrong, "+")+":"+mode,
						fmt.Sprintf("%d goroutines, group %s: the lookup of %s was answered with the matcher {name=%q type=%q value=%q} of another concurrent lookup", goroutines, shape, want, got.Name, got.Type.String(), got.Value), w)
				}
				mu.Unlock()
			}
		}(g)
	}
	close(start)
	wg.Wait()
	r.Signature(fmt.Sprintf("%s|%d|%s", mode, goroutines, string(order)))
	if st.overlappedLookups > 0 || st.overlappedConversions > 0 {
		r.Distinct(fmt.Sprintf("conc|%v|%d|%d|%s|%d", group, goroutines, perG, mode, size))
	}
	r.Sample(map[string]any{"concurrent_round": shape, "matchers": len(group), "goroutines": goroutines, "cache": mode, "lookups": st.lookups, "lookups_started_while_a_conversion_was_in_flight": st.overlappedLookups, "conversions": st.conversions})
	return st
}

// vfc13ConcurrentPart runs n rounds as cases base..base+n-1.
func vfc13ConcurrentPart(t *testing.T, r *vfkit.Run, base, n int) {
	defer runtime.GOMAXPROCS(runtime.GOMAXPROCS(0))
	var tot vfc13cStats
	ran := 0
	for i := 0; i < n; i++ {
		c := base + i
		if !r.Want(c) {
			continue
		}
		ran++
		r.Guard(c, "matchers-cache:concurrent", map[string]any{"round": i}, func() {
			st := vfc13cRound(t, r, c)
			tot.lookups += st.lookups
			tot.overlappedLookups += st.overlappedLookups
			tot.conversions += st.conversions
			tot.overlappedConversions += st.overlappedConversions
		})
	}
	r.Count("concurrent:rounds", ran)
	r.Count("concurrent:lookups", int(tot.lookups))
	r.Count("concurrent:lookups_started_while_a_conversion_was_in_flight", int(tot.overlappedLookups))
	r.Count("concurrent:conversions", int(tot.conversions))
	r.Count("concurrent:conversions_overlapping_another_conversion", int(tot.overlappedConversions))
	if !r.Replaying() {
		// the concurrent part only says something if flights really overlapped
		if tot.overlappedLookups < int64(2*n) || tot.overlappedConversions < int64(n) {
			r.Inconclusive(fmt.Sprintf("concurrent matchers-cache part: only %d lookups started while a conversion was in flight and %d overlapping conversions in %d rounds (need >= %d / %d)", tot.overlappedLookups, tot.overlappedConversions, n, 2*n, n))
		}
		if r.Signatures() < n/4 {
			r.Inconclusive(fmt.Sprintf("concurrent matchers-cache part: only %d distinct interleaving signatures in %d rounds", r.Signatures(), n))
		}
	}
}

// ---- concurrent part for the index caches ----------------------------------------------------------
//
// RemoteIndexCache (over an in-process fake memcached whose GetMulti yields / sleeps by PRNG, so that
// calls overlap) and InMemoryIndexCache are driven from 4..16 goroutines with Store*/Fetch* for postings,
// expanded postings and series over overlapping item sets in different orders. Every stored value is
// derived from the item, so every hit can be checked to carry exactly THAT item's data.

type vfc13SlowMemcached struct {
	vfc13FakeMemcached
	rngMu    sync.Mutex
	rng      *rand.Rand
	inflight int64
	overlap  int64
	calls    int64
}

func (f *vfc13SlowMemcached) GetMulti(ctx context.Context, keys []string) map[string][]byte {
	atomic.AddInt64(&f.calls, 1)
	if atomic.AddInt64(&f.inflight, 1) > 1 {
		atomic.AddInt64(&f.overlap, 1)
	}
	defer atomic.AddInt64(&f.inflight, -1)
	f.rngMu.Lock()
	yields, us := f.rng.Intn(4), f.rng.Intn(120)
	f.rngMu.Unlock()
	// the round trip takes a while; perturbation only
	for i := 0; i < yields; i++ {
		runtime.Gosched()
	}
	if us > 20 {
		time.Sleep(time.Duration(us) * time.Microsecond)
	}
	return f.vfc13FakeMemcached.GetMulti(ctx, keys)
}

func vfc13PostingsData(block int, l labels.Label) []byte {
	return []byte("postings-of|" + strconv.Itoa(block) + "|" + strconv.Quote(l.Name) + "|" + strconv.Quote(l.Value))
}
func vfc13ExpandedData(block int, ms []vfc13M) []byte {
	return []byte(fmt.Sprintf("expanded-of|%d|%v", block, ms))
}
func vfc13SeriesData(block int, ref storage.SeriesRef) []byte {
	return []byte(fmt.Sprintf("series-of|%d|%d", block, ref))
}

func vfc13IndexRound(t *testing.T, r *vfkit.Run, c int) (overlap, calls, hits int64) {
	rng := r.Rand(c)
	mode := vfkit.Pick(rng, []string{"remote", "remote", "remote", "inmemory"})
	var cache IndexCache
	var mc *vfc13SlowMemcached
	if mode == "remote" {
		mc = &vfc13SlowMemcached{vfc13FakeMemcached: vfc13FakeMemcached{m: map[string][]byte{}}, rng: r.RandS("memcached", c)}
		rc, err := NewRemoteIndexCache(log.NewNopLogger(), mc, nil, prometheus.NewRegistry(), time.Hour)
		if err != nil {
			t.Fatalf("harness: %v", err)
		}
		cache = rc
	} else {
		im, err := NewInMemoryIndexCacheWithConfig(log.NewNopLogger(), nil, prometheus.NewRegistry(), InMemoryIndexCacheConfig{MaxSize: 1 << 22, MaxItemSize: 1 << 16})
		if err != nil {
			t.Fatalf("harness: %v", err)
		}
		cache = im
	}
	// item universe of the round: overlapping names/values
	names := vfkit.Perm(rng, vfc13cNames)[:2+rng.Intn(3)]
	values := vfkit.Perm(rng, vfc13cValues)[:2+rng.Intn(4)]
	var lbls []labels.Label
	for _, n := range names {
		for _, v := range values {
			lbls = append(lbls, labels.Label{Name: n, Value: v})
		}
	}
	var mlists [][]vfc13M
	for i := 0; i < 6; i++ {
		g, _ := vfc13cGroup(rng)
		mlists = append(mlists, g[:1+rng.Intn(len(g))])
	}
	refs := make([]storage.SeriesRef, 12+rng.Intn(20))
	for i := range refs {
		refs[i] = storage.SeriesRef(16 * (1 + rng.Intn(200)))
	}
	goroutines := 4 + rng.Intn(13)
	perG := 6 + rng.Intn(10)
	runtime.GOMAXPROCS([]int{1, 2, 4, 16}[c%4])
	witness := map[string]any{"cache": mode, "goroutines": goroutines, "ops_per_goroutine": perG, "labels": fmt.Sprint(lbls), "gomaxprocs": []int{1, 2, 4, 16}[c%4]}
	ctx := context.Background()
	// everything is stored once up front as well, so that fetches hit from the first moment
	for b := 0; b < 2; b++ {
		for _, l := range lbls {
			cache.StorePostings(vfc13Blocks[b], l, vfc13PostingsData(b, l), "t")
		}
		for _, ms := range mlists {
			cache.StoreExpandedPostings(vfc13Blocks[b], vfc13PromMatchers(ms), vfc13ExpandedData(b, ms), "t")
		}
		for _, ref := range refs {
			cache.StoreSeries(vfc13Blocks[b], ref, vfc13SeriesData(b, ref), "t")
		}
	}
	var (
		mu       sync.Mutex
		violated bool
		nhits    int64
		wg       sync.WaitGroup
		start    = make(chan struct{})
	)
	report := func(kind, what string, extra map[string]any) {
		mu.Lock()
		defer mu.Unlock()
		if violated {
			return
		}
		violated = true
		w := map[string]any{}
		for k, v := range witness {
			w[k] = v
		}
		for k, v := range extra {
			w[k] = v
		}
		r.Violation(c, "index-cache:concurrent:hit-with-other-items-data:"+kind+":"+mode, fmt.Sprintf("%d goroutines on one %s index cache: %s", goroutines, mode, what), w)
	}
	for g := 0; g < goroutines; g++ {
		wg.Add(1)
		grng := r.RandS(fmt.Sprintf("ig%d", g), c)
		go func() {
			defer wg.Done()
			<-start
			for i := 0; i < perG; i++ {
				b := grng.Intn(2)
				r.Eval(1)
				switch grng.Intn(6) {
				case 0:
					l := lbls[grng.Intn(len(lbls))]
					cache.StorePostings(vfc13Blocks[b], l, vfc13PostingsData(b, l), "t")
				case 1, 2, 3:
					sub := vfkit.Perm(grng, lbls)[:1+grng.Intn(len(lbls))]
					h, _ := cache.FetchMultiPostings(ctx, vfc13Blocks[b], sub, "t")
					for l, v := range h {
						atomic.AddInt64(&nhits, 1)
						if string(v) != string(vfc13PostingsData(b, l)) {
							report("postings", fmt.Sprintf("FetchMultiPostings answered label {%q=%q} of block#%d with %q", l.Name, l.Value, b, v), map[string]any{"requested_labels_in_order": fmt.Sprint(sub), "label": fmt.Sprint(l), "returned": string(v), "expected": string(vfc13PostingsData(b, l))})
						}
					}
				case 4:
					ms := mlists[grng.Intn(len(mlists))]
					if grng.Intn(3) == 0 {
						cache.StoreExpandedPostings(vfc13Blocks[b], vfc13PromMatchers(ms), vfc13ExpandedData(b, ms), "t")
					}
					if v, ok := cache.FetchExpandedPostings(ctx, vfc13Blocks[b], vfc13PromMatchers(ms), "t"); ok {
						atomic.AddInt64(&nhits, 1)
						if string(v) != string(vfc13ExpandedData(b, ms)) {
							report("expanded-postings", fmt.Sprintf("FetchExpandedPostings(%v) of block#%d answered with %q", ms, b, v), map[string]any{"matchers": ms, "returned": string(v)})
						}
					}
				default:
					sub := vfkit.Perm(grng, refs)[:1+grng.Intn(len(refs))]
					h, _ := cache.FetchMultiSeries(ctx, vfc13Blocks[b], sub, "t")
					for ref, v := range h {
						atomic.AddInt64(&nhits, 1)
						if string(v) != string(vfc13SeriesData(b, ref)) {
							report("series", fmt.Sprintf("FetchMultiSeries answered ref %d of block#%d with %q", ref, b, v), map[string]any{"ref": ref, "returned": string(v)})
						}
					}
				}
			}
		}()
	}
	close(start)
	wg.Wait()
	if mc != nil {
		overlap, calls = atomic.LoadInt64(&mc.overlap), atomic.LoadInt64(&mc.calls)
	}
	if overlap > 0 || mode == "inmemory" {
		r.Distinct(fmt.Sprintf("idx|%s|%d|%d|%v|%v", mode, goroutines, perG, lbls, refs))
	}
	r.Signature(fmt.Sprintf("idx|%s|%d|%d|%d", mode, goroutines, overlap, calls))
	return overlap, calls, atomic.LoadInt64(&nhits)
}

// vfc13ConcurrentIndexPart runs n rounds as cases base..base+n-1.
func vfc13ConcurrentIndexPart(t *testing.T, r *vfkit.Run, base, n int) {
	defer runtime.GOMAXPROCS(runtime.GOMAXPROCS(0))
	var overlap, calls, hits int64
	ran := 0
	for i := 0; i < n; i++ {
		c := base + i
		if !r.Want(c) {
			continue
		}
		ran++
		r.Guard(c, "index-cache:concurrent", map[string]any{"round": i}, func() {
			o, cl, h := vfc13IndexRound(t, r, c)
			overlap, calls, hits = overlap+o, calls+cl, hits+h
		})
	}
	r.Count("concurrent-index:rounds", ran)
	r.Count("concurrent-index:memcached_getmulti_calls", int(calls))
	r.Count("concurrent-index:memcached_getmulti_calls_overlapping_another", int(overlap))
	r.Count("concurrent-index:hits_checked_for_provenance", int(hits))
	if !r.Replaying() && (overlap < int64(2*n) || hits < int64(20*n)) {
		r.Inconclusive(fmt.Sprintf("concurrent index-cache part: only %d overlapping memcached round trips and %d checked hits in %d rounds", overlap, hits, n))
	}
}
