//go:build verif

package store

// C05: when a query skips a store because of its advertised time range or external labels, that
// store holds no series matching the query's selectors within the query's time range.
// Observation: which store.Client received a Series call from the real ProxyStore.Series.
// Ground truth: the store itself (real TSDBStores over tiny TSDBs), called directly with the same request.

import (
	"context"
	"fmt"
	"io"
	"math"
	"math/rand"
	"sort"
	"strings"
	"sync"
	"sync/atomic"
	"testing"

	uatomic "go.uber.org/atomic"
	"time"

	"github.com/prometheus/common/model"
	"github.com/prometheus/prometheus/model/labels"
	"github.com/prometheus/prometheus/model/relabel"
	"github.com/prometheus/prometheus/tsdb"
	"google.golang.org/grpc"

	"github.com/thanos-io/thanos/pkg/component"
	"github.com/thanos-io/thanos/pkg/info/infopb"
	"github.com/thanos-io/thanos/pkg/store/labelpb"
	"github.com/thanos-io/thanos/pkg/store/storepb"
	"github.com/thanos-io/thanos/pkg/testutil/e2eutil"
	"github.com/thanos-io/thanos/pkg/verifhook/vfkit"
)

type vfc05DB struct {
	db         *tsdb.DB
	desc       []string
	minT, maxT int64
	empty      bool
}

// vfc05MakeDB builds a tiny TSDB: 0..4 series, 1..5 samples each inside one of a few windows.
func vfc05MakeDB(rng *rand.Rand) (*vfc05DB, error) {
	db, err := e2eutil.NewTSDB()
	if err != nil {
		return nil, err
	}
	d := &vfc05DB{db: db, minT: math.MaxInt64, maxT: math.MinInt64, empty: true}
	type smp struct {
		l labels.Labels
		t int64
	}
	var all []smp
	n := rng.Intn(5)
	lo := vfkit.Pick(rng, []int64{0, 1000, 1000, 5000})
	seen := map[string]bool{}
	for i := 0; i < n; i++ {
		kv := []string{"__name__", vfkit.Pick(rng, []string{"m1", "m2"})}
		if rng.Intn(3) != 0 {
			kv = append(kv, "a", vfkit.Pick(rng, []string{"1", "2"}))
		}
		if rng.Intn(3) == 0 {
			kv = append(kv, "b", "x")
		}
		if rng.Intn(4) == 0 {
			kv = append(kv, "region", vfkit.Pick(rng, []string{"eu", "us"})) // region as the series' own label
		}
		l := labels.FromStrings(kv...)
		if seen[l.String()] {
			continue
		}
		seen[l.String()] = true
		k := 1 + rng.Intn(5)
		start := lo + int64(rng.Intn(4))*100
		var ts []int64
		for j := 0; j < k; j++ {
			t := start + int64(j)*100
			all = append(all, smp{l, t})
			ts = append(ts, t)
		}
		d.desc = append(d.desc, fmt.Sprintf("%s@%v", l.String(), ts))
	}
	sort.SliceStable(all, func(i, j int) bool { return all[i].t < all[j].t })
	app := db.Appender(context.Background())
	for _, s := range all {
		if _, err := app.Append(0, s.l, s.t, 1); err != nil {
			return nil, err
		}
		d.empty = false
		if s.t < d.minT {
			d.minT = s.t
		}
		if s.t > d.maxT {
			d.maxT = s.t
		}
	}
	if err := app.Commit(); err != nil {
		return nil, err
	}
	return d, nil
}

type vfc05Inner struct {
	db    *vfc05DB
	ext   labels.Labels
	store *TSDBStore
}

// vfc05Client is a store.Client in front of 0..2 real TSDBStores (a multi-TSDB endpoint). Its advertised
// label sets and time range are derived from what it holds.
type vfc05Client struct {
	name       string
	inner      []*vfc05Inner
	lsets      []labels.Labels
	minT, maxT int64
	timeMode   string
	filter     bool // single inner store with the cuckoo metric-name filter
	calls      atomic.Int64

	// layered endpoint (a querier behind the querier): label sets, time range and TSDB infos are whatever a REAL
	// lower ProxyStore over the children advertises, and Series goes through that lower proxy.
	// inner then lists the TSDBStores of all children (ground truth only).
	lower    *ProxyStore
	children []*vfc05Client
}

func (c *vfc05Client) LabelSets() []labels.Labels {
	if c.lower == nil {
		return c.lsets
	}
	var out []labels.Labels
	for _, ls := range labelpb.ZLabelSetsToPromLabelSets(c.lower.LabelSet()...) {
		if ls.Len() > 0 {
			out = append(out, ls.Copy())
		}
	}
	return out
}

func (c *vfc05Client) TimeRange() (int64, int64) {
	if c.lower == nil {
		return c.minT, c.maxT
	}
	return c.lower.TimeRange()
}

func (c *vfc05Client) TSDBInfos() []infopb.TSDBInfo {
	if c.lower == nil {
		return nil
	}
	return c.lower.TSDBInfos()
}

func (c *vfc05Client) describe() string {
	mi, ma := c.TimeRange()
	if c.lower == nil {
		return fmt.Sprintf("%s label sets %v advertised [%d,%d] (%s)", c.name, c.LabelSets(), mi, ma, c.timeMode)
	}
	var ch []string
	for _, k := range c.children {
		ch = append(ch, k.describe())
	}
	return fmt.Sprintf("%s = lower ProxyStore advertising label sets %v [%d,%d] over children, in this order: %s", c.name, c.LabelSets(), mi, ma, strings.Join(ch, " ; "))
}
func (c *vfc05Client) SupportsSharding() bool             { return true }
func (c *vfc05Client) SupportsWithoutReplicaLabels() bool { return true }
func (c *vfc05Client) String() string                     { return c.name }
func (c *vfc05Client) Addr() (string, bool)               { return c.name, false }
func (c *vfc05Client) Matches(ms []*labels.Matcher) bool {
	if c.filter {
		return c.inner[0].store.Matches(ms)
	}
	return true
}
func (c *vfc05Client) LabelNames(context.Context, *storepb.LabelNamesRequest, ...grpc.CallOption) (*storepb.LabelNamesResponse, error) {
	return &storepb.LabelNamesResponse{}, nil
}
func (c *vfc05Client) LabelValues(context.Context, *storepb.LabelValuesRequest, ...grpc.CallOption) (*storepb.LabelValuesResponse, error) {
	return &storepb.LabelValuesResponse{}, nil
}

// vfc05Direct asks one real TSDBStore directly.
func vfc05Direct(ctx context.Context, st *TSDBStore, req *storepb.SeriesRequest) ([]*storepb.Series, error) {
	srv := vfc03NewServer(ctx)
	if err := st.Series(req, srv); err != nil {
		return nil, err
	}
	return srv.series, nil
}

func (c *vfc05Client) Series(ctx context.Context, req *storepb.SeriesRequest, _ ...grpc.CallOption) (storepb.Store_SeriesClient, error) {
	c.calls.Add(1)
	if c.lower != nil {
		return storepb.ServerAsClient(c.lower, uatomic.Bool{}).Series(ctx, req)
	}
	var all []*storepb.Series
	for _, in := range c.inner {
		ss, err := vfc05Direct(ctx, in.store, req)
		if err != nil {
			return nil, err
		}
		all = append(all, ss...)
	}
	sort.SliceStable(all, func(i, j int) bool { return labels.Compare(all[i].PromLabels(), all[j].PromLabels()) < 0 })
	return &vfc05Stream{ctx: ctx, series: all}, nil
}

type vfc05Stream struct {
	storepb.Store_SeriesClient
	ctx    context.Context
	series []*storepb.Series
	i      int
}

func (s *vfc05Stream) Recv() (*storepb.SeriesResponse, error) {
	if s.i >= len(s.series) {
		return nil, io.EOF
	}
	s.i++
	return storepb.NewSeriesResponse(s.series[s.i-1]), nil
}
func (s *vfc05Stream) Context() context.Context { return s.ctx }
func (s *vfc05Stream) CloseSend() error         { return nil }

var vfc05Exts = []labels.Labels{
	labels.FromStrings("region", "eu"),
	labels.FromStrings("region", "us"),
	labels.FromStrings("region", "eu", "replica", "r0"),
	labels.FromStrings("region", "eu", "replica", "r1"),
	labels.FromStrings("replica", "r1"),
	labels.FromStrings("a", "1"),
	labels.FromStrings("a", "2", "region", "us"),
}

type vfc05Selector struct {
	name string
	cfg  []*relabel.Config
}

func vfc05Selectors() []vfc05Selector {
	mk := func(src, re string, act relabel.Action) []*relabel.Config {
		return []*relabel.Config{{SourceLabels: model.LabelNames{model.LabelName(src)}, Separator: ";", Regex: relabel.MustNewRegexp(re), Action: act}}
	}
	return []vfc05Selector{
		{"none", nil}, {"none", nil}, {"none", nil},
		{"keep region=eu", mk("region", "eu", relabel.Keep)},
		{"drop replica=r1", mk("replica", "r1", relabel.Drop)},
		{"keep region=eu|us", mk("region", "eu|us", relabel.Keep)},
		{"drop region=us", mk("region", "us", relabel.Drop)},
	}
}

func vfc05GenMatchers(rng *rand.Rand) []storepb.LabelMatcher {
	names := []string{"__name__", "__name__", "a", "a", "b", "region", "region", "replica", "zz"}
	vals := map[string][]string{
		"__name__": {"m1", "m2", "m3", "", "m.*", ".+", ".*", "m1|m2"},
		"a":        {"1", "2", "3", "", ".*", ".+", "1|2"},
		"b":        {"x", "y", "", ".*", ".+"},
		"region":   {"eu", "us", "ap", "", ".*", ".+", "eu|us", "e.*"},
		"replica":  {"r0", "r1", "r2", "", ".*", ".+", "r0|r1"},
		"zz":       {"", "q", ".*", ".+"},
	}
	n := 1 + rng.Intn(3)
	var out []storepb.LabelMatcher
	for i := 0; i < n; i++ {
		name := vfkit.Pick(rng, names)
		v := vfkit.Pick(rng, vals[name])
		ty := vfkit.Pick(rng, []storepb.LabelMatcher_Type{storepb.LabelMatcher_EQ, storepb.LabelMatcher_NEQ, storepb.LabelMatcher_RE, storepb.LabelMatcher_NRE})
		out = append(out, storepb.LabelMatcher{Type: ty, Name: name, Value: v})
	}
	return out
}

func vfc05FmtMatchers(ms []storepb.LabelMatcher) string {
	var s []string
	for _, m := range ms {
		op := map[storepb.LabelMatcher_Type]string{storepb.LabelMatcher_EQ: "=", storepb.LabelMatcher_NEQ: "!=", storepb.LabelMatcher_RE: "=~", storepb.LabelMatcher_NRE: "!~"}[m.Type]
		s = append(s, fmt.Sprintf("%s%s%q", m.Name, op, m.Value))
	}
	return "{" + strings.Join(s, ",") + "}"
}

func vfc05ReasonClass(reason string) string {
	switch {
	case strings.Contains(reason, "time period"):
		return "time-range"
	case strings.Contains(reason, "external labels"):
		return "external-labels"
	case strings.Contains(reason, "filter for matchers"):
		return "metric-name-filter"
	case strings.Contains(reason, "__address__"):
		return "address-matcher"
	}
	return "other"
}

func TestVF_C05(t *testing.T) {
	r := vfkit.Start(t, "C05")
	defer r.Finish()
	r.Rule("case = scenario of 1..4 endpoints, each in front of 0..2 real TSDBStores (pool of tiny TSDBs: 0..4 series over {__name__,a,b,region}, samples in a few windows) with generated external label sets over {region,replica,a}, " +
		"advertised time range {exact data range, TSDBStore's own, unbounded}; 40% of the endpoints are layered: label sets / time range / TSDB infos are what a REAL lower ProxyStore over 2..4 such children (one TSDBStore each, any order; enclosing, staggered, disjoint ranges) advertises and Series goes through it; optional TSDBSelector keep/drop relabel config, optional cuckoo metric-name filter x 40 (thorough 80) queries: 1..3 matchers (=,!=,=~,!~; empty values, .*, .+, alternations, absent names) " +
		"and time ranges on/around the advertised bounds (of the endpoint and of its children; 35% narrow windows anchored at such a point), 30% broad selectors, 10% with __address__ debug matchers; observation = which endpoints the real ProxyStore.Series called (every 6th query, cross-checked) resp. ProxyStore.matchingStores selected (the others); " +
		"oracle per (endpoint,query): skipped because of time range / external labels / selector  =>  no TSDBStore of the endpoint (that the selector admits) returns a series when asked directly with the same request; " +
		"evaluation = one (endpoint,query) pair; distinct = (label sets, advertised range, selector, matchers, query range) of a pair whose endpoint was skipped")
	r.Assume("an endpoint advertises the external label set of every TSDB behind it; a TSDB without external labels is only used alone (then nothing is advertised): stores without external labels behind a multi-TSDB endpoint are a documented misconfiguration")
	r.Assume("ground truth is the TSDBStore's own answer to the same request (matchers, time range); an InvalidArgument answer counts as holding nothing")
	r.Assume("skips caused by an explicit __address__ debug matcher or by the metric-name filter are outside the statement: counted, not judged")

	nScen := r.N(160, 1600)
	nQ := r.N(40, 80)
	r.Require(int64(nScen*nQ), nScen*nQ/8)

	nDB := r.N(16, 48)
	var dbs []*vfc05DB
	defer func() {
		for _, d := range dbs {
			_ = d.db.Close()
		}
	}()
	for i := 0; i < nDB; i++ {
		d, err := vfc05MakeDB(r.RandS("db", i))
		if err != nil {
			t.Fatalf("tsdb: %v", err)
		}
		dbs = append(dbs, d)
	}
	sels := vfc05Selectors()
	ctx := context.Background()

	// scenarios are independent (own PRNG stream, own stores; the TSDB pool is only read): 4 workers
	runScenario := func(c int) {
		rng := r.Rand(c)
		sel := vfkit.Pick(rng, sels)
		var clients []Client
		var vcl []*vfc05Client
		var closers []*TSDBStore
		defer func() {
			for _, s := range closers {
				s.Close()
			}
		}()
		nStores := 1 + rng.Intn(4)
		// mkLeaf builds an endpoint directly in front of 0..2 real TSDBStores. A child of a layered endpoint always fronts
		// exactly one TSDBStore with external labels (a store without external labels behind a querier is a misconfiguration).
		mkLeaf := func(name string, child bool) *vfc05Client {
			cl := &vfc05Client{name: name}
			nInner := []int{0, 1, 1, 1, 1, 1, 1, 2, 2, 2}[rng.Intn(10)]
			noExt := nInner == 1 && rng.Intn(6) == 0
			if child {
				nInner, noExt = 1, false
			}
			exts := vfkit.Perm(rng, vfc05Exts)
			dmin, dmax := int64(math.MaxInt64), int64(math.MinInt64)
			smin := int64(math.MaxInt64)
			for k := 0; k < nInner; k++ {
				in := &vfc05Inner{db: vfkit.Pick(rng, dbs), ext: exts[k]}
				if noExt {
					in.ext = labels.EmptyLabels()
				}
				var opts []TSDBStoreOption
				if nInner == 1 && !child && rng.Intn(8) == 0 {
					opts = append(opts, WithCuckooMetricNameStoreFilter())
					cl.filter = true
				}
				in.store = NewTSDBStore(nil, in.db.db, component.Receive, in.ext, opts...)
				closers = append(closers, in.store)
				cl.inner = append(cl.inner, in)
				if !in.ext.IsEmpty() {
					cl.lsets = append(cl.lsets, in.ext)
				}
				if !in.db.empty {
					dmin, dmax = min(dmin, in.db.minT), max(dmax, in.db.maxT)
				}
				a, _ := in.store.TimeRange()
				smin = min(smin, a)
			}
			cl.timeMode = vfkit.Pick(rng, []string{"exact", "exact", "tsdbstore", "unbounded"})
			if child {
				cl.timeMode = vfkit.Pick(rng, []string{"exact", "exact", "exact", "exact", "tsdbstore", "unbounded"})
			}
			switch {
			case cl.timeMode == "exact" && dmin <= dmax:
				cl.minT, cl.maxT = dmin, dmax
			case cl.timeMode == "exact":
				cl.minT, cl.maxT = 500, 600 // holds nothing: may advertise anything
			case cl.timeMode == "tsdbstore":
				cl.minT, cl.maxT = smin, math.MaxInt64
			default:
				cl.minT, cl.maxT = math.MinInt64, math.MaxInt64
			}
			return cl
		}
		layeredInScenario := false
		for si := 0; si < nStores; si++ {
			var cl *vfc05Client
			if rng.Intn(10) < 4 {
				// layered: a real lower ProxyStore over 2..4 children (their order is the generated order: any order occurs)
				cl = &vfc05Client{name: fmt.Sprintf("vfep-%d", si), timeMode: "lower-proxy"}
				var kids []Client
				for k, nk := 0, 2+rng.Intn(3); k < nk; k++ {
					ch := mkLeaf(fmt.Sprintf("vfep-%d-child-%d", si, k), true)
					cl.children = append(cl.children, ch)
					cl.inner = append(cl.inner, ch.inner...)
					kids = append(kids, ch)
				}
				cl.lower = NewProxyStore(nil, nil, func() []Client { return kids }, component.Query, labels.EmptyLabels(), 0, EagerRetrieval)
				layeredInScenario = true
			} else {
				cl = mkLeaf(fmt.Sprintf("vfep-%d", si), false)
			}
			clients = append(clients, cl)
			vcl = append(vcl, cl)
		}
		if layeredInScenario {
			r.Count("scenarios_with_layered_endpoint", 1)
		}
		var popts []ProxyStoreOption
		if sel.cfg != nil {
			popts = append(popts, WithTSDBSelector(NewTSDBSelector(sel.cfg)))
		}
		p := NewProxyStore(nil, nil, func() []Client { return clients }, component.Query, labels.EmptyLabels(), 0, EagerRetrieval, popts...)

		admitted := func(in *vfc05Inner) bool {
			if sel.cfg == nil || in.ext.IsEmpty() {
				return true
			}
			_, keep := relabel.Process(in.ext, sel.cfg...)
			return keep
		}

		for qi := 0; qi < nQ; qi++ {
			ms := vfc05GenMatchers(rng)
			if rng.Intn(10) < 3 {
				// a broad selector, as dashboards and rules send them
				ms = []storepb.LabelMatcher{vfkit.Pick(rng, []storepb.LabelMatcher{
					{Type: storepb.LabelMatcher_RE, Name: "__name__", Value: ".+"},
					{Type: storepb.LabelMatcher_RE, Name: "__name__", Value: "m.*"},
					{Type: storepb.LabelMatcher_NEQ, Name: "__name__", Value: ""},
					{Type: storepb.LabelMatcher_NEQ, Name: "zz", Value: "q"},
				})}
			}
			// time range on/around the advertised bounds of one endpoint
			ref := vcl[rng.Intn(len(vcl))]
			if rng.Intn(2) == 0 {
				// prefer a layered endpoint as the reference when the scenario has one
				for _, off := range rng.Perm(len(vcl)) {
					if vcl[off].lower != nil {
						ref = vcl[off]
						break
					}
				}
			}
			var cands []int64
			rmin, rmax := ref.TimeRange()
			bounds := []int64{rmin, rmax}
			for _, ch := range ref.children {
				bounds = append(bounds, ch.minT, ch.maxT)
			}
			for _, b := range bounds {
				if b > math.MinInt64+2 && b < math.MaxInt64-2 {
					cands = append(cands, b-1, b, b+1)
				}
			}
			cands = append(cands, 0, 450, 1250, 5100, 9000, math.MinInt64, math.MaxInt64)
			qmin, qmax := vfkit.Pick(rng, cands), vfkit.Pick(rng, cands)
			if qmin > qmax {
				qmin, qmax = qmax, qmin
			}
			if rng.Intn(20) < 7 {
				// a narrow window anchored at one of the candidate points (just before / on / just past a bound)
				w := vfkit.Pick(rng, []int64{0, 1, 50, 1000})
				if qmin = vfkit.Pick(rng, cands); qmin > math.MaxInt64-w {
					qmin = math.MaxInt64 - w
				}
				qmax = qmin + w
			}
			req := &storepb.SeriesRequest{MinTime: qmin, MaxTime: qmax, Matchers: ms, PartialResponseStrategy: storepb.PartialResponseStrategy_WARN}
			qctx := ctx
			var dbg [][]*labels.Matcher
			if rng.Intn(10) == 0 {
				dbg = [][]*labels.Matcher{{labels.MustNewMatcher(vfkit.Pick(rng, []labels.MatchType{labels.MatchEqual, labels.MatchNotEqual, labels.MatchRegexp}), "__address__", vfkit.Pick(rng, []string{"vfep-0", "vfep-1", "vfep-.*", "nope"}))}}
				qctx = context.WithValue(ctx, StoreMatcherKey, dbg)
			}
			pms, perr := storepb.MatchersToPromMatchers(ms...)
			if perr != nil {
				r.Inconclusive(fmt.Sprintf("harness: matchers %s: %v", vfc05FmtMatchers(ms), perr))
				return
			}
			// Every 6th query goes through the public ProxyStore.Series (skipped = the endpoint's Series was not called) and is
			// cross-checked with matchingStores; the others take the pruning decision from matchingStores directly (no fan-out).
			selected := map[*vfc05Client]bool{}
			sel2, _, _ := p.matchingStores(qctx, clients, qmin, qmax, pms)
			for _, st := range sel2 {
				selected[st.(*vfc05Client)] = true
			}
			if qi%6 == 0 {
				for _, cl := range vcl {
					cl.calls.Store(0)
				}
				srv := vfc03NewServer(qctx)
				var err error
				done := make(chan struct{})
				go func() {
					defer close(done)
					r.Guard(c, "proxy-series", map[string]any{"matchers": vfc05FmtMatchers(ms), "range": []int64{qmin, qmax}}, func() { err = p.Series(req, srv) })
				}()
				select {
				case <-done:
				case <-time.After(120 * time.Second):
					r.Inconclusive(fmt.Sprintf("scenario %d query %d: ProxyStore.Series did not return within 120s", c, qi))
					return
				}
				if err != nil {
					// e.g. InvalidArgument: not a pruning decision
					r.Count("queries_rejected_by_proxy", 1)
					continue
				}
				r.Count("queries_through_series", 1)
				for _, cl := range vcl {
					if called := cl.calls.Load() > 0; called != selected[cl] {
						r.Inconclusive(fmt.Sprintf("scenario %d query %d: ProxyStore.Series called=%v but matchingStores selected=%v for %s: the two observation points disagree", c, qi, called, selected[cl], cl.name))
					}
					selected[cl] = cl.calls.Load() > 0
				}
			}
			for _, cl := range vcl {
				r.Eval(1)
				if selected[cl] {
					r.Count("pairs_selected", 1)
					continue
				}
				// skipped: why?
				advMin, advMax := cl.TimeRange()
				lsets := cl.LabelSets()
				ok, reason := storeMatches(qctx, false, cl, qmin, qmax, pms...)
				class := vfc05ReasonClass(reason)
				if ok {
					class = "tsdb-selector"
					if sel.cfg == nil {
						class = "other"
					}
				}
				r.Count("pairs_skipped_"+class, 1)
				if cl.lower != nil {
					r.Count("pairs_skipped_layered_endpoint_"+class, 1)
				}
				// ground truth
				held := false
				var heldBy string
				for _, in := range cl.inner {
					if !admitted(in) {
						continue
					}
					ss, derr := vfc05Direct(ctx, in.store, req)
					if derr == nil && len(ss) > 0 {
						held = true
						heldBy = fmt.Sprintf("TSDB ext=%s returns %d series, first %s", in.ext, len(ss), ss[0].PromLabels())
					}
				}
				key := fmt.Sprintf("%v|%d|%d|%s|%s|%d|%d", lsets, advMin, advMax, sel.name, vfc05FmtMatchers(ms), qmin, qmax)
				if class == "address-matcher" || class == "metric-name-filter" {
					if held {
						r.Count("held_but_skipped_by_"+class+"_not_judged", 1)
					}
					continue
				}
				r.Distinct(key)
				r.Sample(map[string]any{"endpoint_label_sets": fmt.Sprint(lsets), "advertised": []int64{advMin, advMax}, "selector": sel.name,
					"matchers": vfc05FmtMatchers(ms), "range": []int64{qmin, qmax}, "skip_reason": class, "held": held})
				if held {
					var inner []any
					for _, in := range cl.inner {
						inner = append(inner, map[string]any{"external_labels": in.ext.String(), "series": in.db.desc})
					}
					fp := "held-store-skipped reason=" + class
					if cl.lower != nil {
						fp += " endpoint=lower-proxy" // what a real lower ProxyStore advertised was pruned on
					}
					r.Violation(c, fp,
						fmt.Sprintf("endpoint %s (label sets %v, advertised [%d,%d]) was skipped (%s) for %s [%d,%d] but %s", cl.name, lsets, advMin, advMax, class, vfc05FmtMatchers(ms), qmin, qmax, heldBy),
						map[string]any{"endpoint": cl.name, "label_sets": fmt.Sprint(lsets), "advertised": []int64{advMin, advMax}, "time_mode": cl.timeMode, "selector": sel.name,
							"matchers": vfc05FmtMatchers(ms), "range": []int64{qmin, qmax}, "tsdbs": inner, "held_by": heldBy, "skip_reason": reason, "topology": cl.describe()})
				}
			}
		}
	}
	var wg sync.WaitGroup
	idx := make(chan int)
	for w := 0; w < 4; w++ {
		wg.Add(1)
		go func() {
			defer wg.Done()
			for c := range idx {
				runScenario(c)
			}
		}()
	}
	for c := 0; c < nScen; c++ {
		if r.Want(c) {
			idx <- c
		}
	}
	close(idx)
	wg.Wait()
}
