//go:build verif

package store

// C08 — PrometheusStore part: the real PrometheusStore in front of an in-process fake Prometheus
// (HTTP remote read in both negotiated response types, sampled and streamed chunks, plus
// /api/v1/series for SkipChunks requests). The fake behaves like Prometheus: remote read merges the
// configured external labels into every series with the STORED label winning, /api/v1/series
// returns stored labels only; matchers are evaluated on the stored labels.

import (
	"encoding/json"
	"io"
	"math"
	"math/rand"
	"net/http"
	"net/http/httptest"
	"net/url"
	"sync"
	"sync/atomic"
	"testing"

	"github.com/gogo/protobuf/proto"
	"github.com/golang/snappy"
	"github.com/prometheus/prometheus/model/labels"
	"github.com/prometheus/prometheus/promql/parser"
	"github.com/prometheus/prometheus/storage/remote"
	"github.com/prometheus/prometheus/tsdb/chunkenc"

	"github.com/thanos-io/thanos/pkg/component"
	"github.com/thanos-io/thanos/pkg/promclient"
	"github.com/thanos-io/thanos/pkg/store/labelpb"
	"github.com/thanos-io/thanos/pkg/store/storepb"
	"github.com/thanos-io/thanos/pkg/store/storepb/prompb"
	"github.com/thanos-io/thanos/pkg/verifhook/vfkit"
)

type vfc08FakeProm struct {
	mu      sync.Mutex
	ext     labels.Labels
	stored  []labels.Labels
	ts      int64
	sampled atomic.Bool
	split   atomic.Bool // streamed: every series is sent as two ChunkedReadResponse frames
	chunk   []byte
	reads   atomic.Int64
	series  atomic.Int64
}

func (p *vfc08FakeProm) getExt() labels.Labels {
	p.mu.Lock()
	defer p.mu.Unlock()
	return p.ext
}

func (p *vfc08FakeProm) setExt(e labels.Labels) {
	p.mu.Lock()
	p.ext = e
	p.mu.Unlock()
}

// merged = what Prometheus' remote read handler sends: external labels added, stored labels win.
func (p *vfc08FakeProm) merged(stored labels.Labels) []labelpb.ZLabel {
	b := labels.NewBuilder(p.getExt())
	stored.Range(func(l labels.Label) { b.Set(l.Name, l.Value) })
	return labelpb.ZLabelsFromPromLabels(b.Labels())
}

func vfc08MatchAll(ms []*labels.Matcher, l labels.Labels) bool {
	for _, m := range ms {
		if !m.Matches(l.Get(m.Name)) {
			return false
		}
	}
	return true
}

func (p *vfc08FakeProm) ServeHTTP(w http.ResponseWriter, r *http.Request) {
	switch r.URL.Path {
	case "/api/v1/series":
		p.series.Add(1)
		ms, err := parser.ParseMetricSelector(r.URL.Query().Get("match[]"))
		if err != nil {
			http.Error(w, err.Error(), http.StatusBadRequest)
			return
		}
		data := []map[string]string{}
		for _, s := range p.stored {
			if vfc08MatchAll(ms, s) {
				data = append(data, s.Map())
			}
		}
		w.Header().Set("Content-Type", "application/json")
		_ = json.NewEncoder(w).Encode(map[string]any{"status": "success", "data": data})
	case "/api/v1/read":
		p.reads.Add(1)
		body, err := io.ReadAll(r.Body)
		if err != nil {
			http.Error(w, err.Error(), http.StatusBadRequest)
			return
		}
		raw, err := snappy.Decode(nil, body)
		if err != nil {
			http.Error(w, err.Error(), http.StatusBadRequest)
			return
		}
		var req prompb.ReadRequest
		if err := proto.Unmarshal(raw, &req); err != nil || len(req.Queries) != 1 {
			http.Error(w, "bad read request", http.StatusBadRequest)
			return
		}
		var ms []*labels.Matcher
		for _, m := range req.Queries[0].Matchers {
			var mt labels.MatchType
			switch m.Type {
			case prompb.LabelMatcher_EQ:
				mt = labels.MatchEqual
			case prompb.LabelMatcher_NEQ:
				mt = labels.MatchNotEqual
			case prompb.LabelMatcher_RE:
				mt = labels.MatchRegexp
			case prompb.LabelMatcher_NRE:
				mt = labels.MatchNotRegexp
			}
			pm, err := labels.NewMatcher(mt, m.Name, m.Value)
			if err != nil {
				http.Error(w, err.Error(), http.StatusBadRequest)
				return
			}
			ms = append(ms, pm)
		}
		var sel []labels.Labels
		for _, s := range p.stored {
			if vfc08MatchAll(ms, s) {
				sel = append(sel, s)
			}
		}
		if p.sampled.Load() {
			res := &prompb.ReadResponse{Results: []*prompb.QueryResult{{}}}
			for _, s := range sel {
				res.Results[0].Timeseries = append(res.Results[0].Timeseries, &prompb.TimeSeries{
					Labels:  p.merged(s),
					Samples: []prompb.Sample{{Timestamp: p.ts, Value: 1}, {Timestamp: p.ts + 1, Value: 2}},
				})
			}
			b, err := proto.Marshal(res)
			if err != nil {
				http.Error(w, err.Error(), http.StatusInternalServerError)
				return
			}
			w.Header().Set("Content-Type", "application/x-protobuf")
			w.Header().Set("Content-Encoding", "snappy")
			_, _ = w.Write(snappy.Encode(nil, b))
			return
		}
		w.Header().Set("Content-Type", "application/x-streamed-protobuf; proto=prometheus.ChunkedReadResponse")
		cw := remote.NewChunkedWriter(w, w.(http.Flusher))
		for _, s := range sel {
			n := 1
			if p.split.Load() {
				n = 2
			}
			for i := 0; i < n; i++ {
				b, err := proto.Marshal(&prompb.ChunkedReadResponse{ChunkedSeries: []*prompb.ChunkedSeries{{
					Labels: p.merged(s),
					Chunks: []prompb.Chunk{{MinTimeMs: p.ts + int64(2*i), MaxTimeMs: p.ts + int64(2*i) + 1, Type: prompb.Chunk_XOR, Data: p.chunk}},
				}}})
				if err != nil {
					return
				}
				if _, err := cw.Write(b); err != nil {
					return
				}
			}
		}
	default:
		http.NotFound(w, r)
	}
}

// vfc08RunPromStore drives nReq generated requests through a PrometheusStore whose Prometheus holds
// the stored label sets of the fixture (they collide with external label names).
func vfc08RunPromStore(t *testing.T, r *vfkit.Run, c int, rng *rand.Rand, fx *vfc07Fixture, nReq int) {
	seen := map[string]bool{}
	fp := &vfc08FakeProm{ts: fx.tmin}
	for _, b := range fx.blocks {
		for _, s := range b.series {
			if !seen[s.lset.String()] && len(fp.stored) < 40 {
				seen[s.lset.String()] = true
				fp.stored = append(fp.stored, s.lset)
			}
		}
	}
	ch := chunkenc.NewXORChunk()
	app, err := ch.Appender()
	if err != nil {
		vfc07Setup("appender: %v", err)
	}
	app.Append(fx.tmin, 1)
	app.Append(fx.tmin+1, 2)
	fp.chunk = ch.Bytes()
	ext := fx.u.extSets[rng.Intn(len(fx.u.extSets))]
	fp.setExt(ext)

	hs := httptest.NewServer(fp)
	defer hs.Close()
	u, err := url.Parse(hs.URL)
	if err != nil {
		vfc07Setup("url: %v", err)
	}
	tr := &http.Transport{DisableKeepAlives: true}
	defer tr.CloseIdleConnections()
	ps, err := NewPrometheusStore(nil, nil, promclient.NewClient(&http.Client{Transport: tr}, nil, "verif"), u, component.Sidecar,
		fp.getExt,
		func() (int64, int64) { return math.MinInt64 / 1000, math.MaxInt64 / 1000 },
		func() string { return "2.1.0" },
	)
	if err != nil {
		vfc07Setup("NewPrometheusStore: %v", err)
	}
	r.Sample(map[string]any{"case": c, "prometheus_store_ext": ext.String(), "prometheus_stored_series": len(fp.stored)})

	for q := 0; q < nReq; q++ {
		if q == nReq/2 {
			// Prometheus is reloaded with different external labels; the sidecar follows
			ext = vfc07NextExtSet(rng, ext)
			fp.setExt(ext)
			r.Count("prometheus_external_label_reconfigurations", 1)
		}
		ms := vfc07GenMatchers(rng, fx.u, 0.35)
		var replica []string
		if rng.Intn(10) < 7 {
			for len(replica) == 0 {
				replica = vfc07GenReplicaLabels(rng, fx.u)
			}
		}
		kind := "prometheus-streamed"
		fp.sampled.Store(false)
		fp.split.Store(rng.Intn(2) == 0)
		skip := rng.Intn(4) == 0
		if skip {
			kind = "prometheus-series-api"
		} else if rng.Intn(2) == 0 {
			kind = "prometheus-sampled"
			fp.sampled.Store(true)
		}
		req := &storepb.SeriesRequest{MinTime: fx.tmin, MaxTime: fx.tmax, Matchers: vfc07Proto(ms), WithoutReplicaLabels: replica, SkipChunks: skip}
		vfc08Check(r, c, fx, vfc08Store{kind, ps, []labels.Labels{ext}}, req, ms, replica)
	}
	r.Count("prometheus_remote_read_requests", int(fp.reads.Load()))
	r.Count("prometheus_series_api_requests", int(fp.series.Load()))
}
