//go:build verif

package store

// C08 — stores present external labels consistently (TSDBStore with tiny frames, BucketStore).

import (
	"fmt"
	"math/rand"
	"os"
	"path/filepath"
	"testing"

	"github.com/prometheus/prometheus/model/labels"

	"github.com/thanos-io/thanos/pkg/component"
	"github.com/thanos-io/thanos/pkg/store/storepb"
	"github.com/thanos-io/thanos/pkg/verifhook/vfkit"
)

type vfc08Store struct {
	kind string
	srv  storepb.StoreServer
	exts []labels.Labels // external label sets of the store (one per distinct block label set)
}

// vfc08Contradicts: some matcher on an external label name does not match the external value.
func vfc08Contradicts(ms []*labels.Matcher, ext labels.Labels) bool {
	for _, m := range ms {
		if ext.Has(m.Name) && !m.Matches(ext.Get(m.Name)) {
			return true
		}
	}
	return false
}

// vfc08Failures lists what a frame lacks to carry ext minus replica labels.
func vfc08Failures(frame labels.Labels, ext labels.Labels, replica map[string]struct{}) []string {
	var out []string
	ext.Range(func(l labels.Label) {
		if _, drop := replica[l.Name]; drop {
			return
		}
		switch {
		case !frame.Has(l.Name):
			out = append(out, "external-label-missing")
		case frame.Get(l.Name) != l.Value:
			out = append(out, "external-label-not-overriding")
		}
	})
	return out
}

func TestVF_C08(t *testing.T) {
	r := vfkit.Start(t, "C08")
	defer r.Finish()
	r.Rule("case = one generated fixture (1..3 real blocks whose stored labels collide with external label names cluster/replica/region; a real tsdb.DB over the same block dirs plus head series) served by a TSDBStore with maxBytesPerFrame 1..200 whose external labels are replaced twice per fixture with SetExtLset " +
		"(series split over frames) and a BucketStore (blocks with up to 3 different external label sets; lazy postings on/off) and a PrometheusStore in front of an in-process fake Prometheus holding the fixture's stored label sets (remote read answered sampled or streamed, streamed series split over two frames in half of the requests, series API for SkipChunks; fake merges external labels with the stored label winning; external labels replaced once per fixture) x generated requests (1..3 matchers, 35% on external label names incl. contradicting ones; replica-label lists over external/stored/colliding/absent names in 70%; SkipChunks 1/3). " +
		"oracle per returned frame: some member label set E of the store that the selectors do not contradict has every label of E not listed as replica label on the frame with E's value, and no label named in the replica list is on the frame; " +
		"if the selectors contradict every member label set the answer has no series. evaluation = one store answer; distinct/non-trivial = answer with at least one frame, or a contradicting request")
	nFix := r.N(8, 140)
	nReq := r.N(60, 150)
	r.Require(int64(nFix*nReq*2), nFix*nReq/3)
	r.Assume("external label values are non-empty; a selector contradicts external labels E iff some matcher on a name in E does not match E's value (Prometheus matcher semantics)")
	base := t.TempDir()
	vfc07Parallel(r, nFix, 4, func(c int) {
		vfc07Guard(r, c, "c08-fixture", func() { vfc08RunFixture(t, r, c, r.Rand(c), nReq, filepath.Join(base, fmt.Sprintf("case%d", c))) })
	})
}

func vfc08RunFixture(t *testing.T, r *vfkit.Run, c int, rng *rand.Rand, nReq int, dir string) {
	defer func() { _ = os.RemoveAll(dir) }()
	fx := vfc07NewFixture(t, rng, dir, vfc07Opts{maxBlocks: 3, maxSeries: 80, slots: 30, hist: false, collide: true})
	db := vfc07OpenDB(t, rng, fx, 1+rng.Intn(15), 12)
	defer func() { _ = db.Close() }()
	tsdbExt := fx.u.extSets[rng.Intn(len(fx.u.extSets))]
	ts := NewTSDBStore(nil, db, component.Receive, tsdbExt)
	defer ts.Close()
	ts.maxBytesPerFrame = 1 + rng.Intn(200)
	bs := vfc07NewBucketStore(t, fx, vfc07StoreCfg{cache: []string{"none", "large"}[rng.Intn(2)], estSeries: []uint64{0, 64}[rng.Intn(2)], hints: rng.Intn(2) == 0})
	defer func() { _ = bs.Close() }()
	bs.enabledLazyExpandedPostings = rng.Intn(2) == 0
	bs.seriesMatchRatio = 0.9
	bs.seriesBatchSize = []int{1, 3, 10000}[rng.Intn(3)]
	var blockExts []labels.Labels
	seen := map[string]bool{}
	for _, b := range fx.blocks {
		if !seen[b.ext.String()] {
			seen[b.ext.String()] = true
			blockExts = append(blockExts, b.ext)
		}
	}
	stores := []vfc08Store{{"tsdb", ts, []labels.Labels{tsdbExt}}, {"bucket", bs, blockExts}}
	r.Sample(map[string]any{"case": c, "blocks": vfc07DescribeFixture(fx), "tsdb_ext": tsdbExt.String(), "tsdb_max_bytes_per_frame": ts.maxBytesPerFrame, "stored_names": fx.u.names})

	for q := 0; q < nReq; q++ {
		if q == nReq/3 || q == 2*nReq/3 {
			// the store is reconfigured at run time: Series must carry the CURRENT external labels
			tsdbExt = vfc07NextExtSet(rng, tsdbExt)
			ts.SetExtLset(tsdbExt)
			stores[0].exts = []labels.Labels{tsdbExt}
			r.Count("tsdb_external_label_reconfigurations", 1)
		}
		ms := vfc07GenMatchers(rng, fx.u, 0.35)
		mint, maxt := fx.vfc07Range(rng)
		var replica []string
		if rng.Intn(10) < 7 {
			for len(replica) == 0 {
				replica = vfc07GenReplicaLabels(rng, fx.u)
			}
		}
		skip := rng.Intn(3) == 0
		req := &storepb.SeriesRequest{MinTime: mint, MaxTime: maxt, Matchers: vfc07Proto(ms), WithoutReplicaLabels: replica, SkipChunks: skip}
		for _, st := range stores {
			vfc08Check(r, c, fx, st, req, ms, replica)
		}
	}
	// PrometheusStore over a fake Prometheus (sampled and streamed remote read, series API); drawn after
	// everything else so the request stream of the two stores above is unchanged
	vfc08RunPromStore(t, r, c, rng, fx, nReq)
}

func vfc08Check(r *vfkit.Run, c int, fx *vfc07Fixture, st vfc08Store, req *storepb.SeriesRequest, ms []vfc07M, replica []string) {
	srv, err, timedOut := vfc07Call(st.srv, req)
	if timedOut {
		r.Inconclusive("a Series call exceeded the 3 minute deadline")
		return
	}
	r.Eval(1)
	if err != nil {
		r.Count("series_call_errors_"+vfc07Code(err).String(), 1)
	}
	repl := map[string]struct{}{}
	for _, n := range replica {
		repl[n] = struct{}{}
	}
	pms := vfc07Proms(ms)
	var open []labels.Labels // member label sets not contradicted by the selectors
	for _, e := range st.exts {
		if !vfc08Contradicts(pms, e) {
			open = append(open, e)
		}
	}
	if len(srv.frames) > 0 || len(open) == 0 {
		r.Distinct(fmt.Sprintf("%d|%s|%s|%d|%d|%v|%v", c, st.kind, vfc07MatchersString(ms), req.MinTime, req.MaxTime, replica, req.SkipChunks))
	}
	if len(open) == 0 {
		r.Count("contradicting_requests", 1)
	}
	witness := func(extra map[string]any) map[string]any {
		var es []string
		for _, e := range st.exts {
			es = append(es, e.String())
		}
		m := map[string]any{"case": c, "store": st.kind, "store_external_label_sets": es, "matchers": vfc07MatchersString(ms), "mint": req.MinTime, "maxt": req.MaxTime,
			"without_replica_labels": replica, "skip_chunks": req.SkipChunks, "frames": len(srv.frames), "blocks": vfc07DescribeFixture(fx)}
		for k, v := range extra {
			m[k] = v
		}
		return m
	}
	perLset := map[string]int{}
	for _, f := range srv.frames {
		fl := vfc07Lset(f.Labels)
		perLset[fl.String()]++
		if len(open) == 0 {
			r.Violation(c, "contradicting-selector-answered:store="+st.kind,
				fmt.Sprintf("%s store with external labels %v returned %s for selectors %s that contradict the external labels", st.kind, st.exts, fl, vfc07MatchersString(ms)),
				witness(map[string]any{"frame_labels": fl.String()}))
			return
		}
		for _, n := range replica {
			if fl.Has(n) {
				kind := "stored"
				for _, e := range st.exts {
					if e.Has(n) {
						kind = "external"
					}
				}
				r.Violation(c, fmt.Sprintf("replica-label-present:store=%s:label=%s", st.kind, kind),
					fmt.Sprintf("%s store returned %s carrying label %q although WithoutReplicaLabels=%v", st.kind, fl, n, replica),
					witness(map[string]any{"frame_labels": fl.String(), "label": n}))
				return
			}
		}
		var best []string
		ok := false
		for i, e := range open {
			fails := vfc08Failures(fl, e, repl)
			if len(fails) == 0 {
				ok = true
				break
			}
			if i == 0 || len(fails) < len(best) {
				best = fails
			}
		}
		if !ok {
			r.Violation(c, fmt.Sprintf("%s:store=%s", best[0], st.kind),
				fmt.Sprintf("%s store returned %s which does not carry the (non-replica) external labels of any member label set %v not contradicted by %s (replica labels %v)", st.kind, fl, open, vfc07MatchersString(ms), replica),
				witness(map[string]any{"frame_labels": fl.String()}))
			return
		}
	}
	for _, n := range perLset {
		if n > 1 {
			r.Count("series_split_over_frames_"+st.kind, 1)
			break
		}
	}
	if len(srv.frames) > 0 && len(replica) > 0 {
		r.Count("answers_with_replica_labels_"+st.kind, 1)
	}
}
