//go:build verif

package dedup

import (
	"fmt"
	"math/rand"
	"sort"
	"testing"

	"github.com/prometheus/prometheus/model/labels"
	"github.com/prometheus/prometheus/storage"
	"github.com/prometheus/prometheus/tsdb/chunkenc"
	"github.com/prometheus/prometheus/tsdb/chunks"

	"github.com/thanos-io/thanos/pkg/compact/downsample"
	"github.com/thanos-io/thanos/pkg/verifhook/vfkit"
)

// C40 - offline deduplication of downsampled chunks keeps every aggregate sample.
//
// The real dedup.NewChunkSeriesMerger() (the compactor's vertical merge function for
// --deduplication.func=penalty) is run over 2..3 overlapping aggregate chunk series of one logical
// series. The oracle looks only at the merger's output: in every emitted AggrChunk each of
// sum/min/max/counter must hold a sample at every timestamp at which that chunk's count aggregate
// holds one.

const vfc40Step = int64(300000) // 5m downsampling resolution

// vfc40AggSample is one aggregate sample (one downsampling window) of a synthetic 5m series.
type vfc40AggSample struct {
	t                   int64
	cnt, sum, min, max  float64
	counter             float64 // reset-adjusted counter value at the end of the window
	firstRawT           int64   // timestamp of the first raw sample of the window
	firstRawV, lastRawV float64
}

// vfc40Encode cuts samples[lo:hi] into one AggrChunk the way downsampleFloatBatch lays it out
// (counter: first raw value first, last raw value as a duplicate of the last timestamp).
func vfc40Encode(s []vfc40AggSample) chunks.Meta {
	var chks [5]chunkenc.Chunk
	var apps [5]chunkenc.Appender
	for i := range chks {
		chks[i] = chunkenc.NewXORChunk()
		apps[i], _ = chks[i].Appender()
	}
	if s[0].firstRawT < s[0].t {
		apps[downsample.AggrCounter].Append(s[0].firstRawT, s[0].firstRawV)
	}
	for _, x := range s {
		apps[downsample.AggrCount].Append(x.t, x.cnt)
		apps[downsample.AggrSum].Append(x.t, x.sum)
		apps[downsample.AggrMin].Append(x.t, x.min)
		apps[downsample.AggrMax].Append(x.t, x.max)
		apps[downsample.AggrCounter].Append(x.t, x.counter)
	}
	last := s[len(s)-1]
	apps[downsample.AggrCounter].Append(last.t, last.lastRawV)
	return chunks.Meta{MinTime: s[0].t, MaxTime: last.t, Chunk: downsample.EncodeAggrChunk(chks)}
}

// vfc40CutRandom cuts an aggregate sample list into 1..maxChunks consecutive AggrChunks.
func vfc40CutRandom(rng *rand.Rand, s []vfc40AggSample, maxChunks int) []chunks.Meta {
	if len(s) == 0 {
		return nil
	}
	k := 1 + rng.Intn(maxChunks)
	if k > len(s) {
		k = len(s)
	}
	cuts := map[int]bool{}
	for len(cuts) < k-1 {
		cuts[1+rng.Intn(len(s)-1)] = true
	}
	var idx []int
	for c := range cuts {
		idx = append(idx, c)
	}
	sort.Ints(idx)
	idx = append(idx, len(s))
	var out []chunks.Meta
	lo := 0
	for _, hi := range idx {
		out = append(out, vfc40Encode(s[lo:hi]))
		lo = hi
	}
	return out
}

// vfc40Synthetic builds n aggregate samples of the logical series seen by one replica.
// Windows are 5m aligned; shift moves every timestamp (a replica whose last scrape of each
// window is earlier, as happens at chunk ends in real downsampled data).
func vfc40Synthetic(rng *rand.Rand, firstWindow int64, n int, shift int64, gapProb float64, zeroish bool) []vfc40AggSample {
	var out []vfc40AggSample
	w := firstWindow
	counter := float64(100 + rng.Intn(100))
	if zeroish {
		counter = 0 // an idle series: zero values are as ordinary as any other
	}
	for len(out) < n {
		if gapProb > 0 && rng.Float64() < gapProb {
			w += int64(1 + rng.Intn(5))
		}
		end := w*vfc40Step + vfc40Step - 1 - shift
		cnt := float64(1 + rng.Intn(20))
		mn := float64(rng.Intn(50))
		mx := mn + float64(rng.Intn(50))
		inc := float64(rng.Intn(30))
		if zeroish && rng.Intn(3) > 0 {
			mn, mx, inc = 0, float64(rng.Intn(2)*rng.Intn(50)), 0
		}
		out = append(out, vfc40AggSample{
			t: end, cnt: cnt, sum: cnt * (mn + mx) / 2, min: mn, max: mx,
			firstRawT: w*vfc40Step + int64(rng.Intn(1000)), firstRawV: counter, counter: counter + inc, lastRawV: counter + inc,
		})
		counter += inc
		w++
	}
	return out
}

// vfc40Downsampled produces a replica's 5m chunks with the real DownsampleRaw from a generated
// scrape sequence of the shared logical counter-like series.
func vfc40Downsampled(rng *rand.Rand, start int64, n int, interval int64, gapProb float64) []chunks.Meta {
	ts := vfkit.ScrapeTimes(rng, vfkit.ScrapeOpts{Start: start, Interval: interval, Jitter: interval / 10, N: n, GapProb: gapProb, GapMax: 40})
	smp := make([]chunks.Sample, 0, len(ts))
	for _, t := range ts {
		smp = append(smp, vfc40TSDBSample{t: t, v: float64((t / 1000) % 100000)})
	}
	return downsample.DownsampleRaw(downsample.SamplesFromTSDBSamples(smp), downsample.ResLevel1)
}

func vfc40Series(lset labels.Labels, chks []chunks.Meta) storage.ChunkSeries {
	return &storage.ChunkSeriesEntry{Lset: lset, ChunkIteratorFn: func(chunks.Iterator) chunks.Iterator {
		return storage.NewListChunkSeriesIterator(chks...)
	}}
}

func vfc40Timestamps(c chunkenc.Chunk) []int64 {
	var out []int64
	it := c.Iterator(nil)
	for it.Next() != chunkenc.ValNone {
		out = append(out, it.AtT())
	}
	return out
}

type vfc40ChunkView struct {
	MinT, MaxT int64
	Aggr       bool
	TS         [5][]int64
	Present    [5]bool
	raw        []byte
}

func vfc40View(m chunks.Meta) vfc40ChunkView {
	v := vfc40ChunkView{MinT: m.MinTime, MaxT: m.MaxTime}
	ac, ok := m.Chunk.(*downsample.AggrChunk)
	if !ok {
		return v
	}
	v.Aggr = true
	v.raw = append([]byte(nil), ac.Bytes()...)
	for a := downsample.AggrCount; a <= downsample.AggrCounter; a++ {
		c, err := ac.Get(a)
		if err != nil {
			continue
		}
		v.Present[a] = true
		v.TS[a] = vfc40Timestamps(c)
	}
	return v
}

func vfc40Witness(class string, in [][]chunks.Meta, out []vfc40ChunkView) map[string]any {
	w := map[string]any{"class": class}
	var ins []any
	for _, s := range in {
		var cs []any
		for _, m := range s {
			v := vfc40View(m)
			cs = append(cs, map[string]any{"mint": v.MinT, "maxt": v.MaxT, "count_ts": vfc40Brief(v.TS[downsample.AggrCount]), "counter_ts": vfc40Brief(v.TS[downsample.AggrCounter])})
		}
		ins = append(ins, cs)
	}
	w["input_series_chunks"] = ins
	var outs []any
	for _, v := range out {
		m := map[string]any{"mint": v.MinT, "maxt": v.MaxT}
		for a := downsample.AggrCount; a <= downsample.AggrCounter; a++ {
			m[a.String()+"_n"] = len(v.TS[a])
			if len(v.TS[a]) > 0 {
				m[a.String()+"_first"] = v.TS[a][0]
				m[a.String()+"_last"] = v.TS[a][len(v.TS[a])-1]
			}
		}
		outs = append(outs, m)
	}
	w["output_chunks"] = outs
	return w
}

// vfc40Brief keeps witnesses readable: first, last, length and the step pattern.
func vfc40Brief(ts []int64) map[string]any {
	if len(ts) == 0 {
		return map[string]any{"n": 0}
	}
	return map[string]any{"n": len(ts), "first": ts[0], "last": ts[len(ts)-1]}
}

func TestVF_C40(t *testing.T) {
	r := vfkit.Start(t, "C40")
	defer r.Finish()
	r.Rule("case = 2..3 aggregate chunk series (1..400 five-minute aggregate samples each, 1..4 chunks each; synthetic aligned / synthetic shifted / produced by the real DownsampleRaw from two scrape sequences) " +
		"of one logical series with overlap from a single window to full overlap, merged by the real NewChunkSeriesMerger; oracle: in every output AggrChunk each of sum/min/max/counter exists and has a sample at every timestamp of that chunk's count aggregate; " +
		"distinct = hash of input chunk layouts; non-trivial = at least one output chunk was produced by merging (is not byte-identical to an input chunk)")
	n := r.N(1500, 60000)
	r.Require(int64(n), n/3)
	r.Assume("all five aggregates are present in every input chunk and count/sum/min/max of one input chunk share their timestamps (what downsampling produces)")
	for c := 0; c < n; c++ {
		if !r.Want(c) {
			continue
		}
		rng := r.Rand(c)
		in, class := vfc40Gen(rng)
		r.Guard(c, "chunk-series-merger", map[string]any{"class": class}, func() { vfc40Check(r, c, in, class) })
	}
}

func vfc40Gen(rng *rand.Rand) ([][]chunks.Meta, string) {
	nSeries := 2
	if rng.Intn(5) == 0 {
		nSeries = 3
	}
	mode := vfkit.Pick(rng, []string{"synthetic-aligned", "synthetic-aligned", "synthetic-shifted", "synthetic-gappy", "downsampled", "synthetic-epoch"})
	firstWindow := int64(5_000_000) + int64(rng.Intn(1000))
	sizeOf := func() int {
		switch rng.Intn(4) {
		case 0:
			return 1 + rng.Intn(20)
		case 1:
			return 1 + rng.Intn(130)
		default:
			return 1 + rng.Intn(400)
		}
	}
	in := make([][]chunks.Meta, nSeries)
	if mode == "downsampled" {
		interval := vfkit.Pick(rng, []int64{15000, 30000, 60000, 120000})
		base := firstWindow * vfc40Step
		for i := range in {
			nAgg := sizeOf()
			per := vfc40Step / interval
			if per < 1 {
				per = 1
			}
			off := int64(rng.Intn(nAgg+1)) * vfc40Step
			if i == 0 {
				off = 0
			}
			in[i] = vfc40Downsampled(rng, base+off+rng.Int63n(interval), nAgg*int(per), interval, vfkit.Pick(rng, []float64{0, 0, 0.01}))
		}
		return in, fmt.Sprintf("%s/series=%d/interval=%d", mode, nSeries, interval)
	}
	n0 := sizeOf()
	if mode == "synthetic-epoch" {
		// series around the epoch: starting exactly at window 0, or before it (negative timestamps) and running across 0
		// or ending at it; with shift = step-1 the timestamps are window starts, so t = 0 itself occurs
		switch rng.Intn(3) {
		case 0:
			firstWindow = 0
		case 1:
			firstWindow = -int64(rng.Intn(n0 + 1))
		default:
			firstWindow = -int64(n0) + int64(rng.Intn(3)) - 1
		}
	}
	for i := range in {
		ni := sizeOf()
		off := int64(0)
		if i > 0 {
			off = int64(rng.Intn(n0)) // 0 = full overlap .. n0-1 = a single shared window
		} else {
			ni = n0
		}
		shift := int64(0)
		if mode == "synthetic-shifted" && i > 0 {
			shift = vfkit.Pick(rng, []int64{1, 1000, 15000, 149999, 290000})
		}
		if mode == "synthetic-epoch" {
			shift = vfkit.Pick(rng, []int64{0, 0, vfc40Step - 1, vfc40Step - 1, 1000})
		}
		gp := 0.0
		if mode == "synthetic-gappy" {
			gp = 0.05
		}
		s := vfc40Synthetic(rng, firstWindow+off, ni, shift, gp, mode == "synthetic-epoch" && rng.Intn(2) == 0)
		in[i] = vfc40CutRandom(rng, s, 4)
	}
	return in, fmt.Sprintf("%s/series=%d", mode, nSeries)
}

func vfc40Check(r *vfkit.Run, c int, in [][]chunks.Meta, class string) {
	lset := labels.FromStrings("a", "1")
	var series []storage.ChunkSeries
	inputBytes := map[string]bool{}
	key := class
	for _, s := range in {
		series = append(series, vfc40Series(lset, s))
		for _, m := range s {
			inputBytes[string(m.Chunk.Bytes())] = true
			key += fmt.Sprintf("|%d-%d-%d", m.MinTime, m.MaxTime, m.Chunk.NumSamples())
		}
		key += ";"
	}
	merged := NewChunkSeriesMerger()(series...)
	it := merged.Iterator(nil)
	var out []vfc40ChunkView
	for it.Next() {
		out = append(out, vfc40View(it.At()))
		if len(out) > 5000 { // inputs hold <= 1200 aggregate samples; a longer output can only be a runaway
			break
		}
	}
	r.Eval(1)
	if err := it.Err(); err != nil {
		r.Violation(c, "merger-error", "NewChunkSeriesMerger iterator failed: "+err.Error(), vfc40Witness(class, in, out))
		return
	}
	mergedAny := false
	for _, v := range out {
		if v.Aggr && !inputBytes[string(v.raw)] {
			mergedAny = true
		}
	}
	if mergedAny {
		r.Distinct(key)
		r.Count("cases_with_merged_chunks", 1)
	}
	r.Sample(map[string]any{"class": class, "input_chunks_per_series": func() []int {
		var l []int
		for _, s := range in {
			l = append(l, len(s))
		}
		return l
	}(), "output_chunks": len(out), "merged_any": mergedAny})

	for k, v := range out {
		if !v.Aggr {
			r.Violation(c, "output-chunk-not-aggregate", fmt.Sprintf("output chunk #%d [%d,%d] is not an AggrChunk although every input chunk is", k, v.MinT, v.MaxT), vfc40Witness(class, in, out))
			return
		}
		r.Count("output_chunks_checked", 1)
	}
	// afterFull: chunk k directly follows a chunk that the 120-sample chunk encoder closed because it was full,
	// i.e. both come out of one merged sample stream.
	afterFull := func(k int) bool { return k > 0 && len(out[k-1].TS[downsample.AggrCount]) == 120 }
	// check returns the first count timestamp (and its index) of chunk k that aggregate a lacks.
	check := func(k int, a downsample.AggrType) (int, int64, bool) {
		have := map[int64]bool{}
		for _, ts := range out[k].TS[a] {
			have[ts] = true
		}
		for i, ts := range out[k].TS[downsample.AggrCount] {
			if !have[ts] {
				return i, ts, true
			}
		}
		return 0, 0, false
	}
	// Pass 1: sum, min, max. Their input timestamps equal the count timestamps chunk by chunk, so the
	// penalty merge takes identical decisions for them; any difference is made by the chunk re-encoding.
	for k, v := range out {
		cnt := v.TS[downsample.AggrCount]
		for a := downsample.AggrSum; a <= downsample.AggrMax; a++ {
			if !v.Present[a] {
				if len(cnt) == 0 {
					continue
				}
				fp := "aggregate-absent-in-merged-chunk"
				if cnt[len(cnt)-1] == 0 {
					// the chunk's last sample sits at t=0: position class of its own (toChunk uses lastT==0 && lastV==0 as "empty")
					fp = "aggregate-absent-in-merged-chunk:chunk-ends-at-t=0"
				} else if afterFull(k) && len(cnt) == 1 {
					// the only sample of the chunk is its first one: same class as below
					fp = "missing-aggregate-sample:sum/min/max:first-sample-of-chunk-after-full-120-sample-chunk"
				}
				r.Count("viol/"+fp+"/"+class, 1)
				r.Violation(c, fp, fmt.Sprintf("output chunk #%d [%d,%d]: aggregate %s does not exist although count has %d sample(s) (%s)", k, v.MinT, v.MaxT, a, len(cnt), class), vfc40Witness(class, in, out))
				return
			}
			if i, ts, bad := check(k, a); bad {
				pos := "elsewhere"
				if i == 0 && afterFull(k) {
					pos = "first-sample-of-chunk-after-full-120-sample-chunk"
				}
				fp := "missing-aggregate-sample:sum/min/max:" + pos
				r.Count("viol/"+fp+"/"+class, 1)
				r.Violation(c, fp,
					fmt.Sprintf("output chunk #%d [%d,%d]: count has a sample at t=%d (index %d of %d) but %s has none there (%s has %d samples) (%s)", k, v.MinT, v.MaxT, ts, i, len(cnt), a, a, len(v.TS[a]), class),
					vfc40Witness(class, in, out))
				return
			}
		}
	}
	// Pass 2: counter, reached only when sum/min/max of every output chunk are complete. The counter
	// sub-chunks carry an extra leading sample (first raw value) and a duplicated last timestamp, so
	// this is one class of its own whatever the position.
	for k, v := range out {
		cnt := v.TS[downsample.AggrCount]
		a := downsample.AggrCounter
		if !v.Present[a] {
			if len(cnt) == 0 {
				continue
			}
			fp := "counter-only:aggregate-absent-in-merged-chunk"
			r.Count("viol/"+fp+"/"+class, 1)
			r.Violation(c, fp, fmt.Sprintf("output chunk #%d [%d,%d]: counter does not exist although count has %d sample(s) and sum/min/max are complete (%s)", k, v.MinT, v.MaxT, len(cnt), class), vfc40Witness(class, in, out))
			return
		}
		if i, ts, bad := check(k, a); bad {
			fp := "counter-only:missing-sample-at-count-timestamp"
			r.Count("viol/"+fp+"/"+class, 1)
			r.Violation(c, fp,
				fmt.Sprintf("output chunk #%d [%d,%d]: count (and sum/min/max) have a sample at t=%d (index %d of %d) but counter has none there (counter has %d samples) (%s)", k, v.MinT, v.MaxT, ts, i, len(cnt), len(v.TS[a]), class),
				vfc40Witness(class, in, out))
			return
		}
	}
}

type vfc40TSDBSample struct {
	chunks.Sample
	t int64
	v float64
}

func (s vfc40TSDBSample) T() int64   { return s.t }
func (s vfc40TSDBSample) F() float64 { return s.v }
