//go:build verif

package dedup

import (
	"fmt"
	"math"
	"math/rand"
	"sort"
	"testing"

	"github.com/prometheus/prometheus/model/histogram"
	"github.com/prometheus/prometheus/model/labels"
	"github.com/prometheus/prometheus/promql/parser"
	"github.com/prometheus/prometheus/storage"
	"github.com/prometheus/prometheus/tsdb/chunkenc"
	"github.com/prometheus/prometheus/tsdb/chunks"
	"github.com/prometheus/prometheus/tsdb/tsdbutil"
	"github.com/prometheus/prometheus/util/annotations"

	"github.com/thanos-io/thanos/pkg/verifhook/vfkit"
)

type vfSample struct {
	t int64
	f float64
	h *histogram.Histogram
}

func (s vfSample) T() int64                      { return s.t }
func (s vfSample) F() float64                    { return s.f }
func (s vfSample) H() *histogram.Histogram       { return s.h }
func (s vfSample) FH() *histogram.FloatHistogram { return nil }
func (s vfSample) Type() chunkenc.ValueType {
	if s.h != nil {
		return chunkenc.ValHistogram
	}
	return chunkenc.ValFloat
}
func (s vfSample) Copy() chunks.Sample { return s }

type vfOut struct {
	T   int64
	V   float64
	Typ chunkenc.ValueType
	H   *histogram.Histogram
}

func vfSeriesSet(lset labels.Labels, reps [][]vfSample) storage.SeriesSet {
	var ss []storage.Series
	for _, r := range reps {
		smp := make([]chunks.Sample, len(r))
		for i := range r {
			smp[i] = r[i]
		}
		ss = append(ss, storage.NewListSeries(lset, smp))
	}
	return newVfListSeriesSet(ss)
}

type vfListSeriesSet struct {
	ss []storage.Series
	i  int
}

func newVfListSeriesSet(ss []storage.Series) *vfListSeriesSet { return &vfListSeriesSet{ss: ss, i: -1} }
func (s *vfListSeriesSet) Next() bool                         { s.i++; return s.i < len(s.ss) }
func (s *vfListSeriesSet) At() storage.Series                 { return s.ss[s.i] }
func (s *vfListSeriesSet) Err() error                         { return nil }
func (s *vfListSeriesSet) Warnings() annotations.Annotations  { return nil }

func vfAt(it chunkenc.Iterator, vt chunkenc.ValueType) vfOut {
	switch vt {
	case chunkenc.ValFloat:
		t, v := it.At()
		return vfOut{T: t, V: v, Typ: vt}
	case chunkenc.ValHistogram:
		t, h := it.AtHistogram(nil)
		return vfOut{T: t, Typ: vt, H: h.Copy()}
	default:
		return vfOut{T: it.AtT(), Typ: vt}
	}
}

// vfDedupIter builds the deduplicating iterator through the public entry point.
func vfDedupIter(reps [][]vfSample, f string) (chunkenc.Iterator, bool) {
	lset := labels.FromStrings("a", "1")
	set := NewSeriesSet(vfSeriesSet(lset, reps), f, AlgorithmPenalty)
	if !set.Next() {
		return nil, false
	}
	return set.At().Iterator(nil), true
}

func vfDrain(it chunkenc.Iterator, max int) []vfOut {
	var out []vfOut
	for len(out) < max {
		vt := it.Next()
		if vt == chunkenc.ValNone {
			break
		}
		out = append(out, vfAt(it, vt))
	}
	return out
}

func vfSameOut(a, b vfOut) bool {
	if a.T != b.T || a.Typ != b.Typ {
		return false
	}
	if a.Typ == chunkenc.ValHistogram {
		return a.H.Equals(b.H)
	}
	return math.Float64bits(a.V) == math.Float64bits(b.V)
}

func vfFmtReps(reps [][]vfSample) [][][2]float64 {
	out := make([][][2]float64, len(reps))
	for i, r := range reps {
		for _, s := range r {
			v := s.f
			if s.h != nil {
				v = float64(s.h.Count)
			}
			out[i] = append(out[i], [2]float64{float64(s.t), v})
		}
	}
	return out
}

func vfFmtOut(o []vfOut) [][2]float64 {
	var out [][2]float64
	for _, s := range o {
		v := s.V
		if s.H != nil {
			v = float64(s.H.Count)
		}
		out = append(out, [2]float64{float64(s.T), v})
	}
	return out
}

// vfNonCounterFuncs: every PromQL function name known to the parser except the four counter functions
// named by the property, plus the empty hint and a few names that are not functions at all.
var vfNonCounterFuncs = func() []string {
	out := []string{"", "", "", "sum_over_time", "max_over_time", "unknown_func", "RATE", "rate ", "xrate", "count"}
	for name := range parser.Functions {
		switch name {
		case "rate", "irate", "increase", "resets":
			continue
		}
		out = append(out, name)
	}
	sort.Strings(out)
	return out
}()
var vfCounterFuncs = []string{"rate", "irate", "increase", "resets"}

// vfGenReplicas generates 1..4 replicas of one logical series.
func vfGenReplicas(rng *rand.Rand, hist bool) ([][]vfSample, string) {
	n := 1 + rng.Intn(4)
	interval := vfkit.Pick(rng, []int64{1000, 15000, 30000, 60000})
	base := int64(1_600_000_000_000) + rng.Int63n(100000)
	// Timestamps are int64 milliseconds: small, zero-crossing and pre-epoch series are legal inputs too
	// (no value may be confused with an internal "nothing yet" marker).
	switch rng.Intn(8) {
	case 0:
		base = -rng.Int63n(40 * interval) // series crosses t=0 (includes t=-1, 0, 1 with interval 1000 and no jitter)
	case 1:
		base = -int64(1_000_000_000) - rng.Int63n(100000) // entirely pre-epoch
	case 2:
		base = rng.Int63n(3) - 1 // starts at -1, 0 or 1
	}
	mode := vfkit.Pick(rng, []string{"jitter", "identical", "disjoint", "interleaved", "gappy", "oneempty", "shifted"})
	value := func(t int64) float64 { return float64((t / 1000) % 1000) }
	mk := func(ts []int64, salt int) []vfSample {
		out := make([]vfSample, len(ts))
		for i, t := range ts {
			if hist {
				out[i] = vfSample{t: t, h: tsdbutil.GenerateTestHistogram(int64((t/1000)%50 + int64(salt)))}
			} else {
				out[i] = vfSample{t: t, f: value(t) + float64(salt)*0.5}
			}
		}
		return out
	}
	reps := make([][]vfSample, n)
	switch mode {
	case "identical":
		ts := vfkit.ScrapeTimes(rng, vfkit.ScrapeOpts{Start: base, Interval: interval, Jitter: interval / 10, N: rng.Intn(60), GapProb: 0.1, GapMax: 4})
		for i := range reps {
			reps[i] = mk(ts, 0)
		}
	case "disjoint":
		start := base
		for i := range reps {
			k := rng.Intn(30)
			ts := vfkit.ScrapeTimes(rng, vfkit.ScrapeOpts{Start: start, Interval: interval, Jitter: interval / 10, N: k})
			reps[i] = mk(ts, i)
			start += int64(k+1+rng.Intn(5)) * interval
		}
		reps = vfkit.Perm(rng, reps)
	default:
		for i := range reps {
			o := vfkit.ScrapeOpts{Start: base + rng.Int63n(interval), Interval: interval, Jitter: interval / 10, N: rng.Intn(61)}
			switch mode {
			case "gappy":
				o.GapProb, o.GapMax = 0.2, 6
			case "interleaved":
				o.Start = base + int64(i)*interval/int64(n)
				o.Jitter = 0
			case "shifted":
				o.Start = base + int64(rng.Intn(8))*interval + rng.Int63n(interval)
			case "oneempty":
				if i == 0 {
					o.N = 0
				}
			}
			reps[i] = mk(vfkit.ScrapeTimes(rng, o), i)
		}
		if mode == "oneempty" {
			reps = vfkit.Perm(rng, reps)
		}
	}
	epoch := "post-epoch"
	if base < 0 {
		epoch = "reaches-pre-epoch"
	}
	return reps, fmt.Sprintf("%s/n=%d/int=%d/hist=%v/%s", mode, n, interval, hist, epoch)
}

func TestVF_C01(t *testing.T) {
	r := vfkit.Start(t, "C01")
	defer r.Finish()
	r.Rule("case = 1..4 generated replicas of one series (jitter/identical/disjoint/interleaved/gappy/one-empty/shifted; float or histogram) x non-counter function; " +
		"oracle: strictly increasing timestamps, provenance of each emitted sample, identity for 1 or identical replicas, Seek(x)-first == suffix of Next-only; " +
		"distinct = hash of replica timestamps+function; non-trivial = at least one emitted sample")
	n := r.N(4000, 250000)
	r.Require(int64(n), n/4)
	r.Assume("replica samples within one replica have strictly increasing timestamps (TSDB guarantee)")
	r.ForEach(n, 0, func(c int) {
		rng := r.Rand(c)
		hist := rng.Intn(6) == 0
		reps, class := vfGenReplicas(rng, hist)
		f := vfkit.Pick(rng, vfNonCounterFuncs)
		r.Guard(c, "dedup-iterator", map[string]any{"class": class, "func": f, "replicas": vfFmtReps(reps)}, func() { vfCheckC01(r, c, reps, f, class, rng) })
		if c%4 == 0 {
			vfCheckC01Set(r, c, rng, f)
		}
	})
}

// vfCheckC01Set: a whole series set (2..6 logical series with 1..4 replicas each) read the way the PromQL
// engines read it - the iterator of the previous series is handed to the next one (`it = s.Iterator(it)`) -
// must yield, per series, exactly what a fresh iterator (`s.Iterator(nil)`) yields on an identical set.
func vfCheckC01Set(r *vfkit.Run, c int, rng *rand.Rand, f string) {
	nSeries := 2 + rng.Intn(5)
	type lser struct {
		lset labels.Labels
		reps [][]vfSample
	}
	var lss []lser
	for i := 0; i < nSeries; i++ {
		reps, _ := vfGenReplicas(rng, false)
		if rng.Intn(3) == 0 {
			reps = reps[:1] // single-replica series in between
		}
		lss = append(lss, lser{lset: labels.FromStrings("a", fmt.Sprintf("%02d", i)), reps: reps})
	}
	build := func() storage.SeriesSet {
		var ss []storage.Series
		for _, l := range lss {
			for _, rp := range l.reps {
				smp := make([]chunks.Sample, len(rp))
				for i := range rp {
					smp[i] = rp[i]
				}
				ss = append(ss, storage.NewListSeries(l.lset, smp))
			}
		}
		return NewSeriesSet(newVfListSeriesSet(ss), f, AlgorithmPenalty)
	}
	wit := func() map[string]any {
		m := map[string]any{"func": f}
		for i, l := range lss {
			m[fmt.Sprintf("series_%d", i)] = vfFmtReps(l.reps)
		}
		return m
	}
	r.Guard(c, "dedup-set-iterator-reuse", wit(), func() {
		fresh, reuse := build(), build()
		var it chunkenc.Iterator
		idx := 0
		for fresh.Next() {
			r.Eval(1)
			if !reuse.Next() {
				r.Violation(c, "set:series-count-differs", "the set read with iterator reuse ends early", wit())
				return
			}
			total := 0
			for _, rp := range lss[idx%len(lss)].reps {
				total += len(rp)
			}
			want := vfDrain(fresh.At().Iterator(nil), 1000)
			it = reuse.At().Iterator(it)
			got := vfDrain(it, 1000)
			same := len(got) == len(want)
			for i := 0; same && i < len(got); i++ {
				same = vfSameOut(got[i], want[i])
			}
			if !same {
				w := wit()
				w["series_index"], w["fresh"], w["reused"] = idx, vfFmtOut(want), vfFmtOut(got)
				r.Violation(c, "set:iterator-reuse-changes-output", fmt.Sprintf("series #%d of the set yields %d samples through Iterator(previous iterator) but %d through Iterator(nil)", idx, len(got), len(want)), w)
				return
			}
			idx++
		}
		if idx > 1 {
			r.Distinct(fmt.Sprintf("set|%v", wit()))
		}
	})
}

func vfCheckC01(r *vfkit.Run, c int, reps [][]vfSample, f, class string, rng *rand.Rand) {
	total := 0
	for _, rp := range reps {
		total += len(rp)
	}
	it, ok := vfDedupIter(reps, f)
	r.Eval(1)
	if !ok {
		r.Violation(c, "no-series", "NewSeriesSet returned no series for "+class, vfFmtReps(reps))
		return
	}
	ref := vfDrain(it, total+10)
	wit := func(extra map[string]any) map[string]any {
		m := map[string]any{"class": class, "func": f, "replicas": vfFmtReps(reps), "next_only": vfFmtOut(ref)}
		for k, v := range extra {
			m[k] = v
		}
		return m
	}
	if len(ref) > 0 {
		r.Distinct(fmt.Sprintf("%v|%s", vfFmtReps(reps), f))
	}
	r.Sample(map[string]any{"class": class, "func": f, "replica_lens": func() []int {
		var l []int
		for _, rp := range reps {
			l = append(l, len(rp))
		}
		return l
	}(), "emitted": len(ref)})
	if len(ref) > total {
		r.Violation(c, "more-than-input", fmt.Sprintf("%d samples emitted from %d input samples", len(ref), total), wit(nil))
		return
	}
	// (a) strictly increasing
	for i := 1; i < len(ref); i++ {
		if ref[i].T <= ref[i-1].T {
			r.Violation(c, "next-only:timestamps-not-increasing", fmt.Sprintf("t[%d]=%d <= t[%d]=%d (%s)", i, ref[i].T, i-1, ref[i-1].T, class), wit(nil))
			return
		}
	}
	// (b) provenance
	prov := map[int64][]vfSample{}
	for _, rp := range reps {
		for _, s := range rp {
			prov[s.t] = append(prov[s.t], s)
		}
	}
	holds := func(o vfOut) bool {
		for _, s := range prov[o.T] {
			if s.h != nil {
				if o.Typ == chunkenc.ValHistogram && s.h.Equals(o.H) {
					return true
				}
			} else if o.Typ == chunkenc.ValFloat && math.Float64bits(s.f) == math.Float64bits(o.V) {
				return true
			}
		}
		return false
	}
	for i, o := range ref {
		if !holds(o) {
			r.Violation(c, "next-only:fabricated-sample", fmt.Sprintf("emitted sample #%d t=%d v=%v is held by no replica at that timestamp (%s)", i, o.T, o.V, class), wit(nil))
			return
		}
	}
	// (c) single replica / identical replicas unchanged
	identical := true
	for _, rp := range reps[1:] {
		if len(rp) != len(reps[0]) {
			identical = false
			break
		}
		for i := range rp {
			if rp[i].t != reps[0][i].t || math.Float64bits(rp[i].f) != math.Float64bits(reps[0][i].f) || (rp[i].h == nil) != (reps[0][i].h == nil) || (rp[i].h != nil && !rp[i].h.Equals(reps[0][i].h)) {
				identical = false
			}
		}
	}
	if identical {
		r.Count("identity_cases", 1)
		bad := len(ref) != len(reps[0])
		for i := 0; !bad && i < len(ref); i++ {
			in := reps[0][i]
			if ref[i].T != in.t || (in.h == nil && math.Float64bits(ref[i].V) != math.Float64bits(in.f)) || (in.h != nil && (ref[i].H == nil || !in.h.Equals(ref[i].H))) {
				bad = true
			}
		}
		if bad {
			r.Violation(c, "identity-broken", fmt.Sprintf("%d identical replica(s) of %d samples came out as %d samples / different samples", len(reps), len(reps[0]), len(ref)), wit(nil))
			return
		}
	}
	// (d) seek-first == suffix
	var targets []int64
	targets = append(targets, math.MinInt64, 0)
	if len(ref) > 0 {
		targets = append(targets, ref[0].T-1, ref[0].T, ref[len(ref)-1].T, ref[len(ref)-1].T+1)
		for k := 0; k < 6; k++ {
			o := ref[rng.Intn(len(ref))]
			targets = append(targets, o.T+int64(rng.Intn(3))-1)
		}
	}
	// also every replica's first timestamp: the hand-over points the merge must order
	for _, rp := range reps {
		if len(rp) > 0 {
			targets = append(targets, rp[0].t, rp[0].t+1)
		}
	}
	for _, x := range targets {
		it2, _ := vfDedupIter(reps, f)
		r.Eval(1)
		var got []vfOut
		vt := it2.Seek(x)
		if vt != chunkenc.ValNone {
			got = append(got, vfAt(it2, vt))
			got = append(got, vfDrain(it2, total+10)...)
		}
		var want []vfOut
		for _, o := range ref {
			if o.T >= x {
				want = append(want, o)
			}
		}
		same := len(got) == len(want)
		for i := 0; same && i < len(got); i++ {
			same = vfSameOut(got[i], want[i])
		}
		if !same {
			fp := "seek-first:differs-from-suffix"
			for i := 1; i < len(got); i++ {
				if got[i].T <= got[i-1].T {
					fp = "seek-first:timestamps-not-increasing"
					break
				}
			}
			r.Violation(c, fp, fmt.Sprintf("Seek(%d) before the first Next then Next yields %d samples, the suffix of the Next-only run has %d (%s)", x, len(got), len(want), class),
				wit(map[string]any{"seek_target": x, "seek_first": vfFmtOut(got), "want_suffix": vfFmtOut(want)}))
			return
		}
	}
	// mid-stream seeks: k Next calls, then Seek(x) must land on the first emitted sample >= max(x, current)
	if len(ref) > 2 {
		for k := 0; k < 3; k++ {
			it3, _ := vfDedupIter(reps, f)
			adv := 1 + rng.Intn(len(ref)-1)
			for i := 0; i < adv; i++ {
				it3.Next()
			}
			cur := ref[adv-1].T
			x := ref[rng.Intn(len(ref))].T + int64(rng.Intn(3)) - 1
			r.Eval(1)
			vt := it3.Seek(x)
			var got []vfOut
			if vt != chunkenc.ValNone {
				got = append(got, vfAt(it3, vt))
				got = append(got, vfDrain(it3, total+10)...)
			}
			var want []vfOut
			for _, o := range ref {
				if o.T >= x && o.T >= cur {
					want = append(want, o)
				}
			}
			same := len(got) == len(want)
			for i := 0; same && i < len(got); i++ {
				same = vfSameOut(got[i], want[i])
			}
			if !same {
				r.Violation(c, "seek-midstream:differs-from-suffix", fmt.Sprintf("after %d Next calls Seek(%d) yields %d samples, expected %d (%s)", adv, x, len(got), len(want), class),
					wit(map[string]any{"advanced": adv, "seek_target": x, "got": vfFmtOut(got), "want": vfFmtOut(want)}))
				return
			}
		}
	}
}

// vfGenCounterReplicas: 2..4 replicas scraping one non-decreasing counter with independent offsets,
// start values and gaps. Values are integers so no float effects exist.
func vfGenCounterReplicas(rng *rand.Rand) ([][]vfSample, string) {
	n := 2 + rng.Intn(3)
	interval := vfkit.Pick(rng, []int64{1000, 15000, 30000})
	base := int64(1_600_000_000_000)
	mode := vfkit.Pick(rng, []string{"same-counter", "offset-start-values", "gappy", "late-joiner", "flat"})
	reps := make([][]vfSample, n)
	// the true counter: value at time t
	slope := float64(1 + rng.Intn(5))
	truth := func(t int64) float64 { return math.Floor(float64(t-base) / 1000 * slope) }
	for i := range reps {
		o := vfkit.ScrapeOpts{Start: base + rng.Int63n(interval), Interval: interval, Jitter: interval / 20, N: 2 + rng.Intn(50)}
		off := 0.0
		switch mode {
		case "offset-start-values":
			off = float64(rng.Intn(4)) * slope * float64(interval) / 1000
		case "gappy":
			o.GapProb, o.GapMax = 0.25, 8
		case "late-joiner":
			o.Start += int64(rng.Intn(20)) * interval
		}
		ts := vfkit.ScrapeTimes(rng, o)
		out := make([]vfSample, len(ts))
		for k, t := range ts {
			v := truth(t) + off
			if mode == "flat" {
				v = 42
			}
			out[k] = vfSample{t: t, f: v}
		}
		reps[i] = out
	}
	return reps, fmt.Sprintf("%s/n=%d/int=%d", mode, n, interval)
}

func TestVF_C02(t *testing.T) {
	r := vfkit.Start(t, "C02")
	defer r.Finish()
	r.Rule("case = 2..4 replicas scraping one non-decreasing integer counter with independent offsets/start values/gaps x {rate,irate,increase,resets} x {Next-only, Next then Seek}; " +
		"oracle: emitted values never decrease and timestamps strictly increase; distinct = hash of replicas+function; non-trivial = the merge switched replica at least once")
	n := r.N(6000, 300000)
	r.Require(int64(n), n/4)
	r.Assume("every replica's own values are non-decreasing (premise of the property)")
	r.ForEach(n, 0, func(c int) {
		rng := r.Rand(c)
		reps, class := vfGenCounterReplicas(rng)
		f := vfkit.Pick(rng, vfCounterFuncs)
		total := 0
		for _, rp := range reps {
			total += len(rp)
		}
		for mode := 0; mode < 2; mode++ {
			it, ok := vfDedupIter(reps, f)
			r.Eval(1)
			if !ok {
				r.Violation(c, "no-series", "no series", vfFmtReps(reps))
				continue
			}
			var out []vfOut
			if mode == 0 {
				out = vfDrain(it, total+10)
			} else {
				// engine style: a few Next, then Seek forward, repeatedly
				for len(out) < total+10 {
					var vt chunkenc.ValueType
					if rng.Intn(3) == 0 && len(out) > 0 {
						vt = it.Seek(out[len(out)-1].T + 1 + rng.Int63n(3*30000))
					} else {
						vt = it.Next()
					}
					if vt == chunkenc.ValNone {
						break
					}
					out = append(out, vfAt(it, vt))
				}
			}
			// did the merge switch replicas? (non-trivial)
			switches := 0
			last := -1
			for _, o := range out {
				for ri, rp := range reps {
					found := false
					for _, s := range rp {
						if s.t == o.T {
							found = true
							break
						}
					}
					if found {
						if last != -1 && ri != last {
							switches++
						}
						last = ri
						break
					}
				}
			}
			if switches > 0 {
				r.Distinct(fmt.Sprintf("%v|%s|%d", vfFmtReps(reps), f, mode))
			}
			r.Sample(map[string]any{"class": class, "func": f, "reader": []string{"next-only", "next+seek"}[mode], "emitted": len(out), "replica_switches": switches})
			for i := 1; i < len(out); i++ {
				if out[i].T <= out[i-1].T {
					r.Violation(c, "timestamps-not-increasing", fmt.Sprintf("t[%d]=%d <= t[%d]=%d (%s)", i, out[i].T, i-1, out[i-1].T, class),
						map[string]any{"class": class, "func": f, "replicas": vfFmtReps(reps), "out": vfFmtOut(out), "mode": mode})
					break
				}
				if out[i].V < out[i-1].V {
					r.Violation(c, "fabricated-reset", fmt.Sprintf("value decreases %v -> %v at t=%d although every replica is non-decreasing (%s, %s)", out[i-1].V, out[i].V, out[i].T, class, f),
						map[string]any{"class": class, "func": f, "replicas": vfFmtReps(reps), "out": vfFmtOut(out), "mode": mode})
					break
				}
			}
		}
	})
}
