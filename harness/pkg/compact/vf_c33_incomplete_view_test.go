//go:build verif

package compact

import (
	"bytes"
	"context"
	"encoding/json"
	"fmt"
	"os"
	"path"
	"strings"
	"sync"
	"testing"
	"time"

	"github.com/go-kit/log"
	"github.com/oklog/ulid/v2"
	"github.com/thanos-io/objstore"

	"github.com/thanos-io/thanos/pkg/block"
	"github.com/thanos-io/thanos/pkg/block/metadata"

	"github.com/thanos-io/thanos/pkg/verifhook/vfkit"
)

// ---------------------------------------------------------------------------------------------
// C33 - the compactor does nothing destructive on an incomplete view.
//
// The metadata fetcher and the marker filters (IgnoreDeletionMarkFilter, GatherNoCompactionMarkFilter)
// read through the "sync" view of the fault bucket, the compactor proper (syncer, grouper, planner,
// cleaner, BucketCompactor) works on the "compactor" view of the same bucket. Both views share one
// logical operation counter, so "read r of the sync failed" and "a mutation happened" are totally
// ordered without any clock. Every sync read of a whole compaction cycle is failed once, in turn.
// ---------------------------------------------------------------------------------------------

type vfc33Kind struct {
	name string
	err  error
	cut  int // > 0: the call succeeds, the returned reader breaks after 0 / half / all-but-one bytes (only reads that return a reader)
}

var vfc33Kinds = []vfc33Kind{
	{"transient-error", vfcfbErrTransient, 0},
	{"context-deadline", context.DeadlineExceeded, 0},
}

var vfc33BodyKinds = []vfc33Kind{
	{"reader-breaks-after-0-bytes", nil, 1},
	{"reader-breaks-after-half", nil, 2},
	{"reader-breaks-one-byte-short", nil, 3},
}

func (k vfc33Kind) arm(core *vfcfbCore, read int) {
	if k.cut > 0 {
		core.armReadBodyFault(read, k.cut)
	} else {
		core.armReadFault(read, k.err)
	}
}

func TestVF_C33(t *testing.T) {
	r := vfkit.Start(t, "C33")
	defer r.Finish()
	r.Rule("case = one generated bucket state with pending work of every kind (3..4 aligned real TSDB blocks to compact / replica streams / vertical overlap / no-compact mark / empty block / second group; " +
		"a block whose deletion mark is older than the delete delay; an old partial upload) x delete delay {0,48h} x lister {concurrent, recursive}; a fault-free compaction cycle " +
		"(BucketCompactor.Compact + the sync/retention/partial-cleanup tail of compactMainFn) counts the R reads issued by the metadata sync (listing, meta.json exists/get, deletion-mark.json, no-compact-mark.json); " +
		"then for every r <= R and error kind {transient error, context deadline exceeded} - and for every read that returns a reader also {call succeeds but the reader breaks after 0 bytes / half / one byte short} - a fresh compactor runs the cycle on a fresh copy of the state with the r-th sync read failing once; " +
		"oracle: no mutating bucket operation (upload, delete) is applied after the failed read in that cycle; sets without vertical compaction additionally run a shared-Syncer phase: inside the first bucket operation the compactor issues after a sync, ANOTHER SyncMetas on the same Syncer (uncached fetcher) runs to completion with one failing meta.json read; oracle there: the foreign sync reports its error and no uploaded compaction result spans an existing complete unmarked block that is not among its sources; distinct = (state, r, kind); non-trivial = the fault was injected and the fault-free run " +
		"performed destructive work after its r-th read")
	nsets := r.N(3, 16)
	r.Assume("production wiring is mirrored from cmd/thanos/compact.go: fetcher and marker filters are the only readers of the sync view; concurrency 1")
	r.Assume("a not-found answer is not a read failure (it is indistinguishable from absence) and is not injected")
	ctx := context.Background()
	scratch := t.TempDir()
	fmt.Println("VF-INFLIGHT C33 compaction cycles with one failing metadata-sync read")
	for c := 0; c < nsets; c++ {
		if !r.Want(c) {
			continue
		}
		rng := r.Rand(c)
		set := vfcrigGenSetOf(rng, c, []string{"aligned", "replicas", "vertical-shifted", "no-compact", "empty-block", "two-groups", "replicas-penalty", "multi-result"})
		opts := vfcrigOpts{DeleteDelay: vfkit.Pick(rng, []time.Duration{0, 48 * time.Hour}), Lister: vfkit.Pick(rng, []string{"concurrent", "recursive"})}
		// build the state once
		tSet := time.Now()
		core0 := vfcfbNew()
		vfcrigBuild(ctx, t, core0.view("setup", false), set)
		vfcrigAddPendingCleanup(ctx, t, core0, rng)
		snap := vfcrigSnapshot(core0.mem)
		run := func(failRead int, kind vfc33Kind) (*vfcfbCore, error) {
			core := vfcrigRestore(ctx, snap)
			vfcrigCopyLastMod(core0, core)
			kind.arm(core, failRead)
			cctx, cancel := context.WithTimeout(ctx, 5*time.Minute)
			defer cancel()
			dir, err := os.MkdirTemp(scratch, "run")
			if err != nil {
				return nil, err
			}
			defer os.RemoveAll(dir)
			comp, err := vfcrigNewCompactor(cctx, set, opts, core.view("sync", true), core.view("compactor", false), dir)
			if err != nil {
				return nil, err
			}
			return core, comp.cycle(cctx)
		}
		// fault-free run
		tBuild := time.Since(tSet)
		tSet = time.Now()
		core, err := run(0, vfc33Kinds[0])
		t.Logf("set %d: build %v, fault-free cycle %v", c, tBuild, time.Since(tSet))
		if core == nil {
			t.Fatalf("rig: %v", err)
		}
		if err != nil {
			r.Inconclusive(fmt.Sprintf("fault-free cycle failed on set %s: %v", set.Name, err))
			continue
		}
		freeOps := core.ops()
		_, muts, R := core.counts()
		if muts == 0 {
			r.Inconclusive("fault-free cycle performed no mutation: no pending work in set " + set.Name)
			continue
		}
		// position of each sync read in the fault-free run and whether destructive work followed it
		lastMut := 0
		readClass := map[int]string{}
		readSeqPos := map[int]int{}
		for _, o := range freeOps {
			if o.Mutating {
				lastMut = o.Seq
			}
			if o.ReadSeq > 0 {
				readClass[o.ReadSeq] = o.Kind + "/" + o.Class
				readSeqPos[o.ReadSeq] = o.Seq
			}
		}
		classCount := map[string]int{}
		for _, cl := range readClass {
			classCount[cl]++
		}
		r.Sample(map[string]any{"set": set.describe(), "delete_delay": opts.DeleteDelay.String(), "lister": opts.Lister, "sync_reads": R, "mutations_fault_free": muts, "sync_reads_by_class": classCount})
		r.Count("sets", 1)
		r.Count("sync_reads_enumerated", R)
		type job struct {
			rd   int
			kind vfc33Kind
		}
		var jobs []job
		for rd := 1; rd <= R; rd++ {
			for ki, kind := range vfc33Kinds {
				if !r.Thorough() && (rd+ki)%2 == 1 {
					continue // quick tier: error kinds alternate over the reads
				}
				jobs = append(jobs, job{rd, kind})
			}
			if strings.HasPrefix(readClass[rd], "get/") {
				// reads that hand out a reader (meta.json, deletion-mark.json, no-compact-mark.json): the stream breaks mid-way
				for bi, kind := range vfc33BodyKinds {
					if r.Thorough() || rd%3 == bi {
						jobs = append(jobs, job{rd, kind})
					}
				}
			}
		}
		jobCh := make(chan job)
		var wg sync.WaitGroup
		for w := 0; w < 8; w++ { // independent runs (own bucket copy, own compactor, own directory)
			wg.Add(1)
			go func() {
				defer wg.Done()
				for j := range jobCh {
					rd, kind := j.rd, j.kind
					core, cerr := run(rd, kind)
					if core == nil {
						r.Inconclusive(fmt.Sprintf("rig failure: %v", cerr))
						continue
					}
					ops := core.ops()
					failed := core.failedReadOp()
					r.Eval(1)
					if failed == nil {
						r.Count("fault_not_reached", 1)
						continue
					}
					r.Count("faults_injected:"+failed.Kind+"/"+failed.Class, 1)
					if readSeqPos[rd] < lastMut {
						r.Distinct(fmt.Sprintf("%d|%s|%d|%s", c, set.Name, rd, kind.name))
					}
					if cerr == nil {
						r.Count("cycle_returned_nil_after_failed_read", 1)
					}
					for _, o := range ops {
						if o.Seq > failed.Seq && o.Mutating && !o.Failed {
							wit := map[string]any{"set": set.describe(), "delete_delay": opts.DeleteDelay.String(), "lister": opts.Lister, "failed_read_index": rd, "error_kind": kind.name,
								"failed_read": failed, "first_mutation_after": o, "cycle_error": fmt.Sprint(cerr), "ops_from_failure": vfcfbFmtOps(vfc33OpsFrom(ops, failed.Seq), 60)}
							r.Violation(c, fmt.Sprintf("mutation-after-failed-sync-read:%s/%s:then-%s/%s", failed.Kind, failed.Class, o.Kind, o.Class),
								fmt.Sprintf("sync read #%d (%s %s) failed with %s, yet the compactor went on to %s %s in the same cycle (cycle error: %v)", rd, failed.Kind, failed.Name, kind.name, o.Kind, o.Name, cerr), wit)
							break
						}
					}
				}
			}()
		}
		for _, j := range jobs {
			jobCh <- j
		}
		close(jobCh)
		wg.Wait()
		t.Logf("set %d: %d faulted runs in %v", c, len(jobs), time.Since(tSet))
		if !set.Vertical && len(set.ReplicaLabels) == 0 {
			tSet = time.Now()
			n := vfc33ForeignSync(ctx, t, r, c, set, opts, core0, snap, scratch)
			t.Logf("set %d: %d runs with a failed sync of another user of the Syncer in %v", c, n, time.Since(tSet))
		}
	}
	r.Require(int64(nsets*20), nsets*5)
}

func vfc33OpsFrom(ops []vfcfbOp, seq int) []vfcfbOp {
	for i, o := range ops {
		if o.Seq >= seq {
			return ops[i:]
		}
	}
	return nil
}

// TestVF_C33L (second part of check C33) drives the metadata sync alone - real MetaFetcher with the ConcurrentLister, the production
// default - over a bucket of 24 blocks with one failing "meta.json exists" read, many times. A sync whose read failed must report an
// error (otherwise the compactor is handed an incomplete view as complete); the part runs in its own process so that the race detector
// and a crash of the process can observe the lister's error path, which the compaction cycles of part one reach only a few times.
func TestVF_C33L(t *testing.T) {
	r := vfkit.Start(t, "C33")
	defer r.Finish()
	r.Rule("case = one metadata sync (real MetaFetcher, ConcurrentLister, concurrency 4) over 24 blocks in which the k-th read of the sync (meta.json exists calls and meta.json gets, k = 1..48) fails once with {transient error, context deadline, reader breaks after 0 bytes / half / one byte short}; " +
		"oracle: the sync reports an error (an incomplete view is never returned as complete) and the process survives; distinct = k x error kind")
	n := r.N(240, 2400)
	r.Require(int64(n), 48)
	ctx := context.Background()
	fmt.Println("VF-INFLIGHT C33 metadata sync (ConcurrentLister) with a failing meta.json exists read")
	core := vfcfbNew()
	setup := core.view("setup", false)
	rng := r.RandS("lister", 0)
	for i := 0; i < 24; i++ {
		id := vfcfbULID(rng, uint64(1_700_000_000_000+i))
		if err := vfc33PutMeta(ctx, setup, id); err != nil {
			t.Fatalf("rig: %v", err)
		}
	}
	// object stores answer with different latencies: successful exists calls take 0..600 microseconds, a pure function of the operation number
	core.mu.Lock()
	core.jitter = func(op vfcfbOp) time.Duration { return time.Duration(op.Seq%4) * 200 * time.Microsecond }
	core.mu.Unlock()
	for i := 0; i < n; i++ {
		if !r.Want(i) {
			continue
		}
		allKinds := append(append([]vfc33Kind(nil), vfc33Kinds...), vfc33BodyKinds...)
		kind := allKinds[(i/48)%len(allKinds)]
		core.reset()
		kind.arm(core, 2+i%48) // read 1 is the listing, reads 2..49 are the exists calls and meta.json gets of the 24 blocks
		ins := objstore.WithNoopInstr(core.view("sync", true))
		f, err := block.NewMetaFetcher(log.NewNopLogger(), 4, ins, block.NewConcurrentLister(log.NewNopLogger(), ins), "", nil, nil)
		if err != nil {
			t.Fatalf("rig: %v", err)
		}
		_, _, err = f.Fetch(ctx)
		r.Eval(1)
		failed := core.failedReadOp()
		if failed == nil {
			r.Count("fault_not_reached", 1)
			continue
		}
		r.Distinct(fmt.Sprintf("%d|%s", i%48, kind.name))
		r.Sample(map[string]any{"failed_read": failed, "error_kind": kind.name, "sync_error": fmt.Sprint(err)})
		if err == nil {
			r.Violation(i, "sync-reports-success-after-failed-read:"+failed.Kind+"/"+failed.Class,
				fmt.Sprintf("metadata sync returned no error although read %s %s failed with %s", failed.Kind, failed.Name, kind.name), map[string]any{"failed_read": failed, "error_kind": kind.name})
		}
	}
}

func vfc33PutMeta(ctx context.Context, bkt objstore.Bucket, id ulid.ULID) error {
	var m metadata.Meta
	m.Version = 1
	m.ULID = id
	m.MinTime, m.MaxTime = 0, 1000
	m.Compaction.Level = 1
	m.Compaction.Sources = []ulid.ULID{id}
	m.Thanos.Labels = map[string]string{"e": "1"}
	var buf bytes.Buffer
	if err := json.NewEncoder(&buf).Encode(&m); err != nil {
		return err
	}
	return bkt.Upload(ctx, path.Join(id.String(), metadata.MetaFilename), &buf)
}

// vfc33GapCheck is the oracle of the shared-Syncer phase: a freshly uploaded compaction result must not span an existing, complete,
// unmarked block of its own group that is not among its sources - that can only come from planning on a view that lacks the block.
func vfc33GapCheck(mem *objstore.InMemBucket, resultMetaName string) (string, bool) {
	objs := mem.Objects()
	var res metadata.Meta
	if err := json.Unmarshal(objs[resultMetaName], &res); err != nil || res.Thanos.Source != metadata.CompactorSource {
		return "", false
	}
	src := map[ulid.ULID]bool{}
	for _, s := range res.Compaction.Sources {
		src[s] = true
	}
	for name, body := range objs {
		if path.Base(name) != metadata.MetaFilename || name == resultMetaName {
			continue
		}
		var m metadata.Meta
		if err := json.Unmarshal(body, &m); err != nil || m.Thanos.GroupKey() != res.Thanos.GroupKey() {
			continue
		}
		dir := path.Dir(name)
		if _, marked := objs[dir+"/"+metadata.DeletionMarkFilename]; marked {
			continue
		}
		if _, marked := objs[dir+"/"+metadata.NoCompactMarkFilename]; marked {
			continue
		}
		if !vfcrigComplete(objs, &m) {
			continue
		}
		covered := true
		for _, s := range m.Compaction.Sources {
			if !src[s] {
				covered = false
			}
		}
		if covered {
			continue
		}
		if m.MinTime < res.MaxTime && res.MinTime < m.MaxTime {
			return fmt.Sprintf("result %s [%d,%d) spans block %s [%d,%d) which exists completely, is unmarked and is not among the result's sources", res.ULID, res.MinTime, res.MaxTime, m.ULID, m.MinTime, m.MaxTime), true
		}
	}
	return "", false
}

// vfc33ForeignSync: the Syncer is shared (cmd/thanos/compact.go: compaction loop, progress calculation, cleanup). While a compaction
// iteration is between its own successful sync and the use of the view, ANOTHER user's SyncMetas runs to completion on the same Syncer
// and one of its meta.json reads fails. The interleaving is forced through the bucket: the foreign sync runs inside the first bucket
// operation the compactor issues after a sync. The failed foreign sync must be a no-op for the iteration. The fetcher does not cache
// (every sync reads every meta.json), so that an existing block can be missing from a failed sync's view at all.
func vfc33ForeignSync(ctx context.Context, t *testing.T, r *vfkit.Run, c int, set vfcrigSet, opts vfcrigOpts, core0 *vfcfbCore, snap map[string][]byte, scratch string) int {
	opts.NoFetcherCache = true
	type outcome struct {
		core       *vfcfbCore
		cycleErr   error
		foreignErr error
		ran        bool
		gap        string
	}
	run := func(hookSeq, relRead int, kind vfc33Kind) (*outcome, error) {
		core := vfcrigRestore(ctx, snap)
		vfcrigCopyLastMod(core0, core)
		cctx, cancel := context.WithTimeout(ctx, 5*time.Minute)
		defer cancel()
		dir, err := os.MkdirTemp(scratch, "fs")
		if err != nil {
			return nil, err
		}
		defer os.RemoveAll(dir)
		comp, err := vfcrigNewCompactor(cctx, set, opts, core.view("sync", true), core.view("compactor", false), dir)
		if err != nil {
			return nil, err
		}
		out := &outcome{core: core}
		core.afterMut = func(op vfcfbOp) {
			if op.Kind == "upload" && op.Class == "meta" && out.gap == "" {
				if g, bad := vfc33GapCheck(core.mem, op.Name); bad {
					out.gap = g
				}
			}
		}
		if hookSeq > 0 {
			core.mu.Lock()
			core.beforeOpSeq = hookSeq
			core.beforeOp = func(vfcfbOp) {
				core.armReadFaultRelative(relRead, kind.err, kind.cut)
				out.foreignErr = comp.sy.SyncMetas(cctx)
				out.ran = true
			}
			core.mu.Unlock()
		}
		out.cycleErr = comp.cycle(cctx)
		return out, nil
	}
	free, err := run(0, 0, vfc33Kinds[0])
	if err != nil {
		t.Fatalf("rig: %v", err)
	}
	if free.cycleErr != nil {
		r.Inconclusive(fmt.Sprintf("fault-free cycle with the uncached fetcher failed on set %s: %v", set.Name, free.cycleErr))
		return 0
	}
	if free.gap != "" {
		r.Violation(c, "compaction-planned-without-existing-block:fault-free", free.gap, map[string]any{"set": set.describe()})
		return 0
	}
	// hook points: the first operation of the compactor proper after each sync; victims: the meta.json gets of the first sync
	ops := free.core.ops()
	var hooks []int
	var metaGets []int // read numbers (relative to the start of a sync) of the meta.json gets
	firstSyncDone := false
	for i, o := range ops {
		if o.View == "compactor" && i > 0 && ops[i-1].View == "sync" {
			hooks = append(hooks, o.Seq)
			firstSyncDone = true
		}
		if !firstSyncDone && o.Kind == "get" && o.Class == "meta" {
			metaGets = append(metaGets, o.ReadSeq)
		}
	}
	if len(hooks) == 0 || len(metaGets) == 0 {
		r.Inconclusive("no hook point / no meta.json read for the shared-Syncer phase on set " + set.Name)
		return 0
	}
	if !r.Thorough() && len(hooks) > 2 {
		hooks = hooks[:2]
	}
	n := 0
	kinds := []vfc33Kind{vfc33Kinds[0], vfc33BodyKinds[1]}
	for _, h := range hooks {
		for gi, g := range metaGets {
			kind := kinds[gi%2]
			out, err := run(h, g, kind)
			if err != nil {
				t.Fatalf("rig: %v", err)
			}
			n++
			r.Eval(1)
			if !out.ran || out.core.failedReadOp() == nil {
				r.Count("foreign_sync_fault_not_reached", 1)
				continue
			}
			r.Count("foreign_failed_syncs", 1)
			r.Distinct(fmt.Sprintf("%d|%s|foreign|%d|%d", c, set.Name, h, g))
			if out.foreignErr == nil {
				r.Violation(c, "sync-reports-success-after-failed-read:foreign-sync", "the interleaved SyncMetas returned no error although one of its meta.json reads failed", map[string]any{"set": set.describe()})
				continue
			}
			if out.gap != "" {
				r.Violation(c, "compaction-planned-without-existing-block:after-failed-sync-of-another-syncer-user",
					fmt.Sprintf("a SyncMetas of another user of the shared Syncer failed (%s on %s) between the iteration's own sync and its use; afterwards %s", kind.name, out.core.failedReadOp().Name, out.gap),
					map[string]any{"set": set.describe(), "delete_delay": opts.DeleteDelay.String(), "lister": opts.Lister, "hook_before_operation": h, "failed_read": out.core.failedReadOp(), "error_kind": kind.name,
						"foreign_sync_error": fmt.Sprint(out.foreignErr), "cycle_error": fmt.Sprint(out.cycleErr), "operations": vfcfbFmtOps(out.core.ops(), 300)})
			}
		}
	}
	return n
}
