//go:build verif

package compact

import (
	"bytes"
	"context"
	"encoding/json"
	"fmt"
	"io"
	"math/rand"
	"os"
	"path"
	"path/filepath"
	"sort"
	"strings"
	"testing"
	"time"

	"github.com/go-kit/log"
	"github.com/oklog/ulid/v2"
	"github.com/prometheus/client_golang/prometheus"
	"github.com/thanos-io/objstore"

	"github.com/thanos-io/thanos/pkg/block"
	"github.com/thanos-io/thanos/pkg/block/metadata"
	"github.com/thanos-io/thanos/pkg/verifhook/vfkit"
)

// ---------------------------------------------------------------------------------------------
// C34 - compactor and store-gateway delays keep data queryable (protocol model on real components).
//
// Actors: a compactor that replaces three source blocks by their (really compacted) result with the
// real block.Upload, marks the sources with the real block.MarkForDeletion and cleans with the real
// BlocksCleaner (delete delay D) behind a real compactor-side MetaFetcher/IgnoreDeletionMarkFilter;
// 1..3 store gateways that sync with a real MetaFetcher + IgnoreDeletionMarkFilter(I) +
// DefaultDeduplicateFilter and keep serving what they loaded at their last sync.
// Gateway syncs are interleaved between the individual bucket mutations of the compactor's calls
// (fault-bucket hook) and between its steps, under a VIRTUAL clock: the code computes a mark's age
// from the wall clock, so every read of a deletion-mark.json is answered with DeletionTime rewritten
// to realNow - virtualAge. Virtual events sit on a grid such that every age the code evaluates is
// half a tick (>= 5 virtual minutes) away from I and D; seconds of real execution cannot flip a decision.
// ---------------------------------------------------------------------------------------------

type vfc34World struct {
	core  *vfcfbCore
	vnow  int64            // virtual minutes
	vmark map[string]int64 // block id -> virtual minute at which its deletion mark was written
}

// vfc34Shift answers reads of deletion marks under the virtual clock.
type vfc34Shift struct {
	objstore.Bucket
	w *vfc34World
	// one read fault for the sync that is running: the faultN-th Get fails as a call (mode 0) or hands out a reader that
	// breaks after 0 / half / all-but-one bytes (mode 1..3)
	faultN, faultMode, gets int
	faultHit                bool
}

func (s *vfc34Shift) arm(n, mode int) { s.faultN, s.faultMode, s.gets, s.faultHit = n, mode, 0, false }

func (s *vfc34Shift) disarm() bool {
	hit := s.faultHit
	s.faultN, s.faultHit = 0, false
	return hit
}

func (s *vfc34Shift) Get(ctx context.Context, name string) (io.ReadCloser, error) {
	if s.faultN > 0 {
		s.gets++
		if s.gets == s.faultN {
			s.faultHit = true
			if s.faultMode == 0 {
				return nil, vfcfbErrTransient
			}
			rc, err := s.get(ctx, name)
			if err != nil {
				return rc, err
			}
			body, _ := io.ReadAll(rc)
			_ = rc.Close()
			n := 0
			switch s.faultMode {
			case 2:
				n = len(body) / 2
			case 3:
				n = len(body) - 1
			}
			if n < 0 {
				n = 0
			}
			return &vfcfbCutReader{data: body[:n]}, nil
		}
	}
	return s.get(ctx, name)
}

func (s *vfc34Shift) get(ctx context.Context, name string) (io.ReadCloser, error) {
	rc, err := s.Bucket.Get(ctx, name)
	if err != nil || path.Base(name) != metadata.DeletionMarkFilename {
		return rc, err
	}
	body, rerr := io.ReadAll(rc)
	_ = rc.Close()
	if rerr != nil {
		return nil, rerr
	}
	var m metadata.DeletionMark
	if err := json.Unmarshal(body, &m); err != nil {
		return io.NopCloser(bytes.NewReader(body)), nil
	}
	id := path.Dir(name)
	age := s.w.vnow - s.w.vmark[id]
	m.DeletionTime = time.Now().Unix() - age*60
	out, _ := json.Marshal(m)
	return io.NopCloser(bytes.NewReader(out)), nil
}

type vfc34Gateway struct {
	name     string
	style    string // eager: random syncs, also between single bucket mutations; lazy: only when the lag bound forces it; adversarial: right before the upload, then lazy
	fetcher  *block.MetaFetcher
	loaded   map[ulid.ULID]*metadata.Meta
	lastSync int64
}

type vfc34Params struct {
	TickMin  int64 `json:"tick_min"`
	DMin     int64 `json:"delete_delay_min"`
	IMin     int64 `json:"ignore_delay_min"`
	LMin     int64 `json:"max_sync_lag_min"`
	Gateways int   `json:"gateways"`
	Premise  bool  `json:"premise_lag_below_D_minus_I"`
	Adverse  bool  `json:"adversarial_gateway"`
}

func vfc34GenParams(rng *rand.Rand, idx int) vfc34Params {
	p := vfc34Params{Premise: idx%10 != 9}
	if rng.Intn(2) == 0 {
		p.TickMin, p.DMin = 10, 120
		p.IMin = vfkit.Pick(rng, []int64{30, 60, 90})
	} else {
		p.TickMin, p.DMin = 240, 48*60
		p.IMin = vfkit.Pick(rng, []int64{8 * 60, 24 * 60, 40 * 60})
	}
	slack := (p.DMin - p.IMin) / p.TickMin // in ticks
	if p.Premise {
		// L < D - I, at least one tick
		l := int64(1)
		if slack-1 > 1 {
			l = 1 + rng.Int63n(slack-1)
		}
		if rng.Intn(3) == 0 && slack-1 >= 1 {
			l = slack - 1 // the largest lag the premise allows on this grid
		}
		p.LMin = l * p.TickMin
	} else {
		// the gateway that has not loaded the result yet must miss the whole delete delay (plus the spread of the marks) for data to vanish
		p.LMin = (p.DMin/p.TickMin + 6 + rng.Int63n(4)) * p.TickMin
		p.Adverse = true
	}
	p.Gateways = 1 + rng.Intn(3)
	if !p.Premise {
		p.Gateways = 1
	}
	return p
}

func TestVF_C34(t *testing.T) {
	r := vfkit.Start(t, "C34")
	defer r.Finish()
	r.Rule("case = one schedule: parameters (delete delay D in {2h,48h}, gateway ignore delay I < D, max sync lag L < D-I on a virtual grid, 1..3 gateways) and a PRNG-driven interleaving of compactor steps " +
		"(real block.Upload of the really compacted result, real MarkForDeletion of each source, real BlocksCleaner.DeleteMarkedBlocks behind a real compactor-side fetcher) with gateway syncs (real MetaFetcher + " +
		"IgnoreDeletionMarkFilter(I) + DefaultDeduplicateFilter), syncs also placed between the single bucket mutations of Upload/Delete; every 5th sync of an eager and every 3rd sync of a lazy/adversarial gateway suffers one read fault (a meta.json / deletion-mark.json get fails, or succeeds with a reader that breaks after 0 bytes / half / one byte short): a sync that reports the failure keeps the previous view (plus newly seen blocks) and is retried at once, a sync that reports success is taken as complete; virtual time via rewritten DeletionTime; oracle after every bucket mutation and every sync: " +
		"every sample of the source blocks is held by a block that some gateway loaded at its last sync and that still exists completely; every 10th schedule violates the premise (L > D-I, adversarial gateway) and is expected to fire " +
		"(calibration, not reported); distinct = schedule signature; non-trivial = all sources were deleted by the cleaner during the schedule")
	n := r.N(300, 12000)
	r.Require(int64(n*8/10), n/3)
	r.Assume("filter chains and delays are mirrored from cmd/thanos/store.go and cmd/thanos/compact.go; package main wiring itself is not executed")
	r.Assume("virtual time: every mark age evaluated by the code is half a grid tick (>= 5 virtual minutes) away from I and D; a step taking > 30 s of real time makes the run inconclusive")
	r.Assume("a gateway serves a loaded block only while every file listed in its meta.json exists in the bucket")
	ctx := context.Background()
	logger := log.NewNopLogger()

	// ---- real blocks, built once: three sources filling one window, the newest block, and the result of really compacting the sources
	set := vfcrigSet{Name: "c34", Ranges: []int64{1000, 3000}}
	for i := 0; i < 4; i++ {
		set.Specs = append(set.Specs, vfcrigSpec{Min: int64(i) * 1000, Max: int64(i+1) * 1000, Series: []int{1, 2}, Samples: 3, Ext: map[string]string{"e": "1"}})
	}
	core0 := vfcfbNew()
	ids := vfcrigBuild(ctx, t, core0.view("setup", false), set)
	initial := vfcrigSnapshot(core0.mem)
	comp, err := vfcrigNewCompactor(ctx, set, vfcrigOpts{DeleteDelay: 48 * time.Hour}, core0.view("sync", false), core0.view("compactor", false), t.TempDir())
	if err != nil {
		t.Fatalf("rig: %v", err)
	}
	if err := comp.cycle(ctx); err != nil {
		t.Fatalf("rig: compaction: %v", err)
	}
	known := map[string]bool{}
	for _, id := range ids {
		known[id.String()] = true
	}
	var resultID string
	for dir := range vfcfbBlockDirs(core0.mem) {
		if !known[dir] {
			resultID = dir
		}
	}
	if resultID == "" {
		t.Fatalf("rig: compaction produced no block")
	}
	sources := []ulid.ULID{ids[0], ids[1], ids[2]}
	// the result block on local disk, as the compactor has it before block.Upload
	resDir := filepath.Join(t.TempDir(), resultID)
	for name, body := range core0.mem.Objects() {
		if strings.HasPrefix(name, resultID+"/") {
			dst := filepath.Join(filepath.Dir(resDir), filepath.FromSlash(name))
			_ = os.MkdirAll(filepath.Dir(dst), 0o755)
			if err := os.WriteFile(dst, body, 0o644); err != nil {
				t.Fatalf("rig: %v", err)
			}
		}
	}
	reader := vfcrigNewReader(t.TempDir(), nil)
	// samples of the sources (what must stay queryable) and per-block sample lists of every block that can appear
	coreInit := vfcrigRestore(ctx, initial)
	ins0 := objstore.WithNoopInstr(coreInit.mem)
	rawF, _ := block.NewRawMetaFetcher(logger, ins0, block.NewRecursiveLister(logger, ins0))
	allMetas, _, err := rawF.Fetch(ctx)
	if err != nil {
		t.Fatalf("rig: %v", err)
	}
	want := map[string]bool{}
	for id, m := range allMetas {
		ss, err := reader.blockSamples(ctx, coreInit.mem, m)
		if err != nil {
			t.Fatalf("rig: %v", err)
		}
		for _, s := range sources {
			if s == id {
				for _, k := range ss {
					want[k] = true
				}
			}
		}
	}
	if len(want) == 0 {
		t.Fatalf("rig: no source samples")
	}

	fired := 0
	for c := 0; c < n; c++ {
		if !r.Want(c) {
			continue
		}
		rng := r.Rand(c)
		p := vfc34GenParams(rng, c)
		ok, sig, allDeleted, viol := vfc34Schedule(ctx, t, r, rng, p, initial, resDir, sources, want, reader)
		if !ok {
			continue
		}
		r.Signature(sig)
		r.Sample(map[string]any{"params": p, "signature": sig, "all_sources_deleted": allDeleted, "violated": viol != nil})
		if !p.Premise {
			r.Count("premise_violating_schedules", 1)
			if viol != nil {
				fired++
				r.Count("premise_violating_schedules_fired", 1)
			}
			continue
		}
		r.Eval(1)
		if allDeleted {
			r.Distinct(sig)
		}
		if viol != nil {
			r.Violation(c, viol.fp, viol.what, map[string]any{"params": p, "signature": sig, "detail": viol.wit})
		}
	}
	if !r.Replaying() && fired == 0 {
		r.Inconclusive("the monitor never fired on the premise-violating calibration schedules")
	}
}

type vfc34Viol struct {
	fp, what string
	wit      any
}

func vfc34Schedule(ctx context.Context, t *testing.T, r *vfkit.Run, rng *rand.Rand, p vfc34Params, initial map[string][]byte, resDir string,
	sources []ulid.ULID, want map[string]bool, reader *vfcrigReader) (ok bool, sig string, allDeleted bool, viol *vfc34Viol) {
	logger := log.NewNopLogger()
	core := vfcrigRestore(ctx, initial)
	w := &vfc34World{core: core, vmark: map[string]int64{}}
	shift := &vfc34Shift{Bucket: core.view("bucket", false), w: w}
	insShift := objstore.WithNoopInstr(shift)
	var events []string
	slow := false
	step := func(name string, f func()) {
		t0 := time.Now()
		f()
		if time.Since(t0) > 30*time.Second {
			slow = true
		}
		events = append(events, name)
	}
	// gateways (cmd/thanos/store.go chain)
	var gws []*vfc34Gateway
	for g := 0; g < p.Gateways; g++ {
		f, err := block.NewMetaFetcher(logger, 1, insShift, block.NewRecursiveLister(logger, insShift), "", nil, []block.MetadataFilter{
			block.NewConsistencyDelayMetaFilterWithoutMetrics(logger, 0),
			block.NewIgnoreDeletionMarkFilter(logger, insShift, time.Duration(p.IMin)*time.Minute, 1),
			block.NewDeduplicateFilter(1),
		})
		if err != nil {
			t.Fatalf("rig: %v", err)
		}
		style := vfkit.Pick(rng, []string{"eager", "eager", "lazy", "adversarial"})
		if p.Adverse {
			style = "adversarial"
		}
		gws = append(gws, &vfc34Gateway{name: fmt.Sprintf("G%d%s", g, style[:1]), style: style, fetcher: f, loaded: map[ulid.ULID]*metadata.Meta{}})
	}
	check := func(at string) {
		if viol != nil {
			return
		}
		objs := core.mem.Objects()
		have := map[string]bool{}
		var servedBy []string
		for _, g := range gws {
			for id, m := range g.loaded {
				if !vfcrigComplete(objs, m) {
					continue
				}
				if _, ok := objs[id.String()+"/meta.json"]; !ok {
					continue
				}
				ss, err := reader.blockSamples(ctx, core.mem, m)
				if err != nil {
					continue
				}
				servedBy = append(servedBy, g.name+":"+id.String())
				for _, k := range ss {
					have[k] = true
				}
			}
		}
		missing := 0
		ex := ""
		for k := range want {
			if !have[k] {
				missing++
				if ex == "" {
					ex = k
				}
			}
		}
		if missing > 0 {
			sort.Strings(servedBy)
			lags := map[string]int64{}
			for _, g := range gws {
				lags[g.name] = w.vnow - g.lastSync
			}
			viol = &vfc34Viol{fp: "source-sample-served-by-no-gateway:" + strings.SplitN(at, " ", 2)[0],
				what: fmt.Sprintf("%d source samples (e.g. %s) are held by no block that any gateway has loaded and that still exists completely, at virtual minute %d right after %s (D=%dm I=%dm L=%dm)", missing, ex, w.vnow, at, p.DMin, p.IMin, p.LMin),
				wit:  map[string]any{"virtual_minute": w.vnow, "after": at, "served_blocks": servedBy, "minutes_since_last_sync": lags, "mark_virtual_minutes": w.vmark, "events": append([]string(nil), events...)}}
		}
	}
	syncGW := func(g *vfc34Gateway) {
		faulty := rng.Intn(5) == 0 && len(g.loaded) > 0 // never the gateway's first sync: it serves nothing before it
		if g.style != "eager" && len(g.loaded) > 0 {
			faulty = rng.Intn(3) == 0 // gateways that sync rarely see more change per sync
		}
		n, mode := 1+rng.Intn(5), rng.Intn(4)
		if rng.Intn(2) == 0 {
			n = 1 // the first get of a sync is the meta.json of a block the gateway has not loaded yet, if there is one
		}
		step(g.name, func() {
			if faulty {
				shift.arm(n, mode) // one read of this sync (meta.json / deletion-mark.json) fails or its stream breaks
			}
			metas, _, err := g.fetcher.Fetch(ctx)
			hit := shift.disarm()
			if err != nil && !hit {
				t.Fatalf("rig: gateway sync on in-memory bucket failed: %v", err)
			}
			if hit {
				events = append(events, fmt.Sprintf("%s!read-fault-%d", g.name, mode))
			}
			if err != nil {
				// as BucketStore.SyncBlocks does on a failed sync: blocks of an incomplete view are added, nothing is dropped; without a view nothing changes
				for id, m := range metas {
					g.loaded[id] = m
				}
				check("failed-sync " + g.name)
				// the gateway retries at once (same virtual instant)
				if metas, _, err = g.fetcher.Fetch(ctx); err != nil {
					t.Fatalf("rig: gateway sync on in-memory bucket failed: %v", err)
				}
			}
			// a sync that reports success is taken as a complete view, as the real gateway does
			g.loaded = metas
			g.lastSync = w.vnow
		})
		check("sync " + g.name)
	}
	// between the single bucket mutations of a compactor call the gateways may sync (same virtual instant) and the invariant is checked
	inCall := ""
	core.afterMut = func(op vfcfbOp) {
		if op.Class == "deletion-mark" && op.Kind == "upload" {
			w.vmark[path.Dir(op.Name)] = w.vnow
		}
		events = append(events, fmt.Sprintf("%s:%s/%s", inCall, op.Kind, op.Class))
		check(fmt.Sprintf("%s %s %s", op.Kind, op.Class, op.Name))
		for _, g := range gws {
			if g.style == "eager" && rng.Intn(4) == 0 {
				syncGW(g)
			}
		}
	}
	// compactor side (cmd/thanos/compact.go): its own fetcher with IgnoreDeletionMarkFilter(D/2), cleaner with D
	compFilter := block.NewIgnoreDeletionMarkFilter(logger, insShift, time.Duration(p.DMin/2)*time.Minute, 1)
	compFetcher, err := block.NewMetaFetcher(logger, 1, insShift, block.NewRecursiveLister(logger, insShift), "", nil, []block.MetadataFilter{compFilter, block.NewDeduplicateFilter(1)})
	if err != nil {
		t.Fatalf("rig: %v", err)
	}
	cnt := func() prometheus.Counter { return prometheus.NewCounter(prometheus.CounterOpts{Name: "vfc34"}) }
	cleaner := NewBlocksCleaner(logger, shift, compFilter, time.Duration(p.DMin)*time.Minute, cnt(), cnt())

	T := p.TickMin
	// initial sync of every gateway, at virtual minute T/2
	w.vnow = T / 2
	for _, g := range gws {
		syncGW(g)
	}
	// compactor plan on the grid (ticks): upload at tick u, mark source i at tick m_i >= u, cleaner runs at random ticks
	u := int64(1 + rng.Intn(3))
	marks := make([]int64, len(sources))
	prev := u
	for i := range marks {
		prev += int64(rng.Intn(4))
		marks[i] = prev
	}
	lastTick := marks[len(marks)-1] + p.DMin/T + 4 + int64(rng.Intn(3))
	if !p.Premise {
		lastTick += p.LMin / T
	}
	cleanerRuns := 0
	for tick := int64(1); tick <= lastTick && !slow; tick++ {
		// ---- compactor steps happen ON the grid
		w.vnow = tick * T
		if tick == u {
			inCall = "U"
			step("upload-result", func() {
				if err := block.Upload(ctx, logger, shift, resDir, metadata.NoneFunc); err != nil {
					t.Fatalf("rig: upload: %v", err)
				}
			})
		}
		for i, m := range marks {
			if m == tick {
				inCall = fmt.Sprintf("M%d", i)
				step(fmt.Sprintf("mark-source-%d", i), func() {
					if err := block.MarkForDeletion(ctx, logger, shift, sources[i], "source of compacted block", cnt()); err != nil {
						t.Fatalf("rig: mark: %v", err)
					}
				})
			}
		}
		// ---- gateway syncs and cleaner runs happen half a tick later, so that every evaluated mark age is T/2 away from I and D
		w.vnow = tick*T + T/2
		for _, g := range gws {
			due := w.vnow+T-g.lastSync > p.LMin // waiting one more tick would exceed the lag bound
			wantSync := false
			switch g.style {
			case "eager":
				wantSync = rng.Intn(3) == 0
			case "adversarial":
				// syncs right before the result is uploaded and then as late as its lag bound allows
				wantSync = tick == u-1
			}
			if due || wantSync {
				syncGW(g)
			}
		}
		if tick > marks[0] && (rng.Intn(3) == 0 || tick == lastTick-1) {
			inCall = "C"
			cleanerRuns++
			step("cleaner", func() {
				if _, _, err := compFetcher.Fetch(ctx); err != nil {
					t.Fatalf("rig: compactor sync: %v", err)
				}
				if _, err := cleaner.DeleteMarkedBlocks(ctx); err != nil {
					t.Fatalf("rig: cleaner: %v", err)
				}
			})
			check("cleaner-run")
		}
	}
	if slow {
		r.Inconclusive("a step took more than 30 s of real time; virtual-time margins cannot be trusted")
		return false, "", false, nil
	}
	allDeleted = true
	dirs := vfcfbBlockDirs(core.mem)
	for _, s := range sources {
		if _, ok := dirs[s.String()]; ok {
			allDeleted = false
		}
	}
	return true, strings.Join(events, ","), allDeleted, viol
}
