//go:build verif

package compact

import (
	"context"
	"fmt"
	"math"
	"os"
	"path"
	"path/filepath"
	"sort"
	"strings"
	"sync"
	"testing"
	"time"

	"github.com/go-kit/log"
	"github.com/oklog/ulid/v2"
	"github.com/prometheus/client_golang/prometheus"
	"github.com/prometheus/prometheus/model/labels"
	"github.com/prometheus/prometheus/storage"
	"github.com/prometheus/prometheus/tsdb"
	"github.com/prometheus/prometheus/tsdb/chunkenc"
	"github.com/thanos-io/objstore"

	"github.com/thanos-io/thanos/pkg/block"
	"github.com/thanos-io/thanos/pkg/block/metadata"
	"github.com/thanos-io/thanos/pkg/compact/downsample"
	"github.com/thanos-io/thanos/pkg/dedup"
	"github.com/thanos-io/thanos/pkg/logutil"
	"github.com/thanos-io/thanos/pkg/testutil/e2eutil"
)

// ---------------------------------------------------------------------------------------------
// Rig shared by C29, C33 (and C34 for block building): real small TSDB blocks, a compactor wired
// as in cmd/thanos/compact.go (runCompact) on views of the fault bucket, a store-gateway view of
// the bucket wired as in cmd/thanos/store.go, and a sample reader for blocks held in the bucket.
// ---------------------------------------------------------------------------------------------

type vfcrigSpec struct {
	Min, Max  int64
	Series    []int // series a="<n>"
	Samples   int
	Ext       map[string]string
	Res       int64
	Empty     bool
	NoCompact bool
	// Tombstones > 0: the block's meta.json reports that many tombstones (Stats.NumTombstones), as a block shipped from a
	// Prometheus whose delete API was used does; the planner compacts such a block on its own.
	Tombstones uint64
}

type vfcrigSet struct {
	Name          string
	Specs         []vfcrigSpec
	Ranges        []int64
	Vertical      bool
	ReplicaLabels []string
	Penalty       bool
	// MultiResult: the Compactor hands back two result blocks for plans of four or more blocks (the Compactor interface allows
	// several results): each half of the plan is compacted by the real LeveledCompactor.
	MultiResult bool
}

// vfcrigSplitCompactor wraps the real compactor: a plan of >= 4 blocks is compacted as two halves (by time), giving two result blocks.
type vfcrigSplitCompactor struct{ Compactor }

func (s vfcrigSplitCompactor) CompactWithBlockPopulator(dest string, dirs []string, open []*tsdb.Block, bp tsdb.BlockPopulator) ([]ulid.ULID, error) {
	if len(dirs) < 4 {
		return s.Compactor.CompactWithBlockPopulator(dest, dirs, open, bp)
	}
	h := len(dirs) / 2
	a, err := s.Compactor.CompactWithBlockPopulator(dest, dirs[:h], nil, bp)
	if err != nil {
		return nil, err
	}
	b, err := s.Compactor.CompactWithBlockPopulator(dest, dirs[h:], nil, bp)
	if err != nil {
		return nil, err
	}
	return append(a, b...), nil
}

func (s vfcrigSplitCompactor) Compact(dest string, dirs []string, open []*tsdb.Block) ([]ulid.ULID, error) {
	return s.CompactWithBlockPopulator(dest, dirs, open, tsdb.DefaultBlockPopulator{})
}

func (s vfcrigSet) describe() map[string]any {
	var bl []string
	for _, b := range s.Specs {
		d := fmt.Sprintf("[%d,%d) series=%v samples=%d ext=%v", b.Min, b.Max, b.Series, b.Samples, b.Ext)
		if b.Empty {
			d += " EMPTY"
		}
		if b.NoCompact {
			d += " NO-COMPACT"
		}
		if b.Tombstones > 0 {
			d += fmt.Sprintf(" TOMBSTONES=%d", b.Tombstones)
		}
		bl = append(bl, d)
	}
	return map[string]any{"name": s.Name, "blocks": bl, "ranges": s.Ranges, "vertical": s.Vertical, "replica_labels": s.ReplicaLabels, "penalty_dedup": s.Penalty, "multi_result_compactor": s.MultiResult}
}

// vfcrigBuild creates the blocks of a set on disk and uploads them (block.Upload) through bkt.
func vfcrigBuild(ctx context.Context, t testing.TB, bkt objstore.Bucket, set vfcrigSet) []ulid.ULID {
	dir := t.TempDir()
	logger := log.NewNopLogger()
	ids := make([]ulid.ULID, len(set.Specs))
	errs := make([]error, len(set.Specs))
	var wg sync.WaitGroup
	sem := make(chan struct{}, 4)
	for i, sp := range set.Specs {
		wg.Add(1)
		go func(i int, sp vfcrigSpec) {
			defer wg.Done()
			sem <- struct{}{}
			defer func() { <-sem }()
			ext := labels.FromMap(sp.Ext)
			if sp.Empty {
				ids[i], errs[i] = e2eutil.CreateEmptyBlock(dir, sp.Min, sp.Max, ext, sp.Res)
				return
			}
			var series []labels.Labels
			for _, n := range sp.Series {
				series = append(series, labels.FromStrings("a", fmt.Sprint(n)))
			}
			// every block gets its own parent directory: CreateBlock keeps a head "chunks" directory next to the block while it works
			sub := filepath.Join(dir, fmt.Sprintf("b%d", i))
			if err := os.MkdirAll(sub, 0o755); err != nil {
				errs[i] = err
				return
			}
			id, err := e2eutil.CreateBlock(ctx, sub, series, sp.Samples, sp.Min, sp.Max, ext, sp.Res, metadata.NoneFunc, nil)
			if err == nil {
				err = os.Rename(filepath.Join(sub, id.String()), filepath.Join(dir, id.String()))
			}
			ids[i], errs[i] = id, err
		}(i, sp)
	}
	wg.Wait()
	for i, sp := range set.Specs {
		if errs[i] != nil {
			t.Fatalf("rig: create block: %v", errs[i])
		}
		id := ids[i]
		if sp.Tombstones > 0 {
			m, err := metadata.ReadFromDir(filepath.Join(dir, id.String()))
			if err != nil {
				t.Fatalf("rig: %v", err)
			}
			m.Stats.NumTombstones = sp.Tombstones
			if err := m.WriteToDir(logger, filepath.Join(dir, id.String())); err != nil {
				t.Fatalf("rig: %v", err)
			}
		}
		if err := block.Upload(ctx, logger, bkt, filepath.Join(dir, id.String()), metadata.NoneFunc); err != nil {
			t.Fatalf("rig: upload block: %v", err)
		}
		if sp.NoCompact {
			if err := block.MarkForNoCompact(ctx, logger, bkt, id, metadata.ManualNoCompactReason, "vf", prometheus.NewCounter(prometheus.CounterOpts{Name: "x"})); err != nil {
				t.Fatalf("rig: mark no compact: %v", err)
			}
		}
		_ = os.RemoveAll(filepath.Join(dir, id.String()))
	}
	return ids
}

// vfcrigSnapshot / vfcrigRestore copy the objects of an in-memory bucket.
func vfcrigSnapshot(mem *objstore.InMemBucket) map[string][]byte { return mem.Objects() }

func vfcrigRestore(ctx context.Context, snap map[string][]byte) *vfcfbCore {
	core := vfcfbNew()
	names := make([]string, 0, len(snap))
	for n := range snap {
		names = append(names, n)
	}
	sort.Strings(names)
	for _, n := range names {
		_ = core.mem.Upload(ctx, n, strings.NewReader(string(snap[n])))
	}
	return core
}

type vfcrigOpts struct {
	DeleteDelay time.Duration
	Lister      string // concurrent | recursive
	// NoFetcherCache: every sync uses a fresh real MetaFetcher (same filter instances), i.e. every sync reads every meta.json
	// again, as a fetcher does whose cache was busted or that does not cache at all (Syncer takes any block.MetadataFetcher).
	NoFetcherCache bool
}

// vfcrigFreshFetcher is a block.MetadataFetcher that delegates every Fetch to a newly built real MetaFetcher.
type vfcrigFreshFetcher struct {
	mk func() (*block.MetaFetcher, error)
}

func (f *vfcrigFreshFetcher) Fetch(ctx context.Context) (map[ulid.ULID]*metadata.Meta, map[ulid.ULID]error, error) {
	mf, err := f.mk()
	if err != nil {
		return nil, nil, err
	}
	return mf.Fetch(ctx)
}

func (f *vfcrigFreshFetcher) UpdateOnChange(func([]metadata.Meta, error)) {}

type vfcrigCompactor struct {
	sy        *Syncer
	bc        *BucketCompactor
	ignoreDel *block.IgnoreDeletionMarkFilter
	cleaner   *BlocksCleaner
	mutBkt    objstore.Bucket
	logger    log.Logger
}

var vfcrigActivities = []string{"sync", "sync+partial-cleanup", "partial-cleanup", "clean-marked", "gc", "sync+gc"}

// background runs, to completion, one of the things cmd/thanos/compact.go does concurrently with a compaction iteration on the SAME
// Syncer / filters / cleaner: a metadata sync (progress calculation, cleanup loop), the partial-upload clean-up with the Syncer's
// current Partial() set, the deletion of marked blocks, a garbage collection.
func (c *vfcrigCompactor) background(ctx context.Context, act string) error {
	cnt := func() prometheus.Counter { return prometheus.NewCounter(prometheus.CounterOpts{Name: "vfcrig"}) }
	if strings.HasPrefix(act, "sync") {
		if err := c.sy.SyncMetas(ctx); err != nil {
			return err
		}
	}
	switch strings.TrimPrefix(act, "sync+") {
	case "partial-cleanup":
		BestEffortCleanAbortedPartialUploads(ctx, c.logger, c.sy.Partial(), c.mutBkt, cnt(), cnt(), cnt(), c.ignoreDel.DeletionMarkBlocks())
	case "clean-marked":
		_, err := c.cleaner.DeleteMarkedBlocks(ctx)
		return err
	case "gc":
		return c.sy.GarbageCollect(ctx, nil)
	}
	return nil
}

// vfcrigNewCompactor mirrors runCompact in cmd/thanos/compact.go: the fetcher and the marker filters read through
// syncBkt, everything else (syncer, grouper, planner, cleaner, compactor) works on mutBkt. Concurrency is 1 everywhere so
// that bucket operation sequences are as reproducible as the code allows.
func vfcrigNewCompactor(ctx context.Context, set vfcrigSet, o vfcrigOpts, syncBkt, mutBkt objstore.Bucket, dataDir string) (*vfcrigCompactor, error) {
	logger := log.NewNopLogger()
	reg := prometheus.NewRegistry()
	insSync := objstore.WithNoopInstr(syncBkt)
	ignoreDeletionMarkFilter := block.NewIgnoreDeletionMarkFilter(logger, insSync, o.DeleteDelay/2, 1)
	duplicateBlocksFilter := block.NewDeduplicateFilter(1)
	noCompactMarkerFilter := NewGatherNoCompactionMarkFilter(logger, insSync, 1)
	consistencyDelayMetaFilter := block.NewConsistencyDelayMetaFilterWithoutMetrics(logger, 0)
	var lister block.Lister
	if o.Lister == "recursive" {
		lister = block.NewRecursiveLister(logger, insSync)
	} else {
		lister = block.NewConcurrentLister(logger, insSync)
	}
	base, err := block.NewBaseFetcher(logger, 1, insSync, lister, dataDir, nil)
	if err != nil {
		return nil, err
	}
	vertical := set.Vertical || len(set.ReplicaLabels) > 0
	filters := []block.MetadataFilter{
		consistencyDelayMetaFilter,
		ignoreDeletionMarkFilter,
		block.NewReplicaLabelRemover(logger, set.ReplicaLabels),
		duplicateBlocksFilter,
		noCompactMarkerFilter,
	}
	var cf block.MetadataFetcher = base.NewMetaFetcher(nil, filters)
	if o.NoFetcherCache {
		cf = &vfcrigFreshFetcher{mk: func() (*block.MetaFetcher, error) {
			return block.NewMetaFetcher(logger, 1, insSync, lister, "", nil, filters)
		}}
	}
	cnt := func() prometheus.Counter { return prometheus.NewCounter(prometheus.CounterOpts{Name: "vfcrig"}) }
	sy, err := NewMetaSyncer(logger, reg, mutBkt, cf, duplicateBlocksFilter, ignoreDeletionMarkFilter, cnt(), cnt(), 0)
	if err != nil {
		return nil, err
	}
	var mergeFunc storage.VerticalChunkSeriesMergeFunc
	if set.Penalty {
		mergeFunc = dedup.NewChunkSeriesMerger()
	} else {
		mergeFunc = storage.NewCompactingChunkSeriesMerger(storage.ChainedSeriesMerge)
	}
	comp, err := tsdb.NewLeveledCompactor(ctx, reg, logutil.GoKitLogToSlog(logger), set.Ranges, downsample.NewPool(), mergeFunc)
	if err != nil {
		return nil, err
	}
	compactDir := path.Join(dataDir, "compact")
	if err := os.MkdirAll(compactDir, os.ModePerm); err != nil {
		return nil, err
	}
	grouper := NewDefaultGrouper(logger, mutBkt, false, vertical, reg, cnt(), cnt(), cnt(), metadata.NoneFunc, 1, 1)
	tsdbPlanner := NewPlanner(logger, set.Ranges, noCompactMarkerFilter)
	largeIndexFilterPlanner := WithLargeTotalIndexSizeFilter(tsdbPlanner, mutBkt, 64*1024*1024*1024, cnt())
	var planner Planner = largeIndexFilterPlanner
	if vertical {
		planner = WithVerticalCompactionDownsampleFilter(largeIndexFilterPlanner, mutBkt, cnt())
	}
	blocksCleaner := NewBlocksCleaner(logger, mutBkt, ignoreDeletionMarkFilter, o.DeleteDelay, cnt(), cnt())
	var compactor Compactor = comp
	if set.MultiResult {
		compactor = vfcrigSplitCompactor{Compactor: comp}
	}
	bc, err := NewBucketCompactor(logger, sy, grouper, planner, compactor, compactDir, mutBkt, 1, false, blocksCleaner)
	if err != nil {
		return nil, err
	}
	return &vfcrigCompactor{sy: sy, bc: bc, ignoreDel: ignoreDeletionMarkFilter, cleaner: blocksCleaner, mutBkt: mutBkt, logger: logger}, nil
}

// cycle mirrors compactMainFn of cmd/thanos/compact.go with downsampling disabled and no retention configured:
// Compact (sync, clean marked blocks, garbage collect, compact groups, repeated until no work), sync, retention, partial-upload cleanup.
func (c *vfcrigCompactor) cycle(ctx context.Context) error {
	if err := c.bc.Compact(ctx); err != nil {
		return fmt.Errorf("compaction: %w", err)
	}
	if err := c.sy.SyncMetas(ctx); err != nil {
		return fmt.Errorf("sync before retention: %w", err)
	}
	cnt := func() prometheus.Counter { return prometheus.NewCounter(prometheus.CounterOpts{Name: "vfcrig"}) }
	if err := ApplyRetentionPolicyByResolution(ctx, c.logger, c.mutBkt, c.sy.Metas(), map[ResolutionLevel]time.Duration{}, cnt()); err != nil {
		return fmt.Errorf("retention: %w", err)
	}
	BestEffortCleanAbortedPartialUploads(ctx, c.logger, c.sy.Partial(), c.mutBkt, cnt(), cnt(), cnt(), c.ignoreDel.DeletionMarkBlocks())
	return nil
}

// ---- reading what a store gateway would serve ------------------------------------------------

// vfcrigSamples is a multiset of sample keys "labels|t|valuebits".
type vfcrigSamples map[string]int

type vfcrigReader struct {
	mu            sync.Mutex
	dir           string
	replicaLabels map[string]bool
	cache         map[ulid.ULID][]string // samples per block id (blocks are immutable)
	metaCache     map[ulid.ULID]*metadata.Meta
}

func vfcrigNewReader(dir string, replicaLabels []string) *vfcrigReader {
	r := &vfcrigReader{dir: dir, replicaLabels: map[string]bool{}, cache: map[ulid.ULID][]string{}, metaCache: map[ulid.ULID]*metadata.Meta{}}
	for _, l := range replicaLabels {
		r.replicaLabels[l] = true
	}
	return r
}

// blockSamples returns every sample of block id held in mem, keyed with the block's external labels (minus replica labels) attached.
func (r *vfcrigReader) blockSamples(ctx context.Context, mem *objstore.InMemBucket, m *metadata.Meta) ([]string, error) {
	r.mu.Lock()
	s, ok := r.cache[m.ULID]
	r.mu.Unlock()
	if ok {
		return s, nil
	}
	var out []string
	if m.Stats.NumSamples > 0 || m.Stats.NumSeries > 0 {
		tmp, err := os.MkdirTemp(r.dir, "rd")
		if err != nil {
			return nil, err
		}
		defer os.RemoveAll(tmp)
		bdir := filepath.Join(tmp, m.ULID.String())
		prefix := m.ULID.String() + "/"
		for name, body := range mem.Objects() {
			if !strings.HasPrefix(name, prefix) {
				continue
			}
			dst := filepath.Join(tmp, filepath.FromSlash(name))
			if err := os.MkdirAll(filepath.Dir(dst), 0o755); err != nil {
				return nil, err
			}
			if err := os.WriteFile(dst, body, 0o644); err != nil {
				return nil, err
			}
		}
		b, err := tsdb.OpenBlock(nil, bdir, nil, nil)
		if err != nil {
			return nil, fmt.Errorf("open block %s: %w", m.ULID, err)
		}
		q, err := tsdb.NewBlockQuerier(b, math.MinInt64, math.MaxInt64)
		if err != nil {
			_ = b.Close()
			return nil, err
		}
		ss := q.Select(ctx, true, nil, labels.MustNewMatcher(labels.MatchEqual, "", ""))
		var it chunkenc.Iterator
		for ss.Next() {
			s := ss.At()
			lb := labels.NewBuilder(s.Labels())
			for k, v := range m.Thanos.Labels {
				if !r.replicaLabels[k] {
					lb.Set(k, v)
				}
			}
			ls := lb.Labels().String()
			it = s.Iterator(it)
			for it.Next() != chunkenc.ValNone {
				t, v := it.At()
				out = append(out, fmt.Sprintf("%s|%d|%x", ls, t, math.Float64bits(v)))
			}
			if err := it.Err(); err != nil {
				_ = q.Close()
				_ = b.Close()
				return nil, err
			}
		}
		err = ss.Err()
		_ = q.Close()
		_ = b.Close()
		if err != nil {
			return nil, err
		}
	}
	r.mu.Lock()
	r.cache[m.ULID] = out
	r.mu.Unlock()
	return out, nil
}

// vfcrigComplete reports whether every file listed in the block's meta is present in the bucket.
func vfcrigComplete(objs map[string][]byte, m *metadata.Meta) bool {
	for _, f := range m.Thanos.Files {
		if f.RelPath == "" || f.RelPath == "meta.json" {
			continue
		}
		if _, ok := objs[m.ULID.String()+"/"+f.RelPath]; !ok {
			return false
		}
	}
	return true
}

type vfcrigGauge struct{ g prometheus.Gauge }

func (v vfcrigGauge) WithLabelValues(...string) prometheus.Gauge { return v.g }

// vfcrigStoreView returns the metas a store gateway (cmd/thanos/store.go filter chain: consistency delay 0,
// IgnoreDeletionMarkFilter(ignoreDelay), DefaultDeduplicateFilter; real MetaFetcher) selects from the bucket right now.
func vfcrigStoreView(ctx context.Context, mem *objstore.InMemBucket, ignoreDelay time.Duration) (map[ulid.ULID]*metadata.Meta, error) {
	logger := log.NewNopLogger()
	ins := objstore.WithNoopInstr(mem)
	f, err := block.NewMetaFetcher(logger, 1, ins, block.NewRecursiveLister(logger, ins), "", nil, []block.MetadataFilter{
		block.NewConsistencyDelayMetaFilterWithoutMetrics(logger, 0),
		block.NewIgnoreDeletionMarkFilter(logger, ins, ignoreDelay, 1),
		block.NewDeduplicateFilter(1),
	})
	if err != nil {
		return nil, err
	}
	metas, _, err := f.Fetch(ctx)
	return metas, err
}

// served builds the multiset of samples of the given selected blocks, requiring that each block is completely present
// in the bucket (every file listed in its meta exists).
func (r *vfcrigReader) served(ctx context.Context, mem *objstore.InMemBucket, metas map[ulid.ULID]*metadata.Meta) (vfcrigSamples, error) {
	out := vfcrigSamples{}
	for _, m := range metas {
		ss, err := r.blockSamples(ctx, mem, m)
		if err != nil {
			return nil, err
		}
		for _, k := range ss {
			out[k]++
		}
	}
	return out, nil
}
