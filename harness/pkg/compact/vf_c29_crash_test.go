//go:build verif

package compact

import (
	"context"
	"fmt"
	"os"
	"sort"
	"strings"
	"sync"
	"testing"
	"time"

	"github.com/go-kit/log"
	"github.com/oklog/ulid/v2"
	"github.com/thanos-io/objstore"

	"github.com/thanos-io/thanos/pkg/block"
	"github.com/thanos-io/thanos/pkg/block/metadata"
	"github.com/thanos-io/thanos/pkg/verifhook/vfkit"
)

// ---------------------------------------------------------------------------------------------
// C29 - compaction never loses or invents data, even if it crashes.
//
// A real compactor (wired as cmd/thanos/compact.go) works on the fault bucket. After EVERY mutating
// bucket operation an online checker asks what a store gateway would serve right now - real
// MetaFetcher + IgnoreDeletionMarkFilter + DefaultDeduplicateFilter as in cmd/thanos/store.go, once
// with deletion marks not yet effective (V_fresh) and once with all present marks effective (V_aged) -
// and compares the samples of the selected, completely present blocks with the samples of the
// original blocks. Then every mutating operation of the crash-free run is used as a crash point:
// fail-stop, new compactor, run to quiescence, same online checks, plus exactly-once at the end.
// ---------------------------------------------------------------------------------------------

type vfc29Env struct {
	r       *vfkit.Run
	c       int
	set     vfcrigSet
	opts    vfcrigOpts
	reader  *vfcrigReader
	orig    map[string]bool // original samples (set)
	origIDs map[string]bool // ULIDs of the blocks present before the compactor started
	scratch string
}

type vfc29RunState struct {
	mu       sync.Mutex
	phase    string
	crashAt  int
	violated bool
	checks   int
}

func (st *vfc29RunState) isViolated() bool {
	st.mu.Lock()
	defer st.mu.Unlock()
	return st.violated
}

var vfc29Views = []struct {
	name  string
	delay time.Duration
}{
	{"V_fresh", 1000 * time.Hour}, // deletion marks not yet effective
	{"V_aged", -time.Hour},        // every present deletion mark effective (age > -1h holds for any mark not from the future)
}

// vfc29Served evaluates one store-gateway view: samples (with multiplicity) of the selected blocks that exist completely.
func (e *vfc29Env) served(ctx context.Context, mem *objstore.InMemBucket, delay time.Duration) (vfcrigSamples, []string, error) {
	metas, err := vfcrigStoreView(ctx, mem, delay)
	if err != nil {
		return nil, nil, err
	}
	objs := mem.Objects()
	sel := map[ulid.ULID]*metadata.Meta{}
	var ids []string
	for id, m := range metas {
		if !vfcrigComplete(objs, m) {
			ids = append(ids, id.String()+"(INCOMPLETE)")
			continue
		}
		sel[id] = m
		ids = append(ids, id.String())
	}
	sort.Strings(ids)
	s, err := e.reader.served(ctx, mem, sel)
	return s, ids, err
}

// check is the online invariant (b): in both views every original sample is served and nothing is served that no source held.
func (e *vfc29Env) check(ctx context.Context, core *vfcfbCore, st *vfc29RunState, after vfcfbOp) {
	// an upload into a block directory that has no meta.json (and is not a meta.json or a deletion mark itself) cannot change what a
	// store gateway selects nor the completeness of a selected block: skip the evaluation (independent of the code under test)
	if after.Kind == "upload" && after.Class != "meta" && after.Class != "deletion-mark" {
		if i := strings.IndexByte(after.Name, '/'); i > 0 {
			if ok, _ := core.mem.Exists(ctx, after.Name[:i]+"/meta.json"); !ok {
				return
			}
		}
	}
	st.mu.Lock()
	st.checks++
	phase, crashAt := st.phase, st.crashAt
	st.mu.Unlock()
	for _, v := range vfc29Views {
		served, ids, err := e.served(ctx, core.mem, v.delay)
		e.r.Eval(1)
		if err != nil {
			e.r.Inconclusive(fmt.Sprintf("store view could not be evaluated: %v", err))
			return
		}
		missing, invented := 0, 0
		var ex string
		for k := range e.orig {
			if served[k] == 0 {
				missing++
				if ex == "" {
					ex = k
				}
			}
		}
		var exInv string
		for k := range served {
			if !e.orig[k] {
				invented++
				if exInv == "" {
					exInv = k
				}
			}
		}
		if missing == 0 && invented == 0 {
			continue
		}
		st.mu.Lock()
		already := st.violated
		st.violated = true
		st.mu.Unlock()
		if already {
			return
		}
		// the run is decided: stop it (a compactor that keeps recompacting would otherwise run into the time limit)
		core.mu.Lock()
		stop := core.onStop
		core.mu.Unlock()
		if stop != nil {
			defer stop()
		}
		wit := map[string]any{"set": e.set.describe(), "delete_delay": e.opts.DeleteDelay.String(), "lister": e.opts.Lister, "phase": phase, "crash_at_mutation": crashAt,
			"view": v.name, "after_operation": after, "selected_blocks": ids, "missing_samples": missing, "example_missing": ex, "invented_samples": invented, "example_invented": exInv,
			"operations": vfcfbFmtOps(core.ops(), 400)}
		if missing > 0 {
			what := after.Kind + "/" + after.Class
			if after.Class == "deletion-mark" && after.Kind == "upload" {
				// whose deletion mark made the samples disappear: a block that existed from the start, or a block the compactor produced
				if i := strings.IndexByte(after.Name, '/'); i > 0 && e.origIDs[after.Name[:i]] {
					what += "-of-original-block"
				} else {
					what += "-of-compaction-result"
				}
			}
			e.r.Violation(e.c, fmt.Sprintf("sample-not-served:%s:%s:after-%s", v.name, phase, what),
				fmt.Sprintf("%d original samples (e.g. %s) are served by no complete selected block in %s right after %s %s (%s, crash point %d)", missing, ex, v.name, after.Kind, after.Name, phase, crashAt), wit)
		} else {
			e.r.Violation(e.c, fmt.Sprintf("invented-sample:%s:%s", v.name, phase),
				fmt.Sprintf("%d served samples (e.g. %s) exist in no source block, %s right after %s %s", invented, exInv, v.name, after.Kind, after.Name), wit)
		}
		return
	}
}

// final is the end-state check (a)/(c): once the compactor is quiescent every original sample is served exactly once with all marks effective.
func (e *vfc29Env) final(ctx context.Context, core *vfcfbCore, st *vfc29RunState) {
	st.mu.Lock()
	phase, crashAt, violated := st.phase, st.crashAt, st.violated
	st.mu.Unlock()
	if violated {
		return
	}
	e.check(ctx, core, st, vfcfbOp{Kind: "quiescence", Class: "final"})
	served, ids, err := e.served(ctx, core.mem, vfc29Views[1].delay)
	e.r.Eval(1)
	if err != nil {
		e.r.Inconclusive(fmt.Sprintf("store view could not be evaluated: %v", err))
		return
	}
	twice := 0
	var ex string
	for k, n := range served {
		if n > 1 {
			twice++
			if ex == "" {
				ex = fmt.Sprintf("%s x%d", k, n)
			}
		}
	}
	if twice > 0 {
		e.r.Violation(e.c, "final:sample-served-more-than-once:"+phase,
			fmt.Sprintf("after quiescence %d samples (e.g. %s) are served by more than one selected block with all deletion marks effective (%s, crash point %d)", twice, ex, phase, crashAt),
			map[string]any{"set": e.set.describe(), "delete_delay": e.opts.DeleteDelay.String(), "phase": phase, "crash_at_mutation": crashAt, "selected_blocks": ids, "example": ex, "operations": vfcfbFmtOps(core.ops(), 400)})
	}
}

// runToQuiescence runs compaction cycles with a fresh compactor until a cycle performs no mutation (or the bucket fail-stops).
// It returns the number of mutating operations performed, whether it crashed, and an error for a cycle that failed without a crash.
func (e *vfc29Env) runToQuiescence(ctx context.Context, core *vfcfbCore, dir string) (crashed bool, quiescent bool, err error) {
	return e.runToQuiescenceWith(ctx, core, dir, nil, nil)
}

// runToQuiescenceWith: onComp sees the compactor before its first cycle (to install a background activity); afterQuiescence, if set, is
// called once when the compactor has become quiescent (e.g. to let time pass) and the SAME compactor then runs to quiescence again.
func (e *vfc29Env) runToQuiescenceWith(ctx context.Context, core *vfcfbCore, dir string, onComp func(*vfcrigCompactor, context.Context), afterQuiescence func()) (crashed bool, quiescent bool, err error) {
	cctx, cancel := context.WithTimeout(ctx, 10*time.Minute)
	defer cancel()
	core.mu.Lock()
	core.onStop = cancel
	core.mu.Unlock()
	comp, err := vfcrigNewCompactor(cctx, e.set, e.opts, core.view("sync", true), core.view("compactor", false), dir)
	if err != nil {
		return false, false, fmt.Errorf("rig: %w", err)
	}
	if onComp != nil {
		onComp(comp, cctx)
	}
	maxCycles := len(e.set.Specs) + 3
	for i := 0; i < maxCycles; i++ {
		_, before, _ := core.counts()
		cerr := comp.cycle(cctx)
		if core.isStopped() {
			return true, false, nil
		}
		if cerr != nil {
			return false, false, cerr
		}
		_, after, _ := core.counts()
		if after == before {
			if afterQuiescence == nil {
				return false, true, nil
			}
			afterQuiescence()
			afterQuiescence = nil
			i = -1
		}
	}
	return false, false, nil
}

func TestVF_C29(t *testing.T) {
	r := vfkit.Start(t, "C29")
	defer r.Finish()
	r.Rule("case = one generated set of 4..8 tiny real TSDB blocks (aligned ranges; two replica streams with a replica label, default and penalty merge; time-shifted overlap with vertical compaction; " +
		"a plan of four blocks whose Compactor hands back TWO result blocks (each half compacted by the real LeveledCompactor); an old block that reports tombstones and is compacted on its own; a no-compact marked block; an empty block; two groups) x delete delay {0,48h} x lister; a real compactor (cmd/thanos wiring: BucketCompactor, planner, grouper, LeveledCompactor, Syncer.GarbageCollect, BlocksCleaner, " +
		"BestEffortCleanAbortedPartialUploads) runs cycles to quiescence; a crash-free run yields the bucket-changing operations, the bucket content after each, and the compactor's own reads; enumerated faults: " +
		"(1) CRASH after every bucket-changing operation k (fresh compactor + fresh directory on the content left behind; for every 8th k, thorough all, produced live by fail-stop of the bucket + cancellation with the working directory kept; " +
		"thorough crashes the restarted run once more); (2) TRANSIENT failure of every bucket-changing operation k, everything later works: variant 'lost' (not applied, error) and variant 'applied' (applied, but reported as failed) - " +
		"quick alternates the variants over k, thorough runs both; (3) TRANSIENT failure of the compactor's own reads (block download, exists checks, listings; sync reads belong to C33) - quick every 4th, thorough all; " +
		"(4) a BACKGROUND ACTIVITY of another user of the same Syncer/filters/cleaner run to completion inside bucket operation k (every operation of a result upload after its first, the operation after it, every 20th other operation of the compactor proper): " +
		"{SyncMetas, SyncMetas+partial-upload clean-up with the Syncer's Partial(), partial-upload clean-up, DeleteMarkedBlocks, GarbageCollect, SyncMetas+GarbageCollect}, optionally with one transient fault inside it (attribute listings fail / one sync read fails); the cycle continues; " +
		"after quiescence all objects are served as older than the partial-upload threshold and the same compactor runs on (quick: a rotating quarter of the combinations per point, thorough: all); " +
		"after a transient fault the cycle finishes or returns its error, then a fresh compactor runs to quiescence; oracle after EVERY applied mutating operation of every run: in both store-gateway views " +
		"(real MetaFetcher + IgnoreDeletionMarkFilter + DefaultDeduplicateFilter; deletion marks not yet effective / all effective) the complete selected blocks hold every sample of the original blocks and no other sample; " +
		"at quiescence with all marks effective every sample is held exactly once; distinct = (set, fault kind, fault position); non-trivial = the fault was injected")
	nsets := r.N(5, 45)
	r.Assume("a crash is modelled as fail-stop of the bucket at a mutating operation (every later operation fails) plus cancellation; real SIGKILL of a child process is not used")
	r.Assume("single faults: one crash (thorough: two) or one transient failure per history; after a cycle that returned an error the compactor is restarted as a fresh process")
	r.Assume("store gateway wiring is mirrored from cmd/thanos/store.go; replica labels are ignored when comparing samples iff the compactor is configured to deduplicate on them")
	r.Assume("a selected block serves its samples only while every file listed in its meta.json exists in the bucket")
	ctx := context.Background()
	scratch := t.TempDir()
	for c := 0; c < nsets; c++ {
		if !r.Want(c) {
			continue
		}
		rng := r.Rand(c)
		set := vfcrigGenSet(rng, c)
		opts := vfcrigOpts{DeleteDelay: []time.Duration{48 * time.Hour, 0}[(c%9+c/9)%2], Lister: vfkit.Pick(rng, []string{"concurrent", "recursive"})} // every kind of set meets both delays over the 9-cycle of kinds
		core0 := vfcfbNew()
		tSet := time.Now()
		vfcrigBuild(ctx, t, core0.view("setup", false), set)
		snap := vfcrigSnapshot(core0.mem)
		rdir, _ := os.MkdirTemp(scratch, "reader")
		env := &vfc29Env{r: r, c: c, set: set, opts: opts, reader: vfcrigNewReader(rdir, set.ReplicaLabels), orig: map[string]bool{}, scratch: scratch}
		// original samples: every block that exists before the compactor starts (raw fetch, no filters)
		ins := objstore.WithNoopInstr(core0.mem)
		rawF, err := block.NewRawMetaFetcher(log.NewNopLogger(), ins, block.NewConcurrentLister(log.NewNopLogger(), ins))
		if err != nil {
			t.Fatalf("rig: %v", err)
		}
		metas, _, err := rawF.Fetch(ctx)
		if err != nil {
			t.Fatalf("rig: %v", err)
		}
		byTS := map[string]string{}
		env.origIDs = map[string]bool{}
		for _, m := range metas {
			env.origIDs[m.ULID.String()] = true
			ss, err := env.reader.blockSamples(ctx, core0.mem, m)
			if err != nil {
				t.Fatalf("rig: read source block: %v", err)
			}
			for _, k := range ss {
				env.orig[k] = true
				ts := k[:strings.LastIndexByte(k, '|')]
				if prev, ok := byTS[ts]; ok && prev != k {
					t.Fatalf("rig: generator produced two different values for %s", ts)
				}
				byTS[ts] = k
			}
		}
		if len(env.orig) == 0 {
			t.Fatalf("rig: no samples in set %s", set.Name)
		}
		tBuild := time.Since(tSet)

		newRun := func(objs map[string][]byte, phase string, crashAt int) (*vfcfbCore, *vfc29RunState) {
			core := vfcrigRestore(ctx, objs)
			st := &vfc29RunState{phase: phase, crashAt: crashAt}
			core.afterMut = func(op vfcfbOp) { env.check(ctx, core, st, op) }
			return core, st
		}
		// ---- crash-free run; the bucket content after every mutating operation is kept: it is exactly what a process that
		// crashes at the next mutating operation leaves behind
		tSet = time.Now()
		core, st := newRun(snap, "crash-free", 0)
		states := []map[string][]byte{snap}
		var appliedSeq []int // MutSeq of the operations that changed the bucket (deleting a non-existent directory marker does not)
		core.afterMut = func(op vfcfbOp) {
			states = append(states, core.mem.Objects()) // serialised by the fault bucket
			appliedSeq = append(appliedSeq, op.MutSeq)
			env.check(ctx, core, st, op)
		}
		dir, _ := os.MkdirTemp(scratch, "cf")
		_, quiescent, err := env.runToQuiescence(ctx, core, dir)
		_ = os.RemoveAll(dir)
		if st.isViolated() {
			continue // reported; the remaining runs of this set would repeat it
		}
		if err != nil {
			r.Inconclusive(fmt.Sprintf("crash-free run failed on set %s: %v", set.Name, err))
			continue
		}
		if !quiescent {
			r.Inconclusive(fmt.Sprintf("crash-free run not quiescent within %d cycles on set %s", len(set.Specs)+3, set.Name))
			continue
		}
		env.final(ctx, core, st)
		_, M, _ := core.counts()
		cfOps := core.ops()
		RC := core.otherReads() // reads issued by the compactor proper (downloads, exists checks, listings of block.Delete) in the crash-free run
		t.Logf("set %d (%s): build %v, crash-free run %v, M=%d mutations (%d applied), %d samples", c, set.Name, tBuild, time.Since(tSet), M, len(states)-1, len(env.orig))
		// M counts attempted mutating operations; some (deleting a directory marker object that does not exist) change nothing.
		// states[i] = bucket content after the i-th APPLIED mutation; a crash leaves one of states[0..A-1] behind.
		A := len(states) - 1
		if M == 0 || A == 0 {
			r.Inconclusive(fmt.Sprintf("crash-free run performed %d mutations (%d applied) on set %s", M, A, set.Name))
			continue
		}
		r.Count("sets", 1)
		r.Count("crash_points", A)
		r.Sample(map[string]any{"set": set.describe(), "delete_delay": opts.DeleteDelay.String(), "lister": opts.Lister, "original_samples": len(env.orig), "mutating_ops_crash_free": M, "applied_mutations_crash_free": A, "online_checks_crash_free": st.checks})

		// restart runs a fresh compactor to quiescence on core (optionally crashing it once more first) and applies the final check
		restart := func(core *vfcfbCore, st *vfc29RunState, k int, dir string, secondCrash bool) {
			restarts := 1
			if secondCrash {
				restarts = 2
			}
			for n := 1; n <= restarts; n++ {
				core.mu.Lock()
				core.stopped, core.failStopMut = false, 0
				if n < restarts {
					core.failStopMut = core.mutSeq + 1 + r.RandS("second-crash", c*100000+k).Intn(M+1)
				}
				core.mu.Unlock()
				st.mu.Lock()
				st.phase = fmt.Sprintf("after-restart-%d", n)
				st.mu.Unlock()
				crashed, quiescent, err := env.runToQuiescence(ctx, core, dir)
				switch {
				case st.isViolated():
					return
				case err != nil:
					r.Inconclusive(fmt.Sprintf("restart after crash point %d failed on set %s: %v", k, set.Name, err))
					return
				case crashed:
					r.Count("second_crashes", 1)
				case !quiescent:
					r.Inconclusive(fmt.Sprintf("restart after crash point %d not quiescent within %d cycles on set %s", k, len(set.Specs)+3, set.Name))
					return
				default:
					env.final(ctx, core, st)
					return
				}
			}
		}

		// ---- every crash point
		tSet = time.Now()
		type job struct {
			k    int
			live bool   // true: the crash is produced by a real fail-stop run and the half-written working directory is kept for the restart
			act  string // kind "background": the activity run inside bucket operation k
			flt  string // kind "background": "", "attr-listing" or "sync-read" - one transient fault inside the activity
			kind string // "": crash; "background": see act; otherwise a transient fault: "mutation-lost", "mutation-applied" (applied but reported as failed), "read" (k-th non-sync read)
		}
		jobs := make(chan job)
		var wg sync.WaitGroup
		for w := 0; w < 8; w++ {
			wg.Add(1)
			go func() {
				defer wg.Done()
				for j := range jobs {
					k := j.k
					dir, _ := os.MkdirTemp(scratch, "crash")
					if j.kind == "background" {
						// inside bucket operation k of the cycle another user of the same Syncer/filters/cleaner runs to completion; the cycle goes on;
						// after quiescence all objects are served as older than the partial-upload threshold and the same compactor runs on
						phase := "background-" + j.act
						if j.flt != "" {
							phase += "-with-" + j.flt + "-fault"
						}
						core, st := newRun(snap, phase, k)
						ran := false
						// time passes only where it can matter: after an activity that touched the Syncer's view or the partial-upload clean-up
						var aging func()
						if j.act != "clean-marked" && j.act != "gc" {
							aging = func() {
								core.setLastModAll(time.Now().Add(-PartialUploadThresholdAge - 24*time.Hour))
								st.mu.Lock()
								st.phase = phase + ":aged"
								st.mu.Unlock()
							}
						}
						_, quiescent, err := env.runToQuiescenceWith(ctx, core, dir, func(comp *vfcrigCompactor, cctx context.Context) {
							core.setBeforeOp(k, func(vfcfbOp) {
								switch j.flt {
								case "attr-listing":
									core.setAttrIterAll(1 + k%3)
								case "sync-read":
									core.armReadFaultRelative(2+k%5, vfcfbErrTransient, 0)
								}
								_ = comp.background(cctx, j.act)
								core.setAttrIterAll(0)
								core.armReadFault(0, nil)
								ran = true
							})
						}, aging)
						switch {
						case st.isViolated():
						case !ran:
							r.Count("background_hook_not_reached", 1)
						case err != nil:
							// e.g. two cleaners deleting the same block: the iteration fails; as after any failed cycle a fresh compactor takes over
							r.Distinct(fmt.Sprintf("%d|%s|%d|%s", c, set.Name, k, phase))
							r.Count("background_"+j.act+"_then_cycle_error", 1)
							restart(core, st, k, dir, false)
						case !quiescent:
							r.Inconclusive(fmt.Sprintf("run with background %s at operation %d not quiescent on set %s", phase, k, set.Name))
						default:
							r.Distinct(fmt.Sprintf("%d|%s|%d|%s", c, set.Name, k, phase))
							r.Count("background_"+j.act, 1)
							env.final(ctx, core, st)
						}
						_ = os.RemoveAll(dir)
						continue
					}
					if j.kind != "" {
						// one operation fails once, everything later works; the cycle finishes or returns its error; then a fresh compactor runs to quiescence
						phase := "transient-" + j.kind
						core, st := newRun(snap, phase, k)
						switch j.kind {
						case "mutation-lost":
							core.armTransient(k, "lost", 0)
						case "mutation-applied":
							core.armTransient(k, "applied", 0)
						default:
							core.armTransient(0, "", k)
						}
						_, quiescent, err := env.runToQuiescence(ctx, core, dir)
						hit := core.transientHit()
						switch {
						case st.isViolated():
						case hit == nil:
							r.Count("transient_fault_not_reached", 1)
							if quiescent {
								env.final(ctx, core, st)
							}
						case err != nil:
							r.Distinct(fmt.Sprintf("%d|%s|%d|%s", c, set.Name, k, j.kind))
							r.Count("transient_"+j.kind+"_then_cycle_error", 1)
							if k%2 == 0 {
								_ = os.RemoveAll(dir)
								dir, _ = os.MkdirTemp(scratch, "restart")
							}
							restart(core, st, k, dir, false)
						case quiescent:
							r.Distinct(fmt.Sprintf("%d|%s|%d|%s", c, set.Name, k, j.kind))
							r.Count("transient_"+j.kind+"_absorbed", 1)
							env.final(ctx, core, st)
						default:
							r.Inconclusive(fmt.Sprintf("run with transient %s fault %d not quiescent within %d cycles on set %s", j.kind, k, len(set.Specs)+3, set.Name))
						}
						_ = os.RemoveAll(dir)
						continue
					}
					if !j.live {
						// the process died at mutating operation k: the bucket holds the first k-1 mutations; fresh process, fresh directory
						core, st := newRun(states[k], "after-restart-1", k)
						r.Distinct(fmt.Sprintf("%d|%s|%d|snapshot", c, set.Name, k))
						r.Count("crash_restarts_from_prefix_state", 1)
						restart(core, st, k, dir, r.Thorough())
						_ = os.RemoveAll(dir)
						continue
					}
					core, st := newRun(snap, "before-crash", k)
					core.failStopMut = k
					crashed, _, err := env.runToQuiescence(ctx, core, dir)
					if st.isViolated() {
						_ = os.RemoveAll(dir)
						continue
					}
					if err != nil && !crashed {
						r.Inconclusive(fmt.Sprintf("run towards crash point %d failed on set %s: %v", k, set.Name, err))
						_ = os.RemoveAll(dir)
						continue
					}
					if !crashed {
						r.Count("crash_point_not_reached", 1)
						_ = os.RemoveAll(dir)
						continue
					}
					r.Distinct(fmt.Sprintf("%d|%s|%d|live", c, set.Name, k))
					r.Count("crash_restarts_live_fail_stop_kept_workdir", 1)
					restart(core, st, k, dir, false)
					_ = os.RemoveAll(dir)
				}
			}()
		}
		for k := 1; k < A; k++ { // crash right after the k-th applied mutation (k=0 is the crash-free run itself, k=A its end state)
			jobs <- job{k: k}
		}
		for i, k := range appliedSeq {
			if r.Thorough() || i%8 == 0 {
				jobs <- job{k: k, live: true}
			}
		}
		// transient faults: every bucket-changing operation k fails once - quick: the two variants alternate over the operations, thorough: both
		for i, k := range appliedSeq {
			if r.Thorough() || (i+c)%2 == 0 {
				jobs <- job{k: k, kind: "mutation-lost"}
			}
			if r.Thorough() || (i+c)%2 == 1 {
				jobs <- job{k: k, kind: "mutation-applied"}
			}
		}
		// background activities: inside every operation of a result upload after its first one (and inside the operation that follows the
		// upload), and inside every 10th other operation of the compactor proper
		type combo struct{ act, flt string }
		combos := []combo{{"sync", ""}, {"sync+partial-cleanup", ""}, {"clean-marked", ""}, {"sync+partial-cleanup", "attr-listing"}, {"sync+gc", ""}, {"sync", "sync-read"}, {"gc", ""}, {"partial-cleanup", "attr-listing"}}
		inUpload := map[string]bool{}
		pi := 0
		for i, o := range cfOps {
			if o.View != "compactor" {
				continue
			}
			dirName := o.Name
			if x := strings.IndexByte(dirName, '/'); x > 0 {
				dirName = dirName[:x]
			}
			point := false
			switch {
			case o.Kind == "upload" && !env.origIDs[dirName] && (o.Class == "chunks" || o.Class == "index" || o.Class == "meta"):
				point = inUpload[dirName] // not inside the very first operation of the upload: nothing of the block exists yet
				inUpload[dirName] = true
				if o.Class == "meta" {
					inUpload["after:"+dirName] = true
				}
			case i > 0 && cfOps[i-1].Kind == "upload" && cfOps[i-1].Class == "meta" && cfOps[i-1].View == "compactor":
				point = true // right after the result became visible
			}
			if point {
				for ci, cb := range combos {
					if r.Thorough() || (ci+pi)%4 == 0 {
						jobs <- job{k: o.Seq, kind: "background", act: cb.act, flt: cb.flt}
					}
				}
				pi++
			} else if i%20 == c%20 {
				cb := combos[(i/20)%len(combos)]
				jobs <- job{k: o.Seq, kind: "background", act: cb.act, flt: cb.flt}
			}
		}
		// transient faults of the compactor's own reads (the sync reads are C33's): quick every 4th, thorough all
		for k := 1; k <= RC; k++ {
			if r.Thorough() || k%4 == c%4 {
				jobs <- job{k: k, kind: "read"}
			}
		}
		close(jobs)
		wg.Wait()
		t.Logf("set %d: %d crash points, %d mutations and %d compactor reads for transient faults in %v", c, A, M, RC, time.Since(tSet))
	}
	r.Require(int64(nsets*100), nsets*20)
}
