//go:build verif

package compact

import (
	"bytes"
	"context"
	"encoding/json"
	"fmt"
	"io"
	"math/rand"
	"path"
	"sort"
	"strings"
	"testing"

	"github.com/go-kit/log"
	"github.com/oklog/ulid/v2"
	"github.com/prometheus/client_golang/prometheus"
	"github.com/thanos-io/objstore"

	"github.com/thanos-io/thanos/pkg/block"
	"github.com/thanos-io/thanos/pkg/block/metadata"
	"github.com/thanos-io/thanos/pkg/verifhook/vfkit"
)

// ---------------------------------------------------------------------------------------------
// C30 - compaction planning is safe and converges.
//
// The real planners (NewPlanner, WithLargeTotalIndexSizeFilter, WithVerticalCompactionDownsampleFilter)
// are driven through their public Plan method; the no-compact set is delivered the way production
// delivers it (no-compact-mark.json objects read by a real GatherNoCompactionMarkFilter). The
// monitor checks every returned plan and applies it with an independent reference applier until
// the planner returns no plan.
// ---------------------------------------------------------------------------------------------

type vfc30GaugeVec struct{ g prometheus.Gauge }

func (v vfc30GaugeVec) WithLabelValues(...string) prometheus.Gauge { return v.g }

func vfc30NewGaugeVec() vfc30GaugeVec {
	return vfc30GaugeVec{g: prometheus.NewGauge(prometheus.GaugeOpts{Name: "vfc30"})}
}

// vfc30Bkt bounds the bucket work of one Plan call: the size/downsample filters mark each block at most once (one Exists + one Upload),
// so a Plan call that issues more than 8*len(metas)+32 bucket operations makes no progress; from then on every operation fails, which
// ends the planner's loop (logical-step criterion for non-termination, no clock).
type vfc30Bkt struct {
	objstore.Bucket
	ops, limit int
}

func (b *vfc30Bkt) tick() error {
	b.ops++
	if b.ops > b.limit {
		return fmt.Errorf("vfc30: planner exceeded %d bucket operations in one Plan call", b.limit)
	}
	return nil
}

func (b *vfc30Bkt) Exists(ctx context.Context, name string) (bool, error) {
	if err := b.tick(); err != nil {
		return false, err
	}
	return b.Bucket.Exists(ctx, name)
}

func (b *vfc30Bkt) Upload(ctx context.Context, name string, r io.Reader, o ...objstore.ObjectUploadOption) error {
	if err := b.tick(); err != nil {
		return err
	}
	return b.Bucket.Upload(ctx, name, r, o...)
}

type vfc30Block struct {
	ID         string `json:"id"`
	Min        int64  `json:"min"`
	Max        int64  `json:"max"`
	Level      int    `json:"level"`
	Failed     bool   `json:"failed,omitempty"`
	Series     uint64 `json:"series"`
	Tombstones uint64 `json:"tombstones,omitempty"`
	IndexSize  int64  `json:"index_size"`
	NoCompact  bool   `json:"no_compact,omitempty"`
	Produced   bool   `json:"produced,omitempty"`
}

type vfc30Case struct {
	Ranges     []int64      `json:"ranges"`
	Layout     string       `json:"layout"`
	Variant    string       `json:"variant"`
	Resolution int64        `json:"resolution"`
	SizeLimit  int64        `json:"size_limit"`
	Blocks     []vfc30Block `json:"blocks"`
}

func vfc30FloorDiv(a, b int64) int64 {
	q := a / b
	if (a%b != 0) && ((a < 0) != (b < 0)) {
		q--
	}
	return q
}

func vfc30ULID(rng *rand.Rand, ms uint64) ulid.ULID {
	var e [10]byte
	for i := range e {
		e[i] = byte(rng.Intn(256))
	}
	id, err := ulid.New(ms, bytes.NewReader(e[:]))
	if err != nil {
		panic(err)
	}
	return id
}

var vfc30RangeLists = [][]int64{
	// cmd/thanos/compact.go "compactions": 1h, 2h, 8h, 2d, 14d (prefixes = --debug.max-compaction-level)
	{3600000},
	{3600000, 7200000},
	{3600000, 7200000, 28800000},
	{3600000, 7200000, 28800000, 172800000},
	{3600000, 7200000, 28800000, 172800000, 1209600000},
	// the package's own tests
	{1000, 3000},
	{20, 60, 180, 540, 1620},
	{20, 60, 240, 720, 2160},
	// prometheus style exponential ranges
	{7200000, 21600000, 64800000},
	{10, 50},
	{10, 20, 40, 80},
	// ranges that are not multiples of each other
	{20, 50, 120},
	{7, 30},
}

// vfc30Aligned reports whether [min,max) lies inside one window of a configured range.
func vfc30Aligned(ranges []int64, min, max int64) bool {
	for _, r := range ranges {
		if vfc30FloorDiv(min, r)*r+r >= max {
			return true
		}
	}
	return false
}

// vfc30Directed are hand-written layouts executed as the first cases of every run (ids are filled in by the generator).
var vfc30Directed = []vfc30Case{
	// size filter marks X, the re-plan is an overlapping downsampled pair which the vertical filter marks; the next internal re-plan must still exclude X
	{Ranges: []int64{20, 60}, Layout: "directed", Variant: "vertical-downsample-filter", Resolution: 300000, SizeLimit: 130, Blocks: []vfc30Block{
		{Min: 0, Max: 20, Level: 1, Series: 1, IndexSize: 1}, {Min: 20, Max: 40, Level: 1, Series: 1, IndexSize: 1}, {Min: 40, Max: 55, Level: 1, Series: 1, IndexSize: 100},
		{Min: 50, Max: 58, Level: 1, Series: 1, IndexSize: 10}, {Min: 52, Max: 60, Level: 1, Series: 1, IndexSize: 10}, {Min: 60, Max: 80, Level: 1, Series: 1, IndexSize: 1}}},
	// the same layout at raw resolution and with the plain size filter
	{Ranges: []int64{20, 60}, Layout: "directed", Variant: "vertical-downsample-filter", Resolution: 0, SizeLimit: 130, Blocks: []vfc30Block{
		{Min: 0, Max: 20, Level: 1, Series: 1, IndexSize: 1}, {Min: 20, Max: 40, Level: 1, Series: 1, IndexSize: 1}, {Min: 40, Max: 55, Level: 1, Series: 1, IndexSize: 100},
		{Min: 50, Max: 58, Level: 1, Series: 1, IndexSize: 10}, {Min: 52, Max: 60, Level: 1, Series: 1, IndexSize: 10}, {Min: 60, Max: 80, Level: 1, Series: 1, IndexSize: 1}}},
	{Ranges: []int64{20, 60}, Layout: "directed", Variant: "size-filter", Resolution: 0, SizeLimit: 130, Blocks: []vfc30Block{
		{Min: 0, Max: 20, Level: 1, Series: 1, IndexSize: 1}, {Min: 20, Max: 40, Level: 1, Series: 1, IndexSize: 1}, {Min: 40, Max: 55, Level: 1, Series: 1, IndexSize: 100},
		{Min: 50, Max: 58, Level: 1, Series: 1, IndexSize: 10}, {Min: 52, Max: 60, Level: 1, Series: 1, IndexSize: 10}, {Min: 60, Max: 80, Level: 1, Series: 1, IndexSize: 1}}},
	// excluded block in the middle of a full window, newest block excluded, tombstoned old block
	{Ranges: []int64{20, 60, 180}, Layout: "directed", Variant: "tsdb", Blocks: []vfc30Block{
		{Min: 0, Max: 20, Level: 1, Series: 10, IndexSize: 1}, {Min: 20, Max: 40, Level: 1, Series: 10, IndexSize: 1, NoCompact: true}, {Min: 40, Max: 60, Level: 1, Series: 10, IndexSize: 1},
		{Min: 60, Max: 120, Level: 2, Series: 10, Tombstones: 5, IndexSize: 1}, {Min: 120, Max: 140, Level: 1, Series: 10, IndexSize: 1, NoCompact: true}}},
}

func vfc30Gen(rng *rand.Rand, idx int) vfc30Case {
	if idx < len(vfc30Directed) {
		d := vfc30Directed[idx]
		d.Blocks = append([]vfc30Block(nil), d.Blocks...)
		for i := range d.Blocks {
			d.Blocks[i].ID = vfc30ULID(rng, uint64(1_600_000_000_000+i)).String()
		}
		return d
	}
	c := vfc30Case{}
	c.Ranges = vfc30RangeLists[rng.Intn(len(vfc30RangeLists))]
	c.Layout = vfkit.Pick(rng, []string{"aligned", "aligned", "aligned", "misaligned", "overlapping", "overlapping"})
	c.Variant = vfkit.Pick(rng, []string{"tsdb", "tsdb", "size-filter", "vertical-downsample-filter"})
	if c.Variant == "vertical-downsample-filter" && rng.Intn(2) == 0 {
		c.Resolution = 300000
	}
	n := 1 + rng.Intn(14)
	base := c.Ranges[0]
	largest := c.Ranges[len(c.Ranges)-1]
	// start somewhere on the timeline, sometimes before the epoch (splitByRange has a negative branch)
	p := (rng.Int63n(40) - 10) * base
	if rng.Intn(4) == 0 {
		p = vfc30FloorDiv(p, largest) * largest
	}
	pNoCompact := vfkit.Pick(rng, []float64{0, 0, 0.1, 0.25})
	pTomb := vfkit.Pick(rng, []float64{0, 0.15, 0.4})
	pFailed := vfkit.Pick(rng, []float64{0, 0, 0.08})
	pGap := vfkit.Pick(rng, []float64{0, 0.15, 0.4})
	mk := func(min, max int64, level int) vfc30Block {
		b := vfc30Block{Min: min, Max: max, Level: level}
		b.ID = vfc30ULID(rng, uint64(1_600_000_000_000+rng.Int63n(1_000_000))).String()
		b.Series = uint64(rng.Intn(100))
		if rng.Float64() < pTomb {
			b.Tombstones = uint64(rng.Intn(int(b.Series)*2 + 3))
		}
		b.Failed = rng.Float64() < pFailed
		b.NoCompact = rng.Float64() < pNoCompact
		b.IndexSize = 1 + rng.Int63n(100)
		return b
	}
	for len(c.Blocks) < n {
		if rng.Float64() < pGap {
			p += int64(1+rng.Intn(5)) * base
		}
		switch c.Layout {
		case "aligned", "overlapping":
			// small ranges are far more common than big ones, as in a real bucket
			li := 0
			for li+1 < len(c.Ranges) && rng.Intn(3) == 0 {
				li++
			}
			r := c.Ranges[li]
			w := vfc30FloorDiv(p, r) * r
			lo, hi := p, w+r
			if hi-lo < 1 {
				p = hi
				continue
			}
			min, max := lo, hi
			if rng.Intn(4) == 0 && hi-lo > 1 {
				min = lo + rng.Int63n(hi-lo)
			}
			if rng.Intn(4) == 0 && hi-min > 1 {
				max = min + 1 + rng.Int63n(hi-min)
			}
			c.Blocks = append(c.Blocks, mk(min, max, li+1))
			p = max
		case "misaligned":
			ln := 1 + rng.Int63n(2*base)
			if rng.Intn(5) == 0 {
				ln = 1 + rng.Int63n(2*largest)
			}
			min := p + rng.Int63n(base)
			c.Blocks = append(c.Blocks, mk(min, min+ln, 1+rng.Intn(3)))
			p = min + ln
		}
	}
	if c.Layout == "overlapping" {
		// add 1..3 blocks that overlap existing ones: replicas (same range), shifted, contained, containing
		k := 1 + rng.Intn(3)
		for i := 0; i < k; i++ {
			o := c.Blocks[rng.Intn(len(c.Blocks))]
			var b vfc30Block
			switch rng.Intn(4) {
			case 0:
				b = mk(o.Min, o.Max, o.Level)
			case 1:
				d := 1 + rng.Int63n(o.Max-o.Min)
				b = mk(o.Min+d-(o.Max-o.Min)/2, o.Max+d-(o.Max-o.Min)/2, o.Level)
			case 2:
				if o.Max-o.Min >= 3 {
					b = mk(o.Min+1, o.Max-1, o.Level)
				} else {
					b = mk(o.Min, o.Max, o.Level)
				}
			default:
				b = mk(o.Min-rng.Int63n(2*base), o.Max+rng.Int63n(2*base), o.Level+1)
			}
			if b.Max <= b.Min {
				b.Max = b.Min + 1
			}
			c.Blocks = append(c.Blocks, b)
		}
	}
	c.SizeLimit = 50 + rng.Int63n(2000)
	sort.SliceStable(c.Blocks, func(i, j int) bool { return c.Blocks[i].Min < c.Blocks[j].Min })
	return c
}

func vfc30Meta(b vfc30Block, res int64) *metadata.Meta {
	m := &metadata.Meta{}
	m.Version = 1
	m.ULID = ulid.MustParse(b.ID)
	m.MinTime, m.MaxTime = b.Min, b.Max
	m.Compaction.Level = b.Level
	m.Compaction.Sources = []ulid.ULID{m.ULID}
	m.Compaction.Failed = b.Failed
	m.Stats.NumSeries = b.Series
	m.Stats.NumTombstones = b.Tombstones
	m.Thanos.Labels = map[string]string{"e": "1"}
	m.Thanos.Downsample.Resolution = res
	m.Thanos.Files = []metadata.File{{RelPath: "chunks/000001", SizeBytes: 10}, {RelPath: block.IndexFilename, SizeBytes: b.IndexSize}, {RelPath: "meta.json"}}
	return m
}

// vfc30Overlapping reports whether a MinTime-sorted list has two blocks sharing an instant.
func vfc30Overlapping(bs []vfc30Block) (int, int, bool) {
	for i := range bs {
		for j := i + 1; j < len(bs); j++ {
			if bs[j].Min >= bs[i].Max {
				continue
			}
			if bs[i].Min < bs[j].Max && bs[j].Min < bs[i].Max {
				return i, j, true
			}
		}
	}
	return 0, 0, false
}

func vfc30NoCompactInBucket(ctx context.Context, bkt *objstore.InMemBucket) map[string]bool {
	out := map[string]bool{}
	for name := range bkt.Objects() {
		if strings.HasSuffix(name, "/"+metadata.NoCompactMarkFilename) {
			out[path.Dir(name)] = true
		}
	}
	return out
}

func TestVF_C30(t *testing.T) {
	r := vfkit.Start(t, "C30")
	defer r.Finish()
	r.Rule("case = one compaction group of 1..17 block metas (aligned to windows of the configured ranges / misaligned / with overlapping replicas, shifted, nested blocks; gaps, " +
		"failed-compaction flags, tombstone stats, index sizes, no-compact-mark.json objects read by the real GatherNoCompactionMarkFilter) x range list (13 lists incl. the production 1h..14d prefixes) x " +
		"planner {NewPlanner, WithLargeTotalIndexSizeFilter, WithVerticalCompactionDownsampleFilter}; the public Plan is called, each plan is checked and applied by a reference applier " +
		"(merge: min/max time, level+1, tombstones 0) until no plan is returned; oracle: plan members are distinct input blocks, >=2 or one block with tombstones, none no-compact marked (before or during the call), " +
		"for non-overlapping aligned input the newest block is excluded and the plan fits one window of a configured range; the loop ends within len+#tombstoned steps; at the fixpoint the not-excluded blocks do not overlap " +
		"and (aligned non-overlapping input) none is longer than the largest range; distinct = hash of the whole case; non-trivial = at least one non-empty plan")
	n := r.N(20000, 600000)
	r.Require(int64(n), n/3)
	r.Assume("Plan's documented precondition: metas of one group, sorted by MinTime, at least one meta, MaxTime > MinTime")
	r.Assume("'many tombstones' is asserted in its weakest form: a single-block plan needs NumTombstones > 0")
	r.Assume("no-compact marked blocks are outside the final non-overlap claim (they are excluded from planning by design)")
	r.Assume("the length bound of the final blocks is asserted for aligned non-overlapping input only; vertical compaction of overlapping input legitimately spans the union of its sources")
	ctx := context.Background()
	logger := log.NewNopLogger()
	for c := 0; c < n; c++ {
		if !r.Want(c) {
			continue
		}
		rng := r.Rand(c)
		cs := vfc30Gen(rng, c)
		r.Guard(c, "planner", cs, func() { vfc30Run(ctx, r, c, rng, cs, logger) })
	}
}

func vfc30Run(ctx context.Context, r *vfkit.Run, c int, rng *rand.Rand, cs vfc30Case, logger log.Logger) {
	mem := objstore.NewInMemBucket()
	ibkt := objstore.WithNoopInstr(mem)
	for _, b := range cs.Blocks {
		if b.NoCompact {
			mk, _ := json.Marshal(metadata.NoCompactMark{ID: ulid.MustParse(b.ID), Version: metadata.NoCompactMarkVersion1, Reason: metadata.ManualNoCompactReason})
			if err := mem.Upload(ctx, path.Join(b.ID, metadata.NoCompactMarkFilename), bytes.NewReader(mk)); err != nil {
				r.T.Fatalf("setup: %v", err)
			}
		}
	}
	ncFilter := NewGatherNoCompactionMarkFilter(logger, ibkt, 2)
	counter := prometheus.NewCounter(prometheus.CounterOpts{Name: "vfc30c"})
	base := NewPlanner(logger, cs.Ranges, ncFilter)
	pbkt := &vfc30Bkt{Bucket: mem}
	var planner Planner = base
	switch cs.Variant {
	case "size-filter":
		planner = WithLargeTotalIndexSizeFilter(base, pbkt, cs.SizeLimit, counter)
	case "vertical-downsample-filter":
		planner = WithVerticalCompactionDownsampleFilter(WithLargeTotalIndexSizeFilter(base, pbkt, cs.SizeLimit, counter), pbkt, counter)
	}

	largest := cs.Ranges[len(cs.Ranges)-1]
	cur := append([]vfc30Block(nil), cs.Blocks...)
	_, _, initOverlap := vfc30Overlapping(cur)
	initAligned := true
	tomb := 0
	for _, b := range cur {
		if !vfc30Aligned(cs.Ranges, b.Min, b.Max) {
			initAligned = false
		}
		if b.Tombstones > 0 {
			tomb++
		}
	}
	bound := len(cur) + tomb + 1
	gv := vfc30NewGaugeVec()
	var history []map[string]any
	wit := func(extra map[string]any) map[string]any {
		m := map[string]any{"case": cs, "history": history}
		for k, v := range extra {
			m[k] = v
		}
		return m
	}
	nonEmptyPlans := 0
	converged := false
	for step := 0; step <= bound; step++ {
		// a sync: the real filter gathers the no-compact marks of the current blocks from the bucket
		metas := make([]*metadata.Meta, len(cur))
		metaMap := map[ulid.ULID]*metadata.Meta{}
		byID := map[string]int{}
		for i, b := range cur {
			metas[i] = vfc30Meta(b, cs.Resolution)
			metaMap[metas[i].ULID] = metas[i]
			byID[b.ID] = i
		}
		if err := ncFilter.Filter(ctx, metaMap, gv, gv); err != nil {
			r.T.Fatalf("no-compact filter: %v", err)
		}
		before := ncFilter.NoCompactMarkedBlocks()
		pbkt.ops, pbkt.limit = 0, 8*len(metas)+32
		plan, err := planner.Plan(ctx, metas, nil, nil)
		r.Eval(1)
		if pbkt.ops > pbkt.limit {
			r.Violation(c, "plan:does-not-terminate", fmt.Sprintf("one Plan call over %d metas issued more than %d bucket operations (each block can be marked at most once): the planner's re-plan loop makes no progress (%s, %s)", len(metas), pbkt.limit, cs.Variant, cs.Layout),
				wit(map[string]any{"step": step, "blocks": cur}))
			return
		}
		if err != nil {
			r.Violation(c, "plan:error", fmt.Sprintf("Plan returned an error on valid metas: %v", err), wit(map[string]any{"step": step, "blocks": cur}))
			return
		}
		after := vfc30NoCompactInBucket(ctx, mem)
		_, _, curOverlap := vfc30Overlapping(cur)
		curAligned := true
		for _, b := range cur {
			if !vfc30Aligned(cs.Ranges, b.Min, b.Max) {
				curAligned = false
			}
		}
		var planIDs []string
		for _, p := range plan {
			planIDs = append(planIDs, p.ULID.String())
		}
		history = append(history, map[string]any{"step": step, "blocks": cur, "plan": planIDs})
		w := func() map[string]any { return wit(map[string]any{"step": step, "blocks": cur, "plan": planIDs}) }

		if len(plan) == 0 {
			converged = true
			break
		}
		nonEmptyPlans++
		// (1) members are distinct blocks of the input
		seen := map[string]bool{}
		for _, id := range planIDs {
			if _, ok := byID[id]; !ok {
				r.Violation(c, "plan:block-not-in-input", fmt.Sprintf("plan names %s which is not among the group's metas (%s, %s)", id, cs.Variant, cs.Layout), w())
				return
			}
			if seen[id] {
				r.Violation(c, "plan:duplicate-block", fmt.Sprintf("plan names %s twice (%s, %s)", id, cs.Variant, cs.Layout), w())
				return
			}
			seen[id] = true
		}
		// (2) at least two, or one block with tombstones
		if len(plan) == 1 && cur[byID[planIDs[0]]].Tombstones == 0 {
			r.Violation(c, "plan:single-block-without-tombstones", fmt.Sprintf("plan consists of the single block %s that has no tombstones (%s, %s)", planIDs[0], cs.Variant, cs.Layout), w())
			return
		}
		// (3) nothing that is marked no-compact, neither before the call nor by the planner itself during the call
		for _, id := range planIDs {
			if _, ok := before[ulid.MustParse(id)]; ok {
				r.Violation(c, "plan:includes-no-compact-marked", fmt.Sprintf("plan includes %s which carries a no-compact mark (%s, %s)", id, cs.Variant, cs.Layout), w())
				return
			}
			if after[id] {
				r.Violation(c, "plan:includes-block-marked-during-planning", fmt.Sprintf("plan includes %s which the planner itself marked no-compact in this call (%s, %s)", id, cs.Variant, cs.Layout), w())
				return
			}
		}
		// (4) non-overlapping aligned input: never the newest block, always inside one window of a configured range
		pmin, pmax := cur[byID[planIDs[0]]].Min, cur[byID[planIDs[0]]].Max
		for _, id := range planIDs {
			b := cur[byID[id]]
			if b.Min < pmin {
				pmin = b.Min
			}
			if b.Max > pmax {
				pmax = b.Max
			}
		}
		if !curOverlap && curAligned {
			r.Count("plans_on_aligned_nonoverlapping_input", 1)
			newest := cur[len(cur)-1].ID
			if seen[newest] {
				r.Violation(c, "plan:includes-newest-block", fmt.Sprintf("plan over non-overlapping aligned blocks includes the newest block %s (%s)", newest, cs.Variant), w())
				return
			}
			if !vfc30Aligned(cs.Ranges, pmin, pmax) {
				r.Violation(c, "plan:exceeds-one-range-window", fmt.Sprintf("plan over non-overlapping aligned blocks spans [%d,%d) which fits no window of ranges %v (%s)", pmin, pmax, cs.Ranges, cs.Variant), w())
				return
			}
		} else {
			r.Count("plans_on_other_input", 1)
		}
		if len(plan) == 1 {
			r.Count("single_block_tombstone_plans", 1)
		}
		// reference applier
		merged := vfc30Block{Min: pmin, Max: pmax, Produced: true, IndexSize: 0}
		merged.ID = vfc30ULID(rng, uint64(1_700_000_000_000+int64(step))).String()
		var next []vfc30Block
		for _, b := range cur {
			if seen[b.ID] {
				if b.Level+1 > merged.Level {
					merged.Level = b.Level + 1
				}
				if b.Series > merged.Series {
					merged.Series = b.Series
				}
				merged.IndexSize += b.IndexSize
				continue
			}
			next = append(next, b)
		}
		next = append(next, merged)
		sort.SliceStable(next, func(i, j int) bool { return next[i].Min < next[j].Min })
		for i := range next {
			next[i].NoCompact = after[next[i].ID]
		}
		cur = next
	}
	if nonEmptyPlans > 0 {
		b, _ := json.Marshal(cs)
		r.Distinct(string(b))
	}
	r.Sample(map[string]any{"ranges": cs.Ranges, "layout": cs.Layout, "variant": cs.Variant, "blocks": len(cs.Blocks), "plans_applied": nonEmptyPlans, "final_blocks": len(cur)})
	r.Eval(1)
	if !converged {
		r.Violation(c, "converge:step-bound-exceeded", fmt.Sprintf("plan/apply did not reach a fixpoint within %d steps for %d blocks with %d tombstoned (%s, %s)", bound, len(cs.Blocks), tomb, cs.Variant, cs.Layout), wit(nil))
		return
	}
	// fixpoint: the blocks that take part in planning do not overlap
	var active []vfc30Block
	marks := vfc30NoCompactInBucket(ctx, mem)
	for _, b := range cur {
		if !marks[b.ID] {
			active = append(active, b)
		}
	}
	if i, j, ov := vfc30Overlapping(active); ov {
		r.Violation(c, "final:overlapping-blocks", fmt.Sprintf("planner returns no plan although %s [%d,%d) and %s [%d,%d) overlap and neither is marked no-compact (%s)",
			active[i].ID, active[i].Min, active[i].Max, active[j].ID, active[j].Min, active[j].Max, cs.Variant), wit(map[string]any{"final": cur}))
		return
	}
	if !initOverlap && initAligned {
		r.Count("aligned_histories", 1)
		for _, b := range cur {
			if b.Max-b.Min > largest {
				r.Violation(c, "final:block-longer-than-largest-range", fmt.Sprintf("aligned non-overlapping input ends with block %s of length %d > largest range %d (%s)", b.ID, b.Max-b.Min, largest, cs.Variant), wit(map[string]any{"final": cur}))
				return
			}
		}
	}
}
