//go:build verif

package compact

import (
	"bytes"
	"context"
	"encoding/json"
	"fmt"
	"math/rand"
	"path"
	"strings"
	"testing"
	"time"

	"github.com/oklog/ulid/v2"
	"github.com/thanos-io/objstore"

	"github.com/thanos-io/thanos/pkg/block/metadata"
)

// Block-set generator shared by C29 and C33: tiny real blocks (1..3 series, 2..4 samples) so that a
// whole compaction cycle takes a fraction of a second.

var vfcrigAllKinds = []string{"aligned", "replicas", "vertical-shifted", "multi-result", "tombstoned-block", "no-compact", "empty-block", "two-groups", "replicas-penalty"}

func vfcrigGenSet(rng *rand.Rand, idx int) vfcrigSet { return vfcrigGenSetOf(rng, idx, vfcrigAllKinds) }

func vfcrigGenSetOf(rng *rand.Rand, idx int, variants []string) vfcrigSet {
	ext := map[string]string{"e": "1"}
	set := vfcrigSet{Ranges: []int64{1000, 3000}}
	if rng.Intn(3) == 0 {
		set.Ranges = []int64{1000, 3000, 9000}
	}
	pickSeries := func() []int {
		switch rng.Intn(4) {
		case 0:
			return []int{1}
		case 1:
			return []int{1, 2}
		case 2:
			return []int{2, 3}
		}
		return []int{1, 2, 3}
	}
	start := int64(rng.Intn(2)) * 3000
	k := 4 // three blocks fill one 3000 window, the fourth is the newest block the planner leaves alone
	if rng.Intn(4) == 0 {
		k = 5
	}
	// variant is chosen round-robin so that every kind of pending work occurs in every run
	v := variants[idx%len(variants)]
	set.Name = fmt.Sprintf("%s/k=%d/start=%d/ranges=%v", v, k, start, set.Ranges)
	emptyAt := -1
	if v == "empty-block" {
		emptyAt = 1
	}
	for i := 0; i < k; i++ {
		sp := vfcrigSpec{Min: start + int64(i)*1000, Max: start + int64(i+1)*1000, Series: pickSeries(), Samples: 2 + rng.Intn(3), Ext: ext}
		if i == emptyAt {
			sp.Empty = true
		}
		set.Specs = append(set.Specs, sp)
	}
	switch v {
	case "multi-result":
		// four blocks fill one 4000 window, the fifth is the newest; the compactor wrapper hands back two result blocks for the plan of four
		set.MultiResult = true
		set.Ranges = []int64{1000, 4000}
		set.Specs = nil
		for i := 0; i < 5; i++ {
			set.Specs = append(set.Specs, vfcrigSpec{Min: int64(i) * 1000, Max: int64(i+1) * 1000, Series: pickSeries(), Samples: 2 + rng.Intn(3), Ext: ext})
		}
		set.Name = "multi-result/k=5/ranges=[1000 4000]"
	case "tombstoned-block":
		// an old block spanning a whole window that reports tombstones: the planner compacts it on its own (single-block plan)
		set.Ranges = []int64{1000, 3000}
		set.Specs = []vfcrigSpec{
			{Min: 0, Max: 3000, Series: []int{1, 2}, Samples: 4, Ext: ext, Tombstones: 3},
			{Min: 3000, Max: 6000, Series: pickSeries(), Samples: 3, Ext: ext},
			{Min: 6000, Max: 9000, Series: pickSeries(), Samples: 3, Ext: ext},
		}
		set.Name = "tombstoned-block"
	case "replicas", "replicas-penalty":
		// two replica streams of the same data: identical blocks under r=a and r=b, deduplicated by vertical compaction
		set.ReplicaLabels = []string{"r"}
		set.Vertical = true
		set.Penalty = v == "replicas-penalty"
		n := len(set.Specs)
		for i := 0; i < n; i++ {
			a := set.Specs[i]
			a.Ext = map[string]string{"e": "1", "r": "a"}
			b := a
			b.Ext = map[string]string{"e": "1", "r": "b"}
			set.Specs[i] = a
			if i < 1 || (i < 2 && k == 5) {
				set.Specs = append(set.Specs, b)
			}
		}
	case "vertical-shifted":
		// a block overlapping two aligned ones in time (different sample timestamps), same group
		set.Vertical = true
		set.Specs = append(set.Specs, vfcrigSpec{Min: start + 500, Max: start + 1500, Series: []int{2, 4}, Samples: 4, Ext: ext})
		for i := range set.Specs[:k] {
			set.Specs[i].Samples = 4
		}
	case "no-compact":
		set.Specs[0].NoCompact = true
	case "two-groups":
		for i := 0; i < 3; i++ {
			set.Specs = append(set.Specs, vfcrigSpec{Min: int64(i) * 1000, Max: int64(i+1) * 1000, Series: pickSeries(), Samples: 2, Ext: map[string]string{"e": "2"}})
		}
	}
	return set
}

// vfcrigAddPendingCleanup adds a complete block whose deletion mark is older than any delete delay used here and an old
// partial upload (no meta.json, ULID and objects older than the abort threshold), so that the cleaner and the partial-upload
// cleanup have work.
func vfcrigAddPendingCleanup(ctx context.Context, t testing.TB, core *vfcfbCore, rng *rand.Rand) (marked, partial ulid.ULID) {
	now := time.Now()
	bkt := core.view("setup", false)
	marked = vfcfbULID(rng, uint64(now.Add(-100*time.Hour).UnixMilli()))
	var m metadata.Meta
	m.Version = 1
	m.ULID = marked
	m.MinTime, m.MaxTime = 100000, 101000
	m.Compaction.Level = 1
	m.Compaction.Sources = []ulid.ULID{marked}
	m.Thanos.Labels = map[string]string{"e": "9"}
	var buf bytes.Buffer
	if err := json.NewEncoder(&buf).Encode(&m); err != nil {
		t.Fatalf("rig: %v", err)
	}
	must := func(err error) {
		if err != nil {
			t.Fatalf("rig: %v", err)
		}
	}
	must(bkt.Upload(ctx, path.Join(marked.String(), "index"), strings.NewReader("idx")))
	must(bkt.Upload(ctx, path.Join(marked.String(), "chunks", "000001"), strings.NewReader("chk")))
	must(bkt.Upload(ctx, path.Join(marked.String(), metadata.MetaFilename), &buf))
	mk, _ := json.Marshal(metadata.DeletionMark{ID: marked, Version: metadata.DeletionMarkVersion1, DeletionTime: now.Add(-99 * time.Hour).Unix()})
	must(bkt.Upload(ctx, path.Join(marked.String(), metadata.DeletionMarkFilename), bytes.NewReader(mk)))

	partial = vfcfbULID(rng, uint64(now.Add(-100*time.Hour).UnixMilli()))
	for _, n := range []string{path.Join(partial.String(), "index"), path.Join(partial.String(), "chunks", "000001")} {
		must(bkt.Upload(ctx, n, strings.NewReader("x")))
		core.setLastModified(n, now.Add(-99*time.Hour))
	}
	return marked, partial
}

// vfcrigCopyLastMod carries the served LastModified overrides over to a restored core.
func vfcrigCopyLastMod(from, to *vfcfbCore) {
	from.mu.Lock()
	defer from.mu.Unlock()
	for k, v := range from.lastMod {
		to.lastMod[k] = v
	}
}

var _ = objstore.NewInMemBucket
