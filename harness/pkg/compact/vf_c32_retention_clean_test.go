//go:build verif

package compact

import (
	"bytes"
	"context"
	"encoding/json"
	"fmt"
	"math"
	"math/big"
	"math/rand"
	"path"
	"sort"
	"strings"
	"testing"
	"time"

	"github.com/go-kit/log"
	"github.com/oklog/ulid/v2"
	"github.com/prometheus/client_golang/prometheus"
	"github.com/thanos-io/objstore"

	"github.com/thanos-io/thanos/pkg/block"
	"github.com/thanos-io/thanos/pkg/block/metadata"
	"github.com/thanos-io/thanos/pkg/verifhook/vfkit"
)

// ---------------------------------------------------------------------------------------------
// C32 - blocks are deleted only when retention and delays allow it.
//
// The three mechanisms read time.Now() themselves. Every call is bracketed by t0 (before) and t1
// (after); only the one-directional claims of the property are asserted, each with t1, the latest
// instant the code can have read: if even at t1 the block was not old enough, no scheduling delay
// can explain the destructive action. Offsets are placed around each boundary; a slow machine can
// only make the monitor miss, never alarm.
// ---------------------------------------------------------------------------------------------

var vfc32Offsets = []time.Duration{
	0, time.Millisecond, -time.Millisecond, 400 * time.Millisecond, -400 * time.Millisecond, 999 * time.Millisecond, -999 * time.Millisecond,
	time.Second, -time.Second, 2 * time.Second, -2 * time.Second, time.Hour, -time.Hour, 30 * time.Millisecond, -30 * time.Millisecond,
}

func vfc32Counter() prometheus.Counter {
	return prometheus.NewCounter(prometheus.CounterOpts{Name: "vfc32"})
}

// vfc32ClockOK reports whether wall clock and monotonic clock advanced alike between t0 and t1
// (a stepped wall clock would invalidate the bracket; such a case is skipped).
func vfc32ClockOK(t0, t1 time.Time) bool {
	wall := time.Duration(t1.UnixNano() - t0.UnixNano())
	mono := t1.Sub(t0)
	d := wall - mono
	if d < 0 {
		d = -d
	}
	return d <= 2*time.Millisecond
}

func vfc32Early(by time.Duration) string {
	if by < time.Second {
		return "early-by-less-than-1s"
	}
	return "early-by-1s-or-more"
}

func vfc32PutMeta(ctx context.Context, bkt objstore.Bucket, id ulid.ULID, mint, maxt, res int64) error {
	var m metadata.Meta
	m.Version = 1
	m.ULID = id
	m.MinTime, m.MaxTime = mint, maxt
	m.Compaction.Level = 1
	m.Compaction.Sources = []ulid.ULID{id}
	m.Thanos.Labels = map[string]string{"e": "1"}
	m.Thanos.Downsample.Resolution = res
	var buf bytes.Buffer
	if err := json.NewEncoder(&buf).Encode(&m); err != nil {
		return err
	}
	return bkt.Upload(ctx, path.Join(id.String(), metadata.MetaFilename), &buf)
}

func vfc32PutMark(ctx context.Context, bkt objstore.Bucket, id ulid.ULID, deletionTime int64) error {
	b, _ := json.Marshal(metadata.DeletionMark{ID: id, Version: metadata.DeletionMarkVersion1, DeletionTime: deletionTime, Details: "vf"})
	return bkt.Upload(ctx, path.Join(id.String(), metadata.DeletionMarkFilename), bytes.NewReader(b))
}

func vfc32Objects(mem *objstore.InMemBucket, id ulid.ULID) []string {
	var out []string
	for name := range mem.Objects() {
		if strings.HasPrefix(name, id.String()+"/") {
			out = append(out, name)
		}
	}
	sort.Strings(out)
	return out
}

func TestVF_C32(t *testing.T) {
	r := vfkit.Start(t, "C32")
	defer r.Finish()
	r.Rule("three drivers on the fault bucket, each call bracketed by t0/t1 and judged with t1 (one-directional, load can only hide, never alarm): " +
		"(A) ApplyRetentionPolicyByResolution on 1..8 metas x 3 resolutions x retention {0, 1h..365d, whole seconds or with a ms part}, block MaxTime placed at now-retention+offset with offset in +-{0,1ms,30ms,400ms,999ms,1s,2s,1h} and with a controlled ms fraction of 999, plus far-past / far-future / sentinel MaxTime values (now +-10..1000 years, 0, -1, MaxInt64, MinInt64 and fractions; exact big-integer oracle); marked => t1-(MaxTime-1ms) > retention, retention 0 => never marked; " +
		"(B) BlocksCleaner.DeleteMarkedBlocks behind a real MetaFetcher+IgnoreDeletionMarkFilter on 1..6 blocks with/without deletion marks whose DeletionTime is now-delay+k seconds (k in +-{0,1,2,3600}, future marks), delete delay {0,1s,30m,2h,48h}; any object removed => the block had a mark and t1-DeletionTime > delay; " +
		"(C) BestEffortCleanAbortedPartialUploads on 1..6 partial/complete blocks whose objects get served LastModified = now-threshold+offset (or no LastModified at all -> ULID time; or an attribute listing of the block that fails before / after 1 / after 2 entries while plain Iter/Get/Delete work -> ULID time), with/without deletion marks, arguments taken from the real fetcher/filter or passed directly; removed => block was partial, not in the given deletion-mark set, t1-last touch > PartialUploadThresholdAge; " +
		"distinct = hash of (driver, configuration, offset, ms fraction); non-trivial = finite retention / marked block / partial block")
	n := r.N(700, 80000)
	r.Require(int64(3*n), n)
	r.Assume("wall clock does not step between t0 and t1 (checked against the monotonic clock; a stepped case is skipped and counted)")
	r.Assume("a deletion mark's age is measured from the DeletionTime recorded in the mark (whole seconds)")
	r.Assume("'scheduled for deletion' = member of the deletion-mark set handed to the partial-upload cleaner (production: IgnoreDeletionMarkFilter.DeletionMarkBlocks)")
	r.Assume("when the bucket serves no LastModified the documented fallback (ULID time) is the block's last touch")
	ctx := context.Background()
	logger := log.NewNopLogger()
	for c := 0; c < n; c++ {
		if !r.Want(c) {
			continue
		}
		rng := r.Rand(c)
		r.Guard(c, "retention", nil, func() { vfc32Retention(ctx, r, c, rng, logger) })
		r.Guard(c, "cleaner", nil, func() { vfc32Cleaner(ctx, r, c, rng, logger) })
		r.Guard(c, "partial", nil, func() { vfc32Partial(ctx, r, c, rng, logger) })
	}
}

// ---- (A) retention ---------------------------------------------------------------------------

type vfc32RetBlock struct {
	ID          string `json:"id"`
	Resolution  int64  `json:"resolution"`
	MaxTime     int64  `json:"max_time_ms"`
	RetentionNs int64  `json:"retention_ns"`
	OffsetNs    int64  `json:"offset_ns"`
	Far         string `json:"far_value,omitempty"`
	Marked      bool   `json:"marked"`
}

var vfc32FarNames = []string{"now-10y", "now-50y", "now-200y", "now-291y", "now-293y", "now-300y", "now-412y", "now-500y", "now-585y", "now-1000y",
	"now+10y", "now+50y", "now+200y", "now+291y", "now+293y", "now+300y", "now+412y", "now+500y", "now+584y", "now+585y", "now+1000y",
	"epoch", "minus-one", "max-int64", "min-int64", "max-int64/1000", "min-int64/1000", "max-int64/1000000", "now+1h", "now+1ms"}

// vfc32Far maps a name to a MaxTime in milliseconds.
func vfc32Far(name string, nowMs int64) int64 {
	const yearMs = int64(365.25 * 24 * 3600 * 1000)
	switch name {
	case "epoch":
		return 0
	case "minus-one":
		return -1
	case "max-int64":
		return math.MaxInt64
	case "min-int64":
		return math.MinInt64
	case "max-int64/1000":
		return math.MaxInt64 / 1000
	case "min-int64/1000":
		return math.MinInt64 / 1000
	case "max-int64/1000000":
		return math.MaxInt64 / 1000000
	case "now+1h":
		return nowMs + 3600000
	case "now+1ms":
		return nowMs + 1
	}
	var y int64
	var sign byte
	fmt.Sscanf(name, "now%c%dy", &sign, &y)
	if sign == '-' {
		return nowMs - y*yearMs
	}
	return nowMs + y*yearMs
}

func vfc32Retention(ctx context.Context, r *vfkit.Run, c int, rng *rand.Rand, logger log.Logger) {
	core := vfcfbNew()
	bkt := core.view("compactor", false)
	resolutions := []int64{0, 300000, 3600000}
	ret := map[ResolutionLevel]time.Duration{}
	for _, res := range resolutions {
		if rng.Intn(4) == 0 {
			ret[ResolutionLevel(res)] = 0
			continue
		}
		d := vfkit.Pick(rng, []time.Duration{time.Hour, 6 * time.Hour, 24 * time.Hour, 30 * 24 * time.Hour, 365 * 24 * time.Hour})
		if rng.Intn(3) == 0 {
			d += time.Duration(rng.Intn(1000)) * time.Millisecond
		}
		ret[ResolutionLevel(res)] = d
	}
	nb := 1 + rng.Intn(8)
	metas := map[ulid.ULID]*metadata.Meta{}
	var blocks []*vfc32RetBlock
	t0 := time.Now()
	t0ms := t0.UnixMilli()
	for i := 0; i < nb; i++ {
		res := resolutions[rng.Intn(3)]
		R := ret[ResolutionLevel(res)]
		off := vfc32Offsets[rng.Intn(len(vfc32Offsets))]
		var maxT int64
		far := ""
		switch {
		case R != 0 && rng.Intn(5) == 0:
			// far past / far future / sentinel MaxTime values: the ages involved do not fit a time.Duration (int64 nanoseconds, +-292 years)
			far = vfkit.Pick(rng, vfc32FarNames)
			maxT = vfc32Far(far, t0ms)
		case R == 0:
			maxT = t0ms - rng.Int63n(int64(10*365*24*time.Hour/time.Millisecond))
		case rng.Intn(3) == 0:
			// controlled: the block is NOT yet expired (0 < offset <= 1000 ms) and MaxTime ends in .999 s
			base := t0ms - R.Milliseconds()
			o := (999 - (base % 1000) + 1000) % 1000
			if o == 0 {
				o = 1000
			}
			off = time.Duration(o) * time.Millisecond
			maxT = base + o
		default:
			maxT = t0ms - R.Milliseconds() + off.Milliseconds()
		}
		id := vfc32ULID(rng, uint64(t0ms))
		m := &metadata.Meta{}
		m.Version = 1
		m.ULID = id
		m.MaxTime = maxT
		m.MinTime = maxT - 7200000
		m.Thanos.Downsample.Resolution = res
		m.Thanos.Labels = map[string]string{"e": "1"}
		metas[id] = m
		blocks = append(blocks, &vfc32RetBlock{ID: id.String(), Resolution: res, MaxTime: maxT, RetentionNs: int64(R), OffsetNs: int64(off), Far: far})
	}
	err := ApplyRetentionPolicyByResolution(ctx, logger, bkt, metas, ret, vfc32Counter())
	t1 := time.Now()
	if err != nil {
		r.T.Fatalf("retention on in-memory bucket failed: %v", err)
	}
	if !vfc32ClockOK(t0, t1) {
		r.Count("clock_step_skipped", 1)
		return
	}
	for _, b := range blocks {
		ok, _ := core.mem.Exists(ctx, path.Join(b.ID, metadata.DeletionMarkFilename))
		b.Marked = ok
	}
	for _, b := range blocks {
		r.Eval(1)
		R := time.Duration(b.RetentionNs)
		off := time.Duration(b.OffsetNs)
		if R != 0 {
			r.Distinct(fmt.Sprintf("ret|%d|%d|%d|%d|%s", b.Resolution, b.RetentionNs, b.OffsetNs, b.MaxTime%1000, b.Far))
		}
		if off > -50*time.Millisecond && off < 50*time.Millisecond && R != 0 && b.Far == "" {
			r.Count("retention_within_50ms_of_boundary", 1)
		}
		r.Sample(map[string]any{"driver": "retention", "resolution": b.Resolution, "retention": R.String(), "maxtime_offset_from_boundary": off.String(), "maxtime_ms_fraction": b.MaxTime % 1000, "far_value": b.Far, "marked": b.Marked})
		if b.Far != "" {
			r.Count("retention_far_values", 1)
		}
		if !b.Marked {
			if R != 0 && b.Far == "" && off <= -2*time.Second {
				r.Count("retention_old_block_not_marked", 1) // liveness is not part of the property
			}
			continue
		}
		r.Count("retention_marked", 1)
		wit := map[string]any{"t0_unix_ns": t0.UnixNano(), "t1_unix_ns": t1.UnixNano(), "block": b, "all_blocks": blocks,
			"retention_by_resolution_ns": map[string]int64{"0": int64(ret[0]), "300000": int64(ret[300000]), "3600000": int64(ret[3600000])}}
		if R == 0 {
			r.Violation(c, "retention:marked-with-retention-disabled", fmt.Sprintf("block of resolution %d marked for deletion although its retention is 0 (disabled)", b.Resolution), wit)
			continue
		}
		if b.Far != "" {
			// exact arithmetic: age of the newest possible sample (MaxTime - 1 ms) at t1, in nanoseconds
			ageNs := new(big.Int).Sub(big.NewInt(t1.UnixNano()), new(big.Int).Mul(new(big.Int).Sub(big.NewInt(b.MaxTime), big.NewInt(1)), big.NewInt(int64(time.Millisecond))))
			r.Count("retention_far_values_marked", 1)
			if ageNs.Cmp(big.NewInt(int64(R))) <= 0 {
				fp := "retention:marked-before-retention-elapsed:early-by-1s-or-more"
				if ageNs.Sign() < 0 {
					fp = "retention:marked-although-newest-sample-lies-in-the-future"
				}
				r.Violation(c, fp, fmt.Sprintf("block with MaxTime %d ms (%s) marked for deletion although its newest sample is %s ns old at the end of the call, retention %v", b.MaxTime, b.Far, ageNs.String(), R), wit)
			}
			continue
		}
		// newest possible sample = MaxTime - 1 ms; its age at t1 (the latest instant the code can have read)
		age := time.Duration(t1.UnixNano() - (b.MaxTime-1)*int64(time.Millisecond))
		if age <= R {
			by := R - age
			r.Violation(c, "retention:marked-before-retention-elapsed:"+vfc32Early(by),
				fmt.Sprintf("block with MaxTime %d ms (fraction .%03d s) marked for deletion although at the end of the call its newest sample was only %v old, retention %v (at least %v early)", b.MaxTime, b.MaxTime%1000, age, R, by), wit)
		}
	}
}

func vfc32ULID(rng *rand.Rand, ms uint64) ulid.ULID {
	var e [10]byte
	for i := range e {
		e[i] = byte(rng.Intn(256))
	}
	id, err := ulid.New(ms, bytes.NewReader(e[:]))
	if err != nil {
		panic(err)
	}
	return id
}

// ---- (B) cleaner -----------------------------------------------------------------------------

type vfc32CleanBlock struct {
	ID           string   `json:"id"`
	HasMeta      bool     `json:"has_meta"`
	HasMark      bool     `json:"has_mark"`
	DeletionTime int64    `json:"deletion_time_s,omitempty"`
	KSeconds     int64    `json:"k_seconds,omitempty"`
	Before       []string `json:"objects_before"`
	After        []string `json:"objects_after"`
}

func vfc32Fetcher(logger log.Logger, rng *rand.Rand, bkt objstore.Bucket, filters []block.MetadataFilter) (*block.MetaFetcher, error) {
	ins := objstore.WithNoopInstr(bkt)
	var lister block.Lister
	if rng.Intn(2) == 0 {
		lister = block.NewConcurrentLister(logger, ins)
	} else {
		lister = block.NewRecursiveLister(logger, ins)
	}
	return block.NewMetaFetcher(logger, 2, ins, lister, "", nil, filters)
}

func vfc32Cleaner(ctx context.Context, r *vfkit.Run, c int, rng *rand.Rand, logger log.Logger) {
	core := vfcfbNew()
	bkt := core.view("compactor", false)
	D := vfkit.Pick(rng, []time.Duration{0, time.Second, 30 * time.Minute, 2 * time.Hour, 48 * time.Hour, 48 * time.Hour})
	nb := 1 + rng.Intn(6)
	var blocks []*vfc32CleanBlock
	now := time.Now()
	for i := 0; i < nb; i++ {
		id := vfc32ULID(rng, uint64(now.UnixMilli()-rng.Int63n(1000000)))
		b := &vfc32CleanBlock{ID: id.String(), HasMeta: rng.Intn(8) != 0, HasMark: rng.Intn(4) != 0}
		_ = bkt.Upload(ctx, path.Join(id.String(), "index"), strings.NewReader("idx"))
		_ = bkt.Upload(ctx, path.Join(id.String(), "chunks", "000001"), strings.NewReader("chk"))
		if b.HasMeta {
			if err := vfc32PutMeta(ctx, bkt, id, 0, 1000, 0); err != nil {
				r.T.Fatalf("setup: %v", err)
			}
		}
		if b.HasMark {
			b.KSeconds = vfkit.Pick(rng, []int64{0, 1, -1, 2, -2, 3600, -3600, 5, -5, 86400})
			// k > 0: the mark is k seconds too young at `now`; k <= 0: old enough
			b.DeletionTime = now.Unix() - int64(D/time.Second) + b.KSeconds
			if err := vfc32PutMark(ctx, bkt, id, b.DeletionTime); err != nil {
				r.T.Fatalf("setup: %v", err)
			}
		}
		blocks = append(blocks, b)
	}
	filter := block.NewIgnoreDeletionMarkFilter(logger, objstore.WithNoopInstr(bkt), D/2, 2)
	f, err := vfc32Fetcher(logger, rng, bkt, []block.MetadataFilter{filter})
	if err != nil {
		r.T.Fatalf("setup: %v", err)
	}
	if _, _, err := f.Fetch(ctx); err != nil {
		r.T.Fatalf("fetch on in-memory bucket failed: %v", err)
	}
	cleaner := NewBlocksCleaner(logger, bkt, filter, D, vfc32Counter(), vfc32Counter())
	for _, b := range blocks {
		b.Before = vfc32Objects(core.mem, ulid.MustParse(b.ID))
	}
	t0 := time.Now()
	_, err = cleaner.DeleteMarkedBlocks(ctx)
	t1 := time.Now()
	if err != nil {
		r.T.Fatalf("DeleteMarkedBlocks on in-memory bucket failed: %v", err)
	}
	if !vfc32ClockOK(t0, t1) {
		r.Count("clock_step_skipped", 1)
		return
	}
	for _, b := range blocks {
		b.After = vfc32Objects(core.mem, ulid.MustParse(b.ID))
	}
	for _, b := range blocks {
		r.Eval(1)
		if b.HasMark {
			r.Distinct(fmt.Sprintf("clean|%d|%d|%v", int64(D), b.KSeconds, b.HasMeta))
		}
		touched := len(b.After) != len(b.Before)
		r.Sample(map[string]any{"driver": "cleaner", "delete_delay": D.String(), "has_meta": b.HasMeta, "has_mark": b.HasMark, "mark_seconds_too_young": b.KSeconds, "deleted": touched})
		if !touched {
			if b.HasMark && b.HasMeta && b.KSeconds < -2 {
				r.Count("cleaner_old_mark_not_deleted", 1) // liveness is not part of the property
			}
			continue
		}
		r.Count("cleaner_deleted", 1)
		wit := map[string]any{"t0_unix_ns": t0.UnixNano(), "t1_unix_ns": t1.UnixNano(), "delete_delay_ns": int64(D), "block": b, "all_blocks": blocks}
		if !b.HasMark {
			r.Violation(c, "cleaner:deleted-unmarked-block", fmt.Sprintf("objects of block %s were deleted although it has no deletion mark", b.ID), wit)
			continue
		}
		age := time.Duration(t1.UnixNano() - b.DeletionTime*int64(time.Second))
		if age <= D {
			by := D - age
			r.Violation(c, "cleaner:deleted-before-delete-delay:"+vfc32Early(by),
				fmt.Sprintf("block deleted although at the end of the call its deletion mark (DeletionTime %d) was only %v old, delete delay %v (at least %v early)", b.DeletionTime, age, D, by), wit)
		}
	}
}

// ---- (C) partial uploads ---------------------------------------------------------------------

type vfc32PartBlock struct {
	ID                string           `json:"id"`
	Partial           bool             `json:"partial"`
	MarkInBucket      bool             `json:"deletion_mark_in_bucket"`
	MarkGiven         bool             `json:"in_given_deletion_mark_set"`
	GivenPartial      bool             `json:"in_given_partial_set"`
	ULIDTimeMs        int64            `json:"ulid_time_ms"`
	LastModified      map[string]int64 `json:"served_last_modified_unix_ns"`
	LastTouchNs       int64            `json:"last_touch_unix_ns"`
	OffsetNs          int64            `json:"offset_ns"`
	ListingFails      bool             `json:"attribute_listing_fails,omitempty"`
	ListingFailsAfter int              `json:"attribute_listing_fails_after_entries,omitempty"`
	Before, After     []string
}

func vfc32Partial(ctx context.Context, r *vfkit.Run, c int, rng *rand.Rand, logger log.Logger) {
	core := vfcfbNew()
	bkt := core.view("compactor", false)
	noLastMod := rng.Intn(4) == 0
	wired := rng.Intn(2) == 0
	listFaults := !noLastMod && rng.Intn(3) == 0 // the attribute listing of some blocks fails (before / after some entries); plain Iter, Get and Delete work
	core.noLastMod = noLastMod
	nb := 1 + rng.Intn(6)
	var blocks []*vfc32PartBlock
	now := time.Now()
	for i := 0; i < nb; i++ {
		off := vfc32Offsets[rng.Intn(len(vfc32Offsets))]
		// off > 0: the block was touched `off` too recently; off <= 0: untouched long enough
		touch := now.Add(-PartialUploadThresholdAge).Add(off)
		var ulidMs int64
		listFault := listFaults && rng.Intn(2) == 0
		switch {
		case noLastMod || listFault:
			ulidMs = touch.UnixMilli()
		case rng.Intn(2) == 0:
			ulidMs = now.Add(-3 * PartialUploadThresholdAge).UnixMilli() // created long ago, objects touched later
		default:
			ulidMs = now.Add(-time.Hour).UnixMilli()
		}
		id := vfc32ULID(rng, uint64(ulidMs))
		b := &vfc32PartBlock{ID: id.String(), Partial: rng.Intn(5) != 0, MarkInBucket: rng.Intn(4) == 0, ULIDTimeMs: ulidMs, LastModified: map[string]int64{}, OffsetNs: int64(off)}
		names := []string{path.Join(id.String(), "index"), path.Join(id.String(), "chunks", "000001")}
		if rng.Intn(2) == 0 {
			names = append(names, path.Join(id.String(), "chunks", "000002"))
		}
		for _, nm := range names {
			_ = bkt.Upload(ctx, nm, strings.NewReader("x"))
		}
		if !b.Partial {
			if err := vfc32PutMeta(ctx, bkt, id, 0, 1000, 0); err != nil {
				r.T.Fatalf("setup: %v", err)
			}
			names = append(names, path.Join(id.String(), metadata.MetaFilename))
		}
		if b.MarkInBucket {
			if err := vfc32PutMark(ctx, bkt, id, now.Add(-time.Hour).Unix()); err != nil {
				r.T.Fatalf("setup: %v", err)
			}
			names = append(names, path.Join(id.String(), metadata.DeletionMarkFilename))
		}
		// one object carries the newest modification time `touch`, the others are older
		newest := rng.Intn(len(names))
		for k, nm := range names {
			lm := touch
			if k != newest {
				lm = touch.Add(-time.Duration(rng.Int63n(int64(72 * time.Hour))))
			}
			core.setLastModified(nm, lm)
			b.LastModified[nm] = lm.UnixNano()
		}
		if listFault {
			b.ListingFailsAfter = rng.Intn(3)
			b.ListingFails = true
			core.setAttrIterFault(id.String(), b.ListingFailsAfter)
		}
		if noLastMod || listFault {
			// nothing (usable) is served: the documented fallback, the block's creation time from its ULID, is the last touch
			b.LastTouchNs = ulidMs * int64(time.Millisecond)
		} else {
			b.LastTouchNs = touch.UnixNano()
		}
		blocks = append(blocks, b)
	}
	partial := map[ulid.ULID]error{}
	marks := map[ulid.ULID]*metadata.DeletionMark{}
	if wired {
		filter := block.NewIgnoreDeletionMarkFilter(logger, objstore.WithNoopInstr(bkt), 24*time.Hour, 2)
		f, err := vfc32Fetcher(logger, rng, bkt, []block.MetadataFilter{filter})
		if err != nil {
			r.T.Fatalf("setup: %v", err)
		}
		_, p, err := f.Fetch(ctx)
		if err != nil {
			r.T.Fatalf("fetch on in-memory bucket failed: %v", err)
		}
		partial = p
		marks = filter.DeletionMarkBlocks()
	} else {
		for _, b := range blocks {
			id := ulid.MustParse(b.ID)
			if b.Partial {
				partial[id] = fmt.Errorf("no meta")
			}
			if b.MarkInBucket {
				marks[id] = &metadata.DeletionMark{ID: id, Version: 1}
			}
		}
	}
	for _, b := range blocks {
		id := ulid.MustParse(b.ID)
		_, b.GivenPartial = partial[id]
		_, b.MarkGiven = marks[id]
		b.Before = vfc32Objects(core.mem, id)
	}
	t0 := time.Now()
	BestEffortCleanAbortedPartialUploads(ctx, logger, partial, bkt, vfc32Counter(), vfc32Counter(), vfc32Counter(), marks)
	t1 := time.Now()
	if !vfc32ClockOK(t0, t1) {
		r.Count("clock_step_skipped", 1)
		return
	}
	for _, b := range blocks {
		b.After = vfc32Objects(core.mem, ulid.MustParse(b.ID))
	}
	for _, b := range blocks {
		r.Eval(1)
		if b.Partial {
			r.Distinct(fmt.Sprintf("partial|%v|%v|%d|%v|%v|%v|%d", noLastMod, wired, b.OffsetNs, b.MarkInBucket, b.ULIDTimeMs > now.Add(-2*time.Hour).UnixMilli(), b.ListingFails, b.ListingFailsAfter))
			if b.ListingFails {
				r.Count("partial_blocks_with_failing_attribute_listing", 1)
			}
		}
		touched := len(b.After) != len(b.Before)
		r.Sample(map[string]any{"driver": "partial", "arguments_from_real_fetcher": wired, "bucket_serves_last_modified": !noLastMod, "partial": b.Partial, "attribute_listing_fails": b.ListingFails, "deletion_mark_in_bucket": b.MarkInBucket,
			"last_touch_offset_from_threshold": time.Duration(b.OffsetNs).String(), "removed": touched})
		if !touched {
			continue
		}
		r.Count("partial_removed", 1)
		wit := map[string]any{"t0_unix_ns": t0.UnixNano(), "t1_unix_ns": t1.UnixNano(), "threshold_ns": int64(PartialUploadThresholdAge), "bucket_serves_last_modified": !noLastMod,
			"arguments_from_real_fetcher": wired, "block": b, "all_blocks": blocks}
		if !b.GivenPartial {
			r.Violation(c, "partial:removed-block-that-is-not-partial", fmt.Sprintf("block %s was not in the partial set (it has a meta.json) and was removed by the partial-upload cleaner", b.ID), wit)
			continue
		}
		if b.MarkGiven {
			r.Violation(c, "partial:removed-block-scheduled-for-deletion", fmt.Sprintf("partial block %s is in the deletion-mark set handed to the cleaner and was removed by the partial-upload cleaner", b.ID), wit)
			continue
		}
		if b.MarkInBucket {
			r.Count("partial_removed_with_mark_in_bucket_unknown_to_filter", 1) // see report: the filter only reads marks of blocks that have a meta.json
		}
		age := time.Duration(t1.UnixNano() - b.LastTouchNs)
		if age <= PartialUploadThresholdAge {
			by := PartialUploadThresholdAge - age
			src := "last-modified"
			if noLastMod {
				src = "ulid-time"
			}
			if b.ListingFails {
				src = "ulid-time-after-listing-error"
			}
			r.Violation(c, "partial:removed-before-abort-threshold:"+src+":"+vfc32Early(by),
				fmt.Sprintf("partial block removed although at the end of the call it had been untouched for only %v (< %v; at least %v early; last touch taken from %s)", age, PartialUploadThresholdAge, by, src), wit)
		}
	}
}
