//go:build verif

package downsample

import (
	"bytes"
	"fmt"
	"hash/fnv"
	"math"
	"math/rand"
	"testing"

	"github.com/prometheus/prometheus/tsdb/chunkenc"
	"github.com/prometheus/prometheus/tsdb/tsdbutil"

	"github.com/thanos-io/thanos/pkg/verifhook/vfkit"
)

// C39 - aggregate chunk encoding round-trips for any set of aggregates.
//
// For each of the 32 presence patterns and many random sub-chunk contents the real
// EncodeAggrChunk is called and every aggregate is read back with the real AggrChunk.Get
// (directly and through Reset on a copy of the bytes). Oracle: a present aggregate comes back
// with the same encoding and the same bytes; an absent one yields exactly ErrAggrNotExist.

func vfc39AggrName(pattern int) string {
	s := ""
	for a := AggrCount; a <= AggrCounter; a++ {
		if pattern&(1<<uint(a)) != 0 {
			s += "1"
		} else {
			s += "0"
		}
	}
	return s // position i = AggrType i (count,sum,min,max,counter)
}

// vfc39SubChunk builds one random sub-chunk: XOR (mostly), or a float-histogram / histogram chunk
// as the native-histogram aggregator writes for sum and counter.
func vfc39SubChunk(rng *rand.Rand, a AggrType) chunkenc.Chunk {
	kind := rng.Intn(10)
	n := 0
	switch x := rng.Intn(40); {
	case x < 5:
		n = 0 // empty chunk: present but without samples
	case x < 10:
		n = 1
	case x < 16:
		n = 1 + rng.Intn(12) // a short chunk: length prefix of one byte
	case x == 16:
		n = 2000 + rng.Intn(500) // > 16383 bytes with random values: three-byte length prefix
	default:
		n = rng.Intn(301)
	}
	if kind == 0 && (a == AggrSum || a == AggrCounter) {
		c := chunkenc.NewFloatHistogramChunk()
		app, _ := c.Appender()
		if n > 40 {
			n = 40
		}
		t := int64(1_600_000_000_000)
		for i := 0; i < n; i++ {
			t += 1 + rng.Int63n(600000)
			h := tsdbutil.GenerateTestGaugeFloatHistogram(int64(rng.Intn(50)))
			nc, _, napp, err := app.AppendFloatHistogram(nil, t, h, false)
			if err != nil {
				break
			}
			if nc != nil {
				break // a new chunk would be cut here; keep what we have
			}
			app = napp
		}
		return c
	}
	c := chunkenc.NewXORChunk()
	app, _ := c.Appender()
	t := int64(1_600_000_000_000) + rng.Int63n(1000000)
	for i := 0; i < n; i++ {
		t += 1 + rng.Int63n(600000)
		var v float64
		switch rng.Intn(5) {
		case 0:
			v = float64(rng.Intn(1000))
		case 1:
			v = math.Float64frombits(rng.Uint64())
		default:
			v = rng.NormFloat64() * 1e6
		}
		app.Append(t, v)
	}
	return c
}

func TestVF_C39(t *testing.T) {
	r := vfkit.Start(t, "C39")
	defer r.Finish()
	r.Rule("case = presence pattern (all 32 subsets of count,sum,min,max,counter; enumerated completely, every round) x random sub-chunk contents (XOR chunks with 0, 1, <=12, <=300 or >2000 samples so the length prefix takes 1, 2 or 3 bytes; sometimes float-histogram chunks for sum/counter); " +
		"oracle per aggregate: Get(a) of a present aggregate returns the same encoding and bytes, Get(a) of an absent one returns ErrAggrNotExist, both on the encoded chunk and on a chunk Reset from a copy of its bytes; " +
		"distinct = pattern + content hash; non-trivial = every case (the all-absent pattern included)")
	rounds := r.N(500, 20000)
	r.Require(int64(rounds*32*5), rounds*16)
	r.Extra("presence_patterns_per_round", 32)
	for round := 0; round < rounds; round++ {
		for pattern := 0; pattern < 32; pattern++ {
			c := round*32 + pattern
			if !r.Want(c) {
				continue
			}
			rng := r.Rand(c)
			r.Guard(c, "aggr-chunk-codec", map[string]any{"presence(count,sum,min,max,counter)": vfc39AggrName(pattern)}, func() { vfc39Check(r, c, pattern, rng) })
		}
	}
}

func vfc39Check(r *vfkit.Run, c, pattern int, rng *rand.Rand) {
	var chks [5]chunkenc.Chunk
	var orig [5][]byte
	var lens [5]int
	h := fnv.New64a()
	for a := AggrCount; a <= AggrCounter; a++ {
		lens[a] = -1
		if pattern&(1<<uint(a)) == 0 {
			continue
		}
		chks[a] = vfc39SubChunk(rng, a)
		orig[a] = append([]byte(nil), chks[a].Bytes()...)
		lens[a] = len(orig[a])
		h.Write(orig[a])
	}
	pname := vfc39AggrName(pattern)
	enc := EncodeAggrChunk(chks)
	r.Distinct(fmt.Sprintf("%s|%x", pname, h.Sum64()))
	r.Sample(map[string]any{"presence(count,sum,min,max,counter)": pname, "sub_chunk_bytes(-1=absent)": lens, "encoded_bytes": len(enc.Bytes())})

	re := &AggrChunk{}
	re.Reset(append([]byte(nil), enc.Bytes()...))
	// position class of an absent aggregate inside the encoding: is anything encoded after it?
	lastPresent := -1
	for a := AggrCount; a <= AggrCounter; a++ {
		if chks[a] != nil {
			lastPresent = int(a)
		}
	}
	for vi, view := range []*AggrChunk{enc, re} {
		via := []string{"encoded", "reset-from-bytes"}[vi]
		for a := AggrCount; a <= AggrCounter; a++ {
			got, err := view.Get(a)
			r.Eval(1)
			if (chks[a] == nil && err == ErrAggrNotExist) ||
				(chks[a] != nil && err == nil && got.Encoding() == chks[a].Encoding() && bytes.Equal(got.Bytes(), orig[a]) && got.NumSamples() == chks[a].NumSamples()) {
				continue // as stated; the branches below only classify a refuting observation
			}
			wit := map[string]any{"presence(count,sum,min,max,counter)": pname, "aggregate": a.String(), "via": via, "sub_chunk_bytes(-1=absent)": lens, "encoded_hex_prefix": fmt.Sprintf("%x", vfc39Head(enc.Bytes(), 48))}
			if chks[a] == nil {
				if err == ErrAggrNotExist {
					continue
				}
				where := "followed-by-present-aggregate"
				if int(a) > lastPresent {
					where = "no-present-aggregate-after-it"
				}
				if a == AggrCounter {
					where = "last-entry"
				}
				if err != nil {
					r.Violation(c, fmt.Sprintf("absent:%s:error-instead-of-ErrAggrNotExist:%s", where, err.Error()),
						fmt.Sprintf("Get(%s) on a chunk encoded without %s (presence %s) returns error %q instead of ErrAggrNotExist", a, a, pname, err.Error()), wit)
				} else {
					wit["returned_bytes"] = len(got.Bytes())
					r.Violation(c, "absent:"+where+":returned-a-chunk",
						fmt.Sprintf("Get(%s) on a chunk encoded without %s (presence %s) returns a chunk of %d bytes", a, a, pname, len(got.Bytes())), wit)
				}
				continue
			}
			if err != nil {
				r.Violation(c, "present:get-error:"+err.Error(), fmt.Sprintf("Get(%s) of a present aggregate (presence %s, %d bytes) fails: %v", a, pname, lens[a], err), wit)
				continue
			}
			if got.Encoding() != chks[a].Encoding() {
				r.Violation(c, "present:encoding-differs", fmt.Sprintf("Get(%s): encoding %v, encoded was %v (presence %s)", a, got.Encoding(), chks[a].Encoding(), pname), wit)
				continue
			}
			if !bytes.Equal(got.Bytes(), orig[a]) {
				r.Violation(c, "present:bytes-differ", fmt.Sprintf("Get(%s): %d bytes returned, %d encoded, content differs (presence %s)", a, len(got.Bytes()), lens[a], pname), wit)
				continue
			}
			if got.NumSamples() != chks[a].NumSamples() {
				r.Violation(c, "present:num-samples-differ", fmt.Sprintf("Get(%s): %d samples, encoded %d (presence %s)", a, got.NumSamples(), chks[a].NumSamples(), pname), wit)
			}
		}
	}
}

func vfc39Head(b []byte, n int) []byte {
	if len(b) < n {
		return b
	}
	return b[:n]
}
