//go:build verif

package downsample

import (
	"fmt"
	"hash/fnv"
	"math"
	"math/rand"
	"testing"

	"github.com/prometheus/prometheus/model/value"
	"github.com/prometheus/prometheus/tsdb/chunkenc"
	"github.com/prometheus/prometheus/tsdb/chunks"

	"github.com/thanos-io/thanos/pkg/verifhook/vfkit"
)

// ---------------------------------------------------------------------------------------------
// Shared raw-series generator of C37 and C38 (prefix vfc37).
// ---------------------------------------------------------------------------------------------

// vfc37Times generates 1..maxN strictly increasing raw timestamps: regular scrapes with jitter,
// irregular deltas 1s..20min, gappy (whole windows empty) and sparse (5..20 min) series.
func vfc37Times(rng *rand.Rand, maxN int) ([]int64, string) {
	var n int
	switch x := rng.Intn(20); {
	case x < 8:
		n = 1 + rng.Intn(120)
	case x < 15:
		n = 121 + rng.Intn(680)
	default:
		n = 801 + rng.Intn(maxN-800)
	}
	base := int64(1_500_000_000_000) + rng.Int63n(1_000_000_000)
	if rng.Intn(10) < 3 {
		base = 1 + rng.Int63n(10_000_000)
	}
	mode := vfkit.Pick(rng, []string{"regular", "regular", "irregular", "gappy", "sparse"})
	ts := make([]int64, 0, n)
	t := base
	switch mode {
	case "regular", "gappy":
		iv := vfkit.Pick(rng, []int64{1000, 5000, 15000, 30000, 60000, 120000, 300000})
		for i := 0; i < n; i++ {
			ts = append(ts, t)
			d := iv + rng.Int63n(iv/5+1) - iv/10
			if mode == "gappy" && rng.Intn(50) == 0 {
				d += int64(1+rng.Intn(36)) * 300000 // up to 3h without samples
			}
			if d < 1 {
				d = 1
			}
			t += d
		}
		mode = fmt.Sprintf("%s/%ds", mode, iv/1000)
	case "irregular":
		for i := 0; i < n; i++ {
			ts = append(ts, t)
			// log-uniform 1s..20min
			t += int64(1000 * math.Exp(rng.Float64()*math.Log(1200)))
		}
	case "sparse":
		for i := 0; i < n; i++ {
			ts = append(ts, t)
			t += 300000 + rng.Int63n(900001)
		}
	}
	snap := vfc37Snap(rng, ts)
	return ts, fmt.Sprintf("%s/n=%d/snap=%s", mode, n, snap)
}

// vfc37Snap moves some samples exactly onto downsampling window edges (last / first millisecond of a 5m window,
// which covers every 1h edge too, and +-1 ms around them). Timestamps stay strictly increasing.
func vfc37Snap(rng *rand.Rand, ts []int64) string {
	const step = int64(300000)
	mode := vfkit.Pick(rng, []string{"none", "none", "window-ends", "edges"})
	if mode == "none" {
		return mode
	}
	for i := range ts {
		w := ts[i] / step
		var c int64
		switch mode {
		case "window-ends":
			if (i+1 < len(ts) && ts[i+1]/step == w) || rng.Intn(2) == 0 {
				continue
			}
			c = w*step + step - 1
		default:
			if rng.Intn(8) != 0 {
				continue
			}
			c = vfkit.Pick(rng, []int64{w*step + step - 1, w*step + step - 2, w * step, w*step + 1, w*step + step})
		}
		if (i == 0 || c > ts[i-1]) && (i+1 == len(ts) || c < ts[i+1]) && c >= 0 {
			ts[i] = c
		}
	}
	return mode
}

// vfc37GaugeValues: integers in [-1000,1000] or multiples of 1/8 so that every sum is exact in float64.
func vfc37GaugeValues(rng *rand.Rand, n int) []float64 {
	vs := make([]float64, n)
	dyadic := rng.Intn(2) == 0
	for i := range vs {
		if dyadic {
			vs[i] = float64(rng.Intn(16001)-8000) / 8
		} else {
			vs[i] = float64(rng.Intn(2001) - 1000)
		}
	}
	return vs
}

// vfc37InjectNaN overwrites some values with NaN / stale markers: single ones, runs, whole windows.
func vfc37InjectNaN(rng *rand.Rand, ts []int64, vs []float64, res int64) string {
	nan := func() float64 {
		if rng.Intn(2) == 0 {
			return math.Float64frombits(value.StaleNaN)
		}
		return math.NaN()
	}
	mode := vfkit.Pick(rng, []string{"none", "none", "single", "runs", "windows", "mixed", "all"})
	switch mode {
	case "single", "mixed":
		for i := range vs {
			if rng.Intn(20) == 0 {
				vs[i] = nan()
			}
		}
		if mode == "single" {
			break
		}
		fallthrough
	case "runs":
		for k := 0; k < 1+rng.Intn(4); k++ {
			s := rng.Intn(len(vs))
			for i := s; i < len(vs) && i < s+2+rng.Intn(29); i++ {
				vs[i] = nan()
			}
		}
		if mode == "runs" {
			break
		}
		fallthrough
	case "windows":
		for k := 0; k < 1+rng.Intn(3); k++ {
			w := ts[rng.Intn(len(ts))] / res
			for i := range ts {
				if ts[i]/res == w {
					vs[i] = nan()
				}
			}
		}
	case "all":
		if len(vs) < 50 {
			for i := range vs {
				vs[i] = nan()
			}
		}
	}
	return "nan=" + mode
}

func vfc37Samples(ts []int64, vs []float64) []sample {
	out := make([]sample, len(ts))
	for i := range ts {
		out[i] = sample{t: ts[i], v: vs[i]}
	}
	return out
}

type vfc37Pt struct {
	T int64
	V float64
}

func vfc37Drain(c chunkenc.Chunk) []vfc37Pt {
	var out []vfc37Pt
	it := c.Iterator(nil)
	for it.Next() != chunkenc.ValNone {
		t, v := it.At()
		out = append(out, vfc37Pt{t, v})
	}
	return out
}

// vfc37Tail formats the last k raw samples before index i (witness helper).
func vfc37Window(raw []sample, lo, hi int) [][2]float64 {
	if lo < 0 {
		lo = 0
	}
	if hi > len(raw) {
		hi = len(raw)
	}
	var out [][2]float64
	for _, s := range raw[lo:hi] {
		out = append(out, [2]float64{float64(s.t), s.v})
	}
	return out
}

func vfc37ChunkBrief(chks []chunks.Meta) []map[string]any {
	var out []map[string]any
	for _, c := range chks {
		m := map[string]any{"mint": c.MinTime, "maxt": c.MaxTime}
		if ac, ok := c.Chunk.(*AggrChunk); ok {
			m["count_samples"] = ac.NumSamples()
			if cc, err := ac.Get(AggrCounter); err == nil {
				pts := vfc37Drain(cc)
				m["counter_samples"] = len(pts)
				if len(pts) > 0 {
					m["counter_first"] = pts[0]
					m["counter_last"] = pts[len(pts)-1]
				}
			}
		}
		out = append(out, m)
	}
	return out
}

// ---------------------------------------------------------------------------------------------
// C37 - downsampled counters preserve the raw counter's increase.
// ---------------------------------------------------------------------------------------------

// vfc37Counter builds a non-negative integer counter over ts with resets at the given sample indexes
// (a reset at index i makes v[i] < v[i-1]: to zero or to a smaller non-zero value).
func vfc37Counter(rng *rand.Rand, n int, resetAt map[int]bool) []float64 {
	vs := make([]float64, n)
	cur := float64(rng.Intn(1000))
	for i := 0; i < n; i++ {
		if i > 0 {
			if resetAt[i] && cur > 0 {
				if rng.Intn(2) == 0 {
					cur = 0
				} else {
					cur = float64(rng.Intn(int(cur))) // strictly smaller, possibly non-zero
				}
			} else {
				cur += float64(rng.Intn(50))
			}
		}
		vs[i] = cur
	}
	return vs
}

// vfc37Truth returns F over the raw samples: adj[i] = raw value at i plus the pre-reset values of
// every reset up to i. Written from the statement, independent of the aggregator code.
func vfc37Truth(raw []sample) []float64 {
	adj := make([]float64, len(raw))
	carry := 0.0
	for i, s := range raw {
		if i > 0 && s.v < raw[i-1].v {
			carry += raw[i-1].v
		}
		adj[i] = s.v + carry
	}
	return adj
}

// vfc37F evaluates F(t): adjusted value at the last raw sample with timestamp <= t.
func vfc37F(raw []sample, adj []float64, t int64) (float64, int, bool) {
	lo, hi := 0, len(raw) // first index with raw.t > t
	for lo < hi {
		m := (lo + hi) / 2
		if raw[m].t <= t {
			lo = m + 1
		} else {
			hi = m
		}
	}
	if lo == 0 {
		return 0, -1, false
	}
	return adj[lo-1], lo - 1, true
}

func vfc37CounterIters(chks []chunks.Meta) ([]chunkenc.Iterator, error) {
	var its []chunkenc.Iterator
	for _, c := range chks {
		ac, ok := c.Chunk.(*AggrChunk)
		if !ok {
			return nil, fmt.Errorf("chunk [%d,%d] is %T, not *AggrChunk", c.MinTime, c.MaxTime, c.Chunk)
		}
		cc, err := ac.Get(AggrCounter)
		if err != nil {
			return nil, fmt.Errorf("chunk [%d,%d]: Get(counter): %v", c.MinTime, c.MaxTime, err)
		}
		its = append(its, cc.Iterator(nil))
	}
	return its, nil
}

func TestVF_C37(t *testing.T) {
	r := vfkit.Start(t, "C37")
	defer r.Finish()
	r.Rule("case = raw non-negative integer counter (1..3000 samples; regular/irregular/gappy/sparse scrapes) with 0..8 resets placed inside chunks, exactly on the first sample of a 5m output chunk (boundaries learnt from a first DownsampleRaw run), in consecutive samples, to zero or to a smaller non-zero value; " +
		"the real DownsampleRaw(5m) and then the real downsampleAggr(5m->1h) are run and the counter aggregate of each level is read with the real ApplyCounterResetsSeriesIterator (Next-only and Next/Seek mixed); " +
		"oracle: every emitted (t,v) has v == F(t) = raw value at the last raw sample <= t plus all pre-reset values up to it, timestamps strictly increase; distinct = hash of raw series; non-trivial = at least one reset and >= 2 emitted samples per level")
	n := r.N(2000, 50000)
	r.Require(int64(n), n/3)
	r.Assume("raw counter samples are non-negative, NaN-free and strictly increasing in time")
	for c := 0; c < n; c++ {
		if !r.Want(c) {
			continue
		}
		rng := r.Rand(c)
		r.Guard(c, "counter-downsampling", nil, func() { vfc37Case(r, c, rng) })
	}
	// Round 2: concurrent phase - several different series are downsampled at the same time (GOMAXPROCS 1,2,4,16 cycled),
	// every result must satisfy the same oracle; the race detector watches the shared state of the package.
	nConc := r.N(32, 600)
	for c := n; c < n+nConc; c++ {
		if !r.Want(c) {
			continue
		}
		rng := r.Rand(c)
		procs := vfc37Procs[c%len(vfc37Procs)]
		r.Guard(c, "concurrent-counter-downsampling", map[string]any{"gomaxprocs": procs}, func() { vfc37ConcurrentCase(r, c, rng, procs) })
	}
	r.Extra("concurrent_phase_cases", nConc)
}

func vfc37Case(r *vfkit.Run, c int, rng *rand.Rand) {
	maxN := 3000
	ts, class := vfc37Times(rng, maxN)
	n := len(ts)
	// learn the 5m chunk boundaries (they depend on timestamps only)
	probe := DownsampleRaw(vfc37Samples(ts, make([]float64, n)), ResLevel1)
	var boundary []int // raw index of the first sample of every later chunk
	{
		i := 0
		for _, ch := range probe[:len(probe)-1] {
			for i < n && ts[i] <= ch.MaxTime {
				i++
			}
			if i < n {
				boundary = append(boundary, i)
			}
		}
	}
	resetAt := map[int]bool{}
	nResets := rng.Intn(9)
	placement := vfkit.Pick(rng, []string{"anywhere", "chunk-boundary", "consecutive", "mixed"})
	for k := 0; k < nResets && n > 1; k++ {
		switch p := placement; {
		case (p == "chunk-boundary" || (p == "mixed" && rng.Intn(2) == 0)) && len(boundary) > 0:
			b := boundary[rng.Intn(len(boundary))]
			resetAt[b] = true
			if rng.Intn(3) == 0 && b+1 < n {
				resetAt[b+1] = true // and right after the boundary
			}
			if rng.Intn(3) == 0 && b-1 > 0 {
				resetAt[b-1] = true // last sample of the previous chunk
			}
		case p == "consecutive":
			i := 1 + rng.Intn(n-1)
			for j := i; j < n && j < i+2+rng.Intn(3); j++ {
				resetAt[j] = true
			}
		default:
			resetAt[1+rng.Intn(n-1)] = true
		}
	}
	vs := vfc37Counter(rng, n, resetAt)
	raw := vfc37Samples(ts, vs)
	adj := vfc37Truth(raw)
	resets := 0
	for i := 1; i < n; i++ {
		if vs[i] < vs[i-1] {
			resets++
		}
	}
	class = fmt.Sprintf("%s/resets=%s", class, placement)

	lvl1 := DownsampleRaw(append([]sample(nil), raw...), ResLevel1)
	ok1, emitted1 := vfc37CheckLevel(r, c, rng, "5m", raw, adj, lvl1, class)
	if !ok1 {
		return
	}
	// second level exactly as Downsample() does for a block of aggregate chunks
	var acs []*AggrChunk
	for _, ch := range lvl1 {
		acs = append(acs, ch.Chunk.(*AggrChunk))
	}
	emitted2 := 0
	if len(acs) > 0 {
		numSamples := 0
		for _, a := range acs {
			numSamples += a.NumSamples()
		}
		mint, maxt := lvl1[0].MinTime, lvl1[len(lvl1)-1].MaxTime
		if nc := targetChunkCount(mint, maxt, ResLevel1, ResLevel2, numSamples); len(acs)/nc == 0 {
			// downsampleAggrLoop would be called with batch size 0 and never consume a chunk
			r.Count("level2_skipped_batchsize0", 1)
		} else {
			var buf []sample
			var lvl2 []chunks.Meta
			if err := downsampleAggr(acs, &buf, mint, maxt, ResLevel1, ResLevel2, &lvl2); err != nil {
				r.Eval(1)
				r.Violation(c, "1h:downsampleAggr-error", "downsampleAggr(5m->1h) failed: "+err.Error(), map[string]any{"class": class, "lvl1": vfc37ChunkBrief(lvl1)})
				return
			}
			var ok2 bool
			ok2, emitted2 = vfc37CheckLevel(r, c, rng, "1h", raw, adj, lvl2, class)
			if !ok2 {
				return
			}
			if len(lvl2) > 1 {
				r.Count("cases_with_multi_chunk_1h", 1)
			}
		}
	}
	if len(lvl1) > 1 {
		r.Count("cases_with_multi_chunk_5m", 1)
	}
	boundaryResets := 0
	for _, b := range boundary {
		if b < n && b > 0 && vs[b] < vs[b-1] {
			boundaryResets++
		}
	}
	if boundaryResets > 0 {
		r.Count("cases_with_reset_on_chunk_boundary", 1)
	}
	if resets > 0 && emitted1 >= 2 && emitted2 >= 2 {
		h := fnv.New64a()
		for i := range raw {
			fmt.Fprintf(h, "%d:%v,", raw[i].t, raw[i].v)
		}
		r.Distinct(fmt.Sprintf("%x", h.Sum64()))
	}
	r.Sample(map[string]any{"class": class, "raw_samples": n, "resets": resets, "resets_on_5m_chunk_boundary": boundaryResets, "chunks_5m": len(lvl1), "emitted_5m": emitted1, "emitted_1h": emitted2})
}

// vfc37CheckLevel reads the counter aggregate of chks with the real ApplyCounterResetsSeriesIterator.
func vfc37CheckLevel(r *vfkit.Run, c int, rng *rand.Rand, level string, raw []sample, adj []float64, chks []chunks.Meta, class string) (bool, int) {
	emitted := 0
	for mode := 0; mode < 2; mode++ {
		its, err := vfc37CounterIters(chks)
		r.Eval(1)
		if err != nil {
			r.Violation(c, level+":counter-aggregate-unreadable", err.Error(), map[string]any{"class": class, "chunks": vfc37ChunkBrief(chks)})
			return false, 0
		}
		it := NewApplyCounterResetsIterator(its...)
		reader := []string{"next-only", "next+seek"}[mode]
		var out []vfc37Pt
		limit := len(raw) + 10*len(chks) + 10
		for len(out) <= limit {
			var vt chunkenc.ValueType
			var seekTo int64
			sought := false
			if mode == 1 && len(out) > 0 && rng.Intn(3) == 0 {
				seekTo = out[len(out)-1].T + 1 + rng.Int63n(4*3600000)
				sought = true
				vt = it.Seek(seekTo)
			} else {
				vt = it.Next()
			}
			if vt == chunkenc.ValNone {
				break
			}
			t, v := it.At()
			if sought && t < seekTo {
				r.Violation(c, level+":seek-landed-before-target", fmt.Sprintf("Seek(%d) positioned the iterator at t=%d (%s, %s)", seekTo, t, class, reader),
					map[string]any{"class": class, "reader": reader, "chunks": vfc37ChunkBrief(chks)})
				return false, 0
			}
			out = append(out, vfc37Pt{t, v})
		}
		if mode == 0 {
			emitted = len(out)
		}
		for i, p := range out {
			if i > 0 && p.T <= out[i-1].T {
				r.Violation(c, level+":timestamps-not-increasing", fmt.Sprintf("emitted t[%d]=%d after t[%d]=%d (%s, %s)", i, p.T, i-1, out[i-1].T, class, reader),
					map[string]any{"class": class, "reader": reader, "chunks": vfc37ChunkBrief(chks)})
				return false, 0
			}
			want, idx, ok := vfc37F(raw, adj, p.T)
			if ok && math.Float64bits(want) == math.Float64bits(p.V) {
				continue
			}
			// classify by where the last raw sample <= t sits relative to the chunk layout and resets
			where := "inside-chunk"
			for k, ch := range chks {
				if k > 0 && p.T > chks[k-1].MaxTime && p.T <= ch.MaxTime {
					// first emitted sample of chunk k?
					if i == 0 || out[i-1].T <= chks[k-1].MaxTime {
						where = "first-sample-of-later-chunk"
					}
				}
			}
			wit := map[string]any{"class": class, "reader": reader, "level": level, "emitted_index": i, "emitted": p, "want_F": want, "chunks": vfc37ChunkBrief(chks)}
			if ok {
				wit["raw_around"] = vfc37Window(raw, idx-4, idx+3)
				wit["raw_index_of_last_sample_le_t"] = idx
			}
			if !ok {
				r.Violation(c, level+":emitted-before-first-raw-sample", fmt.Sprintf("emitted t=%d precedes the first raw sample t=%d (%s)", p.T, raw[0].t, class), wit)
				return false, 0
			}
			dir := "too-high"
			if p.V < want {
				dir = "too-low"
			}
			r.Violation(c, fmt.Sprintf("%s:value-differs-from-reset-adjusted-raw:%s:%s", level, where, dir),
				fmt.Sprintf("%s counter read with %s: at t=%d emitted %v, reset-adjusted raw value at the last raw sample <= t (index %d, t=%d) is %v (%s)", level, reader, p.T, p.V, idx, raw[idx].t, want, class), wit)
			return false, 0
		}
	}
	return true, emitted
}

// ---------------------------------------------------------------------------------------------
// C38 - re-downsampling aggregates conserves totals.
// ---------------------------------------------------------------------------------------------

type vfc38Totals struct {
	Count, Sum, Min, Max float64
	N                    int
	FirstT, LastT        int64
}

// vfc38Read sums up the count/sum/min/max aggregates of a chunk list and returns the count timestamps.
func vfc38Read(chks []chunks.Meta) (vfc38Totals, [4][]int64, error) {
	tot := vfc38Totals{Min: math.Inf(1), Max: math.Inf(-1), FirstT: math.MaxInt64, LastT: math.MinInt64}
	var ts [4][]int64
	for _, c := range chks {
		ac, ok := c.Chunk.(*AggrChunk)
		if !ok {
			return tot, ts, fmt.Errorf("chunk [%d,%d] is %T, not *AggrChunk", c.MinTime, c.MaxTime, c.Chunk)
		}
		for a := AggrCount; a <= AggrMax; a++ {
			sub, err := ac.Get(a)
			if err != nil {
				return tot, ts, fmt.Errorf("chunk [%d,%d]: Get(%s): %v", c.MinTime, c.MaxTime, a, err)
			}
			for _, p := range vfc37Drain(sub) {
				ts[a] = append(ts[a], p.T)
				switch a {
				case AggrCount:
					tot.Count += p.V
					tot.N++
					if p.T < tot.FirstT {
						tot.FirstT = p.T
					}
					if p.T > tot.LastT {
						tot.LastT = p.T
					}
				case AggrSum:
					tot.Sum += p.V
				case AggrMin:
					tot.Min = math.Min(tot.Min, p.V)
				case AggrMax:
					tot.Max = math.Max(tot.Max, p.V)
				}
			}
		}
	}
	return tot, ts, nil
}

func TestVF_C38(t *testing.T) {
	r := vfkit.Start(t, "C38")
	defer r.Finish()
	r.Rule("case = 5m aggregate chunks produced by the real DownsampleRaw from a generated raw gauge series (1..3000 samples, integer or 1/8-multiple values so sums are exact, NaN/stale markers single/runs/whole windows, regular/irregular/gappy/sparse scrapes), re-downsampled to 1h with the real downsampleAggr called as Downsample() calls it; " +
		"oracle: total of count, total of sum, overall min and overall max of the output equal those of the 5m input; output timestamps of count/sum/min/max strictly increase and lie within [first,last] 5m input timestamp; " +
		"distinct = hash of the 5m input; non-trivial = the input has >= 2 aggregate samples")
	n := r.N(2000, 40000)
	r.Require(int64(n)*3/4, n/3)
	for c := 0; c < n; c++ {
		if !r.Want(c) {
			continue
		}
		rng := r.Rand(c)
		r.Guard(c, "re-downsampling", nil, func() { vfc38Case(r, c, rng) })
	}
	// Round 2: block level - the real Downsample() on an in-memory 5m block whose series mix AggrChunks with 0..3 stray
	// non-empty plain XOR chunks and empty XOR chunks; totals of the written 1h block must equal the input's.
	nBlock := r.N(150, 1500)
	dir := t.TempDir()
	for c := n; c < n+nBlock; c++ {
		if !r.Want(c) {
			continue
		}
		rng := r.Rand(c)
		r.Guard(c, "block-level-re-downsampling", nil, func() { vfc38BlockCase(r, c, rng, dir) })
	}
	r.Extra("block_level_cases", nBlock)
}

func vfc38Case(r *vfkit.Run, c int, rng *rand.Rand) {
	ts, class := vfc37Times(rng, 3000)
	vs := vfc37GaugeValues(rng, len(ts))
	class += "/" + vfc37InjectNaN(rng, ts, vs, ResLevel1)
	raw := vfc37Samples(ts, vs)
	in := DownsampleRaw(append([]sample(nil), raw...), ResLevel1)
	if len(in) == 0 {
		r.Count("cases_without_5m_output(all NaN)", 1)
		return
	}
	tin, _, err := vfc38Read(in)
	if err != nil {
		// the 5m input itself is unreadable: not this property's subject (C36 / C39), but it cannot be used
		r.Count("unreadable_5m_input", 1)
		return
	}
	var acs []*AggrChunk
	numSamples := 0
	for _, ch := range in {
		ac := ch.Chunk.(*AggrChunk)
		acs = append(acs, ac)
		numSamples += ac.NumSamples()
	}
	mint, maxt := in[0].MinTime, in[len(in)-1].MaxTime
	wit := func(extra map[string]any) map[string]any {
		m := map[string]any{"class": class, "input_5m_chunks": vfc37ChunkBrief(in), "input_totals": tin, "raw_samples": len(raw)}
		if len(raw) <= 40 {
			m["raw"] = vfc37Window(raw, 0, len(raw))
		}
		for k, v := range extra {
			m[k] = v
		}
		return m
	}
	if nc := targetChunkCount(mint, maxt, ResLevel1, ResLevel2, numSamples); len(acs)/nc == 0 {
		r.Count("skipped_batchsize0", 1)
		return
	}
	var buf []sample
	var out []chunks.Meta
	err = downsampleAggr(acs, &buf, mint, maxt, ResLevel1, ResLevel2, &out)
	r.Eval(1)
	if err != nil {
		r.Violation(c, "downsampleAggr-error", "downsampleAggr(5m->1h) failed on chunks produced by DownsampleRaw: "+err.Error(), wit(nil))
		return
	}
	tout, tss, err := vfc38Read(out)
	if err != nil {
		r.Violation(c, "output-unreadable", "output of downsampleAggr cannot be read back: "+err.Error(), wit(map[string]any{"output": vfc37ChunkBrief(out)}))
		return
	}
	if tin.N >= 2 {
		h := fnv.New64a()
		for _, ch := range in {
			h.Write(ch.Chunk.Bytes())
		}
		r.Distinct(fmt.Sprintf("%x", h.Sum64()))
	}
	if len(out) > 1 {
		r.Count("cases_with_multi_chunk_output", 1)
	}
	if len(in) > 1 {
		r.Count("cases_with_multi_chunk_input", 1)
	}
	r.Sample(map[string]any{"class": class, "raw_samples": len(raw), "in_chunks": len(in), "in_aggr_samples": tin.N, "out_chunks": len(out), "out_aggr_samples": tout.N, "total_count": tout.Count, "total_sum": tout.Sum})
	w := func() map[string]any {
		return wit(map[string]any{"output": vfc37ChunkBrief(out), "output_totals": tout})
	}
	if tout.Count != tin.Count {
		r.Violation(c, "total-count-differs", fmt.Sprintf("sum of count over the 1h output is %v, over the 5m input %v (%s)", tout.Count, tin.Count, class), w())
		return
	}
	if tout.Sum != tin.Sum {
		r.Violation(c, "total-sum-differs", fmt.Sprintf("sum of sum over the 1h output is %v, over the 5m input %v (%s)", tout.Sum, tin.Sum, class), w())
		return
	}
	if tout.Min != tin.Min {
		r.Violation(c, "overall-min-differs", fmt.Sprintf("overall min of the 1h output is %v, of the 5m input %v (%s)", tout.Min, tin.Min, class), w())
		return
	}
	if tout.Max != tin.Max {
		r.Violation(c, "overall-max-differs", fmt.Sprintf("overall max of the 1h output is %v, of the 5m input %v (%s)", tout.Max, tin.Max, class), w())
		return
	}
	for a := AggrCount; a <= AggrMax; a++ {
		for i, t := range tss[a] {
			if i > 0 && t <= tss[a][i-1] {
				r.Violation(c, "output-timestamps-not-increasing", fmt.Sprintf("%s aggregate: t[%d]=%d after t[%d]=%d (%s)", a, i, t, i-1, tss[a][i-1], class), w())
				return
			}
			if t < tin.FirstT || t > tin.LastT {
				r.Violation(c, "output-timestamp-outside-input-span", fmt.Sprintf("%s aggregate: output timestamp %d outside the input's span [%d,%d] (%s)", a, t, tin.FirstT, tin.LastT, class), w())
				return
			}
		}
	}
}
