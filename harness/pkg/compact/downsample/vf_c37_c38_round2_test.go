//go:build verif

package downsample

import (
	"bytes"
	"context"
	"fmt"
	"hash/fnv"
	"math"
	"math/rand"
	"os"
	"path/filepath"
	"runtime"
	"sort"
	"sync"

	"github.com/go-kit/log"
	"github.com/prometheus/prometheus/model/labels"
	"github.com/prometheus/prometheus/storage"
	"github.com/prometheus/prometheus/tsdb"
	"github.com/prometheus/prometheus/tsdb/chunkenc"
	"github.com/prometheus/prometheus/tsdb/chunks"
	"github.com/prometheus/prometheus/tsdb/index"
	"github.com/prometheus/prometheus/tsdb/tombstones"

	"github.com/thanos-io/thanos/pkg/block"
	"github.com/thanos-io/thanos/pkg/block/metadata"
	"github.com/thanos-io/thanos/pkg/verifhook/vfkit"
)

// ---------------------------------------------------------------------------------------------
// C37 round 2: the same oracle while several series are downsampled concurrently
// (the compactor runs Downsample with --downsample.concurrency > 1).
// ---------------------------------------------------------------------------------------------

type vfc37Job struct {
	raw   []sample
	adj   []float64
	class string
	seq1  []chunks.Meta // sequential results
	seq2  []chunks.Meta
	skip2 bool
	con1  [][]chunks.Meta // per repetition, produced concurrently
	con2  [][]chunks.Meta
	err   error
}

// vfc37TwoLevels runs both downsampling levels the way Downsample() does for one series.
func vfc37TwoLevels(raw []sample) (l1, l2 []chunks.Meta, skip2 bool, err error) {
	l1 = DownsampleRaw(append([]sample(nil), raw...), ResLevel1)
	if len(l1) == 0 {
		return l1, nil, true, nil
	}
	var acs []*AggrChunk
	numSamples := 0
	for _, ch := range l1 {
		ac := ch.Chunk.(*AggrChunk)
		acs = append(acs, ac)
		numSamples += ac.NumSamples()
	}
	mint, maxt := l1[0].MinTime, l1[len(l1)-1].MaxTime
	if nc := targetChunkCount(mint, maxt, ResLevel1, ResLevel2, numSamples); len(acs)/nc == 0 {
		return l1, nil, true, nil
	}
	var buf []sample
	err = downsampleAggr(acs, &buf, mint, maxt, ResLevel1, ResLevel2, &l2)
	return l1, l2, false, err
}

func vfc37SameChunks(a, b []chunks.Meta) bool {
	if len(a) != len(b) {
		return false
	}
	for i := range a {
		if a[i].MinTime != b[i].MinTime || a[i].MaxTime != b[i].MaxTime || !bytes.Equal(a[i].Chunk.Bytes(), b[i].Chunk.Bytes()) {
			return false
		}
	}
	return true
}

// vfc37ConcurrentCase: 4..8 goroutines downsample DIFFERENT counters at the same time (3 repetitions each);
// every concurrently produced result is decided by the same F(t) oracle as the sequential one.
func vfc37ConcurrentCase(r *vfkit.Run, c int, rng *rand.Rand, procs int) {
	old := runtime.GOMAXPROCS(procs)
	defer runtime.GOMAXPROCS(old)
	workers := 4 + rng.Intn(5)
	const reps = 3
	jobs := make([]*vfc37Job, workers)
	for i := range jobs {
		ts, class := vfc37Times(rng, 3000)
		if len(ts) < 600 { // several batches per series make the phase worthwhile
			ts, class = vfc37Times(rng, 3000)
		}
		resetAt := map[int]bool{}
		for k := 0; k < rng.Intn(9) && len(ts) > 1; k++ {
			resetAt[1+rng.Intn(len(ts)-1)] = true
		}
		raw := vfc37Samples(ts, vfc37Counter(rng, len(ts), resetAt))
		j := &vfc37Job{raw: raw, adj: vfc37Truth(raw), class: class + "/concurrent"}
		j.seq1, j.seq2, j.skip2, j.err = vfc37TwoLevels(raw)
		jobs[i] = j
	}
	start := make(chan struct{})
	var wg sync.WaitGroup
	for _, j := range jobs {
		wg.Add(1)
		go func(j *vfc37Job) {
			defer wg.Done()
			<-start
			for k := 0; k < reps; k++ {
				l1, l2, _, err := vfc37TwoLevels(j.raw)
				if err != nil && j.err == nil {
					j.err = err
				}
				j.con1 = append(j.con1, l1)
				j.con2 = append(j.con2, l2)
				runtime.Gosched()
			}
		}(j)
	}
	close(start)
	wg.Wait()
	differs := 0
	for _, j := range jobs {
		if j.err != nil {
			r.Eval(1)
			r.Violation(c, "concurrent:downsampleAggr-error", "downsampleAggr failed: "+j.err.Error(), map[string]any{"class": j.class, "gomaxprocs": procs, "goroutines": workers})
			return
		}
		// the sequential result is decided by the oracle once, every concurrent one that is not byte-identical to it again
		if ok, _ := vfc37CheckLevel(r, c, rng, "5m", j.raw, j.adj, j.seq1, j.class); !ok {
			return
		}
		if !j.skip2 {
			if ok, _ := vfc37CheckLevel(r, c, rng, "1h", j.raw, j.adj, j.seq2, j.class); !ok {
				return
			}
		}
		for k := 0; k < reps; k++ {
			r.Eval(1)
			if !vfc37SameChunks(j.con1[k], j.seq1) {
				differs++
				if ok, _ := vfc37CheckLevel(r, c, rng, "concurrent:5m", j.raw, j.adj, j.con1[k], j.class); !ok {
					return
				}
			}
			if !j.skip2 && !vfc37SameChunks(j.con2[k], j.seq2) {
				differs++
				if ok, _ := vfc37CheckLevel(r, c, rng, "concurrent:1h", j.raw, j.adj, j.con2[k], j.class); !ok {
					return
				}
			}
		}
	}
	if differs > 0 {
		r.Count("concurrent_results_differing_from_sequential_but_correct", differs)
	}
	r.Count("concurrent_series_downsampled", workers*reps)
	r.Signature(fmt.Sprintf("procs=%d/goroutines=%d", procs, workers))
	r.Distinct(fmt.Sprintf("concurrent|%d|%d|%d", c, procs, workers))
}

// ---------------------------------------------------------------------------------------------
// C38 round 2: block level. Downsample() on a 5m block whose series mix AggrChunks with stray plain XOR
// chunks (thanos#5272: non-empty ones are expanded and downsampled to 5m first, empty ones are skipped).
// ---------------------------------------------------------------------------------------------

// vfc38MemBlock is an in-memory tsdb.BlockReader (index + chunks) holding the input block.
type vfc38MemBlock struct {
	tsdb.IndexReader // unused methods
	lsets            []labels.Labels
	metas            [][]chunks.Meta
	chks             []chunkenc.Chunk
	symbols          map[string]struct{}
}

func (b *vfc38MemBlock) add(lset labels.Labels, chks []chunks.Meta) {
	if b.symbols == nil {
		b.symbols = map[string]struct{}{}
	}
	lset.Range(func(l labels.Label) {
		b.symbols[l.Name] = struct{}{}
		b.symbols[l.Value] = struct{}{}
	})
	ms := make([]chunks.Meta, len(chks))
	for i, m := range chks {
		m.Ref = chunks.ChunkRef(len(b.chks))
		b.chks = append(b.chks, m.Chunk)
		ms[i] = m
	}
	b.lsets = append(b.lsets, lset)
	b.metas = append(b.metas, ms)
}

func (b *vfc38MemBlock) Index() (tsdb.IndexReader, error)  { return b, nil }
func (b *vfc38MemBlock) Chunks() (tsdb.ChunkReader, error) { return b, nil }
func (b *vfc38MemBlock) Tombstones() (tombstones.Reader, error) {
	return tombstones.NewMemTombstones(), nil
}
func (b *vfc38MemBlock) Meta() tsdb.BlockMeta                           { return tsdb.BlockMeta{} }
func (b *vfc38MemBlock) Size() int64                                    { return 0 }
func (b *vfc38MemBlock) Close() error                                   { return nil }
func (b *vfc38MemBlock) SortedPostings(p index.Postings) index.Postings { return p }

func (b *vfc38MemBlock) Postings(_ context.Context, name string, vals ...string) (index.Postings, error) {
	k, v := index.AllPostingsKey()
	if name != k || len(vals) != 1 || vals[0] != v {
		return nil, fmt.Errorf("vfc38MemBlock: only all-postings supported")
	}
	refs := make([]storage.SeriesRef, len(b.lsets))
	for i := range refs {
		refs[i] = storage.SeriesRef(i)
	}
	sort.Slice(refs, func(i, j int) bool { return labels.Compare(b.lsets[refs[i]], b.lsets[refs[j]]) < 0 })
	return index.NewListPostings(refs), nil
}

func (b *vfc38MemBlock) Series(ref storage.SeriesRef, builder *labels.ScratchBuilder, chks *[]chunks.Meta) error {
	if int(ref) >= len(b.lsets) {
		return storage.ErrNotFound
	}
	builder.Reset()
	builder.Assign(b.lsets[ref])
	*chks = append((*chks)[:0], b.metas[ref]...)
	return nil
}

func (b *vfc38MemBlock) Symbols() index.StringIter {
	res := make([]string, 0, len(b.symbols))
	for s := range b.symbols {
		res = append(res, s)
	}
	sort.Strings(res)
	return index.NewStringListIter(res)
}

func (b *vfc38MemBlock) ChunkOrIterable(m chunks.Meta) (chunkenc.Chunk, chunkenc.Iterable, error) {
	if int(m.Ref) >= len(b.chks) {
		return nil, nil, storage.ErrNotFound
	}
	return b.chks[m.Ref], nil, nil
}

type vfc38SeriesPlan struct {
	lset        labels.Labels
	metas       []chunks.Meta
	want        vfc38Totals // totals over every raw non-NaN sample, each counted once
	layout      []string
	strayXOR    int
	fixedChunks int
	fixedSmpls  int
	firstT      int64
	lastT       int64
}

func vfc38XORChunk(seg []sample) chunks.Meta {
	c := chunkenc.NewXORChunk()
	app, _ := c.Appender()
	for _, s := range seg {
		app.Append(s.t, s.v)
	}
	return chunks.Meta{MinTime: seg[0].t, MaxTime: seg[len(seg)-1].t, Chunk: c}
}

// vfc38PlanSeries cuts one raw gauge series into consecutive segments; each becomes 5m AggrChunks (DownsampleRaw)
// or one stray plain XOR chunk holding the raw samples; empty XOR chunks may sit in between.
func vfc38PlanSeries(rng *rand.Rand, idx int) (*vfc38SeriesPlan, bool) {
	ts, class := vfc37Times(rng, 1500)
	vs := vfc37GaugeValues(rng, len(ts))
	class += "/" + vfc37InjectNaN(rng, ts, vs, ResLevel1)
	raw := vfc37Samples(ts, vs)
	p := &vfc38SeriesPlan{lset: labels.FromStrings("__name__", "g", "i", fmt.Sprint(idx)), want: vfc38Totals{Min: math.Inf(1), Max: math.Inf(-1)}}
	p.layout = append(p.layout, class)
	nSeg := 1 + rng.Intn(6)
	if nSeg > len(raw) {
		nSeg = len(raw)
	}
	cuts := map[int]bool{}
	for len(cuts) < nSeg-1 {
		cuts[1+rng.Intn(len(raw)-1)] = true
	}
	var bounds []int
	for c := range cuts {
		bounds = append(bounds, c)
	}
	sort.Ints(bounds)
	bounds = append(bounds, len(raw))
	strayBudget := rng.Intn(4) // 0..3 stray non-empty XOR chunks in this series
	lo := 0
	for _, hi := range bounds {
		seg := raw[lo:hi]
		lo = hi
		// an empty XOR chunk before the segment if there is room on the time axis
		if rng.Intn(6) == 0 && len(p.metas) > 0 && seg[0].t-p.metas[len(p.metas)-1].MaxTime >= 2 {
			t := p.metas[len(p.metas)-1].MaxTime + 1
			p.metas = append(p.metas, chunks.Meta{MinTime: t, MaxTime: t, Chunk: chunkenc.NewXORChunk()})
			p.layout = append(p.layout, "emptyXOR")
		}
		stray := strayBudget > 0 && (len(seg) <= 200 || rng.Intn(3) == 0) && rng.Intn(2) == 0
		if stray {
			strayBudget--
			p.strayXOR++
			p.metas = append(p.metas, vfc38XORChunk(seg))
			p.layout = append(p.layout, fmt.Sprintf("XOR(%d)", len(seg)))
			// what the chunk-fixing loop will turn it into (needed for the batch-size guard only)
			var kept []sample
			for _, s := range seg {
				if !math.IsNaN(s.v) {
					kept = append(kept, s)
				}
			}
			for _, m := range DownsampleRaw(kept, ResLevel1) {
				p.fixedChunks++
				p.fixedSmpls += m.Chunk.(*AggrChunk).NumSamples()
			}
		} else {
			ms := DownsampleRaw(append([]sample(nil), seg...), ResLevel1)
			p.metas = append(p.metas, ms...)
			p.layout = append(p.layout, fmt.Sprintf("aggr(%d raw -> %d chunks)", len(seg), len(ms)))
			for _, m := range ms {
				p.fixedChunks++
				p.fixedSmpls += m.Chunk.(*AggrChunk).NumSamples()
			}
		}
		for _, s := range seg {
			if math.IsNaN(s.v) {
				continue
			}
			p.want.Count++
			p.want.Sum += s.v
			p.want.Min = math.Min(p.want.Min, s.v)
			p.want.Max = math.Max(p.want.Max, s.v)
		}
	}
	nonEmpty := false
	for _, m := range p.metas {
		if m.Chunk.NumSamples() > 0 {
			nonEmpty = true
		}
	}
	if !nonEmpty || p.fixedChunks == 0 {
		return nil, false
	}
	p.firstT, p.lastT = p.metas[0].MinTime, p.metas[len(p.metas)-1].MaxTime
	// guard (see C37/C38 round 1): downsampleAggrLoop must not be entered with batch size 0
	if nc := targetChunkCount(p.firstT, p.lastT, ResLevel1, ResLevel2, p.fixedSmpls); p.fixedChunks/nc == 0 {
		return nil, false
	}
	return p, true
}

func vfc38BlockCase(r *vfkit.Run, c int, rng *rand.Rand, dir string) {
	mb := &vfc38MemBlock{}
	plans := map[string]*vfc38SeriesPlan{}
	var layouts []any
	stray := 0
	for i := 0; i < 1+rng.Intn(3); i++ {
		p, ok := vfc38PlanSeries(rng, i)
		if !ok {
			r.Count("block_series_skipped(no usable chunk / batch-size guard)", 1)
			continue
		}
		mb.add(p.lset, p.metas)
		plans[p.lset.String()] = p
		layouts = append(layouts, map[string]any{"series": p.lset.String(), "layout": p.layout})
		stray += p.strayXOR
	}
	if len(plans) == 0 {
		return
	}
	d, err := os.MkdirTemp(dir, "vfc38")
	if err != nil {
		r.T.Fatalf("harness: %v", err)
	}
	defer os.RemoveAll(d)
	ctx := context.Background()
	meta := &metadata.Meta{Thanos: metadata.Thanos{Downsample: metadata.ThanosDownsample{Resolution: ResLevel1}}}
	id, err := Downsample(ctx, log.NewNopLogger(), meta, mb, d, ResLevel2)
	r.Eval(1)
	wit := func(extra map[string]any) map[string]any {
		m := map[string]any{"input_block_series": layouts}
		for k, v := range extra {
			m[k] = v
		}
		return m
	}
	if err != nil {
		r.Violation(c, "block:Downsample-error", "Downsample(5m block -> 1h) failed on a well-formed block: "+err.Error(), wit(nil))
		return
	}
	bdir := filepath.Join(d, id.String())
	indexr, err := index.NewFileReader(filepath.Join(bdir, block.IndexFilename), index.DecodePostingsRaw)
	if err != nil {
		r.Violation(c, "block:output-index-unreadable", err.Error(), wit(nil))
		return
	}
	defer indexr.Close()
	chunkr, err := chunks.NewDirReader(filepath.Join(bdir, block.ChunksDirname), NewPool())
	if err != nil {
		r.Violation(c, "block:output-chunks-unreadable", err.Error(), wit(nil))
		return
	}
	defer chunkr.Close()
	k, v := index.AllPostingsKey()
	pall, err := indexr.Postings(ctx, k, v)
	if err != nil {
		r.Violation(c, "block:output-index-unreadable", err.Error(), wit(nil))
		return
	}
	seen := map[string]bool{}
	var builder labels.ScratchBuilder
	for pall.Next() {
		var chks []chunks.Meta
		if err := indexr.Series(pall.At(), &builder, &chks); err != nil {
			r.Violation(c, "block:output-index-unreadable", err.Error(), wit(nil))
			return
		}
		lset := builder.Labels().String()
		p, ok := plans[lset]
		if !ok {
			r.Violation(c, "block:unexpected-series", "output block holds series "+lset+" which is not in the input block", wit(nil))
			return
		}
		seen[lset] = true
		for i := range chks {
			ch, _, err := chunkr.ChunkOrIterable(chks[i])
			if err != nil {
				r.Violation(c, "block:output-chunks-unreadable", err.Error(), wit(nil))
				return
			}
			chks[i].Chunk = ch
		}
		got, tss, err := vfc38Read(chks)
		w := func() map[string]any {
			return wit(map[string]any{"series": lset, "layout": p.layout, "output_chunks": vfc37ChunkBrief(chks), "output_totals": got, "input_totals": p.want})
		}
		if err != nil {
			r.Violation(c, "block:output-unreadable", "output series "+lset+": "+err.Error(), w())
			return
		}
		r.Eval(1)
		strayClass := "no-stray-xor-chunk"
		switch {
		case p.strayXOR == 1:
			strayClass = "one-stray-xor-chunk"
		case p.strayXOR > 1:
			strayClass = "several-stray-xor-chunks"
		}
		for _, f := range []struct {
			name      string
			got, want float64
		}{{"total-count", got.Count, p.want.Count}, {"total-sum", got.Sum, p.want.Sum}, {"overall-min", got.Min, p.want.Min}, {"overall-max", got.Max, p.want.Max}} {
			if f.got != f.want {
				r.Violation(c, "block:"+f.name+"-differs:"+strayClass, fmt.Sprintf("series %s: %s of the 1h output block is %v, of the 5m input block %v (%v)", lset, f.name, f.got, f.want, p.layout), w())
				return
			}
		}
		for a := AggrCount; a <= AggrMax; a++ {
			for i, t := range tss[a] {
				if i > 0 && t <= tss[a][i-1] {
					r.Violation(c, "block:output-timestamps-not-increasing", fmt.Sprintf("series %s, %s aggregate: t[%d]=%d after t[%d]=%d", lset, a, i, t, i-1, tss[a][i-1]), w())
					return
				}
				if t < p.firstT || t > p.lastT {
					r.Violation(c, "block:output-timestamp-outside-input-span", fmt.Sprintf("series %s, %s aggregate: output timestamp %d outside the input's span [%d,%d]", lset, a, t, p.firstT, p.lastT), w())
					return
				}
			}
		}
	}
	if err := pall.Err(); err != nil {
		r.Violation(c, "block:output-index-unreadable", err.Error(), wit(nil))
		return
	}
	for l := range plans {
		if !seen[l] {
			r.Violation(c, "block:series-missing", "input series "+l+" is not in the output block", wit(nil))
			return
		}
	}
	if stray > 0 {
		r.Count("block_cases_with_stray_xor_chunks", 1)
	}
	if stray > 1 {
		r.Count("block_cases_with_several_stray_xor_chunks", 1)
	}
	h := fnv.New64a()
	fmt.Fprint(h, layouts)
	r.Distinct(fmt.Sprintf("block|%x|%d", h.Sum64(), c))
	r.Sample(map[string]any{"kind": "block-level", "input_block_series": layouts})
}

// vfc37Procs cycles GOMAXPROCS for the concurrent phase.
var vfc37Procs = []int{1, 2, 4, 16}
