//go:build verif

package compact

import (
	"bytes"
	"context"
	"errors"
	"fmt"
	"io"
	"math/rand"
	"path"
	"strings"
	"sync"
	"time"

	"github.com/oklog/ulid/v2"
	"github.com/thanos-io/objstore"
)

// vfcfbULID builds a ULID with the given millisecond time and entropy from rng.
func vfcfbULID(rng *rand.Rand, ms uint64) ulid.ULID {
	var e [10]byte
	for i := range e {
		e[i] = byte(rng.Intn(256))
	}
	id, err := ulid.New(ms, bytes.NewReader(e[:]))
	if err != nil {
		panic(err)
	}
	return id
}

// ---------------------------------------------------------------------------------------------
// Fault bucket (DESIGN.md section 4), shared by the pkg/compact monitors C29, C32, C33, C34.
//
// One core wraps objstore.NewInMemBucket(); any number of views of the core implement
// objstore.Bucket. Every operation of every view is numbered by one shared logical counter and
// classified (kind, object class, mutating/read). The core can
//   (i)   call an online invariant checker after every mutating operation,
//   (ii)  fail-stop at the k-th mutating operation (that operation and every later operation of
//         every view fail: nothing can touch the bucket any more, as after a crash),
//   (iii) fail the r-th read of the views that are marked as fault views, once,
//   (iv)  fail ONE mutating operation transiently (lost, or applied but reported as failed) or one read of the other views; later operations work,
//   (v)   serve chosen LastModified attributes (or none, as providers without support do).
// ---------------------------------------------------------------------------------------------

type vfcfbOp struct {
	applyThenFail bool
	bodyCut       int
	Seq           int    `json:"seq"`
	View          string `json:"view"`
	Kind          string `json:"kind"` // upload delete get getrange exists attributes iter
	Name          string `json:"name"`
	Class         string `json:"class"` // meta deletion-mark no-compact-mark index chunks listing other
	Mutating      bool   `json:"mutating"`
	Failed        bool   `json:"failed,omitempty"`
	MutSeq        int    `json:"mut_seq,omitempty"`
	ReadSeq       int    `json:"read_seq,omitempty"`
}

var vfcfbErrCrash = errors.New("vfcfb: process crashed (fail-stop)")
var vfcfbErrTransient = errors.New("vfcfb: injected transient read failure")

func vfcfbClassOf(kind, name string) string {
	if kind == "iter" {
		return "listing"
	}
	base := path.Base(name)
	switch {
	case base == "meta.json":
		return "meta"
	case base == "deletion-mark.json":
		return "deletion-mark"
	case base == "no-compact-mark.json":
		return "no-compact-mark"
	case base == "index":
		return "index"
	case strings.Contains(name, "/chunks/"):
		return "chunks"
	}
	return "other"
}

type vfcfbCore struct {
	mem *objstore.InMemBucket

	mu            sync.Mutex
	seq           int
	mutSeq        int
	readSeq       int // reads of fault views only
	log           []vfcfbOp
	keepLog       bool
	failStopMut   int // fail-stop when the failStopMut-th mutating op is attempted (0 = never)
	stopped       bool
	onStop        func()
	failReadSeq   int // the failReadSeq-th read of a fault view fails once (0 = never)
	failReadErr   error
	failedRead    *vfcfbOp
	failReadBody  int              // 0: the armed read fails as a call; 1,2,3: a "get" succeeds but its reader fails after 0 / half / len-1 bytes
	lastModAll    time.Time        // if set: the LastModified served for every object without an own entry in lastMod
	attrIterAll   int              // > 0: IterWithAttributes of every non-root directory fails after attrIterAll-1 entries
	attrIterFault map[string]int   // IterWithAttributes of this directory fails after yielding n entries (plain Iter, Get, Delete keep working)
	beforeOp      func(op vfcfbOp) // hook run (outside the lock) before operation number beforeOpSeq is executed
	beforeOpSeq   int
	// transient faults (one operation fails once, every later operation works):
	transMut       int    // the transMut-th mutating operation ...
	transMutMode   string // ... "lost": is not applied and fails; "applied": is applied but reported as failed
	transOtherRead int    // the transOtherRead-th read of the views that are NOT fault views fails once
	otherReadSeq   int
	transHit       *vfcfbOp
	afterMut       func(op vfcfbOp) // online invariant checker; runs after the mutation is applied, serialised
	checkMu        sync.Mutex
	lastMod        map[string]time.Time           // served LastModified per object name (overrides the in-memory bucket's)
	noLastMod      bool                           // serve no LastModified at all
	jitter         func(op vfcfbOp) time.Duration // optional latency of a successful read, a pure function of the operation (schedule diversity at the client boundary)
}

func vfcfbNew() *vfcfbCore {
	return &vfcfbCore{mem: objstore.NewInMemBucket(), lastMod: map[string]time.Time{}, keepLog: true}
}

func (c *vfcfbCore) view(name string, faultReads bool) *vfcfbView {
	return &vfcfbView{core: c, name: name, faultReads: faultReads}
}

// reset clears counters, log and armed faults (the objects stay).
func (c *vfcfbCore) reset() {
	c.mu.Lock()
	defer c.mu.Unlock()
	c.seq, c.mutSeq, c.readSeq = 0, 0, 0
	c.log = nil
	c.failStopMut, c.stopped, c.onStop = 0, false, nil
	c.failReadSeq, c.failReadErr, c.failedRead = 0, nil, nil
	c.transMut, c.transMutMode, c.transOtherRead, c.otherReadSeq, c.transHit = 0, "", 0, 0, nil
	c.failReadBody, c.beforeOp, c.beforeOpSeq = 0, nil, 0
}

// armTransient arms one transient fault: mutating operation number mut ("lost" / "applied") or read number otherRead of the non-fault views.
func (c *vfcfbCore) armTransient(mut int, mode string, otherRead int) {
	c.mu.Lock()
	c.transMut, c.transMutMode, c.transOtherRead, c.transHit = mut, mode, otherRead, nil
	c.mu.Unlock()
}

func (c *vfcfbCore) transientHit() *vfcfbOp {
	c.mu.Lock()
	defer c.mu.Unlock()
	return c.transHit
}

func (c *vfcfbCore) otherReads() int {
	c.mu.Lock()
	defer c.mu.Unlock()
	return c.otherReadSeq
}

// armReadFault makes the n-th read of the fault views fail once with err (under the core's lock: the code under test may have
// left goroutines behind that still use the bucket).
func (c *vfcfbCore) armReadFault(n int, err error) {
	c.mu.Lock()
	c.failReadSeq, c.failReadErr, c.failReadBody, c.failedRead = n, err, 0, nil
	c.mu.Unlock()
}

// armReadBodyFault: the n-th read of the fault views, if it is a get, succeeds as a call but its reader fails after
// 0 (cut=1), half (cut=2) or all but one (cut=3) bytes; a read that returns no reader is left alone.
func (c *vfcfbCore) armReadBodyFault(n, cut int) {
	c.mu.Lock()
	c.failReadSeq, c.failReadErr, c.failReadBody, c.failedRead = n, nil, cut, nil
	c.mu.Unlock()
}

// armReadFaultRelative arms a fault at the n-th read of the fault views counted from now.
func (c *vfcfbCore) armReadFaultRelative(n int, err error, cut int) {
	c.mu.Lock()
	c.failReadSeq, c.failReadErr, c.failReadBody, c.failedRead = c.readSeq+n, err, cut, nil
	c.mu.Unlock()
}

func (c *vfcfbCore) setAttrIterAll(n int) {
	c.mu.Lock()
	c.attrIterAll = n
	c.mu.Unlock()
}

func (c *vfcfbCore) setLastModAll(t time.Time) {
	c.mu.Lock()
	c.lastModAll = t
	c.mu.Unlock()
}

func (c *vfcfbCore) setBeforeOp(seq int, f func(vfcfbOp)) {
	c.mu.Lock()
	c.beforeOpSeq, c.beforeOp = seq, f
	c.mu.Unlock()
}

func (c *vfcfbCore) setAttrIterFault(dir string, afterEntries int) {
	c.mu.Lock()
	if c.attrIterFault == nil {
		c.attrIterFault = map[string]int{}
	}
	c.attrIterFault[dir] = afterEntries
	c.mu.Unlock()
}

func (c *vfcfbCore) failedReadOp() *vfcfbOp {
	c.mu.Lock()
	defer c.mu.Unlock()
	return c.failedRead
}

func (c *vfcfbCore) counts() (ops, muts, reads int) {
	c.mu.Lock()
	defer c.mu.Unlock()
	return c.seq, c.mutSeq, c.readSeq
}

func (c *vfcfbCore) ops() []vfcfbOp {
	c.mu.Lock()
	defer c.mu.Unlock()
	return append([]vfcfbOp(nil), c.log...)
}

func (c *vfcfbCore) isStopped() bool {
	c.mu.Lock()
	defer c.mu.Unlock()
	return c.stopped
}

func (c *vfcfbCore) setLastModified(name string, t time.Time) {
	c.mu.Lock()
	c.lastMod[name] = t
	c.mu.Unlock()
}

// begin numbers and classifies one operation and decides whether it fails.
func (c *vfcfbCore) begin(v *vfcfbView, kind, name string, mutating bool) (vfcfbOp, error) {
	c.mu.Lock()
	c.seq++
	op := vfcfbOp{Seq: c.seq, View: v.name, Kind: kind, Name: name, Class: vfcfbClassOf(kind, name), Mutating: mutating}
	var err error
	var stopNow func()
	switch {
	case c.stopped:
		err = vfcfbErrCrash
	case mutating:
		c.mutSeq++
		op.MutSeq = c.mutSeq
		if c.failStopMut > 0 && c.mutSeq >= c.failStopMut {
			c.stopped = true
			stopNow = c.onStop
			err = vfcfbErrCrash
		} else if c.transMut > 0 && c.mutSeq == c.transMut {
			if c.transMutMode == "applied" {
				op.applyThenFail = true
			} else {
				err = vfcfbErrTransient
			}
			cp := op
			c.transHit = &cp
		}
	case !v.faultReads && v.name != "setup":
		c.otherReadSeq++
		if c.transOtherRead > 0 && c.otherReadSeq == c.transOtherRead {
			err = vfcfbErrTransient
			cp := op
			c.transHit = &cp
		}
	case v.faultReads:
		c.readSeq++
		op.ReadSeq = c.readSeq
		if c.failReadSeq > 0 && c.readSeq == c.failReadSeq {
			if c.failReadBody > 0 {
				if kind == "get" {
					op.bodyCut = c.failReadBody
				}
			} else {
				err = c.failReadErr
				if err == nil {
					err = vfcfbErrTransient
				}
			}
		}
	}
	op.Failed = err != nil
	if op.Failed && !mutating && v.faultReads && c.failedRead == nil && !c.stopped {
		cp := op
		c.failedRead = &cp
	}
	if c.keepLog {
		c.log = append(c.log, op)
	}
	var hook func(vfcfbOp)
	if c.beforeOp != nil && c.beforeOpSeq == c.seq {
		hook = c.beforeOp
	}
	c.mu.Unlock()
	if stopNow != nil {
		stopNow()
	}
	if hook != nil {
		hook(op)
	}
	return op, err
}

func (c *vfcfbCore) done(op vfcfbOp) {
	if !op.Mutating {
		return
	}
	c.mu.Lock()
	f := c.afterMut
	c.mu.Unlock()
	if f != nil {
		c.checkMu.Lock()
		f(op)
		c.checkMu.Unlock()
	}
}

type vfcfbView struct {
	core       *vfcfbCore
	name       string
	faultReads bool
}

var _ objstore.Bucket = &vfcfbView{}

func (v *vfcfbView) Close() error                   { return nil }
func (v *vfcfbView) Name() string                   { return "vfcfb-" + v.name }
func (v *vfcfbView) Provider() objstore.ObjProvider { return objstore.MEMORY }
func (v *vfcfbView) IsObjNotFoundErr(err error) bool {
	return v.core.mem.IsObjNotFoundErr(err)
}
func (v *vfcfbView) IsAccessDeniedErr(err error) bool { return false }
func (v *vfcfbView) SupportedIterOptions() []objstore.IterOptionType {
	return v.core.mem.SupportedIterOptions()
}

func (v *vfcfbView) Upload(ctx context.Context, name string, r io.Reader, opts ...objstore.ObjectUploadOption) error {
	// read the body first: a crash in the middle of an upload leaves no object
	body, rerr := io.ReadAll(r)
	op, err := v.core.begin(v, "upload", name, true)
	if err != nil {
		return err
	}
	if rerr != nil {
		return rerr
	}
	if err := ctx.Err(); err != nil {
		return err
	}
	if err := v.core.mem.Upload(ctx, name, strings.NewReader(string(body)), opts...); err != nil {
		return err
	}
	v.core.done(op)
	if op.applyThenFail {
		return vfcfbErrTransient
	}
	return nil
}

func (v *vfcfbView) Delete(ctx context.Context, name string) error {
	op, err := v.core.begin(v, "delete", name, true)
	if err != nil {
		return err
	}
	if err := ctx.Err(); err != nil {
		return err
	}
	if err := v.core.mem.Delete(ctx, name); err != nil {
		return err
	}
	v.core.mu.Lock()
	delete(v.core.lastMod, name)
	v.core.mu.Unlock()
	v.core.done(op)
	if op.applyThenFail {
		return vfcfbErrTransient
	}
	return nil
}

func (v *vfcfbView) Iter(ctx context.Context, dir string, f func(string) error, options ...objstore.IterOption) error {
	if _, err := v.core.begin(v, "iter", dir, false); err != nil {
		return err
	}
	if err := ctx.Err(); err != nil {
		return err
	}
	return v.core.mem.Iter(ctx, dir, f, options...)
}

func (v *vfcfbView) IterWithAttributes(ctx context.Context, dir string, f func(objstore.IterObjectAttributes) error, options ...objstore.IterOption) error {
	if _, err := v.core.begin(v, "iter", dir, false); err != nil {
		return err
	}
	if err := ctx.Err(); err != nil {
		return err
	}
	v.core.mu.Lock()
	failAfter, faulty := v.core.attrIterFault[dir]
	if !faulty && v.core.attrIterAll > 0 && dir != "" {
		failAfter, faulty = v.core.attrIterAll-1, true
	}
	all := v.core.lastModAll
	v.core.mu.Unlock()
	yielded := 0
	err := v.core.mem.IterWithAttributes(ctx, dir, func(a objstore.IterObjectAttributes) error {
		if faulty && yielded >= failAfter {
			return vfcfbErrTransient
		}
		yielded++
		v.core.mu.Lock()
		lm, ok := v.core.lastMod[a.Name]
		none := v.core.noLastMod
		v.core.mu.Unlock()
		if !ok && !all.IsZero() {
			lm, ok = all, true
		}
		if none {
			a.SetLastModified(time.Time{})
		} else if ok {
			if _, asked := a.LastModified(); asked {
				a.SetLastModified(lm)
			}
		}
		return f(a)
	}, options...)
	if err == nil && faulty {
		return vfcfbErrTransient // the listing breaks at its end
	}
	return err
}

func (v *vfcfbView) Get(ctx context.Context, name string) (io.ReadCloser, error) {
	op, err := v.core.begin(v, "get", name, false)
	if err != nil {
		return nil, err
	}
	if err := ctx.Err(); err != nil {
		return nil, err
	}
	rc, err := v.core.mem.Get(ctx, name)
	if err != nil || op.bodyCut == 0 {
		return rc, err
	}
	body, rerr := io.ReadAll(rc)
	_ = rc.Close()
	if rerr != nil {
		return nil, rerr
	}
	n := 0
	switch op.bodyCut {
	case 2:
		n = len(body) / 2
	case 3:
		n = len(body) - 1
	}
	if n < 0 {
		n = 0
	}
	// the fault is injected only now: the object exists and a reader is handed out
	v.core.mu.Lock()
	if v.core.failedRead == nil {
		cp := op
		cp.Failed = true
		v.core.failedRead = &cp
	}
	v.core.mu.Unlock()
	return &vfcfbCutReader{data: body[:n]}, nil
}

// vfcfbCutReader yields a prefix of an object and then a transient error (a connection that breaks mid-stream).
type vfcfbCutReader struct {
	data []byte
	off  int
}

func (r *vfcfbCutReader) Read(p []byte) (int, error) {
	if r.off >= len(r.data) {
		return 0, vfcfbErrTransient
	}
	n := copy(p, r.data[r.off:])
	r.off += n
	return n, nil
}

func (r *vfcfbCutReader) Close() error { return nil }

func (v *vfcfbView) GetRange(ctx context.Context, name string, off, length int64) (io.ReadCloser, error) {
	if _, err := v.core.begin(v, "getrange", name, false); err != nil {
		return nil, err
	}
	if err := ctx.Err(); err != nil {
		return nil, err
	}
	return v.core.mem.GetRange(ctx, name, off, length)
}

func (v *vfcfbView) Exists(ctx context.Context, name string) (bool, error) {
	op, err := v.core.begin(v, "exists", name, false)
	if err != nil {
		return false, err
	}
	v.core.mu.Lock()
	j := v.core.jitter
	v.core.mu.Unlock()
	if j != nil {
		if d := j(op); d > 0 {
			time.Sleep(d)
		}
	}
	if err := ctx.Err(); err != nil {
		return false, err
	}
	return v.core.mem.Exists(ctx, name)
}

func (v *vfcfbView) Attributes(ctx context.Context, name string) (objstore.ObjectAttributes, error) {
	if _, err := v.core.begin(v, "attributes", name, false); err != nil {
		return objstore.ObjectAttributes{}, err
	}
	if err := ctx.Err(); err != nil {
		return objstore.ObjectAttributes{}, err
	}
	a, err := v.core.mem.Attributes(ctx, name)
	if err != nil {
		return a, err
	}
	v.core.mu.Lock()
	if lm, ok := v.core.lastMod[name]; ok {
		a.LastModified = lm
	} else if !v.core.lastModAll.IsZero() {
		a.LastModified = v.core.lastModAll
	}
	if v.core.noLastMod {
		a.LastModified = time.Time{}
	}
	v.core.mu.Unlock()
	return a, nil
}

// vfcfbBlockDirs lists the block directories present in the underlying bucket and their object names.
func vfcfbBlockDirs(mem *objstore.InMemBucket) map[string][]string {
	out := map[string][]string{}
	for name := range mem.Objects() {
		i := strings.IndexByte(name, '/')
		if i <= 0 {
			continue
		}
		out[name[:i]] = append(out[name[:i]], name[i+1:])
	}
	return out
}

func vfcfbFmtOps(ops []vfcfbOp, max int) []string {
	var out []string
	for _, o := range ops {
		if len(out) >= max {
			out = append(out, "...")
			break
		}
		s := fmt.Sprintf("#%d %s %s %s", o.Seq, o.View, o.Kind, o.Name)
		if o.Failed {
			s += " FAILED"
		}
		out = append(out, s)
	}
	return out
}
