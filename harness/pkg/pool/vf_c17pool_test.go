//go:build verif

package pool

// C17 (BucketedPool half): a size-bounded pool never has more bytes checked out than its configured
// maximum, usage returns to zero once every buffer is returned, and no two outstanding buffers alias.
//
// Everything is observed at the public API (NewBucketedPool / Get / Put / UsedBytes); p.sizes is read
// only to aim request sizes at bucket boundaries, never by the oracle.

import (
	"fmt"
	"math/rand"
	"runtime"
	"strings"
	"sync"
	"testing"
	"unsafe"

	"github.com/thanos-io/thanos/pkg/verifhook/vfkit"
)

type vfc17Cfg struct {
	Min, Max int
	Factor   float64
	MaxTotal uint64
}

type vfc17Op struct {
	Get  bool `json:"get"`
	Size int  `json:"size,omitempty"` // requested size for Get
	Pick int  `json:"pick,omitempty"` // for Put: index (mod number outstanding) of the buffer returned
}

type vfc17Buf struct {
	b    *[]byte
	req  int
	capa int
	tag  byte
	base unsafe.Pointer
}

// vfc17Shadow is the monitor's own account of what is checked out. Guarded by mu.
type vfc17Shadow struct {
	mu       sync.Mutex
	out      map[*[]byte]*vfc17Buf
	capSum   uint64 // buffers certainly checked out (removed before the real Put starts)
	reqSum   uint64
	pendCap  uint64 // buffers whose Put is in flight: the pool may or may not have booked them yet
	pendReq  uint64
	peakOut  int
	rounded  int
	refused  int
	gets     int
	puts     int
	order    []byte
	violated bool
}

func vfc17GenCfg(rng *rand.Rand) vfc17Cfg {
	c := vfc17Cfg{Min: vfkit.Pick(rng, []int{1, 2, 3, 8, 10, 16, 64, 100}), Factor: vfkit.Pick(rng, []float64{2, 2, 3, 1.5, 2.5})}
	// NewBucketedPool loops forever when int(s*factor) == s; that is a constructor precondition, not this property.
	if int(float64(c.Min)*c.Factor) <= c.Min {
		c.Factor = 2
	}
	steps := rng.Intn(7)
	top := float64(c.Min)
	for i := 0; i < steps; i++ {
		top *= c.Factor
	}
	c.Max = c.Min + rng.Intn(int(top)-c.Min+1)
	if rng.Intn(25) == 0 && c.Min > 1 {
		c.Max = 1 + rng.Intn(c.Min-1) // no bucket at all: every Get allocates directly
	}
	return c
}

// vfc17Size aims at bucket boundaries, zero, tiny and above-the-largest-bucket requests.
func vfc17Size(rng *rand.Rand, sizes []int, maxSize int) int {
	switch k := rng.Intn(10); {
	case k < 5 && len(sizes) > 0:
		s := sizes[rng.Intn(len(sizes))] + rng.Intn(3) - 1
		if s < 0 {
			s = 0
		}
		return s
	case k < 7:
		return rng.Intn(maxSize + 2)
	case k == 7:
		return maxSize + 1 + rng.Intn(maxSize+8)
	case k == 8:
		return rng.Intn(3)
	default:
		if len(sizes) > 1 {
			i := rng.Intn(len(sizes) - 1)
			return sizes[i] + 1 + rng.Intn(sizes[i+1]-sizes[i])
		}
		return 1 + rng.Intn(maxSize+1)
	}
}

func vfc17GenOps(rng *rand.Rand, sizes []int, maxSize, n int) []vfc17Op {
	ops := make([]vfc17Op, 0, n)
	outstanding := 0
	for i := 0; i < n; i++ {
		if outstanding > 0 && rng.Intn(5) < 2 {
			ops = append(ops, vfc17Op{Pick: rng.Intn(1 << 16)})
			outstanding-- // may be optimistic when the Get was refused; the runner skips Puts with nothing outstanding
			continue
		}
		ops = append(ops, vfc17Op{Get: true, Size: vfc17Size(rng, sizes, maxSize)})
		outstanding++
	}
	return ops
}

func vfc17Budget(rng *rand.Rand, ops []vfc17Op) uint64 {
	sum := 0
	for _, o := range ops {
		if o.Get {
			sum += o.Size
		}
	}
	if sum == 0 {
		sum = 1
	}
	var b int
	switch rng.Intn(8) {
	case 0:
		return 0 // unlimited
	case 1:
		b = sum/8 + 1
	case 2:
		b = sum/4 + 1
	case 3:
		b = sum/2 + 1
	case 4:
		b = sum
	case 5:
		b = sum + rng.Intn(3) - 1
	case 6:
		b = 1 + rng.Intn(sum)
	default:
		b = 2 * sum
	}
	if b < 1 {
		b = 1
	}
	return uint64(b)
}

func vfc17Witness(cfg vfc17Cfg, sizes []int, streams [][]vfc17Op, extra map[string]any) map[string]any {
	m := map[string]any{"min_size": cfg.Min, "max_size": cfg.Max, "factor": cfg.Factor, "max_total": cfg.MaxTotal, "bucket_sizes": sizes, "ops_per_goroutine": streams}
	for k, v := range extra {
		m[k] = v
	}
	return m
}

// vfc17Runner executes op streams against one real pool and feeds the shadow account.
type vfc17Runner struct {
	r       *vfkit.Run
	c       int
	cfg     vfc17Cfg
	p       *BucketedPool[byte]
	sh      *vfc17Shadow
	streams [][]vfc17Op
	sizes   []int

	sequential bool
}

func (x *vfc17Runner) violate(fp, what string, extra map[string]any) {
	// one report per case: the first one explains the rest
	if x.sh.violated {
		return
	}
	x.sh.violated = true
	x.r.Violation(x.c, fp, what, vfc17Witness(x.cfg, x.sizes, x.streams, extra))
}

// checkBudgetLocked is called with sh.mu held after the shadow account changed or UsedBytes was read.
func (x *vfc17Runner) checkBudgetLocked(used uint64, where string) {
	x.r.Eval(1)
	max := x.cfg.MaxTotal
	if max == 0 {
		return
	}
	sh := x.sh
	if sh.capSum > max || used > max {
		// Sequentially the shadow is exact and so are the classes. Concurrently the shadow lags behind the pool
		// (a Get booked by the pool but not yet here, a Put removed here but not yet booked there), so only
		// "requested-bytes" is claimed when it is certain; the counter-only class is sequential-only.
		fp := "used-exceeds-max:bucket-rounding"
		why := "the requested sizes checked out fit the budget, the bucket capacities charged for them do not"
		switch {
		case x.sequential && sh.capSum <= max:
			fp = "usedbytes-exceeds-max:counter-only"
			why = "the buffers checked out fit the budget but the pool's own counter does not"
		case sh.reqSum > max:
			fp = "used-exceeds-max:requested-bytes"
			why = "even the requested sizes checked out exceed the budget"
		}
		x.violate(fp, fmt.Sprintf("%s: maxTotal=%d, capacity checked out=%d (+%d with a Put in flight), requested bytes checked out=%d (+%d), UsedBytes()=%d (%s)", where, max, sh.capSum, sh.pendCap, sh.reqSum, sh.pendReq, used, why),
			map[string]any{"checked_out_capacity": sh.capSum, "checked_out_requested": sh.reqSum, "put_in_flight_capacity": sh.pendCap, "used_bytes": used, "where": where})
	}
}

// doPut returns one of the buffers this goroutine owns (shadow account first, then the real Put).
func (x *vfc17Runner) doPut(mine *[]*[]byte, pick int) {
	if len(*mine) == 0 {
		return
	}
	i := pick % len(*mine)
	b := (*mine)[i]
	(*mine)[i] = (*mine)[len(*mine)-1]
	*mine = (*mine)[:len(*mine)-1]

	sh := x.sh
	sh.mu.Lock()
	nb := sh.out[b]
	delete(sh.out, b)
	sh.capSum -= uint64(nb.capa)
	sh.reqSum -= uint64(nb.req)
	sh.puts++
	x.r.Eval(1)
	for _, v := range (*b)[:nb.capa] {
		if v != nb.tag {
			x.violate("buffer-content-changed-while-checked-out", fmt.Sprintf("a checked-out buffer (requested %d, capacity %d) was overwritten by somebody else", nb.req, nb.capa), nil)
			break
		}
	}
	sh.pendCap += uint64(nb.capa)
	sh.pendReq += uint64(nb.req)
	sh.mu.Unlock()
	x.p.Put(b)
	sh.mu.Lock()
	sh.pendCap -= uint64(nb.capa)
	sh.pendReq -= uint64(nb.req)
	sh.mu.Unlock()
}

func (x *vfc17Runner) runStream(g int, ops []vfc17Op) {
	var mine []*[]byte
	for _, o := range ops {
		if o.Get {
			b, err := x.p.Get(o.Size)
			if x.register(g, o.Size, b, err) {
				mine = append(mine, b)
			}
		} else {
			x.doPut(&mine, o.Pick)
		}
	}
	for len(mine) > 0 {
		x.doPut(&mine, 0)
	}
}

// register books the outcome of one Get in the shadow account; true when the goroutine now owns b.
func (x *vfc17Runner) register(g, sz int, b *[]byte, err error) bool {
	sh := x.sh
	sh.mu.Lock()
	defer sh.mu.Unlock()
	x.r.Eval(1)
	if err != nil || b == nil {
		// a refused (or otherwise failed) Get hands out nothing; the property says nothing about when Get may refuse
		sh.refused++
		return false
	}
	sh.gets++
	if len(sh.order) < 96 {
		sh.order = append(sh.order, byte('a'+g))
	}
	if cap(*b) < sz {
		x.violate("get:cap-less-than-requested", fmt.Sprintf("Get(%d) returned a slice of capacity %d", sz, cap(*b)), nil)
	}
	if len(*b) != 0 {
		x.violate("get:len-nonzero", fmt.Sprintf("Get(%d) returned a slice of length %d", sz, len(*b)), nil)
	}
	if _, dup := sh.out[b]; dup {
		x.violate("get:aliased-outstanding-buffer", fmt.Sprintf("Get(%d) returned a slice header that is still checked out", sz), nil)
		return false
	}
	nb := &vfc17Buf{b: b, req: sz, capa: cap(*b), tag: byte(1 + (sh.gets % 250))}
	if nb.capa > 0 {
		full := (*b)[:nb.capa]
		nb.base = unsafe.Pointer(unsafe.SliceData(full))
		for _, o := range sh.out {
			if o.base != nil && o.base == nb.base {
				x.violate("get:aliased-outstanding-buffer", fmt.Sprintf("Get(%d) returned the backing array of a buffer that is still checked out (requested %d)", sz, o.req), nil)
			}
		}
		for i := range full {
			full[i] = nb.tag
		}
		*b = full
	}
	if nb.capa > sz {
		sh.rounded++
	}
	sh.out[b] = nb
	sh.capSum += uint64(nb.capa)
	sh.reqSum += uint64(sz)
	if len(sh.out) > sh.peakOut {
		sh.peakOut = len(sh.out)
	}
	x.checkBudgetLocked(x.p.UsedBytes(), fmt.Sprintf("after Get(%d)", sz))
	return true
}

func (x *vfc17Runner) finish() {
	sh := x.sh
	sh.mu.Lock()
	defer sh.mu.Unlock()
	x.r.Eval(1)
	if len(sh.out) != 0 {
		x.r.Inconclusive("harness bug: buffers left outstanding at the end of a case")
		return
	}
	if used := x.p.UsedBytes(); used != 0 {
		x.violate("usage-nonzero-after-all-returned", fmt.Sprintf("UsedBytes()=%d after every buffer was returned (%d Get, %d Put)", used, sh.gets, sh.puts), map[string]any{"used_bytes": used})
	}
}

func vfc17OpsKey(cfg vfc17Cfg, streams [][]vfc17Op) string {
	var sb strings.Builder
	fmt.Fprintf(&sb, "%v|", cfg)
	for _, s := range streams {
		for _, o := range s {
			if o.Get {
				fmt.Fprintf(&sb, "g%d,", o.Size)
			} else {
				fmt.Fprintf(&sb, "p%d,", o.Pick)
			}
		}
		sb.WriteByte('/')
	}
	return sb.String()
}

func TestVF_C17(t *testing.T) {
	r := vfkit.Start(t, "C17")
	defer r.Finish()
	r.Rule("BucketedPool half. case = pool config (min/max size, factor, budget around the sum of requested sizes or unlimited) + Get/Put history with sizes at bucket boundaries, 0 and above the largest bucket; " +
		"first block of cases sequential (1 goroutine), second block 2..8 goroutines sharing the pool (GOMAXPROCS cycled 1/2/4/16); " +
		"oracle = shadow account of outstanding buffers: capacity checked out and UsedBytes() never above maxTotal, UsedBytes()==0 after all returned, cap>=requested, len==0, " +
		"no two outstanding buffers share a backing array, buffer contents untouched while checked out; " +
		"distinct = hash of config+histories; non-trivial = at least 2 buffers outstanding at once under a finite budget, or a refused Get")
	r.Assume("callers use a buffer within its capacity (never grow it) and return exactly the buffers they got, once (documented contract of Pool)")
	r.Assume("minSize/factor are such that bucket sizes grow (NewBucketedPool does not terminate otherwise; constructor precondition)")
	nSeq := r.N(4000, 200000)
	nConc := r.N(300, 15000)
	r.Require(int64(nSeq+nConc), (nSeq+nConc)/4)
	defer runtime.GOMAXPROCS(runtime.GOMAXPROCS(0))
	for c := 0; c < nSeq+nConc; c++ {
		if !r.Want(c) {
			continue
		}
		rng := r.Rand(c)
		cfg := vfc17GenCfg(rng)
		goroutines := 1
		if c >= nSeq {
			goroutines = 2 + rng.Intn(7)
			runtime.GOMAXPROCS([]int{1, 2, 4, 16}[c%4])
		}
		// a throwaway pool only to learn the bucket sizes for the generator
		probe, err := NewBucketedPool[byte](cfg.Min, cfg.Max, cfg.Factor, 0)
		if err != nil {
			t.Fatalf("harness: config rejected: %v", err)
		}
		sizes := append([]int(nil), probe.sizes...)
		streams := make([][]vfc17Op, goroutines)
		var all []vfc17Op
		for g := range streams {
			n := 1 + rng.Intn(60)
			if goroutines > 1 {
				n = 20 + rng.Intn(100)
			}
			streams[g] = vfc17GenOps(r.RandS(fmt.Sprintf("g%d", g), c), sizes, cfg.Max, n)
			all = append(all, streams[g]...)
		}
		cfg.MaxTotal = vfc17Budget(rng, all)
		if goroutines > 1 && cfg.MaxTotal > 0 && rng.Intn(2) == 0 {
			cfg.MaxTotal = cfg.MaxTotal/uint64(goroutines) + 1 // real pressure between goroutines
		}
		p, err := NewBucketedPool[byte](cfg.Min, cfg.Max, cfg.Factor, cfg.MaxTotal)
		if err != nil {
			t.Fatalf("harness: config rejected: %v", err)
		}
		x := &vfc17Runner{r: r, c: c, cfg: cfg, p: p, streams: streams, sizes: sizes, sequential: goroutines == 1, sh: &vfc17Shadow{out: map[*[]byte]*vfc17Buf{}}}
		r.Guard(c, "pool-op", vfc17Witness(cfg, sizes, streams, nil), func() {
			if goroutines == 1 {
				x.runStream(0, streams[0])
			} else {
				var wg sync.WaitGroup
				for g := range streams {
					wg.Add(1)
					go func(g int) {
						defer wg.Done()
						r.Guard(c, "pool-op", vfc17Witness(cfg, sizes, streams, nil), func() { x.runStream(g, streams[g]) })
					}(g)
				}
				wg.Wait()
			}
			x.finish()
		})
		sh := x.sh
		if (cfg.MaxTotal > 0 && sh.peakOut >= 2) || sh.refused > 0 {
			r.Distinct(vfc17OpsKey(cfg, streams))
		}
		if goroutines > 1 {
			r.Signature(string(sh.order))
			r.Count("concurrent_cases", 1)
		}
		r.Count("gets_ok", sh.gets)
		r.Count("gets_refused", sh.refused)
		r.Count("puts", sh.puts)
		r.Count("gets_rounded_up_to_bucket", sh.rounded)
		r.Sample(map[string]any{"goroutines": goroutines, "bucket_sizes": sizes, "max_total": cfg.MaxTotal, "ops": len(all), "gets_ok": sh.gets, "refused": sh.refused, "peak_outstanding": sh.peakOut})
	}
}
