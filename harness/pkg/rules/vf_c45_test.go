//go:build verif

package rules

import (
	"context"
	"fmt"
	"math/rand"
	"regexp"
	"sort"
	"strconv"
	"strings"
	"testing"
	"time"

	"github.com/prometheus/prometheus/model/labels"

	"github.com/thanos-io/thanos/pkg/extpromql"
	"github.com/thanos-io/thanos/pkg/rules/rulespb"
	"github.com/thanos-io/thanos/pkg/store/labelpb"
	"github.com/thanos-io/thanos/pkg/verifhook/vfkit"
)

// ---- model (plain data, independent of rulespb) ----

type vfc45Rule struct {
	Alert  bool
	Name   string
	Query  string
	Dur    float64
	Labels [][2]string // the rule's own labels, sorted by name, non-empty values
}

type vfc45Group struct {
	File, Name string
	Rules      []vfc45Rule
}

type vfc45Matcher struct {
	Op    string // = != =~ !~
	Name  string
	Value string
}

// vfc45Replica is what one ruler replica reports: which base rules it has and with which extra labels.
type vfc45Replica struct {
	Extra   [][2]string     // labels the ruler attaches (candidate replica labels)
	Missing map[string]bool // "group/rule" indexes the replica does not report
	NoGroup map[int]bool    // groups the replica does not report
}

var (
	vfc45LabelNames   = []string{"severity", "team", "env", "x_1"}
	vfc45MatcherNames = []string{"severity", "team", "env", "x_1", "absent"}
	vfc45ReplicaNames = []string{"replica", "rule_replica"}
	vfc45Values       = []string{"a", "b", "ab", "1", "é", "a b", `q"t`, `b\s`, "a}b", "page"}
	vfc45Templated    = []string{"{{ $labels.x }}", "p-{{ $value }}", "{{$externalURL}}", "{{ $labels.team }}-b", "{{ .Labels.instance }}", "p-{{ .Value }}", "{{ .ExternalURL }}-b", "a{{ print 1 }}b"}
	vfc45RegexValues  = []string{"a.*", "a|b", ".+", ".*", "[ab]", "", "b?", "a b", "é.*", "pa.e"}
	vfc45RuleNames    = []string{"up", "HighLatency", "job:up:sum", "A"}
	vfc45Queries      = []string{"up == 0", "sum(up) by (job)", "vector(1)"}
)

func vfc45Templ(v string) bool { return strings.Contains(v, "{{") }

// vfc45Match is the oracle's matcher evaluation (independent of labels.Matcher).
func vfc45Match(m vfc45Matcher, v string) bool {
	switch m.Op {
	case "=":
		return v == m.Value
	case "!=":
		return v != m.Value
	}
	re := regexp.MustCompile("^(?s:" + m.Value + ")$")
	if m.Op == "=~" {
		return re.MatchString(v)
	}
	return !re.MatchString(v)
}

// vfc45SetsMatched returns how many matcher sets the label list satisfies completely
// (templated values are ignored, i.e. the label counts as absent).
func vfc45SetsMatched(sets [][]vfc45Matcher, lbls [][2]string) int {
	get := func(name string) string {
		for _, l := range lbls {
			if l[0] == name && !vfc45Templ(l[1]) {
				return l[1]
			}
		}
		return ""
	}
	n := 0
	for _, set := range sets {
		all := true
		for _, m := range set {
			if !vfc45Match(m, get(m.Name)) {
				all = false
				break
			}
		}
		if all {
			n++
		}
	}
	return n
}

func vfc45Selector(set []vfc45Matcher) string {
	var parts []string
	for _, m := range set {
		parts = append(parts, m.Name+m.Op+strconv.Quote(m.Value))
	}
	return "{" + strings.Join(parts, ",") + "}"
}

func vfc45Identity(alert bool, name, query string, dur float64, lbls [][2]string) string {
	l := append([][2]string(nil), lbls...)
	sort.Slice(l, func(i, j int) bool { return l[i][0] < l[j][0] })
	typ := "recording"
	d := ""
	if alert {
		typ = "alerting"
		d = fmt.Sprintf("%g", dur)
	}
	return fmt.Sprintf("%s|%q|%q|%q|%s", typ, name, l, query, d)
}

func vfc45Gen(rng *rand.Rand) (base []vfc45Group, reps []vfc45Replica, sets [][]vfc45Matcher, configured []string) {
	ng := 1 + rng.Intn(4)
	usedKeys := map[string]bool{}
	for len(base) < ng {
		g := vfc45Group{File: vfkit.Pick(rng, []string{"/etc/rules/a.yaml", "/etc/rules/b.yaml"}), Name: vfkit.Pick(rng, []string{"g1", "g2", "g3"})}
		if usedKeys[g.File+"\x00"+g.Name] {
			continue
		}
		usedKeys[g.File+"\x00"+g.Name] = true
		nr := rng.Intn(7)
		ids := map[string]bool{}
		for try := 0; len(g.Rules) < nr && try < 40; try++ {
			ru := vfc45Rule{Alert: rng.Intn(2) == 0, Name: vfkit.Pick(rng, vfc45RuleNames), Query: vfkit.Pick(rng, vfc45Queries)}
			if ru.Alert {
				ru.Dur = vfkit.Pick(rng, []float64{0, 60})
			}
			nl := rng.Intn(4)
			for _, ln := range vfkit.Perm(rng, vfc45LabelNames)[:nl] {
				v := vfkit.Pick(rng, vfc45Values)
				if rng.Intn(5) == 0 {
					v = vfkit.Pick(rng, vfc45Templated)
				}
				ru.Labels = append(ru.Labels, [2]string{ln, v})
			}
			sort.Slice(ru.Labels, func(i, j int) bool { return ru.Labels[i][0] < ru.Labels[j][0] })
			id := vfc45Identity(ru.Alert, ru.Name, ru.Query, ru.Dur, ru.Labels)
			if ids[id] {
				continue
			}
			ids[id] = true
			g.Rules = append(g.Rules, ru)
		}
		base = append(base, g)
	}
	// replicas
	nrep := 1 + rng.Intn(3)
	attach := vfkit.Perm(rng, vfc45ReplicaNames)[:rng.Intn(3)]
	for i := 0; i < nrep; i++ {
		rp := vfc45Replica{Missing: map[string]bool{}, NoGroup: map[int]bool{}}
		for _, a := range attach {
			rp.Extra = append(rp.Extra, [2]string{a, fmt.Sprintf("r%d", i)})
		}
		if nrep > 1 && rng.Intn(4) == 0 {
			for gi, g := range base {
				if rng.Intn(4) == 0 {
					rp.NoGroup[gi] = true
				}
				for ri := range g.Rules {
					if rng.Intn(5) == 0 {
						rp.Missing[fmt.Sprintf("%d/%d", gi, ri)] = true
					}
				}
			}
		}
		reps = append(reps, rp)
	}
	configured = vfkit.Perm(rng, vfc45ReplicaNames)[:rng.Intn(3)]
	if len(attach) > 0 && rng.Intn(3) != 0 {
		configured = append([]string(nil), attach...) // the usual deployment: the client knows the rulers' replica labels
	}
	// matcher sets
	ns := rng.Intn(4) // 0..3 sets
	for i := 0; i < ns; i++ {
		var set []vfc45Matcher
		nm := 1 + rng.Intn(3)
		for k := 0; k < nm; k++ {
			m := vfc45Matcher{Op: vfkit.Pick(rng, []string{"=", "=", "!=", "=~", "!~"}), Name: vfkit.Pick(rng, vfc45MatcherNames)}
			if m.Op == "=" || m.Op == "!=" {
				m.Value = vfkit.Pick(rng, vfc45Values)
				switch rng.Intn(8) {
				case 0:
					m.Value = ""
				case 1:
					m.Value = vfkit.Pick(rng, vfc45Templated)
				}
			} else {
				m.Value = vfkit.Pick(rng, vfc45RegexValues)
			}
			set = append(set, m)
		}
		sets = append(sets, set)
	}
	return
}

// vfc45Server is the fake rulespb.RulesServer behind the real GRPCClient.
type vfc45Server struct{ groups []*rulespb.RuleGroup }

func (s *vfc45Server) Rules(_ *rulespb.RulesRequest, srv rulespb.Rules_RulesServer) error {
	for _, g := range s.groups {
		if err := srv.Send(rulespb.NewRuleGroupRulesResponse(g)); err != nil {
			return err
		}
	}
	return nil
}

func vfc45PB(rng *rand.Rand, base []vfc45Group, reps []vfc45Replica) []*rulespb.RuleGroup {
	var out []*rulespb.RuleGroup
	t0 := time.Unix(1_700_000_000, 0).UTC()
	for _, rp := range reps {
		for gi, g := range base {
			if rp.NoGroup[gi] {
				continue
			}
			pg := &rulespb.RuleGroup{Name: g.Name, File: g.File, Interval: 60, LastEvaluation: t0.Add(time.Duration(rng.Intn(100)) * time.Second)}
			for ri, ru := range g.Rules {
				if rp.Missing[fmt.Sprintf("%d/%d", gi, ri)] {
					continue
				}
				var kv []string
				for _, l := range ru.Labels {
					kv = append(kv, l[0], l[1])
				}
				for _, l := range rp.Extra {
					kv = append(kv, l[0], l[1])
				}
				zl := labelpb.ZLabelSet{Labels: labelpb.ZLabelsFromPromLabels(labels.FromStrings(kv...))}
				le := t0.Add(time.Duration(rng.Intn(100)) * time.Second)
				if ru.Alert {
					pg.Rules = append(pg.Rules, rulespb.NewAlertingRule(&rulespb.Alert{
						State: rulespb.AlertState(1 + rng.Intn(3)), Name: ru.Name, Query: ru.Query, DurationSeconds: ru.Dur,
						Labels: zl, Health: "ok", LastEvaluation: le,
					}))
				} else {
					pg.Rules = append(pg.Rules, rulespb.NewRecordingRule(&rulespb.RecordingRule{
						Name: ru.Name, Query: ru.Query, Labels: zl, Health: "ok", LastEvaluation: le,
					}))
				}
			}
			out = append(out, pg)
		}
	}
	rng.Shuffle(len(out), func(i, j int) { out[i], out[j] = out[j], out[i] })
	return out
}

func TestVF_C45(t *testing.T) {
	r := vfkit.Start(t, "C45")
	defer r.Finish()
	r.Rule("case = 1..4 rule groups x 0..6 alerting/recording rules (0..3 labels, 1 in 5 values templated) reported by 1..3 ruler replicas (0..2 attached replica labels, " +
		"replicas may miss rules/groups) x 0..3 matcher sets of 1..3 matchers (= != =~ !~, also on absent labels, empty and templated values) x 0..2 configured replica labels, " +
		"through the real GRPCClient.Rules over a fake RulesServer; oracle: the returned (group, rule identity) multiset equals the set of identities of input rules whose " +
		"non-templated labels satisfy every matcher of at least one set (all rules without sets), each exactly once; " +
		"distinct = hash of groups+replicas+selectors; non-trivial = some rule satisfies one set but not another, or some rule reported by >= 2 replicas was merged")
	n := r.N(5000, 300000)
	r.Require(int64(n), n/5)
	r.Assume("matcher sets never name the replica labels (the statement does not say whether filtering sees them)")
	r.Assume("group file/name contain no ';' and rules of one replica's group are pairwise distinct")
	for c := 0; c < n; c++ {
		if !r.Want(c) {
			continue
		}
		rng := r.Rand(c)
		base, reps, sets, configured := vfc45Gen(rng)
		var selectors []string
		for _, s := range sets {
			selectors = append(selectors, vfc45Selector(s))
		}
		wit := map[string]any{"groups": base, "replicas": reps, "selectors": selectors, "configured_replica_labels": configured}
		r.Guard(c, "GRPCClient.Rules", wit, func() { vfc45Check(r, c, rng, base, reps, sets, selectors, configured, wit) })
	}
	if r.Counter("client_errors") > 0 {
		r.Inconclusive(fmt.Sprintf("%d generated requests were rejected by GRPCClient.Rules", r.Counter("client_errors")))
	}
}

func vfc45Check(r *vfkit.Run, c int, rng *rand.Rand, base []vfc45Group, reps []vfc45Replica, sets [][]vfc45Matcher, selectors, configured []string, wit map[string]any) {
	isConfigured := func(n string) bool {
		for _, x := range configured {
			if x == n {
				return true
			}
		}
		return false
	}
	// expectation
	type info struct {
		matched  int // matcher sets satisfied
		replicas int
	}
	all := map[string]*info{} // (group, identity) -> info, for every input rule
	nontrivial := false
	for _, rp := range reps {
		for gi, g := range base {
			if rp.NoGroup[gi] {
				continue
			}
			for ri, ru := range g.Rules {
				if rp.Missing[fmt.Sprintf("%d/%d", gi, ri)] {
					continue
				}
				lbls := append([][2]string(nil), ru.Labels...)
				for _, e := range rp.Extra {
					if !isConfigured(e[0]) {
						lbls = append(lbls, e)
					}
				}
				key := g.File + "\x00" + g.Name + "\x00" + vfc45Identity(ru.Alert, ru.Name, ru.Query, ru.Dur, lbls)
				in := all[key]
				if in == nil {
					in = &info{matched: vfc45SetsMatched(sets, ru.Labels)}
					all[key] = in
				}
				in.replicas++
			}
		}
	}
	want := map[string]bool{}
	for k, in := range all {
		if len(sets) == 0 || in.matched > 0 {
			want[k] = true
			if in.replicas > 1 {
				nontrivial = true
			}
		}
		if in.matched > 0 && in.matched < len(sets) {
			nontrivial = true
			r.Count("rules_matching_some_but_not_all_sets", 1)
		}
	}

	client := NewGRPCClientWithDedup(&vfc45Server{groups: vfc45PB(rng, base, reps)}, configured)
	res, _, err := client.Rules(context.Background(), &rulespb.RulesRequest{MatcherString: selectors})
	r.Eval(1)
	if err != nil {
		r.Count("client_errors", 1)
		r.T.Logf("case %d: client error: %v (selectors %q)", c, err, selectors)
		return
	}
	got := map[string]int{}
	for _, g := range res.Groups {
		for _, ru := range g.Rules {
			var lbls [][2]string
			ru.GetLabels().Range(func(l labels.Label) { lbls = append(lbls, [2]string{l.Name, l.Value}) })
			dur := 0.0
			if ru.GetAlert() != nil {
				dur = ru.GetAlert().DurationSeconds
			}
			got[g.File+"\x00"+g.Name+"\x00"+vfc45Identity(ru.GetAlert() != nil, ru.GetName(), ru.GetQuery(), dur, lbls)]++
		}
	}
	if nontrivial {
		r.Distinct(fmt.Sprintf("%v|%v|%q|%q", base, reps, selectors, configured))
	}
	r.Sample(map[string]any{"groups": len(base), "replicas": len(reps), "selectors": selectors, "configured_replica_labels": configured, "input_rules": len(all), "expected": len(want), "returned": len(got)})

	show := func(k string) string { return strings.ReplaceAll(k, "\x00", " / ") }
	// alone runs only the anchored filter stage (filterRulesByMatchers) on one input rule with the same
	// selectors: it tells whether the filter or the merge/dedup stage is responsible for a wrong answer.
	alone := func(k string) (kept bool) {
		var msets [][]*labels.Matcher
		for _, sel := range selectors {
			ms, err := extpromql.ParseMetricSelector(sel)
			if err != nil {
				return false
			}
			msets = append(msets, ms)
		}
		for gi, g := range base {
			for ri, ru := range g.Rules {
				for _, rp := range reps {
					if rp.NoGroup[gi] || rp.Missing[fmt.Sprintf("%d/%d", gi, ri)] {
						continue
					}
					lbls := append([][2]string(nil), ru.Labels...)
					for _, e := range rp.Extra {
						if !isConfigured(e[0]) {
							lbls = append(lbls, e)
						}
					}
					if g.File+"\x00"+g.Name+"\x00"+vfc45Identity(ru.Alert, ru.Name, ru.Query, ru.Dur, lbls) != k {
						continue
					}
					one := []vfc45Group{{File: g.File, Name: g.Name, Rules: []vfc45Rule{ru}}}
					out := filterRulesByMatchers(vfc45PB(rng, one, []vfc45Replica{{Extra: rp.Extra}}), msets)
					n := 0
					for _, g := range out {
						n += len(g.Rules)
					}
					return n > 0
				}
			}
		}
		return false
	}
	keys := make([]string, 0, len(all)+len(got))
	for k := range all {
		keys = append(keys, k)
	}
	for k := range got {
		if _, ok := all[k]; !ok {
			keys = append(keys, k)
		}
	}
	sort.Strings(keys)
	for _, k := range keys {
		in := all[k]
		switch {
		case want[k] && got[k] == 0:
			if alone(k) {
				r.Violation(c, "dedup:rule-dropped", fmt.Sprintf("rule %s (reported by %d replica(s), satisfies %d of %d selector sets) passes the filter stage alone but is missing from the merged answer", show(k), in.replicas, in.matched, len(sets)), wit)
			} else if in.matched > 0 && in.matched < len(sets) {
				r.Violation(c, "filter:rule-omitted:satisfies-one-matcher-set-but-not-every-set",
					fmt.Sprintf("rule %s satisfies %d of the %d selector sets %q and is not returned", show(k), in.matched, len(sets), selectors), wit)
			} else {
				r.Violation(c, "filter:rule-omitted", fmt.Sprintf("rule %s (reported by %d replica(s), satisfies %d of %d selector sets) is not returned", show(k), in.replicas, in.matched, len(sets)), wit)
			}
			return
		case want[k] && got[k] > 1:
			r.Violation(c, "dedup:rule-reported-more-than-once", fmt.Sprintf("rule %s reported by %d replica(s) is returned %d times", show(k), in.replicas, got[k]), wit)
			return
		case !want[k] && got[k] > 0 && in != nil && !alone(k):
			r.Violation(c, "dedup:rule-returned-although-filtered-out", fmt.Sprintf("rule %s satisfies none of the selector sets %q, is removed by the filter stage alone, but is in the merged answer", show(k), selectors), wit)
			return
		case !want[k] && got[k] > 0 && in != nil:
			r.Violation(c, "filter:rule-returned:satisfies-no-matcher-set", fmt.Sprintf("rule %s satisfies none of the selector sets %q and is returned", show(k), selectors), wit)
			return
		case !want[k] && got[k] > 0:
			r.Violation(c, "rule-not-in-input", fmt.Sprintf("returned rule %s corresponds to no input rule after replica-label removal", show(k)), wit)
			return
		}
	}
}
