//go:build verif

package cacheutil

import (
	"fmt"
	"math/rand"
	"net"
	"sort"
	"strings"
	"testing"

	"github.com/thanos-io/thanos/pkg/verifhook/vfkit"
)

// vfc49Chunks splits s into maximal digit / non-digit runs.
func vfc49Chunks(s string) []string {
	var out []string
	start := 0
	isD := func(b byte) bool { return b >= '0' && b <= '9' }
	for i := 1; i <= len(s); i++ {
		if i == len(s) || isD(s[i]) != isD(s[i-1]) {
			out = append(out, s[start:i])
			start = i
		}
	}
	return out
}

// vfc49NatLess is the oracle's own natural order (numeric runs by value, other runs as strings, prefix first).
// It is only used to classify a violation (rank of the added server), never to decide one.
func vfc49NatLess(a, b string) bool {
	ca, cb := vfc49Chunks(a), vfc49Chunks(b)
	for i := 0; i < len(ca) && i < len(cb); i++ {
		x, y := ca[i], cb[i]
		if x == y {
			continue
		}
		xd, yd := x[0] >= '0' && x[0] <= '9', y[0] >= '0' && y[0] <= '9'
		if xd && yd {
			if len(x) != len(y) {
				return len(x) < len(y) // no leading zeros are generated
			}
			return x < y
		}
		return x < y
	}
	return len(ca) < len(cb)
}

// vfc49GenServers returns n distinct literal addresses (no DNS: the sandbox is offline and
// SetServers resolves names), in a few realistic families.
func vfc49GenServers(rng *rand.Rand, n int) []string {
	seen := map[string]bool{}
	var out []string
	fam := rng.Intn(5)
	for len(out) < n {
		var a string
		f := fam
		if fam == 4 {
			f = rng.Intn(4) // mixed families
		}
		switch f {
		case 0: // statefulset-like: one subnet, numbers crossing 9 -> 10 and 99 -> 100
			a = fmt.Sprintf("10.0.0.%d:11211", 1+rng.Intn(120))
		case 1: // several subnets and ports
			a = fmt.Sprintf("10.%d.%d.%d:%d", rng.Intn(3), rng.Intn(12), 1+rng.Intn(12), vfkit.Pick(rng, []int{11211, 11212, 9, 10, 100}))
		case 2: // IPv6 literals
			a = fmt.Sprintf("[%s::%x]:%d", vfkit.Pick(rng, []string{"", "fe80", "2001:db8"}), 1+rng.Intn(40), vfkit.Pick(rng, []int{11211, 11212}))
		case 3: // unix sockets
			a = fmt.Sprintf("/var/run/%s-%d.sock", vfkit.Pick(rng, []string{"memcached", "mc", "cache"}), rng.Intn(25))
		}
		if seen[a] {
			continue
		}
		seen[a] = true
		out = append(out, a)
	}
	return out
}

// vfc49Respell returns another listing of the same server: the identical string, or for IPv6 literals an
// equivalent spelling that sorts elsewhere ("[::5]:1" -> "[0::5]:1" / "[0:0::5]:1").
func vfc49Respell(rng *rand.Rand, a string) string {
	if strings.HasPrefix(a, "[") && rng.Intn(2) == 0 {
		z := vfkit.Pick(rng, []string{"0", "0:0"})
		if strings.HasPrefix(a, "[::") {
			return "[" + z + a[1:]
		}
		return strings.Replace(a, "::", ":"+z+"::", 1)
	}
	return a
}

// vfc49Canon is the address a listing stands for (Go's resolver on a literal; independent of the selector).
func vfc49Canon(listed string) string {
	if strings.Contains(listed, "/") {
		return listed
	}
	a, err := net.ResolveTCPAddr("tcp", listed)
	if err != nil {
		panic(fmt.Sprintf("harness: generated address %q does not resolve: %v", listed, err))
	}
	return a.String()
}

func vfc49Keys(rng *rand.Rand, n int) []string {
	seen := map[string]bool{}
	var out []string
	for len(out) < n {
		var k string
		switch rng.Intn(4) {
		case 3:
			// long keys (memcached allows 250 bytes; cache keys with long matchers get there): 100..300 bytes
			k = fmt.Sprintf("L:%d:", rng.Intn(50)) + strings.Repeat("m", 95+rng.Intn(200)) + fmt.Sprintf(":%d", rng.Intn(1000))
		case 0:
			k = vfkit.Str(rng, 6, false)
		case 1:
			k = fmt.Sprintf("S:01H%dXYZ:%d:%d", rng.Intn(1000), rng.Intn(100000), rng.Intn(16000))
		default:
			k = fmt.Sprintf("P:%d:%s", rng.Intn(1000000), vfkit.Str(rng, 3, true))
		}
		if seen[k] {
			continue
		}
		seen[k] = true
		out = append(out, k)
	}
	return out
}

func TestVF_C49(t *testing.T) {
	r := vfkit.Start(t, "C49")
	defer r.Finish()
	nKeys := r.N(1500, 600)
	r.Rule(fmt.Sprintf("case = a list of 1..16 literal memcached addresses (IPv4 statefulset-like with numbers crossing 9->10 / subnets+ports / IPv6 / unix sockets / mixed; 1 in 3 lists with 1..3 addresses listed twice, as identical strings or as another IPv6 spelling that sorts elsewhere) x %d distinct keys (1 in 4 of them 100..300 bytes long); "+
		"oracle: PickServer(k) is a configured address, PickServerForKeys lists every key exactly once under PickServer(k), two more permutations of the list give the same answers, "+
		"after SetServers(list + one new listing, possibly of an address already listed) every key stays or moves to the added listing's address; distinct = hash of the list + new address; non-trivial = >= 2 servers", nKeys))
	n := r.N(300, 5000) // SetServers (regexp natural sort) dominates under -race: ~0.15 s per list
	r.Require(int64(n)*4, n/2)
	r.Assume("addresses are literal IPs / unix paths without leading zeros in numbers > 0 (names would need DNS, which SetServers resolves and the sandbox lacks); Go's net resolver gives the address a listing stands for")
	// One pool of distinct keys per run (a function of the seed); every case uses its own window of it.
	// (Allocating fresh key sets and maps per case is what dominates the run time under the race detector.)
	pool := vfc49Keys(r.RandS("keys", 0), 12*nKeys)
	poolIdx := make(map[string]int, len(pool))
	for i, k := range pool {
		poolIdx[k] = i
	}
	for c := 0; c < n; c++ {
		if !r.Want(c) {
			continue
		}
		rng := r.Rand(c)
		ns := 1 + rng.Intn(16)
		if rng.Intn(10) == 0 {
			ns = 1 + rng.Intn(2)
		}
		// 1 in 3 lists carries 1..3 duplicated addresses (the documented weighting feature): exact copies (adjacent
		// after the natural sort) or another spelling of the same IPv6 address (not adjacent after the sort).
		dups := 0
		if rng.Intn(3) == 0 {
			dups = 1 + rng.Intn(3)
			if dups > ns {
				dups = ns
			}
		}
		all := vfc49GenServers(rng, ns+1-dups)
		for d := 0; d < dups; d++ {
			all = append(all, vfc49Respell(rng, all[rng.Intn(len(all))]))
		}
		sorted := append([]string(nil), all...)
		sort.SliceStable(sorted, func(i, j int) bool { return vfc49NatLess(sorted[i], sorted[j]) })
		// choose the server that is added later: the naturally last one in half of the cases
		newIdx := len(sorted) - 1
		if rng.Intn(2) == 0 {
			newIdx = rng.Intn(len(sorted))
		}
		newSrv := sorted[newIdx]
		var servers []string
		for i, s := range sorted {
			if i != newIdx {
				servers = append(servers, s)
			}
		}
		// rank of the added listing among the old ones (an old listing equal to it counts as sorting before it:
		// equal strings give the same sorted sequence either way)
		newIdx = 0
		for _, s := range servers {
			if !vfc49NatLess(newSrv, s) {
				newIdx++
			}
		}
		if dups > 0 {
			r.Count("lists_with_duplicated_addresses", 1)
		}
		off := rng.Intn(len(pool) - nKeys + 1)
		keys := vfc49KeySet{keys: pool[off : off+nKeys], off: off, idx: poolIdx}
		wit := map[string]any{"servers_natural_order": servers, "added": newSrv, "added_rank": newIdx}
		r.Guard(c, "selector", wit, func() { vfc49Check(r, c, rng, servers, newSrv, newIdx, keys, wit) })
	}
}

// vfc49KeySet is a window of the run's key pool; idx maps a key to its pool index.
type vfc49KeySet struct {
	keys []string
	off  int
	idx  map[string]int
}

func vfc49Check(r *vfkit.Run, c int, rng *rand.Rand, servers []string, newSrv string, newRank int, ks vfc49KeySet, wit map[string]any) {
	keys := ks.keys
	with := func(extra map[string]any) map[string]any {
		m := map[string]any{}
		for k, v := range wit {
			m[k] = v
		}
		for k, v := range extra {
			m[k] = v
		}
		return m
	}
	sel := &MemcachedJumpHashSelector{}
	perm0 := vfkit.Perm(rng, servers)
	if err := sel.SetServers(perm0...); err != nil {
		r.T.Fatalf("harness: SetServers(%q): %v", perm0, err)
	}
	configured := map[string]bool{}
	slots := 0
	_ = sel.Each(func(a net.Addr) error { configured[a.String()] = true; slots++; return nil })
	wantAddrs := map[string]bool{}
	for _, s := range servers {
		wantAddrs[vfc49Canon(s)] = true
	}
	sameSet := len(configured) == len(wantAddrs)
	for a := range wantAddrs {
		sameSet = sameSet && configured[a]
	}
	if slots != len(servers) || !sameSet {
		r.Violation(c, "set-servers:configured-addresses-differ", fmt.Sprintf("%d slots / %d distinct addresses configured from %d listings of %d distinct addresses", slots, len(configured), len(servers), len(wantAddrs)), with(map[string]any{"listed": perm0}))
		return
	}
	newAddr := vfc49Canon(newSrv)
	if len(servers) >= 2 {
		r.Distinct(fmt.Sprintf("%q+%q", servers, newSrv))
	}
	// (1) single lookups
	refs := make([]string, len(keys))
	r.Eval(1)
	for i, k := range keys {
		a, err := sel.PickServer(k)
		if err != nil {
			r.Violation(c, "pick-server:error", fmt.Sprintf("PickServer(%q): %v", k, err), with(map[string]any{"key": k}))
			return
		}
		if !configured[a.String()] {
			r.Violation(c, "pick-server:unknown-address", fmt.Sprintf("PickServer(%q) = %s which is not configured", k, a), with(map[string]any{"key": k}))
			return
		}
		refs[i] = a.String()
	}
	ref := func(k string) string {
		if i, ok := ks.idx[k]; ok && i >= ks.off && i < ks.off+len(keys) {
			return refs[i-ks.off]
		}
		return "<key not in the request>"
	}
	r.Count("keys_checked", len(keys))
	// (2) batches
	r.Eval(1)
	shuffled := vfkit.Perm(rng, keys)
	nb := 1 + rng.Intn(3)
	for b := 0; b < nb; b++ {
		batch := shuffled[b*len(shuffled)/nb : (b+1)*len(shuffled)/nb]
		m, err := sel.PickServerForKeys(batch)
		if err != nil {
			r.Violation(c, "pick-for-keys:error", fmt.Sprintf("PickServerForKeys: %v", err), with(nil))
			return
		}
		seen := make([]int, len(keys))
		listed := 0
		for addr, lst := range m {
			for _, k := range lst {
				listed++
				if i, ok := ks.idx[k]; ok && i >= ks.off && i < ks.off+len(keys) {
					seen[i-ks.off]++
				}
				if ref(k) != addr {
					r.Violation(c, "pick-for-keys:differs-from-pick-server", fmt.Sprintf("key %q: PickServer = %s, PickServerForKeys lists it under %s", k, ref(k), addr), with(map[string]any{"key": k}))
					return
				}
			}
		}
		for _, k := range batch {
			if n := seen[ks.idx[k]-ks.off]; n != 1 {
				r.Violation(c, "pick-for-keys:key-not-listed-exactly-once", fmt.Sprintf("key %q listed %d times", k, n), with(map[string]any{"key": k}))
				return
			}
		}
		if listed != len(batch) {
			r.Violation(c, "pick-for-keys:unknown-key-listed", fmt.Sprintf("%d keys listed for a batch of %d", listed, len(batch)), with(nil))
			return
		}
	}
	// (3) other permutations of the same list
	for p := 0; p < 2; p++ {
		perm := vfkit.Perm(rng, servers)
		s2 := sel
		if p == 1 {
			s2 = &MemcachedJumpHashSelector{} // a fresh selector as another process would build it
		}
		if err := s2.SetServers(perm...); err != nil {
			r.T.Fatalf("harness: SetServers(%q): %v", perm, err)
		}
		r.Eval(1)
		for i, k := range keys {
			a, err := s2.PickServer(k)
			if err != nil || a.String() != refs[i] {
				r.Violation(c, "permutation:different-server", fmt.Sprintf("key %q: %s with the servers listed as %q, %v (err %v) as %q", k, ref(k), perm0, a, err, perm),
					with(map[string]any{"key": k, "listed_first": perm0, "listed_then": perm}))
				return
			}
		}
	}
	// (4) growth by one server
	grown := vfkit.Perm(rng, append(append([]string(nil), servers...), newSrv))
	if err := sel.SetServers(grown...); err != nil {
		r.T.Fatalf("harness: SetServers(%q): %v", grown, err)
	}
	r.Eval(1)
	movedToNew := 0
	for i, k := range keys {
		a, err := sel.PickServer(k)
		if err != nil {
			r.Violation(c, "pick-server:error", fmt.Sprintf("PickServer(%q): %v", k, err), with(map[string]any{"key": k}))
			return
		}
		switch a.String() {
		case refs[i]:
		case newAddr: // also when the added listing duplicates an address that is already configured
			movedToNew++
		default:
			fp := "grow:key-moved-between-old-servers:added-server-sorts-last"
			if newRank < len(servers) {
				fp = "added server's natural-sort rank < len(servers)"
				r.Count("grow_not_last_reshuffles", 1)
			}
			r.Violation(c, fp, fmt.Sprintf("key %q moved from %s to %s when %s (natural-sort rank %d of %d) was added to %q", k, ref(k), a, newSrv, newRank, len(servers)+1, servers),
				with(map[string]any{"key": k, "before": ref(k), "after": a.String()}))
			return
		}
	}
	if newRank == len(servers) {
		r.Count("grow_last_cases", 1)
	} else {
		r.Count("grow_not_last_cases", 1)
	}
	r.Count("keys_moved_to_new_server", movedToNew)
	r.Sample(map[string]any{"servers": servers, "added": newSrv, "added_rank": newRank, "keys": len(keys), "moved_to_new": movedToNew})
}
