//go:build verif

package receive

import (
	"fmt"
	"math/rand"
	"sort"
	"sync"
	"testing"

	"github.com/prometheus/client_golang/prometheus"

	"github.com/thanos-io/thanos/pkg/verifhook/vfkit"
)

// C21 - Shuffle-sharded tenants get stable, correctly sized sub-rings.

type vfc21Case struct {
	eps     []Endpoint
	rf      int
	ss      ShuffleShardingConfig
	tenants []string
}

func vfc21Gen(rng *rand.Rand, nTenants int) vfc21Case {
	var c vfc21Case
	n := 2 + rng.Intn(11)
	c.rf = 1 + rng.Intn(min(3, n))
	addrs := vfc18kAddresses(rng, n, "")
	z := 1 + rng.Intn(min(3, n))
	zones := make([]string, z)
	for i := range zones {
		zones[i] = fmt.Sprintf("az-%d", i)
	}
	if z == 1 && rng.Intn(2) == 0 {
		zones[0] = ""
	}
	balanced := rng.Intn(2) == 0
	for i, a := range addrs {
		az := zones[i%z]
		if !balanced && i >= z {
			az = zones[rng.Intn(z)]
		}
		c.eps = append(c.eps, Endpoint{Address: a, AZ: az})
	}
	c.eps = vfkit.Perm(rng, c.eps)
	c.ss = ShuffleShardingConfig{ShardSize: 1 + rng.Intn(n), CacheSize: 1 + rng.Intn(3), ZoneAwarenessDisabled: rng.Intn(3) == 0}
	var names, patterns []string
	for i := 0; i < rng.Intn(4); i++ {
		o := ShuffleShardingOverrideConfig{ShardSize: 1 + rng.Intn(n)}
		switch rng.Intn(5) {
		case 0, 1:
			o.TenantMatcherType = TenantMatcherTypeExact
		case 2:
			o.TenantMatcherType = "" // documented default: exact
		default:
			o.TenantMatcherType = TenantMatcherGlob
		}
		for j := 0; j < 1+rng.Intn(2); j++ {
			if o.TenantMatcherType == TenantMatcherGlob {
				p := vfc27Pattern(rng)
				if len(patterns) > 0 && rng.Intn(4) == 0 {
					p = vfkit.Pick(rng, patterns)
				}
				o.Tenants = append(o.Tenants, p)
				patterns = append(patterns, p)
			} else {
				t := vfc27Name(rng)
				if len(names) > 0 && rng.Intn(4) == 0 {
					t = vfkit.Pick(rng, names)
				}
				o.Tenants = append(o.Tenants, t)
				names = append(names, t)
			}
		}
		c.ss.Overrides = append(c.ss.Overrides, o)
	}
	seen := map[string]struct{}{}
	add := func(t string) {
		if _, ok := seen[t]; !ok && len(c.tenants) < nTenants {
			seen[t] = struct{}{}
			c.tenants = append(c.tenants, t)
		}
	}
	for _, t := range vfkit.Perm(rng, names) {
		add(t)
	}
	for _, p := range vfkit.Perm(rng, patterns) {
		add(vfc27Instance(rng, p))
	}
	for len(c.tenants) < nTenants {
		add(vfc27Name(rng) + vfkit.Str(rng, 2, false))
	}
	return c
}

// vfc21ShardSize is the reference resolver of the tenant's configured shard size: first override
// whose tenant list matches (exact, also when the matcher type is unset; or glob), else the default.
func vfc21ShardSize(ss ShuffleShardingConfig, tenant string) (size int, override int) {
	for i, o := range ss.Overrides {
		if vfc27Matches(o.Tenants, o.TenantMatcherType, tenant) {
			return o.ShardSize, i
		}
	}
	return ss.ShardSize, -1
}

func vfc21Describe(c vfc21Case) map[string]any {
	var ov []string
	for _, o := range c.ss.Overrides {
		ov = append(ov, fmt.Sprintf("size=%d type=%q tenants=%q", o.ShardSize, o.TenantMatcherType, o.Tenants))
	}
	return map[string]any{"endpoints": vfc18kFmtEndpoints(c.eps), "zones": vfc18kLayoutString(c.eps), "rf": c.rf, "shard_size": c.ss.ShardSize,
		"cache_size": c.ss.CacheSize, "zone_awareness_disabled": c.ss.ZoneAwarenessDisabled, "overrides": ov}
}

func vfc21Set(eps []Endpoint) []string {
	var out []string
	for _, e := range eps {
		out = append(out, e.Address)
	}
	sort.Strings(out)
	return out
}

func TestVF_C21(t *testing.T) {
	r := vfkit.Start(t, "C21")
	defer r.Finish()
	nTenants := 6
	nSeries := r.N(150, 400)
	r.Rule(fmt.Sprintf("case = ketama hashring with shuffle sharding: 2..12 distinct endpoints in 1..3 zones (balanced or arbitrary), RF 1..3, default shard size 1..n, LRU cache size 1..3, zone awareness on/off (1 in 3 off), "+
		"0..3 overrides (exact / matcher type unset / glob, overlapping), %d tenants (override names, pattern instances, alphabet strings), %d series per tenant; "+
		"oracle per tenant with the reference shard size s (first matching override, else default): zone-aware take = ceil(s/Z) per zone, zone-unaware take = s in total; "+
		"an error is accepted iff a zone has fewer nodes than the take or the shard has fewer nodes than RF, and is then required; otherwise getTenantShard(tenant).Nodes() has exactly the take per zone "+
		"(resp. s in total), is the same set in the LRU-cached sub-ring (a second computation), every GetN(k<RF) endpoint lies in that set, and placements are identical "+
		"before and after the tenant was evicted from the cache and for 4 concurrent goroutines (3 tenants each) on a fresh ring; race detector on; "+
		"part B (size/membership clause only, high volume): %d small base rings (1..3 zones x 2..3 nodes, or one zone of 2..4; 8 address styles) built by newKetamaHashring with only 1..64 sections per node + newShuffleShardHashring, "+
		"take = zone size or one less (zone-unaware: n..n-2), RF 1, %d tenants each through the real getTenantShard: same size/membership/error oracle; "+
		"distinct = (configuration, tenant) with a successfully built shard smaller than the whole ring", nTenants, nSeries, r.N(12, 100), r.N(100, 300)))
	n := r.N(50, 500)
	r.Require(int64(n)*int64(nTenants)/2, n)
	r.Assume("the 'configured number of nodes per availability zone' is ceil(shard size / number of zones) (ShuffleShardExpectedInstancesPerZone, documented 'shard_size/number_of_azs is chosen from each availability zone')")
	r.Assume("override globs are well-formed; an override without tenant_matcher_type is an exact override (config.go: exact 'is also the default one')")

	for c := 0; c < n; c++ {
		if !r.Want(c) {
			continue
		}
		rng := r.Rand(c)
		cs := vfc21Gen(rng, nTenants)
		desc := vfc21Describe(cs)
		wit := func(extra map[string]any) map[string]any {
			m := map[string]any{}
			for k, v := range desc {
				m[k] = v
			}
			for k, v := range extra {
				m[k] = v
			}
			return m
		}
		stop := false
		r.Guard(c, "shuffle-shard", wit(nil), func() { stop = vfc21Check(t, r, c, rng, cs, nSeries, wit) })
		if stop {
			return
		}
	}
	// Part B: high-volume sweep of the shard size / membership clause only (cases n .. n+sweeps-1).
	sweeps, perSweep := r.N(12, 100), r.N(100, 300)
	for k := 0; k < sweeps; k++ {
		c := n + k
		if !r.Want(c) {
			continue
		}
		rng := r.Rand(c)
		r.Guard(c, "shuffle-shard-sweep", map[string]any{"sweep": k}, func() { vfc21Sweep(r, c, rng, perSweep) })
	}
}

// vfc21Sweep builds one small base ring with FEW sections per node through the real constructors
// (newKetamaHashring with a small sectionsPerNode argument, as the package's own tests do, then
// newShuffleShardHashring) and asks the real getTenantShard for the shards of many tenants. With few
// sections per node and a take close to the zone size, the per-zone draw often lands where the clockwise
// walk has to skip selected nodes and wrap around the end of the zone ring - events that are ~1/3000 per
// tenant at the production SectionsPerNode. Bypassed: NewMultiHashring/newHashring (they hard-wire
// SectionsPerNode for the base ring) and GetN; the tenant sub-ring itself is still built by the code
// with the production constant. RF = 1 keeps that build cheap and cannot hang.
func vfc21Sweep(r *vfkit.Run, c int, rng *rand.Rand, tenants int) {
	z := 1 + rng.Intn(3)
	maxPerZone := 4
	if z >= 2 {
		maxPerZone = 3
	}
	var cs vfc21Case
	cs.rf = 1
	minSize := 1 << 30
	i := 0
	for zi := 0; zi < z; zi++ {
		k := 2 + rng.Intn(maxPerZone-1)
		minSize = min(minSize, k)
		for j := 0; j < k; j++ {
			cs.eps = append(cs.eps, Endpoint{Address: fmt.Sprintf("n%d", i), AZ: fmt.Sprintf("az-%d", zi)})
			i++
		}
	}
	addrs := vfc18kAddresses(rng, len(cs.eps), "")
	for j := range cs.eps {
		cs.eps[j].Address = addrs[j]
	}
	cs.eps = vfkit.Perm(rng, cs.eps)
	spn := vfkit.Pick(rng, []int{1, 2, 3, 5, 8, 16, 64})
	cs.ss.ZoneAwarenessDisabled = rng.Intn(4) == 0
	if cs.ss.ZoneAwarenessDisabled {
		cs.ss.ShardSize = max(1, len(cs.eps)-rng.Intn(3))
	} else {
		take := max(1, minSize-rng.Intn(2))
		cs.ss.ShardSize = max(1, take*z-rng.Intn(z)) // ceil(ShardSize/z) == take
	}
	cs.ss.CacheSize = 1
	sizes := vfc18kZoneSizes(cs.eps)
	azOf := map[string]string{}
	for _, e := range cs.eps {
		azOf[e.Address] = e.AZ
	}
	zmode := "zone-aware"
	if cs.ss.ZoneAwarenessDisabled {
		zmode = "zone-unaware"
	}
	wit := func(extra map[string]any) map[string]any {
		m := vfc21Describe(cs)
		m["sections_per_node_of_base_ring"] = spn
		m["entry_point"] = "newKetamaHashring(eps, sections_per_node, 1) + newShuffleShardHashring + getTenantShard"
		for k, v := range extra {
			m[k] = v
		}
		return m
	}
	base, err := newKetamaHashring(vfc18kCopyEndpoints(cs.eps), spn, 1)
	if err != nil {
		r.Count("sweep_skipped_construct_errors", 1)
		return
	}
	ssh, err := newShuffleShardHashring(base, cs.ss, 1, prometheus.NewRegistry(), "vf-sweep")
	if err != nil {
		r.Count("sweep_skipped_construct_errors", 1)
		return
	}
	defer ssh.Close()
	r.Count("sweep_rings", 1)
	for ti := 0; ti < tenants; ti++ {
		tenant := fmt.Sprintf("tenant-%d", ti)
		if ti%4 == 3 {
			tenant = vfkit.Str(rng, 4, false) + fmt.Sprint(ti)
		}
		sh, err := ssh.getTenantShard(tenant)
		r.Eval(1)
		var set []string
		if err == nil {
			set = vfc21Set(sh.Nodes())
			for _, a := range set {
				if _, ok := azOf[a]; !ok {
					r.Violation(c, "shard-node-not-in-hashring", fmt.Sprintf("tenant %q: shard node %q is not a configured endpoint", tenant, a), wit(map[string]any{"tenant": tenant, "shard": set}))
					return
				}
			}
		}
		if problem, class := vfc21Judge(cs, sizes, azOf, cs.ss.ShardSize, err, set); problem != "" {
			r.Violation(c, class+":"+zmode+":default-size", fmt.Sprintf("tenant %q, configured shard size %d, base ring with %d sections per node: %s", tenant, cs.ss.ShardSize, spn, problem),
				wit(map[string]any{"tenant": tenant, "shard": set, "error": fmt.Sprint(err)}))
			return
		}
		r.Count("sweep_tenants_ok", 1)
		if err == nil && len(set) < len(cs.eps) {
			r.Distinct(fmt.Sprintf("sweep|%v|%d|%d|%v|%q", vfc18kFmtEndpoints(cs.eps), spn, cs.ss.ShardSize, cs.ss.ZoneAwarenessDisabled, tenant))
		}
	}
	r.Sample(map[string]any{"sweep": true, "zones": vfc18kLayoutString(cs.eps), "sections_per_node": spn, "mode": zmode, "shard_size": cs.ss.ShardSize, "tenants": tenants})
}

func vfc21Build(cs vfc21Case) (Hashring, *shuffleShardHashring, error) {
	ss := cs.ss
	ss.Overrides = append([]ShuffleShardingOverrideConfig(nil), cs.ss.Overrides...)
	h, err := NewMultiHashring(AlgorithmKetama, uint64(cs.rf), []HashringConfig{{Hashring: "vf", Endpoints: vfc18kCopyEndpoints(cs.eps), ShuffleShardingConfig: ss}}, prometheus.NewRegistry())
	if err != nil {
		return nil, nil, err
	}
	ssh, _ := h.(*multiHashring).hashrings[0].(*shuffleShardHashring)
	return h, ssh, nil
}

// vfc21Expect is the reference arithmetic: what the configuration prescribes for shard size s.
func vfc21Expect(cs vfc21Case, sizes map[string]int, s int) (take, total int, wantErr string) {
	if cs.ss.ZoneAwarenessDisabled {
		take, total = s, s
		if s > len(cs.eps) {
			wantErr = "the shard is larger than the ring"
		}
	} else {
		z := len(sizes)
		take = (s + z - 1) / z
		total = take * z
		for _, zs := range sizes {
			if zs < take {
				wantErr = "a zone has fewer nodes than the per-zone take"
			}
		}
	}
	if wantErr == "" && total < cs.rf {
		wantErr = "the shard has fewer nodes than the replication factor"
	}
	return take, total, wantErr
}

// vfc21Judge compares the observed outcome (error or shard node set) with what shard size s prescribes.
// It returns "" when they agree, else a description and the violation class.
func vfc21Judge(cs vfc21Case, sizes map[string]int, azOf map[string]string, s int, err error, set []string) (problem, class string) {
	take, total, wantErr := vfc21Expect(cs, sizes, s)
	if err != nil {
		if wantErr == "" {
			return fmt.Sprintf("error %q although every zone has >= %d nodes and the shard would have %d >= RF=%d nodes", err.Error(), take, total, cs.rf), "unexpected-error"
		}
		return "", ""
	}
	if wantErr != "" {
		return fmt.Sprintf("a shard %v was built although %s", set, wantErr), "shard-built-instead-of-error"
	}
	perZone := map[string]int{}
	uniq := map[string]struct{}{}
	for _, a := range set {
		uniq[a] = struct{}{}
		perZone[azOf[a]]++
	}
	if len(uniq) != len(set) {
		return fmt.Sprintf("duplicate node in the shard %v", set), "shard-size"
	}
	if cs.ss.ZoneAwarenessDisabled {
		if len(set) != s {
			return fmt.Sprintf("shard %v has %d nodes in total, configured %d", set, len(set), s), "shard-size"
		}
		return "", ""
	}
	for z := range sizes {
		if perZone[z] != take {
			return fmt.Sprintf("zone %q has %d shard nodes, configured ceil(%d/%d)=%d (shard %v)", z, perZone[z], s, len(sizes), take, set), "shard-size"
		}
	}
	return "", ""
}

// vfc21Check decides one configuration; returns true if the run must stop (backstop).
func vfc21Check(t *testing.T, r *vfkit.Run, c int, rng *rand.Rand, cs vfc21Case, nSeries int, wit func(map[string]any) map[string]any) bool {
	sections := len(cs.eps) * SectionsPerNode
	var h Hashring
	var ssh *shuffleShardHashring
	var err error
	out := vfc19Guarded(sections, vfc19Backstop, func() { h, ssh, err = vfc21Build(cs) })
	switch {
	case out.TimedOut:
		r.Inconclusive("ring construction did not return; run stopped")
		return true
	case out.Lap != nil:
		r.Count("skipped_nonterminating_base_ring", 1) // C19's domain
		return false
	case out.Panic != nil:
		panic(out.Panic)
	case err != nil:
		r.Count("skipped_construct_errors", 1)
		return false
	}
	if ssh == nil {
		t.Fatalf("harness: the configured hashring is not a *shuffleShardHashring")
	}
	defer h.Close()

	sizes := vfc18kZoneSizes(cs.eps)
	azOf := map[string]string{}
	for _, e := range cs.eps {
		azOf[e.Address] = e.AZ
	}
	type tenantObs struct {
		set       map[string]struct{}
		placement [][]string
	}
	okTenants := map[string]*tenantObs{}
	series := make([]int, nSeries)
	for i := range series {
		series[i] = rng.Intn(1 << 30)
	}

	for _, tenant := range cs.tenants {
		s, ovr := vfc21ShardSize(cs.ss, tenant)
		take, total, wantErr := vfc21Expect(cs, sizes, s)
		twit := func(extra map[string]any) map[string]any {
			m := wit(extra)
			m["tenant"] = tenant
			m["reference_shard_size"] = s
			m["matching_override"] = ovr
			m["expected_take_per_zone_or_total"] = take
			return m
		}
		ovrKind := "default-size"
		if ovr >= 0 {
			ovrKind = "override-" + string(cs.ss.Overrides[ovr].TenantMatcherType)
			if cs.ss.Overrides[ovr].TenantMatcherType == "" {
				ovrKind = "override-matcher-type-unset"
			}
		}
		zmode := "zone-aware"
		if cs.ss.ZoneAwarenessDisabled {
			zmode = "zone-unaware"
		}

		// 1. the tenant's sub-ring as the code computes it
		var sh1 *ketamaHashring
		var e1 error
		g := vfc19Guarded(sections, vfc19Backstop, func() { sh1, e1 = ssh.getTenantShard(tenant) })
		r.Eval(1)
		switch {
		case g.TimedOut:
			r.Inconclusive("getTenantShard did not return; run stopped")
			return true
		case g.Lap != nil:
			r.Count("skipped_nonterminating_subring", 1) // C19's domain (getn:shuffle-subring)
			continue
		case g.Panic != nil:
			panic(g.Panic)
		}
		var set1 []string
		if e1 == nil {
			set1 = vfc21Set(sh1.Nodes())
			for _, a := range set1 {
				if _, ok := azOf[a]; !ok {
					r.Violation(c, "shard-node-not-in-hashring", fmt.Sprintf("tenant %q: shard node %q is not a configured endpoint", tenant, a), twit(map[string]any{"shard": set1}))
					return false
				}
			}
		}
		// 2. error exactly when prescribed, else the prescribed size
		if problem, class := vfc21Judge(cs, sizes, azOf, s, e1, set1); problem != "" {
			fp := class + ":" + zmode + ":" + ovrKind
			if ovr >= 0 && cs.ss.Overrides[ovr].TenantMatcherType == "" {
				// Diagnose the class: does the code behave exactly as if overrides without a matcher type did not exist?
				alt := cs.ss
				alt.Overrides = nil
				for _, o := range cs.ss.Overrides {
					if o.TenantMatcherType != "" {
						alt.Overrides = append(alt.Overrides, o)
					}
				}
				sAlt, _ := vfc21ShardSize(alt, tenant)
				if p2, _ := vfc21Judge(cs, sizes, azOf, sAlt, e1, set1); p2 == "" {
					fp = "override-without-matcher-type-is-ignored"
					problem += fmt.Sprintf("; the outcome is what shard size %d (the configuration without that override) prescribes", sAlt)
				}
			}
			r.Violation(c, fp, fmt.Sprintf("tenant %q, configured shard size %d (%s): %s", tenant, s, ovrKind, problem), twit(map[string]any{"shard": set1, "error": fmt.Sprint(e1)}))
			return false
		}
		if e1 != nil {
			r.Count("expected_errors", 1)
			_ = wantErr
			// the public path must report the error as well
			if _, err := h.GetN(tenant, vfc18kNumSeries(0), 0); err == nil {
				r.Violation(c, "getn-succeeds-although-shard-cannot-be-built", fmt.Sprintf("tenant %q: getTenantShard fails (%v) but GetN returns an endpoint", tenant, e1), twit(nil))
				return false
			}
			continue
		}
		_ = total
		uniq := map[string]struct{}{}
		for _, a := range set1 {
			uniq[a] = struct{}{}
		}
		ob := &tenantObs{set: uniq}
		// 4. replicas inside the set (public path; builds and caches the sub-ring)
		for _, si := range series {
			ts := vfc18kNumSeries(si)
			var row []string
			for k := 0; k < cs.rf; k++ {
				e, err := h.GetN(tenant, ts, uint64(k))
				if err != nil {
					r.Violation(c, "getn-error-although-shard-builds", fmt.Sprintf("tenant %q: GetN(%d): %v", tenant, k, err), twit(nil))
					return false
				}
				if _, ok := uniq[e.Address]; !ok {
					r.Violation(c, "replica-outside-tenant-shard", fmt.Sprintf("tenant %q: replica %d of series i=%d is %q, not in the tenant's shard %v", tenant, k, si, e.Address, set1), twit(map[string]any{"shard": set1}))
					return false
				}
				row = append(row, e.Address)
			}
			ob.placement = append(ob.placement, row)
		}
		r.Eval(1)
		if cached, ok := ssh.cache.Peek(tenant); ok {
			if cs2 := vfc21Set(cached.Nodes()); fmt.Sprint(cs2) != fmt.Sprint(set1) {
				r.Violation(c, "unstable:cached-shard-differs", fmt.Sprintf("tenant %q: cached sub-ring nodes %v differ from computed %v", tenant, cs2, set1), twit(nil))
				return false
			}
		}
		okTenants[tenant] = ob
		if len(set1) < len(cs.eps) {
			r.Distinct(fmt.Sprintf("%v|%q", wit(nil), tenant))
		}
		r.Sample(map[string]any{"zones": vfc18kLayoutString(cs.eps), "rf": cs.rf, "mode": zmode, "size_from": ovrKind, "shard_size": s, "shard": set1})
	}
	r.Count("tenants_with_shard", len(okTenants))
	if len(okTenants) == 0 {
		return false
	}
	var names []string
	for tn := range okTenants {
		names = append(names, tn)
	}
	sort.Strings(names)
	// 5. after eviction (cache size 1..3 < number of tenants when more tenants were visited): same placement
	evictedBefore := len(names) > cs.ss.CacheSize
	for _, tenant := range names {
		ob := okTenants[tenant]
		_, wasCached := ssh.cache.Peek(tenant)
		for i := 0; i < len(series); i += 5 {
			ts := vfc18kNumSeries(series[i])
			for k := 0; k < cs.rf; k++ {
				e, err := h.GetN(tenant, ts, uint64(k))
				if err != nil || e.Address != ob.placement[i][k] {
					r.Violation(c, "unstable:placement-differs-after-cache-eviction", fmt.Sprintf("tenant %q (cached before this pass: %v): series i=%d replica %d was %q, now %q (err %v)", tenant, wasCached, series[i], k, ob.placement[i][k], e.Address, err),
						wit(map[string]any{"tenant": tenant}))
					return false
				}
			}
		}
		r.Eval(1)
		if !wasCached {
			r.Count("tenants_rechecked_after_eviction", 1)
		} else {
			r.Count("tenants_rechecked_from_cache", 1)
		}
	}
	_ = evictedBefore
	// 6. concurrent callers on a fresh ring (hook not installed: every sub-ring built here was built above)
	h2, _, err := vfc21Build(cs)
	if err != nil {
		t.Fatalf("harness: second build failed: %v", err)
	}
	defer h2.Close()
	const G = 4
	var wg sync.WaitGroup
	var mu sync.Mutex
	var diffs []string
	for g := 0; g < G; g++ {
		wg.Add(1)
		order := vfkit.Perm(rng, names)
		if len(order) > 3 {
			order = order[:3]
		}
		go func(order []string) {
			defer wg.Done()
			for _, tenant := range order {
				ob := okTenants[tenant]
				for i := 0; i < len(series); i += 10 {
					ts := vfc18kNumSeries(series[i])
					for k := 0; k < cs.rf; k++ {
						e, err := h2.GetN(tenant, ts, uint64(k))
						if err != nil || e.Address != ob.placement[i][k] {
							mu.Lock()
							diffs = append(diffs, fmt.Sprintf("tenant %q series i=%d replica %d: sequential %q, concurrent %q (err %v)", tenant, series[i], k, ob.placement[i][k], e.Address, err))
							mu.Unlock()
							return
						}
					}
				}
			}
		}(order)
	}
	wg.Wait()
	r.Eval(G)
	if len(diffs) > 0 {
		sort.Strings(diffs)
		r.Violation(c, "unstable:concurrent-callers-disagree", diffs[0], wit(map[string]any{"all": diffs}))
	}
	return false
}
