//go:build verif

package receive

// Shared helpers of the hashring monitors C18, C19, C20, C21, C27 (group grpF-hashring).
// Everything here is prefixed vfc18k (kit) or vfc19 (lap monitor, used by C18/C19/C21).

import (
	"fmt"
	"math/rand"
	"runtime/debug"
	"sort"
	"strings"
	"sync"
	"time"

	"github.com/thanos-io/thanos/pkg/store/labelpb"
	"github.com/thanos-io/thanos/pkg/store/storepb/prompb"
	"github.com/thanos-io/thanos/pkg/verifhook"
	"github.com/thanos-io/thanos/pkg/verifhook/vfkit"
)

// ---------------------------------------------------------------------------------------------
// Lap monitor on hook H3 ("ketama.scan": section, cursor, len(replicas)).
//
// In calculateSectionReplicas the only state that changes between two iterations of the replica
// selection loop is the cursor and (when a candidate is accepted) the replica/zone maps. If the
// cursor is seen again at the value it had right after the last accepted replica (i.e. every
// section of the ring was examined once and none was accepted), the next lap is identical: the
// loop can never terminate. That is a logical-step criterion; no clock is involved.
// ---------------------------------------------------------------------------------------------

// vfc19Backstop is the wall-clock backstop of one guarded call; its firing is only ever INCONCLUSIVE.
const vfc19Backstop = 180 * time.Second

// vfc19Lap is the sentinel panicked by the hook handler to abort a non-terminating construction.
type vfc19Lap struct {
	Section  int64 `json:"section"`
	Cursor   int64 `json:"cursor"`
	Replicas int64 `json:"replicas_chosen"`
	Steps    int64 `json:"steps_without_progress"`
}

type vfc19LapMon struct {
	mu       sync.Mutex
	has      bool
	sec, k   int64
	start    int64
	steps    int64
	limit    int64 // upper bound on the number of sections of any ring built while installed
	events   int64
	maxSteps int64
}

func (m *vfc19LapMon) handle(point string, a, b, c int64) {
	if point != "ketama.scan" {
		return
	}
	m.mu.Lock()
	m.events++
	if !m.has || a != m.sec || c != m.k {
		m.has, m.sec, m.k, m.start, m.steps = true, a, c, b, 0
		m.mu.Unlock()
		return
	}
	m.steps++
	if m.steps > m.maxSteps {
		m.maxSteps = m.steps
	}
	if b == m.start || m.steps > m.limit {
		lap := &vfc19Lap{Section: a, Cursor: b, Replicas: c, Steps: m.steps}
		m.has = false
		m.mu.Unlock()
		panic(lap)
	}
	m.mu.Unlock()
}

// vfc19Outcome is what one guarded call did.
type vfc19Outcome struct {
	Lap      *vfc19Lap // non-nil: a full lap of the ring without progress was observed (never terminates)
	Panic    any       // non-nil: the code under test panicked with something else
	Stack    string
	TimedOut bool  // wall-clock backstop fired (inconclusive, never a verdict)
	Events   int64 // number of ketama.scan events seen
	MaxSteps int64 // longest run of scan steps without progress
}

// vfc19Guarded runs f in its own goroutine with the lap monitor installed. sectionsBound must be
// >= the number of sections of every ketama ring f builds. Only one guarded call runs at a time.
func vfc19Guarded(sectionsBound int, backstop time.Duration, f func()) vfc19Outcome {
	mon := &vfc19LapMon{limit: int64(sectionsBound)}
	verifhook.SetEvent(mon.handle)
	var out vfc19Outcome
	done := make(chan struct{})
	go func() {
		defer close(done)
		defer func() {
			if p := recover(); p != nil {
				if l, ok := p.(*vfc19Lap); ok {
					out.Lap = l
					return
				}
				out.Panic = p
				out.Stack = string(debug.Stack())
			}
		}()
		f()
	}()
	tm := time.NewTimer(backstop)
	defer tm.Stop()
	select {
	case <-done:
		verifhook.SetEvent(nil)
	case <-tm.C:
		// Cannot happen for the ketama loop (the lap criterion fires first); a hang elsewhere.
		// The goroutine cannot be cancelled; the caller must stop the run.
		return vfc19Outcome{TimedOut: true}
	}
	mon.mu.Lock()
	out.Events, out.MaxSteps = mon.events, mon.maxSteps
	mon.mu.Unlock()
	return out
}

// ---------------------------------------------------------------------------------------------
// Reference arithmetic on zone layouts (independent of the code under test).
// ---------------------------------------------------------------------------------------------

// vfc18kZoneSizes returns zone -> number of endpoints.
func vfc18kZoneSizes(eps []Endpoint) map[string]int {
	m := map[string]int{}
	for _, e := range eps {
		m[e.AZ]++
	}
	return m
}

// vfc18kAccommodates reports whether rf replicas can be placed with per-zone counts differing by
// at most one: q = rf div Z, r = rf mod Z; every zone has >= q nodes and >= r zones have >= q+1.
func vfc18kAccommodates(sizes map[string]int, rf int) bool {
	z := len(sizes)
	if z == 0 {
		return false
	}
	q, r := rf/z, rf%z
	big := 0
	for _, s := range sizes {
		if s < q {
			return false
		}
		if s >= q+1 {
			big++
		}
	}
	return big >= r
}

// vfc18kBalancedCapacity is the largest replication factor the "never exceed the least occupied
// zone" rule can reach: with m the smallest zone, every zone can take min(size, m+1) replicas.
// It is used only to classify a no-progress observation (fingerprint), never to decide one.
func vfc18kBalancedCapacity(sizes map[string]int) int {
	if len(sizes) <= 1 {
		n := 0
		for _, s := range sizes {
			n += s
		}
		return n
	}
	m := -1
	for _, s := range sizes {
		if m < 0 || s < m {
			m = s
		}
	}
	c := 0
	for _, s := range sizes {
		if s < m+1 {
			c += s
		} else {
			c += m + 1
		}
	}
	return c
}

func vfc18kLayoutString(eps []Endpoint) string {
	sizes := vfc18kZoneSizes(eps)
	var parts []string
	for z, s := range sizes {
		parts = append(parts, fmt.Sprintf("%q:%d", z, s))
	}
	sort.Strings(parts)
	return "{" + strings.Join(parts, ",") + "}"
}

// vfc18kSizesSorted returns the multiset of zone sizes, descending (a stable name of the layout).
func vfc18kSizesSorted(eps []Endpoint) []int {
	var out []int
	for _, s := range vfc18kZoneSizes(eps) {
		out = append(out, s)
	}
	sort.Sort(sort.Reverse(sort.IntSlice(out)))
	return out
}

// ---------------------------------------------------------------------------------------------
// Generators.
// ---------------------------------------------------------------------------------------------

// vfc18kAddresses returns n distinct non-empty endpoint addresses in one of several styles. Besides
// free-form names there are host:port families in which members differ only in the port (several
// receivers on one host), only in the host (same port everywhere), or in both (few hosts x few ports).
func vfc18kAddresses(rng *rand.Rand, n int, prefix string) []string {
	style := rng.Intn(8)
	host := vfkit.Pick(rng, []string{"10.0.0.1", "receive-0.thanos.svc", "localhost", "[::1]", "h"})
	basePort := vfkit.Pick(rng, []int{10901, 19291, 1, 80, 65000})
	nHosts := 2 + rng.Intn(3)
	seen := map[string]struct{}{}
	var out []string
	for i := 0; len(out) < n; i++ {
		var a string
		switch style {
		case 0:
			a = fmt.Sprintf("%snode-%d", prefix, i)
		case 1:
			a = fmt.Sprintf("%s10.0.%d.%d:10901", prefix, rng.Intn(4), i)
		case 2:
			a = fmt.Sprintf("%sthanos-receive-%d.thanos-receive.svc.cluster.local:10901", prefix, rng.Intn(1000))
		case 3:
			a = prefix + vfkit.Str(rng, 4, false)
		case 4:
			a = fmt.Sprintf("%s%c", prefix, 'a'+rune(i))
		case 5: // one host, different ports
			a = fmt.Sprintf("%s%s:%d", prefix, host, basePort+i)
		case 6: // few hosts x few ports
			a = fmt.Sprintf("%s%s-%d:%d", prefix, host, i%nHosts, basePort+i/nHosts)
		default: // different hosts, one port, scheme prefix as in the package's own tests
			a = fmt.Sprintf("%shttp://%s-%d:%d", prefix, host, i, basePort)
		}
		if a == "" {
			continue
		}
		if _, ok := seen[a]; ok {
			continue
		}
		seen[a] = struct{}{}
		out = append(out, a)
	}
	return out
}

// vfc18kSibling derives an address of the same family as a: same host with another port, or another
// host with the same port, when a looks like host:port; ok=false otherwise.
func vfc18kSibling(rng *rand.Rand, a string) (string, bool) {
	p := strings.LastIndexByte(a, ':')
	if p <= 0 || p == len(a)-1 {
		return "", false
	}
	host, port := a[:p], a[p+1:]
	for _, c := range port {
		if c < '0' || c > '9' {
			return "", false
		}
	}
	if rng.Intn(2) == 0 {
		return fmt.Sprintf("%s:%d", host, 1+rng.Intn(65000)), true
	}
	return fmt.Sprintf("%s-x%d:%s", host, rng.Intn(100), port), true
}

// vfc18kSeries builds one series with 0..4 labels from the adversarial alphabet (names unique, sorted).
func vfc18kSeries(rng *rand.Rand) *prompb.TimeSeries {
	k := rng.Intn(5)
	m := map[string]string{}
	for i := 0; i < k; i++ {
		m[vfkit.Str(rng, 3, false)] = vfkit.Str(rng, 3, false)
	}
	names := make([]string, 0, len(m))
	for n := range m {
		names = append(names, n)
	}
	sort.Strings(names)
	ts := &prompb.TimeSeries{}
	for _, n := range names {
		ts.Labels = append(ts.Labels, labelpb.ZLabel{Name: n, Value: m[n]})
	}
	return ts
}

// vfc18kBigSeries builds a series whose serialized labels exceed 1 KB (HashWithPrefix leaves its
// stack buffer and streams the rest): one or two long values, or many short labels, or both.
func vfc18kBigSeries(rng *rand.Rand) *prompb.TimeSeries {
	m := map[string]string{"__name__": "big_" + vfkit.Str(rng, 2, true)}
	switch rng.Intn(3) {
	case 0: // long values
		for i := 0; i < 1+rng.Intn(2); i++ {
			m[fmt.Sprintf("long_%d", i)] = strings.Repeat(vfkit.Pick(rng, []string{"x", "ab", "é", "0:"}), 600+rng.Intn(1500))
		}
	case 1: // many labels
		for i := 0; i < 60+rng.Intn(60); i++ {
			m[fmt.Sprintf("label_%03d", i)] = fmt.Sprintf("value-%d-%s", rng.Intn(1000), vfkit.Str(rng, 2, false))
		}
	default: // a few small labels first, then the one that crosses the 1 KB boundary, then more
		for i := 0; i < 5+rng.Intn(20); i++ {
			m[fmt.Sprintf("a%02d", i)] = vfkit.Str(rng, 3, false)
		}
		m["m_long"] = strings.Repeat("v", 900+rng.Intn(300))
		for i := 0; i < rng.Intn(10); i++ {
			m[fmt.Sprintf("z%02d", i)] = vfkit.Str(rng, 3, false)
		}
	}
	names := make([]string, 0, len(m))
	for n := range m {
		names = append(names, n)
	}
	sort.Strings(names)
	ts := &prompb.TimeSeries{}
	for _, n := range names {
		ts.Labels = append(ts.Labels, labelpb.ZLabel{Name: n, Value: m[n]})
	}
	return ts
}

// vfc18kLabelBytes is the size of the labels as HashWithPrefix serializes them.
func vfc18kLabelBytes(ts *prompb.TimeSeries) int {
	n := 0
	for _, l := range ts.Labels {
		n += len(l.Name) + len(l.Value) + 2
	}
	return n
}

// vfc18kNumSeries builds a series {__name__="m", i="<i>"}: cheap, all distinct.
func vfc18kNumSeries(i int) *prompb.TimeSeries {
	return &prompb.TimeSeries{Labels: []labelpb.ZLabel{{Name: "__name__", Value: "m"}, {Name: "i", Value: fmt.Sprint(i)}}}
}

func vfc18kFmtSeries(ts *prompb.TimeSeries) string {
	var sb strings.Builder
	for i, l := range ts.Labels {
		v := l.Value
		if len(v) > 40 {
			v = fmt.Sprintf("%s...(%d bytes)", v[:16], len(v))
		}
		if i >= 12 {
			fmt.Fprintf(&sb, "...(%d labels, %d bytes)", len(ts.Labels), vfc18kLabelBytes(ts))
			break
		}
		fmt.Fprintf(&sb, "%q=%q,", l.Name, v)
	}
	return sb.String()
}

func vfc18kFmtEndpoints(eps []Endpoint) []string {
	out := make([]string, len(eps))
	for i, e := range eps {
		out[i] = fmt.Sprintf("%q/az=%q", e.Address, e.AZ)
	}
	return out
}

func vfc18kCopyEndpoints(eps []Endpoint) []Endpoint { return append([]Endpoint(nil), eps...) }

// vfc18kPartitions enumerates the partitions of n into at most maxParts parts (descending).
func vfc18kPartitions(n, maxParts int) [][]int {
	var out [][]int
	var rec func(rem, maxv int, cur []int)
	rec = func(rem, maxv int, cur []int) {
		if rem == 0 {
			out = append(out, append([]int(nil), cur...))
			return
		}
		if len(cur) == maxParts {
			return
		}
		for v := min(rem, maxv); v >= 1; v-- {
			rec(rem-v, v, append(cur, v))
		}
	}
	rec(n, n, nil)
	return out
}
