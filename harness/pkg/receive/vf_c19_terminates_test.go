//go:build verif

package receive

import (
	"fmt"
	"testing"
	"time"

	"github.com/prometheus/client_golang/prometheus"

	"github.com/thanos-io/thanos/pkg/store/storepb/prompb"
	"github.com/thanos-io/thanos/pkg/verifhook/vfkit"
)

// C19 - Building a hashring from any configuration terminates.
//
// Bounded exhaustive enumeration of zone layouts (multisets of zone sizes) x replication factor x
// {ketama, hashmod, ketama+shuffle-sharding (zone aware / zone unaware)}. "Never hangs" is decided
// on logical steps by the lap monitor (vf_c18_kit_test.go): a full lap of the ring without a
// replica being added means the selection loop's state repeats forever.

type vfc19Cfg struct {
	Variant  string   `json:"variant"` // ketama | hashmod | ketama+shuffle
	Layout   []int    `json:"zone_sizes"`
	Naming   string   `json:"naming"` // blocks | interleaved | unnamed
	RF       int      `json:"replication_factor"`
	Shard    int      `json:"shard_size,omitempty"`
	ZoneOff  bool     `json:"zone_awareness_disabled,omitempty"`
	Eps      []string `json:"endpoints"`
	eps      []Endpoint
	sections int
}

// vfc19Endpoints names the endpoints of a layout. blocks: node-0.. fill zone 0 first; interleaved:
// zones are dealt round-robin; unnamed (single zone only): AZ "" (no zones configured).
func vfc19Endpoints(layout []int, naming string) []Endpoint {
	var eps []Endpoint
	switch naming {
	case "interleaved":
		left := append([]int(nil), layout...)
		i := 0
		for {
			any := false
			for z := range left {
				if left[z] > 0 {
					left[z]--
					any = true
					eps = append(eps, Endpoint{Address: fmt.Sprintf("node-%d", i), AZ: fmt.Sprintf("az-%d", z)})
					i++
				}
			}
			if !any {
				break
			}
		}
	default:
		i := 0
		for z, s := range layout {
			for k := 0; k < s; k++ {
				az := fmt.Sprintf("az-%d", z)
				if naming == "unnamed" {
					az = ""
				}
				eps = append(eps, Endpoint{Address: fmt.Sprintf("node-%d", i), AZ: az})
				i++
			}
		}
	}
	return eps
}

func vfc19Build(cfg *vfc19Cfg) (Hashring, error) {
	hc := HashringConfig{Hashring: "vf", Endpoints: vfc18kCopyEndpoints(cfg.eps)}
	algo := AlgorithmKetama
	switch cfg.Variant {
	case "hashmod":
		algo = AlgorithmHashmod
	case "ketama+shuffle":
		hc.ShuffleShardingConfig = ShuffleShardingConfig{ShardSize: cfg.Shard, CacheSize: 2, ZoneAwarenessDisabled: cfg.ZoneOff}
	}
	return NewMultiHashring(algo, uint64(cfg.RF), []HashringConfig{hc}, prometheus.NewRegistry())
}

func TestVF_C19(t *testing.T) {
	r := vfkit.Start(t, "C19")
	defer r.Finish()
	// Bounds per tier (construction cost grows ~ n^3 per layout under -race):
	// quick:    all variants for n <= 5; ketama and hashmod only for n = 6..8; naming blocks (+unnamed)
	// thorough: ketama and hashmod for n <= 10, shuffle variants for n <= 6; namings blocks, interleaved for n <= 8 (+unnamed)
	maxN := r.N(8, 10)
	maxShuffleN := r.N(5, 6)
	r.Rule(fmt.Sprintf("case = (multiset of zone sizes with 1..%d endpoints over <=4 zones) x endpoint naming {blocks%s; unnamed for one zone} x RF 1..n x "+
		"{ketama, hashmod; for n<=%d also ketama+shuffle-sharding with shard size in %s, zone-aware and zone-unaware, up to 3 tenants}, production SectionsPerNode; "+
		"oracle: NewMultiHashring (and, for a ring it returns, GetN for n<RF incl. the per-tenant sub-ring build of shuffle sharding) returns a ring/endpoint or an error without "+
		"the ketama selection loop completing a full lap of the ring without adding a replica (hook ketama.scan) and without panicking; "+
		"distinct = configuration; non-trivial = ketama variant with >=2 zones (the zone-balancing rule is active)",
		maxN, map[bool]string{false: "", true: ", interleaved (n<=8)"}[r.Thorough()], maxShuffleN, map[bool]string{false: "{RF}", true: "{RF,n}"}[r.Thorough()]))
	r.Assume("a full lap of calculateSectionReplicas' cursor over the ring without a replica being added implies non-termination (loop state repeats); decided on hook events, not on time")
	r.Assume(fmt.Sprintf("wall-clock backstop %s per call only ever yields INCONCLUSIVE", vfc19Backstop))
	r.Exhaustive(true)

	var cfgs []*vfc19Cfg
	for n := 1; n <= maxN; n++ {
		for _, layout := range vfc18kPartitions(n, 4) {
			namings := []string{"blocks"}
			if len(layout) == 1 {
				namings = append(namings, "unnamed")
			} else if r.Thorough() && n <= 8 {
				namings = append(namings, "interleaved")
			}
			for _, naming := range namings {
				eps := vfc19Endpoints(layout, naming)
				for rf := 1; rf <= n; rf++ {
					mk := func(variant string, shard int, zoneOff bool) {
						c := &vfc19Cfg{Variant: variant, Layout: layout, Naming: naming, RF: rf, Shard: shard, ZoneOff: zoneOff, eps: eps, sections: n * SectionsPerNode}
						for _, e := range eps {
							c.Eps = append(c.Eps, e.Address+"@"+e.AZ)
						}
						cfgs = append(cfgs, c)
					}
					mk("ketama", 0, false)
					mk("hashmod", 0, false)
					if n > maxShuffleN {
						continue
					}
					shards := []int{rf}
					if n != rf && r.Thorough() {
						shards = append(shards, n)
					}
					for _, s := range shards {
						mk("ketama+shuffle", s, false)
						mk("ketama+shuffle", s, true)
					}
				}
			}
		}
	}
	r.Extra("configurations", len(cfgs))
	r.Require(int64(len(cfgs)), len(cfgs)/8)
	tenants := []string{"tenant-a", "", "t:\xff|b"}
	series := vfc18kNumSeries(7)
	var maxSteps int64
	defer func() { r.Extra("max_scan_steps_without_progress_in_terminating_or_aborted_builds", maxSteps) }()

	secs := map[string]float64{} // informational only (where the run time goes); never used by the oracle
	defer func() { r.Extra("seconds_by_variant_and_n", secs) }()
	for c, cfg := range cfgs {
		if !r.Want(c) {
			continue
		}
		t0 := time.Now()
		stop := vfc19RunCfg(t, r, c, cfg, tenants, series, &maxSteps)
		secs[fmt.Sprintf("%s/n=%d", cfg.Variant, len(cfg.eps))] += time.Since(t0).Seconds()
		if stop {
			return
		}
	}
}

// vfc19RunCfg decides one configuration; it returns true when the run must stop (backstop fired).
func vfc19RunCfg(t *testing.T, r *vfkit.Run, c int, cfg *vfc19Cfg, tenants []string, series *prompb.TimeSeries, maxSteps *int64) bool {
	{
		sizes := vfc18kZoneSizes(cfg.eps)
		predicted := len(sizes) > 1 && cfg.RF > vfc18kBalancedCapacity(sizes)
		key := fmt.Sprintf("%s|%v|%s|rf=%d|ss=%d|off=%v", cfg.Variant, cfg.Layout, cfg.Naming, cfg.RF, cfg.Shard, cfg.ZoneOff)
		t.Logf("VF-INFLIGHT construct %s", key)

		var ring Hashring
		var err error
		out := vfc19Guarded(cfg.sections, vfc19Backstop, func() { ring, err = vfc19Build(cfg) })
		r.Eval(1)
		r.Count("scan_events", int(out.Events))
		if out.MaxSteps > *maxSteps {
			*maxSteps = out.MaxSteps
		}
		if cfg.Variant != "hashmod" && len(cfg.Layout) > 1 {
			r.Distinct(key)
		}
		switch {
		case out.TimedOut:
			r.Inconclusive(fmt.Sprintf("construction of %s neither returned nor completed a lap within %s; run stopped (goroutine cannot be cancelled)", key, vfc19Backstop))
			return true
		case out.Lap != nil:
			r.Count("nonterminating_constructions", 1)
			fp := "construct:ketama:lap-without-progress:rf-exceeds-zone-balanced-capacity"
			if !predicted {
				fp = "construct:ketama:lap-without-progress:other"
			}
			r.Violation(c, fp, fmt.Sprintf("NewMultiHashring(%s, RF=%d) over zone sizes %v never terminates: section %d scanned the whole ring (%d steps) with %d replicas chosen and none can be added",
				cfg.Variant, cfg.RF, cfg.Layout, out.Lap.Section, out.Lap.Steps, out.Lap.Replicas), map[string]any{"config": cfg, "lap": out.Lap})
			return false
		case out.Panic != nil:
			r.Violation(c, "construct:panic:"+cfg.Variant, fmt.Sprintf("NewMultiHashring panicked: %v", out.Panic), map[string]any{"config": cfg, "panic": fmt.Sprint(out.Panic), "stack": out.Stack})
			return false
		}
		if err != nil {
			r.Count("clean_errors_construct", 1)
			r.Sample(map[string]any{"config": key, "outcome": "error: " + err.Error()})
			return false
		}
		r.Count("rings_built", 1)
		// A ring was returned: it must be usable, i.e. GetN for n < RF returns (endpoint or error) in bounded steps.
		nt := 1
		if cfg.Variant == "ketama+shuffle" && (cfg.ZoneOff || r.Thorough()) {
			// zone-aware sub-rings take the same number of nodes from every zone; the zone-unaware ones
			// inherit arbitrary zone layouts, so more tenants (= more sub-layouts) are tried there.
			nt = len(tenants)
		}
		for ti := 0; ti < nt; ti++ {
			tenant := tenants[ti]
			t.Logf("VF-INFLIGHT getn %s tenant=%q", key, tenant)
			var gerr error
			gout := vfc19Guarded(cfg.sections, vfc19Backstop, func() {
				for n := 0; n < cfg.RF; n++ {
					if _, e := ring.GetN(tenant, series, uint64(n)); e != nil {
						gerr = e
						return
					}
				}
			})
			r.Eval(1)
			switch {
			case gout.TimedOut:
				r.Inconclusive(fmt.Sprintf("GetN on %s neither returned nor completed a lap within %s; run stopped", key, vfc19Backstop))
				return true
			case gout.Lap != nil:
				r.Count("nonterminating_getn", 1)
				r.Violation(c, "getn:shuffle-subring:lap-without-progress", fmt.Sprintf("GetN(tenant %q) on the ring built from %s never terminates: the tenant's sub-ring construction scanned the whole sub-ring (%d steps) with %d replicas chosen",
					tenant, key, gout.Lap.Steps, gout.Lap.Replicas), map[string]any{"config": cfg, "tenant": tenant, "lap": gout.Lap})
			case gout.Panic != nil:
				r.Violation(c, "getn:panic:"+cfg.Variant, fmt.Sprintf("GetN panicked on a ring NewMultiHashring returned: %v", gout.Panic), map[string]any{"config": cfg, "tenant": tenant, "panic": fmt.Sprint(gout.Panic), "stack": gout.Stack})
			case gerr != nil:
				if cfg.Variant == "ketama+shuffle" {
					r.Count("clean_errors_getn_shuffle", 1)
				} else {
					r.Violation(c, "getn:error-on-built-ring:"+cfg.Variant, fmt.Sprintf("ring built without error but GetN(n<RF) fails: %v", gerr), map[string]any{"config": cfg, "error": gerr.Error()})
				}
			default:
				r.Count("getn_ok", 1)
			}
		}
		ring.Close()
		r.Sample(map[string]any{"config": key, "outcome": "ring", "scan_events": out.Events, "max_steps_without_progress": out.MaxSteps})
	}
	return false
}
