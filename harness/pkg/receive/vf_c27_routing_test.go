//go:build verif

package receive

import (
	"fmt"
	"math/rand"
	"path/filepath"
	"strings"
	"sync"
	"sync/atomic"
	"testing"

	"github.com/prometheus/client_golang/prometheus"

	"github.com/thanos-io/thanos/pkg/verifhook/vfkit"
)

// C27 - Tenants are routed to the hashring their configuration selects.

// vfc27Matches is the reference matcher of one tenant list: exact (also the default for an unset
// matcher type) = membership; glob = some pattern matches by filepath.Match.
func vfc27Matches(tenants []string, typ tenantMatcher, tenant string) bool {
	for _, p := range tenants {
		if typ == TenantMatcherGlob {
			if ok, err := filepath.Match(p, tenant); err == nil && ok {
				return true
			}
		} else if p == tenant {
			return true
		}
	}
	return false
}

// vfc27Resolve is the reference resolver: first entry whose (non-empty) tenant list matches, else
// the first entry without a tenant list, else -1.
func vfc27Resolve(cfg []HashringConfig, tenant string) int {
	def := -1
	for i, h := range cfg {
		if len(h.Tenants) == 0 {
			if def < 0 {
				def = i
			}
			continue
		}
		if vfc27Matches(h.Tenants, h.TenantMatcherType, tenant) {
			return i
		}
	}
	return def
}

// vfc27Pattern builds a well-formed glob pattern (filepath.Match dialect) from 1..4 pieces: wildcards
// (* ?), classes, literals, and backslash escapes of special characters (\* \? \[ \\) and of ordinary
// ones (\. \- \b ...). About a third of the patterns contain no wildcard or class at all: plain literals
// and escaped literals such as acme\.corp, which are NOT equal to the only tenant name they match.
func vfc27Pattern(rng *rand.Rand) string {
	lit := []string{"a", "b", "t-", "0", "1", ":", "é", "team", "/", ".", "acme", "corp", "-"}
	esc := []string{`\.`, `\*`, `\?`, `\[`, `\\`, `\-`, `\b`, `\c`, `\:`, `\]`, `\é`}
	for {
		var sb strings.Builder
		k := 1 + rng.Intn(4)
		noWild := rng.Intn(3) == 0
		for i := 0; i < k; i++ {
			c := rng.Intn(10)
			if noWild && c < 4 {
				c = 4 + rng.Intn(6)
			}
			switch c {
			case 0, 1:
				sb.WriteString("*")
			case 2:
				sb.WriteString("?")
			case 3:
				sb.WriteString(vfkit.Pick(rng, []string{"[ab]", "[^a]", "[0-9]", "[a-c]", `[\]x]`, `[\*?]`}))
			case 4, 5, 6:
				sb.WriteString(vfkit.Pick(rng, esc))
			default:
				sb.WriteString(vfkit.Pick(rng, lit))
			}
		}
		p := sb.String()
		// well-formed only: filepath.Match scans the whole pattern for syntax errors (e.g. a trailing lone backslash)
		if _, err := filepath.Match(p, "probe"); err == nil {
			return p
		}
	}
}

// vfc27Instance walks the pattern and produces a tenant name it is meant to match: escapes are
// unescaped, * ? and classes are filled in. (Whether it really matches is decided by filepath.Match in
// the reference resolver, not here.)
func vfc27Instance(rng *rand.Rand, p string) string {
	star := vfkit.Pick(rng, []string{"", "a", "ab0", "x-y", "."})
	qm := vfkit.Pick(rng, []string{"a", "é", "0", "*"})
	var sb strings.Builder
	for i := 0; i < len(p); i++ {
		switch p[i] {
		case '\\':
			if i+1 < len(p) {
				i++
				sb.WriteByte(p[i])
			}
		case '*':
			sb.WriteString(star)
		case '?':
			sb.WriteString(qm)
		case '[':
			j := i + 1
			for j < len(p) && (p[j] != ']' || p[j-1] == '\\') {
				j++
			}
			switch cls := p[i:min(j+1, len(p))]; cls {
			case "[ab]":
				sb.WriteString("b")
			case "[^a]":
				sb.WriteString("z")
			case "[0-9]":
				sb.WriteString("7")
			case "[a-c]":
				sb.WriteString("c")
			case `[\]x]`:
				sb.WriteString(vfkit.Pick(rng, []string{"]", "x"}))
			default:
				sb.WriteString(vfkit.Pick(rng, []string{"*", "?"}))
			}
			i = j
		default:
			sb.WriteByte(p[i])
		}
	}
	return sb.String()
}

// vfc27NearMiss changes one byte of a name (or drops / adds one), for tenants that almost match.
func vfc27NearMiss(rng *rand.Rand, t string) string {
	if t == "" {
		return "x"
	}
	i := rng.Intn(len(t))
	switch rng.Intn(3) {
	case 0:
		return t[:i] + t[i+1:]
	case 1:
		return t[:i] + vfkit.Pick(rng, []string{"-", "x", "\\", "."}) + t[i+1:]
	default:
		return t[:i] + vfkit.Pick(rng, []string{"\\", "x", "."}) + t[i:]
	}
}

func vfc27Name(rng *rand.Rand) string {
	if rng.Intn(3) == 0 {
		return vfkit.Str(rng, 3, false)
	}
	return vfkit.Pick(rng, []string{"a", "b", "ab", "a0", "team-a", "team-b", "t-1", "0", "1", "default-tenant", "é", "a:b", ""}) +
		vfkit.Pick(rng, []string{"", "", "0", "b", "-x"})
}

type vfc27Case struct {
	cfg     []HashringConfig
	kinds   []string // per entry: exact | exact-unset | glob | default
	tenants []string
	algo    HashringAlgorithm
}

func vfc27Gen(rng *rand.Rand) vfc27Case {
	var c vfc27Case
	c.algo = AlgorithmHashmod
	if rng.Intn(12) == 0 {
		c.algo = AlgorithmKetama
	}
	n := 1 + rng.Intn(5)
	var names, patterns []string
	for i := 0; i < n; i++ {
		h := HashringConfig{Hashring: fmt.Sprintf("ring%d", i)}
		for j := 0; j < 1+rng.Intn(3); j++ {
			h.Endpoints = append(h.Endpoints, Endpoint{Address: fmt.Sprintf("ring%d-node%d", i, j)})
		}
		kind := vfkit.Pick(rng, []string{"exact", "exact-unset", "glob", "glob", "default"})
		switch kind {
		case "exact", "exact-unset":
			if kind == "exact" {
				h.TenantMatcherType = TenantMatcherTypeExact
			}
			for j := 0; j < 1+rng.Intn(3); j++ {
				var t string
				switch {
				case len(names) > 0 && rng.Intn(3) == 0:
					t = vfkit.Pick(rng, names) // overlap with an earlier entry
				case len(patterns) > 0 && rng.Intn(4) == 0:
					t = vfkit.Pick(rng, patterns) // a tenant literally named like a pattern
				default:
					t = vfc27Name(rng)
				}
				h.Tenants = append(h.Tenants, t)
				names = append(names, t)
			}
		case "glob":
			h.TenantMatcherType = TenantMatcherGlob
			for j := 0; j < 1+rng.Intn(3); j++ {
				var p string
				switch {
				case len(patterns) > 0 && rng.Intn(4) == 0:
					p = vfkit.Pick(rng, patterns)
				case len(names) > 0 && rng.Intn(4) == 0:
					p = vfkit.Pick(rng, names) // literal pattern = a name used elsewhere
					if _, err := filepath.Match(p, "probe"); err != nil {
						p = vfc27Pattern(rng)
					}
				default:
					p = vfc27Pattern(rng)
				}
				h.Tenants = append(h.Tenants, p)
				patterns = append(patterns, p)
			}
		}
		c.cfg = append(c.cfg, h)
		c.kinds = append(c.kinds, kind)
	}
	seen := map[string]struct{}{}
	add := func(t string) {
		if _, ok := seen[t]; !ok {
			seen[t] = struct{}{}
			c.tenants = append(c.tenants, t)
		}
	}
	for _, t := range names {
		add(t)
	}
	for _, p := range patterns {
		add(p) // the raw pattern text as a tenant name
		inst := vfc27Instance(rng, p)
		add(inst) // the unescaped / filled-in text
		add(vfc27Instance(rng, p))
		add(vfc27NearMiss(rng, inst))
	}
	for i := 0; i < 6; i++ {
		add(vfc27Name(rng))
	}
	c.tenants = vfkit.Perm(rng, c.tenants)
	if len(c.tenants) > 20 {
		c.tenants = c.tenants[:20]
	}
	return c
}

func vfc27Describe(c vfc27Case) []string {
	var out []string
	for i, h := range c.cfg {
		out = append(out, fmt.Sprintf("#%d %s tenants=%q", i, c.kinds[i], h.Tenants))
	}
	return out
}

// vfc27RingOf identifies the hashring an endpoint belongs to (endpoint names are pairwise disjoint).
func vfc27RingOf(e Endpoint) int {
	var i, j int
	if _, err := fmt.Sscanf(e.Address, "ring%d-node%d", &i, &j); err != nil {
		return -2
	}
	return i
}

func TestVF_C27(t *testing.T) {
	r := vfkit.Start(t, "C27")
	defer r.Finish()
	r.Rule("case = list of 1..5 hashring configs, each exact (matcher type set or unset) / glob (well-formed filepath.Match patterns built from * ? [..] literals and backslash escapes of special and ordinary characters; a third of them without any wildcard, e.g. acme\\.corp) / default (no tenant list), with overlapping names and patterns, " +
		"pairwise disjoint endpoint names (the endpoint identifies the ring), hashmod (1 in 12: ketama); up to 20 tenants: listed names, the raw pattern texts, the unescaped / filled-in texts of the patterns, near misses of those, alphabet strings; " +
		"oracle: the ring serving GetN(tenant) equals the reference resolver's choice (first entry whose tenant list matches exactly / by filepath.Match, else first entry without tenants, else an error), " +
		"on a cold cache, on the repeated call, and for 8 goroutines resolving all tenants concurrently on a second cold ring; race detector on; " +
		"distinct = configuration; non-trivial = >=2 entries and >=2 different rings (or ring and error) chosen among the tenants")
	n := r.N(2000, 60000)
	r.Require(int64(n)*4, n/4)
	r.Assume("glob patterns are well-formed (filepath.Match returns no ErrBadPattern); malformed patterns are invalid configuration and not generated")
	r.Assume("filepath.Match is the trusted definition of 'matches by glob pattern'")
	series := vfc18kNumSeries(1)

	for c := 0; c < n; c++ {
		if !r.Want(c) {
			continue
		}
		rng := r.Rand(c)
		cs := vfc27Gen(rng)
		wit := func(extra map[string]any) map[string]any {
			m := map[string]any{"hashrings": vfc27Describe(cs), "algorithm": string(cs.algo)}
			for k, v := range extra {
				m[k] = v
			}
			return m
		}
		build := func() Hashring {
			cfg := make([]HashringConfig, len(cs.cfg))
			for i, h := range cs.cfg {
				h.Endpoints = vfc18kCopyEndpoints(h.Endpoints)
				cfg[i] = h
			}
			h, err := NewMultiHashring(cs.algo, 1, cfg, prometheus.NewRegistry())
			if err != nil {
				t.Fatalf("harness: NewMultiHashring: %v", err)
			}
			return h
		}
		// resolve returns the index of the serving ring, -1 for an error.
		resolve := func(h Hashring, tenant string) (int, string) {
			e, err := h.GetN(tenant, series, 0)
			if err != nil {
				return -1, err.Error()
			}
			return vfc27RingOf(e), ""
		}
		kind := func(i int) string {
			if i < 0 {
				return "none"
			}
			return strings.TrimSuffix(cs.kinds[i], "-unset")
		}
		check := func(phase, tenant string, got int, errText string) bool {
			want := vfc27Resolve(cs.cfg, tenant)
			r.Eval(1)
			if got == want {
				return true
			}
			var fp string
			switch {
			case want >= 0 && got >= 0 && cs.kinds[got] == "default" && got < want:
				fp = "default-hashring-listed-before-matching-hashring-takes-the-tenant"
			case got == -1:
				fp = fmt.Sprintf("error-instead-of-hashring:expected=%s", kind(want))
			case want == -1:
				fp = fmt.Sprintf("served-without-matching-hashring:got=%s", kind(got))
			default:
				ord := "got-listed-after-expected"
				if got < want {
					ord = "got-listed-before-expected"
				}
				fp = fmt.Sprintf("wrong-hashring:expected=%s:got=%s:%s", kind(want), kind(got), ord)
			}
			r.Violation(c, fp, fmt.Sprintf("tenant %q is served by hashring #%d (%s) but the configuration selects #%d (%s) [%s] %s", tenant, got, kind(got), want, kind(want), phase, errText),
				wit(map[string]any{"tenant": tenant, "phase": phase, "got": got, "want": want, "error": errText}))
			return false
		}
		var seq map[string]int
		r.Guard(c, "getn", wit(nil), func() {
			h := build()
			defer h.Close()
			seq = map[string]int{}
			for _, tenant := range cs.tenants {
				got, et := resolve(h, tenant)
				seq[tenant] = got
				if !check("cold", tenant, got, et) {
					return
				}
			}
			for _, tenant := range cs.tenants {
				got, et := resolve(h, tenant)
				if got != seq[tenant] {
					r.Eval(1)
					r.Violation(c, "choice-changes-on-repeated-request", fmt.Sprintf("tenant %q: first request served by #%d, repeated request by #%d", tenant, seq[tenant], got), wit(map[string]any{"tenant": tenant}))
					return
				}
				if !check("repeated", tenant, got, et) {
					return
				}
			}
			// concurrent resolution on a cold cache
			h2 := build()
			defer h2.Close()
			const G = 8
			var wg sync.WaitGroup
			var mu sync.Mutex
			type obs struct {
				tenant string
				got    int
				et     string
			}
			var all []obs
			var order atomic.Int64
			finish := make([]int64, G)
			for g := 0; g < G; g++ {
				wg.Add(1)
				perm := vfkit.Perm(rng, cs.tenants)
				if g%2 == 0 {
					perm = cs.tenants // half of the goroutines race on the same tenant order
				}
				go func(g int, list []string) {
					defer wg.Done()
					var mine []obs
					for rep := 0; rep < 2; rep++ {
						for _, tenant := range list {
							got, et := resolve(h2, tenant)
							mine = append(mine, obs{tenant, got, et})
						}
					}
					finish[g] = order.Add(1)
					mu.Lock()
					all = append(all, mine...)
					mu.Unlock()
				}(g, perm)
			}
			wg.Wait()
			r.Signature(fmt.Sprint(finish))
			for _, o := range all {
				if o.got != seq[o.tenant] {
					r.Eval(1)
					r.Violation(c, "choice-changes-under-concurrent-requests", fmt.Sprintf("tenant %q: sequential request served by #%d, a concurrent request by #%d", o.tenant, seq[o.tenant], o.got), wit(map[string]any{"tenant": o.tenant}))
					return
				}
			}
			r.Eval(len(all))
		})
		chosen := map[int]struct{}{}
		for _, v := range seq {
			chosen[v] = struct{}{}
		}
		if len(cs.cfg) >= 2 && len(chosen) >= 2 {
			r.Distinct(fmt.Sprint(vfc27Describe(cs)))
		}
		r.Sample(map[string]any{"hashrings": vfc27Describe(cs), "tenants": fmt.Sprintf("%q", cs.tenants), "rings_chosen": len(chosen)})
	}
}
