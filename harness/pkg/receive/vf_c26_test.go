//go:build verif

package receive

// Monitor for C26 - remote-write v2 requests are translated faithfully and safely.
//
// Three observations per generated v2 request:
//  (1) translateV2ToV1 output vs. an independently resolved reference (symbols looked up by the monitor);
//  (2) for well-formed requests: what reaches the TSDB appender through the real receiveHTTP -> handleV2HTTP ->
//      Writer path vs. Prometheus' own decoding of the same bytes (prometheus/prompb/io/prometheus/write/v2);
//  (3) for requests with an out-of-range symbol reference: the HTTP handler must answer 4xx and must not panic
//      (the handler is called directly, panics are recovered and reported as "crashed request handling").

import (
	"bytes"
	"context"
	"fmt"
	"math"
	"math/rand"
	"net/http"
	"net/http/httptest"
	"sort"
	"strings"
	"sync"
	"testing"
	"time"

	"github.com/go-kit/log"
	"github.com/gogo/protobuf/proto"
	"github.com/golang/snappy"
	"github.com/prometheus/prometheus/model/exemplar"
	"github.com/prometheus/prometheus/model/histogram"
	"github.com/prometheus/prometheus/model/labels"
	promv2 "github.com/prometheus/prometheus/prompb/io/prometheus/write/v2"
	"github.com/prometheus/prometheus/storage"

	"github.com/thanos-io/thanos/pkg/extkingpin"
	"github.com/thanos-io/thanos/pkg/store/labelpb"
	"github.com/thanos-io/thanos/pkg/store/storepb/prompb"
	writev2 "github.com/thanos-io/thanos/pkg/store/storepb/prompb/io/prometheus/write/v2"
	"github.com/thanos-io/thanos/pkg/tenancy"
	"github.com/thanos-io/thanos/pkg/verifhook/vfkit"
)

type vfc26Hist struct {
	t  int64
	h  *histogram.Histogram
	fh *histogram.FloatHistogram
}

type vfc26Series struct {
	lset      labels.Labels
	samples   []prompb.Sample
	hists     []vfc26Hist
	exemplars []exemplar.Exemplar
}

type vfc26Rec struct {
	mu        sync.Mutex
	series    []*vfc26Series // in order of first append
	byKey     map[string]*vfc26Series
	committed bool
}

func (r *vfc26Rec) get(l labels.Labels) *vfc26Series {
	k := l.String()
	s := r.byKey[k]
	if s == nil {
		s = &vfc26Series{lset: l.Copy()}
		r.byKey[k] = s
		r.series = append(r.series, s)
	}
	return s
}

type vfc26Store struct {
	mu  sync.Mutex
	cur *vfc26Rec
}

func (s *vfc26Store) begin() *vfc26Rec {
	s.mu.Lock()
	defer s.mu.Unlock()
	s.cur = &vfc26Rec{byKey: map[string]*vfc26Series{}}
	return s.cur
}

func (s *vfc26Store) TenantAppendable(string) (Appendable, error) { return s, nil }
func (s *vfc26Store) Appender(_ context.Context) (storage.Appender, error) {
	s.mu.Lock()
	defer s.mu.Unlock()
	return &vfc26Appender{fakeAppender: newFakeAppender(nil, nil, nil), rec: s.cur}, nil
}

type vfc26Appender struct {
	*fakeAppender
	rec *vfc26Rec
}

func (a *vfc26Appender) Append(ref storage.SeriesRef, l labels.Labels, t int64, v float64) (storage.SeriesRef, error) {
	a.rec.mu.Lock()
	defer a.rec.mu.Unlock()
	s := a.rec.get(l)
	s.samples = append(s.samples, prompb.Sample{Timestamp: t, Value: v})
	return storage.SeriesRef(l.Hash() | 1), nil
}

func (a *vfc26Appender) AppendHistogram(ref storage.SeriesRef, l labels.Labels, t int64, h *histogram.Histogram, fh *histogram.FloatHistogram) (storage.SeriesRef, error) {
	a.rec.mu.Lock()
	defer a.rec.mu.Unlock()
	s := a.rec.get(l)
	hh := vfc26Hist{t: t}
	// the Writer builds a fresh histogram object per call; keep it as is (Copy normalises custom-bucket histograms)
	hh.h, hh.fh = h, fh
	s.hists = append(s.hists, hh)
	return storage.SeriesRef(l.Hash() | 1), nil
}

func (a *vfc26Appender) AppendExemplar(ref storage.SeriesRef, l labels.Labels, e exemplar.Exemplar) (storage.SeriesRef, error) {
	a.rec.mu.Lock()
	defer a.rec.mu.Unlock()
	s := a.rec.get(l)
	e.Labels = e.Labels.Copy()
	s.exemplars = append(s.exemplars, e)
	return ref, nil
}

func (a *vfc26Appender) GetRef(l labels.Labels, hash uint64) (storage.SeriesRef, labels.Labels) {
	return storage.SeriesRef(hash | 1), l
}

func (a *vfc26Appender) Commit() error {
	a.rec.mu.Lock()
	a.rec.committed = true
	a.rec.mu.Unlock()
	return nil
}

// ---- generator ----

func vfc26Float(rng *rand.Rand) float64 {
	switch rng.Intn(12) {
	case 0:
		return math.Inf(1)
	case 1:
		return math.Inf(-1)
	case 2:
		return math.NaN()
	case 3:
		return math.Copysign(0, -1)
	case 4:
		return math.Float64frombits(0x7ff0000000000002) // stale-marker-like NaN payload
	default:
		return float64(rng.Intn(2000)-1000) / 8
	}
}

func vfc26Spans(rng *rand.Rand) ([]writev2.BucketSpan, int) {
	// 0..4 spans; about a quarter of them are empty (Length 0) - leading, in the middle or trailing - and keep
	// their offset: the offset of an empty span still shifts every bucket that follows it
	n := rng.Intn(5)
	var out []writev2.BucketSpan
	total := 0
	for i := 0; i < n; i++ {
		l := uint32(1 + rng.Intn(3))
		if rng.Intn(4) == 0 {
			l = 0
		}
		off := int32(rng.Intn(5))
		if i == 0 {
			off -= 2 // the first span may start at a negative bucket index
		}
		out = append(out, writev2.BucketSpan{Offset: off, Length: l})
		total += int(l)
	}
	return out, total
}

func vfc26Histogram(rng *rand.Rand) writev2.Histogram {
	h := writev2.Histogram{
		Sum:           vfc26Float(rng),
		Schema:        int32(rng.Intn(12)) - 4,
		ZeroThreshold: float64(rng.Intn(4)) / 1024,
		ResetHint:     writev2.Histogram_ResetHint(rng.Intn(4)),
		Timestamp:     rng.Int63n(1 << 40),
	}
	ps, pn := vfc26Spans(rng)
	ns, nn := vfc26Spans(rng)
	h.PositiveSpans, h.NegativeSpans = ps, ns
	custom := rng.Intn(8) == 0
	if custom {
		// native histogram with custom buckets: no zero bucket, no negative side
		h.Schema = -53
		h.ZeroThreshold = 0
		h.NegativeSpans, nn = nil, 0
		for i := 0; i < pn; i++ {
			h.CustomValues = append(h.CustomValues, float64(i)+0.5)
		}
	}
	if rng.Intn(2) == 0 {
		h.Count = &writev2.Histogram_CountInt{CountInt: uint64(rng.Intn(1000))}
		if !custom {
			h.ZeroCount = &writev2.Histogram_ZeroCountInt{ZeroCountInt: uint64(rng.Intn(10))}
		}
		for i := 0; i < pn; i++ {
			h.PositiveDeltas = append(h.PositiveDeltas, int64(rng.Intn(9)-2))
		}
		for i := 0; i < nn; i++ {
			h.NegativeDeltas = append(h.NegativeDeltas, int64(rng.Intn(9)-2))
		}
	} else {
		h.Count = &writev2.Histogram_CountFloat{CountFloat: float64(rng.Intn(1000)) / 4}
		if !custom {
			h.ZeroCount = &writev2.Histogram_ZeroCountFloat{ZeroCountFloat: float64(rng.Intn(10)) / 2}
		}
		for i := 0; i < pn; i++ {
			h.PositiveCounts = append(h.PositiveCounts, float64(rng.Intn(40))/4)
		}
		for i := 0; i < nn; i++ {
			h.NegativeCounts = append(h.NegativeCounts, float64(rng.Intn(40))/4)
		}
	}
	return h
}

type vfc26Case struct {
	class   string // wellformed | arbitrary | badref
	where   string // badref: series-labels | exemplar-labels
	req     writev2.Request
	badRef  uint32
	badKind string
}

// vfc26Gen generates one v2 request. class wellformed: every series has sorted, unique, non-empty labels
// (the TSDB writer accepts it); arbitrary: any strings / any valid refs; badref: exactly one reference >= len(symbols).
func vfc26Gen(rng *rand.Rand, class string) *vfc26Case {
	c := &vfc26Case{class: class}
	nSym := rng.Intn(13)
	if class == "wellformed" && nSym < 3 {
		nSym = 3 + rng.Intn(8)
	}
	seen := map[string]bool{}
	var syms []string
	if nSym > 0 && (class == "wellformed" || rng.Intn(4) > 0) {
		syms = append(syms, "")
		seen[""] = true
	}
	for len(syms) < nSym {
		var s string
		if class == "wellformed" {
			s = vfkit.Str(rng, 3, true)
			if s == "" || seen[s] {
				s = fmt.Sprintf("%s_%d", s, len(syms))
			}
		} else {
			s = vfkit.Str(rng, 3, false)
			if rng.Intn(3) == 0 {
				s = fmt.Sprintf("sym%d", rng.Intn(6))
			}
		}
		seen[s] = true
		syms = append(syms, s)
	}
	c.req.Symbols = syms
	nonEmpty := func() []uint32 {
		var out []uint32
		for i, s := range syms {
			if s != "" {
				out = append(out, uint32(i))
			}
		}
		return out
	}()
	genRefs := func(maxPairs int) []uint32 {
		if len(syms) == 0 {
			return nil
		}
		np := rng.Intn(maxPairs + 1)
		if class == "wellformed" {
			if np == 0 {
				np = 1
			}
			if np > len(nonEmpty) {
				np = len(nonEmpty)
			}
			// distinct names, sorted by name string
			p := rng.Perm(len(nonEmpty))[:np]
			names := make([]uint32, np)
			for i := range p {
				names[i] = nonEmpty[p[i]]
			}
			sort.Slice(names, func(i, j int) bool { return syms[names[i]] < syms[names[j]] })
			var refs []uint32
			for _, n := range names {
				refs = append(refs, n, nonEmpty[rng.Intn(len(nonEmpty))])
			}
			return refs
		}
		var refs []uint32
		for i := 0; i < 2*np; i++ {
			refs = append(refs, uint32(rng.Intn(len(syms))))
		}
		return refs
	}
	nSeries := rng.Intn(5)
	if class == "badref" && nSeries == 0 {
		nSeries = 1
	}
	if len(syms) == 0 && class != "badref" {
		nSeries = rng.Intn(2) // only label-less series are expressible
	}
	for i := 0; i < nSeries; i++ {
		ts := writev2.TimeSeries{LabelsRefs: genRefs(4)}
		for k := rng.Intn(4); k > 0; k-- {
			ts.Samples = append(ts.Samples, writev2.Sample{Value: vfc26Float(rng), Timestamp: rng.Int63n(1 << 40)})
		}
		if rng.Intn(3) == 0 {
			for k := 1 + rng.Intn(2); k > 0; k-- {
				ts.Histograms = append(ts.Histograms, vfc26Histogram(rng))
			}
		}
		for k := rng.Intn(3); k > 0; k-- {
			ts.Exemplars = append(ts.Exemplars, writev2.Exemplar{LabelsRefs: genRefs(2), Value: vfc26Float(rng), Timestamp: rng.Int63n(1 << 40)})
		}
		c.req.Timeseries = append(c.req.Timeseries, ts)
	}
	if class == "badref" {
		bad := uint32(len(syms))
		switch rng.Intn(3) {
		case 1:
			bad += uint32(1 + rng.Intn(5))
			c.badKind = "beyond-end"
		case 2:
			bad = math.MaxUint32 - uint32(rng.Intn(3))
			c.badKind = "huge"
		default:
			c.badKind = "len"
		}
		c.badRef = bad
		ts := &c.req.Timeseries[rng.Intn(len(c.req.Timeseries))]
		if rng.Intn(3) == 0 {
			if len(ts.Exemplars) == 0 {
				ts.Exemplars = append(ts.Exemplars, writev2.Exemplar{Value: 1, Timestamp: 1})
			}
			e := &ts.Exemplars[rng.Intn(len(ts.Exemplars))]
			if len(e.LabelsRefs) < 2 {
				e.LabelsRefs = []uint32{0, 0}
				if len(syms) == 0 {
					e.LabelsRefs = []uint32{bad, bad}
				}
			}
			e.LabelsRefs[rng.Intn(len(e.LabelsRefs))] = bad
			// make every other reference of the request valid so that the class is exact
			c.where = "exemplar-labels"
		} else {
			if len(ts.LabelsRefs) < 2 {
				ts.LabelsRefs = []uint32{0, 0}
				if len(syms) == 0 {
					ts.LabelsRefs = []uint32{bad, bad}
				}
			}
			ts.LabelsRefs[rng.Intn(len(ts.LabelsRefs))] = bad
			c.where = "series-labels"
		}
	}
	return c
}

// ---- independent reference for (1) ----

func vfc26Same(a, b float64) bool { return math.Float64bits(a) == math.Float64bits(b) }

func vfc26SameFloats(a, b []float64) bool {
	if len(a) != len(b) {
		return false
	}
	for i := range a {
		if !vfc26Same(a[i], b[i]) {
			return false
		}
	}
	return true
}

func vfc26SameInts(a, b []int64) bool {
	if len(a) != len(b) {
		return false
	}
	for i := range a {
		if a[i] != b[i] {
			return false
		}
	}
	return true
}

func vfc26SameLabels(refs []uint32, syms []string, got []labelpb.ZLabel) bool {
	if len(got) != len(refs)/2 {
		return false
	}
	for i := range got {
		if got[i].Name != syms[refs[2*i]] || got[i].Value != syms[refs[2*i+1]] {
			return false
		}
	}
	return true
}

func vfc26SameSpans(a []writev2.BucketSpan, b []prompb.BucketSpan) bool {
	if len(a) != len(b) {
		return false
	}
	for i := range a {
		if a[i].Offset != b[i].Offset || a[i].Length != b[i].Length {
			return false
		}
	}
	return true
}

// vfc26CompareTranslation returns "" or the first difference class.
func vfc26CompareTranslation(in *writev2.Request, out *prompb.WriteRequest) (string, string) {
	if out == nil {
		return "nil-result", "translation returned nil"
	}
	if len(out.Timeseries) != len(in.Timeseries) {
		return "series-count", fmt.Sprintf("%d series in, %d out", len(in.Timeseries), len(out.Timeseries))
	}
	for i, ts := range in.Timeseries {
		o := out.Timeseries[i]
		if !vfc26SameLabels(ts.LabelsRefs, in.Symbols, o.Labels) {
			return "labels", fmt.Sprintf("series %d: labels %v differ from refs %v", i, o.Labels, ts.LabelsRefs)
		}
		if len(o.Samples) != len(ts.Samples) {
			return "samples", fmt.Sprintf("series %d: %d samples in, %d out", i, len(ts.Samples), len(o.Samples))
		}
		for k := range ts.Samples {
			if o.Samples[k].Timestamp != ts.Samples[k].Timestamp || !vfc26Same(o.Samples[k].Value, ts.Samples[k].Value) {
				return "samples", fmt.Sprintf("series %d sample %d differs", i, k)
			}
		}
		if len(o.Exemplars) != len(ts.Exemplars) {
			return "exemplars", fmt.Sprintf("series %d: %d exemplars in, %d out", i, len(ts.Exemplars), len(o.Exemplars))
		}
		for k, e := range ts.Exemplars {
			oe := o.Exemplars[k]
			if oe.Timestamp != e.Timestamp || !vfc26Same(oe.Value, e.Value) || !vfc26SameLabels(e.LabelsRefs, in.Symbols, oe.Labels) {
				return "exemplars", fmt.Sprintf("series %d exemplar %d differs", i, k)
			}
		}
		if len(o.Histograms) != len(ts.Histograms) {
			return "histograms", fmt.Sprintf("series %d: %d histograms in, %d out", i, len(ts.Histograms), len(o.Histograms))
		}
		for k, h := range ts.Histograms {
			oh := o.Histograms[k]
			ok := oh.Timestamp == h.Timestamp && vfc26Same(oh.Sum, h.Sum) && oh.Schema == h.Schema && vfc26Same(oh.ZeroThreshold, h.ZeroThreshold) &&
				int32(oh.ResetHint) == int32(h.ResetHint) &&
				vfc26SameSpans(h.PositiveSpans, oh.PositiveSpans) && vfc26SameSpans(h.NegativeSpans, oh.NegativeSpans) &&
				vfc26SameInts(h.PositiveDeltas, oh.PositiveDeltas) && vfc26SameInts(h.NegativeDeltas, oh.NegativeDeltas) &&
				vfc26SameFloats(h.PositiveCounts, oh.PositiveCounts) && vfc26SameFloats(h.NegativeCounts, oh.NegativeCounts) &&
				vfc26SameFloats(h.CustomValues, oh.CustomValues)
			switch c := h.Count.(type) {
			case *writev2.Histogram_CountInt:
				oc, is := oh.Count.(*prompb.Histogram_CountInt)
				ok = ok && is && oc.CountInt == c.CountInt
			case *writev2.Histogram_CountFloat:
				oc, is := oh.Count.(*prompb.Histogram_CountFloat)
				ok = ok && is && vfc26Same(oc.CountFloat, c.CountFloat)
			default:
				ok = ok && oh.Count == nil
			}
			switch c := h.ZeroCount.(type) {
			case *writev2.Histogram_ZeroCountInt:
				oc, is := oh.ZeroCount.(*prompb.Histogram_ZeroCountInt)
				ok = ok && is && oc.ZeroCountInt == c.ZeroCountInt
			case *writev2.Histogram_ZeroCountFloat:
				oc, is := oh.ZeroCount.(*prompb.Histogram_ZeroCountFloat)
				ok = ok && is && vfc26Same(oc.ZeroCountFloat, c.ZeroCountFloat)
			default:
				ok = ok && oh.ZeroCount == nil
			}
			if !ok {
				return "histograms", fmt.Sprintf("series %d histogram %d differs: in %+v out %+v", i, k, h, oh)
			}
		}
	}
	return "", ""
}

// vfc26Translate calls the real translation whatever its (possibly fixed) signature is.
func vfc26Translate(req writev2.Request) (*prompb.WriteRequest, error) {
	return vfc26AdaptTranslate(translateV2ToV1(req))
}

// vfc26AdaptTranslate accepts both "(*WriteRequest)" and "(*WriteRequest, error)" results.
func vfc26AdaptTranslate(out *prompb.WriteRequest, errs ...error) (*prompb.WriteRequest, error) {
	for _, e := range errs {
		if e != nil {
			return out, e
		}
	}
	return out, nil
}

// ---- reference for (2): Prometheus' own decoding of the same bytes ----

func vfc26Reference(raw []byte) ([]*vfc26Series, error) {
	var pr promv2.Request
	if err := pr.Unmarshal(raw); err != nil {
		return nil, err
	}
	var out []*vfc26Series
	byKey := map[string]*vfc26Series{}
	b := labels.NewScratchBuilder(8)
	for _, ts := range pr.Timeseries {
		if len(ts.Samples)+len(ts.Histograms)+len(ts.Exemplars) == 0 {
			continue // leaves no trace in an appender
		}
		l, err := ts.ToLabels(&b, pr.Symbols)
		if err != nil {
			return nil, err
		}
		k := l.String()
		s := byKey[k]
		if s == nil {
			s = &vfc26Series{lset: l.Copy()}
			byKey[k] = s
			out = append(out, s)
		}
		for _, sm := range ts.Samples {
			s.samples = append(s.samples, prompb.Sample{Timestamp: sm.Timestamp, Value: sm.Value})
		}
		for _, h := range ts.Histograms {
			if h.IsFloatHistogram() {
				s.hists = append(s.hists, vfc26Hist{t: h.Timestamp, fh: h.ToFloatHistogram()})
			} else {
				s.hists = append(s.hists, vfc26Hist{t: h.Timestamp, h: h.ToIntHistogram()})
			}
		}
		for _, e := range ts.Exemplars {
			ex, err := e.ToExemplar(&b, pr.Symbols)
			if err != nil {
				return nil, err
			}
			ex.Labels = ex.Labels.Copy()
			s.exemplars = append(s.exemplars, ex)
		}
	}
	return out, nil
}

func vfc26CompareIngest(want, got []*vfc26Series) (string, string) {
	// series without any sample, histogram or exemplar leave no trace in an appender
	var w []*vfc26Series
	for _, s := range want {
		if len(s.samples)+len(s.hists)+len(s.exemplars) > 0 {
			w = append(w, s)
		}
	}
	if len(w) != len(got) {
		return "series-count", fmt.Sprintf("%d series with data described, %d reached the appender", len(w), len(got))
	}
	for i, ws := range w {
		gs := got[i]
		if !labels.Equal(ws.lset, gs.lset) {
			return "labels", fmt.Sprintf("series %d: described %s, appended %s", i, ws.lset, gs.lset)
		}
		if len(ws.samples) != len(gs.samples) {
			return "samples", fmt.Sprintf("series %s: %d samples described, %d appended", ws.lset, len(ws.samples), len(gs.samples))
		}
		for k := range ws.samples {
			if ws.samples[k].Timestamp != gs.samples[k].Timestamp || !vfc26Same(ws.samples[k].Value, gs.samples[k].Value) {
				return "samples", fmt.Sprintf("series %s sample %d: described %v appended %v", ws.lset, k, ws.samples[k], gs.samples[k])
			}
		}
		if len(ws.hists) != len(gs.hists) {
			return "histograms", fmt.Sprintf("series %s: %d histograms described, %d appended", ws.lset, len(ws.hists), len(gs.hists))
		}
		for k := range ws.hists {
			a, b := ws.hists[k], gs.hists[k]
			ok := a.t == b.t && (a.h == nil) == (b.h == nil) && (a.fh == nil) == (b.fh == nil)
			if ok && a.h != nil {
				ok = a.h.Equals(b.h) && a.h.CounterResetHint == b.h.CounterResetHint
			}
			if ok && a.fh != nil {
				ok = a.fh.Equals(b.fh) && a.fh.CounterResetHint == b.fh.CounterResetHint
			}
			if !ok {
				return "histograms", fmt.Sprintf("series %s histogram %d: described %s appended %s", ws.lset, k, vfc26HistString(a), vfc26HistString(b))
			}
		}
		if len(ws.exemplars) != len(gs.exemplars) {
			return "exemplars", fmt.Sprintf("series %s: %d exemplars described, %d appended", ws.lset, len(ws.exemplars), len(gs.exemplars))
		}
		for k := range ws.exemplars {
			a, b := ws.exemplars[k], gs.exemplars[k]
			if a.Ts != b.Ts || !vfc26Same(a.Value, b.Value) || !labels.Equal(a.Labels, b.Labels) {
				return "exemplars", fmt.Sprintf("series %s exemplar %d: described %v appended %v", ws.lset, k, a, b)
			}
		}
	}
	return "", ""
}

func vfc26HistString(h vfc26Hist) string {
	switch {
	case h.h != nil:
		return fmt.Sprintf("t=%d int %+v", h.t, *h.h)
	case h.fh != nil:
		return fmt.Sprintf("t=%d float %+v", h.t, *h.fh)
	}
	return fmt.Sprintf("t=%d none", h.t)
}

func vfc26Post(h *Handler, raw []byte) (code int, body string, panicked string) {
	req, err := http.NewRequest("POST", "http://vf-self:10901/api/v1/receive", bytes.NewReader(snappy.Encode(nil, raw)))
	if err != nil {
		return 0, "", "harness: " + err.Error()
	}
	req.Header.Set(tenancy.DefaultTenantHeader, "vf")
	req.Header.Set("Content-Type", "application/x-protobuf;proto=io.prometheus.write.v2.Request")
	req.Header.Set("X-Prometheus-Remote-Write-Version", "2.0.0")
	rec := httptest.NewRecorder()
	func() {
		defer func() {
			if p := recover(); p != nil {
				panicked = fmt.Sprint(p)
			}
		}()
		h.receiveHTTP(rec, req)
	}()
	return rec.Code, strings.TrimSpace(rec.Body.String()), panicked
}

func vfc26Witness(c *vfc26Case) map[string]any {
	type ser struct {
		LabelsRefs   []uint32   `json:"labels_refs"`
		Samples      int        `json:"samples"`
		Histograms   int        `json:"histograms"`
		ExemplarRefs [][]uint32 `json:"exemplar_labels_refs"`
	}
	var ss []ser
	for _, ts := range c.req.Timeseries {
		s := ser{LabelsRefs: ts.LabelsRefs, Samples: len(ts.Samples), Histograms: len(ts.Histograms)}
		for _, e := range ts.Exemplars {
			s.ExemplarRefs = append(s.ExemplarRefs, e.LabelsRefs)
		}
		ss = append(ss, s)
	}
	syms := make([]string, len(c.req.Symbols))
	for i, s := range c.req.Symbols {
		syms[i] = fmt.Sprintf("%q", s)
	}
	return map[string]any{"class": c.class, "bad_ref_in": c.where, "bad_ref": c.badRef, "symbols": syms, "timeseries": ss}
}

func TestVF_C26(t *testing.T) {
	r := vfkit.Start(t, "C26")
	defer r.Finish()
	r.Rule("case = one generated remote-write 2.0 request: symbol table of 0..12 strings (adversarial alphabet, duplicates, with/without leading \"\"), 0..4 series with 0..4 label pairs, 0..3 samples (incl. NaN/Inf/-0), " +
		"int/float/custom-bucket native histograms, 0..2 exemplars with labels; classes: wellformed (sorted unique non-empty labels), arbitrary (any valid refs), badref (exactly one label/exemplar ref >= len(symbols): = len, beyond, near 2^32). " +
		"oracle: (1) translateV2ToV1 == reference resolved by the monitor, field by field, floats bitwise; (2) wellformed: HTTP 200 and what reaches the TSDB appender through receiveHTTP == Prometheus' own write/v2 decoding of the same bytes; " +
		"(3) badref: the HTTP handler answers 4xx and does not panic. distinct = hash of the request; non-trivial = request has at least one series")
	r.Assume("exemplars: HasTs is not compared (thanos always sets it); series without samples/histograms/exemplars leave no trace in the appender")
	r.Assume("odd numbers of label refs and out-of-range metadata refs are not generated (not covered by the statement)")
	n := r.N(6000, 250000)
	r.Require(int64(n), n/2)

	store := &vfc26Store{}
	limiter, err := NewLimiter(extkingpin.NewNopConfig(), nil, RouterIngestor, log.NewNopLogger(), time.Second)
	if err != nil {
		t.Fatalf("limiter: %v", err)
	}
	h := NewHandler(log.NewNopLogger(), &Options{
		TenantHeader:      tenancy.DefaultTenantHeader,
		ReplicaHeader:     DefaultReplicaHeader,
		ReplicationFactor: 1,
		ForwardTimeout:    5 * time.Minute,
		Writer:            NewWriter(log.NewNopLogger(), store, &WriterOptions{}),
		Limiter:           limiter,
		Endpoint:          "vf-self:10901",
	})
	defer h.Close()
	ring, err := newSimpleHashring([]Endpoint{{Address: "vf-self:10901"}})
	if err != nil {
		t.Fatalf("hashring: %v", err)
	}
	h.Hashring(ring)

	// directed part: replica writes still pending when the request was acknowledged (see vf_c26_pending_test.go)
	vfc26Pending(t, r, r.N(400, 20000))

	for ci := 0; ci < n; ci++ {
		if !r.Want(ci) {
			continue
		}
		rng := r.Rand(ci)
		class := []string{"wellformed", "wellformed", "arbitrary", "badref", "badref"}[rng.Intn(5)]
		c := vfc26Gen(rng, class)
		wit := vfc26Witness(c)
		raw, err := proto.Marshal(&c.req)
		if err != nil {
			t.Fatalf("marshal: %v", err)
		}
		if len(c.req.Timeseries) > 0 {
			r.Distinct(string(raw))
		}
		r.Count("class_"+class, 1)
		r.Sample(wit)

		if class != "badref" {
			// (1) translation vs reference
			r.Eval(1)
			var out *prompb.WriteRequest
			var terr error
			panicked := ""
			func() {
				defer func() {
					if p := recover(); p != nil {
						panicked = fmt.Sprint(p)
					}
				}()
				// translate a copy decoded from the wire, as the handler does
				var in writev2.Request
				if err := proto.Unmarshal(raw, &in); err != nil {
					terr = err
					return
				}
				out, terr = vfc26Translate(in)
			}()
			switch {
			case panicked != "":
				r.Violation(ci, "valid:translate-panic", "translateV2ToV1 panicked on a request whose references are all valid: "+panicked, wit)
			case terr != nil:
				r.Violation(ci, "valid:translate-error", "translateV2ToV1 rejected a request whose references are all valid: "+terr.Error(), wit)
			default:
				var in writev2.Request
				_ = proto.Unmarshal(raw, &in)
				if cls, what := vfc26CompareTranslation(&in, out); cls != "" {
					r.Violation(ci, "translate:"+cls+"-differ", what, wit)
				}
			}
		}

		rec := store.begin()
		code, body, panicked := vfc26Post(h, raw)
		r.Eval(1)
		r.Count(fmt.Sprintf("%s_status_%d", class, code), 1)
		wit["status"], wit["body"] = code, body
		switch class {
		case "badref":
			switch {
			case panicked != "":
				msg := panicked
				if i := strings.Index(msg, "["); i > 0 && strings.Contains(msg, "index out of range") {
					msg = "index out of range"
				}
				r.Violation(ci, "badref:"+c.where+":panic:"+msg, fmt.Sprintf("request handling crashed on a %s reference %d with %d symbols (%s): %s", c.where, c.badRef, len(c.req.Symbols), c.badKind, panicked), wit)
			case code < 400 || code > 499:
				r.Violation(ci, fmt.Sprintf("badref:%s:status=%d", c.where, code), fmt.Sprintf("a %s reference %d with %d symbols was answered with %d instead of a client error", c.where, c.badRef, len(c.req.Symbols), code), wit)
			}
		case "arbitrary":
			if panicked != "" {
				r.Violation(ci, "valid:handler-panic", "request handling crashed on a request whose references are all valid: "+panicked, wit)
			}
		case "wellformed":
			if panicked != "" {
				r.Violation(ci, "valid:handler-panic", "request handling crashed on a well-formed request: "+panicked, wit)
				break
			}
			if code != http.StatusOK {
				r.Violation(ci, fmt.Sprintf("wellformed:status=%d", code), fmt.Sprintf("well-formed v2 request answered with %d: %s", code, body), wit)
				break
			}
			want, err := vfc26Reference(raw)
			if err != nil {
				r.Inconclusive("reference decoding failed: " + err.Error())
				break
			}
			rec.mu.Lock()
			got := rec.series
			rec.mu.Unlock()
			if cls, what := vfc26CompareIngest(want, got); cls != "" {
				r.Violation(ci, "ingest:"+cls+"-differ", what, wit)
			}
		}
	}
}
