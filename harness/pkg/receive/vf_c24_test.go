//go:build verif

package receive

// Monitor for C24 - the remote-write concurrency gate is never exceeded.
//
// A real Handler with a Limiter configured through the real limits YAML (max_concurrency) serves requests
// through receiveHTTP (remote write v1, v2) and receiveOTLPHTTP. Everything runs in a testing/synctest bubble:
// the monitor plays a script of events (arrive, client-cancel, complete), waits for quiescence after every
// batch and then evaluates the oracle, so no verdict depends on timing.
//
// Observation points (both at existing boundaries):
//   enter  = first Read of the request body: the handlers read the body only after writeGate.Start succeeded;
//   leave  = the monitor releases the latch the fake TSDB appender's Commit is blocked on (counted as left
//            *before* the release, so the counter is a lower bound of the requests inside the gated section).

import (
	"bytes"
	"context"
	"fmt"
	"io"
	"math/rand"
	"net/http"
	"net/http/httptest"
	"sort"
	"strconv"
	"strings"
	"sync"
	"testing"
	"testing/synctest"
	"time"

	"github.com/go-kit/log"
	"github.com/gogo/protobuf/proto"
	"github.com/golang/snappy"
	"github.com/pkg/errors"
	"github.com/prometheus/prometheus/model/labels"
	"github.com/prometheus/prometheus/storage"
	"go.opentelemetry.io/collector/pdata/pcommon"
	"go.opentelemetry.io/collector/pdata/pmetric"
	"go.opentelemetry.io/collector/pdata/pmetric/pmetricotlp"

	"github.com/thanos-io/thanos/pkg/store/labelpb"
	"github.com/thanos-io/thanos/pkg/store/storepb/prompb"
	writev2 "github.com/thanos-io/thanos/pkg/store/storepb/prompb/io/prometheus/write/v2"
	"github.com/thanos-io/thanos/pkg/tenancy"
	"github.com/thanos-io/thanos/pkg/verifhook/vfkit"
)

// vfc24Content is the in-memory limits file; set rewrites it like an operator editing the file would.
type vfc24Content struct {
	mu sync.Mutex
	b  []byte
}

func (c *vfc24Content) Content() ([]byte, error) {
	c.mu.Lock()
	defer c.mu.Unlock()
	return append([]byte(nil), c.b...), nil
}
func (c *vfc24Content) Path() string { return "" }
func (c *vfc24Content) set(max int) {
	c.mu.Lock()
	c.b = []byte(fmt.Sprintf("write:\n  global:\n    max_concurrency: %d\n  default:\n    request:\n      size_bytes_limit: 1048576\n      series_limit: 2\n      samples_limit: 16\n", max))
	c.mu.Unlock()
}

type vfc24Client struct {
	id       int
	gen      int    // generation of the limits configuration (= gate instance) current when the request arrived
	kind     string // v1 | v2 | otlp
	flavor   string // "" well-formed | big-declared | garbage | too-many-series | bad-version: rejected after the gate, before the write
	cancel   context.CancelFunc
	latch    chan struct{}
	arrived  bool
	preCanc  bool
	canceled bool
	released bool
	// written by handler-side goroutines under env.mu
	entered  bool
	inCommit bool
	finished bool
	code     int
	panicked string
}

type vfc24Env struct {
	mu      sync.Mutex
	clients []*vfc24Client
	gen     int   // current generation: number of limits reloads so far
	limits  []int // max_concurrency per generation
}

func (e *vfc24Env) get(id int) *vfc24Client {
	e.mu.Lock()
	defer e.mu.Unlock()
	if id < 0 || id >= len(e.clients) {
		return nil
	}
	return e.clients[id]
}

type vfc24Body struct {
	r    io.Reader
	once sync.Once
	on   func()
}

func (b *vfc24Body) Read(p []byte) (int, error) {
	b.once.Do(b.on)
	return b.r.Read(p)
}
func (b *vfc24Body) Close() error { return nil }

type vfc24Tenants struct{ env *vfc24Env }

func (t vfc24Tenants) TenantAppendable(string) (Appendable, error) {
	return vfc24Appendable{t.env}, nil
}

type vfc24Appendable struct{ env *vfc24Env }

func (a vfc24Appendable) Appender(ctx context.Context) (storage.Appender, error) {
	return &vfc24Appender{fakeAppender: newFakeAppender(nil, nil, nil), env: a.env, id: -1, ctx: ctx}, nil
}

type vfc24Appender struct {
	*fakeAppender
	env *vfc24Env
	id  int
	ctx context.Context
}

func (a *vfc24Appender) Append(ref storage.SeriesRef, l labels.Labels, t int64, v float64) (storage.SeriesRef, error) {
	if id, err := strconv.Atoi(l.Get("client")); err == nil {
		a.id = id
	}
	return a.fakeAppender.Append(ref, l, t, v)
}

func (a *vfc24Appender) Commit() error {
	c := a.env.get(a.id)
	if c == nil {
		return errors.New("vf: write of an unknown client")
	}
	a.env.mu.Lock()
	c.inCommit = true
	a.env.mu.Unlock()
	select {
	case <-c.latch:
		return nil
	case <-a.ctx.Done():
		// safety net only: the forward timeout cannot fire while the monitor drives the schedule
		return a.ctx.Err()
	}
}

func vfc24Request(ctx context.Context, c *vfc24Client, env *vfc24Env) (*http.Request, error) {
	var (
		body []byte
		path = "/api/v1/receive"
		hdr  = map[string]string{}
	)
	cid := strconv.Itoa(c.id)
	nSeries := 1
	if c.flavor == "too-many-series" {
		nSeries = 3 // series_limit is 2
	}
	switch c.kind {
	case "v1":
		w := &prompb.WriteRequest{}
		for i := 0; i < nSeries; i++ {
			w.Timeseries = append(w.Timeseries, prompb.TimeSeries{
				Labels:  []labelpb.ZLabel{{Name: labels.MetricName, Value: "vf_metric"}, {Name: "client", Value: cid}, {Name: "i", Value: strconv.Itoa(i)}},
				Samples: []prompb.Sample{{Timestamp: 1000, Value: 1}},
			})
		}
		b, err := proto.Marshal(w)
		if err != nil {
			return nil, err
		}
		body = snappy.Encode(nil, b)
	case "v2":
		w := &writev2.Request{Symbols: []string{"", labels.MetricName, "vf_metric", "client", cid, "i", "0", "1", "2"}}
		for i := 0; i < nSeries; i++ {
			w.Timeseries = append(w.Timeseries, writev2.TimeSeries{LabelsRefs: []uint32{1, 2, 3, 4, 5, uint32(6 + i)}, Samples: []writev2.Sample{{Timestamp: 1000, Value: 1}}})
		}
		b, err := proto.Marshal(w)
		if err != nil {
			return nil, err
		}
		body = snappy.Encode(nil, b)
		hdr["Content-Type"] = "application/x-protobuf;proto=io.prometheus.write.v2.Request"
		hdr["X-Prometheus-Remote-Write-Version"] = "2.0.0"
	case "otlp":
		d := pmetric.NewMetrics()
		rm := d.ResourceMetrics().AppendEmpty()
		m := rm.ScopeMetrics().AppendEmpty().Metrics().AppendEmpty()
		m.SetName("vf_gauge")
		m.SetEmptyGauge()
		for i := 0; i < nSeries; i++ {
			dp := m.Gauge().DataPoints().AppendEmpty()
			dp.SetTimestamp(pcommon.Timestamp(1_000_000_000))
			dp.SetDoubleValue(1)
			dp.Attributes().PutStr("client", cid)
			dp.Attributes().PutStr("i", strconv.Itoa(i))
		}
		b, err := pmetricotlp.NewExportRequestFromMetrics(d).MarshalProto()
		if err != nil {
			return nil, err
		}
		body = b
		path = "/api/v1/otlp"
		hdr["Content-Type"] = "application/x-protobuf"
	}
	if c.flavor == "garbage" {
		body = []byte{0xff, 0xfe, 0x00, 0x13, 0x37, 0xff, 0xff, 0xff, 0xff, 0x7f}
	}
	rb := &vfc24Body{r: bytes.NewReader(body), on: func() {
		env.mu.Lock()
		c.entered = true
		env.mu.Unlock()
	}}
	req, err := http.NewRequestWithContext(ctx, "POST", "http://vf-self:10901"+path, rb)
	if err != nil {
		return nil, err
	}
	req.Header.Set(tenancy.DefaultTenantHeader, "vf")
	for k, v := range hdr {
		req.Header.Set(k, v)
	}
	switch {
	case c.flavor == "big-declared":
		req.ContentLength = 2 << 20 // size_bytes_limit is 1 MiB: rejected on the declared length
	case c.id%2 == 0:
		req.ContentLength = int64(len(body))
	default:
		req.ContentLength = -1 // unknown (chunked)
	}
	if c.flavor == "bad-version" {
		req.Header.Set("X-Prometheus-Remote-Write-Version", "2.0.0")
		req.Header.Set("Content-Type", "text/plain")
	}
	return req, nil
}

type vfc24Result struct {
	sig        []string
	evals      int
	violations []vfc24Violation
	entered    int
	cancQueued int
	cancInside int
	maxInside  int
	problems   []string
	statuses   map[int]int
	limits     []int // max_concurrency per configuration generation
	reloads    int
	rejectable int // arrivals the handler must reject after the gate
	reloadsInF int // reloads performed while at least one request was queued or inside
	atLimit    bool
}

type vfc24Violation struct {
	fp, what string
	at       int
}

// vfc24Run plays one schedule. kinds[i] is the endpoint of client i.
// rrng != nil enables "reload limits configuration" events (drawn from their own stream).
// frng != nil makes about one arrival in six a request that the handler rejects after the gate (see flavor).
func vfc24Run(t *testing.T, rng, rrng, frng *rand.Rand, max int, kinds []string, nEvents int, preCancel bool, label string) vfc24Result {
	res := vfc24Result{statuses: map[int]int{}}
	synctest.Test(t, func(t *testing.T) {
		env := &vfc24Env{limits: []int{max}}
		content := &vfc24Content{}
		content.set(max)
		limiter, err := NewLimiter(content, nil, RouterIngestor, log.NewNopLogger(), time.Second)
		if err != nil {
			res.problems = append(res.problems, "limiter: "+err.Error())
			return
		}
		h := NewHandler(log.NewNopLogger(), &Options{
			TenantHeader:            tenancy.DefaultTenantHeader,
			ReplicaHeader:           DefaultReplicaHeader,
			ReplicationFactor:       1,
			ForwardTimeout:          5 * time.Minute,
			Writer:                  NewWriter(log.NewNopLogger(), vfc24Tenants{env}, &WriterOptions{}),
			Limiter:                 limiter,
			Endpoint:                "vf-self:10901",
			AsyncForwardWorkerCount: 64,
		})
		ring, err := newSimpleHashring([]Endpoint{{Address: "vf-self:10901"}})
		if err != nil {
			res.problems = append(res.problems, "hashring: "+err.Error())
			return
		}
		h.Hashring(ring)

		var wg sync.WaitGroup
		arrive := func(pre bool) *vfc24Client {
			env.mu.Lock()
			c := &vfc24Client{id: len(env.clients), gen: env.gen, latch: make(chan struct{}), arrived: true, preCanc: pre}
			c.kind = kinds[c.id%len(kinds)]
			if frng != nil && frng.Intn(6) == 0 {
				c.flavor = []string{"big-declared", "garbage", "too-many-series", "bad-version"}[frng.Intn(4)]
				res.rejectable++
			}
			env.clients = append(env.clients, c)
			env.mu.Unlock()
			ctx, cancel := context.WithCancel(context.Background())
			c.cancel = cancel
			if pre {
				cancel()
				c.canceled = true
			}
			req, err := vfc24Request(ctx, c, env)
			if err != nil {
				res.problems = append(res.problems, "request: "+err.Error())
				return c
			}
			wg.Add(1)
			go func() {
				defer wg.Done()
				rec := httptest.NewRecorder()
				defer func() {
					p := recover()
					env.mu.Lock()
					if p != nil {
						c.panicked = fmt.Sprint(p)
					}
					c.finished = true
					c.code = rec.Code
					env.mu.Unlock()
				}()
				if c.kind == "otlp" {
					h.receiveOTLPHTTP(rec, req)
				} else {
					h.receiveHTTP(rec, req)
				}
			}()
			return c
		}
		reportedPanic := map[int]bool{}
		exceeded := false
		observe := func(step int) {
			env.mu.Lock()
			defer env.mu.Unlock()
			res.evals++
			inside := 0
			insideBy := make([]int, len(env.limits))
			suffix := ""
			if env.gen > 0 {
				suffix = "-after-reload"
			}
			var st []string
			for _, c := range env.clients {
				switch {
				case c.finished:
					st = append(st, "f")
				case c.entered && !c.released:
					inside++
					insideBy[c.gen]++
					st = append(st, "i")
				case c.entered:
					st = append(st, "l")
				default:
					st = append(st, "q")
				}
				if c.panicked != "" && !reportedPanic[c.id] {
					reportedPanic[c.id] = true
					msg := c.panicked
					cls := "panic:" + msg
					if strings.Contains(msg, "gate.Done") {
						cls = "panic-gate-done"
					}
					res.violations = append(res.violations, vfc24Violation{fp: label + ":" + cls + suffix, at: step,
						what: fmt.Sprintf("request handling of client %d (%s, admitted under configuration generation %d, current generation %d) panicked: %s", c.id, c.kind, c.gen, env.gen, msg)})
				}
			}
			res.sig = append(res.sig, strings.Join(st, ""))
			if inside > res.maxInside {
				res.maxInside = inside
			}
			// Requests are accounted to the gate (configuration generation) that admitted them: a reload installs a
			// new gate and requests still running under the previous one do not count against the new limit.
			for g, n := range insideBy {
				if n == env.limits[g] {
					res.atLimit = true
				}
				if n > env.limits[g] && !exceeded {
					exceeded = true
					res.violations = append(res.violations, vfc24Violation{fp: label + ":limit-exceeded" + suffix, at: step,
						what: fmt.Sprintf("%d requests admitted under configuration generation %d are inside the gated section at the same time, its max_concurrency is %d (limits by generation %v)", n, g, env.limits[g], env.limits)})
				}
			}
		}
		curMax := func() int {
			env.mu.Lock()
			defer env.mu.Unlock()
			return env.limits[env.gen]
		}
		complete := func(c *vfc24Client) {
			env.mu.Lock()
			c.released = true
			env.mu.Unlock()
			close(c.latch)
		}
		snapshot := func() (queued, inside []*vfc24Client) {
			env.mu.Lock()
			defer env.mu.Unlock()
			for _, c := range env.clients {
				if c.finished || c.released {
					continue
				}
				if c.entered {
					// only requests whose write reached the TSDB can be completed
					if c.inCommit {
						inside = append(inside, c)
					}
				} else if !c.canceled {
					queued = append(queued, c)
				}
			}
			return
		}

		for ev := 0; ev < nEvents; ev++ {
			batch := 1
			if rng.Intn(10) < 3 {
				batch = 2 + rng.Intn(3)
			}
			queued, inside := snapshot()
			// A reload batch contains no arrivals, so every request has an unambiguous admitting generation; the
			// cancellations / completions of the batch run concurrently with the reload.
			reload := rrng != nil && rrng.Intn(5) == 0
			inFlight := len(queued) + len(inside)
			var names []string
			for b := 0; b < batch; b++ {
				k := rng.Intn(10)
				switch {
				case reload && (k < 4 || (len(queued) == 0 && len(inside) == 0)):
					// no arrival in a reload batch
				case k < 4 || (len(queued) == 0 && len(inside) == 0):
					pre := preCancel && rng.Intn(5) == 0
					c := arrive(pre)
					switch {
					case pre:
						names = append(names, fmt.Sprintf("P%d", c.id))
					case c.flavor != "":
						names = append(names, fmt.Sprintf("J%d(%s)", c.id, c.flavor))
					default:
						names = append(names, fmt.Sprintf("A%d", c.id))
					}
				case k < 7 && len(queued) > 0:
					i := rng.Intn(len(queued))
					c := queued[i]
					queued = append(queued[:i], queued[i+1:]...)
					c.canceled = true
					c.cancel()
					res.cancQueued++
					names = append(names, fmt.Sprintf("X%d", c.id))
				case k < 8 && len(inside) > 0:
					// a client giving up while its request is being processed
					c := inside[rng.Intn(len(inside))]
					if !c.canceled {
						c.canceled = true
						c.cancel()
						res.cancInside++
						names = append(names, fmt.Sprintf("Y%d", c.id))
					}
				case len(inside) > 0:
					i := rng.Intn(len(inside))
					c := inside[i]
					inside = append(inside[:i], inside[i+1:]...)
					complete(c)
					names = append(names, fmt.Sprintf("C%d", c.id))
				case reload:
				default:
					c := arrive(false)
					names = append(names, fmt.Sprintf("A%d", c.id))
				}
			}
			if reload {
				// the production reload path: StartConfigReloader's callback calls Limiter.loadConfig
				newMax := curMax()
				if rrng.Intn(2) == 0 {
					newMax = 1 + rrng.Intn(4)
				}
				content.set(newMax)
				if err := limiter.loadConfig(); err != nil {
					res.problems = append(res.problems, "reload: "+err.Error())
				}
				env.mu.Lock()
				env.gen++
				env.limits = append(env.limits, newMax)
				env.mu.Unlock()
				res.reloads++
				if inFlight > 0 {
					res.reloadsInF++
				}
				names = append(names, fmt.Sprintf("R%d", newMax))
			}
			res.sig = append(res.sig, strings.Join(names, "+"))
			synctest.Wait()
			observe(ev)
		}
		// drain: complete what is inside until nothing moves any more, then probe the quiescent gate
		for round := 0; round < 4*len(env.clients)+8; round++ {
			_, inside := snapshot()
			if len(inside) == 0 {
				break
			}
			for _, c := range inside {
				complete(c)
			}
			synctest.Wait()
			observe(nEvents + round)
		}
		queued, _ := snapshot()
		stuck := len(queued)
		// quiescent probe: max+1 fresh requests (max of the current configuration), at most max may be inside
		if stuck == 0 {
			for i := 0; i <= curMax(); i++ {
				arrive(false)
			}
			res.sig = append(res.sig, "probe")
			synctest.Wait()
			observe(-1)
			for round := 0; round < curMax()+4; round++ {
				_, inside := snapshot()
				if len(inside) == 0 {
					break
				}
				for _, c := range inside {
					complete(c)
				}
				synctest.Wait()
				observe(-1)
			}
		}
		// whoever is still waiting gives up (only happens when the gate lost slots)
		env.mu.Lock()
		var rest []*vfc24Client
		for _, c := range env.clients {
			if !c.finished {
				rest = append(rest, c)
			}
		}
		env.mu.Unlock()
		for _, c := range rest {
			c.cancel()
			env.mu.Lock()
			rel := c.entered && !c.released
			env.mu.Unlock()
			if rel {
				complete(c)
			}
		}
		synctest.Wait()
		observe(-2)
		env.mu.Lock()
		for _, c := range env.clients {
			if c.entered {
				res.entered++
			}
			if !c.finished {
				res.problems = append(res.problems, fmt.Sprintf("client %d never finished", c.id))
			} else {
				res.statuses[c.code]++
			}
		}
		if len(rest) > 0 {
			res.statuses[-1] += len(rest) // requests that had to be cancelled by the harness at the end
		}
		res.limits = append([]int(nil), env.limits...)
		env.mu.Unlock()
		h.Close()
		synctest.Wait()
		wg.Wait()
	})
	return res
}

func TestVF_C24(t *testing.T) {
	r := vfkit.Start(t, "C24")
	defer r.Finish()
	r.Rule("case = one schedule of 12..40 event batches {arrive, in half of the schedules ~1/6 of the arrivals are requests rejected after the gate (declared Content-Length over size_bytes_limit, garbage body, more series than series_limit, unsupported version header), arrive-with-already-cancelled-context, client cancels while queued, client cancels while processed, complete, and in half of the schedules: reload the limits configuration " +
		"(Limiter.loadConfig, the function the config reloader calls; same or changed max_concurrency 1..4; issued concurrently with the cancellations/completions of its batch, never in one batch with arrivals)} (batches of 1..4 events issued concurrently) " +
		"against a real Handler whose Limiter was configured through the limits YAML with max_concurrency 1..4; endpoints remote-write v1, v2 (receiveHTTP), OTLP (receiveOTLPHTTP) or mixed; the fake TSDB commit blocks on a latch so requests pile up at the gate; " +
		"followed by a drain and a quiescent probe with max+1 fresh requests (max of the configuration then in force). oracle after every batch (at quiescence): for every configuration generation g, #requests that arrived under g, started reading their body and whose write " +
		"was not yet released <= max_concurrency of g (a reload installs a new gate; requests still running under the previous gate are accounted to that gate, nothing is asserted about the sum across a reload boundary); no request-handling goroutine panicked. " +
		"signature = sequence of event batches and per-client states; distinct/non-trivial = a schedule in which at least one queued request was cancelled or the configuration was reloaded while requests were queued or being processed")
	r.Assume("the handlers read the request body only after writeGate.Start succeeded (enter point) and hold the slot until they return")
	r.Assume("forward timeout (5m) never fires: the synctest fake clock does not advance while the monitor drives the schedule")
	r.Assume("a request is admitted by the gate that was current when it arrived (the handler looks the gate up once, before waiting); lost slots / under-utilisation of a gate are counted, not asserted (not part of the statement)")
	n := r.N(700, 40000)
	r.Require(int64(n), n/2)
	var sigs0 int
	for c := 0; c < n; c++ {
		if !r.Want(c) {
			continue
		}
		rng := r.Rand(c)
		max := 1 + rng.Intn(4)
		// A panic outside the handler goroutines (e.g. in a goroutine the handler started) kills the
		// process: the driver then reports the schedule in flight as the witness ("never crash the receiver").
		fmt.Printf("VF-INFLIGHT C24 schedule case=%d seed=%d max_concurrency=%d\n", c, r.Seed(), max)
		var kinds []string
		label := ""
		switch rng.Intn(5) {
		case 0, 1:
			kinds, label = []string{"v1"}, "receiveHTTP"
		case 2:
			kinds, label = []string{"v2"}, "receiveHTTP"
		case 3:
			kinds, label = []string{"otlp"}, "receiveOTLPHTTP"
		default:
			kinds, label = []string{"v1", "otlp", "v2"}, "mixed"
		}
		nEvents := 12 + rng.Intn(29)
		preCancel := rng.Intn(4) == 0
		// reload events come from their own stream so that schedules without reloads are unchanged by them
		var rrng *rand.Rand
		if rr := r.RandS("reload", c); rr.Intn(2) == 0 {
			rrng = rr
		}
		var frng *rand.Rand
		if fr := r.RandS("flavor", c); fr.Intn(2) == 0 {
			frng = fr
		}
		res := vfc24Run(t, rng, rrng, frng, max, kinds, nEvents, preCancel, label)
		r.Eval(res.evals)
		r.Signature(strings.Join(res.sig, " "))
		if len(res.problems) > 0 {
			sort.Strings(res.problems)
			r.Inconclusive(fmt.Sprintf("case %d: %s", c, strings.Join(res.problems, "; ")))
			continue
		}
		if res.cancQueued > 0 || res.reloadsInF > 0 {
			r.Distinct(strings.Join(res.sig, " "))
		}
		r.Count("arrivals_rejected_after_the_gate(413/400)", res.rejectable)
		r.Count("limits_reloads", res.reloads)
		r.Count("limits_reloads_with_requests_in_flight", res.reloadsInF)
		if res.statuses[-1] > 0 {
			r.Count("requests_never_admitted(lost slot, not asserted)", res.statuses[-1])
		}
		r.Count("requests_entered_gate", res.entered)
		r.Count("cancelled_while_queued", res.cancQueued)
		r.Count("cancelled_while_processed", res.cancInside)
		if res.atLimit {
			r.Count("schedules_reaching_the_limit", 1)
		}
		for code, k := range res.statuses {
			r.Count(fmt.Sprintf("status_%d", code), k)
		}
		wit := map[string]any{"max_concurrency": max, "max_concurrency_by_generation": res.limits, "endpoints": kinds, "events_then_states": res.sig,
			"legend": "events: A arrive, J arrive with a request the handler rejects after the gate (declared size, garbage body, too many series, bad version header), P arrive with cancelled context, X cancel while queued, Y cancel while processed, C complete, R<n> reload limits config with max_concurrency n; states per client: q queued/not entered, i inside, l released, f finished"}
		for _, v := range res.violations {
			r.Violation(c, v.fp, v.what+fmt.Sprintf(" (max_concurrency=%d, endpoints=%v, after event batch %d)", max, kinds, v.at), wit)
		}
		r.Sample(map[string]any{"max_concurrency": max, "endpoints": kinds, "schedule": strings.Join(res.sig, " "), "max_inside_observed": res.maxInside})
		if c == 0 {
			sigs0 = r.Signatures()
		}
	}
	_ = sigs0
	if !r.Replaying() && r.Signatures() < n/2 {
		r.Inconclusive(fmt.Sprintf("only %d distinct schedules in %d cases", r.Signatures(), n))
	}
}
