//go:build verif

package receive

// Directed part of the C26 monitor: what a replica ingests when its write is still pending at the moment the
// v2 request was acknowledged and a further v2 request has been received in the meantime.
//
// RF 3, three nodes (optionally one served by the production local write path), scripted peers behind real
// peerWorker pools, sequenced with synctest like the C22 monitor: request A through receiveHTTP, two replica writes
// released -> HTTP 200 (quorum 2 of 3), request B (different strings, identical encoded size) through receiveHTTP,
// then A's third replica write and B's writes are released. Every replica write reads its request only when it is
// released (a slow peer marshals late). Oracle: each of the six writes carries exactly the series (labels, samples)
// its own request describes through its symbol table.

import (
	"bytes"
	"context"
	"fmt"
	"math/rand"
	"net/http"
	"net/http/httptest"
	"sort"
	"strings"
	"sync"
	"testing"
	"testing/synctest"
	"time"

	"github.com/go-kit/log"
	"github.com/gogo/protobuf/proto"
	"github.com/golang/snappy"
	"github.com/prometheus/client_golang/prometheus"
	"github.com/prometheus/prometheus/model/labels"
	"google.golang.org/grpc"

	"github.com/thanos-io/thanos/pkg/extkingpin"
	"github.com/thanos-io/thanos/pkg/store/storepb"
	writev2 "github.com/thanos-io/thanos/pkg/store/storepb/prompb/io/prometheus/write/v2"
	"github.com/thanos-io/thanos/pkg/tenancy"
	"github.com/thanos-io/thanos/pkg/verifhook/vfkit"
)

type vfc26PCall struct {
	node    int
	first   string // metric name of the first series, read when the write was dispatched
	release chan struct{}
	got     []string // canonical series, read when the write was released
	err     error
}

type vfc26PEnv struct {
	mu    sync.Mutex
	calls []*vfc26PCall
}

func (e *vfc26PEnv) pending() []*vfc26PCall {
	e.mu.Lock()
	defer e.mu.Unlock()
	return append([]*vfc26PCall(nil), e.calls...)
}

func vfc26Canon(pairs [][2]string, samples [][2]float64) string {
	return fmt.Sprintf("%q %v", pairs, samples)
}

type vfc26PPeer struct {
	env   *vfc26PEnv
	node  int
	local *localAsyncWriter
	store *vfc26Store
}

func (p *vfc26PPeer) Close() error { return nil }

func (p *vfc26PPeer) RemoteWrite(ctx context.Context, in *storepb.WriteRequest, _ ...grpc.CallOption) (*storepb.WriteResponse, error) {
	call := &vfc26PCall{node: p.node, release: make(chan struct{})}
	for _, tup := range in.TimeseriesTenantData {
		for _, ts := range tup.Timeseries {
			if call.first == "" {
				for _, l := range ts.Labels {
					if l.Name == labels.MetricName {
						call.first = strings.Clone(l.Value)
					}
				}
			}
		}
	}
	p.env.mu.Lock()
	p.env.calls = append(p.env.calls, call)
	p.env.mu.Unlock()
	<-call.release
	// the replica ingests now
	if p.local != nil {
		rec := p.store.begin()
		_, err := p.local.RemoteWrite(ctx, in)
		rec.mu.Lock()
		for _, s := range rec.series {
			var pairs [][2]string
			s.lset.Range(func(l labels.Label) { pairs = append(pairs, [2]string{strings.Clone(l.Name), strings.Clone(l.Value)}) })
			var smp [][2]float64
			for _, x := range s.samples {
				smp = append(smp, [2]float64{float64(x.Timestamp), x.Value})
			}
			call.got = append(call.got, vfc26Canon(pairs, smp))
		}
		rec.mu.Unlock()
		call.err = err
		return &storepb.WriteResponse{}, err
	}
	for _, tup := range in.TimeseriesTenantData {
		for _, ts := range tup.Timeseries {
			var pairs [][2]string
			for _, l := range ts.Labels {
				pairs = append(pairs, [2]string{strings.Clone(l.Name), strings.Clone(l.Value)})
			}
			var smp [][2]float64
			for _, x := range ts.Samples {
				smp = append(smp, [2]float64{float64(x.Timestamp), x.Value})
			}
			call.got = append(call.got, vfc26Canon(pairs, smp))
		}
	}
	return &storepb.WriteResponse{}, nil
}

type vfc26PPeers struct {
	mu      sync.Mutex
	clients map[Endpoint]*peerWorker
}

func (g *vfc26PPeers) set(c map[Endpoint]*peerWorker) { g.mu.Lock(); g.clients = c; g.mu.Unlock() }
func (g *vfc26PPeers) Close() error                   { return nil }
func (g *vfc26PPeers) close(Endpoint) error           { return nil }
func (g *vfc26PPeers) markPeerUnavailable(Endpoint)   {}
func (g *vfc26PPeers) markPeerAvailable(Endpoint)     {}
func (g *vfc26PPeers) reset()                         {}
func (g *vfc26PPeers) getConnection(_ context.Context, ep Endpoint) (WriteableStoreAsyncClient, error) {
	g.mu.Lock()
	defer g.mu.Unlock()
	c, ok := g.clients[ep]
	if !ok {
		return nil, fmt.Errorf("vf: no client for %s", ep)
	}
	return c, nil
}

// vfc26PRequest builds one v2 request whose strings are made of the letter set "alpha"; two requests built with the
// same shape but different alphabets have the same encoded size.
func vfc26PRequest(shape *rand.Rand, alpha string, tag byte) (*writev2.Request, []string) {
	word := func(n int) string {
		b := make([]byte, n)
		for i := range b {
			b[i] = alpha[shape.Intn(len(alpha))]
		}
		return string(b)
	}
	nSeries := 1 + shape.Intn(3)
	req := &writev2.Request{Symbols: []string{"", labels.MetricName, "inst", "job"}}
	var want []string
	for i := 0; i < nSeries; i++ {
		name := fmt.Sprintf("vf%c_%d_%s", tag, i, word(3+shape.Intn(6)))
		inst, job := word(2+shape.Intn(8)), word(2+shape.Intn(8))
		base := uint32(len(req.Symbols))
		req.Symbols = append(req.Symbols, name, inst, job)
		ts := writev2.TimeSeries{LabelsRefs: []uint32{1, base, 2, base + 1, 3, base + 2}}
		var smp [][2]float64
		for k := 1 + shape.Intn(2); k > 0; k-- {
			s := writev2.Sample{Timestamp: int64(1000 + 100*int(tag%2) + i*10 + k), Value: float64(int(tag)*1000 + i*10 + k)}
			ts.Samples = append(ts.Samples, s)
			smp = append(smp, [2]float64{float64(s.Timestamp), s.Value})
		}
		req.Timeseries = append(req.Timeseries, ts)
		want = append(want, vfc26Canon([][2]string{{labels.MetricName, name}, {"inst", inst}, {"job", job}}, smp))
	}
	return req, want
}

func vfc26PPost(h *Handler, raw []byte) int {
	req, err := http.NewRequest("POST", "http://vf-self:10901/api/v1/receive", bytes.NewReader(snappy.Encode(nil, raw)))
	if err != nil {
		return -1
	}
	req.Header.Set(tenancy.DefaultTenantHeader, "vf")
	req.Header.Set("Content-Type", "application/x-protobuf;proto=io.prometheus.write.v2.Request")
	req.Header.Set("X-Prometheus-Remote-Write-Version", "2.0.0")
	rec := httptest.NewRecorder()
	h.receiveHTTP(rec, req)
	return rec.Code
}

func vfc26Pending(t *testing.T, r *vfkit.Run, n int) {
	limiter, err := NewLimiter(extkingpin.NewNopConfig(), nil, RouterIngestor, log.NewNopLogger(), time.Second)
	if err != nil {
		t.Fatalf("limiter: %v", err)
	}
	store := &vfc26Store{}
	store.begin()
	h := NewHandler(log.NewNopLogger(), &Options{
		TenantHeader:      tenancy.DefaultTenantHeader,
		ReplicaHeader:     DefaultReplicaHeader,
		ReplicationFactor: 3,
		ForwardTimeout:    5 * time.Minute,
		Writer:            NewWriter(log.NewNopLogger(), store, &WriterOptions{}),
		Limiter:           limiter,
		Endpoint:          "vf-self:10901",
	})
	pc := &vfc26PPeers{}
	h.peers = pc
	nodes := []Endpoint{{Address: "vfp-0:10901"}, {Address: "vfp-1:10901"}, {Address: "vfp-2:10901"}}
	ring, err := newSimpleHashring(nodes)
	if err != nil {
		t.Fatalf("hashring: %v", err)
	}
	h.Hashring(ring)

	for ci := 0; ci < n; ci++ {
		caseID := 1_000_000 + ci // case numbers of the directed part
		if !r.Want(caseID) {
			continue
		}
		rng := r.RandS("pending", ci)
		shapeSeed := rng.Int63()
		reqA, wantA := vfc26PRequest(rand.New(rand.NewSource(shapeSeed)), "abcdefgh", 'a')
		reqB, wantB := vfc26PRequest(rand.New(rand.NewSource(shapeSeed)), "STUVWXYZ", 'b')
		rawA, errA := proto.Marshal(reqA)
		rawB, errB := proto.Marshal(reqB)
		if errA != nil || errB != nil {
			t.Fatalf("marshal: %v %v", errA, errB)
		}
		local := rng.Intn(4) - 1 // -1: no node goes through the production local writer
		slow := rng.Intn(3)      // node whose write for request A is released last
		var (
			codeA, codeB    int
			ackedBeforeLast bool
			calls           []*vfc26PCall
			problem         string
			nA              int
		)
		synctest.Test(t, func(t *testing.T) {
			env := &vfc26PEnv{}
			clients := map[Endpoint]*peerWorker{}
			for i, ep := range nodes {
				p := &vfc26PPeer{env: env, node: i}
				if i == local {
					p.local, p.store = &localAsyncWriter{w: h.writer}, store
				}
				clients[ep] = newPeerWorker(p, prometheus.NewHistogram(prometheus.HistogramOpts{}), 8, 0)
			}
			pc.set(clients)
			doneA, doneB := make(chan int, 1), make(chan int, 1)
			go func() { doneA <- vfc26PPost(h, rawA) }()
			synctest.Wait()
			// one write per (node, replica number): 3 per distinct ring rotation of the request's series
			a := env.pending()
			if len(a) == 0 || len(a)%3 != 0 {
				problem = fmt.Sprintf("request A dispatched %d replica writes, expected a multiple of 3", len(a))
			}
			nA = len(a)
			// release the two fast replicas of A
			for _, c := range a {
				if c.node != slow {
					close(c.release)
					synctest.Wait()
				}
			}
			select {
			case codeA = <-doneA:
				ackedBeforeLast = true
			default:
			}
			// the next request arrives while A's slow replica write is still pending
			go func() { doneB <- vfc26PPost(h, rawB) }()
			synctest.Wait()
			for _, c := range a {
				if c.node == slow {
					close(c.release)
					synctest.Wait()
				}
			}
			if !ackedBeforeLast {
				codeA = <-doneA
			}
			for _, c := range env.pending()[len(a):] {
				close(c.release)
				synctest.Wait()
			}
			codeB = <-doneB
			calls = env.pending()
			for _, w := range clients {
				w.wp.Close()
			}
			synctest.Wait()
		})
		if problem != "" || len(calls) < 6 || nA == 0 {
			r.Inconclusive(fmt.Sprintf("directed case %d: %s (%d replica writes seen)", ci, problem, len(calls)))
			continue
		}
		r.Distinct(fmt.Sprintf("pending|%x|%d|%d", shapeSeed, local, slow))
		if ackedBeforeLast {
			r.Count("pending_replica_writes_released_after_ack_and_next_request", 1)
		}
		wit := map[string]any{"request_A_symbols": reqA.Symbols, "request_B_symbols": reqB.Symbols, "encoded_size_A": len(rawA), "encoded_size_B": len(rawB),
			"node_served_by_local_writer": local, "slow_node_of_A": slow, "status_A": codeA, "status_B": codeB, "A_acknowledged_before_its_last_replica_write": ackedBeforeLast}
		if codeA != http.StatusOK || codeB != http.StatusOK {
			r.Violation(caseID, fmt.Sprintf("directed:wellformed:status=%d/%d", codeA, codeB), "well-formed v2 requests with three healthy replicas were not answered 200", wit)
			continue
		}
		// every node is a replica of every series (3 nodes, RF 3): per request and node the ingested series must be
		// exactly the series the request describes
		type key struct {
			which string
			node  int
		}
		gotBy := map[key][]string{}
		errBy := map[key]error{}
		firstBy := map[key]string{}
		for i, c := range calls {
			k := key{"A", c.node}
			if i >= nA {
				k.which = "B"
			}
			gotBy[k] = append(gotBy[k], c.got...)
			firstBy[k] = c.first
			if c.err != nil {
				errBy[k] = c.err
			}
		}
		bad := false
		for _, which := range []string{"A", "B"} {
			want := append([]string(nil), wantA...)
			if which == "B" {
				want = append([]string(nil), wantB...)
			}
			sort.Strings(want)
			for node := 0; node < 3 && !bad; node++ {
				k := key{which, node}
				r.Eval(1)
				got := append([]string(nil), gotBy[k]...)
				sort.Strings(got)
				if strings.Join(got, "\n") == strings.Join(want, "\n") && errBy[k] == nil {
					continue
				}
				bad = true
				late := which == "A" && node == slow && ackedBeforeLast
				fp := "replica:data-differs-from-request"
				if late {
					fp = "pending-replica-after-ack:data-differs-from-request"
				}
				wit["replica_write"] = map[string]any{"request": which, "node": node, "dispatched_with_first_series": firstBy[k], "ingested": got, "described_by_request": want, "error": fmt.Sprint(errBy[k])}
				r.Violation(caseID, fp, fmt.Sprintf("the replica write(s) of request %s on node %d ingested series the request does not describe (released %s)", which, node,
					map[bool]string{true: "after the request was acknowledged and the next request was received", false: "in order"}[late]), wit)
			}
		}
	}
}
