//go:build verif

package receive

// Monitors for
//   C22 - an acknowledged remote write reached quorum for every series
//   C23 - failed replicated writes report retryable and permanent failures correctly
//
// Both drive the real Handler (RemoteWrite / receiveHTTP -> handleRequest -> forward -> fanoutForward ->
// sendWrites -> real peerWorker -> fake peer client) inside a testing/synctest bubble. The fake peer client
// blocks every replica write until the sequencer releases it, records a success *before* the response is
// let through, and returns the scripted outcome. After every single release the sequencer waits until all
// goroutines of the bubble are durably blocked (synctest.Wait), so "the order in which replica responses
// arrive" is exactly the scripted order and "what was stored at the moment of return" is exactly known
// without any sleep or wall clock.

import (
	"bytes"
	"context"
	"fmt"
	"math/rand"
	"net/http"
	"net/http/httptest"
	"sort"
	"strings"
	"sync"
	"testing"
	"testing/synctest"
	"time"

	"github.com/go-kit/log"
	"github.com/gogo/protobuf/proto"
	"github.com/golang/snappy"
	"github.com/pkg/errors"
	"github.com/prometheus/client_golang/prometheus"
	"github.com/prometheus/prometheus/model/labels"
	"github.com/prometheus/prometheus/storage"
	"github.com/prometheus/prometheus/tsdb"
	"google.golang.org/grpc"
	"google.golang.org/grpc/codes"
	"google.golang.org/grpc/status"

	"github.com/thanos-io/thanos/pkg/extkingpin"
	"github.com/thanos-io/thanos/pkg/store/labelpb"
	"github.com/thanos-io/thanos/pkg/store/storepb"
	"github.com/thanos-io/thanos/pkg/store/storepb/prompb"
	"github.com/thanos-io/thanos/pkg/tenancy"
	"github.com/thanos-io/thanos/pkg/verifhook/vfkit"
)

// Outcomes of one (endpoint, replica) write:
//   S success, C conflict, U unavailable (answer of the peer), O other error,
//   B unavailable because the peer is in back-off (getConnection fails, answer is immediate).

type vfc22Call struct {
	er      endpointReplica
	series  []string
	release chan struct{}
}

type vfc22Env struct {
	mu       sync.Mutex
	byTenant map[endpointReplica]map[string]byte // read-only: per-tenant outcomes of local writes
	outcome  map[endpointReplica]byte
	pending  map[endpointReplica]*vfc22Call
	log      []endpointReplica
	stored   map[string]map[string]bool // series -> endpoint address -> stored successfully
	problems []string
}

func vfc22NewEnv(outcome map[endpointReplica]byte) *vfc22Env {
	return &vfc22Env{outcome: outcome, pending: map[endpointReplica]*vfc22Call{}, stored: map[string]map[string]bool{}}
}

func (e *vfc22Env) register(er endpointReplica, series []string) *vfc22Call {
	e.mu.Lock()
	defer e.mu.Unlock()
	if _, dup := e.pending[er]; dup {
		e.problems = append(e.problems, fmt.Sprintf("write for %v dispatched twice", er))
	}
	c := &vfc22Call{er: er, series: series, release: make(chan struct{})}
	e.pending[er] = c
	e.log = append(e.log, er)
	return c
}

func (e *vfc22Env) outcomeOf(er endpointReplica) byte {
	e.mu.Lock()
	defer e.mu.Unlock()
	o, ok := e.outcome[er]
	if !ok {
		e.problems = append(e.problems, fmt.Sprintf("write for unplanned destination %v", er))
		return 'O'
	}
	return o
}

func (e *vfc22Env) store(ep Endpoint, series []string) {
	e.mu.Lock()
	defer e.mu.Unlock()
	for _, s := range series {
		m := e.stored[s]
		if m == nil {
			m = map[string]bool{}
			e.stored[s] = m
		}
		m[ep.Address] = true
	}
}

func (e *vfc22Env) snapshot() map[string]int {
	e.mu.Lock()
	defer e.mu.Unlock()
	out := map[string]int{}
	for s, m := range e.stored {
		out[s] = len(m)
	}
	return out
}

func (e *vfc22Env) call(er endpointReplica) *vfc22Call {
	e.mu.Lock()
	defer e.mu.Unlock()
	return e.pending[er]
}

func vfc22SeriesName(lbls []labelpb.ZLabel) string {
	for _, l := range lbls {
		if l.Name == labels.MetricName {
			return strings.Clone(l.Value)
		}
	}
	return ""
}

func vfc22Names(in *storepb.WriteRequest) []string {
	var out []string
	for _, tup := range in.TimeseriesTenantData {
		for _, ts := range tup.Timeseries {
			out = append(out, vfc22SeriesName(ts.Labels))
		}
	}
	for _, ts := range in.Timeseries {
		out = append(out, vfc22SeriesName(ts.Labels))
	}
	return out
}

type vfc22CtxKey struct{}

type vfc22LocalCall struct {
	env      *vfc22Env
	ep       Endpoint
	outcome  byte
	byTenant map[string]byte // per-tenant outcome of this local write (outcome 'T'), nil: one outcome for all tenants
}

func (lc *vfc22LocalCall) outcomeFor(tenant string) byte {
	if lc.outcome != 'T' {
		return lc.outcome
	}
	o, ok := lc.byTenant[tenant]
	if !ok {
		lc.env.mu.Lock()
		lc.env.problems = append(lc.env.problems, fmt.Sprintf("local write for unplanned tenant %q", tenant))
		lc.env.mu.Unlock()
		return 'O'
	}
	return o
}

// vfc22Peer is the client boundary of one receive node. Remote nodes answer like a gRPC peer would
// (status errors); the node marked local goes through the production localAsyncWriter and Writer.
type vfc22Peer struct {
	env   *vfc22Env
	ep    Endpoint
	local *localAsyncWriter
}

func (p *vfc22Peer) Close() error { return nil }

func (p *vfc22Peer) RemoteWrite(ctx context.Context, in *storepb.WriteRequest, _ ...grpc.CallOption) (*storepb.WriteResponse, error) {
	er := endpointReplica{endpoint: p.ep, replica: uint64(in.Replica - 1)}
	names := vfc22Names(in)
	call := p.env.register(er, names)
	<-call.release
	o := p.env.outcomeOf(er)
	if p.local != nil {
		return p.local.RemoteWrite(context.WithValue(ctx, vfc22CtxKey{}, &vfc22LocalCall{env: p.env, ep: p.ep, outcome: o, byTenant: p.env.byTenant[er]}), in)
	}
	switch o {
	case 'S':
		p.env.store(p.ep, names)
		return &storepb.WriteResponse{}, nil
	case 'C':
		return nil, status.Error(codes.AlreadyExists, "vf: conflict")
	case 'U':
		return nil, status.Error(codes.Unavailable, "vf: unavailable")
	default:
		return nil, status.Error(codes.Internal, "vf: internal")
	}
}

type vfc22Tenants struct{}

func (vfc22Tenants) TenantAppendable(tenant string) (Appendable, error) {
	return vfc22Appendable{tenant: tenant}, nil
}

// vfc22Appendable is the fake TSDB of one tenant on the local node. Faults: U no appender because the TSDB is
// not ready, A no appender (other error), C every sample conflicts, O commit fails.
type vfc22Appendable struct{ tenant string }

func (a vfc22Appendable) Appender(ctx context.Context) (storage.Appender, error) {
	lc, _ := ctx.Value(vfc22CtxKey{}).(*vfc22LocalCall)
	if lc == nil {
		return nil, errors.New("vf: local write outside a monitored call")
	}
	o := lc.outcomeFor(a.tenant)
	switch o {
	case 'U':
		return nil, tsdb.ErrNotReady
	case 'A':
		return nil, errors.New("vf: cannot open appender")
	}
	return &vfc22Appender{fakeAppender: newFakeAppender(nil, nil, nil), lc: lc, outcome: o}, nil
}

// vfc22Appender reuses the package's fakeAppender for the wide storage.Appender surface.
type vfc22Appender struct {
	*fakeAppender
	lc      *vfc22LocalCall
	outcome byte
	names   []string
}

func (a *vfc22Appender) Append(ref storage.SeriesRef, l labels.Labels, t int64, v float64) (storage.SeriesRef, error) {
	if a.outcome == 'C' {
		return 0, storage.ErrOutOfOrderSample
	}
	a.names = append(a.names, strings.Clone(l.Get(labels.MetricName)))
	return a.fakeAppender.Append(ref, l, t, v)
}

func (a *vfc22Appender) Commit() error {
	if a.outcome == 'O' {
		return errors.New("vf: commit failed")
	}
	if a.outcome == 'S' {
		a.lc.env.store(a.lc.ep, a.names)
	}
	return nil
}

// vfc22Peers is the peersContainer installed in the handler; its content is swapped per case.
type vfc22Peers struct {
	mu      sync.Mutex
	clients map[Endpoint]*peerWorker
	down    map[Endpoint]bool
}

func (g *vfc22Peers) set(clients map[Endpoint]*peerWorker, down map[Endpoint]bool) {
	g.mu.Lock()
	g.clients, g.down = clients, down
	g.mu.Unlock()
}
func (g *vfc22Peers) Close() error                 { return nil }
func (g *vfc22Peers) close(Endpoint) error         { return nil }
func (g *vfc22Peers) markPeerUnavailable(Endpoint) {}
func (g *vfc22Peers) markPeerAvailable(Endpoint)   {}
func (g *vfc22Peers) reset()                       {}
func (g *vfc22Peers) getConnection(_ context.Context, ep Endpoint) (WriteableStoreAsyncClient, error) {
	g.mu.Lock()
	defer g.mu.Unlock()
	if g.down[ep] {
		return nil, errUnavailable
	}
	c, ok := g.clients[ep]
	if !ok {
		return nil, fmt.Errorf("vf: no client for %s", ep)
	}
	return c, nil
}

var _ peersContainer = (*vfc22Peers)(nil)

// vfc22Ring is a table-driven hashring: series name -> endpoint per replica number.
type vfc22Ring struct {
	table map[string][]Endpoint
	nodes []Endpoint
}

func (r *vfc22Ring) GetN(_ string, ts *prompb.TimeSeries, n uint64) (Endpoint, error) {
	eps := r.table[vfc22SeriesName(ts.Labels)]
	if n >= uint64(len(eps)) {
		return Endpoint{}, fmt.Errorf("vf: replica %d not in table", n)
	}
	return eps[n], nil
}
func (r *vfc22Ring) Nodes() []Endpoint { return r.nodes }
func (r *vfc22Ring) Close()            {}

type vfc22Tuple struct {
	Tenant string   `json:"tenant"`
	Series []string `json:"series"`
}

// vfc22Case is one scripted execution.
type vfc22Case struct {
	rf       int
	rep      int // 0: fresh request; 1..rf: already replicated request addressed to replica rep
	nodes    []Endpoint
	local    int // index of the node served by the production local writer, -1: none
	tuples   []vfc22Tuple
	extra    map[string]string // series -> value of an extra label (spreads series over real rings)
	ring     Hashring
	ringKind string
	dest     map[string][]endpointReplica // series -> planned destinations (generator knowledge, not oracle)
	ers      []endpointReplica            // all planned destinations, deterministic order
	outcome  map[endpointReplica]byte
	order    []endpointReplica // release order of all destinations whose outcome is not B
	// multi-tenant requests: tenant taken from the split-tenant label (series -> tenant) instead of the tuple,
	// and per-tenant outcomes of the writes that go to the local node (outcome 'T')
	split    map[string]string
	byTenant map[endpointReplica]map[string]byte
}

const vfc22SplitLabel = "vf_tenant"

// tenantOf is the tenant a series is stored under: its split-tenant label, else the tenant of its tuple.
func (c *vfc22Case) tenantOf(s string) string {
	if t, ok := c.split[s]; ok {
		return t
	}
	for _, tup := range c.tuples {
		for _, x := range tup.Series {
			if x == s {
				return tup.Tenant
			}
		}
	}
	return ""
}

func vfc22Endpoints(n int) []Endpoint {
	out := make([]Endpoint, n)
	for i := range out {
		a := fmt.Sprintf("vfnode-%d:10901", i)
		out[i] = Endpoint{Address: a, CapNProtoAddress: a}
	}
	return out
}

func vfc22TimeSeries(name, extra, splitTenant string, i int) prompb.TimeSeries {
	lb := []labelpb.ZLabel{{Name: labels.MetricName, Value: name}}
	if extra != "" {
		lb = append(lb, labelpb.ZLabel{Name: "k", Value: extra})
	}
	if splitTenant != "" {
		lb = append(lb, labelpb.ZLabel{Name: vfc22SplitLabel, Value: splitTenant})
	}
	return prompb.TimeSeries{Labels: lb, Samples: []prompb.Sample{{Timestamp: int64(1000 + i), Value: float64(i)}}}
}

func (c *vfc22Case) allSeries() []string {
	var out []string
	for _, t := range c.tuples {
		out = append(out, t.Series...)
	}
	return out
}

// plan computes the planned destinations by asking the ring the same way a client of the ring would.
// It is used to assign outcomes and orders only; verdicts use what the fake peers recorded.
func (c *vfc22Case) plan() error {
	c.dest = map[string][]endpointReplica{}
	c.ers = nil
	seen := map[endpointReplica]bool{}
	i := 0
	for _, tup := range c.tuples {
		for _, s := range tup.Series {
			// the handler strips the split-tenant label and routes by the effective tenant
			ts := vfc22TimeSeries(s, c.extra[s], "", i)
			tenant := c.tenantOf(s)
			i++
			var reps []uint64
			if c.rep > 0 {
				reps = []uint64{uint64(c.rep - 1)}
			} else {
				for rn := 0; rn < c.rf; rn++ {
					reps = append(reps, uint64(rn))
				}
			}
			for _, rn := range reps {
				ep, err := c.ring.GetN(tenant, &ts, rn)
				if err != nil {
					return err
				}
				er := endpointReplica{endpoint: ep, replica: rn}
				c.dest[s] = append(c.dest[s], er)
				if !seen[er] {
					seen[er] = true
					c.ers = append(c.ers, er)
				}
			}
		}
	}
	return nil
}

func (c *vfc22Case) nodeIndex(ep Endpoint) int {
	for i, n := range c.nodes {
		if n == ep {
			return i
		}
	}
	return -1
}

func (c *vfc22Case) erString(er endpointReplica) string {
	return fmt.Sprintf("n%d/r%d", c.nodeIndex(er.endpoint), er.replica)
}

func (c *vfc22Case) witness() map[string]any {
	dest := map[string][]string{}
	for s, ers := range c.dest {
		for _, er := range ers {
			dest[s] = append(dest[s], c.erString(er)+"="+string(c.outcome[er]))
		}
	}
	var order []string
	for _, er := range c.order {
		order = append(order, c.erString(er)+"="+string(c.outcome[er]))
	}
	w := map[string]any{"rf": c.rf, "replica_header": c.rep, "nodes": len(c.nodes), "local_node": c.local, "ring": c.ringKind,
		"request": c.tuples, "destinations_and_outcomes": dest, "response_order": order,
		"legend": "S success, C conflict, U unavailable, O other error, B unavailable (peer in back-off, answers immediately), T per-tenant outcome on the local node (A = appender cannot be opened)"}
	if len(c.split) > 0 {
		w["split_tenant_label"] = c.split
	}
	if len(c.byTenant) > 0 {
		pt := map[string]map[string]string{}
		for er, m := range c.byTenant {
			pt[c.erString(er)] = map[string]string{}
			for t, o := range m {
				pt[c.erString(er)][t] = string(o)
			}
		}
		w["local_write_outcome_by_tenant"] = pt
	}
	return w
}

// seriesOutcomes returns, per series, the outcome letters of its destinations (B counted as U), sorted.
func (c *vfc22Case) seriesOutcomes(s string) string {
	var b []byte
	for _, er := range c.dest[s] {
		o := c.outcome[er]
		if o == 'B' {
			o = 'U'
		}
		if o == 'T' {
			o = c.byTenant[er][c.tenantOf(s)]
		}
		b = append(b, o)
	}
	sort.Slice(b, func(i, j int) bool { return b[i] < b[j] })
	return string(b)
}

type vfc22Ret struct {
	returned   bool
	err        error
	code       int
	body       string
	panicked   string
	atStep     int            // number of scripted responses released when the handler returned
	stored     map[string]int // per series: nodes that had stored it when the handler returned
	problems   []string
	dispatched int
}

// vfc22Run executes one case inside a synctest bubble. invoke calls the real handler entry point.
func vfc22Run(t *testing.T, h *Handler, pc *vfc22Peers, c *vfc22Case, invoke func(*vfc22Ret)) vfc22Ret {
	var ret vfc22Ret
	synctest.Test(t, func(t *testing.T) {
		env := vfc22NewEnv(c.outcome)
		env.byTenant = c.byTenant
		clients := map[Endpoint]*peerWorker{}
		down := map[Endpoint]bool{}
		for i, ep := range c.nodes {
			p := &vfc22Peer{env: env, ep: ep}
			if i == c.local {
				p.local = &localAsyncWriter{w: h.writer}
			}
			clients[ep] = newPeerWorker(p, prometheus.NewHistogram(prometheus.HistogramOpts{}), 8, 0)
		}
		for er, o := range c.outcome {
			if o == 'B' {
				down[er.endpoint] = true
			}
		}
		pc.set(clients, down)
		h.Hashring(c.ring)

		done := make(chan vfc22Ret, 1)
		go func() {
			var rr vfc22Ret
			defer func() {
				if p := recover(); p != nil {
					rr.panicked = fmt.Sprint(p)
				}
				done <- rr
			}()
			invoke(&rr)
		}()
		check := func(step int) {
			if ret.returned {
				return
			}
			select {
			case rr := <-done:
				ret = rr
				ret.returned = true
				ret.atStep = step
				ret.stored = env.snapshot()
			default:
			}
		}
		synctest.Wait()
		check(0)
		for i, er := range c.order {
			call := env.call(er)
			if call == nil {
				continue // never dispatched (the handler gave up before sending)
			}
			close(call.release)
			synctest.Wait()
			check(i + 1)
		}
		check(len(c.order))
		env.mu.Lock()
		ret.problems = append(ret.problems, env.problems...)
		ret.dispatched = len(env.log)
		env.mu.Unlock()
		for _, w := range clients {
			w.wp.Close()
		}
		synctest.Wait()
	})
	return ret
}

func vfc22Quorum(rf int) int {
	// docs/components/receive.md: quorum is floor(rf/2)+1, except that replication factor 2 needs 1.
	if rf == 2 {
		return 1
	}
	return rf/2 + 1
}

func vfc22NewHandler(rf int) (*Handler, *vfc22Peers, error) {
	limiter, err := NewLimiter(extkingpin.NewNopConfig(), nil, RouterIngestor, log.NewNopLogger(), time.Second)
	if err != nil {
		return nil, nil, err
	}
	h := NewHandler(log.NewNopLogger(), &Options{
		TenantHeader:      tenancy.DefaultTenantHeader,
		ReplicaHeader:     DefaultReplicaHeader,
		ReplicationFactor: uint64(rf),
		ForwardTimeout:    5 * time.Minute,
		// series carrying this label are stored under the tenant it names (split-tenant feature)
		SplitTenantLabelName: vfc22SplitLabel,
		Writer:               NewWriter(log.NewNopLogger(), vfc22Tenants{}, &WriterOptions{}),
		Limiter:              limiter,
		Endpoint:             "vf-self:10901",
	})
	pc := &vfc22Peers{}
	h.peers = pc
	return h, pc, nil
}

var (
	vfc22RingMu    sync.Mutex
	vfc22RingCache = map[string]Hashring{}
)

func vfc22RealRing(algo HashringAlgorithm, rf int, nodes []Endpoint) (Hashring, error) {
	key := fmt.Sprintf("%s/%d/%d", algo, rf, len(nodes))
	vfc22RingMu.Lock()
	defer vfc22RingMu.Unlock()
	if r, ok := vfc22RingCache[key]; ok {
		return r, nil
	}
	r, err := NewMultiHashring(algo, uint64(rf), []HashringConfig{{Hashring: "vf", Endpoints: nodes}}, prometheus.NewRegistry())
	if err != nil {
		return nil, err
	}
	vfc22RingCache[key] = r
	return r, nil
}

// vfc22TableRing builds a table ring in which every series gets rf distinct nodes.
func vfc22TableRing(rng *rand.Rand, nodes []Endpoint, rf int, series []string) *vfc22Ring {
	tr := &vfc22Ring{table: map[string][]Endpoint{}, nodes: nodes}
	for _, s := range series {
		p := rng.Perm(len(nodes))
		eps := make([]Endpoint, rf)
		for i := range eps {
			eps[i] = nodes[p[i]]
		}
		tr.table[s] = eps
	}
	return tr
}

// vfc22Order builds the release order: all destinations whose outcome is not B, permuted.
func vfc22Order(rng *rand.Rand, c *vfc22Case) {
	c.order = nil
	for _, er := range c.ers {
		if c.outcome[er] != 'B' {
			c.order = append(c.order, er)
		}
	}
	rng.Shuffle(len(c.order), func(i, j int) { c.order[i], c.order[j] = c.order[j], c.order[i] })
}

// vfc22SingleSeries builds the case "one series, outcomes seq[i] arrive in this order".
func vfc22SingleSeries(rng *rand.Rand, rf int, seq string, allowBackoff bool) (*vfc22Case, error) {
	c := &vfc22Case{rf: rf, nodes: vfc22Endpoints(rf + rng.Intn(3)), ringKind: "table", extra: map[string]string{}}
	c.local = rng.Intn(len(c.nodes)+1) - 1
	c.tuples = []vfc22Tuple{{Tenant: "vf", Series: []string{"s0"}}}
	c.ring = vfc22TableRing(rng, c.nodes, rf, []string{"s0"})
	if err := c.plan(); err != nil {
		return nil, err
	}
	// arrival position -> replica: a random bijection
	p := rng.Perm(rf)
	c.outcome = map[endpointReplica]byte{}
	c.order = make([]endpointReplica, rf)
	for pos := 0; pos < rf; pos++ {
		er := c.dest["s0"][p[pos]]
		c.outcome[er] = seq[pos]
		c.order[pos] = er
	}
	if allowBackoff {
		var order []endpointReplica
		for _, er := range c.order {
			if c.outcome[er] == 'U' && rng.Intn(4) == 0 && c.nodeIndex(er.endpoint) != c.local {
				c.outcome[er] = 'B'
				continue
			}
			order = append(order, er)
		}
		c.order = order
	}
	return c, nil
}

// vfc22MultiSeries builds a request of nSeries series spread over several nodes with random outcomes.
func vfc22MultiSeries(rng *rand.Rand, rf, nSeries int, alphabet string, realRings, allowReplicated bool) (*vfc22Case, error) {
	c := &vfc22Case{rf: rf, nodes: vfc22Endpoints(rf + rng.Intn(4)), extra: map[string]string{}}
	c.local = rng.Intn(len(c.nodes)+1) - 1
	nTen := 1
	if nSeries > 1 && rng.Intn(3) == 0 {
		nTen = 2
	}
	c.tuples = make([]vfc22Tuple, nTen)
	for i := range c.tuples {
		c.tuples[i].Tenant = fmt.Sprintf("vf%d", i)
	}
	for i := 0; i < nSeries; i++ {
		s := fmt.Sprintf("s%d", i)
		ti := i * nTen / nSeries
		c.tuples[ti].Series = append(c.tuples[ti].Series, s)
		c.extra[s] = fmt.Sprintf("%x", rng.Int63())
	}
	if realRings && rng.Intn(5) < 2 {
		algo := AlgorithmHashmod
		if rng.Intn(2) == 0 {
			algo = AlgorithmKetama
		}
		ring, err := vfc22RealRing(algo, rf, c.nodes)
		if err != nil {
			return nil, err
		}
		c.ring, c.ringKind = ring, string(algo)
	} else {
		c.ring, c.ringKind = vfc22TableRing(rng, c.nodes, rf, c.allSeries()), "table"
	}
	if allowReplicated && rng.Intn(6) == 0 {
		c.rep = 1 + rng.Intn(rf)
	}
	if err := c.plan(); err != nil {
		return nil, err
	}
	// outcome weights: bias so that verdicts sit near the thresholds
	bias := rng.Intn(4)
	c.outcome = map[endpointReplica]byte{}
	for _, er := range c.ers {
		var o byte
		switch {
		case bias <= 1 && rng.Intn(8) > 0:
			o = 'S' // mostly healthy cluster: the acknowledgement path
		case bias == 2 && rng.Intn(2) == 0:
			o = 'C'
		default:
			o = alphabet[rng.Intn(len(alphabet))]
		}
		c.outcome[er] = o
	}
	// back-off: one remote node may be down; all unavailable answers of that node become immediate
	if rng.Intn(5) == 0 {
		n := c.nodes[rng.Intn(len(c.nodes))]
		if c.nodeIndex(n) != c.local {
			for _, er := range c.ers {
				if er.endpoint == n {
					c.outcome[er] = 'B'
				}
			}
		}
	}
	vfc22Order(rng, c)
	return c, nil
}

// vfc22TenantCase builds a request that spans 2..4 tenants (tenant tuples of the gRPC request and/or the
// split-tenant label) and whose replicas mostly include the node served by the production local writer;
// the local TSDBs fail per tenant (no appender, conflict, commit error), remote replicas are mostly healthy.
func vfc22TenantCase(rng *rand.Rand) (*vfc22Case, error) {
	rf := []int{1, 1, 2, 3, 3, 4}[rng.Intn(6)]
	c := &vfc22Case{rf: rf, nodes: vfc22Endpoints(rf + rng.Intn(2)), extra: map[string]string{}, ringKind: "table", split: map[string]string{}}
	c.local = rng.Intn(len(c.nodes))
	nTen := 2 + rng.Intn(3)
	tenants := make([]string, nTen)
	for i := range tenants {
		tenants[i] = fmt.Sprintf("vf%d", i)
	}
	nSeries := nTen + rng.Intn(4)
	mode := rng.Intn(3) // 0: tenant tuples, 1: one tuple + split label, 2: both
	nTup := nTen
	if mode == 1 {
		nTup = 1
	}
	c.tuples = make([]vfc22Tuple, nTup)
	for i := range c.tuples {
		c.tuples[i].Tenant = tenants[i]
	}
	for i := 0; i < nSeries; i++ {
		s := fmt.Sprintf("s%d", i)
		want := tenants[i%nTen] // every tenant gets at least one series
		switch {
		case mode == 0:
			c.tuples[i%nTen].Series = append(c.tuples[i%nTen].Series, s)
		case mode == 1:
			c.tuples[0].Series = append(c.tuples[0].Series, s)
			if want != tenants[0] {
				c.split[s] = want
			}
		default:
			ti := rng.Intn(nTup)
			c.tuples[ti].Series = append(c.tuples[ti].Series, s)
			if want != tenants[ti] {
				c.split[s] = want
			}
		}
	}
	// table ring: most series have a replica on the local node
	tr := &vfc22Ring{table: map[string][]Endpoint{}, nodes: c.nodes}
	for _, s := range c.allSeries() {
		p := rng.Perm(len(c.nodes))
		eps := make([]Endpoint, rf)
		for i := range eps {
			eps[i] = c.nodes[p[i]]
		}
		if rng.Intn(5) > 0 {
			has := false
			for _, e := range eps {
				has = has || e == c.nodes[c.local]
			}
			if !has {
				eps[rng.Intn(rf)] = c.nodes[c.local]
			}
		}
		tr.table[s] = eps
	}
	c.ring = tr
	if rng.Intn(5) == 0 {
		c.rep = 1 + rng.Intn(rf)
	}
	if err := c.plan(); err != nil {
		return nil, err
	}
	c.outcome = map[endpointReplica]byte{}
	c.byTenant = map[endpointReplica]map[string]byte{}
	for _, er := range c.ers {
		if c.nodeIndex(er.endpoint) != c.local {
			if rng.Intn(6) > 0 {
				c.outcome[er] = 'S'
			} else {
				c.outcome[er] = "CUO"[rng.Intn(3)]
			}
			continue
		}
		c.outcome[er] = 'T'
		m := map[string]byte{}
		for _, t := range tenants {
			if rng.Intn(5) < 3 {
				m[t] = 'S'
			} else {
				m[t] = "CUOA"[rng.Intn(4)]
			}
		}
		c.byTenant[er] = m
	}
	vfc22Order(rng, c)
	return c, nil
}

func vfc22Sequences(alphabet string, n int) []string {
	out := []string{""}
	for i := 0; i < n; i++ {
		var next []string
		for _, p := range out {
			for _, a := range alphabet {
				next = append(next, p+string(a))
			}
		}
		out = next
	}
	return out
}

func vfc22WriteRequest(c *vfc22Case) *storepb.WriteRequest {
	req := &storepb.WriteRequest{Replica: int64(c.rep)}
	i := 0
	for _, tup := range c.tuples {
		tt := storepb.TimeSeriesTenantTuple{Tenant: tup.Tenant}
		for _, s := range tup.Series {
			tt.Timeseries = append(tt.Timeseries, vfc22TimeSeries(s, c.extra[s], c.split[s], i))
			i++
		}
		req.TimeseriesTenantData = append(req.TimeseriesTenantData, tt)
	}
	return req
}

type vfc22Desc struct {
	kind string // single | multi
	rf   int
	seq  string
	rep  int
}

func TestVF_C22(t *testing.T) {
	r := vfkit.Start(t, "C22")
	defer r.Finish()
	r.Rule("case = one gRPC RemoteWrite through the real Handler (fanoutForward, real peerWorker pools) against scripted peers: " +
		"(a) single series: EVERY arrival sequence of per-replica outcomes {S ok,C conflict,U unavailable,O other}^RF for RF 1..5, replica<->node mapping and the " +
		"node served by the production local writer drawn per repetition; (b) 1..6 series over RF..RF+3 nodes (table ring, hashmod, ketama; 1-2 tenants; fresh or already replicated; " +
		"a node in back-off) with random outcomes and response order; (c) requests spanning 2..4 tenants (tenant tuples of the gRPC request and/or the split-tenant label), RF 1..4, whose replicas mostly include the node served by the " +
		"production local write path (localAsyncWriter + Writer over one fake TSDB per tenant) with faults on a subset of the tenants (TSDB not ready, appender cannot be opened, every sample conflicts, commit fails), remote replicas mostly healthy. " +
		"Responses are released one at a time inside a synctest bubble. " +
		"oracle: when RemoteWrite returns nil, every series of the request is recorded as stored by >= quorum(RF) distinct nodes (1 for an already replicated request) in the peers' own log at that moment. " +
		"distinct = hash of (rf, request, destinations, outcomes, order); non-trivial = at least one non-success outcome or a response still withheld when the handler returned")
	r.Assume("quorum(RF) = 1 for RF 2, else floor(RF/2)+1 (docs/components/receive.md)")
	r.Assume("a remote peer's write counts as stored only if the peer answered success (outcome per (node, replica) batch); on the local node a series counts as stored only if the fake TSDB of its tenant committed it")
	r.Assume("testing/synctest: a goroutine blocked on channels/WaitGroup of the bubble is quiescent; used for sequencing only, never for verdicts on time")

	reps := r.N(2, 40)
	nMulti := r.N(4000, 150000)
	var descs []vfc22Desc
	for rep := 0; rep < reps; rep++ {
		for rf := 1; rf <= 5; rf++ {
			for _, s := range vfc22Sequences("SCUO", rf) {
				descs = append(descs, vfc22Desc{kind: "single", rf: rf, seq: s, rep: rep})
			}
		}
	}
	for i := 0; i < nMulti; i++ {
		descs = append(descs, vfc22Desc{kind: "multi"})
	}
	r.Extra("single_series_sequences_per_repetition", len(descs)-nMulti)
	nTenants := r.N(1500, 40000)
	for i := 0; i < nTenants; i++ {
		descs = append(descs, vfc22Desc{kind: "tenants"})
	}
	r.Require(int64(len(descs)), len(descs)/3)
	r.Exhaustive(false)

	handlers := map[int]*Handler{}
	pcs := map[int]*vfc22Peers{}
	for rf := 1; rf <= 5; rf++ {
		h, pc, err := vfc22NewHandler(rf)
		if err != nil {
			t.Fatalf("handler: %v", err)
		}
		handlers[rf], pcs[rf] = h, pc
	}

	for ci, d := range descs {
		if !r.Want(ci) {
			continue
		}
		rng := r.Rand(ci)
		var c *vfc22Case
		var err error
		if d.kind == "single" {
			c, err = vfc22SingleSeries(rng, d.rf, d.seq, false)
		} else if d.kind == "tenants" {
			c, err = vfc22TenantCase(rng)
		} else {
			rf := 1 + rng.Intn(5)
			c, err = vfc22MultiSeries(rng, rf, 1+rng.Intn(6), "SSCUO", true, true)
		}
		if err != nil {
			r.Inconclusive("case generation failed: " + err.Error())
			continue
		}
		h := handlers[c.rf]
		ret := vfc22Run(t, h, pcs[c.rf], c, func(rr *vfc22Ret) {
			_, rr.err = h.RemoteWrite(context.Background(), vfc22WriteRequest(c))
		})
		r.Eval(1)
		wit := c.witness()
		if len(ret.problems) > 0 {
			r.Inconclusive("harness: " + strings.Join(ret.problems, "; "))
			continue
		}
		if ret.panicked != "" {
			r.Violation(ci, "panic:RemoteWrite", "RemoteWrite panicked: "+ret.panicked, wit)
			continue
		}
		if !ret.returned {
			r.Inconclusive(fmt.Sprintf("case %d: handler did not return after all replica responses", ci))
			continue
		}
		nonSuccess := false
		for _, o := range c.outcome {
			if o != 'S' {
				nonSuccess = true
			}
		}
		if nonSuccess || ret.atStep < len(c.order) {
			r.Distinct(fmt.Sprintf("%v", wit))
		}
		if ret.atStep < len(c.order) {
			r.Count("returned_before_all_responses", 1)
		}
		need := vfc22Quorum(c.rf)
		if c.rep > 0 {
			need = 1
		}
		wit["returned_after_responses"] = ret.atStep
		wit["stored_at_return"] = ret.stored
		wit["error"] = fmt.Sprint(ret.err)
		if ret.err == nil {
			r.Count("acknowledged", 1)
			for _, s := range c.allSeries() {
				if ret.stored[s] < need {
					r.Violation(ci, fmt.Sprintf("ack-below-quorum rf=%d replicated=%t", c.rf, c.rep > 0),
						fmt.Sprintf("RemoteWrite acknowledged although series %s was stored on %d node(s), quorum is %d (rf=%d, outcomes of the series %s, returned after %d of %d responses)",
							s, ret.stored[s], need, c.rf, c.seriesOutcomes(s), ret.atStep, len(c.order)), wit)
					break
				}
			}
		} else {
			r.Count("failed", 1)
			all := true
			for _, s := range c.allSeries() {
				if ret.stored[s] < need {
					all = false
				}
			}
			if all {
				r.Count("failed_although_every_series_had_quorum_at_return", 1)
			}
		}
		r.Sample(map[string]any{"rf": c.rf, "series": len(c.allSeries()), "ring": c.ringKind, "order": wit["response_order"], "acknowledged": ret.err == nil, "returned_after": ret.atStep})
	}
}

// ---------------------------------------------------------------------------------------------------
// C23

func vfc23HTTPRequest(c *vfc22Case) (*http.Request, error) {
	wreq := &prompb.WriteRequest{}
	for i, s := range c.allSeries() {
		wreq.Timeseries = append(wreq.Timeseries, vfc22TimeSeries(s, c.extra[s], c.split[s], i))
	}
	buf, err := proto.Marshal(wreq)
	if err != nil {
		return nil, err
	}
	req, err := http.NewRequest("POST", "http://vf-self:10901/api/v1/receive", bytes.NewReader(snappy.Encode(nil, buf)))
	if err != nil {
		return nil, err
	}
	req.Header.Set(tenancy.DefaultTenantHeader, c.tuples[0].Tenant)
	return req, nil
}

type vfc23Desc struct {
	kind  string // single | two
	rf    int
	seq   string
	rep   int
	group int
}

func TestVF_C23(t *testing.T) {
	r := vfkit.Start(t, "C23")
	defer r.Finish()
	r.Rule("case = one HTTP remote-write request through the real receiveHTTP against scripted peers, responses released one at a time in a scripted order (synctest): " +
		"(a) single series: EVERY arrival sequence in {S,C,U}^RF for RF 1..6 (= every multiset x every distinct order), replica<->node mapping, local node and back-off flavour of U drawn per repetition; " +
		"(b) two-series requests with shared and distinct nodes, random outcomes, 3 response orders per configuration. " +
		"oracle (closed form on the outcome multiset, q=quorum(RF), f=RF-q+1): a failed request must not answer 500; 409 only if some series has >= f conflicts; otherwise 503; " +
		"all orders of one multiset/configuration give the same status. distinct = hash of (rf, destinations, outcomes, order); non-trivial = the request failed")
	r.Assume("quorum(RF) = 1 for RF 2, else floor(RF/2)+1; conflicts alone make quorum impossible iff #conflict >= RF-quorum+1")
	r.Assume("unavailable = gRPC Unavailable from the peer, tsdb.ErrNotReady on the local node, or peer in back-off; conflict = gRPC AlreadyExists / out-of-order sample on the local node")

	reps := r.N(2, 30)
	nTwo := r.N(400, 12000) // configurations, 3 orders each
	var descs []vfc23Desc
	for rep := 0; rep < reps; rep++ {
		for rf := 1; rf <= 6; rf++ {
			for _, s := range vfc22Sequences("SCU", rf) {
				descs = append(descs, vfc23Desc{kind: "single", rf: rf, seq: s, rep: rep})
			}
		}
	}
	for i := 0; i < nTwo; i++ {
		for k := 0; k < 3; k++ {
			descs = append(descs, vfc23Desc{kind: "two", group: i, rep: k})
		}
	}
	r.Require(int64(len(descs)), len(descs)/4)

	handlers := map[int]*Handler{}
	pcs := map[int]*vfc22Peers{}
	for rf := 1; rf <= 6; rf++ {
		h, pc, err := vfc22NewHandler(rf)
		if err != nil {
			t.Fatalf("handler: %v", err)
		}
		handlers[rf], pcs[rf] = h, pc
	}

	type obs struct {
		status map[int]int // status -> case index of first observation
		wit    map[int]map[string]any
	}
	groups := map[string]*obs{}

	for ci, d := range descs {
		if !r.Want(ci) {
			continue
		}
		var c *vfc22Case
		var err error
		var groupKey string
		if d.kind == "single" {
			rng := r.Rand(ci)
			c, err = vfc22SingleSeries(rng, d.rf, d.seq, d.rep > 0)
		} else {
			// the configuration is a function of the group; only the order differs between its members
			grng := r.RandS("two", d.group)
			rf := 1 + grng.Intn(6)
			c, err = vfc22MultiSeries(grng, rf, 2, "SCU", false, false)
			if err == nil {
				vfc22Order(r.RandS("two-order", ci), c)
			}
			groupKey = fmt.Sprintf("two/%d", d.group)
		}
		if err != nil {
			r.Inconclusive("case generation failed: " + err.Error())
			continue
		}
		if d.kind == "single" {
			groupKey = fmt.Sprintf("rf=%d outcomes=%s", c.rf, c.seriesOutcomes("s0"))
		}
		req, err := vfc23HTTPRequest(c)
		if err != nil {
			t.Fatalf("request: %v", err)
		}
		h := handlers[c.rf]
		ret := vfc22Run(t, h, pcs[c.rf], c, func(rr *vfc22Ret) {
			rec := httptest.NewRecorder()
			h.receiveHTTP(rec, req)
			rr.code = rec.Code
			rr.body = strings.TrimSpace(rec.Body.String())
		})
		r.Eval(1)
		wit := c.witness()
		if len(ret.problems) > 0 {
			r.Inconclusive("harness: " + strings.Join(ret.problems, "; "))
			continue
		}
		if ret.panicked != "" {
			r.Violation(ci, "panic:receiveHTTP", "receiveHTTP panicked: "+ret.panicked, wit)
			continue
		}
		if !ret.returned {
			r.Inconclusive(fmt.Sprintf("case %d: handler did not return after all replica responses", ci))
			continue
		}
		wit["status"] = ret.code
		wit["body"] = ret.body
		wit["returned_after_responses"] = ret.atStep
		q := vfc22Quorum(c.rf)
		f := c.rf - q + 1
		anyDead, anyBelow := false, false
		var failing []string
		for _, s := range c.allSeries() {
			so := c.seriesOutcomes(s)
			ok, conf := strings.Count(so, "S"), strings.Count(so, "C")
			if conf >= f {
				anyDead = true
			}
			if ok < q {
				anyBelow = true
				failing = append(failing, so)
			}
		}
		sort.Strings(failing)
		r.Count(fmt.Sprintf("status_%d", ret.code), 1)
		r.Sample(map[string]any{"rf": c.rf, "outcomes_in_arrival_order": wit["response_order"], "status": ret.code, "returned_after": ret.atStep})
		g := groups[groupKey]
		if g == nil {
			g = &obs{status: map[int]int{}, wit: map[int]map[string]any{}}
			groups[groupKey] = g
		}
		if _, ok := g.status[ret.code]; !ok {
			g.status[ret.code] = ci
			g.wit[ret.code] = wit
		}
		if ret.code == http.StatusOK {
			if anyBelow {
				r.Count("acknowledged_although_a_series_is_below_quorum(see C22)", 1)
			}
			continue
		}
		r.Distinct(fmt.Sprintf("%v", wit))
		cls := strings.Join(failing, "+")
		if cls == "" {
			cls = "none-below-quorum"
		}
		// fingerprint = (replication factor, status, rule broken); the outcome multiset is in the text and the witness
		fp := fmt.Sprintf("rf=%d status=%d", c.rf, ret.code)
		switch {
		case ret.code == http.StatusInternalServerError:
			r.Violation(ci, fp+" conflicts-and-unavailable-only", fmt.Sprintf("500 for a failure made only of conflicts and unavailable replicas (rf=%d quorum=%d, failing series outcomes %s; body %q)", c.rf, q, cls, ret.body), wit)
		case ret.code == http.StatusConflict:
			if !anyDead {
				r.Violation(ci, fp+" conflicts-below-failure-threshold", fmt.Sprintf("409 although no series has >= %d conflicts, i.e. a retry could still reach quorum %d (rf=%d, failing series outcomes %s)", f, q, c.rf, cls), wit)
			}
		case ret.code == http.StatusServiceUnavailable:
			// always acceptable for a failed request
		default:
			r.Violation(ci, fp+" unexpected-status", fmt.Sprintf("unexpected status %d for a failed replicated write (rf=%d, failing series outcomes %s; body %q)", ret.code, c.rf, cls, ret.body), wit)
		}
	}
	if !r.Replaying() {
		keys := make([]string, 0, len(groups))
		for k := range groups {
			keys = append(keys, k)
		}
		sort.Strings(keys)
		for _, k := range keys {
			g := groups[k]
			r.Eval(1)
			if len(g.status) < 2 {
				continue
			}
			var sts []int
			for s := range g.status {
				sts = append(sts, s)
			}
			sort.Ints(sts)
			first := g.status[sts[0]]
			w := g.wit[sts[0]]
			r.Violation(first, fmt.Sprintf("order-dependent rf=%v", w["rf"]),
				fmt.Sprintf("the same replica outcomes (%s, rf=%v) give different HTTP statuses %v depending on the order of the responses", k, w["rf"], sts),
				map[string]any{"by_status": g.wit})
		}
	}
}
