//go:build verif

package receive

import (
	"fmt"
	"math/rand"
	"testing"

	"github.com/prometheus/client_golang/prometheus"

	"github.com/thanos-io/thanos/pkg/store/labelpb"
	"github.com/thanos-io/thanos/pkg/store/storepb/prompb"
	"github.com/thanos-io/thanos/pkg/verifhook/vfkit"
)

// C18 - Hashring places each series on distinct, deterministic, zone-balanced nodes.

type vfc18Cfg struct {
	Algo string     `json:"algorithm"`
	RF   int        `json:"replication_factor"`
	Eps  []Endpoint `json:"endpoints"`
}

func vfc18Gen(rng *rand.Rand) vfc18Cfg {
	n := 1 + rng.Intn(12)
	cfg := vfc18Cfg{Algo: string(AlgorithmKetama)}
	if rng.Intn(4) == 0 {
		cfg.Algo = string(AlgorithmHashmod)
	}
	maxRF := min(5, n)
	cfg.RF = 1 + rng.Intn(maxRF)
	addrs := vfc18kAddresses(rng, n, "")
	// zones: hashmod supports none. ketama: none (25%), else 1..4 named zones with arbitrary (unbalanced) sizes,
	// every zone non-empty; sometimes one of the zones is the unnamed zone "".
	zones := []string{""}
	if cfg.Algo == string(AlgorithmKetama) && rng.Intn(4) != 0 {
		z := 1 + rng.Intn(min(4, n))
		zones = nil
		style := rng.Intn(3)
		for i := 0; i < z; i++ {
			switch style {
			case 0:
				zones = append(zones, fmt.Sprintf("az-%d", i))
			case 1:
				zones = append(zones, fmt.Sprintf("eu-west-1%c", 'a'+rune(i)))
			default:
				zones = append(zones, fmt.Sprintf("%d", i))
			}
		}
		if z > 1 && rng.Intn(6) == 0 {
			zones[rng.Intn(z)] = ""
		}
	}
	az := make([]string, n)
	for i := range az {
		if i < len(zones) {
			az[i] = zones[i]
		} else if rng.Intn(3) == 0 {
			az[i] = zones[0] // skew towards one big zone
		} else {
			az[i] = zones[rng.Intn(len(zones))]
		}
	}
	rng.Shuffle(n, func(i, j int) { az[i], az[j] = az[j], az[i] })
	for i := 0; i < n; i++ {
		e := Endpoint{Address: addrs[i], AZ: az[i]}
		if rng.Intn(3) == 0 {
			e.CapNProtoAddress = addrs[i] + ":19391"
		}
		cfg.Eps = append(cfg.Eps, e)
	}
	return cfg
}

func vfc18Build(cfg vfc18Cfg, eps []Endpoint) (Hashring, error) {
	return NewMultiHashring(HashringAlgorithm(cfg.Algo), uint64(cfg.RF),
		[]HashringConfig{{Hashring: "vf", Endpoints: vfc18kCopyEndpoints(eps)}}, prometheus.NewRegistry())
}

func TestVF_C18(t *testing.T) {
	r := vfkit.Start(t, "C18")
	defer r.Finish()
	const perms = 3
	nSeries := 200
	r.Rule("case = one configuration: algorithm {ketama 75%, hashmod}, 1..12 distinct endpoints (8 address styles incl. adversarial alphabet and host:port families differing only in port / only in host), ketama with no / 1..4 availability zones of arbitrary sizes, RF 1..min(5,n); " +
		"the ring is built by NewMultiHashring from the endpoint list and from 3 random permutations of it; 200 (tenant, label-set) pairs per configuration: tenants from a pool of 4 plus fresh alphabet strings, " +
		"label sets from the adversarial alphabet mixed with runs of 1..4 series whose serialized labels exceed 1 KB (long values / 60..120 labels); " +
		"oracle per pair: GetN(n) for n in [0,RF) returns pairwise distinct endpoints, a repeated call returns the same sequence, every permuted ring returns the same sequence, and if >=2 zones are configured and the zone sizes " +
		"can accommodate it (q=RF div Z, r=RF mod Z: all zones >= q nodes, >= r zones >= q+1 nodes) the per-zone replica counts differ by at most one; afterwards all pairs are looked up back to back through ONE recycled " +
		"TimeSeries struct (Labels overwritten in place) and through fresh struct instances on two rings: same placement as recorded; " +
		"configurations whose construction never terminates (lap without progress on hook ketama.scan, see C19) are skipped and counted; " +
		"distinct = configuration; non-trivial = ring built and n >= 2")
	n := r.N(100, 1500)
	r.Require(int64(n)*int64(nSeries)/2, n/2)
	r.Assume("endpoint addresses within one hashring are distinct and non-empty (Endpoint.UnmarshalJSON rejects an empty address)")
	r.Assume("hashmod is generated without availability zones (the constructor rejects them by design)")

	for c := 0; c < n; c++ {
		if !r.Want(c) {
			continue
		}
		rng := r.Rand(c)
		cfg := vfc18Gen(rng)
		sizes := vfc18kZoneSizes(cfg.Eps)
		layout := vfc18kLayoutString(cfg.Eps)
		wit := func(extra map[string]any) map[string]any {
			m := map[string]any{"algorithm": cfg.Algo, "rf": cfg.RF, "endpoints": vfc18kFmtEndpoints(cfg.Eps), "zones": layout}
			for k, v := range extra {
				m[k] = v
			}
			return m
		}
		lists := [][]Endpoint{cfg.Eps}
		for p := 0; p < perms; p++ {
			lists = append(lists, vfkit.Perm(rng, cfg.Eps))
		}
		var rings []Hashring
		skip := false
		for li, eps := range lists {
			var ring Hashring
			var err error
			out := vfc19Guarded(len(eps)*SectionsPerNode, vfc19Backstop, func() { ring, err = vfc18Build(cfg, eps) })
			if out.TimedOut {
				r.Inconclusive(fmt.Sprintf("construction of %v did not return within %s; run stopped", wit(nil), vfc19Backstop))
				return
			}
			if out.Lap != nil {
				// C19's domain; the placement of a ring that cannot be built cannot be observed.
				r.Count("skipped_nonterminating_configs", 1)
				if vfc18kAccommodates(sizes, cfg.RF) {
					r.Count("skipped_nonterminating_although_zones_accommodate", 1)
				}
				skip = true
				break
			}
			if out.Panic != nil {
				r.Violation(c, "panic:construct:"+cfg.Algo, fmt.Sprintf("NewMultiHashring panicked: %v", out.Panic), wit(map[string]any{"stack": out.Stack, "list": li}))
				skip = true
				break
			}
			if err != nil {
				// An error is not an observation of placement (whether loading may fail is C19's subject): count and skip.
				r.Count("skipped_construct_errors", 1)
				skip = true
				break
			}
			rings = append(rings, ring)
		}
		if skip {
			continue
		}
		r.Count("rings_built", len(rings))
		if len(cfg.Eps) >= 2 {
			r.Distinct(fmt.Sprintf("%s|%d|%v", cfg.Algo, cfg.RF, vfc18kFmtEndpoints(cfg.Eps)))
		}
		azOf := map[string]string{}
		for _, e := range cfg.Eps {
			azOf[e.Address] = e.AZ
		}
		balanceApplies := len(sizes) >= 2 && vfc18kAccommodates(sizes, cfg.RF)
		if len(sizes) >= 2 {
			if balanceApplies {
				r.Count("configs_zone_balance_asserted", 1)
			} else {
				r.Count("configs_zones_cannot_accommodate", 1)
			}
		}
		r.Sample(map[string]any{"algorithm": cfg.Algo, "rf": cfg.RF, "nodes": len(cfg.Eps), "zones": layout, "balance_asserted": balanceApplies})
		get := func(h Hashring, tenant string, ts *prompb.TimeSeries) ([]Endpoint, error) {
			var out []Endpoint
			for k := 0; k < cfg.RF; k++ {
				e, err := h.GetN(tenant, ts, uint64(k))
				if err != nil {
					return nil, fmt.Errorf("GetN(%d): %w", k, err)
				}
				out = append(out, e)
			}
			return out, nil
		}
		bad := false
		// tenants come from a small per-configuration pool (plus fresh ones), so that consecutive lookups
		// often share the tenant; series are small alphabet label sets mixed with runs of 1..4 series whose
		// serialized labels exceed 1 KB.
		pool := []string{vfkit.Str(rng, 3, false), vfkit.Str(rng, 3, false), "tenant-a", ""}
		type vfc18Rec struct {
			tenant string
			ts     *prompb.TimeSeries
			base   []Endpoint
		}
		var recs []vfc18Rec
		bigRun := 0
		for s := 0; s < nSeries && !bad; s++ {
			tenant := vfkit.Pick(rng, pool)
			if rng.Intn(4) == 0 {
				tenant = vfkit.Str(rng, 3, false)
			}
			if bigRun == 0 && rng.Intn(12) == 0 {
				bigRun = 1 + rng.Intn(4)
			}
			var ts *prompb.TimeSeries
			if bigRun > 0 {
				bigRun--
				ts = vfc18kBigSeries(rng)
				r.Count("series_over_1KB", 1)
			} else {
				ts = vfc18kSeries(rng)
			}
			swit := func(extra map[string]any) map[string]any {
				m := wit(extra)
				m["tenant"] = tenant
				m["series"] = vfc18kFmtSeries(ts)
				return m
			}
			r.Guard(c, "getn:"+cfg.Algo, swit(nil), func() {
				r.Eval(1)
				base, err := get(rings[0], tenant, ts)
				if err != nil {
					r.Violation(c, "getn-error:"+cfg.Algo, "GetN for n < RF <= nodes failed: "+err.Error(), swit(nil))
					bad = true
					return
				}
				// (a) pairwise distinct
				seen := map[Endpoint]int{}
				for k, e := range base {
					if j, dup := seen[e]; dup {
						r.Violation(c, "duplicate-replica:"+cfg.Algo, fmt.Sprintf("replicas %d and %d of one series are the same endpoint %q", j, k, e.Address), swit(map[string]any{"replicas": vfc18kFmtEndpoints(base)}))
						bad = true
						return
					}
					seen[e] = k
				}
				// (b) repeated call
				again, err := get(rings[0], tenant, ts)
				if err != nil || !vfc18SameSeq(base, again) {
					r.Violation(c, "repeated-call-differs:"+cfg.Algo, "two GetN sweeps on the same ring differ", swit(map[string]any{"first": vfc18kFmtEndpoints(base), "second": vfc18kFmtEndpoints(again)}))
					bad = true
					return
				}
				// (c) order of the endpoint list is irrelevant
				for p := 1; p < len(rings); p++ {
					other, err := get(rings[p], tenant, ts)
					if err != nil || !vfc18SameSeq(base, other) {
						r.Violation(c, "endpoint-order-dependence:"+cfg.Algo, "a ring built from a permutation of the same endpoint list places the series differently",
							swit(map[string]any{"replicas": vfc18kFmtEndpoints(base), "permuted_endpoints": vfc18kFmtEndpoints(lists[p]), "permuted_replicas": vfc18kFmtEndpoints(other)}))
						bad = true
						return
					}
				}
				recs = append(recs, vfc18Rec{tenant, ts, base})
				// (d) zone balance when the zones can accommodate it
				if balanceApplies {
					cnt := map[string]int{}
					for z := range sizes {
						cnt[z] = 0
					}
					for _, e := range base {
						cnt[azOf[e.Address]]++
					}
					lo, hi := 1<<30, -1
					for _, v := range cnt {
						lo, hi = min(lo, v), max(hi, v)
					}
					if hi-lo > 1 {
						r.Violation(c, "zone-imbalance:"+cfg.Algo, fmt.Sprintf("per-zone replica counts %v differ by more than one although zone sizes %s accommodate RF=%d evenly", cnt, layout, cfg.RF),
							swit(map[string]any{"replicas": vfc18kFmtEndpoints(base), "per_zone": fmt.Sprint(cnt)}))
						bad = true
						return
					}
				}
			})
		}
		// (e) placement depends on the label *values*, not on the identity of the TimeSeries struct: the same
		// (tenant, labels) looked up back to back through ONE recycled struct (Labels overwritten in place, as a
		// decoder reusing its message does) and through fresh struct instances must give the recorded placement.
		if !bad {
			r.Guard(c, "getn-recycled:"+cfg.Algo, wit(nil), func() {
				for ri, h := range rings[:min(2, len(rings))] {
					recycled := &prompb.TimeSeries{}
					for i, rec := range recs {
						recycled.Labels = append(recycled.Labels[:0], rec.ts.Labels...)
						r.Eval(1)
						got, err := get(h, rec.tenant, recycled)
						if err != nil || !vfc18SameSeq(rec.base, got) {
							prev := "none"
							if i > 0 {
								prev = fmt.Sprintf("tenant %q series %s", recs[i-1].tenant, vfc18kFmtSeries(recs[i-1].ts))
							}
							r.Violation(c, "placement-depends-on-series-struct-not-labels:"+cfg.Algo, "a lookup through a recycled TimeSeries struct (labels overwritten since the previous lookup) differs from the lookup of the same tenant and labels through a fresh struct",
								wit(map[string]any{"ring": ri, "tenant": rec.tenant, "series": vfc18kFmtSeries(rec.ts), "fresh_struct": vfc18kFmtEndpoints(rec.base), "recycled_struct": vfc18kFmtEndpoints(got), "previous_lookup_through_recycled_struct": prev, "error": fmt.Sprint(err)}))
							return
						}
					}
					for i := len(recs) - 1; i >= 0; i -= 3 {
						rec := recs[i]
						inst := &prompb.TimeSeries{Labels: append([]labelpb.ZLabel(nil), rec.ts.Labels...)}
						r.Eval(1)
						got, err := get(h, rec.tenant, inst)
						if err != nil || !vfc18SameSeq(rec.base, got) {
							r.Violation(c, "placement-differs-between-struct-instances:"+cfg.Algo, "the same tenant and labels looked up through another TimeSeries instance are placed differently",
								wit(map[string]any{"ring": ri, "tenant": rec.tenant, "series": vfc18kFmtSeries(rec.ts), "first": vfc18kFmtEndpoints(rec.base), "other_instance": vfc18kFmtEndpoints(got), "error": fmt.Sprint(err)}))
							return
						}
					}
				}
			})
		}
		for _, h := range rings {
			h.Close()
		}
	}
}

func vfc18SameSeq(a, b []Endpoint) bool {
	if len(a) != len(b) {
		return false
	}
	for i := range a {
		if a[i] != b[i] {
			return false
		}
	}
	return true
}
