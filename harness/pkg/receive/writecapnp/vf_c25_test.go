//go:build verif

package writecapnp

// Monitor for C25 - Cap'n Proto replication encoding is lossless.
//
// Every generated multi-tenant write request is encoded and decoded along the production paths:
//   marshal / packed : Build + Message().Marshal() / MarshalPacked()  ->  capnp.Unmarshal(Packed) -> NewRequest(...).At
//   rpc-multi        : the real RemoteWriteClient (TimeseriesTenantData, shared symbol table) over an in-memory
//                      connection -> a Writer server in the monitor that decodes like receive.CapNProtoHandler
//                      (NewRequest per tenant tuple)
//   rpc-single       : same with the deprecated single-tenant form (NewSingleTenantRequest)
// and the decoded series are compared, per tenant, with the input converted by the protobuf path's own
// prompb -> model conversions (what a protobuf-replicated peer would have appended).

import (
	"context"
	"fmt"
	"math"
	"math/rand"
	"sort"
	"strings"
	"sync"
	"testing"

	"capnproto.org/go/capnp/v3"
	"capnproto.org/go/capnp/v3/rpc"
	"github.com/go-kit/log"
	"github.com/prometheus/prometheus/model/histogram"
	"github.com/prometheus/prometheus/model/labels"
	"google.golang.org/grpc/test/bufconn"

	"github.com/thanos-io/thanos/pkg/store/labelpb"
	"github.com/thanos-io/thanos/pkg/store/storepb"
	"github.com/thanos-io/thanos/pkg/store/storepb/prompb"
	"github.com/thanos-io/thanos/pkg/verifhook/vfkit"
)

type vfc25Ex struct {
	labels [][2]string
	value  float64
	ts     int64
}

type vfc25Series struct {
	labels  [][2]string
	samples []FloatSample
	hists   []HistogramSample
	exs     []vfc25Ex
}

type vfc25Tenant struct {
	tenant string
	series []vfc25Series
}

func vfc25Pairs(l labels.Labels) [][2]string {
	var out [][2]string
	l.Range(func(lb labels.Label) {
		out = append(out, [2]string{strings.Clone(lb.Name), strings.Clone(lb.Value)})
	})
	return out
}

// vfc25Drain reads a decoded request completely, copying everything out of Cap'n Proto memory.
func vfc25Drain(req *Request) (vfc25Tenant, error) {
	out := vfc25Tenant{tenant: strings.Clone(req.Tenant)}
	var s Series
	for req.Next() {
		if err := req.At(&s); err != nil {
			return out, err
		}
		ds := vfc25Series{labels: vfc25Pairs(s.Labels)}
		ds.samples = append(ds.samples, s.Samples...)
		ds.hists = append(ds.hists, s.Histograms...) // histogram objects are freshly allocated per At
		for _, e := range s.Exemplars {
			ds.exs = append(ds.exs, vfc25Ex{labels: vfc25Pairs(e.Labels), value: e.Value, ts: e.Ts})
		}
		out.series = append(out.series, ds)
	}
	return out, nil
}

// vfc25DecodeWR decodes a WriteRequest the way receive.CapNProtoHandler.Write does.
func vfc25DecodeWR(wr WriteRequest) ([]vfc25Tenant, error) {
	var out []vfc25Tenant
	if wr.HasTimeSeries() {
		t, err := wr.Tenant()
		if err != nil {
			return nil, err
		}
		req, err := NewSingleTenantRequest(wr, t)
		if err != nil {
			return nil, err
		}
		d, err := vfc25Drain(req)
		_ = req.Close()
		if err != nil {
			return nil, err
		}
		return append(out, d), nil
	}
	data, err := wr.Data()
	if err != nil {
		return nil, err
	}
	sym, err := wr.Symbols()
	if err != nil {
		return nil, err
	}
	for i := 0; i < data.Len(); i++ {
		tup := data.At(i)
		tenant, err := tup.Tenant()
		if err != nil {
			return nil, err
		}
		req, err := NewRequest(tup, sym, tenant)
		if err != nil {
			return nil, err
		}
		d, err := vfc25Drain(req)
		_ = req.Close()
		if err != nil {
			return nil, err
		}
		out = append(out, d)
	}
	return out, nil
}

type vfc25Server struct {
	mu   sync.Mutex
	got  []vfc25Tenant
	err  error
	seen int
}

func (s *vfc25Server) Write(_ context.Context, call Writer_write) error {
	call.Go()
	wr, err := call.Args().Wr()
	if err != nil {
		return err
	}
	var (
		got  []vfc25Tenant
		derr error
	)
	func() {
		defer func() {
			if p := recover(); p != nil {
				derr = fmt.Errorf("panic while decoding: %v", p)
			}
		}()
		got, derr = vfc25DecodeWR(wr)
	}()
	s.mu.Lock()
	s.got, s.err = got, derr
	s.seen++
	s.mu.Unlock()
	return nil
}

func (s *vfc25Server) take() ([]vfc25Tenant, error, int) {
	s.mu.Lock()
	defer s.mu.Unlock()
	g, e, n := s.got, s.err, s.seen
	s.got, s.err = nil, nil
	return g, e, n
}

// ---- generator ----

func vfc25Float(rng *rand.Rand) float64 {
	switch rng.Intn(12) {
	case 0:
		return math.Inf(1)
	case 1:
		return math.Inf(-1)
	case 2:
		return math.NaN()
	case 3:
		return math.Copysign(0, -1)
	case 4:
		return math.Float64frombits(0x7ff0000000000002)
	case 5:
		return math.MaxFloat64
	default:
		return float64(rng.Intn(2000)-1000) / 8
	}
}

func vfc25Labels(rng *rand.Rand, shared []string, max int, allowEmptySet bool) []labelpb.ZLabel {
	n := rng.Intn(max + 1)
	if n == 0 && !allowEmptySet {
		n = 1
	}
	names := map[string]bool{}
	for len(names) < n {
		var s string
		if rng.Intn(2) == 0 {
			s = shared[rng.Intn(len(shared))]
		} else {
			s = vfkit.Str(rng, 3, false)
		}
		if s == "" {
			s = "n"
		}
		names[s] = true
	}
	var sorted []string
	for k := range names {
		sorted = append(sorted, k)
	}
	sort.Strings(sorted)
	out := make([]labelpb.ZLabel, 0, n)
	for _, k := range sorted {
		var v string
		switch rng.Intn(4) {
		case 0:
			v = shared[rng.Intn(len(shared))]
		case 1:
			v = "" // empty value
		default:
			v = vfkit.Str(rng, 4, false)
		}
		out = append(out, labelpb.ZLabel{Name: k, Value: v})
	}
	return out
}

func vfc25Spans(rng *rand.Rand) ([]prompb.BucketSpan, int) {
	// 0..4 spans; about a quarter of them are empty (Length 0) - leading, in the middle or trailing - and keep
	// their offset: the offset of an empty span still shifts every bucket that follows it
	n := rng.Intn(5)
	var out []prompb.BucketSpan
	total := 0
	for i := 0; i < n; i++ {
		l := uint32(1 + rng.Intn(3))
		if rng.Intn(4) == 0 {
			l = 0
		}
		off := int32(rng.Intn(5))
		if i == 0 {
			off -= 2 // the first span may start at a negative bucket index
		}
		out = append(out, prompb.BucketSpan{Offset: off, Length: l})
		total += int(l)
	}
	return out, total
}

func vfc25Histogram(rng *rand.Rand) prompb.Histogram {
	h := prompb.Histogram{
		Sum:           vfc25Float(rng),
		Schema:        int32(rng.Intn(12)) - 4,
		ZeroThreshold: float64(rng.Intn(4)) / 1024,
		ResetHint:     prompb.Histogram_ResetHint(rng.Intn(4)),
		Timestamp:     rng.Int63n(1<<41) - (1 << 20),
	}
	ps, pn := vfc25Spans(rng)
	ns, nn := vfc25Spans(rng)
	h.PositiveSpans, h.NegativeSpans = ps, ns
	custom := rng.Intn(8) == 0
	if custom {
		// native histogram with custom buckets (schema -53): no zero bucket, no negative side, explicit bounds
		h.Schema = histogram.CustomBucketsSchema
		h.ZeroThreshold = 0
		h.NegativeSpans, nn = nil, 0
		for i := 0; i < pn+1; i++ {
			h.CustomValues = append(h.CustomValues, float64(i)+0.25)
		}
	}
	if rng.Intn(2) == 0 {
		h.Count = &prompb.Histogram_CountInt{CountInt: rng.Uint64() >> uint(rng.Intn(64))}
		switch {
		case custom && rng.Intn(2) == 0:
			h.ZeroCount = &prompb.Histogram_ZeroCountInt{} // explicit zero
		case !custom && rng.Intn(10) > 0:
			h.ZeroCount = &prompb.Histogram_ZeroCountInt{ZeroCountInt: uint64(rng.Intn(10))}
		}
		for i := 0; i < pn; i++ {
			h.PositiveDeltas = append(h.PositiveDeltas, int64(rng.Intn(9)-2))
		}
		for i := 0; i < nn; i++ {
			h.NegativeDeltas = append(h.NegativeDeltas, int64(rng.Intn(9)-2))
		}
	} else {
		h.Count = &prompb.Histogram_CountFloat{CountFloat: float64(rng.Intn(1000)) / 4}
		switch {
		case custom && rng.Intn(2) == 0:
			h.ZeroCount = &prompb.Histogram_ZeroCountFloat{} // explicit zero
		case !custom && rng.Intn(10) > 0:
			// the zero_count oneof may legitimately be absent (zero bucket empty): 1 in 10
			h.ZeroCount = &prompb.Histogram_ZeroCountFloat{ZeroCountFloat: float64(rng.Intn(10)) / 2}
		}
		for i := 0; i < pn; i++ {
			h.PositiveCounts = append(h.PositiveCounts, float64(rng.Intn(40))/4)
		}
		for i := 0; i < nn; i++ {
			h.NegativeCounts = append(h.NegativeCounts, float64(rng.Intn(40))/4)
		}
	}
	return h
}

func vfc25Gen(rng *rand.Rand) []storepb.TimeSeriesTenantTuple {
	shared := []string{"__name__", "job", "instance", "up", "a", "", "\xff", "é"}
	for i := rng.Intn(4); i > 0; i-- {
		shared = append(shared, vfkit.Str(rng, 3, false))
	}
	nTen := 1 + rng.Intn(4)
	out := make([]storepb.TimeSeriesTenantTuple, nTen)
	for ti := range out {
		out[ti].Tenant = fmt.Sprintf("tenant-%d%s", ti, vfkit.Str(rng, 1, true))
		nSeries := rng.Intn(7)
		if rng.Intn(10) == 0 {
			nSeries = rng.Intn(21)
		}
		for si := 0; si < nSeries; si++ {
			ts := prompb.TimeSeries{Labels: vfc25Labels(rng, shared, 5, false)}
			for k := rng.Intn(6); k > 0; k-- {
				ts.Samples = append(ts.Samples, prompb.Sample{Timestamp: rng.Int63n(1<<41) - (1 << 20), Value: vfc25Float(rng)})
			}
			if rng.Intn(3) == 0 {
				for k := rng.Intn(6); k > 0; k-- {
					ts.Histograms = append(ts.Histograms, vfc25Histogram(rng))
				}
			}
			if rng.Intn(3) == 0 {
				for k := rng.Intn(6); k > 0; k-- {
					ts.Exemplars = append(ts.Exemplars, prompb.Exemplar{Labels: vfc25Labels(rng, shared, 3, true), Value: vfc25Float(rng), Timestamp: rng.Int63n(1 << 41)})
				}
			}
			out[ti].Timeseries = append(out[ti].Timeseries, ts)
		}
	}
	return out
}

// ---- oracle ----

func vfc25SameF(a, b float64) bool { return math.Float64bits(a) == math.Float64bits(b) }

func vfc25SamePairs(want []labelpb.ZLabel, got [][2]string) bool {
	if len(want) != len(got) {
		return false
	}
	for i := range want {
		if want[i].Name != got[i][0] || want[i].Value != got[i][1] {
			return false
		}
	}
	return true
}

func vfc25SameSpans(a, b []histogram.Span) bool {
	if len(a) != len(b) {
		return false
	}
	for i := range a {
		if a[i] != b[i] {
			return false
		}
	}
	return true
}

func vfc25SameFloats(a, b []float64) bool {
	if len(a) != len(b) {
		return false
	}
	for i := range a {
		if !vfc25SameF(a[i], b[i]) {
			return false
		}
	}
	return true
}

func vfc25SameInts(a, b []int64) bool {
	if len(a) != len(b) {
		return false
	}
	for i := range a {
		if a[i] != b[i] {
			return false
		}
	}
	return true
}

// vfc25HistDiff names the first field of the decoded histogram that differs from the protobuf-path conversion of the input.
func vfc25HistDiff(in prompb.Histogram, got HistogramSample) string {
	if got.Timestamp != in.Timestamp {
		return "timestamp"
	}
	if in.IsFloatHistogram() {
		w := prompb.FloatHistogramProtoToFloatHistogram(in)
		g := got.FloatHistogram
		switch {
		case g == nil || got.Histogram != nil:
			return "kind"
		case g.CounterResetHint != w.CounterResetHint:
			return "reset-hint"
		case g.Schema != w.Schema:
			return "schema"
		case !vfc25SameF(g.ZeroThreshold, w.ZeroThreshold):
			return "zero-threshold"
		case !vfc25SameF(g.ZeroCount, w.ZeroCount):
			return "zero-count"
		case !vfc25SameF(g.Count, w.Count):
			return "count"
		case !vfc25SameF(g.Sum, w.Sum):
			return "sum"
		case !vfc25SameSpans(g.PositiveSpans, w.PositiveSpans), !vfc25SameSpans(g.NegativeSpans, w.NegativeSpans):
			return "spans"
		case !vfc25SameFloats(g.PositiveBuckets, w.PositiveBuckets), !vfc25SameFloats(g.NegativeBuckets, w.NegativeBuckets):
			return "buckets"
		case !vfc25SameFloats(g.CustomValues, w.CustomValues):
			return "custom-values"
		}
		return ""
	}
	w := prompb.HistogramProtoToHistogram(in)
	g := got.Histogram
	switch {
	case g == nil || got.FloatHistogram != nil:
		return "kind"
	case g.CounterResetHint != w.CounterResetHint:
		return "reset-hint"
	case g.Schema != w.Schema:
		return "schema"
	case !vfc25SameF(g.ZeroThreshold, w.ZeroThreshold):
		return "zero-threshold"
	case g.ZeroCount != w.ZeroCount:
		return "zero-count"
	case g.Count != w.Count:
		return "count"
	case !vfc25SameF(g.Sum, w.Sum):
		return "sum"
	case !vfc25SameSpans(g.PositiveSpans, w.PositiveSpans), !vfc25SameSpans(g.NegativeSpans, w.NegativeSpans):
		return "spans"
	case !vfc25SameInts(g.PositiveBuckets, w.PositiveBuckets), !vfc25SameInts(g.NegativeBuckets, w.NegativeBuckets):
		return "buckets"
	case !vfc25SameFloats(g.CustomValues, w.CustomValues):
		return "custom-values"
	}
	return ""
}

// vfc25Compare returns (fingerprint class, text) of the first difference, or "".
func vfc25Compare(want []storepb.TimeSeriesTenantTuple, got []vfc25Tenant) (string, string) {
	if len(want) != len(got) {
		return "tenant-count", fmt.Sprintf("%d tenant tuples encoded, %d decoded", len(want), len(got))
	}
	for ti, wt := range want {
		gt := got[ti]
		if wt.Tenant != gt.tenant {
			return "tenant-name", fmt.Sprintf("tuple %d: tenant %q decoded as %q", ti, wt.Tenant, gt.tenant)
		}
		if len(wt.Timeseries) != len(gt.series) {
			return "series-count", fmt.Sprintf("tenant %q: %d series encoded, %d decoded", wt.Tenant, len(wt.Timeseries), len(gt.series))
		}
		for si, ws := range wt.Timeseries {
			gs := gt.series[si]
			if !vfc25SamePairs(ws.Labels, gs.labels) {
				return "labels", fmt.Sprintf("tenant %q series %d: labels %q decoded as %q", wt.Tenant, si, ws.Labels, gs.labels)
			}
			if len(ws.Samples) != len(gs.samples) {
				return "samples", fmt.Sprintf("tenant %q series %d: %d samples encoded, %d decoded", wt.Tenant, si, len(ws.Samples), len(gs.samples))
			}
			for k := range ws.Samples {
				if ws.Samples[k].Timestamp != gs.samples[k].Timestamp || !vfc25SameF(ws.Samples[k].Value, gs.samples[k].Value) {
					return "samples", fmt.Sprintf("tenant %q series %d sample %d: %v decoded as %v", wt.Tenant, si, k, ws.Samples[k], gs.samples[k])
				}
			}
			if len(ws.Histograms) != len(gs.hists) {
				return "histogram-count", fmt.Sprintf("tenant %q series %d: %d histograms encoded, %d decoded", wt.Tenant, si, len(ws.Histograms), len(gs.hists))
			}
			for k := range ws.Histograms {
				if f := vfc25HistDiff(ws.Histograms[k], gs.hists[k]); f != "" {
					kind := "int"
					if ws.Histograms[k].IsFloatHistogram() {
						kind = "float"
					}
					return "histogram:" + f, fmt.Sprintf("tenant %q series %d histogram %d (%s, schema %d): field %s differs after the round trip: encoded %+v decoded int=%+v float=%+v",
						wt.Tenant, si, k, kind, ws.Histograms[k].Schema, f, ws.Histograms[k], gs.hists[k].Histogram, gs.hists[k].FloatHistogram)
				}
			}
			if len(ws.Exemplars) != len(gs.exs) {
				return "exemplars", fmt.Sprintf("tenant %q series %d: %d exemplars encoded, %d decoded", wt.Tenant, si, len(ws.Exemplars), len(gs.exs))
			}
			for k, we := range ws.Exemplars {
				ge := gs.exs[k]
				if we.Timestamp != ge.ts || !vfc25SameF(we.Value, ge.value) || !vfc25SamePairs(we.Labels, ge.labels) {
					return "exemplars", fmt.Sprintf("tenant %q series %d exemplar %d: %v decoded as %v", wt.Tenant, si, k, we, ge)
				}
			}
		}
	}
	return "", ""
}

func vfc25DecodeBytes(b []byte, packed bool) (out []vfc25Tenant, err error) {
	defer func() {
		if p := recover(); p != nil {
			err = fmt.Errorf("panic while decoding: %v", p)
		}
	}()
	var msg *capnp.Message
	if packed {
		msg, err = capnp.UnmarshalPacked(b)
	} else {
		msg, err = capnp.Unmarshal(b)
	}
	if err != nil {
		return nil, err
	}
	wr, err := ReadRootWriteRequest(msg)
	if err != nil {
		return nil, err
	}
	return vfc25DecodeWR(wr)
}

func vfc25Witness(in []storepb.TimeSeriesTenantTuple) any {
	type hs struct {
		Kind         string    `json:"kind"`
		Schema       int32     `json:"schema"`
		CustomValues []float64 `json:"custom_values,omitempty"`
		Spans        int       `json:"spans"`
	}
	type ser struct {
		Labels     []string `json:"labels"`
		Samples    int      `json:"samples"`
		Histograms []hs     `json:"histograms,omitempty"`
		Exemplars  int      `json:"exemplars"`
	}
	type ten struct {
		Tenant string `json:"tenant"`
		Series []ser  `json:"series"`
	}
	var out []ten
	for _, t := range in {
		tt := ten{Tenant: t.Tenant}
		for _, s := range t.Timeseries {
			ss := ser{Samples: len(s.Samples), Exemplars: len(s.Exemplars)}
			for _, l := range s.Labels {
				ss.Labels = append(ss.Labels, fmt.Sprintf("%q=%q", l.Name, l.Value))
			}
			for _, h := range s.Histograms {
				k := "int"
				if h.IsFloatHistogram() {
					k = "float"
				}
				ss.Histograms = append(ss.Histograms, hs{Kind: k, Schema: h.Schema, CustomValues: h.CustomValues, Spans: len(h.PositiveSpans) + len(h.NegativeSpans)})
			}
			tt.Series = append(tt.Series, ss)
		}
		out = append(out, tt)
	}
	return out
}

func TestVF_C25(t *testing.T) {
	r := vfkit.Start(t, "C25")
	defer r.Finish()
	r.Rule("case = one generated write request: 1..4 tenants, 0..20 series each, 1..5 sorted labels (adversarial alphabet incl. empty values, invalid UTF-8, symbols shared across series/tenants/exemplars), 0..5 samples (NaN payloads, +-Inf, -0, MaxFloat64), " +
		"0..5 native histograms (int, float, custom-bucket; spans, deltas/counts, reset hints, uint64 counts), 0..5 exemplars with 0..3 labels; " +
		"four encode/decode paths per case: Marshal, MarshalPacked (per tenant), real RemoteWriteClient over an in-memory connection in multi-tenant form (one shared symbol table) and in single-tenant form, decoded with NewRequest/NewSingleTenantRequest + At; " +
		"oracle: per tenant and series index, labels, samples (bitwise), histograms (every field vs. the protobuf path's prompb->model conversion of the input) and exemplars are equal. distinct = hash of the request; non-trivial = at least one series")
	r.Assume("series and exemplar labels are sorted by name with unique non-empty names (what remote write delivers); exemplar HasTs is not part of the encoding and is not compared")
	r.Assume("reference for histograms = prompb.HistogramProtoToHistogram / FloatHistogramProtoToFloatHistogram (the conversions the protobuf replication path applies)")
	n := r.N(3000, 100000)
	r.Require(int64(3*n), n/2) // 4 paths per request; a path that ends in a (known) violation stops evaluating that request

	// in-memory RPC: real client, monitor-side Writer server
	lis := bufconn.Listen(1 << 20)
	srv := &vfc25Server{}
	srvClient := Writer_ServerToClient(srv)
	go func() {
		for {
			conn, err := lis.Accept()
			if err != nil {
				return
			}
			go func() {
				rc := rpc.NewConn(rpc.NewPackedStreamTransport(conn), &rpc.Options{BootstrapClient: capnp.Client(srvClient).AddRef()})
				<-rc.Done()
			}()
		}
	}()
	client := NewRemoteWriteClient(lis, log.NewNopLogger())
	defer func() {
		_ = client.Close()
		_ = lis.Close()
		srvClient.Release()
	}()

	for c := 0; c < n; c++ {
		if !r.Want(c) {
			continue
		}
		rng := r.Rand(c)
		in := vfc25Gen(rng)
		wit := map[string]any{"request": vfc25Witness(in)}
		total := 0
		for _, tt := range in {
			total += len(tt.Timeseries)
		}
		if total > 0 {
			r.Distinct(fmt.Sprintf("%v", in))
		}
		r.Sample(map[string]any{"tenants": len(in), "series": total})
		report := func(path, cls, what string) {
			wit["path"] = path
			fp := cls + "-differs"
			switch {
			case cls == "decode-error" && strings.Contains(what, "Which() != zeroCountFloat"):
				fp = "decode-panic:float-histogram-without-float-zero-count"
			case cls == "decode-error" && strings.Contains(what, "Which() != zeroCountInt"):
				fp = "decode-panic:int-histogram-without-int-zero-count"
			case cls == "decode-error" && strings.Contains(what, "panic while decoding"):
				fp = "decode-panic:other"
			case cls == "decode-error" || cls == "encode-error":
				fp = cls
			}
			r.Violation(c, fp, path+": "+what, wit)
		}
		// marshal / packed: per tenant
		for _, packed := range []bool{false, true} {
			path := "marshal"
			if packed {
				path = "packed"
			}
			r.Eval(1)
			r.Guard(c, path, wit, func() {
				for _, tt := range in {
					var (
						b   []byte
						err error
					)
					if packed {
						b, err = MarshalPacked(tt.Tenant, tt.Timeseries)
					} else {
						b, err = Marshal(tt.Tenant, tt.Timeseries)
					}
					if err != nil {
						report(path, "encode-error", err.Error())
						return
					}
					got, err := vfc25DecodeBytes(b, packed)
					if err != nil {
						report(path, "decode-error", err.Error())
						return
					}
					if cls, what := vfc25Compare([]storepb.TimeSeriesTenantTuple{tt}, got); cls != "" {
						report(path, cls, what)
						return
					}
				}
			})
		}
		// rpc-multi
		r.Eval(1)
		r.Guard(c, "rpc-multi", wit, func() {
			_, before, _ := srv.take()
			_ = before
			_, err := client.RemoteWrite(context.Background(), &storepb.WriteRequest{TimeseriesTenantData: in})
			got, derr, _ := srv.take()
			switch {
			case err != nil:
				r.Inconclusive("rpc-multi: transport error: " + err.Error())
			case derr != nil:
				report("rpc-multi", "decode-error", derr.Error())
			default:
				if cls, what := vfc25Compare(in, got); cls != "" {
					report("rpc-multi", cls, what)
				}
			}
		})
		// rpc-single: first tenant with at least one series (an empty series list is indistinguishable from the multi form on the wire)
		for _, tt := range in {
			if len(tt.Timeseries) == 0 {
				continue
			}
			r.Eval(1)
			r.Guard(c, "rpc-single", wit, func() {
				srv.take()
				_, err := client.RemoteWrite(context.Background(), &storepb.WriteRequest{Tenant: tt.Tenant, Timeseries: tt.Timeseries})
				got, derr, _ := srv.take()
				switch {
				case err != nil:
					r.Inconclusive("rpc-single: transport error: " + err.Error())
				case derr != nil:
					report("rpc-single", "decode-error", derr.Error())
				default:
					if cls, what := vfc25Compare([]storepb.TimeSeriesTenantTuple{tt}, got); cls != "" {
						report("rpc-single", cls, what)
					}
				}
			})
			break
		}
	}
}
